// C17: retransmission schedules are exact under any tick timing.
//
// Op line:  <std|backoff> <b1,b2,...> <post> [<errs> <blocks>]
//
//	errs / blocks: comma lists (- = none) of 1-based retransmitFn invocation numbers that
//	return an error / that block inside retransmitFn until the following burst has completely
//	been handled (a slow publish overlapping later ticks). Neither may influence the schedule.
//
//	one complete history of one scheduled message: the ticker delivers bursts of
//	b1, b2, ... ticks; all tick goroutines of one burst are held at a barrier just
//	before Strategy.Tick and released together (maximal overlap); the next burst
//	starts when every Tick of the previous one returned. After the last burst the
//	context is cancelled (when post > 0) and `post` further ticks are delivered.
//
// Obs line: r=<cumulative retransmit count after each burst> post=<Tick calls after
//
//	cancel> st=<tickCounter/delay/retransmitTick | -> [RACE] [stall:<where>]
package main

import (
	"context"
	"fmt"
	"go/ast"
	"go/parser"
	"go/token"
	"os"
	"path/filepath"
	"runtime"
	"sort"
	"strconv"
	"strings"
	"sync"
	"sync/atomic"
	"time"

	"keepverif/harness/astfacts"
	"keepverif/harness/hx"

	"github.com/ipfs/go-log"
	"github.com/keep-network/keep-core/pkg/net"
	"github.com/keep-network/keep-core/pkg/net/retransmission"
)

var logger = log.Logger("verif-c17")

// ---- generator ------------------------------------------------------------

func gen(r *hx.Rng, n int, tier string) []string {
	var ops []string
	maxBurst := 48
	for i := 0; i < n; i++ {
		strat := "backoff"
		if r.Chance(1, 5) {
			strat = "std"
		}
		var bursts []int
		switch r.Intn(6) {
		case 0: // strictly sequential ticks: the closed form tick by tick
			k := r.Range(0, 40)
			for j := 0; j < k; j++ {
				bursts = append(bursts, 1)
			}
		case 1: // one big burst
			bursts = []int{r.Range(2, 64)}
		case 2: // bursts of two (the smallest overlap)
			k := r.Range(1, 12)
			for j := 0; j < k; j++ {
				bursts = append(bursts, 2)
			}
		default: // mixed
			k := r.Range(1, 8)
			for j := 0; j < k; j++ {
				if r.Chance(1, 3) {
					bursts = append(bursts, 1)
				} else {
					bursts = append(bursts, r.Range(2, maxBurst))
				}
			}
		}
		post := 0
		if r.Chance(1, 2) {
			post = r.Range(1, 5)
		}
		op := fmt.Sprintf("%s %s %d", strat, hx.JoinInts(bursts), post)
		if r.Chance(2, 5) {
			pick := func(max, cnt int) []int {
				seen := map[int]bool{}
				var out []int
				for j := 0; j < cnt; j++ {
					v := r.Range(1, max)
					if !seen[v] {
						seen[v] = true
						out = append(out, v)
					}
				}
				sort.Ints(out)
				return out
			}
			var errs, blocks []int
			if r.Chance(2, 3) {
				errs = pick(7, r.Range(1, 3))
			}
			if r.Chance(1, 2) {
				blocks = pick(6, r.Range(1, 2))
			}
			op += " " + hx.JoinInts(errs) + " " + hx.JoinInts(blocks)
		}
		ops = append(ops, op)
		if r.Chance(1, 12) {
			ops = append(ops, fmt.Sprintf("teardown %d", r.Range(1, 32)))
		}
		if r.Chance(1, 4) { // register / cancel / tick interleavings on one long-lived ticker
			var evs []string
			nreg := 0
			target := r.Range(3, 8)
			for len(evs) < 40 && (nreg < target || r.Chance(2, 3)) {
				switch c := r.Intn(10); {
				case c < 3 && nreg < target:
					evs = append(evs, "r")
					nreg++
				case c < 5 && nreg > 0:
					evs = append(evs, fmt.Sprintf("c%d", r.Intn(nreg)))
				default:
					evs = append(evs, "t")
				}
			}
			ops = append(ops, "reg "+strings.Join(evs, ","))
		}
	}
	return ops
}

// ---- instrumented strategy (a Strategy wrapper; the real one is inside) ----

type wrapped struct {
	inner retransmission.Strategy

	mu   sync.Mutex
	gate chan struct{}

	arrived   int64
	done      int64
	cancelled int32
	postCalls int64
}

func (w *wrapped) setGate(g chan struct{}) {
	w.mu.Lock()
	w.gate = g
	w.mu.Unlock()
}

func (w *wrapped) Tick(fn retransmission.RetransmitFn) error {
	if atomic.LoadInt32(&w.cancelled) != 0 {
		atomic.AddInt64(&w.postCalls, 1)
		return w.inner.Tick(fn)
	}
	w.mu.Lock()
	g := w.gate
	w.mu.Unlock()
	atomic.AddInt64(&w.arrived, 1)
	<-g
	// no synchronisation between here and the return of the real Tick
	err := w.inner.Tick(fn)
	atomic.AddInt64(&w.done, 1)
	return err
}

type counting struct{ n int64 }

func (c *counting) Tick(fn retransmission.RetransmitFn) error {
	atomic.AddInt64(&c.n, 1)
	return nil
}

// A wait that times out is an observation ("stall:<where>"), never a verdict of the harness.
// After the first timeout of an op its remaining waits give up at once, and after a few stalled
// ops in one process the patience drops (a change that loses ticks stalls almost every op).
var (
	opStalled    int32
	stalledOps   int32
	stallTimeout = 3 * time.Second
)

func waitFor(cond func() bool) bool {
	to := stallTimeout
	if atomic.LoadInt32(&stalledOps) >= 6 {
		to = 150 * time.Millisecond
	}
	if atomic.LoadInt32(&opStalled) != 0 {
		to = 20 * time.Millisecond
	}
	deadline := time.Now().Add(to)
	for i := 0; !cond(); i++ {
		if time.Now().After(deadline) {
			if atomic.CompareAndSwapInt32(&opStalled, 0, 1) {
				atomic.AddInt32(&stalledOps, 1)
			}
			return false
		}
		if i < 200 {
			runtime.Gosched()
		} else {
			time.Sleep(50 * time.Microsecond)
		}
	}
	return true
}

// settle waits (bounded) for leftover goroutines of the op; its outcome is not observed.
func settle(cond func() bool) {
	to := time.Second
	if atomic.LoadInt32(&opStalled) != 0 {
		to = 20 * time.Millisecond
	}
	deadline := time.Now().Add(to)
	for !cond() && time.Now().Before(deadline) {
		time.Sleep(100 * time.Microsecond)
	}
}

// race detector log (GORACE log_path=<p> writes <p>.<pid>): its growth during one op
// attributes a reported data race to that op line.
func raceLogSize() int64 {
	for _, kv := range strings.Fields(os.Getenv("GORACE")) {
		if strings.HasPrefix(kv, "log_path=") {
			p := fmt.Sprintf("%s.%d", strings.TrimPrefix(kv, "log_path="), os.Getpid())
			if st, err := os.Stat(p); err == nil {
				return st.Size()
			}
		}
	}
	return 0
}

// teardown <n>: the ticks channel is closed (Ticker.start tears the handler map down) while n
// goroutines register new retransmissions (onTick) on the same ticker.
func execTeardown(arg string) (string, string) {
	n64, err := strconv.ParseUint(arg, 10, 32)
	if err != nil || n64 < 1 || n64 > 64 {
		return "bad-op", "bad"
	}
	n := int(n64)
	race0 := raceLogSize()
	base := runtime.NumGoroutine()
	ticks := make(chan uint64)
	ticker := retransmission.NewTicker(ticks)
	ctx, cancel := context.WithCancel(context.Background())
	defer cancel()
	fn := func() error { return nil }
	for i := 0; i < n; i++ {
		retransmission.ScheduleRetransmissions(ctx, logger, ticker, fn, retransmission.WithStandardStrategy())
	}
	obs := "teardown done"
	if !waitFor(func() bool { return retransmission.VerifC17HandlerCount(ticker) == n }) {
		obs += " stall:register"
	}
	gate := make(chan struct{})
	var wg sync.WaitGroup
	for i := 0; i < n; i++ {
		wg.Add(1)
		go func() {
			defer wg.Done()
			<-gate
			retransmission.ScheduleRetransmissions(ctx, logger, ticker, fn, retransmission.WithStandardStrategy())
		}()
	}
	wg.Add(1)
	go func() {
		defer wg.Done()
		<-gate
		close(ticks)
	}()
	close(gate)
	wg.Wait()
	settle(func() bool { return runtime.NumGoroutine() <= base })
	if raceLogSize() != race0 {
		obs += " RACE"
	}
	return obs, "teardown"
}

// reg <ev,ev,...>: ONE long-lived ticker; events r (schedule one more retransmission with its own
// context: real ScheduleRetransmissions, standard strategy), c<i> (cancel the context of the i-th
// scheduled one), t (tick). obs: per scheduled retransmission the tick numbers at which its
// retransmitFn ran:  0:1.2.3|1:2.3|2:-
func execReg(arg string) (string, string) {
	type ev struct {
		kind byte
		i    int
	}
	var evs []ev
	nreg := 0
	for _, t := range hx.SplitList(arg) {
		switch {
		case t == "r":
			evs = append(evs, ev{'r', 0})
			nreg++
		case t == "t":
			evs = append(evs, ev{'t', 0})
		case len(t) >= 2 && t[0] == 'c':
			v, err := strconv.ParseUint(t[1:], 10, 16)
			if err != nil || t[1] == '+' || int(v) >= nreg {
				return "bad-op", "bad"
			}
			evs = append(evs, ev{'c', int(v)})
		default:
			return "bad-op", "bad"
		}
	}
	if nreg > 12 || len(evs) > 80 {
		return "bad-op", "bad"
	}
	ticks := make(chan uint64)
	ticker := retransmission.NewTicker(ticks)
	sentinel := &counting{}
	sctx, scancel := context.WithCancel(context.Background())
	defer scancel()
	retransmission.ScheduleRetransmissions(sctx, logger, ticker, func() error { return nil }, sentinel)
	stall := ""
	if !waitFor(func() bool { return retransmission.VerifC17HandlerCount(ticker) == 1 }) {
		stall = "sentinel-register"
	}
	base := runtime.NumGoroutine()

	mapCount := 1 // handlers the ticker holds: sentinel + scheduled - dropped at a tick after their cancellation
	type sched struct {
		cancel    context.CancelFunc
		cancelled bool
		removed   bool
		mu        sync.Mutex
		at        []uint64
	}
	var hs []*sched
	var calls int64
	tickNo := uint64(0)
	curTick := uint64(0) // written between ticks only (all goroutines of a tick are awaited)
	removedAfterCancel := false
	for _, e := range evs {
		switch e.kind {
		case 'r':
			h := &sched{}
			ctx, cancel := context.WithCancel(context.Background())
			h.cancel = cancel
			hs = append(hs, h)
			retransmission.ScheduleRetransmissions(ctx, logger, ticker, func() error {
				h.mu.Lock()
				h.at = append(h.at, atomic.LoadUint64(&curTick))
				h.mu.Unlock()
				atomic.AddInt64(&calls, 1)
				return nil
			}, retransmission.WithStandardStrategy())
			// ScheduleRetransmissions registers asynchronously (go ticker.onTick): wait for it
			mapCount++
			if !waitFor(func() bool { return retransmission.VerifC17HandlerCount(ticker) == mapCount }) && stall == "" {
				stall = "register"
			}
		case 'c':
			if !hs[e.i].cancelled {
				hs[e.i].cancelled = true
				hs[e.i].cancel()
			}
		case 't':
			live := int64(0)
			for k, h := range hs {
				if !h.cancelled {
					live++
				} else if !h.removed {
					h.removed = true
					mapCount--
					if k < len(hs)-1 {
						removedAfterCancel = true
					}
				}
			}
			tickNo++
			atomic.StoreUint64(&curTick, tickNo)
			want := atomic.LoadInt64(&calls) + live
			ticks <- tickNo
			if !waitFor(func() bool { return atomic.LoadInt64(&sentinel.n) == int64(tickNo) }) && stall == "" {
				stall = "sentinel"
			}
			retransmission.VerifC17HandlerCount(ticker) // the loop iteration of this tick is over
			if !waitFor(func() bool { return atomic.LoadInt64(&calls) >= want }) && stall == "" {
				stall = "lost-tick"
			}
			settle(func() bool { return runtime.NumGoroutine() <= base })
		}
	}
	for _, h := range hs {
		h.cancel()
	}
	scancel()
	close(ticks)
	settle(func() bool { return runtime.NumGoroutine() < base })
	var out []string
	for k, h := range hs {
		h.mu.Lock()
		at := append([]uint64(nil), h.at...)
		h.mu.Unlock()
		sort.Slice(at, func(i, j int) bool { return at[i] < at[j] })
		ss := "-"
		if len(at) > 0 {
			var p []string
			for _, v := range at {
				p = append(p, fmt.Sprint(v))
			}
			ss = strings.Join(p, ".")
		}
		out = append(out, fmt.Sprintf("%d:%s", k, ss))
	}
	obs := strings.Join(out, "|")
	if len(out) == 0 {
		obs = "-"
	}
	if stall != "" {
		obs += " stall:" + stall
	}
	tag := "reg"
	if removedAfterCancel {
		tag += "+reuse"
	}
	return obs, tag
}

func exec(op string) (string, string) {
	atomic.StoreInt32(&opStalled, 0)
	f := strings.Fields(op)
	if len(f) == 2 && f[0] == "reg" {
		return execReg(f[1])
	}
	if len(f) == 2 && f[0] == "teardown" {
		return execTeardown(f[1])
	}
	if (len(f) != 3 && len(f) != 5) || (f[0] != "std" && f[0] != "backoff") {
		return "bad-op", "bad"
	}
	errAt, blockAt := map[int64]bool{}, map[int64]bool{}
	if len(f) == 5 {
		for i, m := range []map[int64]bool{errAt, blockAt} {
			for _, t := range hx.SplitList(f[3+i]) {
				v, err := strconv.ParseUint(t, 10, 32)
				if err != nil || v < 1 || v > 4096 {
					return "bad-op", "bad"
				}
				m[int64(v)] = true
			}
		}
	}
	var bursts []int
	for _, t := range hx.SplitList(f[1]) {
		b, err := strconv.ParseUint(t, 10, 32)
		if err != nil || b < 1 || b > 4096 {
			return "bad-op", "bad"
		}
		bursts = append(bursts, int(b))
	}
	post64, err := strconv.ParseUint(f[2], 10, 32)
	if err != nil || post64 > 64 {
		return "bad-op", "bad"
	}
	post := int(post64)
	race0 := raceLogSize()
	base := runtime.NumGoroutine()

	var strategy retransmission.Strategy
	if f[0] == "std" {
		strategy = retransmission.WithStrategy(net.StandardRetransmissionStrategy)
	} else {
		strategy = retransmission.WithStrategy(net.BackoffRetransmissionStrategy)
	}
	w := &wrapped{inner: strategy}
	sentinel := &counting{}

	ticks := make(chan uint64)
	ticker := retransmission.NewTicker(ticks)
	ctx, cancel := context.WithCancel(context.Background())
	defer cancel()
	sctx, scancel := context.WithCancel(context.Background())
	defer scancel()

	var retransmits, blockedNow, burstNo int64
	var relMu sync.Mutex
	release := map[int64]chan struct{}{} // burst number at entry -> released when the next burst is done
	relChan := func(k int64) chan struct{} {
		relMu.Lock()
		defer relMu.Unlock()
		if release[k] == nil {
			release[k] = make(chan struct{})
		}
		return release[k]
	}
	retransmit := func() error {
		k := atomic.AddInt64(&retransmits, 1)
		if blockAt[k] && atomic.LoadInt32(&w.cancelled) == 0 {
			ch := relChan(atomic.LoadInt64(&burstNo))
			atomic.AddInt64(&blockedNow, 1)
			<-ch
			atomic.AddInt64(&blockedNow, -1)
		}
		if errAt[k] {
			return fmt.Errorf("verif: publish failed")
		}
		return nil
	}
	retransmission.ScheduleRetransmissions(ctx, logger, ticker, retransmit, w)
	retransmission.ScheduleRetransmissions(sctx, logger, ticker, func() error { return nil }, sentinel)
	stall := ""
	if !waitFor(func() bool { return retransmission.VerifC17HandlerCount(ticker) == 2 }) {
		stall = "register"
	}

	var cum []int64
	total := int64(0)
	tickNo := uint64(0)
	overlap := false
	for _, b := range bursts {
		if stall != "" {
			break
		}
		if b > 1 {
			overlap = true
		}
		g := make(chan struct{})
		w.setGate(g)
		bn := atomic.AddInt64(&burstNo, 1)
		for j := 0; j < b; j++ {
			tickNo++
			ticks <- tickNo
		}
		total += int64(b)
		if !waitFor(func() bool { return atomic.LoadInt64(&w.arrived) == total }) {
			stall = "arrive"
		}
		close(g)
		if !waitFor(func() bool { return atomic.LoadInt64(&w.done)+atomic.LoadInt64(&blockedNow) == total }) {
			stall = "done"
		}
		cum = append(cum, atomic.LoadInt64(&retransmits))
		close(relChan(bn - 1)) // a publish that blocked during the previous burst returns now
	}
	// every blocked publish returns before the cancellation
	close(relChan(atomic.LoadInt64(&burstNo)))
	if stall == "" && !waitFor(func() bool { return atomic.LoadInt64(&w.done) == total }) {
		stall = "unblock"
	}
	if post > 0 && stall == "" {
		atomic.StoreInt32(&w.cancelled, 1)
		cancel()
		for j := 0; j < post+1; j++ { // +1: flush tick, makes sure tick `post` was fully handled
			tickNo++
			ticks <- tickNo
		}
		if !waitFor(func() bool { return atomic.LoadInt64(&sentinel.n) == int64(tickNo) }) {
			stall = "sentinel"
		}
	}
	scancel()
	cancel()
	close(ticks)
	settle(func() bool { return runtime.NumGoroutine() <= base })

	st := "-"
	if bos, ok := strategy.(*retransmission.BackoffStrategy); ok {
		tc, d, rt := retransmission.VerifC17BackoffState(bos)
		st = fmt.Sprintf("%d/%d/%d", tc, d, rt)
	}
	// retransmissions that happened after the cancellation was handled
	late := atomic.LoadInt64(&retransmits)
	if len(cum) > 0 {
		late -= cum[len(cum)-1]
	}
	obs := fmt.Sprintf("r=%s post=%d late=%d st=%s", hx.JoinInts(cum), atomic.LoadInt64(&w.postCalls), late, st)
	if raceLogSize() != race0 {
		obs += " RACE"
	}
	if stall != "" {
		obs += " stall:" + stall
	}
	tag := f[0]
	if len(bursts) == 0 {
		tag = "none"
	} else {
		if overlap {
			tag += "+overlap"
		} else {
			tag += "+sequential"
		}
		if post > 0 {
			tag += "+cancel"
		}
		if len(cum) > 0 && cum[len(cum)-1] >= 4 {
			tag += "+deep"
		}
		last := int64(0)
		if len(cum) > 0 {
			last = cum[len(cum)-1]
		}
		for k := range errAt {
			if k <= last {
				tag += "+error"
				break
			}
		}
		for k := range blockAt {
			if k <= last {
				tag += "+slow"
				break
			}
		}
	}
	return obs, tag
}

// ---- T1 facts from the source ----------------------------------------------

// backoffTickLocked: every access of BackoffStrategy.Tick to tickCounter / delay /
// retransmitTick happens between <recv>.<m>.Lock() and the matching Unlock (or with a
// deferred Unlock), where m is a sync.Mutex field of the struct.
func backoffTickLocked() bool {
	repo := os.Getenv("VERIF_REPO")
	if repo == "" {
		repo = "/repo"
	}
	fset := token.NewFileSet()
	file, err := parser.ParseFile(fset, filepath.Join(repo, "pkg/net/retransmission/strategy.go"), nil, 0)
	if err != nil {
		return false
	}
	mutexFields := map[string]bool{}
	ast.Inspect(file, func(n ast.Node) bool {
		ts, ok := n.(*ast.TypeSpec)
		if !ok || ts.Name.Name != "BackoffStrategy" {
			return true
		}
		if st, ok := ts.Type.(*ast.StructType); ok {
			for _, fl := range st.Fields.List {
				if se, ok := fl.Type.(*ast.SelectorExpr); ok {
					if x, ok := se.X.(*ast.Ident); ok && x.Name == "sync" && (se.Sel.Name == "Mutex" || se.Sel.Name == "RWMutex") {
						for _, nm := range fl.Names {
							mutexFields[nm.Name] = true
						}
					}
				}
			}
		}
		return false
	})
	state := map[string]bool{"tickCounter": true, "delay": true, "retransmitTick": true}
	found, ok := false, true
	for _, d := range file.Decls {
		fd, isFn := d.(*ast.FuncDecl)
		if !isFn || fd.Name.Name != "Tick" || fd.Recv == nil || len(fd.Recv.List) != 1 || len(fd.Recv.List[0].Names) != 1 {
			continue
		}
		star, isStar := fd.Recv.List[0].Type.(*ast.StarExpr)
		if !isStar {
			continue
		}
		if id, isId := star.X.(*ast.Ident); !isId || id.Name != "BackoffStrategy" {
			continue
		}
		found = true
		recv := fd.Recv.List[0].Names[0].Name
		locked := false
		// lockCall: recv.<mutexField>.<name>()
		lockCall := func(e ast.Expr, name string) bool {
			c, isCall := e.(*ast.CallExpr)
			if !isCall {
				return false
			}
			s, isSel := c.Fun.(*ast.SelectorExpr)
			if !isSel || s.Sel.Name != name {
				return false
			}
			s2, isSel2 := s.X.(*ast.SelectorExpr)
			if !isSel2 || !mutexFields[s2.Sel.Name] {
				return false
			}
			x, isId := s2.X.(*ast.Ident)
			return isId && x.Name == recv
		}
		var walk func(stmts []ast.Stmt)
		touches := func(n ast.Node) bool {
			t := false
			ast.Inspect(n, func(m ast.Node) bool {
				if s, isSel := m.(*ast.SelectorExpr); isSel && state[s.Sel.Name] {
					if x, isId := s.X.(*ast.Ident); isId && x.Name == recv {
						t = true
					}
				}
				return true
			})
			return t
		}
		walk = func(stmts []ast.Stmt) {
			for _, s := range stmts {
				switch v := s.(type) {
				case *ast.ExprStmt:
					if lockCall(v.X, "Lock") {
						locked = true
						continue
					}
					if lockCall(v.X, "Unlock") {
						locked = false
						continue
					}
				case *ast.DeferStmt:
					if lockCall(v.Call, "Unlock") {
						continue
					}
				case *ast.IfStmt:
					if v.Init != nil && touches(v.Init) && !locked {
						ok = false
					}
					if touches(v.Cond) && !locked {
						ok = false
					}
					walk(v.Body.List)
					if blk, isBlk := v.Else.(*ast.BlockStmt); isBlk {
						walk(blk.List)
					} else if v.Else != nil && touches(v.Else) && !locked {
						ok = false
					}
					continue
				case *ast.BlockStmt:
					walk(v.List)
					continue
				}
				if touches(s) && !locked {
					ok = false
				}
			}
		}
		walk(fd.Body.List)
	}
	return found && ok
}

// tickerHandlersLocked: Ticker.start and Ticker.onTick touch the handlers map only while
// handlersMutex is held.
func tickerHandlersLocked() bool {
	ok := true
	for _, fn := range []string{"Ticker.start", "Ticker.onTick"} {
		g, _, err := astfacts.GuardedBy("pkg/net/retransmission/ticker.go", fn, "handlersMutex", "handlers", "nextHandlerId")
		if err != nil || !g {
			ok = false
		}
	}
	return ok
}

func facts() []string {
	bos := retransmission.WithBackoffStrategy()
	tc, d, rt := retransmission.VerifC17BackoffState(bos)
	return []string{
		fmt.Sprintf("nat initTickCounter %d", tc),
		fmt.Sprintf("nat initDelay %d", d),
		fmt.Sprintf("nat initRetransmitTick %d", rt),
		fmt.Sprintf("bool backoffTickLocked %v", backoffTickLocked()),
		astfacts.BoolFact("tickerHandlersLocked", tickerHandlersLocked()),
	}
}

func main() {
	hx.Main(&hx.Config{Prop: "C17", Gen: gen, Exec: exec, Facts: facts})
}
