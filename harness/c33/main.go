// C33: proposal discovery selects exactly the eligible requests, oldest first.
//
// The real tbtcpg discovery code runs against fake host/Bitcoin chains built from the op line.
// Times are given as AGES in seconds relative to the moment the case starts (the code calls
// time.Now() itself); the generator keeps every age at least 30 s away from each bound.
//
// Op lines (positional, "-" = empty list, E = that chain call fails):
//
//	dep <wallet> <max> <skipSwept> <skipUnconf> <minAge> <events> <reqs> <confs>     tbtcpg.FindDeposits
//	dsweep <wallet> <max> <minAge> <events> <reqs> <confs>          DepositSweepTask.FindDepositsToSweep
//	   events : block:wallet:tx:idx      reqs : tx:idx:age:sweptAt  (age E = lookup fails; absent = not found)
//	   confs  : tx:n  (n E = confirmations call fails; absent = 0)
//	red <wallet> <current> <limit> <timeout> <minAge> <avgBlockTime> <events> <pend> <delays>
//	                                                              findPendingRedemptions (hook)
//	rtask <wallet> <current> <limit> <timeout> <minAge> <avgBlockTime> <events> <pend> <delays>
//	                                                              RedemptionTask.FindPendingRedemptions
//	   events : block:wallet:script      pend : wallet:script:age (age E = lookup fails; absent = not pending)
//	   delays : wallet:script:seconds (E = fails; absent = 0)
//	full <checklist> <dsweep args w/o wallet> <rtask args w/o wallet>   Generate over the REAL sweep and redemption tasks
//	gen <tasks> <checklist>                                       ProposalGenerator.Generate
//	   tasks : action:outcome (p = proposal, e = empty, x = error)   checklist : actions
//
// Observations:
//
//	dep     ok|err:<class> <tx:idx:block:wallet:swept:conf,...>        dsweep  ok|err:<class> <tx:idx:block,...>
//	red     ok|err:<class> <wallet:script,...>                  rtask   ok|err:<class> <script,...>
//	gen     prop:<task index>|err:<task index>|noop  <indices of the tasks run, in order>
package main

import (
	"fmt"
	"math/big"
	"strconv"
	"strings"
	"time"

	"keepverif/harness/hx"

	golog "github.com/ipfs/go-log/v2"

	"github.com/keep-network/keep-core/pkg/bitcoin"
	"github.com/keep-network/keep-core/pkg/chain"
	"github.com/keep-network/keep-core/pkg/tbtc"
	"github.com/keep-network/keep-core/pkg/tbtcpg"
)

// ---- quiet logger -------------------------------------------------------------

type nolog struct{}

func (nolog) Debug(args ...interface{})                 {}
func (nolog) Debugf(format string, args ...interface{}) {}
func (nolog) Error(args ...interface{})                 {}
func (nolog) Errorf(format string, args ...interface{}) {}
func (nolog) Fatal(args ...interface{})                 {}
func (nolog) Fatalf(format string, args ...interface{}) {}
func (nolog) Info(args ...interface{})                  {}
func (nolog) Infof(format string, args ...interface{})  {}
func (nolog) Panic(args ...interface{})                 {}
func (nolog) Panicf(format string, args ...interface{}) {}
func (nolog) Warn(args ...interface{})                  {}
func (nolog) Warnf(format string, args ...interface{})  {}

// ---- identifiers ----------------------------------------------------------------

func walletPKH(w uint64) (p [20]byte) {
	if w == 0 {
		return
	}
	p[0], p[1], p[19] = 0xc3, 0x33, byte(w)
	p[18] = byte(w >> 8)
	return
}

func walletID(p [20]byte) uint64 {
	if p == ([20]byte{}) {
		return 0
	}
	return uint64(p[19]) | uint64(p[18])<<8
}

func txHash(t uint64) (h bitcoin.Hash) {
	h[0], h[1] = 0x7c, 0x33
	h[31], h[30], h[29] = byte(t), byte(t>>8), byte(t>>16)
	return
}

func txID(h bitcoin.Hash) uint64 { return uint64(h[31]) | uint64(h[30])<<8 | uint64(h[29])<<16 }

// redeemer output script number s: a P2WPKH script for a key hash derived from s
func redeemScript(s uint64) bitcoin.Script {
	var pkh [20]byte
	pkh[0], pkh[19], pkh[18] = 0x5c, byte(s), byte(s>>8)
	sc, err := bitcoin.PayToWitnessPublicKeyHash(pkh)
	if err != nil {
		panic(err)
	}
	return sc
}

func scriptID(sc bitcoin.Script) uint64 {
	if len(sc) != 22 {
		return 1 << 40
	}
	return uint64(sc[21]) | uint64(sc[20])<<8
}

// ---- fake chains ------------------------------------------------------------------

type depKey struct {
	tx  uint64
	idx uint32
}

type redKey struct {
	wallet, script uint64
}

type depReq struct {
	err     bool
	age     int64
	sweptAt int64
}

type lookupAge struct {
	err bool
	age int64
}

type lookupDur struct {
	err bool
	sec int64
}

type fakeChain struct {
	tbtcpg.Chain // nil: any method not defined below panics

	base time.Time

	minAge    uint32
	minAgeErr bool

	depEventsErr bool
	depEvents    []*tbtc.DepositRevealedEvent
	depReqs      map[depKey]depReq

	redEventsErr bool
	redEvents    []*tbtc.RedemptionRequestedEvent
	pend         map[redKey]lookupAge
	delays       map[redKey]lookupDur

	current       uint64
	avgBlockTime  time.Duration
	redMinAge     uint32
	redTimeout    uint32
	lastRedFilter *tbtc.RedemptionRequestedEventFilter

	sweepMax, redMax uint16
	validated        int
}

func (c *fakeChain) at(age int64) time.Time { return time.Unix(c.base.Unix()-age, 0) }

func (c *fakeChain) GetDepositMinAge() (uint32, error) {
	if c.minAgeErr {
		return 0, fmt.Errorf("fake: min age failure")
	}
	return c.minAge, nil
}

func inWallets(list [][20]byte, w [20]byte) bool {
	if len(list) == 0 {
		return true
	}
	for _, x := range list {
		if x == w {
			return true
		}
	}
	return false
}

func (c *fakeChain) PastDepositRevealedEvents(f *tbtc.DepositRevealedEventFilter) ([]*tbtc.DepositRevealedEvent, error) {
	if c.depEventsErr {
		return nil, fmt.Errorf("fake: events failure")
	}
	var out []*tbtc.DepositRevealedEvent
	for _, e := range c.depEvents {
		if f != nil {
			if e.BlockNumber < f.StartBlock || (f.EndBlock != nil && e.BlockNumber > *f.EndBlock) {
				continue
			}
			if !inWallets(f.WalletPublicKeyHash, e.WalletPublicKeyHash) {
				continue
			}
		}
		cp := *e
		out = append(out, &cp)
	}
	return out, nil
}

func (c *fakeChain) BuildDepositKey(h bitcoin.Hash, idx uint32) *big.Int {
	b := append([]byte{1}, h[:]...)
	b = append(b, byte(idx>>24), byte(idx>>16), byte(idx>>8), byte(idx))
	return new(big.Int).SetBytes(b)
}

func (c *fakeChain) GetDepositRequest(h bitcoin.Hash, idx uint32) (*tbtc.DepositChainRequest, bool, error) {
	r, ok := c.depReqs[depKey{txID(h), idx}]
	if !ok {
		return nil, false, nil
	}
	if r.err {
		return nil, false, fmt.Errorf("fake: deposit request failure")
	}
	return &tbtc.DepositChainRequest{
		Amount:     100000,
		RevealedAt: c.at(r.age),
		SweptAt:    time.Unix(r.sweptAt, 0),
	}, true, nil
}

func (c *fakeChain) AverageBlockTime() time.Duration { return c.avgBlockTime }

func (c *fakeChain) PastRedemptionRequestedEvents(f *tbtc.RedemptionRequestedEventFilter) ([]*tbtc.RedemptionRequestedEvent, error) {
	c.lastRedFilter = f
	if c.redEventsErr {
		return nil, fmt.Errorf("fake: events failure")
	}
	var out []*tbtc.RedemptionRequestedEvent
	for _, e := range c.redEvents {
		if f != nil {
			if e.BlockNumber < f.StartBlock || (f.EndBlock != nil && e.BlockNumber > *f.EndBlock) {
				continue
			}
			if !inWallets(f.WalletPublicKeyHash, e.WalletPublicKeyHash) {
				continue
			}
		}
		cp := *e
		out = append(out, &cp)
	}
	return out, nil
}

func (c *fakeChain) BuildRedemptionKey(w [20]byte, sc bitcoin.Script) (*big.Int, error) {
	b := append([]byte{1}, w[:]...)
	b = append(b, sc...)
	return new(big.Int).SetBytes(b), nil
}

func (c *fakeChain) GetPendingRedemptionRequest(w [20]byte, sc bitcoin.Script) (*tbtc.RedemptionRequest, bool, error) {
	r, ok := c.pend[redKey{walletID(w), scriptID(sc)}]
	if !ok {
		return nil, false, nil
	}
	if r.err {
		return nil, false, fmt.Errorf("fake: pending request failure")
	}
	return &tbtc.RedemptionRequest{
		RedeemerOutputScript: sc,
		RequestedAmount:      50000,
		RequestedAt:          c.at(r.age),
	}, true, nil
}

func (c *fakeChain) GetRedemptionDelay(w [20]byte, sc bitcoin.Script) (time.Duration, error) {
	d, ok := c.delays[redKey{walletID(w), scriptID(sc)}]
	if !ok {
		return 0, nil
	}
	if d.err {
		return 0, fmt.Errorf("fake: delay failure")
	}
	return time.Duration(d.sec) * time.Second, nil
}

type fakeBlockCounter struct {
	chain.BlockCounter
	cur uint64
}

func (b *fakeBlockCounter) CurrentBlock() (uint64, error) { return b.cur, nil }

func (c *fakeChain) BlockCounter() (chain.BlockCounter, error) {
	return &fakeBlockCounter{cur: c.current}, nil
}

func (c *fakeChain) GetRedemptionRequestMinAge() (uint32, error) { return c.redMinAge, nil }

func (c *fakeChain) GetRedemptionParameters() (uint64, uint64, uint64, uint64, uint32, *big.Int, uint32, error) {
	return 0, 0, 0, 0, c.redTimeout, big.NewInt(0), 0, nil
}

type fakeBtc struct {
	bitcoin.Chain
	confs map[uint64]lookupAge // age field = confirmations
}

func (b *fakeBtc) GetTransactionConfirmations(h bitcoin.Hash) (uint, error) {
	c, ok := b.confs[txID(h)]
	if !ok {
		return 0, nil
	}
	if c.err {
		return 0, fmt.Errorf("fake: confirmations failure")
	}
	return uint(c.age), nil
}


// ---- methods used only when the real tasks run inside Generate (op `full`) ----

func (c *fakeChain) GetDepositSweepMaxSize() (uint16, error) { return c.sweepMax, nil }

func (c *fakeChain) GetRedemptionMaxSize() (uint16, error) { return c.redMax, nil }

func (c *fakeChain) GetDepositParameters() (uint64, uint64, uint64, uint32, error) {
	return 0, 0, 1000000000, 0, nil
}

func (c *fakeChain) ValidateDepositSweepProposal(w [20]byte, p *tbtc.DepositSweepProposal, extra []struct {
	*tbtc.Deposit
	FundingTx *bitcoin.Transaction
}) error {
	c.validated++
	return nil
}

func (c *fakeChain) ValidateRedemptionProposal(w [20]byte, p *tbtc.RedemptionProposal) error {
	c.validated++
	return nil
}

func (b *fakeBtc) EstimateSatPerVByteFee(blocks uint32) (int64, error) { return 1, nil }

func (b *fakeBtc) GetTransaction(h bitcoin.Hash) (*bitcoin.Transaction, error) {
	return &bitcoin.Transaction{}, nil
}

// ---- parsing ------------------------------------------------------------------

func fields(s string, n int) []string {
	p := strings.Split(s, ":")
	if len(p) != n {
		panic("harness: bad item " + s)
	}
	return p
}

func (c *fakeChain) parseDep(minAge, events, reqs string) {
	if minAge == "E" {
		c.minAgeErr = true
	} else {
		c.minAge = uint32(hx.AtoU64(minAge))
	}
	if events == "E" {
		c.depEventsErr = true
	} else {
		for _, t := range hx.SplitList(events) {
			p := fields(t, 4)
			c.depEvents = append(c.depEvents, &tbtc.DepositRevealedEvent{
				BlockNumber:         hx.AtoU64(p[0]),
				WalletPublicKeyHash: walletPKH(hx.AtoU64(p[1])),
				FundingTxHash:       txHash(hx.AtoU64(p[2])),
				FundingOutputIndex:  uint32(hx.AtoU64(p[3])),
				Amount:              100000,
			})
		}
	}
	c.depReqs = map[depKey]depReq{}
	for _, t := range hx.SplitList(reqs) {
		p := fields(t, 4)
		k := depKey{hx.AtoU64(p[0]), uint32(hx.AtoU64(p[1]))}
		if _, dup := c.depReqs[k]; dup {
			continue
		}
		if p[2] == "E" {
			c.depReqs[k] = depReq{err: true}
		} else {
			c.depReqs[k] = depReq{age: int64(hx.AtoU64(p[2])), sweptAt: int64(hx.AtoU64(p[3]))}
		}
	}
}

func parseConfs(s string) *fakeBtc {
	b := &fakeBtc{confs: map[uint64]lookupAge{}}
	for _, t := range hx.SplitList(s) {
		p := fields(t, 2)
		k := hx.AtoU64(p[0])
		if _, dup := b.confs[k]; dup {
			continue
		}
		if p[1] == "E" {
			b.confs[k] = lookupAge{err: true}
		} else {
			b.confs[k] = lookupAge{age: int64(hx.AtoU64(p[1]))}
		}
	}
	return b
}

func (c *fakeChain) parseRed(events, pend, delays string) {
	if events == "E" {
		c.redEventsErr = true
	} else {
		for _, t := range hx.SplitList(events) {
			p := fields(t, 3)
			c.redEvents = append(c.redEvents, &tbtc.RedemptionRequestedEvent{
				BlockNumber:          hx.AtoU64(p[0]),
				WalletPublicKeyHash:  walletPKH(hx.AtoU64(p[1])),
				RedeemerOutputScript: redeemScript(hx.AtoU64(p[2])),
			})
		}
	}
	c.pend = map[redKey]lookupAge{}
	for _, t := range hx.SplitList(pend) {
		p := fields(t, 3)
		k := redKey{hx.AtoU64(p[0]), hx.AtoU64(p[1])}
		if _, dup := c.pend[k]; dup {
			continue
		}
		if p[2] == "E" {
			c.pend[k] = lookupAge{err: true}
		} else {
			c.pend[k] = lookupAge{age: int64(hx.AtoU64(p[2]))}
		}
	}
	c.delays = map[redKey]lookupDur{}
	for _, t := range hx.SplitList(delays) {
		p := fields(t, 3)
		k := redKey{hx.AtoU64(p[0]), hx.AtoU64(p[1])}
		if _, dup := c.delays[k]; dup {
			continue
		}
		if p[2] == "E" {
			c.delays[k] = lookupDur{err: true}
		} else {
			c.delays[k] = lookupDur{sec: int64(hx.AtoU64(p[2]))}
		}
	}
}

// ---- exec -----------------------------------------------------------------------

func errClass(err error) string {
	m := err.Error()
	for _, c := range []struct{ sub, class string }{
		{"wallet public key hash is required", "err:wallet-required"},
		{"failed to get deposit minimum age", "err:minage"},
		{"failed to get past deposit revealed events", "err:events"},
		{"failed to get deposit request", "err:request"},
		{"no deposit request for key", "err:notfound"},
		{"failed to get past redemption requested events", "err:events"},
		{"failed to get pending redemption request", "err:pending"},
		{"failed to get redemption delay", "err:delay"},
	} {
		if strings.Contains(m, c.sub) {
			return c.class
		}
	}
	return "err:other"
}

func b2i(b bool) int {
	if b {
		return 1
	}
	return 0
}

func execDep(f []string) (string, string) {
	c := &fakeChain{base: time.Now()}
	wallet := hx.AtoU64(f[1])
	max, err := strconv.Atoi(f[2])
	if err != nil {
		panic("harness: bad max")
	}
	c.parseDep(f[5], f[6], f[7])
	btc := parseConfs(f[8])
	res, e := tbtcpg.FindDeposits(c, btc, walletPKH(wallet), max, f[3] == "1", f[4] == "1")
	var items []string
	tie := false
	for i, d := range res {
		if d == nil {
			items = append(items, "nil")
			continue
		}
		if d.WalletPublicKeyHash != walletPKH(walletID(d.WalletPublicKeyHash)) {
			items = append(items, "badwallet")
		}
		items = append(items, fmt.Sprintf("%d:%d:%d:%d:%d:%d", txID(d.FundingTxHash), d.FundingOutputIndex, d.RevealBlock,
			walletID(d.WalletPublicKeyHash), b2i(d.IsSwept), d.Confirmations))
		if i > 0 && res[i-1] != nil && res[i-1].RevealBlock == d.RevealBlock {
			tie = true
		}
	}
	status := "ok"
	tag := "dep-empty"
	if e != nil {
		status = errClass(e)
		tag = "dep-" + strings.TrimPrefix(status, "err:")
	} else if len(res) > 0 {
		tag = "dep-some"
		if max > 0 && len(res) == max {
			tag += "+dep-limit"
		}
		if tie {
			tag += "+dep-tie"
		}
	}
	return status + " " + hx.JoinStrs(items), tag
}

func execDsweep(f []string) (string, string) {
	c := &fakeChain{base: time.Now()}
	wallet := hx.AtoU64(f[1])
	c.parseDep(f[3], f[4], f[5])
	btc := parseConfs(f[6])
	task := tbtcpg.NewDepositSweepTask(c, btc)
	res, e := task.FindDepositsToSweep(nolog{}, walletPKH(wallet), uint16(hx.AtoU64(f[2])))
	var items []string
	for _, d := range res {
		items = append(items, fmt.Sprintf("%d:%d:%d", txID(d.FundingTxHash), d.FundingOutputIndex, d.RevealBlock))
	}
	status, tag := "ok", "dsweep-empty"
	if e != nil {
		status = errClass(e)
		tag = "dsweep-" + strings.TrimPrefix(status, "err:")
	} else if len(res) > 0 {
		tag = "dsweep-some"
	}
	return status + " " + hx.JoinStrs(items), tag
}

func execRed(f []string, viaTask bool) (string, string) {
	c := &fakeChain{base: time.Now()}
	wallet := hx.AtoU64(f[1])
	c.current = hx.AtoU64(f[2])
	limit := uint16(hx.AtoU64(f[3]))
	c.redTimeout = uint32(hx.AtoU64(f[4]))
	c.redMinAge = uint32(hx.AtoU64(f[5]))
	c.avgBlockTime = time.Duration(hx.AtoU64(f[6])) * time.Second
	c.parseRed(f[7], f[8], f[9])
	var items []string
	var e error
	n := 0
	name := "red"
	if viaTask {
		name = "rtask"
		var res []bitcoin.Script
		res, e = tbtcpg.NewRedemptionTask(c, nil).FindPendingRedemptions(nolog{}, walletPKH(wallet), limit)
		for _, sc := range res {
			items = append(items, fmt.Sprint(scriptID(sc)))
		}
		n = len(res)
	} else {
		var res []*tbtcpg.RedemptionRequest
		res, e = tbtcpg.VerifC33FindPendingRedemptions(nolog{}, c, walletPKH(wallet), c.current, limit, c.redTimeout, c.redMinAge)
		for _, r := range res {
			items = append(items, fmt.Sprintf("%d:%d", walletID(r.WalletPublicKeyHash), scriptID(r.RedeemerOutputScript)))
		}
		n = len(res)
	}
	status, tag := "ok", name+"-empty"
	if e != nil {
		status = errClass(e)
		tag = name + "-" + strings.TrimPrefix(status, "err:")
	} else if n > 0 {
		tag = name + "-some"
		if limit > 0 && n == int(limit) {
			tag += "+red-limit"
		}
		if n > 1 {
			tag += "+red-multi"
		}
	}
	if c.lastRedFilter != nil && c.lastRedFilter.StartBlock > 0 {
		tag += "+red-startblock"
	}
	return status + " " + hx.JoinStrs(items), tag
}

// mock task for Generate
type mockTask struct {
	idx     int
	action  tbtc.WalletActionType
	outcome byte
	runs    *[]int
}

type mockProposal struct {
	tbtc.CoordinationProposal
	idx int
}

func (m *mockTask) ActionType() tbtc.WalletActionType { return m.action }

func (m *mockTask) Run(req *tbtc.CoordinationProposalRequest) (tbtc.CoordinationProposal, bool, error) {
	*m.runs = append(*m.runs, m.idx)
	switch m.outcome {
	case 'p':
		return &mockProposal{idx: m.idx}, true, nil
	case 'e':
		return nil, false, nil
	default:
		return nil, false, fmt.Errorf("mock task %d failed", m.idx)
	}
}

func execGen(f []string) (string, string) {
	var runs []int
	var tasks []tbtcpg.ProposalTask
	for i, t := range hx.SplitList(f[1]) {
		p := fields(t, 2)
		if len(p[1]) != 1 {
			panic("harness: bad outcome")
		}
		tasks = append(tasks, &mockTask{idx: i, action: tbtc.WalletActionType(hx.AtoU64(p[0])), outcome: p[1][0], runs: &runs})
	}
	var checklist []tbtc.WalletActionType
	for _, a := range hx.ParseU64s(f[2]) {
		checklist = append(checklist, tbtc.WalletActionType(a))
	}
	pg := tbtcpg.VerifC33NewProposalGenerator(tasks)
	prop, err := pg.Generate(&tbtc.CoordinationProposalRequest{
		WalletPublicKeyHash: walletPKH(1),
		ActionsChecklist:    checklist,
	})
	res, tag := "", ""
	switch {
	case err != nil:
		res, tag = "err:badmsg", "gen-error"
		if prop != nil {
			res = "err-with-proposal"
		} else if len(runs) > 0 {
			last := runs[len(runs)-1]
			if strings.HasPrefix(err.Error(), "error while running proposal task [") &&
				strings.HasSuffix(err.Error(), fmt.Sprintf("[mock task %d failed]", last)) {
				res = fmt.Sprintf("err:%d", last)
			}
		}
	case prop == nil:
		res, tag = "nil-proposal", "gen-weird"
	default:
		switch p := prop.(type) {
		case *mockProposal:
			res, tag = fmt.Sprintf("prop:%d", p.idx), "gen-proposal"
			if len(runs) > 1 {
				tag += "+gen-later"
			}
		case *tbtc.NoopProposal:
			res, tag = "noop", "gen-noop"
		default:
			res, tag = "other-proposal", "gen-weird"
		}
	}
	return res + " " + hx.JoinInts(runs), tag
}

// full <checklist> <depMax> <depMinAge> <depEvents> <reqs> <confs> <current> <redLimit> <timeout> <redMinAge> <avg> <redEvents> <pend> <delays>
// The REAL DepositSweepTask and RedemptionTask (Run: discovery, fee estimation, proposal
// validation) inside the real Generate, wallet 1. Heartbeat / moving funds actions are unsupported.
func execFull(f []string) (string, string) {
	c := &fakeChain{base: time.Now()}
	c.sweepMax = uint16(hx.AtoU64(f[2]))
	c.parseDep(f[3], f[4], f[5])
	btc := parseConfs(f[6])
	c.current = hx.AtoU64(f[7])
	c.redMax = uint16(hx.AtoU64(f[8]))
	c.redTimeout = uint32(hx.AtoU64(f[9]))
	c.redMinAge = uint32(hx.AtoU64(f[10]))
	c.avgBlockTime = time.Duration(hx.AtoU64(f[11])) * time.Second
	c.parseRed(f[12], f[13], f[14])
	var checklist []tbtc.WalletActionType
	for _, a := range hx.ParseU64s(f[1]) {
		checklist = append(checklist, tbtc.WalletActionType(a))
	}
	pg := tbtcpg.VerifC33NewProposalGenerator([]tbtcpg.ProposalTask{
		tbtcpg.NewDepositSweepTask(c, btc),
		tbtcpg.NewRedemptionTask(c, btc),
	})
	prop, err := pg.Generate(&tbtc.CoordinationProposalRequest{
		WalletPublicKeyHash: walletPKH(1),
		ActionsChecklist:    checklist,
	})
	if err != nil {
		idx := "?"
		switch {
		case strings.HasPrefix(err.Error(), "error while running proposal task [DepositSweep]"):
			idx = "0"
		case strings.HasPrefix(err.Error(), "error while running proposal task [Redemption]"):
			idx = "1"
		}
		if prop != nil {
			return "err-with-proposal -", "full-weird"
		}
		return "err:" + idx + " " + strings.TrimPrefix(errClass(err), "err:"), "full-error"
	}
	switch p := prop.(type) {
	case *tbtc.DepositSweepProposal:
		if len(p.DepositsKeys) != len(p.DepositsRevealBlocks) || c.validated != 1 || p.SweepTxFee == nil || p.SweepTxFee.Sign() <= 0 {
			return "sweep-malformed -", "full-weird"
		}
		var items []string
		for i, k := range p.DepositsKeys {
			items = append(items, fmt.Sprintf("%d:%d:%s", txID(k.FundingTxHash), k.FundingOutputIndex, p.DepositsRevealBlocks[i].String()))
		}
		return "sweep " + hx.JoinStrs(items), "full-sweep"
	case *tbtc.RedemptionProposal:
		if c.validated != 1 || p.RedemptionTxFee == nil || p.RedemptionTxFee.Sign() <= 0 {
			return "redeem-malformed -", "full-weird"
		}
		var items []string
		for _, sc := range p.RedeemersOutputScripts {
			items = append(items, fmt.Sprint(scriptID(sc)))
		}
		tag := "full-redeem"
		if len(checklist) > 0 && checklist[0] != tbtc.ActionRedemption {
			tag += "+full-fallthrough"
		}
		return "redeem " + hx.JoinStrs(items), tag
	case *tbtc.NoopProposal:
		return "noop -", "full-noop"
	}
	return "other-proposal -", "full-weird"
}

func exec(op string) (string, string) {
	f := strings.Fields(op)
	switch {
	case len(f) == 9 && f[0] == "dep":
		return execDep(f)
	case len(f) == 7 && f[0] == "dsweep":
		return execDsweep(f)
	case len(f) == 10 && f[0] == "red":
		return execRed(f, false)
	case len(f) == 10 && f[0] == "rtask":
		return execRed(f, true)
	case len(f) == 3 && f[0] == "gen":
		return execGen(f)
	case len(f) == 15 && f[0] == "full":
		return execFull(f)
	}
	return "bad-op", "bad"
}

// ---- generator --------------------------------------------------------------------

// an age at least 30 s away from the bound, on the requested side
func ageAround(r *hx.Rng, bound int64, above bool) int64 {
	d := int64(hx.Pick(r, []int{30, 31, 60, 600, 3600, 100000}))
	if above || bound-d < 0 {
		return bound + d
	}
	return bound - d
}

func genDep(r *hx.Rng, sweepAPI bool) string {
	wallet := uint64(1)
	if r.Chance(1, 8) {
		wallet = 0
	}
	minAge := int64(hx.Pick(r, []int{0, 60, 3600, 7200, 86400}))
	ne := r.Range(0, 8)
	if r.Chance(1, 6) {
		ne = r.Range(13, 30) // more than 12: Go's unstable sort leaves insertion sort here
	}
	type dk struct {
		tx  uint64
		idx uint32
	}
	var events, reqs, confs []string
	seen := map[dk]bool{}
	seenTx := map[uint64]bool{}
	for i := 0; i < ne; i++ {
		k := dk{uint64(r.Range(1, 12)), uint32(r.Intn(2))}
		if seen[k] && !r.Chance(1, 6) { // duplicates of a deposit key are rare but present
			k = dk{uint64(r.Range(13, 40)), uint32(r.Intn(2))}
		}
		block := uint64(100 + r.Intn(6)) // few distinct blocks: ties and out-of-order
		if r.Chance(1, 5) {
			block = uint64(r.Range(1, 1000))
		}
		w := uint64(1)
		if r.Chance(1, 5) {
			w = uint64(r.Range(2, 3))
		}
		events = append(events, fmt.Sprintf("%d:%d:%d:%d", block, w, k.tx, k.idx))
		if !seen[k] {
			seen[k] = true
			switch c := r.Intn(90); {
			case c == 0: // no request on chain
			case c == 1:
				reqs = append(reqs, fmt.Sprintf("%d:%d:E:0", k.tx, k.idx))
			default:
				age := ageAround(r, minAge, !r.Chance(1, 5))
				swept := int64(0)
				if r.Chance(1, 5) {
					swept = int64(hx.Pick(r, []int{1, 1600000000}))
				}
				reqs = append(reqs, fmt.Sprintf("%d:%d:%d:%d", k.tx, k.idx, age, swept))
			}
		}
		if !seenTx[k.tx] {
			seenTx[k.tx] = true
			switch c := r.Intn(12); {
			case c == 0:
				confs = append(confs, fmt.Sprintf("%d:E", k.tx))
			case c == 1: // absent = 0
			case c <= 3:
				confs = append(confs, fmt.Sprintf("%d:%d", k.tx, r.Range(0, 5)))
			case c == 4:
				confs = append(confs, fmt.Sprintf("%d:5", k.tx))
			default:
				confs = append(confs, fmt.Sprintf("%d:%d", k.tx, hx.Pick(r, []int{6, 6, 7, 100})))
			}
		}
	}
	ev := hx.JoinStrs(events)
	if r.Chance(1, 40) {
		ev = "E"
	}
	ma := fmt.Sprint(minAge)
	if r.Chance(1, 40) {
		ma = "E"
	}
	if sweepAPI {
		max := hx.Pick(r, []int{0, 1, 2, 3, 5, 20})
		return fmt.Sprintf("dsweep %d %d %s %s %s %s", wallet, max, ma, ev, hx.JoinStrs(reqs), hx.JoinStrs(confs))
	}
	max := hx.Pick(r, []int{0, 0, 1, 2, 3, 5, 20, -1})
	return fmt.Sprintf("dep %d %d %d %d %s %s %s %s", wallet, max, b2i(!r.Chance(1, 4)), b2i(!r.Chance(1, 4)), ma, ev,
		hx.JoinStrs(reqs), hx.JoinStrs(confs))
}

func genRed(r *hx.Rng, viaTask bool) string {
	wallet := uint64(1)
	if !viaTask && r.Chance(1, 8) {
		wallet = 0
	}
	if viaTask && r.Chance(1, 30) {
		wallet = 0
	}
	timeout := int64(hx.Pick(r, []int{86400, 172800, 432000}))
	minAge := int64(hx.Pick(r, []int{0, 600, 3600, 7200}))
	avg := hx.Pick(r, []int{12, 12, 1, 15})
	current := uint64(hx.Pick(r, []int{500, 5000, 20000, 100000}))
	lookback := uint64(timeout)/uint64(avg) + 1000
	start := uint64(0)
	if current > lookback {
		start = current - lookback
	}
	nk := r.Range(0, 6)
	if r.Chance(1, 10) {
		nk = r.Range(6, 14)
	}
	var events, pend, delays []string
	usedAges := map[int64]bool{}
	allowTies := r.Chance(1, 7)
	for i := 0; i < nk; i++ {
		w := uint64(1)
		if r.Chance(1, 6) {
			w = 2
		}
		s := uint64(i + 1)
		// one or several events per key, out of order blocks, some before the filter start
		for n := 1 + b2i(r.Chance(1, 3)) + b2i(r.Chance(1, 6)); n > 0; n-- {
			block := start + uint64(r.Intn(50))
			if r.Chance(1, 8) && start > 0 {
				block = start - uint64(r.Range(1, int(min64(int64(start), 500))))
			}
			if r.Chance(1, 8) {
				block = current - uint64(r.Intn(int(min64(int64(current), 100))))
			}
			events = append(events, fmt.Sprintf("%d:%d:%d", block, w, s))
		}
		delay := int64(0)
		switch c := r.Intn(12); {
		case c == 0:
			delays = append(delays, fmt.Sprintf("%d:%d:E", w, s))
			delay = -1
		case c <= 3:
			delay = int64(hx.Pick(r, []int{300, 1800, 7200, 36000}))
			delays = append(delays, fmt.Sprintf("%d:%d:%d", w, s, delay))
		}
		eff := minAge
		if delay > eff {
			eff = delay
		}
		switch c := r.Intn(24); {
		case c == 0: // no longer pending
		case c == 1:
			pend = append(pend, fmt.Sprintf("%d:%d:E", w, s))
		default:
			var age int64
			for try := 0; ; try++ {
				switch r.Intn(8) {
				case 0:
					age = ageAround(r, timeout, true) // timed out
				case 1:
					age = ageAround(r, eff, false) // too young
				case 2:
					age = ageAround(r, timeout, false) // just inside
				case 3:
					age = ageAround(r, eff, true) // just old enough
				default:
					age = eff + 30 + int64(r.Intn(int(timeout-eff-60)))
				}
				reused := false
				if allowTies && len(usedAges) > 0 && r.Chance(1, 2) {
					mx := int64(-1)
					for a := range usedAges { // reuse the largest age so far: a tie in RequestedAt
						if a > mx {
							mx = a
						}
					}
					age, reused = mx, true
				}
				// stay 30 s away from both bounds whatever branch produced the age
				if abs64(age-timeout) < 30 || abs64(age-eff) < 30 || (delay < 0 && abs64(age-minAge) < 30) {
					continue
				}
				if reused || !usedAges[age] || try > 20 {
					break
				}
			}
			usedAges[age] = true
			pend = append(pend, fmt.Sprintf("%d:%d:%d", w, s, age))
		}
	}
	// shuffle events (the chain returns them in any order here; the code sorts)
	p := r.Perm(len(events))
	ev2 := make([]string, len(events))
	for i, j := range p {
		ev2[i] = events[j]
	}
	ev := hx.JoinStrs(ev2)
	if r.Chance(1, 40) {
		ev = "E"
	}
	limit := hx.Pick(r, []int{0, 0, 1, 2, 3, 5, 20})
	name := "red"
	if viaTask {
		name = "rtask"
	}
	return fmt.Sprintf("%s %d %d %d %d %d %d %s %s %s", name, wallet, current, limit, timeout, minAge, avg, ev,
		hx.JoinStrs(pend), hx.JoinStrs(delays))
}

func min64(a, b int64) int64 {
	if a < b {
		return a
	}
	return b
}

func abs64(a int64) int64 {
	if a < 0 {
		return -a
	}
	return a
}

func genGen(r *hx.Rng) string {
	nt := r.Range(0, 6)
	var tasks []string
	var acts []int
	for i := 0; i < nt; i++ {
		a := r.Range(0, 5)
		if r.Chance(1, 15) {
			a = r.Range(6, 9) // action types unknown to the enum
		}
		tasks = append(tasks, fmt.Sprintf("%d:%c", a, hx.Pick(r, []byte{'p', 'p', 'e', 'e', 'e', 'x'})))
		acts = append(acts, a)
	}
	nc := r.Range(0, 6)
	var cl []int
	for i := 0; i < nc; i++ {
		a := r.Range(0, 5)
		if len(acts) > 0 && r.Chance(2, 3) {
			a = hx.Pick(r, acts)
		}
		if r.Chance(1, 15) {
			a = r.Range(6, 9)
		}
		cl = append(cl, a)
	}
	return fmt.Sprintf("gen %s %s", hx.JoinStrs(tasks), hx.JoinInts(cl))
}

func genFull(r *hx.Rng) string {
	var dep []string
	for {
		dep = strings.Fields(genDep(r, true)) // dsweep wallet max minAge events reqs confs
		if dep[1] == "1" && dep[3] != "E" && dep[4] != "E" {
			break
		}
	}
	var red []string
	for {
		red = strings.Fields(genRed(r, true)) // rtask wallet cur limit timeout minAge avg events pend delays
		if red[1] == "1" && red[7] != "E" {
			break
		}
	}
	if r.Chance(1, 3) { // nothing to sweep: the generator falls through to the redemption task
		dep[4], dep[5], dep[6] = "-", "-", "-"
	}
	if r.Chance(1, 6) {
		red[7], red[8], red[9] = "-", "-", "-"
	}
	var cl []int
	switch r.Intn(6) {
	case 0:
		cl = []int{3, 2}
	case 1:
		cl = []int{1, 2, 3, 4}
	case 2:
		cl = []int{2}
	case 3:
		cl = []int{3}
	default:
		cl = []int{2, 3}
	}
	return fmt.Sprintf("full %s %s %s %s %s %s %s %s %s %s %s %s %s %s", hx.JoinInts(cl),
		dep[2], dep[3], dep[4], dep[5], dep[6], red[2], red[3], red[4], red[5], red[6], red[7], red[8], red[9])
}

func gen(r *hx.Rng, n int, tier string) []string {
	var ops []string
	for i := 0; i < n; i++ {
		switch c := r.Intn(20); {
		case c < 6:
			ops = append(ops, genDep(r, false))
		case c < 8:
			ops = append(ops, genDep(r, true))
		case c < 14:
			ops = append(ops, genRed(r, false))
		case c < 16:
			ops = append(ops, genRed(r, true))
		case c < 18:
			ops = append(ops, genFull(r))
		default:
			ops = append(ops, genGen(r))
		}
	}
	return ops
}

func main() {
	golog.SetAllLoggers(golog.LevelFatal) // the package logger of tbtcpg is not part of the observation
	hx.Main(&hx.Config{
		Prop: "C33",
		Gen:  gen,
		Exec: exec,
		Facts: func() []string {
			return []string{fmt.Sprintf("nat depositSweepRequiredFundingTxConfirmations %d", uint64(tbtc.DepositSweepRequiredFundingTxConfirmations))}
		},
	})
}
