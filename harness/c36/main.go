// C36: heartbeat failures escalate to an inactivity claim only after repeated failures.
//
// Op line:  hb <step,step,...>      one complete history on a fresh failure counter
//
//	step = <wallet>/<outcome>       wallet = 0..7 (distinct wallet public keys; wallet k+4 is the
//	                                mirrored key of wallet k: same X, negated Y)
//	outcome:
//	  u    operator is unstaking (eligible stake 0)
//	  ue   OperatorToStakingProvider fails      nr  staking provider not registered
//	  se   EligibleStake fails
//	  iv   ValidateHeartbeatProposal rejects the proposal
//	  xp   proposal expiry block below the inactivity claim validity (sanity check of execute)
//	  sg   signing executor returns an error
//	  a<N>i<m1.m2...|->[f]   signing succeeded, activity report has N active members (1..N) and
//	                         the listed inactive members; trailing f = the claim executor fails
//
// Obs line: per step  <err>:<claim>:<counter of that wallet after the step>
//
//	err   = ok | e-unstake | e-invalid | e-expiry | e-sign | e-noinactive | e-claim | e-other
//	claim = -  or  m<inactive members joined by '.'>/<heartbeatFailed t|f>[/badsid]
package main

import (
	"crypto/ecdsa"
	"encoding/hex"
	"errors"
	"fmt"
	"math/big"
	"strconv"
	"strings"

	"keepverif/harness/c35/looprun"
	"keepverif/harness/hx"

	"crypto/elliptic"

	"github.com/keep-network/keep-core/pkg/bitcoin"
	"github.com/keep-network/keep-core/pkg/chain"
	"github.com/keep-network/keep-core/pkg/protocol/group"
	"github.com/keep-network/keep-core/pkg/tbtc"
	"github.com/keep-network/keep-core/pkg/tecdsa"
)

// scriptedChain implements the three Chain methods heartbeatAction.execute uses.
type scriptedChain struct {
	tbtc.Chain // nil: any other call panics (would show up as PANIC)
	outcome    string
	validated  int
}

func (c *scriptedChain) OperatorToStakingProvider() (chain.Address, bool, error) {
	switch c.outcome {
	case "ue":
		return "", false, errors.New("scripted: provider lookup failed")
	case "nr":
		return "", false, nil
	}
	return chain.Address("0xprovider"), true, nil
}

func (c *scriptedChain) EligibleStake(chain.Address) (*big.Int, error) {
	switch c.outcome {
	case "se":
		return nil, errors.New("scripted: stake lookup failed")
	case "u":
		return big.NewInt(0), nil
	}
	return big.NewInt(100000), nil
}

func (c *scriptedChain) ValidateHeartbeatProposal([20]byte, *tbtc.HeartbeatProposal) error {
	c.validated++
	if c.outcome == "iv" {
		return errors.New("scripted: invalid proposal")
	}
	return nil
}

var walletKeys []*ecdsa.PublicKey
var walletKeyStrs []string

func init() {
	add := func(x, y *big.Int) {
		pk := &ecdsa.PublicKey{Curve: tecdsa.Curve, X: x, Y: y}
		walletKeys = append(walletKeys, pk)
		walletKeyStrs = append(walletKeyStrs, hex.EncodeToString(elliptic.Marshal(tecdsa.Curve, x, y)))
	}
	for k := 1; k <= 4; k++ {
		add(tecdsa.Curve.ScalarBaseMult(big.NewInt(int64(1000 + k)).Bytes()))
	}
	// wallets 4..7 are the mirrored keys of wallets 0..3: same X, negated Y (P and -P are
	// different wallets whose encodings agree on the X coordinate / the first 33 bytes)
	p := tecdsa.Curve.Params().P
	for k := 0; k < 4; k++ {
		add(new(big.Int).Set(walletKeys[k].X), new(big.Int).Sub(p, walletKeys[k].Y))
	}
	// wallets 8..11: keys with a short coordinate (leading zero byte in the 32-byte encoding):
	// 8: short X, 9: short Y, 10/11: their mirrors. Any key derived from the coordinates without
	// left-padding differs from the padded encoding exactly for these.
	short := func(coordX bool) (*big.Int, *big.Int) {
		for k := int64(2000); ; k++ {
			x, y := tecdsa.Curve.ScalarBaseMult(big.NewInt(k).Bytes())
			c := y
			if coordX {
				c = x
			}
			if c.BitLen() <= 248 {
				return x, y
			}
		}
	}
	add(short(true))
	add(short(false))
	for k := 8; k < 10; k++ {
		add(new(big.Int).Set(walletKeys[k].X), new(big.Int).Sub(p, walletKeys[k].Y))
	}
}

type step struct {
	w          int
	outcome    string // u ue nr se iv xp sg a
	active     int
	inactive   []group.MemberIndex
	claimFails bool
}

func parseStep(tok string) (*step, bool) {
	p := strings.Split(tok, "/")
	if len(p) != 2 {
		return nil, false
	}
	w, err := strconv.Atoi(p[0])
	if err != nil || w < 0 || w >= len(walletKeys) || strconv.Itoa(w) != p[0] {
		return nil, false
	}
	st := &step{w: w}
	o := p[1]
	switch o {
	case "u", "ue", "nr", "se", "iv", "xp", "sg":
		st.outcome = o
		return st, true
	}
	if !strings.HasPrefix(o, "a") {
		return nil, false
	}
	o = o[1:]
	if strings.HasSuffix(o, "f") {
		st.claimFails = true
		o = o[:len(o)-1]
	}
	q := strings.Split(o, "i")
	if len(q) != 2 {
		return nil, false
	}
	n, err := strconv.Atoi(q[0])
	if err != nil || n < 0 || n > 255 || strconv.Itoa(n) != q[0] {
		return nil, false
	}
	st.outcome, st.active = "a", n
	if q[1] != "-" {
		for _, m := range strings.Split(q[1], ".") {
			v, err := strconv.Atoi(m)
			if err != nil || v < 1 || v > 255 || strconv.Itoa(v) != m {
				return nil, false
			}
			st.inactive = append(st.inactive, group.MemberIndex(v))
		}
	}
	return st, true
}

func classify(err error) string {
	if err == nil {
		return "ok"
	}
	m := err.Error()
	switch {
	case strings.Contains(m, "failed to check if the operator is unstaking"):
		return "e-unstake"
	case strings.Contains(m, "heartbeat proposal is invalid"):
		return "e-invalid"
	case strings.Contains(m, "invalid proposal expiry block"):
		return "e-expiry"
	case strings.Contains(m, "heartbeat signing process errored out"):
		return "e-sign"
	case strings.Contains(m, "undetermined set of inactive members"):
		return "e-noinactive"
	case strings.Contains(m, "error while notifying about operator inactivity"):
		return "e-claim"
	}
	return "e-other"
}

func exec(op string) (string, string) {
	f := strings.Fields(op)
	if len(f) > 0 && f[0] == "loop" {
		return looprun.Exec(op)
	}
	if len(f) != 2 || f[0] != "hb" {
		return "bad-op", "bad"
	}
	var steps []*step
	for _, t := range hx.SplitList(f[1]) {
		st, ok := parseStep(t)
		if !ok {
			return "bad-op", "bad"
		}
		steps = append(steps, st)
	}
	if len(steps) == 0 {
		return "bad-op", "bad"
	}
	hb := tbtc.VerifC36NewHeartbeat()
	tags := map[string]bool{}
	wallets := map[int]bool{}
	var out []string
	for k, st := range steps {
		wallets[st.w] = true
		proposal := &tbtc.HeartbeatProposal{}
		copy(proposal.Message[:], []byte{0xff, 0xff, 0xff, 0xff, 0xff, 0xff, 0xff, 0xff, byte(k >> 8), byte(k), byte(st.w)})
		h := bitcoin.ComputeHash(proposal.Message[:])
		expectedMsg := new(big.Int).SetBytes(h[:])
		ch := &scriptedChain{outcome: st.outcome}
		start := uint64(1000 + 10*k)
		expiry := start + tbtc.VerifC36TotalProposalValidityBlocks
		if st.outcome == "xp" {
			start, expiry = 1, tbtc.VerifC36InactivityClaimValidityBlock-1
		}
		signCalls, claim := 0, "-"
		signFn := func(message *big.Int, startBlock uint64) ([]group.MemberIndex, []group.MemberIndex, error) {
			signCalls++
			if message.Cmp(expectedMsg) != 0 || startBlock != start {
				tags["badsignargs"] = true
			}
			if st.outcome == "sg" {
				return nil, nil, errors.New("scripted: signing failed")
			}
			active := make([]group.MemberIndex, st.active)
			for i := range active {
				active[i] = group.MemberIndex(i + 1)
			}
			return active, append([]group.MemberIndex(nil), st.inactive...), nil
		}
		claimFn := func(inactive []group.MemberIndex, heartbeatFailed bool, sessionID *big.Int) error {
			ms := make([]string, len(inactive))
			for i, m := range inactive {
				ms[i] = strconv.Itoa(int(m))
			}
			c := "m" + strings.Join(ms, ".") + "/"
			if heartbeatFailed {
				c += "t"
			} else {
				c += "f"
			}
			if sessionID == nil || sessionID.Cmp(expectedMsg) != 0 {
				c += "/badsid"
			}
			if claim != "-" {
				c = claim + "+" + c // a second claim in one execute
			}
			claim = c
			if st.claimFails {
				return errors.New("scripted: claim failed")
			}
			return nil
		}
		err := hb.VerifC36Execute(ch, walletKeys[st.w], proposal, signFn, claimFn, start, expiry)
		e := classify(err)
		if signCalls > 1 {
			e += "!sign" + strconv.Itoa(signCalls)
		}
		out = append(out, fmt.Sprintf("%s:%s:%d", e, claim, hb.VerifC36Count(walletKeyStrs[st.w])))
		// branch tags
		switch {
		case claim != "-":
			tags["claim"] = true
			if st.claimFails {
				tags["claimfail"] = true
			}
		case st.outcome == "a" && st.active >= tbtc.VerifC36MinimumActiveMembers:
			tags["reset"] = true
		case st.outcome == "a":
			tags["low"] = true
		}
		if e != "ok" {
			tags[e] = true
		}
		if st.outcome == "u" {
			tags["unstaking"] = true
		}
	}
	if len(wallets) > 1 {
		tags["multiwallet"] = true
	}
	for w := range wallets {
		if wallets[(w+4)%8] {
			tags["mirrored"] = true
		}
	}
	var ts []string
	for _, t := range []string{"claim", "claimfail", "low", "reset", "unstaking", "e-unstake", "e-invalid", "e-expiry",
		"e-sign", "e-noinactive", "e-claim", "e-other", "multiwallet", "mirrored", "badsignargs"} {
		if tags[t] {
			ts = append(ts, t)
		}
	}
	if len(ts) == 0 {
		ts = []string{"none"}
	}
	return strings.Join(out, ","), strings.Join(ts, "+")
}

// ---- generator ------------------------------------------------------------

func genInactive(r *hx.Rng, active int) string {
	if r.Chance(1, 12) {
		return "-"
	}
	n := r.Range(1, 4)
	var ms []string
	for i := 0; i < n; i++ {
		lo := active + 1
		if lo > 250 {
			lo = 250
		}
		ms = append(ms, strconv.Itoa(r.Range(lo, lo+5)))
	}
	if r.Chance(1, 10) { // arbitrary, unsorted, possibly duplicated members
		ms = append(ms, strconv.Itoa(r.Range(1, 255)))
	}
	return strings.Join(ms, ".")
}

func genOutcome(r *hx.Rng, lowBias int) string {
	min := tbtc.VerifC36MinimumActiveMembers
	switch x := r.Intn(100); {
	case x < lowBias: // low activity
		n := hx.Pick(r, []int{min - 1, min - 1, min - 2, 0, 1, r.Range(0, min-1)})
		s := fmt.Sprintf("a%di%s", n, genInactive(r, n))
		if r.Chance(1, 8) {
			s += "f"
		}
		return s
	case x < lowBias+15: // enough activity
		n := hx.Pick(r, []int{min, min, min + 1, 100, r.Range(min, 120)})
		return fmt.Sprintf("a%di%s", n, genInactive(r, n))
	default:
		return hx.Pick(r, []string{"sg", "sg", "u", "u", "iv", "iv", "ue", "nr", "se", "xp"})
	}
}

func gen(r *hx.Rng, n int, tier string) []string {
	var ops []string
	for i := 0; i < n; i++ {
		if i%10 == 9 {
			ops = append(ops, looprun.Gen(r))
			continue
		}
		if r.Chance(1, 30) {
			ops = append(ops, "hb "+hx.Pick(r, []string{"0/a", "12/u", "0/a70", "1/a5i0", "x", "0/a-1i2", "0/u,,1/u"}))
			continue
		}
		nw := r.Range(1, 4)
		// wallet ids of this history: plain, or including mirrored pairs (k, k+4)
		ids := []int{0, 1, 2, 3}
		if r.Chance(1, 4) { // keys with a short X / Y coordinate and their mirrors
			ids = []int{8, 9, 10, 11}
			if r.Chance(1, 2) {
				ids = []int{9, 0, 8, 11}
			}
		} else if r.Chance(1, 2) {
			b := r.Intn(4)
			ids = []int{b, b + 4, (b + 1) % 4, (b+1)%4 + 4}
			if nw < 2 {
				nw = 2
			}
		}
		ln := r.Range(1, 14)
		if r.Chance(1, 10) {
			ln = r.Range(15, 50)
		}
		lowBias := hx.Pick(r, []int{40, 60, 75, 90})
		var steps []string
		for j := 0; j < ln; j++ {
			steps = append(steps, fmt.Sprintf("%d/%s", ids[r.Intn(nw)], genOutcome(r, lowBias)))
		}
		ops = append(ops, "hb "+strings.Join(steps, ","))
	}
	return ops
}

func main() {
	hx.Main(&hx.Config{
		Prop: "C36",
		Gen:  gen,
		Exec: exec,
		Facts: func() []string {
			return append([]string{
				fmt.Sprintf("nat minimumActiveMembers %d", tbtc.VerifC36MinimumActiveMembers),
				fmt.Sprintf("nat consecutiveFailureThreshold %d", tbtc.VerifC36ConsecutiveFailureThreshold),
				fmt.Sprintf("nat inactivityClaimValidityBlocks %d", tbtc.VerifC36InactivityClaimValidityBlock),
			}, looprun.Facts()...)
		},
	})
}
