// C07: tECDSA DKG — operating set / party identities / admission of messages / real runs.
//
// Op lines (one complete case per line; all numbers decimal):
//
//	conv <seed> <idx> <key>
//	    DKG identityConverter: `k=<key of idx> rt=<roundtrip(idx)> i=<member index of key>`
//	parties <n> <self> <excluded> <seed>
//	    newMember + the exclusion of Executor.Execute (MarkMemberAsDisqualified for every excluded
//	    index other than self) + GenerateTssPartiesIDs + tss.SortPartyIDs + MisbehavedMembersIndexes:
//	    `op=<operating> keys=<sorted party keys> own=<own key|nil> mis=<misbehaved> rt=<member index
//	    recovered from each sorted key>`
//	recv <n> <self> <excluded> <seats> <session> <events>
//	    the real state chain ephemeral → symmetric → tss round 1..3 → finalization, walked with
//	    Next(); <events> is a comma list of `>` (Next) or `kind.sender.operator.session` (a message
//	    delivered to the current state's Receive; kind 0..5 = the package's message types, 6 = a
//	    foreign payload; operator = whose public key the network layer authenticated; seats[i] =
//	    operator of member i+1). The position in the list is the message's identity (seq).
//	    `st=<state index> can=<CanTransition> n=<history size> r0=… r5=<receivedMessages[T] as
//	    sender.seq>`
//	exec <n> <self> <excluded>   the REAL Executor.Execute with its own exclusion loop, see execop.go
//	pub <n> <self> <dq> <seats> <session> <msgs>
//	    result publication (dkg.Publish): resultSigningState over a result group in which <dq> are
//	    disqualified; <msgs> = comma list of `kind.sender.operator.session.sigoperator` delivered to
//	    Receive (sigoperator = whose public key the signature message embeds).
//	    `can=<CanTransition> n=<history size, all types> r5=<receivedMessages as sender.seq>`
//	run <n> <t> <excluded> <seed> <inject>
//	    REAL DKG run of all non-excluded members (+ optionally the excluded ones) — see run.go.
package main

import (
	"fmt"
	"math/big"
	"sort"
	"strings"

	"keepverif/harness/c07/dkgrun"
	"keepverif/harness/hx"

	"github.com/keep-network/keep-core/pkg/net"
	"github.com/keep-network/keep-core/pkg/protocol/group"
	"github.com/keep-network/keep-core/pkg/protocol/state"
	"github.com/keep-network/keep-core/pkg/tecdsa/dkg"
)

func bigOf(s string) *big.Int {
	v, ok := new(big.Int).SetString(s, 10)
	if !ok {
		panic("harness: bad big int " + s)
	}
	return v
}

func joinBigs(xs []*big.Int) string {
	if len(xs) == 0 {
		return "-"
	}
	ss := make([]string, len(xs))
	for i, x := range xs {
		ss[i] = x.String()
	}
	return strings.Join(ss, ",")
}

func indexes(xs []int) []group.MemberIndex {
	out := make([]group.MemberIndex, len(xs))
	for i, x := range xs {
		out[i] = group.MemberIndex(x)
	}
	return out
}

// newMember builds the member exactly as Executor.Execute does before it starts the machine.
func newMember(n, self int, excluded []int, seats []int, seed *big.Int, session string) *dkg.VerifC07Member {
	m := dkg.VerifC07NewMember(
		dkgrun.Logger, seed, group.MemberIndex(self), n, n/2,
		dkgrun.Validator(seats), session, dkgrun.PreParams(0),
	)
	for _, e := range indexes(excluded) {
		if e != group.MemberIndex(self) {
			m.Group().MarkMemberAsDisqualified(e)
		}
	}
	return m
}

func execConv(f []string) (string, string) {
	seed, idx, key := bigOf(f[1]), group.MemberIndex(hx.Atoi(f[2])), bigOf(f[3])
	k := dkg.VerifC07MemberIndexToKey(seed, idx)
	rt := dkg.VerifC07RoundTrip(seed, idx)
	i := dkg.VerifC07PartyIDToMemberIndex(seed, key)
	tag := "conv"
	if seed.Cmp(key) > 0 {
		tag += "+below"
	} else if new(big.Int).Sub(key, seed).Cmp(big.NewInt(255)) > 0 {
		tag += "+wrap"
	} else {
		tag += "+inrange"
	}
	return fmt.Sprintf("k=%s rt=%d i=%d", k, rt, i), tag
}

func execParties(f []string) (string, string) {
	n, self := hx.Atoi(f[1]), hx.Atoi(f[2])
	excluded := hx.ParseInts(f[3])
	seed := bigOf(f[4])
	seats := make([]int, n)
	for i := range seats {
		seats[i] = i + 1
	}
	m := newMember(n, self, excluded, seats, seed, "s")
	own, _, sorted := m.PartiesIDs()
	ownS := "nil"
	if own != nil {
		ownS = own.KeyInt().String()
	}
	var rt []group.MemberIndex
	for _, p := range sorted {
		rt = append(rt, dkg.VerifC07PartyIDToMemberIndex(seed, p.KeyInt()))
	}
	tag := "parties"
	selfExcluded := false
	for _, e := range excluded {
		if e == self {
			selfExcluded = true
		}
	}
	if len(m.MisbehavedMembersIndexes()) > 0 {
		tag += "+excl"
	} else {
		tag += "+full"
	}
	if selfExcluded {
		tag += "+selfexcl"
	}
	return fmt.Sprintf("op=%s keys=%s own=%s mis=%s rt=%s",
		hx.JoinInts(m.Group().OperatingMemberIndexes()), joinBigs(sorted.Keys()), ownS,
		hx.JoinInts(m.MisbehavedMembersIndexes()), hx.JoinInts(rt)), tag
}

// netMsg is the harness' net.Message.
type netMsg struct {
	payload interface{}
	key     []byte
	typ     string
	seq     uint64
}

func (m *netMsg) TransportSenderID() net.TransportIdentifier { return nil }
func (m *netMsg) SenderPublicKey() []byte                    { return m.key }
func (m *netMsg) Payload() interface{}                       { return m.payload }
func (m *netMsg) Type() string                               { return m.typ }
func (m *netMsg) Seqno() uint64                              { return m.seq }

type foreignPayload struct{ sender group.MemberIndex }

func (p *foreignPayload) Type() string { return "verif/foreign" }

func session(q int) string { return fmt.Sprintf("session-%d", q) }

func execRecv(f []string) (string, string) {
	n, self := hx.Atoi(f[1]), hx.Atoi(f[2])
	excluded := hx.ParseInts(f[3])
	seats := hx.ParseInts(f[4])
	sess := hx.Atoi(f[5])
	m := newMember(n, self, excluded, seats, big.NewInt(1000), session(sess))
	var st state.AsyncState = m.InitialState(nil)
	idx := 0
	seqOf := map[interface{}]int{}
	tags := map[string]bool{}
	for seq, ev := range hx.SplitList(f[6]) {
		if ev == ">" {
			nx, err := st.Next()
			if err != nil {
				return "err:next", "recv+nexterr"
			}
			if nx != nil {
				st = nx
				idx++
			}
			continue
		}
		p := strings.Split(ev, ".")
		kind, sender, op, q := hx.Atoi(p[0]), group.MemberIndex(hx.Atoi(p[1])), hx.Atoi(p[2]), hx.Atoi(p[3])
		var payload interface{}
		typ := "verif/foreign"
		if kind < dkg.VerifC07KindCount {
			pm := dkg.VerifC07NewMessage(kind, sender, session(q), dkgrun.OperatorKey(op))
			payload, typ = pm, pm.Type()
		} else {
			payload = &foreignPayload{sender}
		}
		seqOf[payload] = seq
		before := len(dkg.VerifC07Base(st).GetAllReceivedMessages(typ))
		if err := st.Receive(&netMsg{payload: payload, key: dkgrun.OperatorKey(op), typ: typ, seq: uint64(seq)}); err != nil {
			return "err:receive", "recv+recverr"
		}
		if len(dkg.VerifC07Base(st).GetAllReceivedMessages(typ)) > before {
			tags["admit"] = true
			if kt, ok := map[int]int{0: 0, 2: 1, 3: 2, 4: 3, 5: 4}[idx]; !ok || kt != kind {
				tags["early"] = true // a message of another (later) state, kept in the history
			}
		} else {
			tags["reject"] = true
		}
		tags[fmt.Sprintf("state%d", idx)] = true
	}
	base := dkg.VerifC07Base(st)
	total := 0
	var rs []string
	for k := 0; k < dkg.VerifC07KindCount; k++ {
		total += len(base.GetAllReceivedMessages(dkg.VerifC07MessageType(k)))
		recvd := dkg.VerifC07ReceivedMessages(base, k)
		var parts []string
		for _, pm := range recvd {
			parts = append(parts, fmt.Sprintf("%d.%d", pm.(interface{ SenderID() group.MemberIndex }).SenderID(), seqOf[pm]))
		}
		if len(recvd) < len(base.GetAllReceivedMessages(dkg.VerifC07MessageType(k))) {
			tags["dup"] = true
		}
		rs = append(rs, fmt.Sprintf("r%d=%s", k, hx.JoinStrs(parts)))
	}
	can := 0
	if st.CanTransition() {
		can = 1
		if idx != 1 {
			tags["can"] = true
		}
	}
	tag := "recv"
	var ts []string
	for t := range tags {
		ts = append(ts, t)
	}
	sort.Strings(ts)
	for _, t := range ts {
		tag += "+" + t
	}
	return fmt.Sprintf("st=%d can=%d n=%d %s", idx, can, total, strings.Join(rs, " ")), tag
}

func execPub(f []string) (string, string) {
	n, self := hx.Atoi(f[1]), hx.Atoi(f[2])
	dq := hx.ParseInts(f[3])
	seats := hx.ParseInts(f[4])
	sess := hx.Atoi(f[5])
	g := group.NewGroup(n/2, n)
	for _, e := range indexes(dq) {
		g.MarkMemberAsDisqualified(e)
	}
	st := dkg.VerifC07NewPublicationState(dkgrun.Logger, group.MemberIndex(self), g, dkgrun.Validator(seats), session(sess))
	seqOf := map[interface{}]int{}
	tags := map[string]bool{}
	base := dkg.VerifC07Base(st)
	count := func() int {
		t := 0
		for k := 0; k < dkg.VerifC07KindCount; k++ {
			t += len(base.GetAllReceivedMessages(dkg.VerifC07MessageType(k)))
		}
		return t + len(base.GetAllReceivedMessages("verif/foreign"))
	}
	for seq, ev := range hx.SplitList(f[6]) {
		p := strings.Split(ev, ".")
		kind, sender, op, q, sigop := hx.Atoi(p[0]), group.MemberIndex(hx.Atoi(p[1])), hx.Atoi(p[2]), hx.Atoi(p[3]), hx.Atoi(p[4])
		var payload interface{}
		typ := "verif/foreign"
		if kind < dkg.VerifC07KindCount {
			pm := dkg.VerifC07NewMessage(kind, sender, session(q), dkgrun.OperatorKey(sigop))
			payload, typ = pm, pm.Type()
		} else {
			payload = &foreignPayload{sender}
		}
		seqOf[payload] = seq
		before := count()
		if err := st.Receive(&netMsg{payload: payload, key: dkgrun.OperatorKey(op), typ: typ, seq: uint64(seq)}); err != nil {
			return "err:receive", "pub+recverr"
		}
		if count() > before {
			tags["padmit"] = true
		} else {
			tags["preject"] = true
		}
	}
	recvd := dkg.VerifC07ReceivedMessages(base, dkg.VerifC07KindResultSignature)
	var parts []string
	for _, pm := range recvd {
		parts = append(parts, fmt.Sprintf("%d.%d", pm.(interface{ SenderID() group.MemberIndex }).SenderID(), seqOf[pm]))
	}
	can := 0
	if st.CanTransition() {
		can = 1
		tags["pcan"] = true
	}
	tag := "pub"
	var ts []string
	for t := range tags {
		ts = append(ts, t)
	}
	sort.Strings(ts)
	for _, t := range ts {
		tag += "+" + t
	}
	return fmt.Sprintf("can=%d n=%d r5=%s", can, count(), hx.JoinStrs(parts)), tag
}

func genPub(r *hx.Rng) string {
	n := r.Range(2, 7)
	self := r.Range(1, n)
	var dq []int
	for m := 1; m <= n; m++ {
		if m != self && r.Chance(1, 4) {
			dq = append(dq, m)
		}
	}
	seats := make([]int, n)
	ops := r.Range(1, n)
	for i := range seats {
		seats[i] = 1 + r.Intn(ops)
	}
	if r.Chance(2, 3) {
		for i := range seats {
			seats[i] = i + 1
		}
	}
	sess := r.Intn(3)
	var msgs []string
	complete := r.Bool()
	for m := 1; m <= n; m++ {
		if complete && m != self {
			msgs = append(msgs, fmt.Sprintf("5.%d.%d.%d.%d", m, seats[m-1], sess, seats[m-1]))
		}
	}
	for k := r.Range(0, 12); k > 0; k-- {
		kind := 5
		sender := r.Range(1, n)
		op := seats[sender-1]
		sigop := op
		q := sess
		switch r.Intn(12) {
		case 0:
			kind = r.Intn(7) // another message type / foreign payload
		case 1:
			q = (sess + 1) % 3
		case 2:
			sigop = r.Intn(n + 2) // signed with another key than the network identity
		case 3:
			op = r.Intn(n + 2)
			sigop = op
		case 4:
			sender = self
			op = seats[self-1]
			sigop = op
		case 5:
			if len(dq) > 0 {
				sender = hx.Pick(r, dq)
				op = seats[sender-1]
				sigop = op
			}
		case 6:
			sender = hx.Pick(r, []int{0, n + 1, 255})
		}
		msgs = append(msgs, fmt.Sprintf("%d.%d.%d.%d.%d", kind, sender, op, q, sigop))
	}
	p := r.Perm(len(msgs))
	q := make([]string, len(msgs))
	for i, j := range p {
		q[i] = msgs[j]
	}
	return fmt.Sprintf("pub %d %d %s %s %d %s", n, self, hx.JoinInts(dq), hx.JoinInts(seats), sess, hx.JoinStrs(q))
}

func exec(op string) (string, string) {
	f := strings.Fields(op)
	switch {
	case len(f) == 4 && f[0] == "conv":
		return execConv(f)
	case len(f) == 5 && f[0] == "parties":
		return execParties(f)
	case len(f) == 7 && f[0] == "recv":
		return execRecv(f)
	case len(f) == 4 && f[0] == "exec":
		return execExec(f)
	case len(f) == 7 && f[0] == "pub":
		return execPub(f)
	case len(f) == 6 && f[0] == "run":
		return execRun(f)
	}
	return "bad-op", "bad"
}

// ---- generation -----------------------------------------------------------

func randSeed(r *hx.Rng) *big.Int {
	switch r.Intn(6) {
	case 0:
		return big.NewInt(0)
	case 1:
		return big.NewInt(int64(r.Intn(300)))
	case 2:
		return new(big.Int).SetUint64(r.U64())
	default:
		return new(big.Int).SetBytes(r.Bytes(32))
	}
}

func genConv(r *hx.Rng) string {
	seed := randSeed(r)
	idx := r.Intn(256)
	var key *big.Int
	switch r.Intn(6) {
	case 0: // below the seed
		key = new(big.Int).Sub(seed, big.NewInt(int64(r.Range(1, 300))))
		if key.Sign() < 0 {
			key = big.NewInt(0)
		}
	case 1: // far above: uint8 truncation
		key = new(big.Int).Add(seed, big.NewInt(int64(r.Range(256, 100000))))
	case 2:
		key = new(big.Int).Add(seed, new(big.Int).SetBytes(r.Bytes(r.Range(2, 12))))
	case 3:
		key = randSeed(r)
	default:
		key = new(big.Int).Add(seed, big.NewInt(int64(r.Intn(256))))
	}
	return fmt.Sprintf("conv %s %d %s", seed, idx, key)
}

func maskList(n, mask int) []int {
	var out []int
	for m := 1; m <= n; m++ {
		if mask&(1<<(m-1)) != 0 {
			out = append(out, m)
		}
	}
	return out
}

func genParties(r *hx.Rng) string {
	n := r.Range(1, 12)
	if r.Chance(1, 10) {
		n = r.Range(13, 100)
	}
	self := r.Range(1, n)
	if r.Chance(1, 20) {
		self = hx.Pick(r, []int{0, n + 1, 255})
	}
	var excl []int
	for k := r.Intn(n + 1); k > 0; k-- {
		switch r.Intn(12) {
		case 0:
			excl = append(excl, hx.Pick(r, []int{0, n + 1, 255})) // not in the group
		case 1:
			excl = append(excl, self)
		default:
			excl = append(excl, r.Range(1, n)) // duplicates possible
		}
	}
	return fmt.Sprintf("parties %d %d %s %s", n, self, hx.JoinInts(excl), randSeed(r))
}

// genRecvTable: the member is walked into state `st` (each of the 6 states equally often), then a
// battery of messages that must be rejected there (another session, an excluded member with its
// genuine key, the member itself, another operator's key, an index outside the group, a foreign
// payload) plus genuine ones of random kinds is delivered.
func genRecvTable(r *hx.Rng) string {
	n := r.Range(3, 7)
	self := r.Range(1, n)
	ex := r.Range(1, n)
	for ex == self {
		ex = r.Range(1, n)
	}
	seats := make([]int, n)
	for i := range seats {
		seats[i] = i + 1
	}
	other := 1
	for other == self || other == ex {
		other++
	}
	sess := r.Intn(3)
	st := r.Intn(6)
	var evs []string
	for i := 0; i < st; i++ {
		evs = append(evs, ">")
	}
	var msgs []string
	for i := 0; i < 3; i++ {
		msgs = append(msgs,
			fmt.Sprintf("%d.%d.%d.%d", r.Intn(6), other, other, (sess+1+r.Intn(2))%3),
			fmt.Sprintf("%d.%d.%d.%d", r.Intn(6), ex, ex, sess),
			fmt.Sprintf("%d.%d.%d.%d", r.Intn(6), self, self, sess),
			fmt.Sprintf("%d.%d.%d.%d", r.Intn(6), other, ex, sess),
			fmt.Sprintf("%d.%d.%d.%d", r.Intn(6), hx.Pick(r, []int{0, n + 1, 255}), other, sess),
			fmt.Sprintf("6.%d.%d.%d", other, other, sess),
			fmt.Sprintf("%d.%d.%d.%d", r.Intn(6), other, other, sess),
		)
	}
	p := r.Perm(len(msgs))
	for _, j := range p {
		evs = append(evs, msgs[j])
	}
	return fmt.Sprintf("recv %d %d %d %s %d %s", n, self, ex, hx.JoinInts(seats), sess, hx.JoinStrs(evs))
}

func genRecv(r *hx.Rng) string {
	if r.Chance(1, 3) {
		return genRecvTable(r)
	}
	n := r.Range(2, 8)
	self := r.Range(1, n)
	var excl []int
	for m := 1; m <= n; m++ {
		if r.Chance(1, 4) {
			excl = append(excl, m)
		}
	}
	// seats: operators may hold several seats
	seats := make([]int, n)
	ops := r.Range(1, n)
	for i := range seats {
		seats[i] = 1 + r.Intn(ops)
	}
	if r.Bool() {
		for i := range seats {
			seats[i] = i + 1
		}
	}
	sess := r.Intn(3)
	var evs []string
	ln := r.Range(0, 40)
	nexts := 0
	for i := 0; i < ln; i++ {
		if r.Chance(1, 7) && nexts < 7 {
			evs = append(evs, ">")
			nexts++
			continue
		}
		kind := r.Intn(5)
		if r.Chance(1, 10) {
			kind = r.Range(5, 6)
		}
		sender := r.Range(1, n)
		op := seats[sender-1]
		q := sess
		switch r.Intn(14) {
		case 0: // another session
			q = (sess + 1 + r.Intn(2)) % 3
		case 1: // key of another operator / a stranger
			op = r.Intn(n + 2)
		case 2: // from self
			sender = self
			op = seats[sender-1]
		case 3: // an excluded member, with its genuine key
			if len(excl) > 0 {
				sender = hx.Pick(r, excl)
				op = seats[sender-1]
			}
		case 4: // index outside the group
			sender = hx.Pick(r, []int{0, n + 1, 255})
		}
		evs = append(evs, fmt.Sprintf("%d.%d.%d.%d", kind, sender, op, q))
	}
	return fmt.Sprintf("recv %d %d %s %s %d %s", n, self, hx.JoinInts(excl), hx.JoinInts(seats), sess, hx.JoinStrs(evs))
}

// genRecvComplete: every other operating member sends every message type once, shuffled, with
// duplicates and `>` in between: reaches CanTransition = true in late states.
func genRecvComplete(r *hx.Rng) string {
	n := r.Range(2, 6)
	self := r.Range(1, n)
	var excl []int
	for m := 1; m <= n; m++ {
		if m != self && r.Chance(1, 4) {
			excl = append(excl, m)
		}
	}
	seats := make([]int, n)
	for i := range seats {
		seats[i] = i + 1
	}
	isEx := map[int]bool{}
	for _, e := range excl {
		isEx[e] = true
	}
	var msgs []string
	for kind := 0; kind < 5; kind++ {
		for m := 1; m <= n; m++ {
			if m == self || (isEx[m] && !r.Chance(1, 3)) {
				continue
			}
			msgs = append(msgs, fmt.Sprintf("%d.%d.%d.1", kind, m, m))
			if r.Chance(1, 5) {
				msgs = append(msgs, fmt.Sprintf("%d.%d.%d.1", kind, m, m))
			}
		}
	}
	if r.Bool() { // arbitrary interleaving (messages for later phases arrive early)
		p := r.Perm(len(msgs))
		q := make([]string, len(msgs))
		for i, j := range p {
			q[i] = msgs[j]
		}
		msgs = q
	}
	nexts := r.Range(0, 5)
	for i := 0; i < nexts; i++ {
		at := r.Intn(len(msgs) + 1)
		msgs = append(msgs[:at], append([]string{">"}, msgs[at:]...)...)
	}
	return fmt.Sprintf("recv %d %d %s %s 1 %s", n, self, hx.JoinInts(excl), hx.JoinInts(seats), hx.JoinStrs(msgs))
}

func gen(r *hx.Rng, n int, tier string) []string {
	var ops []string
	// exhaustive: every (group size ≤ 6 (thorough: ≤ 8), member, exclusion set)
	maxN := 6
	if tier == "thorough" {
		maxN = 8
	}
	for size := 1; size <= maxN; size++ {
		for self := 1; self <= size; self++ {
			for mask := 0; mask < 1<<size; mask++ {
				ops = append(ops, fmt.Sprintf("parties %d %d %s %s", size, self, hx.JoinInts(maskList(size, mask)), randSeed(r)))
			}
		}
	}
	for i := 0; i < n; i++ {
		switch r.Intn(12) {
		case 10, 11:
			ops = append(ops, genPub(r))
		case 0, 1:
			ops = append(ops, genConv(r))
		case 2, 3:
			ops = append(ops, genParties(r))
		case 4, 5, 6:
			ops = append(ops, genRecv(r))
		default:
			ops = append(ops, genRecvComplete(r))
		}
	}
	ops = append(ops, genExec(r, tier)...)
	ops = append(ops, genRun(r, tier)...)
	return ops
}

func main() {
	hx.Main(&hx.Config{
		Prop:         "C07",
		Gen:          gen,
		Exec:         exec,
		PerOpTimeout: runTimeout,
	})
}
