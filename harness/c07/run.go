package main

import (
	"fmt"
	"math/big"
	"sort"
	"strings"
	"time"

	"keepverif/harness/c07/dkgrun"
	"keepverif/harness/hx"

	"github.com/keep-network/keep-core/pkg/tecdsa/dkg"
)

const runTimeout = 4 * time.Minute

// run <n> <t> <excluded> <seed> <mode>
//
// REAL DKG: dkg.Executor.Execute for every non-excluded member of an n-group with honest
// threshold t over the in-process network (shuffled delivery; early messages arise from the
// members' different paces). <mode> is a set of letters: d = every message delivered twice,
// i = forged messages (another session id; excluded senders with their genuine key; an excluded
// operator claiming an operating index) are broadcast before and during the run, x = the excluded
// members run the protocol as well.
//
// Obs: `ok=<members with a result> agree=<1|0> mis=<misbehaved list, all equal | differ>
// ks=<1|0: every share stores exactly the sorted party keys seed+m of the operating members and
// its own share id seed+self> exjoin=<excluded members that finished with a result>`
func execRun(f []string) (string, string) {
	n, t := hx.Atoi(f[1]), hx.Atoi(f[2])
	excluded := hx.ParseInts(f[3])
	seed, ok := new(big.Int).SetString(f[4], 10)
	if !ok {
		return "bad-op", "bad"
	}
	mode := f[5]
	rng := hx.NewRng(uint64(len(op(f))) + seed.Uint64())
	out := dkgrun.RunDKG(dkgrun.DkgConfig{
		N: n, HonestThreshold: t, Excluded: excluded, Seed: seed,
		Session:     fmt.Sprintf("%s-1", seed.Text(16)),
		RunExcluded: strings.Contains(mode, "x"),
		Inject:      strings.Contains(mode, "i"),
		Duplicate:   strings.Contains(mode, "d"),
		Rng:         rng,
		Timeout:     150 * time.Second,
	})
	var okMembers []int
	keys := map[string]bool{}
	misAll := map[string]bool{}
	ksOK := 1
	var operating []int
	for m := 1; m <= n; m++ {
		ex := false
		for _, e := range excluded {
			ex = ex || e == m
		}
		if !ex {
			operating = append(operating, m)
		}
	}
	for _, m := range dkgrun.SortedKeys(out.Results) {
		r := out.Results[m]
		if r == nil {
			continue
		}
		okMembers = append(okMembers, m)
		keys[dkgrun.PublicKeyOf(r)] = true
		misAll[hx.JoinInts(r.MisbehavedMembersIndexes())] = true
		data := r.PrivateKeyShare.Data()
		if len(data.Ks) != len(operating) || data.ShareID == nil ||
			data.ShareID.Cmp(new(big.Int).Add(seed, big.NewInt(int64(m)))) != 0 {
			ksOK = 0
		} else {
			for i, k := range data.Ks {
				if k.Cmp(new(big.Int).Add(seed, big.NewInt(int64(operating[i])))) != 0 {
					ksOK = 0
				}
			}
		}
	}
	agree := 0
	if len(keys) == 1 {
		agree = 1
	}
	mis := "differ"
	if len(misAll) == 1 {
		for k := range misAll {
			mis = k
		}
	} else if len(misAll) == 0 {
		mis = "none"
	}
	var exjoin []int
	for _, e := range dkgrun.SortedKeys(out.ExcludedResults) {
		exjoin = append(exjoin, e)
	}
	tag := "run"
	if len(excluded) > 0 {
		tag += "+excl"
	} else {
		tag += "+full"
	}
	var letters []string
	for _, c := range mode {
		if c != '-' {
			letters = append(letters, "mode-"+string(c))
		}
	}
	sort.Strings(letters)
	for _, l := range letters {
		tag += "+" + l
	}
	if len(okMembers) != len(operating) && dkgrunVerbose {
		for m, e := range out.Errs {
			fmt.Printf("member %d: %v\n", m, e)
		}
	}
	return fmt.Sprintf("ok=%s agree=%d mis=%s ks=%d exjoin=%s",
		hx.JoinInts(okMembers), agree, mis, ksOK, hx.JoinInts(exjoin)), tag
}

var dkgrunVerbose = false

func op(f []string) string { return strings.Join(f, " ") }

var _ = dkg.VerifC07KindCount

// subsets of size k of 1..n, in lexicographic order
func subsets(n, k int) [][]int {
	var out [][]int
	var rec func(start int, cur []int)
	rec = func(start int, cur []int) {
		if len(cur) == k {
			out = append(out, append([]int(nil), cur...))
			return
		}
		for m := start; m <= n; m++ {
			rec(m+1, append(cur, m))
		}
	}
	rec(1, nil)
	return out
}

func runOp(r *hx.Rng, n, t int, excluded []int, mode string) string {
	seed := new(big.Int).SetBytes(r.Bytes(32))
	if r.Chance(1, 4) {
		seed = big.NewInt(int64(r.Intn(1000)))
	}
	return fmt.Sprintf("run %d %d %s %s %s", n, t, hx.JoinInts(excluded), seed, mode)
}

// genRun: quick = 2 real runs (3-of-5 with 1..2 excluded members that run the protocol too, forged +
// duplicated traffic; 4-of-7 with 2..3 excluded, forged + duplicated traffic),
// thorough = every exclusion set of the 5-group that leaves >= 3 operating (16 sets, modes
// rotating) plus sampled 4-of-7 runs.
func genRun(r *hx.Rng, tier string) []string {
	var five [][]int
	for k := 0; k <= 2; k++ {
		five = append(five, subsets(5, k)...)
	}
	var seven [][]int
	for k := 2; k <= 3; k++ {
		seven = append(seven, subsets(7, k)...)
	}
	modes := []string{"di", "dix", "i", "ix", "d", "-"}
	var ops []string
	if tier != "thorough" {
		// the boundary seat (last member) is always in the first run's exclusion set
		ex := []int{5}
		if r.Bool() {
			ex = []int{r.Range(1, 4), 5}
		}
		ops = append(ops, runOp(r, 5, 3, ex, "dix"))
		ops = append(ops, runOp(r, 7, 4, hx.Pick(r, seven), "di"))
		return ops
	}
	for i, ex := range five {
		ops = append(ops, runOp(r, 5, 3, ex, modes[(i+r.Intn(2))%len(modes)]))
	}
	for i := 0; i < 6; i++ {
		ops = append(ops, runOp(r, 7, 4, hx.Pick(r, seven), hx.Pick(r, []string{"di", "i", "d"})))
	}
	return ops
}
