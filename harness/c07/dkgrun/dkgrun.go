// Package dkgrun holds what the C07 and C08 harnesses share: fixture pre-parameters, a fake
// chain.Signing for the membership validator, an in-process broadcast network with duplicate
// delivery / shuffling / injection, and drivers for REAL tECDSA DKG and signing runs
// (dkg.Executor.Execute, signing.Execute on the asynchronous state machine).
package dkgrun

import (
	"context"
	"crypto/ecdsa"
	"fmt"
	"math/big"
	"sort"
	"sync"
	"time"

	"keepverif/harness/hx"

	"github.com/bnb-chain/tss-lib/ecdsa/keygen"
	"github.com/ipfs/go-log/v2"
	"github.com/keep-network/keep-core/pkg/chain"
	"github.com/keep-network/keep-core/pkg/net"
	"github.com/keep-network/keep-core/pkg/operator"
	"github.com/keep-network/keep-core/pkg/protocol/group"
	"github.com/keep-network/keep-core/pkg/tecdsa"
	"github.com/keep-network/keep-core/pkg/tecdsa/dkg"
	"github.com/keep-network/keep-core/pkg/tecdsa/signing"
)

// Logger is silent unless VERIF_LOG is set by hand.
var Logger log.StandardLogger = func() log.StandardLogger {
	log.SetAllLoggers(log.LevelFatal)
	return log.Logger("keep-verif")
}()

// ---- fixtures -------------------------------------------------------------

const FixtureCount = 5

var (
	fixturesOnce sync.Once
	fixtures     []keygen.LocalPartySaveData
)

// PreParams returns the i-th fixture TSS pre-parameters (5 distinct sets exist; tss-lib rejects
// two parties using the same set, so at most 5 members can take part in one run).
func PreParams(i int) *keygen.LocalPreParams {
	fixturesOnce.Do(func() {
		f, err := dkg.VerifC07LoadFixtures(FixtureCount)
		if err != nil {
			panic("harness: cannot load tss fixtures: " + err.Error())
		}
		fixtures = f
	})
	pp := fixtures[i%FixtureCount].LocalPreParams
	return &pp
}

// Fixture returns the i-th fixture key share data (a 3-of-5 wallet, Ks of 5 parties).
func Fixture(i int) keygen.LocalPartySaveData {
	PreParams(0)
	return fixtures[i%FixtureCount]
}

// ---- membership -----------------------------------------------------------

// OperatorKey is the (network-authenticated) public key of operator `op`.
func OperatorKey(op int) []byte { return []byte(fmt.Sprintf("operator-key-%d", op)) }

func OperatorAddress(op int) chain.Address { return chain.Address(fmt.Sprintf("0x%040x", op)) }

type fakeSigning struct{}

func (fakeSigning) Address() chain.Address                           { return "" }
func (fakeSigning) PublicKey() []byte                                { return nil }
func (fakeSigning) Sign([]byte) ([]byte, error)                      { return nil, fmt.Errorf("unsupported") }
func (fakeSigning) Verify([]byte, []byte) (bool, error)              { return false, nil }
func (fakeSigning) VerifyWithPublicKey(_, _, _ []byte) (bool, error) { return false, nil }
func (fakeSigning) PublicKeyToAddress(*operator.PublicKey) (chain.Address, error) {
	return "", fmt.Errorf("unsupported")
}
func (fakeSigning) PublicKeyBytesToAddress(publicKey []byte) chain.Address {
	var op int
	if _, err := fmt.Sscanf(string(publicKey), "operator-key-%d", &op); err != nil {
		return "0xstranger"
	}
	return OperatorAddress(op)
}

// Validator is the real group.MembershipValidator over the seat list (seats[i] = operator of
// member i+1).
func Validator(seats []int) *group.MembershipValidator {
	addrs := make([]chain.Address, len(seats))
	for i, s := range seats {
		addrs[i] = OperatorAddress(s)
	}
	return group.NewMembershipValidator(Logger, addrs, fakeSigning{})
}

// ---- in-process network ---------------------------------------------------

type message struct {
	payload interface{}
	key     []byte
	typ     string
	seq     uint64
}

func (m *message) TransportSenderID() net.TransportIdentifier { return nil }
func (m *message) SenderPublicKey() []byte                    { return m.key }
func (m *message) Payload() interface{}                       { return m.payload }
func (m *message) Type() string                               { return m.typ }
func (m *message) Seqno() uint64                              { return m.seq }

// Network delivers every sent message to every handler (the sender's own included, as a real
// broadcast channel does). Messages sent before a handler registered are replayed to it (this
// stands for the retransmissions of the real channel). A pump goroutine releases pending
// deliveries in rng-shuffled batches; with Duplicate set every message is delivered twice.
type Network struct {
	mu        sync.Mutex
	rng       *hx.Rng
	log       []net.Message
	handlers  []*handler
	pending   []delivery
	Duplicate bool
	seq       uint64
	stop      chan struct{}
	// Sent counts the messages by type (coverage evidence).
	Sent map[string]int
}

type handler struct {
	ctx context.Context
	fn  func(net.Message)
}

type delivery struct {
	h *handler
	m net.Message
}

func NewNetwork(rng *hx.Rng) *Network {
	n := &Network{rng: rng, stop: make(chan struct{}), Sent: map[string]int{}}
	go n.pump()
	return n
}

func (n *Network) Close() { close(n.stop) }

func (n *Network) pump() {
	t := time.NewTicker(3 * time.Millisecond)
	defer t.Stop()
	for {
		select {
		case <-n.stop:
			return
		case <-t.C:
			n.mu.Lock()
			batch := n.pending
			n.pending = nil
			p := n.rng.Perm(len(batch))
			n.mu.Unlock()
			for _, i := range p {
				d := batch[i]
				if d.h.ctx.Err() == nil {
					d.h.fn(d.m)
				}
			}
		}
	}
}

// Inject broadcasts an arbitrary message (any payload, any claimed key).
func (n *Network) Inject(payload interface{}, typ string, key []byte) {
	n.mu.Lock()
	defer n.mu.Unlock()
	n.seq++
	n.broadcastLocked(&message{payload: payload, key: key, typ: typ, seq: n.seq})
}

func (n *Network) broadcastLocked(m net.Message) {
	n.log = append(n.log, m)
	n.Sent[m.Type()]++
	for _, h := range n.handlers {
		n.pending = append(n.pending, delivery{h, m})
		if n.Duplicate {
			n.pending = append(n.pending, delivery{h, m})
		}
	}
}

// Channel is one operator's view of the network.
type Channel struct {
	net          *Network
	key          []byte
	mu           sync.Mutex
	unmarshalers map[string]func() net.TaggedUnmarshaler
}

func (n *Network) ChannelFor(op int) *Channel {
	return &Channel{net: n, key: OperatorKey(op), unmarshalers: map[string]func() net.TaggedUnmarshaler{}}
}

func (c *Channel) Name() string { return "verif" }

func (c *Channel) Send(ctx context.Context, m net.TaggedMarshaler, _ ...net.RetransmissionStrategy) error {
	bytes, err := m.Marshal()
	if err != nil {
		return err
	}
	c.mu.Lock()
	mk, ok := c.unmarshalers[m.Type()]
	c.mu.Unlock()
	if !ok {
		return fmt.Errorf("no unmarshaler for %s", m.Type())
	}
	u := mk()
	if err := u.Unmarshal(bytes); err != nil {
		return err
	}
	c.net.mu.Lock()
	defer c.net.mu.Unlock()
	c.net.seq++
	c.net.broadcastLocked(&message{payload: u, key: c.key, typ: m.Type(), seq: c.net.seq})
	return nil
}

func (c *Channel) Recv(ctx context.Context, fn func(net.Message)) {
	c.net.mu.Lock()
	defer c.net.mu.Unlock()
	h := &handler{ctx, fn}
	c.net.handlers = append(c.net.handlers, h)
	for _, m := range c.net.log {
		c.net.pending = append(c.net.pending, delivery{h, m})
	}
}

func (c *Channel) SetUnmarshaler(mk func() net.TaggedUnmarshaler) {
	c.mu.Lock()
	defer c.mu.Unlock()
	c.unmarshalers[mk().Type()] = mk
}

func (c *Channel) SetFilter(net.BroadcastChannelFilter) error { return nil }

// ---- real DKG run -----------------------------------------------------------

type DkgConfig struct {
	N               int
	HonestThreshold int
	Excluded        []int
	Seed            *big.Int
	Session         string
	// RunExcluded: the excluded members run the protocol too (with the same exclusion list).
	RunExcluded bool
	// Inject: forged messages (other session id, excluded senders, sender index spoofing) are
	// broadcast before and during the run.
	Inject    bool
	Duplicate bool
	Rng       *hx.Rng
	Timeout   time.Duration
}

type DkgOutcome struct {
	// Results of the non-excluded members, by member index (nil = failed).
	Results map[int]*dkg.Result
	Errs    map[int]error
	// ExcludedGotKey: an excluded member that ran finished with a result.
	ExcludedResults map[int]*dkg.Result
	Sent            map[string]int
}

func isIn(xs []int, x int) bool {
	for _, y := range xs {
		if y == x {
			return true
		}
	}
	return false
}

func indexes(xs []int) []group.MemberIndex {
	out := make([]group.MemberIndex, len(xs))
	for i, x := range xs {
		out[i] = group.MemberIndex(x)
	}
	return out
}

// RunDKG runs dkg.Executor.Execute for the members of an N-group (seat i+1 = operator i+1).
func RunDKG(cfg DkgConfig) *DkgOutcome {
	seats := make([]int, cfg.N)
	for i := range seats {
		seats[i] = i + 1
	}
	network := NewNetwork(cfg.Rng)
	network.Duplicate = cfg.Duplicate
	defer network.Close()
	ctx, cancel := context.WithTimeout(context.Background(), cfg.Timeout)
	defer cancel()

	out := &DkgOutcome{
		Results: map[int]*dkg.Result{}, Errs: map[int]error{}, ExcludedResults: map[int]*dkg.Result{},
	}
	forge := func() {
		if !cfg.Inject {
			return
		}
		other := cfg.Session + "-other"
		for kind := 0; kind < dkg.VerifC07KindFinalization+1; kind++ {
			for m := 1; m <= cfg.N; m++ {
				// a genuine member's message of ANOTHER session
				p := dkg.VerifC07NewMessage(kind, group.MemberIndex(m), other, nil)
				network.Inject(p, p.Type(), OperatorKey(m))
			}
			for _, e := range cfg.Excluded {
				// an excluded member, same session, genuine key
				p := dkg.VerifC07NewMessage(kind, group.MemberIndex(e), cfg.Session, nil)
				network.Inject(p, p.Type(), OperatorKey(e))
				// an excluded member claiming an operating member's index
				for m := 1; m <= cfg.N; m++ {
					if !isIn(cfg.Excluded, m) {
						q := dkg.VerifC07NewMessage(kind, group.MemberIndex(m), cfg.Session, nil)
						network.Inject(q, q.Type(), OperatorKey(e))
						break
					}
				}
			}
		}
	}
	forge()

	var wg, wgOthers sync.WaitGroup
	var mu sync.Mutex
	pp := 0
	run := func(m int, excludedMember bool, preParams *keygen.LocalPreParams) {
		defer wg.Done()
		channel := network.ChannelFor(m)
		dkg.RegisterUnmarshallers(channel)
		executor := dkg.VerifC07NewExecutor(Logger, preParams, 2)
		mctx := ctx
		if excludedMember {
			// an excluded member cannot finish; do not let it hold the run until the timeout
			var c context.CancelFunc
			mctx, c = context.WithCancel(ctx)
			defer c()
			go func() {
				wgOthers.Wait()
				c()
			}()
		}
		res, err := executor.Execute(
			mctx, Logger, cfg.Seed, cfg.Session, group.MemberIndex(m), cfg.N,
			cfg.N-cfg.HonestThreshold, indexes(cfg.Excluded), channel, Validator(seats),
		)
		mu.Lock()
		defer mu.Unlock()
		if excludedMember {
			if err == nil {
				out.ExcludedResults[m] = res
			}
			return
		}
		out.Results[m], out.Errs[m] = res, err
	}
	for m := 1; m <= cfg.N; m++ {
		ex := isIn(cfg.Excluded, m)
		if ex && !cfg.RunExcluded {
			continue
		}
		if pp >= FixtureCount {
			panic("harness: more running members than fixture pre-parameters")
		}
		wg.Add(1)
		if !ex {
			wgOthers.Add(1)
		}
		mm, pre := m, PreParams(pp)
		pp++
		go func() {
			if !ex {
				defer wgOthers.Done()
			}
			run(mm, ex, pre)
		}()
	}
	go func() { // forged traffic in the middle of the run as well
		select {
		case <-time.After(150 * time.Millisecond):
			forge()
		case <-ctx.Done():
		}
	}()
	wg.Wait()
	network.mu.Lock()
	out.Sent = network.Sent
	network.mu.Unlock()
	return out
}

// PublicKeyOf renders a result's wallet public key.
func PublicKeyOf(r *dkg.Result) string {
	pk, err := r.GroupPublicKey()
	if err != nil || pk == nil {
		return "nokey"
	}
	return pk.X.Text(16) + ":" + pk.Y.Text(16)
}

// ---- real signing run -------------------------------------------------------

type SignOutcome struct {
	Signatures map[int]*tecdsa.Signature // by final member index
	Errs       map[int]error
}

// RunSigning runs signing.Execute for the members `included` (FINAL member indexes) of a final
// signing group of size `groupSize`; every other final index is passed as excluded, exactly as the
// tbtc signing executor does. shares maps final member index → private key share.
func RunSigning(
	rng *hx.Rng,
	message *big.Int,
	session string,
	groupSize, honestThreshold int,
	included []int,
	finalSeats []int,
	shares map[int]*tecdsa.PrivateKeyShare,
	timeout time.Duration,
) *SignOutcome {
	network := NewNetwork(rng)
	defer network.Close()
	ctx, cancel := context.WithTimeout(context.Background(), timeout)
	defer cancel()
	var excluded []int
	for f := 1; f <= groupSize; f++ {
		if !isIn(included, f) {
			excluded = append(excluded, f)
		}
	}
	out := &SignOutcome{Signatures: map[int]*tecdsa.Signature{}, Errs: map[int]error{}}
	var wg sync.WaitGroup
	var mu sync.Mutex
	for _, f := range included {
		wg.Add(1)
		go func(f int) {
			defer wg.Done()
			if f < 1 || f > len(finalSeats) || shares[f] == nil {
				// no key share is stored under this final index: the member cannot sign
				mu.Lock()
				out.Errs[f] = fmt.Errorf("no key share stored for final member index %d", f)
				mu.Unlock()
				return
			}
			channel := network.ChannelFor(finalSeats[f-1])
			signing.RegisterUnmarshallers(channel)
			res, err := signing.Execute(
				ctx, Logger, message, session, group.MemberIndex(f), shares[f], groupSize,
				groupSize-honestThreshold, indexes(excluded), channel, Validator(finalSeats),
			)
			mu.Lock()
			defer mu.Unlock()
			out.Errs[f] = err
			if err == nil {
				out.Signatures[f] = res.Signature
			}
		}(f)
	}
	wg.Wait()
	return out
}

// VerifySignature: plain ECDSA verification of (r, s) over the message digest under the key.
func VerifySignature(pk *ecdsa.PublicKey, message *big.Int, sig *tecdsa.Signature) bool {
	return ecdsa.Verify(pk, message.Bytes(), sig.R, sig.S)
}

func SortedKeys[V any](m map[int]V) []int {
	var ks []int
	for k := range m {
		ks = append(ks, k)
	}
	sort.Ints(ks)
	return ks
}
