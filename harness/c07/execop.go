package main

import (
	"context"
	"errors"
	"fmt"
	"math/big"
	"strings"
	"sync"
	"time"

	"keepverif/harness/c07/dkgrun"
	"keepverif/harness/hx"

	"github.com/keep-network/keep-core/pkg/net"
	"github.com/keep-network/keep-core/pkg/protocol/group"
	"github.com/keep-network/keep-core/pkg/tecdsa/dkg"
)

// exec <n> <self> <excluded>
//
// The REAL Executor.Execute (its own exclusion loop included) of member <self> is started on a
// capturing broadcast channel. The genuine ephemeral public key messages of exactly those members
// that must be operating — everybody except <self> and the excluded others — are delivered to the
// machine's handler. The first state's CanTransition compares the number of received messages
// with |operating| - 1 using `==`, so the member leaves the first state and reaches the
// initialization of TSS round one if and only if Execute disqualified exactly the excluded others:
// one member too few or too many and the member is stuck in the first state. Reaching round one is
// observed without any tss-lib computation: the probe executor's pool refuses the pre-parameters
// and Execute returns that error. Only the wrong case waits for the timeout.
//
// Obs: `eph=<ephemeral key messages sent by the member> r1=<reached|stuck|err:...>`
type capChannel struct {
	mu      sync.Mutex
	handler func(net.Message)
	ready   chan struct{}
	sent    chan string
}

func (c *capChannel) Name() string { return "verif-exec" }
func (c *capChannel) Send(_ context.Context, m net.TaggedMarshaler, _ ...net.RetransmissionStrategy) error {
	if _, err := m.Marshal(); err != nil {
		return err
	}
	select {
	case c.sent <- m.Type():
	default:
	}
	return nil
}
func (c *capChannel) Recv(_ context.Context, fn func(net.Message)) {
	c.mu.Lock()
	c.handler = fn
	c.mu.Unlock()
	close(c.ready)
}
func (c *capChannel) SetUnmarshaler(func() net.TaggedUnmarshaler) {}
func (c *capChannel) SetFilter(net.BroadcastChannelFilter) error  { return nil }

const execStuckAfter = 25 * time.Second

func execExec(f []string) (string, string) {
	n, self := hx.Atoi(f[1]), hx.Atoi(f[2])
	excluded := hx.ParseInts(f[3])
	seats := make([]int, n)
	for i := range seats {
		seats[i] = i + 1
	}
	seed := big.NewInt(4242)
	sessionID := "exec-session"
	isExcluded := map[int]bool{}
	for _, e := range excluded {
		if e != self {
			isExcluded[e] = true
		}
	}
	channel := &capChannel{ready: make(chan struct{}), sent: make(chan string, 64)}
	ctx, cancel := context.WithCancel(context.Background())
	defer cancel()
	done := make(chan error, 1)
	go func() {
		executor := dkg.VerifC07NewProbeExecutor(dkgrun.Logger, dkgrun.PreParams(0))
		_, err := executor.Execute(ctx, dkgrun.Logger, seed, sessionID, group.MemberIndex(self), n, n/2,
			indexes(excluded), channel, dkgrun.Validator(seats))
		done <- err
	}()
	select {
	case <-channel.ready:
	case err := <-done:
		return fmt.Sprintf("eph=0 r1=err:%v", err), "exec+err"
	case <-time.After(execStuckAfter):
		return "eph=0 r1=err:no-handler", "exec+err"
	}
	// genuine first messages of every member that must be operating
	for m := 1; m <= n; m++ {
		if m == self || isExcluded[m] {
			continue
		}
		other := dkg.VerifC07NewMember(dkgrun.Logger, seed, group.MemberIndex(m), n, n/2,
			dkgrun.Validator(seats), sessionID, dkgrun.PreParams(1))
		msg, err := other.VerifC07EphemeralPublicKeyMessage()
		if err != nil {
			return "eph=0 r1=err:ephemeral", "exec+err"
		}
		channel.handler(&netMsg{payload: msg, key: dkgrun.OperatorKey(m), typ: msg.Type(), seq: uint64(m)})
	}
	eph := 0
	r1 := "stuck"
	deadline := time.After(execStuckAfter)
loop:
	for {
		select {
		case typ := <-channel.sent:
			switch {
			case strings.HasSuffix(typ, "ephemeral_public_key_message"):
				eph++
			}
		case err := <-done:
			if errors.Is(err, dkg.ErrVerifC07PreParamsRequested) {
				r1 = "reached"
			} else {
				r1 = strings.ReplaceAll(fmt.Sprintf("err:%v", err), " ", "_")
			}
			break loop
		case <-deadline:
			break loop
		}
	}
	cancel()
	tag := "exec"
	if isExcluded[n] {
		tag += "+exec-last"
	}
	if isExcluded[1] {
		tag += "+exec-first"
	}
	if len(isExcluded) == 0 {
		tag += "+exec-none"
	}
	return fmt.Sprintf("eph=%d r1=%s", eph, r1), tag
}

// genExec: quick = every exclusion set of the 3-group that leaves >= 2 operating, for every
// executing member, plus 5-group sets that always include a boundary seat (first / last);
// thorough = every (member, exclusion set) of groups 3..5 that leaves the honest threshold.
func genExec(r *hx.Rng, tier string) []string {
	var ops []string
	add := func(n, self, mask int) {
		ex := maskList(n, mask)
		operating := n
		for _, e := range ex {
			if e != self {
				operating--
			}
		}
		if operating < n-n/2 || operating < 2 {
			return
		}
		ops = append(ops, fmt.Sprintf("exec %d %d %s", n, self, hx.JoinInts(ex)))
	}
	if tier == "thorough" {
		for n := 3; n <= 5; n++ {
			for self := 1; self <= n; self++ {
				for mask := 0; mask < 1<<n; mask++ {
					add(n, self, mask)
				}
			}
		}
		return ops
	}
	for self := 1; self <= 3; self++ {
		for mask := 0; mask < 8; mask++ {
			add(3, self, mask)
		}
	}
	for i := 0; i < 6; i++ {
		self := r.Range(1, 5)
		mask := 1 << r.Intn(5)
		switch i % 3 {
		case 0:
			mask |= 1 << 4 // the last seat
		case 1:
			mask |= 1 // the first seat
		}
		add(5, self, mask)
	}
	return ops
}
