import KeepVerif.Model.C29
/-!
# C29 — Bitcoin serialization and byte-order conversions round-trip

All statements are over `Model/C29.lean`, the model the driver runs against the real
`pkg/bitcoin` code byte for byte.  Decoders are parsers with a remainder, so every
round-trip lemma has the compositional form `dec (enc x ++ rest) = ok (x, rest)`.
-/
namespace KeepVerif.C29

/-! ## little endian integers -/

theorem le_length (k n : Nat) : (le k n).length = k := by
  induction k generalizing n with
  | zero => rfl
  | succ k ih => simp [le, ih]

theorem unle_le (k n : Nat) : unle (le k n) = n % 256 ^ k := by
  induction k generalizing n with
  | zero => simp [le, unle, Nat.mod_one]
  | succ k ih =>
    simp only [le, unle, ih]
    rw [Nat.pow_succ', Nat.mod_mul]

/-- every emitted byte is a byte -/
theorem le_bytes (k n : Nat) : ∀ b ∈ le k n, b < 256 := by
  induction k generalizing n with
  | zero => simp [le]
  | succ k ih =>
    intro b hb
    simp only [le, List.mem_cons] at hb
    rcases hb with rfl | hb
    · exact Nat.mod_lt _ (by decide)
    · exact ih _ b hb

theorem takeN_append (xs rest : Bytes) : takeN xs.length (xs ++ rest) = .ok (xs, rest) := by
  induction xs with
  | nil => cases rest <;> rfl
  | cons x xs ih => simp [takeN, ih]

/-- `takeN` is `io.ReadFull`: all or nothing, never a short read -/
theorem takeN_spec (k : Nat) (bs : Bytes) :
    takeN k bs = if bs.length < k then .error .eof else .ok (bs.take k, bs.drop k) := by
  induction k generalizing bs with
  | zero => cases bs <;> simp [takeN]
  | succ k ih =>
    cases bs with
    | nil => simp [takeN]
    | cons b bs =>
      simp only [takeN, ih bs, List.length_cons, List.take_succ_cons, List.drop_succ_cons]
      by_cases h : bs.length < k
      · simp [h]
      · simp [h]

theorem takeN_append' (k : Nat) (xs rest : Bytes) (h : xs.length = k) :
    takeN k (xs ++ rest) = .ok (xs, rest) := by
  subst h; exact takeN_append xs rest

/-- fixed-width little-endian integers round-trip -/
theorem readLE_le (k n : Nat) (rest : Bytes) (h : n < 256 ^ k) :
    readLE k (le k n ++ rest) = .ok (n, rest) := by
  unfold readLE
  rw [takeN_append' k _ _ (le_length k n)]
  simp [unle_le, Nat.mod_eq_of_lt h]

/-! ## compact size -/

/-- **compact_roundtrip**: reading a written compact size gives the value back, in all four
    size classes, leaving the rest of the stream untouched (so `ReadVarInt` accepts exactly the
    canonical form `WriteVarInt` emits). -/
theorem compact_roundtrip (n : Nat) (rest : Bytes) (h : n < 18446744073709551616) :
    csDec (csEnc n ++ rest) = .ok (n, rest) := by
  unfold csEnc
  by_cases h1 : n < 0xfd
  · rw [if_pos h1]
    simp only [List.cons_append, List.nil_append, csDec]
    rw [if_neg (by omega), if_neg (by omega), if_neg (by omega)]
  · rw [if_neg h1]
    by_cases h2 : n ≤ 0xffff
    · rw [if_pos h2]
      simp [csDec, readLE_le 2 n rest (by omega)]; omega
    · rw [if_neg h2]
      by_cases h3 : n ≤ 0xffffffff
      · rw [if_pos h3]
        simp [csDec, readLE_le 4 n rest (by omega)]; omega
      · rw [if_neg h3]
        simp [csDec, readLE_le 8 n rest (by omega)]; omega

/-- the encoded length is `VarIntSerializeSize` -/
theorem csEnc_length (n : Nat) : (csEnc n).length = csSize n := by
  unfold csEnc csSize
  split
  · rfl
  · split
    · simp [le_length]
    · split <;> simp [le_length]

theorem csSize_pos (n : Nat) : 0 < csSize n := by
  unfold csSize; split <;> (try split) <;> (try split) <;> omega

theorem readCompactSizeUint_roundtrip (n : Nat) (rest : Bytes) (h : n < 18446744073709551616) :
    readCompactSizeUint (csEnc n ++ rest) = .ok (n, (csEnc n).length) := by
  unfold readCompactSizeUint
  rw [compact_roundtrip n rest h, csEnc_length]

/-! ## var-len scripts -/

/-- **varlen_script_roundtrip**: `NewScriptFromVarLenData(s.ToVarLenData()) = s`. -/
theorem varlen_script_roundtrip (s : Bytes) (h : s.length + 9 < 18446744073709551616) :
    newScriptFromVarLenData (toVarLenData s) = .ok s := by
  unfold newScriptFromVarLenData toVarLenData
  rw [readCompactSizeUint_roundtrip _ _ (by omega)]
  have hsz : (csEnc s.length).length ≤ 9 := by
    rw [csEnc_length]; unfold csSize; split <;> (try split) <;> (try split) <;> omega
  simp only [List.length_append]
  rw [if_neg (by rw [Nat.mod_eq_of_lt (by omega)]; omega)]
  simp

/-- **varlen_rejects_trailing**: any non-empty suffix after a well-formed var-len script is
    rejected (the length check is an equality, not `≤`). -/
theorem varlen_rejects_trailing (s t : Bytes) (ht : t ≠ [])
    (h : s.length + t.length + 9 < 18446744073709551616) :
    newScriptFromVarLenData (toVarLenData s ++ t) = .error .malformed := by
  unfold newScriptFromVarLenData toVarLenData
  rw [List.append_assoc, readCompactSizeUint_roundtrip _ _ (by omega)]
  have hsz : (csEnc s.length).length ≤ 9 := by
    rw [csEnc_length]; unfold csSize; split <;> (try split) <;> (try split) <;> omega
  have htl : 0 < t.length := List.length_pos_iff.2 ht
  simp only [List.length_append]
  rw [if_pos (by rw [Nat.mod_eq_of_lt (by omega)]; omega)]

/-- and a truncated one as well -/
theorem varlen_rejects_truncated (s : Bytes) (k : Nat) (hk : k < s.length)
    (h : s.length + 9 < 18446744073709551616) :
    newScriptFromVarLenData (csEnc s.length ++ s.take k) = .error .malformed := by
  unfold newScriptFromVarLenData
  rw [readCompactSizeUint_roundtrip _ _ (by omega)]
  have hsz : (csEnc s.length).length ≤ 9 := by
    rw [csEnc_length]; unfold csSize; split <;> (try split) <;> (try split) <;> omega
  simp only [List.length_append, List.length_take]
  rw [if_pos (by rw [Nat.mod_eq_of_lt (by omega)]; omega)]


/-! ## hashes -/

theorem hexVal_hexNib : ∀ n, n < 16 → hexVal (hexNib n) = some n := by decide

theorem hexEnc_length (bs : Bytes) : (hexEnc bs).length = 2 * bs.length := by
  induction bs with
  | nil => rfl
  | cons b bs ih => simp only [hexEnc, List.length_cons, ih]; omega

theorem hexDec_hexEnc (bs : Bytes) (h : ∀ b ∈ bs, b < 256) : hexDec (hexEnc bs) = some bs := by
  induction bs with
  | nil => rfl
  | cons b bs ih =>
    have hb : b < 256 := h b (by simp)
    have ih' := ih (fun x hx => h x (by simp [hx]))
    simp only [hexEnc, hexDec, hexVal_hexNib (b / 16) (by omega), hexVal_hexNib (b % 16) (by omega), ih']
    congr 2
    omega

/-- **reverse_involutive** (both byte orders are each other's inverse) -/
theorem reverse_involutive (h : Bytes) : h.reverse.reverse = h := List.reverse_reverse h

/-- `NewHash` undoes the byte order `Hex`/`String` applied, in both orders. -/
theorem newHash_roundtrip (h : Bytes) (hl : h.length = 32) (r : Bool) :
    newHash (if r then h.reverse else h) r = .ok h := by
  cases r <;> simp [newHash, hl]

/-- **hash_hex_roundtrip**: `NewHashFromString(h.Hex(order), order) = h` for both orders. -/
theorem hash_hex_roundtrip (h : Bytes) (hl : h.length = 32) (hb : ∀ b ∈ h, b < 256) (r : Bool) :
    newHashFromString (hashHex h r) r = .ok h := by
  unfold newHashFromString hashHex
  have hlen : (if r then h.reverse else h).length = 32 := by cases r <;> simp [hl]
  have hbytes : ∀ b ∈ (if r then h.reverse else h), b < 256 := by
    cases r <;> simpa using hb
  rw [if_neg (by rw [hexEnc_length, hlen]; decide), hexDec_hexEnc _ hbytes]
  exact newHash_roundtrip h hl r

/-- a string in one byte order is the reversed-bytes string of the other order -/
theorem hashHex_orders (h : Bytes) : hashHex h true = hashHex h.reverse false := by
  simp [hashHex]

/-! ## block headers -/

theorem le_unle (bs : Bytes) (h : ∀ b ∈ bs, b < 256) : le bs.length (unle bs) = bs := by
  induction bs with
  | nil => rfl
  | cons b bs ih =>
    have hb : b < 256 := h b (by simp)
    have ih' := ih (fun x hx => h x (by simp [hx]))
    simp only [List.length_cons, le, unle]
    have h1 : (b + 256 * unle bs) % 256 = b := by omega
    have h2 : (b + 256 * unle bs) / 256 = unle bs := by omega
    rw [h1, h2, ih']

structure WfHeader (h : Header) : Prop where
  version : h.version < 4294967296
  prev : h.prev.length = 32
  merkle : h.merkle.length = 32
  time : h.time < 4294967296
  bits : h.bits < 4294967296
  nonce : h.nonce < 4294967296

theorem serializeHeader_length (h : Header) (w : WfHeader h) : (serializeHeader h).length = 80 := by
  simp [serializeHeader, le_length, w.prev, w.merkle]

private theorem unle_le4 (n : Nat) (h : n < 4294967296) : unle (le 4 n) = n := by
  rw [unle_le]; exact Nat.mod_eq_of_lt h

/-- **header_roundtrip**: `Deserialize(Serialize(h)) = h` for every header. -/
theorem header_roundtrip (h : Header) (w : WfHeader h) :
    deserializeHeader (serializeHeader h) = h := by
  obtain ⟨v, p, m, t, b, n⟩ := h
  have hp : p.length = 32 := w.prev
  have hm : m.length = 32 := w.merkle
  have l4 : ∀ x, (le 4 x).length = 4 := le_length 4
  simp only [deserializeHeader, serializeHeader, Header.mk.injEq]
  refine ⟨?_, ?_, ?_, ?_, ?_, ?_⟩
  · rw [List.append_assoc, List.append_assoc, List.append_assoc, List.append_assoc,
      List.take_left' (l4 v)]
    exact unle_le4 v w.version
  · rw [List.append_assoc, List.append_assoc, List.append_assoc, List.append_assoc,
      List.drop_left' (l4 v), List.take_left' hp]
  · rw [List.append_assoc, List.append_assoc, List.append_assoc,
      List.drop_left' (by simp [l4, hp]), List.take_left' hm]
  · rw [List.append_assoc, List.append_assoc,
      List.drop_left' (by simp [l4, hp, hm]), List.take_left' (l4 t)]
    exact unle_le4 t w.time
  · rw [List.append_assoc, List.drop_left' (by simp [l4, hp, hm]), List.take_left' (l4 b)]
    exact unle_le4 b w.bits
  · rw [List.drop_left' (by simp [l4, hp, hm])]
    rw [List.take_of_length_le (by simp [l4])]
    exact unle_le4 n w.nonce


/-- **header_roundtrip (bytes → header → bytes)**: `Serialize(Deserialize(b)) = b` for every
    80-byte array — `Deserialize` loses nothing and `Serialize` places every field where
    `Deserialize` reads it. -/
theorem header_roundtrip_bytes (b : Bytes) (hl : b.length = 80) (hb : ∀ x ∈ b, x < 256) :
    serializeHeader (deserializeHeader b) = b := by
  have hsub : ∀ (xs : Bytes), (∀ x ∈ xs, x ∈ b) → ∀ x ∈ xs, x < 256 := fun xs h x hx => hb x (h x hx)
  have r4 : ∀ (xs : Bytes), xs.length = 4 → (∀ x ∈ xs, x < 256) → le 4 (unle xs) = xs := by
    intro xs h4 hx
    have := le_unle xs hx
    rwa [h4] at this
  have m1 : ∀ x ∈ b.take 4, x ∈ b := fun x hx => List.mem_of_mem_take hx
  have m2 : ∀ (k : Nat), ∀ x ∈ (b.drop k).take 4, x ∈ b :=
    fun k x hx => List.mem_of_mem_drop (List.mem_of_mem_take hx)
  simp only [serializeHeader, deserializeHeader]
  rw [r4 (b.take 4) (by simp [hl]) (hsub _ m1),
    r4 ((b.drop 68).take 4) (by simp [hl]) (hsub _ (m2 68)),
    r4 ((b.drop 72).take 4) (by simp [hl]) (hsub _ (m2 72)),
    r4 ((b.drop 76).take 4) (by simp [hl]) (hsub _ (m2 76))]
  have e76 : (b.drop 76).take 4 = b.drop 76 := List.take_of_length_le (by simp [hl])
  have sp : ∀ k n : Nat, b.drop k = (b.drop k).take n ++ b.drop (k + n) := by
    intro k n
    rw [← List.drop_drop]
    exact (List.take_append_drop n _).symm
  have s1 : b.drop 72 = (b.drop 72).take 4 ++ b.drop 76 := sp 72 4
  have s2 : b.drop 68 = (b.drop 68).take 4 ++ b.drop 72 := sp 68 4
  have s3 : b.drop 36 = (b.drop 36).take 32 ++ b.drop 68 := sp 36 32
  have s4 : b.drop 4 = (b.drop 4).take 32 ++ b.drop 36 := sp 4 32
  have s5 : b = b.take 4 ++ b.drop 4 := (List.take_append_drop 4 b).symm
  rw [e76]
  simp only [List.append_assoc]
  rw [← s1, ← s2, ← s3, ← s4, ← s5]

/-! ## transactions -/

/-- T1 tie: the decode limits measured on the real btcd decoder (Gen/C29.lean) all fit a
    compact size — the only fact about them the round-trip proofs need — and the script limit is
    the message payload limit. -/
theorem limits_small : maxPayload < 18446744073709551616 ∧ maxTxIn < 18446744073709551616 ∧
    maxTxOut < 18446744073709551616 ∧ maxWitnessItems < 18446744073709551616 ∧
    maxWitnessItemSize < 18446744073709551616 := by decide

theorem limits_btcd : maxPayload = Gen.C29.maxMessagePayload ∧ maxTxIn = maxPayload / 41 + 1 ∧
    maxTxOut = maxPayload / 9 + 1 := by decide

theorem readScript_varBytes (mx : Nat) (s rest : Bytes) (h : s.length ≤ mx)
    (h64 : s.length < 18446744073709551616) :
    readScript mx (varBytesEnc s ++ rest) = .ok (s, rest) := by
  unfold readScript varBytesEnc
  rw [List.append_assoc, compact_roundtrip _ _ h64]
  simp only []
  rw [if_neg (by omega), takeN_append]

/-- generic list round-trip: `n` items written back to back are read back by `decMany`. -/
theorem decMany_flatMap {α β : Type} (enc : α → Bytes) (dec : Dec β) (norm : α → β) (P : α → Prop)
    (h : ∀ x rest, P x → dec (enc x ++ rest) = .ok (norm x, rest)) :
    ∀ (xs : List α) (rest : Bytes), (∀ x ∈ xs, P x) →
      decMany dec xs.length (xs.flatMap enc ++ rest) = .ok (xs.map norm, rest)
  | [], rest, _ => rfl
  | x :: xs, rest, hp => by
    have hx := h x (xs.flatMap enc ++ rest) (hp x (by simp))
    have ih := decMany_flatMap enc dec norm P h xs rest (fun y hy => hp y (by simp [hy]))
    simp only [List.length_cons, List.flatMap_cons, List.append_assoc, decMany, hx, ih, List.map_cons]

structure WfIn (i : TxIn) : Prop where
  hash : i.hash.length = 32
  index : i.index < 4294967296
  sequence : i.sequence < 4294967296
  script : i.script.length ≤ maxPayload
  witnessCount : i.witness.length ≤ maxWitnessItems
  witnessItem : ∀ w ∈ i.witness, w.length ≤ maxWitnessItemSize

structure WfOut (o : TxOut) : Prop where
  value : o.value < 18446744073709551616
  script : o.script.length ≤ maxPayload

/-- what Go's types guarantee (`[32]byte`, `uint32`, `int64`) plus btcd's decode limits -/
structure WfTx (tx : Tx) : Prop where
  version : tx.version < 4294967296
  locktime : tx.locktime < 4294967296
  ins : ∀ i ∈ tx.ins, WfIn i
  outs : ∀ o ∈ tx.outs, WfOut o
  inCount : tx.ins.length ≤ maxTxIn
  outCount : tx.outs.length ≤ maxTxOut

def noWit (i : TxIn) : TxIn := { i with witness := [] }

theorem decTxIn_enc (i : TxIn) (rest : Bytes) (w : WfIn i) :
    decTxIn (encTxIn i ++ rest) = .ok (noWit i, rest) := by
  unfold decTxIn encTxIn
  have hs := w.script
  simp only [List.append_assoc]
  rw [takeN_append' 32 _ _ w.hash]
  simp only []
  rw [readLE_le 4 _ _ w.index]
  simp only []
  rw [readScript_varBytes _ _ _ w.script (by have := limits_small; omega)]
  simp only []
  rw [readLE_le 4 _ _ w.sequence]
  rfl

theorem decTxOut_enc (o : TxOut) (rest : Bytes) (w : WfOut o) :
    decTxOut (encTxOut o ++ rest) = .ok (o, rest) := by
  unfold decTxOut encTxOut
  have hs := w.script
  rw [List.append_assoc, readLE_le 8 _ _ w.value]
  simp only []
  rw [readScript_varBytes _ _ _ w.script (by have := limits_small; omega)]

theorem decWitness_enc (ws : List Bytes) (rest : Bytes) (hc : ws.length ≤ maxWitnessItems)
    (hi : ∀ w ∈ ws, w.length ≤ maxWitnessItemSize) :
    decWitness (encWitness ws ++ rest) = .ok (ws, rest) := by
  unfold decWitness encWitness
  rw [List.append_assoc, compact_roundtrip _ _ (by have := limits_small; omega)]
  simp only []
  rw [if_neg (by omega)]
  have := decMany_flatMap varBytesEnc (readScript maxWitnessItemSize) id
    (fun w => w.length ≤ maxWitnessItemSize)
    (fun x r hx => readScript_varBytes _ x r hx (by have := limits_small; omega))
    ws rest hi
  rw [this]; simp

theorem setWitnesses_noWit (ins : List TxIn) :
    setWitnesses (ins.map noWit) (ins.map (·.witness)) = ins := by
  induction ins with
  | nil => rfl
  | cons i is ih => simp [setWitnesses, noWit, ih]

theorem hasWitness_false_iff (tx : Tx) : hasWitness tx = false ↔ ∀ i ∈ tx.ins, i.witness = [] := by
  simp [hasWitness]

theorem map_noWit_of_no_witness (ins : List TxIn) (h : ∀ i ∈ ins, i.witness = []) :
    ins.map noWit = ins := by
  induction ins with
  | nil => rfl
  | cons i is ih =>
    have hi : i.witness = [] := h i (by simp)
    have : noWit i = i := by cases i; simp_all [noWit]
    simp [this, ih (fun x hx => h x (by simp [hx]))]

/-- the shared body of both round-trips: decoding `serialize w tx` for a chosen flag `w`
    gives the inputs with (w) or without (¬w) their witnesses. -/
theorem deserialize_body (tx : Tx) (wf : WfTx tx) (hne : tx.ins ≠ []) (w : Bool) (rest : Bytes) :
    deserialize (le 4 tx.version ++ (if w then [0, 1] else []) ++
        csEnc tx.ins.length ++ tx.ins.flatMap encTxIn ++
        csEnc tx.outs.length ++ tx.outs.flatMap encTxOut ++
        (if w then tx.ins.flatMap (fun i => encWitness i.witness) else []) ++
        le 4 tx.locktime ++ rest) =
      .ok ({ tx with ins := if w then tx.ins else tx.ins.map noWit }, rest) := by
  have hic := wf.inCount
  have hoc := wf.outCount
  have hpos : 0 < tx.ins.length := List.length_pos_iff.2 hne
  have hins := decMany_flatMap encTxIn decTxIn noWit WfIn decTxIn_enc tx.ins
  have houts := decMany_flatMap encTxOut decTxOut id WfOut decTxOut_enc tx.outs
  have hcnt : ∀ r, decCount ((if w then [0, 1] else []) ++ csEnc tx.ins.length ++ r) =
      .ok (w, tx.ins.length, r) := by
    intro r
    cases w
    · simp only [Bool.false_eq_true, if_false, List.nil_append]
      unfold decCount
      rw [compact_roundtrip _ _ (by have := limits_small; omega)]
      simp only []
      rw [if_neg (by omega)]
    · simp only [if_true]
      unfold decCount
      have h0 : csDec (([0, 1] ++ csEnc tx.ins.length) ++ r) = .ok (0, 1 :: (csEnc tx.ins.length ++ r)) := by
        simp [csDec]
      rw [h0]
      simp only [if_true]
      rw [compact_roundtrip _ _ (by have := limits_small; omega)]
      simp
  unfold deserialize
  simp only [List.append_assoc]
  rw [readLE_le 4 _ _ wf.version]
  simp only []
  have := hcnt (tx.ins.flatMap encTxIn ++ (csEnc tx.outs.length ++ (tx.outs.flatMap encTxOut ++
      ((if w then tx.ins.flatMap (fun i => encWitness i.witness) else []) ++ (le 4 tx.locktime ++ rest)))))
  simp only [List.append_assoc] at this
  rw [this]
  simp only []
  rw [if_neg (by omega), hins _ wf.ins]
  simp only []
  rw [compact_roundtrip _ _ (by have := limits_small; omega)]
  simp only []
  rw [if_neg (by omega), houts _ wf.outs]
  simp only [List.map_id]
  cases w
  · simp only [Bool.false_eq_true, if_false, List.nil_append, decWitnesses]
    rw [readLE_le 4 _ _ wf.locktime]
  · simp only [if_true, decWitnesses, List.length_map]
    have hw := decMany_flatMap (fun i : TxIn => encWitness i.witness) decWitness (·.witness)
      (fun i => WfIn i) (fun x r hx => decWitness_enc x.witness r hx.witnessCount hx.witnessItem)
      tx.ins (le 4 tx.locktime ++ rest) wf.ins
    rw [hw]
    simp only []
    rw [setWitnesses_noWit, readLE_le 4 _ _ wf.locktime]


/-- **tx_roundtrip (witness format)**: for every well-formed transaction with at least one
    input, `Deserialize(Serialize(Witness))` is the same transaction — all witness stacks
    included — and consumes exactly the serialization. -/
theorem tx_roundtrip_witness (tx : Tx) (wf : WfTx tx) (hne : tx.ins ≠ []) (rest : Bytes) :
    deserialize (serialize true tx ++ rest) = .ok (tx, rest) := by
  have h := deserialize_body tx wf hne (hasWitness tx) rest
  have hs : serialize true tx = le 4 tx.version ++ (if hasWitness tx then [0, 1] else []) ++
        csEnc tx.ins.length ++ tx.ins.flatMap encTxIn ++
        csEnc tx.outs.length ++ tx.outs.flatMap encTxOut ++
        (if hasWitness tx then tx.ins.flatMap (fun i => encWitness i.witness) else []) ++
        le 4 tx.locktime := by
    simp [serialize]
  rw [hs, h]
  congr 2
  cases hw : hasWitness tx
  · have := map_noWit_of_no_witness tx.ins ((hasWitness_false_iff tx).1 hw)
    simp [this]
  · simp

/-- **tx_roundtrip (standard format)**: decoding the standard serialization gives the
    transaction without its witness stacks. -/
theorem tx_roundtrip_standard (tx : Tx) (wf : WfTx tx) (hne : tx.ins ≠ []) (rest : Bytes) :
    deserialize (serialize false tx ++ rest) = .ok (stripWitness tx, rest) := by
  have h := deserialize_body tx wf hne false rest
  have hs : serialize false tx = le 4 tx.version ++ (if false = true then [0, 1] else []) ++
        csEnc tx.ins.length ++ tx.ins.flatMap encTxIn ++
        csEnc tx.outs.length ++ tx.outs.flatMap encTxOut ++
        (if false = true then tx.ins.flatMap (fun i => encWitness i.witness) else []) ++
        le 4 tx.locktime := by
    simp [serialize]
  rw [hs, h]
  rfl

/-- the standard serialization without the `let`s -/
theorem serialize_standard_eq (tx : Tx) :
    serialize false tx = le 4 tx.version ++ ((csEnc tx.ins.length ++ tx.ins.flatMap encTxIn) ++
      ((csEnc tx.outs.length ++ tx.outs.flatMap encTxOut) ++ le 4 tx.locktime)) := by
  simp [serialize]

/-- **hash_ignores_witness**: the standard serialization — the preimage of `Hash()` — does not
    depend on witness data, so for *any* hash function `Hash(tx) = Hash(stripWitness tx)`. -/
theorem hash_ignores_witness (tx : Tx) : serialize false tx = serialize false (stripWitness tx) := by
  have h : ∀ ins : List TxIn, (ins.map (fun i => { i with witness := [] })).flatMap encTxIn =
      ins.flatMap encTxIn := by
    intro ins
    induction ins with
    | nil => rfl
    | cons i is ih => simp [encTxIn, ih]
  rw [serialize_standard_eq, serialize_standard_eq]
  simp [stripWitness, h]

theorem hash_ignores_witness' {H : Type} (hash : Bytes → H) (tx : Tx) :
    hash (serialize false tx) = hash (serialize false (stripWitness tx)) := by
  rw [← hash_ignores_witness]

theorem flatMap_length {α : Type} (enc : α → Bytes) (f : α → Nat) (xs : List α)
    (h : ∀ x ∈ xs, (enc x).length = f x) : (xs.flatMap enc).length = sumSizes f xs := by
  induction xs with
  | nil => rfl
  | cons x xs ih =>
    simp only [List.flatMap_cons, List.length_append, sumSizes]
    rw [h x (by simp), ih (fun y hy => h y (by simp [hy]))]

theorem encTxIn_length (i : TxIn) (h : i.hash.length = 32) : (encTxIn i).length = txInSize i := by
  simp [encTxIn, txInSize, varBytesEnc, le_length, csEnc_length, h]; omega

theorem encTxOut_length (o : TxOut) : (encTxOut o).length = txOutSize o := by
  simp [encTxOut, txOutSize, varBytesEnc, le_length, csEnc_length]; omega

/-- `SerializeInputs` (a slice of the standard serialization computed from sizes) is exactly
    the compact-size count followed by the inputs. -/
theorem serializeInputs_eq (tx : Tx) (hh : ∀ i ∈ tx.ins, i.hash.length = 32) :
    serializeInputs tx = csEnc tx.ins.length ++ tx.ins.flatMap encTxIn := by
  unfold serializeInputs
  simp only []
  rw [serialize_standard_eq, List.drop_left' (le_length 4 _)]
  apply List.take_left'
  rw [List.length_append, csEnc_length,
    flatMap_length encTxIn txInSize tx.ins (fun i hi => encTxIn_length i (hh i hi))]

/-- `SerializeOutputs` is exactly the compact-size count followed by the outputs. -/
theorem serializeOutputs_eq (tx : Tx) :
    serializeOutputs tx = csEnc tx.outs.length ++ tx.outs.flatMap encTxOut := by
  unfold serializeOutputs
  simp only []
  have hO : (csEnc tx.outs.length ++ tx.outs.flatMap encTxOut).length =
      csSize tx.outs.length + sumSizes txOutSize tx.outs := by
    rw [List.length_append, csEnc_length,
      flatMap_length encTxOut txOutSize tx.outs (fun o _ => encTxOut_length o)]
  rw [← hO, serialize_standard_eq]
  generalize csEnc tx.ins.length ++ tx.ins.flatMap encTxIn = I
  generalize csEnc tx.outs.length ++ tx.outs.flatMap encTxOut = O
  have h4 := le_length 4 tx.version
  have hl := le_length 4 tx.locktime
  have e1 : le 4 tx.version ++ (I ++ (O ++ le 4 tx.locktime)) =
      ((le 4 tx.version ++ I) ++ O) ++ le 4 tx.locktime := by simp
  rw [e1]
  have hlen : (((le 4 tx.version ++ I) ++ O) ++ le 4 tx.locktime).length - 4 =
      ((le 4 tx.version ++ I) ++ O).length := by
    simp only [List.length_append, hl]; omega
  rw [hlen, List.take_left' rfl]
  apply List.drop_left'
  simp only [List.length_append]; omega

/-- **parts_are_slices**: version ‖ inputs ‖ outputs ‖ locktime is the full standard
    serialization. -/
theorem parts_are_slices (tx : Tx) (hh : ∀ i ∈ tx.ins, i.hash.length = 32) :
    serializeVersion tx ++ serializeInputs tx ++ serializeOutputs tx ++ serializeLocktime tx =
      serialize false tx := by
  rw [serializeInputs_eq tx hh, serializeOutputs_eq tx, serialize_standard_eq]
  simp [serializeVersion, serializeLocktime]

/-- **zero_inputs_ambiguous**: the `≥ 1 input` guard of the property is necessary — a
    transaction without inputs serializes to bytes whose input count `00` is read as the
    segwit marker, and does not decode to itself. -/
theorem zero_inputs_ambiguous :
    exceptEq (fstOf (deserialize (serialize true ⟨1, [], [⟨0, []⟩], 0⟩))) ⟨1, [], [⟨0, []⟩], 0⟩
      = false := by
  decide


/-! ## monitor soundness -/

theorem wfTx_of_bool (tx : Tx) (h1 : wfTx tx = true) (h2 : inLimits tx = true) : WfTx tx := by
  simp only [wfTx, inLimits, wfIn, wfOut, Bool.and_eq_true, decide_eq_true_eq, List.all_eq_true] at h1 h2
  obtain ⟨⟨⟨hv, hl⟩, hi⟩, ho⟩ := h1
  obtain ⟨⟨⟨hic, hoc⟩, hil⟩, hol⟩ := h2
  exact {
    version := hv, locktime := hl, inCount := hic, outCount := hoc
    ins := fun i hi' => {
      hash := (hi i hi').1.1, index := (hi i hi').1.2, sequence := (hi i hi').2
      script := (hil i hi').1.1, witnessCount := (hil i hi').1.2, witnessItem := (hil i hi').2 }
    outs := fun o ho' => { value := ho o ho', script := hol o ho' } }

/-- **Monitor soundness**: the decidable property `holdsTx` accepts the model's own observation
    for *every* transaction; together with the byte-for-byte correspondence run this transfers
    the round-trip theorems to what `pkg/bitcoin` returned. -/
theorem holdsTx_model (tx : Tx) : holdsTx tx (txObs tx) = true := by
  unfold holdsTx
  by_cases hc : (wfTx tx && inLimits tx && !tx.ins.isEmpty) = true
  · simp only [hc, Bool.not_true, Bool.false_eq_true, if_false]
    simp only [Bool.and_eq_true, Bool.not_eq_true', List.isEmpty_eq_false_iff] at hc
    obtain ⟨⟨h1, h2⟩, hne⟩ := hc
    have wf := wfTx_of_bool tx h1 h2
    have hw := tx_roundtrip_witness tx wf hne []
    have hs := tx_roundtrip_standard tx wf hne []
    simp only [List.append_nil] at hw hs
    have hp := parts_are_slices tx (fun i hi => (wf.ins i hi).hash)
    simp only [List.append_assoc] at hp
    simp [txObs, hw, hs, fstOf, exceptEq, hp, ← hash_ignores_witness]
  · simp [hc]

end KeepVerif.C29
