import KeepVerif.Model.C21
/-!
# C21 — Firewall admits exactly allowlisted or recognized operators

Theorems over `Model/C21.lean` for every configuration (allowlist, periods), every cache state,
every clock value and every list of application answers; the history theorems are for every
sequence of validations with arbitrary advances of the clock.
-/
namespace KeepVerif.C21

/-! ## One validation, arbitrary state -/

/-- C21 main statement: `Validate` admits **iff** the key is allowlisted, or it is in the positive
    cache (after the sweep at `now`), or it is not in the negative cache and the first application
    answer that is not "not recognized" is "recognized" (an error earlier in the list aborts). -/
theorem validate_spec (cfg : Cfg) (st : St) (now key : Nat) (answers : List Ans) :
    (validate cfg st now key answers).1 = .accept ↔
      (cfg.allow.contains key = true ∨ has (sweep cfg.posSpan now st.pos) key = true ∨
        (has (sweep cfg.negSpan now st.neg) key = false ∧ firstDecisiveYes answers = true)) := by
  unfold validate firstDecisiveYes
  by_cases ha : key ∈ cfg.allow
  · simp [ha]
  · by_cases hp : has (sweep cfg.posSpan now st.pos) key = true
    · simp [ha, hp]
    · by_cases hn : has (sweep cfg.negSpan now st.neg) key = true
      · simp [ha, hp, hn]
      · rcases h : ask answers with ⟨v, n⟩
        cases v <;> simp [ha, hp, hn]

/-- When neither the allowlist nor a cache decides, the verdict and the number of calls are a
    function of the *current* answers only (`cache_follows_latest`). -/
theorem cache_follows_latest (cfg : Cfg) (st : St) (now key : Nat) (answers : List Ans)
    (ha : cfg.allow.contains key = false)
    (hp : has (sweep cfg.posSpan now st.pos) key = false)
    (hn : has (sweep cfg.negSpan now st.neg) key = false) :
    (validate cfg st now key answers).1 = (ask answers).1 ∧
    (validate cfg st now key answers).2.1 = (ask answers).2 := by
  have ha' : key ∉ cfg.allow := by simpa using ha
  unfold validate
  rcases h : ask answers with ⟨v, n⟩
  cases v <;> simp [ha', hp, hn]

/-- The error verdict is returned exactly when nothing cached applies and the first answer that
    is not "not recognized" is an error. -/
theorem error_iff (cfg : Cfg) (st : St) (now key : Nat) (answers : List Ans) :
    (validate cfg st now key answers).1 = .error ↔
      (cfg.allow.contains key = false ∧ has (sweep cfg.posSpan now st.pos) key = false ∧
        has (sweep cfg.negSpan now st.neg) key = false ∧ (ask answers).1 = .error) := by
  unfold validate
  by_cases ha : key ∈ cfg.allow
  · simp [ha]
  · by_cases hp : has (sweep cfg.posSpan now st.pos) key = true
    · simp [ha, hp]
    · by_cases hn : has (sweep cfg.negSpan now st.neg) key = true
      · simp [ha, hp, hn]
      · rcases h : ask answers with ⟨v, n⟩
        cases v <;> simp [ha, hp, hn]

/-- A failed recognition check never admits the peer: when the applications are consulted and
    one fails before any recognizes the key, the verdict is the error, not an admission. -/
theorem error_never_admits (cfg : Cfg) (st : St) (now key : Nat) (answers : List Ans)
    (ha : cfg.allow.contains key = false)
    (hp : has (sweep cfg.posSpan now st.pos) key = false)
    (hn : has (sweep cfg.negSpan now st.neg) key = false)
    (he : (ask answers).1 = .error) :
    (validate cfg st now key answers).1 = .error :=
  (error_iff cfg st now key answers).2 ⟨ha, hp, hn, he⟩

/-- …and is not remembered: after an error both caches are just the swept old caches and
    hold no entry for the key, so the next validation consults the applications again. -/
theorem error_not_cached (cfg : Cfg) (st : St) (now key : Nat) (answers : List Ans)
    (he : (validate cfg st now key answers).1 = .error) :
    (validate cfg st now key answers).2.2 = ⟨sweep cfg.posSpan now st.pos, sweep cfg.negSpan now st.neg⟩ ∧
    has (validate cfg st now key answers).2.2.pos key = false ∧
    has (validate cfg st now key answers).2.2.neg key = false := by
  obtain ⟨ha, hp, hn, hk⟩ := (error_iff cfg st now key answers).1 he
  have ha' : key ∉ cfg.allow := by simpa using ha
  unfold validate
  rcases h : ask answers with ⟨v, n⟩
  rw [h] at hk
  simp only at hk
  subst hk
  simp [ha', hp, hn]

/-- The loop tests the error before the boolean: if the first answer that is not `(false, nil)`
    carries an error — `(false, e)` **or** `(true, e)` — the loop's result is the error. -/
theorem ask_error_of_first_err (pre post : List Ans) (a : Ans)
    (hpre : ∀ x ∈ pre, x = .no) (ha : a.hasErr = true) :
    (ask (pre ++ a :: post)).1 = .error := by
  induction pre with
  | nil => cases a <;> simp [ask, Ans.hasErr] at ha ⊢
  | cons x pre ih =>
    have hx : x = .no := hpre x (by simp)
    subst hx
    simp only [List.cons_append, ask]
    exact ih (fun y hy => hpre y (by simp [hy]))

/-- `error_never_admits` for the full alphabet {true,false}×{nil,err}: an application that answers
    `(true, err)` (recognized, but with an error) before any clean recognition does **not** admit
    the peer, and nothing is remembered in either cache. -/
theorem recognized_with_error_never_admits (cfg : Cfg) (st : St) (now key : Nat)
    (pre post : List Ans) (a : Ans) (hpre : ∀ x ∈ pre, x = .no) (ha : a.hasErr = true)
    (hal : cfg.allow.contains key = false)
    (hp : has (sweep cfg.posSpan now st.pos) key = false)
    (hn : has (sweep cfg.negSpan now st.neg) key = false) :
    (validate cfg st now key (pre ++ a :: post)).1 = .error ∧
    has (validate cfg st now key (pre ++ a :: post)).2.2.pos key = false ∧
    has (validate cfg st now key (pre ++ a :: post)).2.2.neg key = false := by
  have he := error_never_admits cfg st now key _ hal hp hn (ask_error_of_first_err pre post a hpre ha)
  exact ⟨he, (error_not_cached cfg st now key _ he).2⟩

example : (validate ⟨[], 43200, 3600⟩ St.empty 0 7 [.no, .yesErr, .yes]).1 = .error := by decide

/-- A verdict served from the allowlist or a cache calls no application. -/
theorem cached_calls_nobody (cfg : Cfg) (st : St) (now key : Nat) (answers : List Ans)
    (h : cfg.allow.contains key = true ∨ has (sweep cfg.posSpan now st.pos) key = true ∨
      has (sweep cfg.negSpan now st.neg) key = true) :
    (validate cfg st now key answers).2.1 = 0 := by
  unfold validate
  by_cases ha : key ∈ cfg.allow
  · simp [ha]
  · by_cases hp : has (sweep cfg.posSpan now st.pos) key = true
    · simp [ha, hp]
    · by_cases hn : has (sweep cfg.negSpan now st.neg) key = true
      · simp [ha, hp, hn]
      · simp [ha, hp, hn] at h

/-! ## The time cache: nothing stale is ever consulted

`TimeCache.sweep` only pops from the back of the indexer.  Entries are pushed to the front with the
current time, so timestamps are non-increasing from the front (`Sorted`) as long as the clock is
monotone; under that invariant the sweep removes *exactly* the expired entries. -/

/-- timestamps non-increasing from the front, none in the future -/
def Sorted (now : Nat) (c : Cache) : Prop :=
  c.Pairwise (fun a b => b.t ≤ a.t) ∧ ∀ e ∈ c, e.t ≤ now

private theorem mem_dropWhile_asc (span now : Nat) (l : List Entry)
    (hl : l.Pairwise (fun a b => a.t ≤ b.t)) (x : Entry) :
    x ∈ l.dropWhile (expired span now) ↔ x ∈ l ∧ expired span now x = false := by
  induction l with
  | nil => simp
  | cons a l ih =>
    rw [List.pairwise_cons] at hl
    by_cases hp : expired span now a = true
    · rw [List.dropWhile_cons_of_pos hp, ih hl.2]
      constructor
      · rintro ⟨h1, h2⟩; exact ⟨List.mem_cons_of_mem _ h1, h2⟩
      · rintro ⟨h1, h2⟩
        rcases List.mem_cons.1 h1 with rfl | h1
        · rw [hp] at h2; cases h2
        · exact ⟨h1, h2⟩
    · rw [List.dropWhile_cons_of_neg hp]
      constructor
      · intro h
        refine ⟨h, ?_⟩
        rcases List.mem_cons.1 h with rfl | h1
        · simpa using hp
        · have := hl.1 x h1
          simp only [expired, decide_eq_true_eq, Nat.not_lt] at hp
          simp only [expired, decide_eq_false_iff_not, Nat.not_lt]
          omega
      · rintro ⟨h1, _⟩; exact h1

/-- Under the invariant the sweep keeps exactly the entries that are not older than the period. -/
theorem mem_sweep_iff (span now : Nat) (c : Cache) (hs : c.Pairwise (fun a b => b.t ≤ a.t))
    (x : Entry) : x ∈ sweep span now c ↔ x ∈ c ∧ now ≤ x.t + span := by
  unfold sweep
  rw [List.mem_reverse, mem_dropWhile_asc span now c.reverse (by
    rw [List.pairwise_reverse]; exact hs)]
  simp [expired, Nat.not_lt]

/-- `no_stale_beyond_period`: a key found in a cache right after the sweep at `now` has an entry
    stamped within the last `span` seconds — a verdict is never served from an entry older than
    the caching period, and every younger entry is still served. -/
theorem no_stale_beyond_period (span now : Nat) (c : Cache) (hs : c.Pairwise (fun a b => b.t ≤ a.t))
    (k : Nat) : has (sweep span now c) k = true ↔ ∃ e ∈ c, e.key = k ∧ now ≤ e.t + span := by
  unfold has
  rw [List.any_eq_true]
  constructor
  · rintro ⟨e, he, hk⟩
    obtain ⟨h1, h2⟩ := (mem_sweep_iff span now c hs e).1 he
    exact ⟨e, h1, by simpa using hk, h2⟩
  · rintro ⟨e, h1, hk, h2⟩
    exact ⟨e, (mem_sweep_iff span now c hs e).2 ⟨h1, h2⟩, by simpa using hk⟩

private theorem sweep_sublist (span now : Nat) (c : Cache) : (sweep span now c).Sublist c := by
  unfold sweep
  have h := (List.dropWhile_sublist (expired span now) (l := c.reverse)).reverse
  simpa using h

private theorem sorted_sweep {now : Nat} {c : Cache} (span now' : Nat) (h : Sorted now c) (hn : now ≤ now') :
    Sorted now' (sweep span now' c) :=
  ⟨h.1.sublist (sweep_sublist span now' c),
   fun e he => Nat.le_trans (h.2 e ((sweep_sublist span now' c).subset he)) hn⟩

private theorem sorted_add {now : Nat} {c : Cache} (span : Nat) (k : Nat) (h : Sorted now c) :
    Sorted now (add span now c k) := by
  unfold add
  split
  · exact h
  · have hs := sorted_sweep span now h (Nat.le_refl now)
    refine ⟨?_, ?_⟩
    · rw [List.pairwise_cons]
      exact ⟨fun b hb => hs.2 b hb, hs.1⟩
    · intro e he
      rcases List.mem_cons.1 he with rfl | he
      · exact Nat.le_refl _
      · exact hs.2 e he

/-- State invariant of a firewall instance at clock value `now`. -/
def Inv (now : Nat) (st : St) : Prop := Sorted now st.pos ∧ Sorted now st.neg

theorem inv_empty : Inv 0 St.empty := by
  simp [Inv, Sorted, St.empty]

/-- Every validation at a later clock value preserves the invariant (monotone clock). -/
theorem inv_validate (cfg : Cfg) (st : St) (now now' key : Nat) (answers : List Ans)
    (h : Inv now st) (hn : now ≤ now') : Inv now' (validate cfg st now' key answers).2.2 := by
  have hp := sorted_sweep cfg.posSpan now' h.1 hn
  have hq := sorted_sweep cfg.negSpan now' h.2 hn
  have h0 : Inv now' st :=
    ⟨⟨h.1.1, fun e he => Nat.le_trans (h.1.2 e he) hn⟩, ⟨h.2.1, fun e he => Nat.le_trans (h.2.2 e he) hn⟩⟩
  unfold validate
  by_cases ha : key ∈ cfg.allow
  · simpa [ha] using h0
  · by_cases h1 : has (sweep cfg.posSpan now' st.pos) key = true
    · simpa [ha, h1, Inv] using ⟨hp, hq⟩
    · by_cases h2 : has (sweep cfg.negSpan now' st.neg) key = true
      · simpa [ha, h1, h2, Inv] using ⟨hp, hq⟩
      · rcases hk : ask answers with ⟨v, n⟩
        cases v
        · simpa [ha, h1, h2, Inv] using ⟨sorted_add cfg.posSpan key hp, hq⟩
        · simpa [ha, h1, h2, Inv] using ⟨hp, sorted_add cfg.negSpan key hq⟩
        · simpa [ha, h1, h2, Inv] using ⟨hp, hq⟩


/-! ## Histories: every reachable state satisfies the invariant -/

/-- state and clock after a whole history -/
def after (cfg : Cfg) : St → Nat → List Step → St × Nat
  | st, now, [] => (st, now)
  | st, now, s :: rest =>
    after cfg (validate cfg st (now + s.adv) s.key s.answers).2.2 (now + s.adv) rest

theorem inv_after (cfg : Cfg) (steps : List Step) : ∀ (st : St) (now : Nat), Inv now st →
    Inv (after cfg st now steps).2 (after cfg st now steps).1 := by
  induction steps with
  | nil => intro st now h; exact h
  | cons s ss ih =>
    intro st now h
    exact ih _ _ (inv_validate cfg st now (now + s.adv) s.key s.answers h (Nat.le_add_right _ _))

/-- After **any** history of validations (any keys, answers and clock advances) on a fresh firewall,
    the next validation `adv` seconds later finds a key positively (negatively) cached **iff** an
    entry for it was stamped within the last `posSpan` (`negSpan`) seconds: answers are reused within
    their caching period and never beyond it. -/
theorem reachable_no_stale (cfg : Cfg) (steps : List Step) (adv k : Nat) :
    let st := (after cfg St.empty 0 steps).1
    let now := (after cfg St.empty 0 steps).2 + adv
    (has (sweep cfg.posSpan now st.pos) k = true ↔ ∃ e ∈ st.pos, e.key = k ∧ now ≤ e.t + cfg.posSpan) ∧
    (has (sweep cfg.negSpan now st.neg) k = true ↔ ∃ e ∈ st.neg, e.key = k ∧ now ≤ e.t + cfg.negSpan) := by
  intro st now
  have h := inv_after cfg steps St.empty 0 inv_empty
  exact ⟨no_stale_beyond_period _ _ _ h.1.1 k, no_stale_beyond_period _ _ _ h.2.1 k⟩

/-! ## Trace theorem: every admission is justified by the history -/

/-- seconds that pass during a list of steps -/
def advSum (l : List Step) : Nat := (l.map (·.adv)).sum

theorem advSum_snoc (l : List Step) (s : Step) : advSum (l ++ [s]) = advSum l + s.adv := by
  simp [advSum]

theorem after_append (cfg : Cfg) (l1 l2 : List Step) : ∀ (st : St) (now : Nat),
    after cfg st now (l1 ++ l2) = after cfg (after cfg st now l1).1 (after cfg st now l1).2 l2 := by
  induction l1 with
  | nil => intro st now; rfl
  | cons s l1 ih => intro st now; simp only [List.cons_append, after]; exact ih _ _

theorem after_snoc (cfg : Cfg) (l : List Step) (s : Step) (st : St) (now : Nat) :
    after cfg st now (l ++ [s]) =
      ((validate cfg (after cfg st now l).1 ((after cfg st now l).2 + s.adv) s.key s.answers).2.2,
        (after cfg st now l).2 + s.adv) := by
  rw [after_append]; rfl

/-- After the history `pre` the applications are really consulted for step `s`: its key is not
    allowlisted and neither cache (swept at that time) holds it. -/
def Consulted (cfg : Cfg) (pre : List Step) (s : Step) : Prop :=
  cfg.allow.contains s.key = false ∧
  has (sweep cfg.posSpan ((after cfg St.empty 0 pre).2 + s.adv) (after cfg St.empty 0 pre).1.pos) s.key = false ∧
  has (sweep cfg.negSpan ((after cfg St.empty 0 pre).2 + s.adv) (after cfg St.empty 0 pre).1.neg) s.key = false

/-- A cache entry is justified by the history `pre` (ending at clock `now`): some earlier step for
    the same key consulted the applications, got verdict `v`, and the entry carries that step's time. -/
def Justified (cfg : Cfg) (v : Verdict) (pre : List Step) (e : Entry) (now : Nat) : Prop :=
  ∃ pre1 s' pre2, pre = pre1 ++ s' :: pre2 ∧ s'.key = e.key ∧ (ask s'.answers).1 = v ∧
    Consulted cfg pre1 s' ∧ e.t + advSum pre2 = now

private theorem mem_add (span now : Nat) (c : Cache) (k : Nat) (e : Entry) (h : e ∈ add span now c k) :
    e ∈ c ∨ (e = ⟨k, now⟩ ∧ has c k = false) := by
  unfold add at h
  split at h
  · exact Or.inl h
  · rename_i hk
    rcases List.mem_cons.1 h with rfl | h
    · exact Or.inr ⟨rfl, by simpa using hk⟩
    · exact Or.inl ((sweep_sublist span now c).subset h)

/-- where the entries of the caches after one validation come from -/
private theorem validate_mem (cfg : Cfg) (st : St) (now key : Nat) (answers : List Ans) :
    (∀ e ∈ (validate cfg st now key answers).2.2.pos, e ∈ st.pos ∨
      (e = ⟨key, now⟩ ∧ cfg.allow.contains key = false ∧ has (sweep cfg.posSpan now st.pos) key = false ∧
        has (sweep cfg.negSpan now st.neg) key = false ∧ (ask answers).1 = .accept)) ∧
    (∀ e ∈ (validate cfg st now key answers).2.2.neg, e ∈ st.neg ∨
      (e = ⟨key, now⟩ ∧ cfg.allow.contains key = false ∧ has (sweep cfg.posSpan now st.pos) key = false ∧
        has (sweep cfg.negSpan now st.neg) key = false ∧ (ask answers).1 = .reject)) := by
  have sp := fun e (h : e ∈ sweep cfg.posSpan now st.pos) => (sweep_sublist cfg.posSpan now st.pos).subset h
  have sn := fun e (h : e ∈ sweep cfg.negSpan now st.neg) => (sweep_sublist cfg.negSpan now st.neg).subset h
  unfold validate
  by_cases ha : key ∈ cfg.allow
  · simp [ha]
  · have ha' : cfg.allow.contains key = false := by simpa using ha
    by_cases hp : has (sweep cfg.posSpan now st.pos) key = true
    · simp only [List.contains_eq_mem, ha, decide_false, Bool.false_eq_true, if_false, hp, if_true]
      exact ⟨fun e h => Or.inl (sp e h), fun e h => Or.inl (sn e h)⟩
    · by_cases hn : has (sweep cfg.negSpan now st.neg) key = true
      · simp only [List.contains_eq_mem, ha, decide_false, Bool.false_eq_true, if_false, hp, hn, if_true]
        exact ⟨fun e h => Or.inl (sp e h), fun e h => Or.inl (sn e h)⟩
      · have hp' : has (sweep cfg.posSpan now st.pos) key = false := by simpa using hp
        have hn' : has (sweep cfg.negSpan now st.neg) key = false := by simpa using hn
        simp only [List.contains_eq_mem, ha, decide_false, Bool.false_eq_true, if_false, hp, hn]
        rcases hk : ask answers with ⟨v, n⟩
        cases v
        · refine ⟨fun e h => ?_, fun e h => Or.inl (sn e h)⟩
          rcases mem_add _ _ _ _ _ h with h | ⟨h, _⟩
          · exact Or.inl (sp e h)
          · exact Or.inr ⟨h, by simp⟩
        · refine ⟨fun e h => Or.inl (sp e h), fun e h => ?_⟩
          rcases mem_add _ _ _ _ _ h with h | ⟨h, _⟩
          · exact Or.inl (sn e h)
          · exact Or.inr ⟨h, by simp⟩
        · exact ⟨fun e h => Or.inl (sp e h), fun e h => Or.inl (sn e h)⟩

private theorem justified_snoc (cfg : Cfg) (v : Verdict) (pre : List Step) (s : Step) (e : Entry) (now : Nat)
    (h : Justified cfg v pre e now) : Justified cfg v (pre ++ [s]) e (now + s.adv) := by
  obtain ⟨pre1, s', pre2, h1, h2, h3, h4, h5⟩ := h
  refine ⟨pre1, s', pre2 ++ [s], by rw [h1]; simp, h2, h3, h4, ?_⟩
  rw [advSum_snoc]; omega

/-- Invariant of every history from a fresh firewall: each positive entry comes from a consultation
    that answered "recognized", each negative entry from one where every application answered
    "not recognized" (never from an error), stamped with that step's time. -/
theorem entries_justified (cfg : Cfg) (pre : List Step) :
    (∀ e ∈ (after cfg St.empty 0 pre).1.pos, Justified cfg .accept pre e (after cfg St.empty 0 pre).2) ∧
    (∀ e ∈ (after cfg St.empty 0 pre).1.neg, Justified cfg .reject pre e (after cfg St.empty 0 pre).2) := by
  suffices h : ∀ r : List Step,
      (∀ e ∈ (after cfg St.empty 0 r.reverse).1.pos,
        Justified cfg .accept r.reverse e (after cfg St.empty 0 r.reverse).2) ∧
      (∀ e ∈ (after cfg St.empty 0 r.reverse).1.neg,
        Justified cfg .reject r.reverse e (after cfg St.empty 0 r.reverse).2) by
    simpa using h pre.reverse
  intro r
  induction r with
  | nil => simp [after, St.empty]
  | cons s r ih =>
    rw [List.reverse_cons, after_snoc]
    obtain ⟨vp, vn⟩ := validate_mem cfg (after cfg St.empty 0 r.reverse).1
      ((after cfg St.empty 0 r.reverse).2 + s.adv) s.key s.answers
    refine ⟨fun e he => ?_, fun e he => ?_⟩
    · rcases vp e he with h | ⟨h1, h2, h3, h4, h5⟩
      · exact justified_snoc cfg _ _ s e _ (ih.1 e h)
      · exact ⟨r.reverse, s, [], rfl, by rw [h1], h5, ⟨h2, h3, h4⟩, by rw [h1]; simp [advSum]⟩
    · rcases vn e he with h | ⟨h1, h2, h3, h4, h5⟩
      · exact justified_snoc cfg _ _ s e _ (ih.2 e h)
      · exact ⟨r.reverse, s, [], rfl, by rw [h1], h5, ⟨h2, h3, h4⟩, by rw [h1]; simp [advSum]⟩

/-- **Trace theorem.**  For every history `pre` on a fresh firewall and every next step `s`: if `s`
    is admitted then its key is allowlisted, or some step `s'` at or before `s` for the same key
    consulted the applications, the first answer that was not "not recognized" was a clean
    "recognized", and at most `posSpan` seconds passed from `s'` to `s`. -/
theorem admit_traces_back (cfg : Cfg) (pre : List Step) (s : Step)
    (h : (validate cfg (after cfg St.empty 0 pre).1 ((after cfg St.empty 0 pre).2 + s.adv)
            s.key s.answers).1 = .accept) :
    cfg.allow.contains s.key = true ∨
    ∃ pre1 s' pre2, pre ++ [s] = pre1 ++ s' :: pre2 ∧ s'.key = s.key ∧
      (ask s'.answers).1 = .accept ∧ Consulted cfg pre1 s' ∧ advSum pre2 ≤ cfg.posSpan := by
  have hinv := inv_after cfg pre St.empty 0 inv_empty
  by_cases ha : cfg.allow.contains s.key = true
  · exact Or.inl ha
  · right
    have ha' : cfg.allow.contains s.key = false := by simpa using ha
    by_cases hp : has (sweep cfg.posSpan ((after cfg St.empty 0 pre).2 + s.adv)
        (after cfg St.empty 0 pre).1.pos) s.key = true
    · obtain ⟨e, he, hk, ht⟩ := (no_stale_beyond_period _ _ _ hinv.1.1 s.key).1 hp
      obtain ⟨pre1, s', pre2, h1, h2, h3, h4, h5⟩ := (entries_justified cfg pre).1 e he
      refine ⟨pre1, s', pre2 ++ [s], by rw [h1]; simp, by rw [h2, hk], h3, h4, ?_⟩
      rw [advSum_snoc]; omega
    · have hp' : has (sweep cfg.posSpan ((after cfg St.empty 0 pre).2 + s.adv)
          (after cfg St.empty 0 pre).1.pos) s.key = false := by simpa using hp
      rcases (validate_spec cfg _ _ s.key s.answers).1 h with h1 | h1 | ⟨h1, h2⟩
      · exact absurd h1 ha
      · exact absurd h1 hp
      · exact ⟨pre, s, [], rfl, rfl, by simpa [firstDecisiveYes] using h2, ⟨ha', hp', h1⟩,
          by simp [advSum]⟩

/-- Companion: a rejection traces back to a consultation, at most `negSpan` seconds earlier, in
    which **every** application answered a clean "not recognized" — never to an error. -/
theorem reject_traces_back (cfg : Cfg) (pre : List Step) (s : Step)
    (h : (validate cfg (after cfg St.empty 0 pre).1 ((after cfg St.empty 0 pre).2 + s.adv)
            s.key s.answers).1 = .reject) :
    ∃ pre1 s' pre2, pre ++ [s] = pre1 ++ s' :: pre2 ∧ s'.key = s.key ∧
      (ask s'.answers).1 = .reject ∧ Consulted cfg pre1 s' ∧ advSum pre2 ≤ cfg.negSpan := by
  have hinv := inv_after cfg pre St.empty 0 inv_empty
  have hna : ¬ (validate cfg (after cfg St.empty 0 pre).1 ((after cfg St.empty 0 pre).2 + s.adv)
      s.key s.answers).1 = .accept := by rw [h]; decide
  have hspec := validate_spec cfg (after cfg St.empty 0 pre).1 ((after cfg St.empty 0 pre).2 + s.adv)
    s.key s.answers
  have ha' : cfg.allow.contains s.key = false := by
    cases hc : cfg.allow.contains s.key with
    | false => rfl
    | true => exact absurd (hspec.2 (Or.inl hc)) hna
  have hp' : has (sweep cfg.posSpan ((after cfg St.empty 0 pre).2 + s.adv)
      (after cfg St.empty 0 pre).1.pos) s.key = false := by
    cases hc : has (sweep cfg.posSpan ((after cfg St.empty 0 pre).2 + s.adv)
      (after cfg St.empty 0 pre).1.pos) s.key with
    | false => rfl
    | true => exact absurd (hspec.2 (Or.inr (Or.inl hc))) hna
  by_cases hn : has (sweep cfg.negSpan ((after cfg St.empty 0 pre).2 + s.adv)
      (after cfg St.empty 0 pre).1.neg) s.key = true
  · obtain ⟨e, he, hk, ht⟩ := (no_stale_beyond_period _ _ _ hinv.2.1 s.key).1 hn
    obtain ⟨pre1, s', pre2, h1, h2, h3, h4, h5⟩ := (entries_justified cfg pre).2 e he
    refine ⟨pre1, s', pre2 ++ [s], by rw [h1]; simp, by rw [h2, hk], h3, h4, ?_⟩
    rw [advSum_snoc]; omega
  · have hn' : has (sweep cfg.negSpan ((after cfg St.empty 0 pre).2 + s.adv)
        (after cfg St.empty 0 pre).1.neg) s.key = false := by simpa using hn
    have := (cache_follows_latest cfg _ _ s.key s.answers ha' hp' hn').1
    exact ⟨pre, s, [], rfl, rfl, by rw [← this, h], ⟨ha', hp', hn'⟩, by simp [advSum]⟩

/-! ## The trace theorems for the real constructor's periods -/

/-- The periods of the real constructor (generated from `firewall.go`): `0 < negative < positive`.
    Proved by unfolding the generated constants and linear arithmetic (no `decide`). -/
theorem realCfg_spans (allow : List Nat) :
    0 < (realCfg allow).negSpan ∧ (realCfg allow).negSpan < (realCfg allow).posSpan := by
  unfold realCfg Gen.C21.positivePeriodSeconds Gen.C21.negativePeriodSeconds
  constructor <;> simp only <;> omega

/-- `admit_traces_back` / `reject_traces_back` for a firewall built by `AnyApplicationPolicy`: an
    admission is backed by the allowlist or by a clean "recognized" answer at most
    `positivePeriodSeconds` old; a rejection by a clean all-"not recognized" consultation at most
    `negativePeriodSeconds` old — which, by `realCfg_spans`, is strictly less than the time an
    admission may be reused. -/
theorem real_trace_bounds (allow : List Nat) (pre : List Step) (s : Step) :
    ((validate (realCfg allow) (after (realCfg allow) St.empty 0 pre).1
        ((after (realCfg allow) St.empty 0 pre).2 + s.adv) s.key s.answers).1 = .accept →
      allow.contains s.key = true ∨
      ∃ pre1 s' pre2, pre ++ [s] = pre1 ++ s' :: pre2 ∧ s'.key = s.key ∧
        (ask s'.answers).1 = .accept ∧ Consulted (realCfg allow) pre1 s' ∧
        advSum pre2 ≤ Gen.C21.positivePeriodSeconds) ∧
    ((validate (realCfg allow) (after (realCfg allow) St.empty 0 pre).1
        ((after (realCfg allow) St.empty 0 pre).2 + s.adv) s.key s.answers).1 = .reject →
      ∃ pre1 s' pre2, pre ++ [s] = pre1 ++ s' :: pre2 ∧ s'.key = s.key ∧
        (ask s'.answers).1 = .reject ∧ Consulted (realCfg allow) pre1 s' ∧
        advSum pre2 ≤ Gen.C21.negativePeriodSeconds ∧ advSum pre2 < Gen.C21.positivePeriodSeconds) := by
  constructor
  · intro h
    exact admit_traces_back (realCfg allow) pre s h
  · intro h
    obtain ⟨pre1, s', pre2, a, b, c, d, e⟩ := reject_traces_back (realCfg allow) pre s h
    have hs := (realCfg_spans allow).2
    exact ⟨pre1, s', pre2, a, b, c, d, e, Nat.lt_of_le_of_lt e hs⟩

/-! ## The monitor accepts every model history -/

private theorem report_any (now : Nat) (c : Cache) (k : Nat) :
    (report now c).any (fun e => e.1 == k) = has c k := by
  simp [report, has, List.any_map, Function.comp_def]

private theorem live_eq (span now adv : Nat) (c : Cache) (hs : Sorted now c) (k : Nat) :
    live span adv (report now c) k = has (sweep span (now + adv) c) k := by
  rw [Bool.eq_iff_iff, no_stale_beyond_period _ _ _ hs.1]
  unfold live report
  rw [List.any_eq_true]
  constructor
  · rintro ⟨x, hx, h⟩
    rw [List.mem_map] at hx
    obtain ⟨e, he, rfl⟩ := hx
    simp only [Bool.and_eq_true, beq_iff_eq, decide_eq_true_eq] at h
    have := hs.2 e he
    exact ⟨e, he, h.1, by omega⟩
  · rintro ⟨e, he, hk, ht⟩
    refine ⟨(e.key, now - e.t), List.mem_map.2 ⟨e, he, rfl⟩, ?_⟩
    have := hs.2 e he
    simp only [Bool.and_eq_true, beq_iff_eq, decide_eq_true_eq]
    exact ⟨hk, by omega⟩

private theorem stepHolds_model (cfg : Cfg) (st : St) (now : Nat) (s : Step) (h : Inv now st) :
    stepHolds cfg (report now st.pos) (report now st.neg) s
      ⟨(validate cfg st (now + s.adv) s.key s.answers).1,
       (validate cfg st (now + s.adv) s.key s.answers).2.1,
       report (now + s.adv) (validate cfg st (now + s.adv) s.key s.answers).2.2.pos,
       report (now + s.adv) (validate cfg st (now + s.adv) s.key s.answers).2.2.neg⟩ = true := by
  unfold stepHolds
  simp only [live_eq _ _ _ _ h.1, live_eq _ _ _ _ h.2, report_any]
  unfold validate firstDecisiveYes
  by_cases ha : s.key ∈ cfg.allow
  · simp [ha]
  · by_cases hp : has (sweep cfg.posSpan (now + s.adv) st.pos) s.key = true
    · simp [ha, hp]
    · by_cases hn : has (sweep cfg.negSpan (now + s.adv) st.neg) s.key = true
      · simp [ha, hp, hn]
      · rcases hk : ask s.answers with ⟨v, n⟩
        cases v <;> simp [ha, hp, hn]

private theorem holdsFrom_model (cfg : Cfg) (steps : List Step) : ∀ (st : St) (now : Nat), Inv now st →
    holdsFrom cfg (report now st.pos) (report now st.neg) steps (implOf cfg st now steps) = true := by
  induction steps with
  | nil => intro st now _; simp [holdsFrom, implOf]
  | cons s ss ih =>
    intro st now h
    simp only [implOf, holdsFrom, Bool.and_eq_true]
    exact ⟨stepHolds_model cfg st now s h,
      ih _ _ (inv_validate cfg st now (now + s.adv) s.key s.answers h (Nat.le_add_right _ _))⟩

/-- The monitor accepts the observation of every model history (any configuration, any steps):
    correspondence of the implementation with the model + the theorems above ⇒ the property. -/
theorem holds_model (cfg : Cfg) (steps : List Step) :
    holds cfg steps (implOf cfg St.empty 0 steps) = true := by
  have := holdsFrom_model cfg steps St.empty 0 inv_empty
  simpa [holds, report, St.empty] using this


/-! ## T1 tie to the constants extracted from the source -/

/-- The caching periods of `firewall.go`: a rejection is remembered for a shorter time than an
    admission, both positive. -/
theorem periods_fact :
    0 < Gen.C21.negativePeriodSeconds ∧ Gen.C21.negativePeriodSeconds ≤ Gen.C21.positivePeriodSeconds := by
  decide

/-- The harness moves the clock on a grid of `gridSeconds`; neither period comes within 60 s of a
    grid point, so the (sub-minute) real time that passes while a case runs never decides an
    expiry comparison: the differential test has no wall-clock flakiness. -/
theorem grid_margin :
    60 ≤ Gen.C21.positivePeriodSeconds % Gen.C21.gridSeconds ∧
    Gen.C21.positivePeriodSeconds % Gen.C21.gridSeconds + 60 ≤ Gen.C21.gridSeconds ∧
    60 ≤ Gen.C21.negativePeriodSeconds % Gen.C21.gridSeconds ∧
    Gen.C21.negativePeriodSeconds % Gen.C21.gridSeconds + 60 ≤ Gen.C21.gridSeconds := by
  decide

/-! Non-vacuity / sanity on concrete histories (periods 12 h / 1 h). -/
example : (implOf ⟨[], 43200, 3600⟩ St.empty 0 [⟨0, 1, [.no, .yes]⟩, ⟨420, 1, [.err]⟩]).map (·.verdict)
    = [.accept, .accept] := by decide
example : (implOf ⟨[], 43200, 3600⟩ St.empty 0 [⟨0, 1, [.err, .yes]⟩, ⟨0, 1, [.no]⟩, ⟨3360, 1, [.yes]⟩,
    ⟨420, 1, [.yes]⟩]).map (fun o => (o.verdict, o.calls))
    = [(.error, 1), (.reject, 1), (.reject, 0), (.accept, 1)] := by decide
/-- the monitor rejects an error that was cached as a rejection -/
example : holds ⟨[], 43200, 3600⟩ [⟨0, 1, [.err]⟩, ⟨0, 1, [.yes]⟩]
    [⟨.error, 1, [], [(1, 0)]⟩, ⟨.reject, 0, [], [(1, 0)]⟩] = false := by decide
example : holds ⟨[], 43200, 3600⟩ [⟨0, 1, [.err]⟩, ⟨0, 1, [.yes]⟩]
    [⟨.error, 1, [], []⟩, ⟨.accept, 1, [(1, 0)], []⟩] = true := by decide

end KeepVerif.C21
