import KeepVerif.Model.C21
/-!
# C21 — Firewall admits exactly allowlisted or recognized operators

Theorems over `Model/C21.lean` for every configuration (allowlist, periods), every cache state,
every clock value and every list of application answers; the history theorems are for every
sequence of validations with arbitrary advances of the clock.
-/
namespace KeepVerif.C21

/-! ## One validation, arbitrary state -/

/-- C21 main statement: `Validate` admits **iff** the key is allowlisted, or it is in the positive
    cache (after the sweep at `now`), or it is not in the negative cache and the first application
    answer that is not "not recognized" is "recognized" (an error earlier in the list aborts). -/
theorem validate_spec (cfg : Cfg) (st : St) (now key : Nat) (answers : List Ans) :
    (validate cfg st now key answers).1 = .accept ↔
      (cfg.allow.contains key = true ∨ has (sweep cfg.posSpan now st.pos) key = true ∨
        (has (sweep cfg.negSpan now st.neg) key = false ∧ firstDecisiveYes answers = true)) := by
  unfold validate firstDecisiveYes
  by_cases ha : key ∈ cfg.allow
  · simp [ha]
  · by_cases hp : has (sweep cfg.posSpan now st.pos) key = true
    · simp [ha, hp]
    · by_cases hn : has (sweep cfg.negSpan now st.neg) key = true
      · simp [ha, hp, hn]
      · rcases h : ask answers with ⟨v, n⟩
        cases v <;> simp [ha, hp, hn]

/-- When neither the allowlist nor a cache decides, the verdict and the number of calls are a
    function of the *current* answers only (`cache_follows_latest`). -/
theorem cache_follows_latest (cfg : Cfg) (st : St) (now key : Nat) (answers : List Ans)
    (ha : cfg.allow.contains key = false)
    (hp : has (sweep cfg.posSpan now st.pos) key = false)
    (hn : has (sweep cfg.negSpan now st.neg) key = false) :
    (validate cfg st now key answers).1 = (ask answers).1 ∧
    (validate cfg st now key answers).2.1 = (ask answers).2 := by
  have ha' : key ∉ cfg.allow := by simpa using ha
  unfold validate
  rcases h : ask answers with ⟨v, n⟩
  cases v <;> simp [ha', hp, hn]

/-- The error verdict is returned exactly when nothing cached applies and the first answer that
    is not "not recognized" is an error. -/
theorem error_iff (cfg : Cfg) (st : St) (now key : Nat) (answers : List Ans) :
    (validate cfg st now key answers).1 = .error ↔
      (cfg.allow.contains key = false ∧ has (sweep cfg.posSpan now st.pos) key = false ∧
        has (sweep cfg.negSpan now st.neg) key = false ∧ (ask answers).1 = .error) := by
  unfold validate
  by_cases ha : key ∈ cfg.allow
  · simp [ha]
  · by_cases hp : has (sweep cfg.posSpan now st.pos) key = true
    · simp [ha, hp]
    · by_cases hn : has (sweep cfg.negSpan now st.neg) key = true
      · simp [ha, hp, hn]
      · rcases h : ask answers with ⟨v, n⟩
        cases v <;> simp [ha, hp, hn]

/-- A failed recognition check never admits the peer: when the applications are consulted and
    one fails before any recognizes the key, the verdict is the error, not an admission. -/
theorem error_never_admits (cfg : Cfg) (st : St) (now key : Nat) (answers : List Ans)
    (ha : cfg.allow.contains key = false)
    (hp : has (sweep cfg.posSpan now st.pos) key = false)
    (hn : has (sweep cfg.negSpan now st.neg) key = false)
    (he : (ask answers).1 = .error) :
    (validate cfg st now key answers).1 = .error :=
  (error_iff cfg st now key answers).2 ⟨ha, hp, hn, he⟩

/-- …and is not remembered: after an error both caches are just the swept old caches and
    hold no entry for the key, so the next validation consults the applications again. -/
theorem error_not_cached (cfg : Cfg) (st : St) (now key : Nat) (answers : List Ans)
    (he : (validate cfg st now key answers).1 = .error) :
    (validate cfg st now key answers).2.2 = ⟨sweep cfg.posSpan now st.pos, sweep cfg.negSpan now st.neg⟩ ∧
    has (validate cfg st now key answers).2.2.pos key = false ∧
    has (validate cfg st now key answers).2.2.neg key = false := by
  obtain ⟨ha, hp, hn, hk⟩ := (error_iff cfg st now key answers).1 he
  have ha' : key ∉ cfg.allow := by simpa using ha
  unfold validate
  rcases h : ask answers with ⟨v, n⟩
  rw [h] at hk
  simp only at hk
  subst hk
  simp [ha', hp, hn]

/-- A verdict served from the allowlist or a cache calls no application. -/
theorem cached_calls_nobody (cfg : Cfg) (st : St) (now key : Nat) (answers : List Ans)
    (h : cfg.allow.contains key = true ∨ has (sweep cfg.posSpan now st.pos) key = true ∨
      has (sweep cfg.negSpan now st.neg) key = true) :
    (validate cfg st now key answers).2.1 = 0 := by
  unfold validate
  by_cases ha : key ∈ cfg.allow
  · simp [ha]
  · by_cases hp : has (sweep cfg.posSpan now st.pos) key = true
    · simp [ha, hp]
    · by_cases hn : has (sweep cfg.negSpan now st.neg) key = true
      · simp [ha, hp, hn]
      · simp [ha, hp, hn] at h

/-! ## The time cache: nothing stale is ever consulted

`TimeCache.sweep` only pops from the back of the indexer.  Entries are pushed to the front with the
current time, so timestamps are non-increasing from the front (`Sorted`) as long as the clock is
monotone; under that invariant the sweep removes *exactly* the expired entries. -/

/-- timestamps non-increasing from the front, none in the future -/
def Sorted (now : Nat) (c : Cache) : Prop :=
  c.Pairwise (fun a b => b.t ≤ a.t) ∧ ∀ e ∈ c, e.t ≤ now

private theorem mem_dropWhile_asc (span now : Nat) (l : List Entry)
    (hl : l.Pairwise (fun a b => a.t ≤ b.t)) (x : Entry) :
    x ∈ l.dropWhile (expired span now) ↔ x ∈ l ∧ expired span now x = false := by
  induction l with
  | nil => simp
  | cons a l ih =>
    rw [List.pairwise_cons] at hl
    by_cases hp : expired span now a = true
    · rw [List.dropWhile_cons_of_pos hp, ih hl.2]
      constructor
      · rintro ⟨h1, h2⟩; exact ⟨List.mem_cons_of_mem _ h1, h2⟩
      · rintro ⟨h1, h2⟩
        rcases List.mem_cons.1 h1 with rfl | h1
        · rw [hp] at h2; cases h2
        · exact ⟨h1, h2⟩
    · rw [List.dropWhile_cons_of_neg hp]
      constructor
      · intro h
        refine ⟨h, ?_⟩
        rcases List.mem_cons.1 h with rfl | h1
        · simpa using hp
        · have := hl.1 x h1
          simp only [expired, decide_eq_true_eq, Nat.not_lt] at hp
          simp only [expired, decide_eq_false_iff_not, Nat.not_lt]
          omega
      · rintro ⟨h1, _⟩; exact h1

/-- Under the invariant the sweep keeps exactly the entries that are not older than the period. -/
theorem mem_sweep_iff (span now : Nat) (c : Cache) (hs : c.Pairwise (fun a b => b.t ≤ a.t))
    (x : Entry) : x ∈ sweep span now c ↔ x ∈ c ∧ now ≤ x.t + span := by
  unfold sweep
  rw [List.mem_reverse, mem_dropWhile_asc span now c.reverse (by
    rw [List.pairwise_reverse]; exact hs)]
  simp [expired, Nat.not_lt]

/-- `no_stale_beyond_period`: a key found in a cache right after the sweep at `now` has an entry
    stamped within the last `span` seconds — a verdict is never served from an entry older than
    the caching period, and every younger entry is still served. -/
theorem no_stale_beyond_period (span now : Nat) (c : Cache) (hs : c.Pairwise (fun a b => b.t ≤ a.t))
    (k : Nat) : has (sweep span now c) k = true ↔ ∃ e ∈ c, e.key = k ∧ now ≤ e.t + span := by
  unfold has
  rw [List.any_eq_true]
  constructor
  · rintro ⟨e, he, hk⟩
    obtain ⟨h1, h2⟩ := (mem_sweep_iff span now c hs e).1 he
    exact ⟨e, h1, by simpa using hk, h2⟩
  · rintro ⟨e, h1, hk, h2⟩
    exact ⟨e, (mem_sweep_iff span now c hs e).2 ⟨h1, h2⟩, by simpa using hk⟩

private theorem sweep_sublist (span now : Nat) (c : Cache) : (sweep span now c).Sublist c := by
  unfold sweep
  have h := (List.dropWhile_sublist (expired span now) (l := c.reverse)).reverse
  simpa using h

private theorem sorted_sweep {now : Nat} {c : Cache} (span now' : Nat) (h : Sorted now c) (hn : now ≤ now') :
    Sorted now' (sweep span now' c) :=
  ⟨h.1.sublist (sweep_sublist span now' c),
   fun e he => Nat.le_trans (h.2 e ((sweep_sublist span now' c).subset he)) hn⟩

private theorem sorted_add {now : Nat} {c : Cache} (span : Nat) (k : Nat) (h : Sorted now c) :
    Sorted now (add span now c k) := by
  unfold add
  split
  · exact h
  · have hs := sorted_sweep span now h (Nat.le_refl now)
    refine ⟨?_, ?_⟩
    · rw [List.pairwise_cons]
      exact ⟨fun b hb => hs.2 b hb, hs.1⟩
    · intro e he
      rcases List.mem_cons.1 he with rfl | he
      · exact Nat.le_refl _
      · exact hs.2 e he

/-- State invariant of a firewall instance at clock value `now`. -/
def Inv (now : Nat) (st : St) : Prop := Sorted now st.pos ∧ Sorted now st.neg

theorem inv_empty : Inv 0 St.empty := by
  simp [Inv, Sorted, St.empty]

/-- Every validation at a later clock value preserves the invariant (monotone clock). -/
theorem inv_validate (cfg : Cfg) (st : St) (now now' key : Nat) (answers : List Ans)
    (h : Inv now st) (hn : now ≤ now') : Inv now' (validate cfg st now' key answers).2.2 := by
  have hp := sorted_sweep cfg.posSpan now' h.1 hn
  have hq := sorted_sweep cfg.negSpan now' h.2 hn
  have h0 : Inv now' st :=
    ⟨⟨h.1.1, fun e he => Nat.le_trans (h.1.2 e he) hn⟩, ⟨h.2.1, fun e he => Nat.le_trans (h.2.2 e he) hn⟩⟩
  unfold validate
  by_cases ha : key ∈ cfg.allow
  · simpa [ha] using h0
  · by_cases h1 : has (sweep cfg.posSpan now' st.pos) key = true
    · simpa [ha, h1, Inv] using ⟨hp, hq⟩
    · by_cases h2 : has (sweep cfg.negSpan now' st.neg) key = true
      · simpa [ha, h1, h2, Inv] using ⟨hp, hq⟩
      · rcases hk : ask answers with ⟨v, n⟩
        cases v
        · simpa [ha, h1, h2, Inv] using ⟨sorted_add cfg.posSpan key hp, hq⟩
        · simpa [ha, h1, h2, Inv] using ⟨hp, sorted_add cfg.negSpan key hq⟩
        · simpa [ha, h1, h2, Inv] using ⟨hp, hq⟩


/-! ## Histories: every reachable state satisfies the invariant -/

/-- state and clock after a whole history -/
def after (cfg : Cfg) : St → Nat → List Step → St × Nat
  | st, now, [] => (st, now)
  | st, now, s :: rest =>
    after cfg (validate cfg st (now + s.adv) s.key s.answers).2.2 (now + s.adv) rest

theorem inv_after (cfg : Cfg) (steps : List Step) : ∀ (st : St) (now : Nat), Inv now st →
    Inv (after cfg st now steps).2 (after cfg st now steps).1 := by
  induction steps with
  | nil => intro st now h; exact h
  | cons s ss ih =>
    intro st now h
    exact ih _ _ (inv_validate cfg st now (now + s.adv) s.key s.answers h (Nat.le_add_right _ _))

/-- After **any** history of validations (any keys, answers and clock advances) on a fresh firewall,
    the next validation `adv` seconds later finds a key positively (negatively) cached **iff** an
    entry for it was stamped within the last `posSpan` (`negSpan`) seconds: answers are reused within
    their caching period and never beyond it. -/
theorem reachable_no_stale (cfg : Cfg) (steps : List Step) (adv k : Nat) :
    let st := (after cfg St.empty 0 steps).1
    let now := (after cfg St.empty 0 steps).2 + adv
    (has (sweep cfg.posSpan now st.pos) k = true ↔ ∃ e ∈ st.pos, e.key = k ∧ now ≤ e.t + cfg.posSpan) ∧
    (has (sweep cfg.negSpan now st.neg) k = true ↔ ∃ e ∈ st.neg, e.key = k ∧ now ≤ e.t + cfg.negSpan) := by
  intro st now
  have h := inv_after cfg steps St.empty 0 inv_empty
  exact ⟨no_stale_beyond_period _ _ _ h.1.1 k, no_stale_beyond_period _ _ _ h.2.1 k⟩

/-! ## The monitor accepts every model history -/

private theorem report_any (now : Nat) (c : Cache) (k : Nat) :
    (report now c).any (fun e => e.1 == k) = has c k := by
  simp [report, has, List.any_map, Function.comp_def]

private theorem live_eq (span now adv : Nat) (c : Cache) (hs : Sorted now c) (k : Nat) :
    live span adv (report now c) k = has (sweep span (now + adv) c) k := by
  rw [Bool.eq_iff_iff, no_stale_beyond_period _ _ _ hs.1]
  unfold live report
  rw [List.any_eq_true]
  constructor
  · rintro ⟨x, hx, h⟩
    rw [List.mem_map] at hx
    obtain ⟨e, he, rfl⟩ := hx
    simp only [Bool.and_eq_true, beq_iff_eq, decide_eq_true_eq] at h
    have := hs.2 e he
    exact ⟨e, he, h.1, by omega⟩
  · rintro ⟨e, he, hk, ht⟩
    refine ⟨(e.key, now - e.t), List.mem_map.2 ⟨e, he, rfl⟩, ?_⟩
    have := hs.2 e he
    simp only [Bool.and_eq_true, beq_iff_eq, decide_eq_true_eq]
    exact ⟨hk, by omega⟩

private theorem stepHolds_model (cfg : Cfg) (st : St) (now : Nat) (s : Step) (h : Inv now st) :
    stepHolds cfg (report now st.pos) (report now st.neg) s
      ⟨(validate cfg st (now + s.adv) s.key s.answers).1,
       (validate cfg st (now + s.adv) s.key s.answers).2.1,
       report (now + s.adv) (validate cfg st (now + s.adv) s.key s.answers).2.2.pos,
       report (now + s.adv) (validate cfg st (now + s.adv) s.key s.answers).2.2.neg⟩ = true := by
  unfold stepHolds
  simp only [live_eq _ _ _ _ h.1, live_eq _ _ _ _ h.2, report_any]
  unfold validate firstDecisiveYes
  by_cases ha : s.key ∈ cfg.allow
  · simp [ha]
  · by_cases hp : has (sweep cfg.posSpan (now + s.adv) st.pos) s.key = true
    · simp [ha, hp]
    · by_cases hn : has (sweep cfg.negSpan (now + s.adv) st.neg) s.key = true
      · simp [ha, hp, hn]
      · rcases hk : ask s.answers with ⟨v, n⟩
        cases v <;> simp [ha, hp, hn]

private theorem holdsFrom_model (cfg : Cfg) (steps : List Step) : ∀ (st : St) (now : Nat), Inv now st →
    holdsFrom cfg (report now st.pos) (report now st.neg) steps (implOf cfg st now steps) = true := by
  induction steps with
  | nil => intro st now _; simp [holdsFrom, implOf]
  | cons s ss ih =>
    intro st now h
    simp only [implOf, holdsFrom, Bool.and_eq_true]
    exact ⟨stepHolds_model cfg st now s h,
      ih _ _ (inv_validate cfg st now (now + s.adv) s.key s.answers h (Nat.le_add_right _ _))⟩

/-- The monitor accepts the observation of every model history (any configuration, any steps):
    correspondence of the implementation with the model + the theorems above ⇒ the property. -/
theorem holds_model (cfg : Cfg) (steps : List Step) :
    holds cfg steps (implOf cfg St.empty 0 steps) = true := by
  have := holdsFrom_model cfg steps St.empty 0 inv_empty
  simpa [holds, report, St.empty] using this


/-! ## T1 tie to the constants extracted from the source -/

/-- The caching periods of `firewall.go`: a rejection is remembered for a shorter time than an
    admission, both positive. -/
theorem periods_fact :
    0 < Gen.C21.negativePeriodSeconds ∧ Gen.C21.negativePeriodSeconds ≤ Gen.C21.positivePeriodSeconds := by
  decide

/-- The harness moves the clock on a grid of `gridSeconds`; neither period comes within 60 s of a
    grid point, so the (sub-minute) real time that passes while a case runs never decides an
    expiry comparison: the differential test has no wall-clock flakiness. -/
theorem grid_margin :
    60 ≤ Gen.C21.positivePeriodSeconds % Gen.C21.gridSeconds ∧
    Gen.C21.positivePeriodSeconds % Gen.C21.gridSeconds + 60 ≤ Gen.C21.gridSeconds ∧
    60 ≤ Gen.C21.negativePeriodSeconds % Gen.C21.gridSeconds ∧
    Gen.C21.negativePeriodSeconds % Gen.C21.gridSeconds + 60 ≤ Gen.C21.gridSeconds := by
  decide

/-! Non-vacuity / sanity on concrete histories (periods 12 h / 1 h). -/
example : (implOf ⟨[], 43200, 3600⟩ St.empty 0 [⟨0, 1, [.no, .yes]⟩, ⟨420, 1, [.err]⟩]).map (·.verdict)
    = [.accept, .accept] := by decide
example : (implOf ⟨[], 43200, 3600⟩ St.empty 0 [⟨0, 1, [.err, .yes]⟩, ⟨0, 1, [.no]⟩, ⟨3360, 1, [.yes]⟩,
    ⟨420, 1, [.yes]⟩]).map (fun o => (o.verdict, o.calls))
    = [(.error, 1), (.reject, 1), (.reject, 0), (.accept, 1)] := by decide
/-- the monitor rejects an error that was cached as a rejection -/
example : holds ⟨[], 43200, 3600⟩ [⟨0, 1, [.err]⟩, ⟨0, 1, [.yes]⟩]
    [⟨.error, 1, [], [(1, 0)]⟩, ⟨.reject, 0, [], [(1, 0)]⟩] = false := by decide
example : holds ⟨[], 43200, 3600⟩ [⟨0, 1, [.err]⟩, ⟨0, 1, [.yes]⟩]
    [⟨.error, 1, [], []⟩, ⟨.accept, 1, [(1, 0)], []⟩] = true := by decide

end KeepVerif.C21
