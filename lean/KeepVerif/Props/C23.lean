import KeepVerif.Model.C23
/-!
# C23 — Each coordination window is triggered exactly once, in order

Property theorems over `Model/C23.lean`; the constant comes from `Gen/C23.lean` (regenerated).
-/
namespace KeepVerif.C23

/-- T1 tie: the frequency extracted from the source is positive (a zero would make `%` panic). -/
theorem freq_pos : 0 < freq := by decide

/-- A triggered window starts at a positive multiple of the frequency. -/
def ValidStart (b : Nat) : Prop := b % freq = 0 ∧ 0 < b

private theorem index_pos_iff (b : Nat) : index b > 0 ↔ ValidStart b := by
  unfold index ValidStart
  have hf := freq_pos
  constructor
  · intro h
    split at h
    · rename_i hm
      refine ⟨hm, ?_⟩
      rcases Nat.eq_zero_or_pos b with hb | hb
      · subst hb; simp at h
      · exact hb
    · omega
  · rintro ⟨hm, hb⟩
    rw [if_pos hm]
    have : freq ≤ b := Nat.le_of_dvd hb (Nat.dvd_of_mod_eq_zero hm)
    exact Nat.div_pos this hf

/-- Invariant form: everything triggered from state `last` is valid, a member of the stream,
    above `last`, and strictly increasing. -/
private theorem watchFrom_spec (last : Option Nat) (bs : List Nat) :
    (∀ w ∈ watchFrom last bs, ValidStart w ∧ w ∈ bs ∧ (∀ l, last = some l → l < w)) ∧
    (watchFrom last bs).Pairwise (· < ·) := by
  induction bs generalizing last with
  | nil => simp [watchFrom]
  | cons b bs ih =>
    unfold watchFrom step
    by_cases h : index b > 0 ∧ isAfter b last = true
    · rw [if_pos h]
      obtain ⟨ih1, ih2⟩ := ih (some b)
      have hv : ValidStart b := (index_pos_iff b).1 h.1
      have hl : ∀ l, last = some l → l < b := by
        intro l hl; subst hl; simpa [isAfter] using h.2
      constructor
      · intro w hw
        simp only [List.mem_cons] at hw
        rcases hw with rfl | hw
        · exact ⟨hv, by simp, hl⟩
        · obtain ⟨a, c, d⟩ := ih1 w hw
          refine ⟨a, by simp [c], ?_⟩
          intro l hl'
          exact Nat.lt_trans (hl l hl') (d b rfl)
      · simp only [List.pairwise_cons]
        exact ⟨fun w hw => (ih1 w hw).2.2 b rfl, ih2⟩
    · rw [if_neg h]
      obtain ⟨ih1, ih2⟩ := ih last
      refine ⟨?_, ih2⟩
      intro w hw
      obtain ⟨a, c, d⟩ := ih1 w hw
      exact ⟨a, by simp [c], d⟩

/-- C23 (a): coordination only starts for windows at a positive multiple of the frequency. -/
theorem triggered_valid (bs : List Nat) : ∀ w ∈ watch bs, w % freq = 0 ∧ 0 < w :=
  fun w hw => ((watchFrom_spec none bs).1 w hw).1

/-- Only observed blocks are triggered. -/
theorem triggered_mem (bs : List Nat) : ∀ w ∈ watch bs, w ∈ bs :=
  fun w hw => ((watchFrom_spec none bs).1 w hw).2.1

/-- C23 (b)+(c): the triggered windows are strictly increasing — hence at most once per window
    and never a window earlier than one already started.  For every finite stream. -/
theorem triggered_strictly_increasing (bs : List Nat) : (watch bs).Pairwise (· < ·) :=
  (watchFrom_spec none bs).2

theorem triggered_nodup (bs : List Nat) : (watch bs).Nodup :=
  (triggered_strictly_increasing bs).imp (fun h => Nat.ne_of_lt h)

/-- Cancellation = truncation: what was triggered on a prefix stays triggered (the loop never
    revokes), so the theorems above hold at every cancellation point. -/
theorem watchFrom_append (last : Option Nat) (pre post : List Nat) :
    ∃ last', watchFrom last (pre ++ post) = watchFrom last pre ++ watchFrom last' post := by
  induction pre generalizing last with
  | nil => exact ⟨last, by simp [watchFrom]⟩
  | cons b pre ih =>
    simp only [List.cons_append, watchFrom]
    cases h : step last b with
    | mk l' o =>
      obtain ⟨l'', e⟩ := ih l'
      cases o <;> exact ⟨l'', by simp [e]⟩

private theorem watchFrom_last_bound (last : Option Nat) (pre : List Nat) (b : Nat)
    (hlast : ∀ l, last = some l → l < b) (hpre : ∀ x ∈ pre, x < b) (post : List Nat)
    (hv : ValidStart b) : b ∈ watchFrom last (pre ++ b :: post) := by
  induction pre generalizing last with
  | nil =>
    have h : index b > 0 ∧ isAfter b last = true := by
      refine ⟨(index_pos_iff b).2 hv, ?_⟩
      cases last with
      | none => rfl
      | some l => simpa [isAfter] using hlast l rfl
    simp [watchFrom, step, h]
  | cons x pre ih =>
    have hx : x < b := hpre x (by simp)
    have hpre' : ∀ y ∈ pre, y < b := fun y hy => hpre y (by simp [hy])
    simp only [List.cons_append, watchFrom, step]
    by_cases h : index x > 0 ∧ isAfter x last = true
    · rw [if_pos h]
      simp only [List.mem_cons]
      exact Or.inr (ih (some x) (by intro l hl; cases hl; exact hx) hpre')
    · rw [if_neg h]
      exact ih last hlast hpre'

/-- Completeness: a valid window start that is larger than every block seen before it is
    triggered (no window is lost). -/
theorem triggered_complete (pre post : List Nat) (b : Nat)
    (hm : b % freq = 0) (hb : 0 < b) (hpre : ∀ x ∈ pre, x < b) :
    b ∈ watch (pre ++ b :: post) :=
  watchFrom_last_bound none pre b (by intro l hl; cases hl) hpre post ⟨hm, hb⟩

/-! ## Monitor: the property as a decidable predicate on what the implementation did.
`obs` is the sorted multiset of blocks for which the callback ran. -/

def isSortedStrict : List Nat → Bool
  | a :: b :: rest => decide (a < b) && isSortedStrict (b :: rest)
  | _ => true

/-- blocks that must be triggered by `triggered_complete` (record-breaking valid starts). -/
def mustTrigger (bs : List Nat) : List Nat :=
  (bs.foldl (fun (acc : Nat × Bool × List Nat) b =>
      -- acc = (max so far, any seen, collected)
      let (mx, any, out) := acc
      let rec_ := !any || decide (mx < b)
      let out' := if rec_ && decide (b % freq = 0) && decide (0 < b) then out ++ [b] else out
      (if !any || decide (mx < b) then b else mx, true, out')) (0, false, [])).2.2

def holds (blocks obs : List Nat) : Bool :=
  obs.all (fun w => decide (w % freq = 0) && decide (0 < w) && blocks.contains w)
  && isSortedStrict obs
  && (mustTrigger blocks).all obs.contains

/-- Streams delivered over several subscriptions (`first` = what the first subscription
    delivered, `later` = what later subscriptions would deliver): validity, membership and
    at-most-once/in-order are required over everything fed; completeness for the first one. -/
def holdsSegs (first later obs : List Nat) : Bool :=
  obs.all (fun w => decide (w % freq = 0) && decide (0 < w) && (first ++ later).contains w)
  && isSortedStrict obs
  && (mustTrigger first).all obs.contains

/-- With a single subscription `holdsSegs` is `holds`. -/
theorem holdsSegs_nil (bs obs : List Nat) : holdsSegs bs [] obs = holds bs obs := by
  simp [holdsSegs, holds]

/-- The monitor accepts the model's own output on a non-trivial stream (non-vacuity). -/
example : holds [900, 900, 1800, 5, 900, 2700] (watch [900, 900, 1800, 5, 900, 2700]) = true := by
  decide
example : watch [900, 900, 1800, 5, 900, 2700] = [900, 1800, 2700] := by decide
/-- …and rejects a double trigger, an early window and a lost window. -/
example : holds [900, 900] [900, 900] = false := by decide
example : holds [1800, 900] [900, 1800] = true := by decide  -- as a *set* this is fine…
example : holds [1800] [] = false := by decide
/-- a window started again by a second subscription is rejected -/
example : holdsSegs [899, 900, 901] [899, 900] [900, 900] = false := by decide
example : holdsSegs [899, 900, 901] [899, 900] [900] = true := by decide

end KeepVerif.C23
