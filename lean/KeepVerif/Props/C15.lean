import KeepVerif.Model.C15
/-!
# C15 — Message-driven state machine never loses early messages or skips a state

All theorems quantify over every schedule `acts : List Act` (every interleaving of deliveries,
receive-loop steps, `Initiate` returns, ticker polls, cancellation) and every chain `specs`.
-/
namespace KeepVerif.C15

theorem run_append (specs : List Spec) (a b : List Act) :
    run specs (a ++ b) = b.foldl (step specs) (run specs a) := by
  simp [run, List.foldl_append]

/-- invariant-by-induction over schedules -/
theorem run_induction (specs : List Spec) (P : St → Prop) (h0 : P {})
    (hstep : ∀ s a, P s → P (step specs s a)) (acts : List Act) : P (run specs acts) := by
  unfold run
  generalize ({} : St) = s0 at h0
  induction acts generalizing s0 with
  | nil => simpa using h0
  | cons a r ih => simpa using ih _ (hstep _ a h0)

theorem initiated_append (a b : List LogEv) : initiated (a ++ b) = initiated a ++ initiated b := by
  induction a with
  | nil => rfl
  | cons x r ih => cases x <;> simp [initiated, ih]

/-- **no_skip**: under every schedule the states whose `Initiate` was called are exactly
    `0, 1, …, cur` in this order — no state of the `Next` chain is skipped or run twice. -/
theorem no_skip (specs : List Spec) (acts : List Act) :
    initiated (run specs acts).log = List.range ((run specs acts).cur + 1) := by
  apply run_induction specs (fun s => initiated s.log = List.range (s.cur + 1))
  · decide
  · intro s a h
    unfold step
    split
    · cases a <;> simp [h]
    · cases a with
      | deliver m => simp only []; split <;> simpa using h
      | recv => simp only []; split <;> simp [initiated_append, initiated, h]
      | initRet =>
        simp only [doInitRet]; split
        · split <;> simp [initiated_append, initiated, h]
        · exact h
      | initAuto =>
        simp only [doInitRet]; split
        · exact h
        · split
          · split <;> simp [initiated_append, initiated, h]
          · exact h
      | tick => simp only []; split <;> simp [initiated_append, initiated, h]
      | done =>
        simp only []
        split
        · exact h
        · simpa using h
        · split
          · simp [initiated_append, initiated, h]
          · split
            · simp [initiated_append, initiated, h, List.range_succ]
            · simp [initiated_append, initiated, h]
      | cancel => simpa using h
      | ctxDone => simp only []; split <;> simpa using h

theorem step_hist_prefix (specs : List Spec) (s : St) (a : Act) : s.hist <+: (step specs s a).hist := by
  unfold step doInitRet
  cases a <;> simp only [] <;> (repeat' split) <;> simp

/-- **history_monotone**: an admitted message stays in the history of every later state —
    the history after any continuation of a schedule extends the history before it. -/
theorem history_monotone (specs : List Spec) (acts more : List Act) :
    (run specs acts).hist <+: (run specs (acts ++ more)).hist := by
  rw [run_append]
  generalize run specs acts = s
  induction more generalizing s with
  | nil => simp
  | cons a r ih => exact List.IsPrefix.trans (step_hist_prefix specs s a) (ih _)

/-- relation between the machine and the monitor automaton that has read its call log -/
def Rel (specs : List Spec) (s : St) (m : Mon) : Prop :=
  m.ok = true ∧ m.k = s.cur ∧ m.iSeen = true ∧ m.jSeen = !s.initRunning ∧
  (m.tSeen = true ↔ s.sig = some true) ∧ m.hist = s.hist ∧
  (m.over = true ↔ ((∃ k, s.out = some (.final k)) ∨ (∃ k, s.out = some (.errNext k)))) ∧
  (s.sig = some true → s.initOk = true) ∧
  (s.initOk = true → s.initRunning = false ∧ (specAt specs s.cur).initErr = false)

theorem rel_step (specs : List Spec) (s : St) (a : Act)
    (h : Rel specs s (s.log.foldl (monStep specs) {})) :
    Rel specs (step specs s a) ((step specs s a).log.foldl (monStep specs) {}) := by
  generalize hm : s.log.foldl (monStep specs) {} = m at h
  obtain ⟨mk, mi, mj, mt, mover, mhist, mok⟩ := m
  obtain ⟨h1, h2, h3, h4, h5, h6, h7, h8, h9⟩ := h
  simp only at h1 h2 h3 h4 h5 h6 h7 h8 h9
  subst h1 h2 h3 h6
  have hnone : s.out.isSome = false → mover = false := by
    intro hs; cases hb : mover
    · rfl
    · rcases h7.1 hb with ⟨k, hk⟩ | ⟨k, hk⟩ <;> simp [hk] at hs
  unfold step doInitRet
  cases a <;> simp only [] <;> (repeat' split) <;>
    simp only [List.foldl_append, hm, List.foldl_cons, List.foldl_nil] <;>
    clear hm
  all_goals (try (unfold Rel; simp only [monStep]; grind))
  all_goals (rename_i m r heq; obtain ⟨t, id⟩ := m; unfold Rel; simp only [monStep]; grind)

/-- **transition_gate** (and the monitor tie): under every schedule the call log of the machine
    is accepted by the monitor automaton `monStep`, i.e. `Initiate k+1` is called only after
    `Next k`, which comes only after a `CanTransition k = true` evaluated on the history
    received so far, which comes only after `Initiate k` returned without error; every
    `Receive` goes to the current state; `CanTransition` is never called before `Initiate`
    returned. -/
theorem transition_gate (specs : List Spec) (acts : List Act) :
    ((run specs acts).log.foldl (monStep specs) {}).ok = true :=
  (run_induction specs (fun s => Rel specs s (s.log.foldl (monStep specs) {}))
    (by simp [Rel, monStep]) (fun s a h => rel_step specs s a h) acts).1

/-- **terminal_outcomes**: whatever the schedule, `Execute` returns only (a) the last state of
    the chain, after its `Next`; (b) the `Initiate` error of the current state, and only if that
    `Initiate` failed; (c) the `Next` error of the current state; (d) the context error, and only
    after cancellation. -/
theorem terminal_outcomes (specs : List Spec) (hne : specs ≠ []) (acts : List Act) :
    (run specs acts).cur < specs.length ∧
    ∀ o, (run specs acts).out = some o →
      match o with
      | .final k => k = (run specs acts).cur ∧ k + 1 = specs.length ∧ (specAt specs k).nextErr = false
      | .errInitiate k => k = (run specs acts).cur ∧ (specAt specs k).initErr = true
      | .errNext k => k = (run specs acts).cur ∧ (specAt specs k).nextErr = true
      | .ctx => (run specs acts).cancelled = true := by
  apply run_induction specs (fun s => s.cur < specs.length ∧
      (s.sig = some false → (specAt specs s.cur).initErr = true) ∧
      ∀ o, s.out = some o →
      match o with
      | .final k => k = s.cur ∧ k + 1 = specs.length ∧ (specAt specs k).nextErr = false
      | .errInitiate k => k = s.cur ∧ (specAt specs k).initErr = true
      | .errNext k => k = s.cur ∧ (specAt specs k).nextErr = true
      | .ctx => s.cancelled = true) ?_ ?_ acts |>.imp id (·.2)
  · refine ⟨?_, by simp, by simp⟩
    cases specs with
    | nil => exact absurd rfl hne
    | cons a r => simp
  · intro s a ⟨h1, h2, h3⟩
    unfold step doInitRet
    cases a <;> simp only [] <;> (repeat' split) <;> grind

example : (run [{ need := 1 }, { need := 1 }]
    [.deliver ⟨1, 7⟩, .recv, .initRet, .deliver ⟨0, 8⟩, .recv, .tick, .done, .initRet, .tick, .done]).out
    = some (.final 1) := by decide

end KeepVerif.C15
