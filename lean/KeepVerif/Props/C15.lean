import KeepVerif.Model.C15
/-!
# C15 — Message-driven state machine never loses early messages or skips a state

All theorems quantify over every schedule `acts : List Act` (every interleaving of deliveries,
receive-loop steps, `Initiate` returns, ticker polls, cancellation) and every chain `specs`.
-/
namespace KeepVerif.C15

theorem run_append (specs : List Spec) (a b : List Act) :
    run specs (a ++ b) = b.foldl (step specs) (run specs a) := by
  simp [run, List.foldl_append]

/-- invariant-by-induction over schedules -/
theorem run_induction (specs : List Spec) (P : St → Prop) (h0 : P {})
    (hstep : ∀ s a, P s → P (step specs s a)) (acts : List Act) : P (run specs acts) := by
  unfold run
  generalize ({} : St) = s0 at h0
  induction acts generalizing s0 with
  | nil => simpa using h0
  | cons a r ih => simpa using ih _ (hstep _ a h0)

theorem initiated_append (a b : List LogEv) : initiated (a ++ b) = initiated a ++ initiated b := by
  induction a with
  | nil => rfl
  | cons x r ih => cases x <;> simp [initiated, ih]

/-- **no_skip**: under every schedule the states whose `Initiate` was called are exactly
    `0, 1, …, cur` in this order — no state of the `Next` chain is skipped or run twice. -/
theorem no_skip (specs : List Spec) (acts : List Act) :
    initiated (run specs acts).log = List.range ((run specs acts).cur + 1) := by
  apply run_induction specs (fun s => initiated s.log = List.range (s.cur + 1))
  · decide
  · intro s a h
    unfold step
    split
    · cases a <;> simp [h]
    · cases a with
      | deliver m => simp only []; split <;> simpa using h
      | recv => simp only []; split <;> simp [initiated_append, initiated, h]
      | initRet =>
        simp only [doInitRet]; split
        · split <;> simp [initiated_append, initiated, h]
        · exact h
      | initAuto =>
        simp only [doInitRet]; split
        · exact h
        · split
          · split <;> simp [initiated_append, initiated, h]
          · exact h
      | tick => simp only []; split <;> simp [initiated_append, initiated, h]
      | done =>
        simp only []
        split
        · exact h
        · simpa using h
        · split
          · simp [initiated_append, initiated, h]
          · split
            · simp [initiated_append, initiated, h, List.range_succ]
            · simp [initiated_append, initiated, h]
      | cancel => simpa using h
      | ctxDone => simp only []; split <;> simpa using h

theorem step_hist_prefix (specs : List Spec) (s : St) (a : Act) : s.hist <+: (step specs s a).hist := by
  unfold step doInitRet
  cases a <;> simp only [] <;> (repeat' split) <;> simp

/-- **history_monotone**: an admitted message stays in the history of every later state —
    the history after any continuation of a schedule extends the history before it. -/
theorem history_monotone (specs : List Spec) (acts more : List Act) :
    (run specs acts).hist <+: (run specs (acts ++ more)).hist := by
  rw [run_append]
  generalize run specs acts = s
  induction more generalizing s with
  | nil => simp
  | cons a r ih => exact List.IsPrefix.trans (step_hist_prefix specs s a) (ih _)

/-- relation between the machine and the monitor automaton that has read its call log -/
def Rel (specs : List Spec) (s : St) (m : Mon) : Prop :=
  m.ok = true ∧ m.k = s.cur ∧ m.iSeen = true ∧ m.jSeen = !s.initRunning ∧
  (m.tSeen = true ↔ s.sig = some true) ∧ m.hist = s.hist ∧
  (m.over = true ↔ ((∃ k, s.out = some (.final k)) ∨ (∃ k, s.out = some (.errNext k)))) ∧
  (s.sig = some true → s.initOk = true) ∧
  (s.initOk = true → s.initRunning = false ∧ (specAt specs s.cur).initErr = false)

theorem rel_step (specs : List Spec) (s : St) (a : Act)
    (h : Rel specs s (s.log.foldl (monStep specs) {})) :
    Rel specs (step specs s a) ((step specs s a).log.foldl (monStep specs) {}) := by
  generalize hm : s.log.foldl (monStep specs) {} = m at h
  obtain ⟨mk, mi, mj, mt, mover, mhist, mok⟩ := m
  obtain ⟨h1, h2, h3, h4, h5, h6, h7, h8, h9⟩ := h
  simp only at h1 h2 h3 h4 h5 h6 h7 h8 h9
  subst h1 h2 h3 h6
  have hnone : s.out.isSome = false → mover = false := by
    intro hs; cases hb : mover
    · rfl
    · rcases h7.1 hb with ⟨k, hk⟩ | ⟨k, hk⟩ <;> simp [hk] at hs
  unfold step doInitRet
  cases a <;> simp only [] <;> (repeat' split) <;>
    simp only [List.foldl_append, hm, List.foldl_cons, List.foldl_nil] <;>
    clear hm
  all_goals (try (unfold Rel; simp only [monStep]; grind))
  all_goals (rename_i m r heq; obtain ⟨t, id⟩ := m; unfold Rel; simp only [monStep]; grind)

/-- **transition_gate** (and the monitor tie): under every schedule the call log of the machine
    is accepted by the monitor automaton `monStep`, i.e. `Initiate k+1` is called only after
    `Next k`, which comes only after a `CanTransition k = true` evaluated on the history
    received so far, which comes only after `Initiate k` returned without error; every
    `Receive` goes to the current state; `CanTransition` is never called before `Initiate`
    returned. -/
theorem transition_gate (specs : List Spec) (acts : List Act) :
    ((run specs acts).log.foldl (monStep specs) {}).ok = true :=
  (run_induction specs (fun s => Rel specs s (s.log.foldl (monStep specs) {}))
    (by simp [Rel, monStep]) (fun s a h => rel_step specs s a h) acts).1

/-- **terminal_outcomes**: whatever the schedule, `Execute` returns only (a) the last state of
    the chain, after its `Next`; (b) the `Initiate` error of the current state, and only if that
    `Initiate` failed; (c) the `Next` error of the current state; (d) the context error, and only
    after cancellation. -/
theorem terminal_outcomes (specs : List Spec) (hne : specs ≠ []) (acts : List Act) :
    (run specs acts).cur < specs.length ∧
    ∀ o, (run specs acts).out = some o →
      match o with
      | .final k => k = (run specs acts).cur ∧ k + 1 = specs.length ∧ (specAt specs k).nextErr = false
      | .errInitiate k => k = (run specs acts).cur ∧ (specAt specs k).initErr = true
      | .errNext k => k = (run specs acts).cur ∧ (specAt specs k).nextErr = true
      | .ctx => (run specs acts).cancelled = true := by
  apply run_induction specs (fun s => s.cur < specs.length ∧
      (s.sig = some false → (specAt specs s.cur).initErr = true) ∧
      ∀ o, s.out = some o →
      match o with
      | .final k => k = s.cur ∧ k + 1 = specs.length ∧ (specAt specs k).nextErr = false
      | .errInitiate k => k = s.cur ∧ (specAt specs k).initErr = true
      | .errNext k => k = s.cur ∧ (specAt specs k).nextErr = true
      | .ctx => s.cancelled = true) ?_ ?_ acts |>.imp id (·.2)
  · refine ⟨?_, by simp, by simp⟩
    cases specs with
    | nil => exact absurd rfl hne
    | cons a r => simp
  · intro s a ⟨h1, h2, h3⟩
    unfold step doInitRet
    cases a <;> simp only [] <;> (repeat' split) <;> grind

/-- T1 tie for the real tecdsa chains (facts re-read from pkg/tecdsa/{dkg,signing}/states.go on
    every run): every `Next()` of both chains constructs the next state with
    `BaseAsyncState: <receiver>.BaseAsyncState`, i.e. hands the one message history over, and the
    chains have the expected shape (6 and 12 states, ending in `finalizationState`). -/
theorem real_chains_hand_over_history :
    Gen.C15.dkgNextKeepsHistory = List.replicate (Gen.C15.dkgChain.length - 1) 1 ∧
    Gen.C15.signingNextKeepsHistory = List.replicate (Gen.C15.signingChain.length - 1) 1 ∧
    Gen.C15.dkgChain.length = 6 ∧ Gen.C15.signingChain.length = 12 ∧
    Gen.C15.dkgChain.getLast? = some "finalizationState" ∧
    Gen.C15.signingChain.getLast? = some "finalizationState" := by decide

example : (run [{ need := 1 }, { need := 1 }]
    [.deliver ⟨1, 7⟩, .recv, .initRet, .deliver ⟨0, 8⟩, .recv, .tick, .done, .initRet, .tick, .done]).out
    = some (.final 1) := by decide

/-! ## receive path: FIFO, nothing lost -/

def deliveredActs : List Act → List Msg
  | [] => []
  | .deliver m :: r => m :: deliveredActs r
  | _ :: r => deliveredActs r

theorem deliveredActs_append (a b : List Act) : deliveredActs (a ++ b) = deliveredActs a ++ deliveredActs b := by
  induction a with
  | nil => rfl
  | cons x r ih => cases x <;> simp [deliveredActs, ih]

/-- receive-path invariant: what was delivered = what `Receive` got ++ what waits in `recvChan`
    ++ what was refused after cancellation/termination. -/
def Fifo (s : St) (d : List Msg) : Prop :=
  ∃ rest, d = s.hist ++ s.chan ++ rest ∧ rest.length = s.dropped ∧
    (s.cancelled = false ∧ s.out = none → rest = [])

theorem fifo_step (specs : List Spec) (s : St) (a : Act) (d : List Msg) (h : Fifo s d) :
    Fifo (step specs s a) (d ++ deliveredActs [a]) := by
  obtain ⟨rest, hd, hl, hr⟩ := h
  unfold step doInitRet
  cases a with
  | deliver m =>
    simp only [deliveredActs]
    split
    · exact ⟨rest ++ [m], by simp [hd], by simp [hl], by intro ⟨_, h2⟩; simp_all⟩
    · split
      · exact ⟨rest ++ [m], by simp [hd], by simp [hl], by intro ⟨h1, _⟩; simp_all⟩
      · have : rest = [] := hr ⟨by simp_all, by cases h : s.out <;> simp_all⟩
        subst this
        exact ⟨[], by simp [hd], by simpa using hl, fun _ => rfl⟩
  | recv =>
    simp only [deliveredActs, List.append_nil]
    split
    · exact ⟨rest, hd, hl, hr⟩
    · split
      · exact ⟨rest, hd, hl, hr⟩
      · rename_i m r heq
        exact ⟨rest, by simp [hd, heq], hl, by simpa using hr⟩
  | initRet =>
    simp only [deliveredActs, List.append_nil]
    repeat' split
    all_goals exact ⟨rest, hd, hl, by simpa using hr⟩
  | initAuto =>
    simp only [deliveredActs, List.append_nil]
    repeat' split
    all_goals exact ⟨rest, hd, hl, by simpa using hr⟩
  | tick =>
    simp only [deliveredActs, List.append_nil]
    repeat' split
    all_goals exact ⟨rest, hd, hl, by simpa using hr⟩
  | done =>
    simp only [deliveredActs, List.append_nil]
    repeat' split
    all_goals first
      | exact ⟨rest, hd, hl, by simpa using hr⟩
      | exact ⟨rest, hd, hl, by simp⟩
  | cancel =>
    simp only [deliveredActs, List.append_nil]
    split
    · exact ⟨rest, hd, hl, hr⟩
    · exact ⟨rest, hd, hl, by simp⟩
  | ctxDone =>
    simp only [deliveredActs, List.append_nil]
    repeat' split
    all_goals first
      | exact ⟨rest, hd, hl, by simpa using hr⟩
      | exact ⟨rest, hd, hl, by simp⟩

theorem fifo_run (specs : List Spec) (acts : List Act) (s : St) (d : List Msg) (h : Fifo s d) :
    Fifo (acts.foldl (step specs) s) (d ++ deliveredActs acts) := by
  induction acts generalizing s d with
  | nil => simpa [deliveredActs] using h
  | cons a r ih =>
    have := ih _ _ (fifo_step specs s a d h)
    have e : d ++ deliveredActs (a :: r) = d ++ deliveredActs [a] ++ deliveredActs r := by
      rw [show a :: r = [a] ++ r from rfl, deliveredActs_append, List.append_assoc]
    rw [e]
    exact this

/-- **no_message_lost**: under every schedule, the messages delivered to the machine are exactly,
    in order: those handed to `Receive` (= the history), then those still waiting in `recvChan`,
    then those refused because the machine was already cancelled or had returned.  Nothing is
    lost, duplicated or reordered on the receive path, and nothing is refused while the machine
    is alive. -/
theorem no_message_lost (specs : List Spec) (acts : List Act) :
    ∃ refused, deliveredActs acts = (run specs acts).hist ++ (run specs acts).chan ++ refused ∧
      refused.length = (run specs acts).dropped ∧
      ((run specs acts).cancelled = false ∧ (run specs acts).out = none → refused = []) := by
  have := fifo_run specs acts {} [] ⟨[], by simp, by simp, fun _ => rfl⟩
  simpa [Fifo, run] using this


/-! ## catch-up of a late member -/

/-- a state that has just been entered: `Initiate` running, nothing signalled, machine alive -/
def Fresh (s : St) : Prop :=
  s.out = none ∧ s.initRunning = true ∧ s.sig = none

/-- one round of the catch-up schedule: `Initiate` returns, the ticker sees `CanTransition`,
    the receive loop takes `onStateDone`. -/
def round : List Act := [.initRet, .tick, .done]

theorem round_advance (specs : List Spec) (s : St) (hf : Fresh s)
    (hcan : can specs s.cur s.hist = true)
    (hie : (specAt specs s.cur).initErr = false) (hne : (specAt specs s.cur).nextErr = false) :
    let s' := round.foldl (step specs) s
    s'.hist = s.hist ∧
    (if s.cur + 1 < specs.length then Fresh s' ∧ s'.cur = s.cur + 1
     else s'.out = some (.final s.cur)) := by
  obtain ⟨h1, h2, h3⟩ := hf
  simp [round, step, doInitRet, h1, h2, h3, hcan, hie, hne]
  split <;> simp_all [Fresh]

/-- **catch_up**: a member that is late — it enters state `cur` when its history already holds
    the messages of `cur` and of every later state, because they arrived early and were kept —
    visits every remaining state in order without receiving anything more and ends in the
    final state. -/
theorem catch_up (specs : List Spec) (n : Nat) (s : St) (hf : Fresh s)
    (hn : s.cur + n = specs.length) (hpos : 0 < n)
    (hcan : ∀ k, s.cur ≤ k → k < specs.length → can specs k s.hist = true)
    (hok : ∀ k, k < specs.length → (specAt specs k).initErr = false ∧ (specAt specs k).nextErr = false) :
    ((List.replicate n round).flatten.foldl (step specs) s).out = some (.final (specs.length - 1)) := by
  induction n generalizing s with
  | zero => omega
  | succ n ih =>
    have hlt : s.cur < specs.length := by omega
    have hr := round_advance specs s hf (hcan _ (Nat.le_refl _) hlt) (hok _ hlt).1 (hok _ hlt).2
    simp only [List.replicate_succ, List.flatten_cons, List.foldl_append]
    obtain ⟨hh, hrest⟩ := hr
    by_cases hlast : s.cur + 1 < specs.length
    · rw [if_pos hlast] at hrest
      obtain ⟨hf', hc'⟩ := hrest
      apply ih _ hf' (by omega) (by omega)
      · intro k hk1 hk2; rw [hh]; exact hcan k (by omega) hk2
    · rw [if_neg hlast] at hrest
      have hn0 : n = 0 := by omega
      subst hn0
      simp only [List.replicate_zero, List.flatten_nil, List.foldl_nil]
      rw [hrest]; congr; omega

/-- early messages: deliveries and receive-loop steps while `Initiate` of state 0 is still
    running leave the machine in state 0 with exactly those messages in its history. -/
theorem early_messages (specs : List Spec) (msgs : List Msg) (s : St) (hf : Fresh s)
    (hc : s.cancelled = false) (hch : s.chan = []) :
    let s' := (msgs.flatMap fun m => [Act.deliver m, .recv]).foldl (step specs) s
    Fresh s' ∧ s'.cur = s.cur ∧ s'.hist = s.hist ++ msgs ∧ s'.cancelled = false ∧ s'.chan = [] := by
  induction msgs generalizing s with
  | nil => simpa using ⟨hf, hc, hch⟩
  | cons m r ih =>
    obtain ⟨h1, h2, h3⟩ := hf
    simp only [List.flatMap_cons, List.foldl_append, List.foldl_cons, List.foldl_nil]
    have := ih (step specs (step specs s (.deliver m)) .recv)
      (by simp [step, h1, hc, hch, Fresh, h2, h3]) (by simp [step, h1, hc, hch]) (by simp [step, h1, hc, hch])
    simp only at this
    refine ⟨this.1, ?_, ?_, this.2.2.2⟩
    · rw [this.2.1]; simp [step, h1, hc, hch]
    · rw [this.2.2.1]; simp [step, h1, hc, hch]

/-- **late_member_catches_up**: if every message the chain needs is received while the member is
    still initiating state 0 (it lags behind the whole group), it afterwards walks through all
    states `0, 1, …, n-1` in order and finishes — early messages were kept, none is needed again. -/
theorem late_member_catches_up (specs : List Spec) (msgs : List Msg) (hne : specs ≠ [])
    (hcan : ∀ k, k < specs.length → can specs k msgs = true)
    (hok : ∀ k, k < specs.length → (specAt specs k).initErr = false ∧ (specAt specs k).nextErr = false) :
    let s := run specs ((msgs.flatMap fun m => [Act.deliver m, .recv]) ++
                        (List.replicate specs.length round).flatten)
    s.out = some (.final (specs.length - 1)) ∧ initiated s.log = List.range specs.length := by
  have hlen : 0 < specs.length := List.length_pos_iff.mpr hne
  have he := early_messages specs msgs {} ⟨rfl, rfl, rfl⟩ rfl rfl
  simp only at he
  obtain ⟨hf, hcur, hh, _, _⟩ := he
  have hcur0 : (run specs (msgs.flatMap fun m => [Act.deliver m, .recv])).cur = 0 := hcur
  have hh0 : (run specs (msgs.flatMap fun m => [Act.deliver m, .recv])).hist = msgs := by
    have : (run specs (msgs.flatMap fun m => [Act.deliver m, .recv])).hist = ([] : List Msg) ++ msgs := hh
    simpa using this
  have hf0 : Fresh (run specs (msgs.flatMap fun m => [Act.deliver m, .recv])) := hf
  have hfin : (run specs ((msgs.flatMap fun m => [Act.deliver m, .recv]) ++
      (List.replicate specs.length round).flatten)).out = some (.final (specs.length - 1)) := by
    rw [run_append]
    apply catch_up specs specs.length _ hf0 (by rw [hcur0]; simp) hlen
    · intro k _ hk; rw [hh0]; exact hcan k hk
    · exact hok
  refine ⟨hfin, ?_⟩
  rw [no_skip]
  have ht := (terminal_outcomes specs hne _).2 _ hfin
  simp only at ht
  rw [← ht.1]; congr 1; omega


/-! ## monitor tie -/

theorem rel_run (specs : List Spec) (acts : List Act) :
    Rel specs (run specs acts) ((run specs acts).log.foldl (monStep specs) {}) :=
  run_induction specs (fun s => Rel specs s (s.log.foldl (monStep specs) {}))
    (by simp [Rel, monStep]) (fun s a h => rel_step specs s a h) acts

theorem histOf_append (a b : List LogEv) : histOf (a ++ b) = histOf a ++ histOf b := by
  simp [histOf]

/-- the history is exactly what `Receive` was handed, in order -/
theorem hist_eq_histOf (specs : List Spec) (acts : List Act) :
    (run specs acts).hist = histOf (run specs acts).log ∧
    ((run specs acts).sig = some false → (run specs acts).initRunning = false) ∧
    (∀ k, (run specs acts).out = some (.errInitiate k) → (run specs acts).initRunning = false) := by
  apply run_induction specs (fun s => s.hist = histOf s.log ∧ (s.sig = some false → s.initRunning = false) ∧
    (∀ k, s.out = some (.errInitiate k) → s.initRunning = false))
  · simp [histOf]
  · intro s a ⟨h1, h2, h3⟩
    unfold step doInitRet
    cases a <;> simp only [] <;> (repeat' split) <;>
      simp_all [histOf_append, histOf]

theorem isPrefix_append [DecidableEq α] (a l : List α) : isPrefix a (a ++ l) = true := by
  induction a with
  | nil => rfl
  | cons x r ih => simp [isPrefix, ih]

/-- what the driver's monitor evaluates on an observation, as a predicate on a machine state:
    the log automaton accepts, the history is a prefix of the delivered sequence, the visible
    history is exactly what was received, the terminal outcome is consistent with the log. -/
def holdsAll (specs : List Spec) (delivered : List Msg) (s : St) : Bool :=
  holdsLog specs delivered s.log && decide (s.hist = histOf s.log) &&
  (match s.out with
   | some o => outcomeOk specs s.log o
   | none => true)

/-- **holds_model**: the monitor accepts the model under EVERY schedule and for every chain —
    correspondence on outputs plus this theorem transfer the property to the implementation. -/
theorem holds_model (specs : List Spec) (hne : specs ≠ []) (acts : List Act) :
    holdsAll specs (deliveredActs acts) (run specs acts) = true := by
  obtain ⟨r1, r2, r3, r4, r5, r6, r7, r8, r9⟩ := rel_run specs acts
  obtain ⟨refused, hd, _, _⟩ := no_message_lost specs acts
  obtain ⟨hh, hs, he⟩ := hist_eq_histOf specs acts
  obtain ⟨hcur, hout⟩ := terminal_outcomes specs hne acts
  unfold holdsAll holdsLog
  simp only [Bool.and_eq_true, decide_eq_true_eq]
  refine ⟨⟨⟨r1, ?_⟩, hh⟩, ?_⟩
  · rw [r6, hd, List.append_assoc]; exact isPrefix_append _ _
  · cases ho : (run specs acts).out with
    | none => rfl
    | some o =>
      have ht := hout o ho
      simp only [outcomeOk]
      have hov : (∀ k, o ≠ .final k) → (∀ k, o ≠ .errNext k) →
          ((run specs acts).log.foldl (monStep specs) {}).over = false := by
        intro n1 n2
        cases hb : ((run specs acts).log.foldl (monStep specs) {}).over
        · rfl
        · rcases r7.1 hb with ⟨j, hj⟩ | ⟨j, hj⟩
          · rw [ho] at hj; exact absurd (Option.some.inj hj) (n1 j)
          · rw [ho] at hj; exact absurd (Option.some.inj hj) (n2 j)
      cases o with
      | final k =>
        simp only at ht
        have hv : ((run specs acts).log.foldl (monStep specs) {}).over = true := r7.2 (Or.inl ⟨k, ho⟩)
        have hk : k = ((run specs acts).log.foldl (monStep specs) {}).k := ht.1.trans r2.symm
        rw [hv]
        simp only [Bool.true_and, Bool.and_eq_true, decide_eq_true_eq, Bool.not_eq_true']
        exact ⟨⟨hk, ht.2.1⟩, ht.2.2⟩
      | errNext k =>
        simp only at ht
        have hv : ((run specs acts).log.foldl (monStep specs) {}).over = true := r7.2 (Or.inr ⟨k, ho⟩)
        have hk : k = ((run specs acts).log.foldl (monStep specs) {}).k := ht.1.trans r2.symm
        rw [hv]
        simp only [Bool.true_and, Bool.and_eq_true, decide_eq_true_eq]
        exact ⟨hk, ht.2⟩
      | errInitiate k =>
        simp only at ht
        have hk : k = ((run specs acts).log.foldl (monStep specs) {}).k := ht.1.trans r2.symm
        rw [hov (by simp) (by simp), r4, he k ho]
        simp only [Bool.not_false, Bool.true_and, Bool.and_eq_true, decide_eq_true_eq, Bool.and_true]
        exact ⟨hk, ht.2⟩
      | ctx =>
        rw [hov (by simp) (by simp)]; rfl


end KeepVerif.C15
