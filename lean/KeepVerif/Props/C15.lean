import KeepVerif.Model.C15
namespace KeepVerif.C15
end KeepVerif.C15
