import KeepVerif.Model.C07
/-!
# C07 — tECDSA DKG: operating members derive one wallet key; excluded ones never join

Theorems over `Model/C07.lean` (the definitions the driver `drvC07` runs against the real
`pkg/tecdsa/dkg` code).  tss-lib is a parameter (`TssKeygen`, assumption A-tss); everything around
it is proved for all group sizes, exclusion lists (any order, duplicates, out-of-group entries),
seat assignments, sessions and event sequences (messages interleaved with `Next()` transitions).
-/
namespace KeepVerif.C07

/-- Two strictly ascending lists with the same members are equal. -/
theorem eq_of_sorted_of_mem_iff : ∀ (l₁ l₂ : List Nat), l₁.Pairwise (· < ·) → l₂.Pairwise (· < ·) →
    (∀ x, x ∈ l₁ ↔ x ∈ l₂) → l₁ = l₂
  | [], [], _, _, _ => rfl
  | [], b :: bs, _, _, h => absurd ((h b).2 (by simp)) (by simp)
  | a :: as, [], _, _, h => absurd ((h a).1 (by simp)) (by simp)
  | a :: as, b :: bs, h1, h2, h => by
    rw [List.pairwise_cons] at h1 h2
    have hab : a = b := by
      rcases List.mem_cons.1 ((h a).1 (by simp)) with e | ha
      · exact e
      · rcases List.mem_cons.1 ((h b).2 (by simp)) with e | hb
        · exact e.symm
        · have := h2.1 a ha; have := h1.1 b hb; omega
    subst hab
    congr 1
    apply eq_of_sorted_of_mem_iff as bs h1.2 h2.2
    intro x
    constructor
    · intro hx
      rcases List.mem_cons.1 ((h x).1 (List.mem_cons_of_mem _ hx)) with e | hx'
      · have := h1.1 x hx; omega
      · exact hx'
    · intro hx
      rcases List.mem_cons.1 ((h x).2 (List.mem_cons_of_mem _ hx)) with e | hx'
      · have := h2.1 x hx; omega
      · exact hx'

/-! ## group and exclusion -/

theorem isOperating_markDQ (g : Group) (e m : Nat) :
    (g.markDQ e).isOperating m = (g.isOperating m && !(m == e)) := by
  unfold Group.markDQ
  by_cases h : g.isOperating e = true
  · simp only [h, if_true]
    simp only [Group.isOperating, Group.inGroup, List.contains_eq_mem, List.mem_append,
      List.mem_singleton]
    by_cases hme : m = e <;> simp [hme]
  · simp only [h]
    by_cases hme : m = e
    · subst hme; simp at h; simp [h]
    · simp [hme]

theorem size_markDQ (g : Group) (e : Nat) : (g.markDQ e).size = g.size := by
  unfold Group.markDQ; split <;> rfl

theorem ia_markDQ (g : Group) (e : Nat) : (g.markDQ e).ia = g.ia := by
  unfold Group.markDQ; split <;> rfl

theorem size_exclude (self : Nat) (excl : List Nat) (g : Group) :
    (exclude self excl g).size = g.size := by
  induction excl generalizing g with
  | nil => rfl
  | cons e rest ih =>
    simp only [exclude, List.foldl_cons]
    rw [show List.foldl _ _ rest = exclude self rest (if e ≠ self then g.markDQ e else g) from rfl, ih]
    split
    · exact size_markDQ g e
    · rfl

theorem ia_exclude (self : Nat) (excl : List Nat) (g : Group) :
    (exclude self excl g).ia = g.ia := by
  induction excl generalizing g with
  | nil => rfl
  | cons e rest ih =>
    simp only [exclude, List.foldl_cons]
    rw [show List.foldl _ _ rest = exclude self rest (if e ≠ self then g.markDQ e else g) from rfl, ih]
    split
    · exact ia_markDQ g e
    · rfl

/-- After the exclusion loop a member is operating iff it was operating before and it is not an
    excluded index other than the executing member itself. -/
theorem isOperating_exclude (self : Nat) (excl : List Nat) (g : Group) (m : Nat) :
    (exclude self excl g).isOperating m = (g.isOperating m && (m == self || !excl.contains m)) := by
  induction excl generalizing g with
  | nil => simp [exclude]
  | cons e rest ih =>
    simp only [exclude, List.foldl_cons]
    rw [show List.foldl _ _ rest = exclude self rest (if e ≠ self then g.markDQ e else g) from rfl, ih]
    by_cases hes : e = self
    · subst hes
      simp only [ne_eq, not_true_eq_false, if_false, List.contains_cons]
      cases hB : (m == e) <;> simp
    · simp only [ne_eq, hes, not_false_eq_true, if_true, isOperating_markDQ, List.contains_cons]
      cases hB : (m == e) with
      | false => simp
      | true =>
        have hme : m = e := by simpa using hB
        have : (m == self) = false := by simp [hme, hes]
        simp [this]

theorem isOperating_new (n m : Nat) : (Group.new n).isOperating m = (decide (1 ≤ m) && decide (m ≤ n)) := by
  simp only [Group.new, Group.isOperating, Group.inGroup, List.contains_nil, Bool.not_false,
    Bool.and_true]
  congr

/-- `OperatingMemberIndexes` of a member set up by `Execute`: the group minus the excluded
    others, in ascending order. -/
theorem operating_memberGroup (n self : Nat) (excl : List Nat) :
    (memberGroup n self excl).operating =
      (List.range' 1 n).filter (fun m => m == self || !excl.contains m) := by
  unfold Group.operating memberGroup
  rw [size_exclude]
  apply List.filter_congr
  intro m hm
  rw [isOperating_exclude, isOperating_new]
  have : 1 ≤ m ∧ m ≤ n := by
    rw [List.mem_range'] at hm
    obtain ⟨i, hi, rfl⟩ := hm
    have : (Group.new n).size = n := rfl
    omega
  simp [this.1, this.2]

/-- **operating_set_common** (first half): every non-excluded member computes the same operating
    set — the group minus the excluded members — whatever the order/duplicates of the list. -/
theorem operating_set_common (n : Nat) (excl : List Nat) (i : Nat) (hi : i ∉ excl) :
    (memberGroup n i excl).operating = (List.range' 1 n).filter (fun m => !excl.contains m) := by
  rw [operating_memberGroup]
  apply List.filter_congr
  intro m _
  by_cases hmi : m = i
  · subst hmi; simp [hi]
  · simp [hmi]

theorem operating_agree (n : Nat) (excl : List Nat) (i j : Nat) (hi : i ∉ excl) (hj : j ∉ excl) :
    (memberGroup n i excl).operating = (memberGroup n j excl).operating := by
  rw [operating_set_common n excl i hi, operating_set_common n excl j hj]

/-- The operating list is strictly ascending (hence duplicate free). -/
theorem operating_sorted (g : Group) : g.operating.Pairwise (· < ·) :=
  (List.pairwise_lt_range' (s := 1) (n := g.size)).sublist List.filter_sublist

theorem mem_operating (g : Group) (m : Nat) : m ∈ g.operating ↔ g.isOperating m = true := by
  unfold Group.operating
  rw [List.mem_filter, List.mem_range']
  constructor
  · exact fun h => h.2
  · intro h
    refine ⟨⟨m - 1, ?_, ?_⟩, h⟩ <;>
      (simp [Group.isOperating, Group.inGroup] at h; omega)

/-- An excluded member (other than the executing one) is never operating. -/
theorem excluded_not_operating (n self : Nat) (excl : List Nat) (e : Nat) (he : e ∈ excl)
    (hes : e ≠ self) : e ∉ (memberGroup n self excl).operating := by
  rw [operating_memberGroup, List.mem_filter]
  simp [hes, he]

/-! ## misbehaved list -/

theorem mem_dq_markDQ (g : Group) (e m : Nat) :
    m ∈ (g.markDQ e).dq ↔ m ∈ g.dq ∨ (m = e ∧ g.isOperating e = true) := by
  unfold Group.markDQ
  by_cases h : g.isOperating e = true
  · simp [h]
  · simp [h]

theorem mem_dq_exclude (self : Nat) (excl : List Nat) (g : Group) (m : Nat) :
    m ∈ (exclude self excl g).dq ↔
      m ∈ g.dq ∨ (m ∈ excl ∧ m ≠ self ∧ g.isOperating m = true) := by
  induction excl generalizing g with
  | nil => simp [exclude]
  | cons e rest ih =>
    simp only [exclude, List.foldl_cons]
    rw [show List.foldl _ _ rest = exclude self rest (if e ≠ self then g.markDQ e else g) from rfl, ih]
    by_cases hes : e = self
    · subst hes
      simp only [ne_eq, not_true_eq_false, if_false, List.mem_cons]
      constructor
      · rintro (h | ⟨h1, h2, h3⟩)
        · exact Or.inl h
        · exact Or.inr ⟨Or.inr h1, h2, h3⟩
      · rintro (h | ⟨h1 | h1, h2, h3⟩)
        · exact Or.inl h
        · exact absurd h1 h2
        · exact Or.inr ⟨h1, h2, h3⟩
    · simp only [ne_eq, hes, not_false_eq_true, if_true, mem_dq_markDQ, isOperating_markDQ,
        List.mem_cons, Bool.and_eq_true, Bool.not_eq_true', beq_eq_false_iff_ne]
      constructor
      · rintro ((h | ⟨rfl, h⟩) | ⟨h1, h2, h3, _⟩)
        · exact Or.inl h
        · exact Or.inr ⟨Or.inl rfl, hes, h⟩
        · exact Or.inr ⟨Or.inr h1, h2, h3⟩
      · rintro (h | ⟨h1 | h1, h2, h3⟩)
        · exact Or.inl (Or.inl h)
        · subst h1; exact Or.inl (Or.inr ⟨rfl, h3⟩)
        · by_cases hme : m = e
          · subst hme; exact Or.inl (Or.inr ⟨rfl, h3⟩)
          · exact Or.inr ⟨h1, h2, h3, hme⟩

theorem mem_misbehaved (g : Group) (m : Nat) :
    m ∈ misbehaved g ↔ m < 256 ∧ (m ∈ g.ia ∨ m ∈ g.dq) := by
  simp [misbehaved, List.mem_filter, List.mem_range]

/-- `MisbehavedMembersIndexes` of a freshly set-up member: exactly the in-group excluded others. -/
theorem mem_misbehaved_memberGroup (n self : Nat) (excl : List Nat) (m : Nat) :
    m ∈ misbehaved (memberGroup n self excl) ↔
      m < 256 ∧ m ∈ excl ∧ m ≠ self ∧ 1 ≤ m ∧ m ≤ n := by
  rw [mem_misbehaved]
  unfold memberGroup
  rw [ia_exclude, mem_dq_exclude, isOperating_new]
  simp [Group.new]

/-- **excluded_listed_as_misbehaved**: every excluded member of the group (other than the member
    producing the result) is in the result's misbehaved list … -/
theorem excluded_listed_as_misbehaved (n self : Nat) (excl : List Nat) (hn : n ≤ 255)
    (e : Nat) (he : e ∈ excl) (hes : e ≠ self) (h1 : 1 ≤ e) (h2 : e ≤ n) :
    e ∈ misbehaved (memberGroup n self excl) :=
  (mem_misbehaved_memberGroup n self excl e).2 ⟨by omega, he, hes, h1, h2⟩

/-- … and nobody else is. -/
theorem misbehaved_only_excluded (n self : Nat) (excl : List Nat) (m : Nat)
    (h : m ∈ misbehaved (memberGroup n self excl)) : m ∈ excl ∧ m ≠ self :=
  let h' := (mem_misbehaved_memberGroup n self excl m).1 h
  ⟨h'.2.1, h'.2.2.1⟩

theorem misbehaved_sorted (g : Group) : (misbehaved g).Pairwise (· < ·) := by
  unfold misbehaved
  have : (List.range 256).Pairwise (· < ·) := by
    rw [List.range_eq_range']; exact List.pairwise_lt_range'
  exact this.sublist List.filter_sublist

/-- **misbehaved_lists_equal**: all non-excluded members report the same misbehaved list. -/
theorem misbehaved_lists_equal (n : Nat) (excl : List Nat) (i j : Nat) (hi : i ∉ excl) (hj : j ∉ excl) :
    misbehaved (memberGroup n i excl) = misbehaved (memberGroup n j excl) := by
  unfold misbehaved
  apply List.filter_congr
  intro m hm
  have key : ∀ s, s ∉ excl → ((memberGroup n s excl).ia.contains m || (memberGroup n s excl).dq.contains m)
      = (excl.contains m && decide (1 ≤ m) && decide (m ≤ n)) := by
    intro s hs
    have hms : m ∈ excl → m ≠ s := fun h e => hs (e ▸ h)
    have h1 : (memberGroup n s excl).ia = [] := by unfold memberGroup; rw [ia_exclude]; rfl
    rw [h1, Bool.eq_iff_iff]
    simp only [Bool.or_eq_true, Bool.and_eq_true, List.contains_iff_mem, decide_eq_true_eq,
      List.not_mem_nil, false_or]
    unfold memberGroup
    rw [mem_dq_exclude, isOperating_new]
    simp only [Group.new, List.not_mem_nil, false_or, Bool.and_eq_true, decide_eq_true_eq]
    constructor
    · rintro ⟨a, _, b, c⟩; exact ⟨⟨a, b⟩, c⟩
    · rintro ⟨⟨a, b⟩, c⟩; exact ⟨a, hms a, b, c⟩
  rw [key i hi, key j hj]

/-! ## identity conversion -/

/-- **party_id_roundtrip**: member index → party key → member index is the identity. -/
theorem party_id_roundtrip (seed idx : Nat) (h : idx < 256) : toIndex seed (toKey seed idx) = idx := by
  unfold toIndex toKey
  rw [if_neg (by omega)]
  omega

/-- **party_id_injective**: distinct member indexes get distinct party keys. -/
theorem party_id_injective (seed a b : Nat) (h : toKey seed a = toKey seed b) : a = b := by
  unfold toKey at h; omega

/-- A key below the seed maps to the null member index 0 (never a group member). -/
theorem toIndex_below (seed key : Nat) (h : key < seed) : toIndex seed key = 0 := by
  unfold toIndex; rw [if_pos h]

/-! ## sorted party keys -/

theorem insertSorted_of_le_all (a : Nat) (l : List Nat) (h : ∀ b ∈ l, a ≤ b) :
    insertSorted a l = a :: l := by
  cases l with
  | nil => rfl
  | cons b bs => simp [insertSorted, h b (by simp)]

theorem isort_of_sorted (l : List Nat) (h : l.Pairwise (· ≤ ·)) : isort l = l := by
  induction l with
  | nil => rfl
  | cons a as ih =>
    rw [List.pairwise_cons] at h
    simp only [isort]
    rw [ih h.2]
    exact insertSorted_of_le_all a as h.1

theorem insertSorted_map_add (seed a : Nat) (l : List Nat) :
    insertSorted (seed + a) (l.map (seed + ·)) = (insertSorted a l).map (seed + ·) := by
  induction l with
  | nil => rfl
  | cons b bs ih =>
    simp only [List.map_cons, insertSorted]
    by_cases h : a ≤ b
    · rw [if_pos h, if_pos (by omega)]; rfl
    · rw [if_neg h, if_neg (by omega)]; simp [ih]

/-- Sorting commutes with the (strictly monotone) index → key map. -/
theorem isort_map_add (seed : Nat) (l : List Nat) :
    isort (l.map (seed + ·)) = (isort l).map (seed + ·) := by
  induction l with
  | nil => rfl
  | cons a as ih => simp only [List.map_cons, isort, ih, insertSorted_map_add]

/-- The sorted party-key list handed to tss-lib is `seed + m` over the ascending operating list. -/
theorem partyKeys_eq (seed : Nat) (g : Group) : partyKeys seed g = g.operating.map (seed + ·) := by
  unfold partyKeys
  have : (fun m => toKey seed m) = (seed + ·) := rfl
  rw [show g.operating.map (toKey seed) = g.operating.map (seed + ·) from rfl, isort_map_add,
    isort_of_sorted _ ((operating_sorted g).imp Nat.le_of_lt)]

/-- **operating_set_common** (second half): all non-excluded members hand the same sorted
    party-key list to tss-lib. -/
theorem party_keys_common (seed n : Nat) (excl : List Nat) (i j : Nat) (hi : i ∉ excl) (hj : j ∉ excl) :
    partyKeys seed (memberGroup n i excl) = partyKeys seed (memberGroup n j excl) := by
  rw [partyKeys_eq, partyKeys_eq, operating_agree n excl i j hi hj]

/-- Party keys are pairwise distinct and every one converts back to the operating member it was
    made from (`rt` field of the harness observation). -/
theorem partyKeys_roundtrip (seed : Nat) (g : Group) (h : g.size ≤ 255) :
    (partyKeys seed g).map (toIndex seed) = g.operating := by
  rw [partyKeys_eq, List.map_map]
  conv => rhs; rw [← List.map_id g.operating]
  apply List.map_congr_left
  intro m hm
  have : m ≤ g.size := by
    have := (mem_operating g m).1 hm
    simp [Group.isOperating, Group.inGroup] at this; omega
  simpa [toKey] using party_id_roundtrip seed m (by omega)

/-- A non-excluded member of the group finds its own key in the party list. -/
theorem ownKey_some (seed n self : Nat) (excl : List Nat) (h1 : 1 ≤ self) (h2 : self ≤ n) :
    ownKey seed self (memberGroup n self excl) = some (toKey seed self) ∧
      toKey seed self ∈ partyKeys seed (memberGroup n self excl) := by
  have hop : self ∈ (memberGroup n self excl).operating := by
    rw [operating_memberGroup, List.mem_filter, List.mem_range']
    exact ⟨⟨self - 1, by omega, by omega⟩, by simp⟩
  constructor
  · unfold ownKey; simp [hop]
  · rw [partyKeys_eq]; exact List.mem_map.2 ⟨self, hop, rfl⟩

/-! ## admission and history -/

/-- What admission means. -/
theorem admitted_spec (self sess : Nat) (g : Group) (seats : List Nat) (m : Msg)
    (h : admitted self sess g seats m = true) :
    m.kind < 6 ∧ m.sender ≠ self ∧ validMembership seats m.sender m.op = true ∧
      g.isOperating m.sender = true ∧ m.sess = sess := by
  simp only [admitted, shouldAccept, Bool.and_eq_true, decide_eq_true_eq, Bool.not_eq_true',
    beq_eq_false_iff_ne, beq_iff_eq] at h
  obtain ⟨⟨a, ⟨b, c⟩, d⟩, e⟩ := h
  exact ⟨a, b, c, d, e.symm⟩

theorem mem_receive (self sess : Nat) (g : Group) (seats : List Nat) (h : List Msg) (m x : Msg) :
    x ∈ receive self sess g seats h m ↔ x ∈ h ∨ (x = m ∧ admitted self sess g seats m = true) := by
  unfold receive
  by_cases ha : admitted self sess g seats m = true
  · simp [ha]
  · simp [ha]

theorem foldl_step_hist_admitted (self sess : Nat) (g : Group) (seats : List Nat) (evs : List Ev)
    (s : St) (hs : ∀ m ∈ s.hist, admitted self sess g seats m = true) :
    ∀ m ∈ (evs.foldl (step self sess g seats) s).hist, admitted self sess g seats m = true := by
  induction evs generalizing s with
  | nil => exact hs
  | cons e rest ih =>
    simp only [List.foldl_cons]
    apply ih
    cases e with
    | recv x =>
      intro m hm
      simp only [step] at hm
      rcases (mem_receive ..).1 hm with h | ⟨rfl, h⟩
      · exact hs m h
      · exact h
    | next =>
      intro m hm
      simp only [step] at hm
      split at hm <;> exact hs m hm

/-- **history_only_admitted**: whatever is delivered in whatever state, every message in the
    history has a valid membership for its claimed sender, comes from an operating member other
    than the receiver, and carries the receiver's session id. -/
theorem history_only_admitted (self sess : Nat) (g : Group) (seats : List Nat) (evs : List Ev) :
    ∀ m ∈ (run self sess g seats evs).hist,
      m.kind < 6 ∧ m.sender ≠ self ∧ validMembership seats m.sender m.op = true ∧
        g.isOperating m.sender = true ∧ m.sess = sess := by
  intro m hm
  exact admitted_spec _ _ _ _ _
    (foldl_step_hist_admitted self sess g seats evs ⟨0, []⟩ (by simp) m hm)

theorem dedupFrom_sublist (seen : List Nat) (l : List Msg) : (dedupFrom seen l).Sublist l := by
  induction l generalizing seen with
  | nil => exact List.Sublist.slnil
  | cons m ms ih =>
    simp only [dedupFrom]
    split
    · exact (ih seen).cons m
    · exact (ih _).cons_cons m

theorem received_subset (h : List Msg) (k : Nat) : ∀ m ∈ received h k, m ∈ h ∧ m.kind = k := by
  intro m hm
  have := (dedupFrom_sublist [] _).subset hm
  rw [List.mem_filter] at this
  exact ⟨this.1, by simpa using this.2⟩

/-- **excluded_and_foreign_sessions_never_reach_tss**: the messages handed to the tss-lib updates
    (`receivedMessages[T]`) all carry the member's session id and none of them comes from an
    excluded member, from the member itself or from outside the group; the authenticated network
    key belongs to the operator seated at the claimed sender index. -/
theorem excluded_and_foreign_sessions_never_reach_tss (n self sess : Nat) (excl seats : List Nat)
    (evs : List Ev) (k : Nat) :
    ∀ m ∈ received (run self sess (memberGroup n self excl) seats evs).hist k,
      m.sess = sess ∧ m.sender ∉ excl ∧ m.sender ≠ self ∧ 1 ≤ m.sender ∧ m.sender ≤ n ∧
        validMembership seats m.sender m.op = true := by
  intro m hm
  obtain ⟨_, hself, hval, hop, hsess⟩ :=
    history_only_admitted self sess _ seats evs m (received_subset _ k m hm).1
  rw [memberGroup, isOperating_exclude, isOperating_new] at hop
  simp only [Bool.and_eq_true, decide_eq_true_eq, Bool.or_eq_true, beq_iff_eq,
    Bool.not_eq_true', List.contains_eq_mem, decide_eq_false_iff_not] at hop
  refine ⟨hsess, ?_, hself, hop.1.1, hop.1.2, hval⟩
  rcases hop.2 with h | h
  · exact absurd h hself
  · exact h

/-- `receivedMessages[T]` holds at most one message per sender. -/
theorem dedupFrom_senders (seen : List Nat) (l : List Msg) :
    ((dedupFrom seen l).map (·.sender)).Nodup ∧ ∀ m ∈ dedupFrom seen l, m.sender ∉ seen := by
  induction l generalizing seen with
  | nil => simp [dedupFrom]
  | cons m ms ih =>
    simp only [dedupFrom]
    by_cases h : seen.contains m.sender = true
    · rw [if_pos h]; exact ih seen
    · rw [if_neg h]
      obtain ⟨ih1, ih2⟩ := ih (m.sender :: seen)
      have hm : m.sender ∉ seen := by simpa using h
      constructor
      · simp only [List.map_cons, List.nodup_cons, List.mem_map, not_exists, not_and]
        exact ⟨fun x hx e => (ih2 x hx) (by simp [e]), ih1⟩
      · intro x hx
        rcases List.mem_cons.1 hx with rfl | hx
        · exact hm
        · exact fun hc => ih2 x hx (List.mem_cons_of_mem _ hc)

theorem received_senders_nodup (h : List Msg) (k : Nat) : ((received h k).map (·.sender)).Nodup :=
  (dedupFrom_senders [] _).1

/-- De-duplication loses no sender: every sender with a message of the kind in the history is
    represented (by its first message). -/
theorem dedupFrom_complete (seen : List Nat) (l : List Msg) (m : Msg) (hm : m ∈ l)
    (hs : m.sender ∉ seen) : ∃ x ∈ dedupFrom seen l, x.sender = m.sender := by
  induction l generalizing seen with
  | nil => cases hm
  | cons a as ih =>
    simp only [dedupFrom]
    by_cases h : seen.contains a.sender = true
    · rw [if_pos h]
      rcases List.mem_cons.1 hm with rfl | hm'
      · exact absurd (by simpa using h) hs
      · exact ih seen hm' hs
    · rw [if_neg h]
      rcases List.mem_cons.1 hm with rfl | hm'
      · exact ⟨m, by simp, rfl⟩
      · by_cases e : m.sender = a.sender
        · exact ⟨a, by simp, e.symm⟩
        · obtain ⟨x, hx, hxe⟩ := ih (a.sender :: seen) hm' (by simp [e, hs])
          exact ⟨x, List.mem_cons_of_mem _ hx, hxe⟩

theorem received_complete (h : List Msg) (k : Nat) (m : Msg) (hm : m ∈ h) (hk : m.kind = k) :
    ∃ x ∈ received h k, x.sender = m.sender :=
  dedupFrom_complete [] _ m (List.mem_filter.2 ⟨hm, by simp [hk]⟩) (by simp)

/-- The history only grows, by appending: what was received stays, in order. -/
theorem hist_prefix_foldl (self sess : Nat) (g : Group) (seats : List Nat) (evs : List Ev) (s : St) :
    s.hist <+: (evs.foldl (step self sess g seats) s).hist := by
  induction evs generalizing s with
  | nil => exact List.prefix_refl _
  | cons e rest ih =>
    simp only [List.foldl_cons]
    refine List.IsPrefix.trans ?_ (ih _)
    cases e with
    | recv x =>
      simp only [step, receive]
      split
      · exact List.prefix_append _ _
      · exact List.prefix_refl _
    | next =>
      simp only [step]
      split <;> exact List.prefix_refl _

/-- **early_messages_kept**: an admitted message delivered at ANY point — in particular while the
    member is still in an earlier state than the one the message belongs to — is in the history
    after any further events (further deliveries and any number of `Next()` transitions), so it
    is there when the state that consumes it initiates. -/
theorem early_messages_kept (self sess : Nat) (g : Group) (seats : List Nat) (pre post : List Ev)
    (m : Msg) (h : admitted self sess g seats m = true) :
    m ∈ (run self sess g seats (pre ++ Ev.recv m :: post)).hist := by
  unfold run
  rw [List.foldl_append, List.foldl_cons]
  apply (hist_prefix_foldl self sess g seats post _).subset
  simp [step, receive, h]

/-- … and the run of a longer event sequence extends the history of every prefix. -/
theorem history_monotone (self sess : Nat) (g : Group) (seats : List Nat) (pre post : List Ev) :
    (run self sess g seats pre).hist <+: (run self sess g seats (pre ++ post)).hist := by
  unfold run
  rw [List.foldl_append]
  exact hist_prefix_foldl self sess g seats post _

/-- `Next()` never touches the history and the state index never exceeds the final state. -/
theorem run_idx_le (self sess : Nat) (g : Group) (seats : List Nat) (evs : List Ev) :
    (run self sess g seats evs).idx ≤ lastState := by
  unfold run
  suffices ∀ s : St, s.idx ≤ lastState → (evs.foldl (step self sess g seats) s).idx ≤ lastState from
    this _ (by simp [lastState])
  induction evs with
  | nil => exact fun s h => h
  | cons e rest ih =>
    intro s hs
    simp only [List.foldl_cons]
    apply ih
    cases e with
    | recv x => exact hs
    | next => simp only [step]; split <;> simp_all [lastState] <;> omega

/-! ## CanTransition -/

theorem subset_of_nodup_length : ∀ (S T : List Nat), S.Nodup → (∀ x ∈ S, x ∈ T) →
    T.length ≤ S.length → ∀ x ∈ T, x ∈ S
  | [], T, _, _, hlen => by
    have : T = [] := List.eq_nil_of_length_eq_zero (by simpa using hlen)
    subst this; intro x hx; cases hx
  | a :: S', T, hS, hsub, hlen => by
    rw [List.nodup_cons] at hS
    have haT : a ∈ T := hsub a (by simp)
    have hlen' : (T.erase a).length ≤ S'.length := by
      rw [List.length_erase_of_mem haT]; simp at hlen; omega
    have hsub' : ∀ x ∈ S', x ∈ T.erase a := by
      intro x hx
      have hxa : x ≠ a := fun e => hS.1 (e ▸ hx)
      exact (List.mem_erase_of_ne hxa).2 (hsub x (by simp [hx]))
    have ih := subset_of_nodup_length S' (T.erase a) hS.2 hsub' hlen'
    intro x hx
    by_cases hxa : x = a
    · simp [hxa]
    · exact List.mem_cons_of_mem _ (ih x ((List.mem_erase_of_ne hxa).2 hx))

/-- **CanTransition is exact**: when a state that awaits messages of kind `k` reports
    `CanTransition`, every other operating member's message of that kind is in
    `receivedMessages` — duplicates never make up for a missing member. -/
theorem canTransition_complete (n self sess : Nat) (excl seats : List Nat) (evs : List Ev)
    (st k : Nat) (hk : kindOf st = some k)
    (hself : self ∈ (memberGroup n self excl).operating)
    (hcan : canTransition st (memberGroup n self excl)
      (run self sess (memberGroup n self excl) seats evs).hist = true) :
    ∀ m ∈ (memberGroup n self excl).operating, m ≠ self →
      ∃ x ∈ received (run self sess (memberGroup n self excl) seats evs).hist k, x.sender = m := by
  generalize hg : memberGroup n self excl = g at *
  generalize hh : (run self sess g seats evs).hist = h at *
  have hadm : ∀ x ∈ received h k, g.isOperating x.sender = true ∧ x.sender ≠ self := by
    intro x hx
    have := history_only_admitted self sess g seats evs x (hh ▸ (received_subset h k x hx).1)
    exact ⟨this.2.2.2.1, this.2.1⟩
  simp only [canTransition, hk, beq_iff_eq] at hcan
  let S := (received h k).map (·.sender)
  have hnd : (g.operating).Nodup :=
    List.nodup_iff_pairwise_ne.2 ((operating_sorted g).imp (fun h => Nat.ne_of_lt h))
  have hsub : ∀ x ∈ S, x ∈ g.operating.erase self := by
    intro x hx
    obtain ⟨y, hy, rfl⟩ := List.mem_map.1 hx
    exact (List.mem_erase_of_ne (hadm y hy).2).2 ((mem_operating g _).2 (hadm y hy).1)
  have hlen : (g.operating.erase self).length ≤ S.length := by
    rw [List.length_erase_of_mem hself]; simp [S]; omega
  have := subset_of_nodup_length S _ (received_senders_nodup h k) hsub hlen
  intro m hm hms
  obtain ⟨y, hy, e⟩ := List.mem_map.1 (this m ((List.mem_erase_of_ne hms).2 hm))
  exact ⟨y, hy, e⟩

/-! ## tss-lib as a parameter (assumption A-tss) -/

/-- The functional behaviour of tss-lib key generation that the property relies on: the public key
    a party outputs is determined by the sorted party-key set and the threshold the parties were
    started with (and, for honest parties exchanging each other's round messages, is the same for
    every party of the set). -/
structure TssKeygen (PubKey : Type) where
  pub : (parties : List Nat) → (threshold : Nat) → (own : Nat) → PubKey
  agree : ∀ parties threshold a b, a ∈ parties → b ∈ parties →
    pub parties threshold a = pub parties threshold b

/-- **same_key** (under A-tss): any two non-excluded group members start tss-lib with the same
    sorted party set, each with its own key in that set, hence — by A-tss — output the same wallet
    public key. The part proved here is everything the Go code contributes. -/
theorem same_key_under_A_tss {PubKey : Type} (tss : TssKeygen PubKey) (seed n t : Nat)
    (excl : List Nat) (i j : Nat) (hi : i ∉ excl) (hj : j ∉ excl)
    (hi1 : 1 ≤ i) (hi2 : i ≤ n) (hj1 : 1 ≤ j) (hj2 : j ≤ n) :
    tss.pub (partyKeys seed (memberGroup n i excl)) t (toKey seed i) =
      tss.pub (partyKeys seed (memberGroup n j excl)) t (toKey seed j) := by
  rw [party_keys_common seed n excl i j hi hj]
  apply tss.agree
  · rw [← party_keys_common seed n excl i j hi hj]; exact (ownKey_some seed n i excl hi1 hi2).2
  · exact (ownKey_some seed n j excl hj1 hj2).2

/-! ## the monitor accepts every model output; non-vacuity -/

/-- The `parties` monitor accepts the model's own output for every input with `n ≤ 255`
    (correspondence + this theorem ⇒ the predicate holds of the implementation's observation). -/
theorem holdsParties_model (n self : Nat) (excl : List Nat) (seed : Nat) (hn : n ≤ 255) :
    holdsParties n self excl seed (memberGroup n self excl).operating
      (partyKeys seed (memberGroup n self excl)) (ownKey seed self (memberGroup n self excl))
      (misbehaved (memberGroup n self excl))
      ((partyKeys seed (memberGroup n self excl)).map (toIndex seed)) = true := by
  have hsize : (memberGroup n self excl).size = n := by unfold memberGroup; rw [size_exclude]; rfl
  have hsorted : isStrictAsc ((memberGroup n self excl).operating.map (seed + ·)) = true := by
    have := operating_sorted (memberGroup n self excl)
    generalize (memberGroup n self excl).operating = l at this
    induction l with
    | nil => rfl
    | cons a as ih =>
      cases as with
      | nil => rfl
      | cons b bs =>
        rw [List.pairwise_cons] at this
        simp only [List.map_cons, isStrictAsc, Bool.and_eq_true, decide_eq_true_eq]
        exact ⟨by have := this.1 b (by simp); omega, ih this.2⟩
  have hmis : misbehaved (memberGroup n self excl) =
      (List.range' 1 n).filter (fun m => !(m == self) && excl.contains m) := by
    apply eq_of_sorted_of_mem_iff _ _ (misbehaved_sorted _)
      ((List.pairwise_lt_range' (s := 1) (n := n)).sublist List.filter_sublist)
    intro m
    rw [mem_misbehaved_memberGroup, List.mem_filter, List.mem_range']
    constructor
    · rintro ⟨_, a, b, c, d⟩
      exact ⟨⟨m - 1, by omega, by omega⟩, by simp [a, b]⟩
    · rintro ⟨⟨i, hi, rfl⟩, h⟩
      simp only [Bool.and_eq_true, Bool.not_eq_true', beq_eq_false_iff_ne, ne_eq,
        List.contains_eq_mem, decide_eq_true_eq] at h
      exact ⟨by omega, h.2, h.1, by omega, by omega⟩
  unfold holdsParties
  rw [partyKeys_roundtrip seed _ (by omega), partyKeys_eq, ← operating_memberGroup, hsorted, ← hmis]
  simp [ownKey, toKey]

theorem nodupB_of_nodup : ∀ (l : List Nat), l.Nodup → nodupB l = true
  | [], _ => rfl
  | a :: as, h => by
    rw [List.nodup_cons] at h
    simp only [nodupB, Bool.and_eq_true, Bool.not_eq_true', List.contains_eq_mem, decide_eq_false_iff_not]
    exact ⟨h.1, nodupB_of_nodup as h.2⟩

/-- every message in the history was delivered -/
theorem hist_delivered (self sess : Nat) (g : Group) (seats : List Nat) (evs : List Ev) (s : St)
    (hs : ∀ m ∈ s.hist, Ev.recv m ∈ evs) (rest : List Ev) (hsub : ∀ e ∈ rest, e ∈ evs) :
    ∀ m ∈ (rest.foldl (step self sess g seats) s).hist, Ev.recv m ∈ evs := by
  induction rest generalizing s with
  | nil => exact hs
  | cons e rest ih =>
    simp only [List.foldl_cons]
    apply ih _ _ (fun x hx => hsub x (List.mem_cons_of_mem _ hx))
    cases e with
    | recv x =>
      intro m hm
      simp only [step] at hm
      rcases (mem_receive ..).1 hm with h | ⟨rfl, _⟩
      · exact hs m h
      · exact hsub _ (by simp)
    | next =>
      intro m hm
      simp only [step] at hm
      split at hm <;> exact hs m hm

theorem getD_map_range (F : Nat → α) (d : α) (n k : Nat) (hk : k < n) :
    ((List.range n).map F).getD k d = F k := by
  rw [List.getD_eq_getElem?_getD, List.getElem?_map, List.getElem?_range hk]; rfl

/-- The `recv` monitor accepts the model's own output for every input: group, seats, session and
    every event list whose deliveries carry their position as `seq` (what the op-line parser
    assigns). Correspondence + this theorem ⇒ the monitor's predicate holds of the real code. -/
theorem holdsRecv_model (self sess : Nat) (g : Group) (seats : List Nat) (evs : List Ev)
    (hseq : ∀ i m, evs[i]? = some (Ev.recv m) → m.seq = i) :
    holdsRecv self sess g seats evs (run self sess g seats evs).idx
      (canTransition (run self sess g seats evs).idx g (run self sess g seats evs).hist)
      ((List.range 6).map fun k =>
        (received (run self sess g seats evs).hist k).map fun m => (m.sender, m.seq)) = true := by
  generalize hrun : run self sess g seats evs = s
  have hdel : ∀ m ∈ s.hist, Ev.recv m ∈ evs := by
    rw [← hrun]; exact hist_delivered self sess g seats evs ⟨0, []⟩ (by simp) evs (fun _ h => h)
  have hadm : ∀ m ∈ s.hist, admitted self sess g seats m = true := by
    rw [← hrun]; exact foldl_step_hist_admitted self sess g seats evs ⟨0, []⟩ (by simp)
  unfold holdsRecv
  rw [Bool.and_eq_true]
  constructor
  · rw [List.all_eq_true]
    intro k hk
    simp only [List.length_map, List.length_range, List.mem_range] at hk
    simp only [getD_map_range _ _ 6 k hk, Bool.and_eq_true]
    constructor
    · rw [List.all_eq_true]
      intro p hp
      obtain ⟨m, hm, rfl⟩ := List.mem_map.1 hp
      obtain ⟨hmh, hmk⟩ := received_subset s.hist k m hm
      obtain ⟨i, hi⟩ := List.mem_iff_getElem?.1 (hdel m hmh)
      have := hseq i m hi
      subst this
      simp [hi, hmk, hadm m hmh]
    · apply nodupB_of_nodup
      rw [List.map_map]
      exact received_senders_nodup s.hist k
  · unfold canTransition
    cases hk : kindOf s.idx with
    | none => rfl
    | some k =>
      have hk6 : k < 6 := by
        unfold kindOf at hk
        split at hk <;> simp at hk <;> omega
      dsimp only
      rw [getD_map_range _ _ 6 k hk6]
      simp

/-! ## result publication -/

theorem runPub_admitted (self sess : Nat) (g : Group) (seats : List Nat) (ms : List PMsg) (h0 : List PMsg)
    (h : ∀ m ∈ h0, admittedPub self sess g seats m = true ∧ m ∈ h0 ++ ms) :
    ∀ m ∈ ms.foldl (receivePub self sess g seats) h0,
      admittedPub self sess g seats m = true ∧ m ∈ h0 ++ ms := by
  induction ms generalizing h0 with
  | nil => simpa using h
  | cons a as ih =>
    simp only [List.foldl_cons]
    intro m hm
    have := ih (receivePub self sess g seats h0 a) (by
      intro x hx
      unfold receivePub at hx ⊢
      split at hx
      · rename_i ha
        rcases List.mem_append.1 hx with hx | hx
        · exact ⟨(h x hx).1, by simp [hx, ha]⟩
        · simp at hx; subst hx; exact ⟨ha, by simp [ha]⟩
      · rename_i ha
        exact ⟨(h x hx).1, by simp [ha, hx]⟩) m hm
    refine ⟨this.1, ?_⟩
    have h2 := this.2
    unfold receivePub at h2
    split at h2 <;> simp at h2 ⊢ <;> grind

/-- **publication_only_admitted**: a result signature enters the publication history — and hence
    the signature verification and the submitted result — only if it is a `resultSignatureMessage`
    of the member's session, from an operating (not misbehaved) member other than the receiver,
    whose network-authenticated key is the key of the operator seated at the claimed index AND the
    key embedded in the signature message. -/
theorem publication_only_admitted (self sess : Nat) (g : Group) (seats : List Nat) (ms : List PMsg) :
    ∀ m ∈ runPub self sess g seats ms,
      m.kind = 5 ∧ m.sender ≠ self ∧ validMembership seats m.sender m.op = true ∧
        g.isOperating m.sender = true ∧ m.sigOp = m.op ∧ m.sess = sess ∧ m ∈ ms := by
  intro m hm
  obtain ⟨ha, hmem⟩ := runPub_admitted self sess g seats ms [] (by simp) m hm
  simp only [admittedPub, shouldAccept, Bool.and_eq_true, beq_iff_eq, Bool.not_eq_true',
    beq_eq_false_iff_ne] at ha
  obtain ⟨⟨⟨a, ⟨b, c⟩, d⟩, e⟩, f⟩ := ha
  exact ⟨a, b, c, d, e, f.symm, by simpa using hmem⟩

theorem receivedPub_senders_nodup (h : List PMsg) : ((receivedPub h).map (·.sender)).Nodup :=
  received_senders_nodup _ 5

/-- The `pub` monitor accepts the model's own output for every input. -/
theorem holdsPub_model (self sess : Nat) (g : Group) (seats : List Nat) (ms : List PMsg)
    (hseq : ∀ (i : Nat) (m : PMsg), ms[i]? = some m → m.seq = i) :
    holdsPub self sess g seats ms (canTransitionPub g (runPub self sess g seats ms))
      ((receivedPub (runPub self sess g seats ms)).map fun m => (m.sender, m.seq)) = true := by
  generalize hh : runPub self sess g seats ms = h
  have hadm := publication_only_admitted self sess g seats ms
  have hraw := runPub_admitted self sess g seats ms [] (by simp)
  rw [show List.foldl (receivePub self sess g seats) [] ms = runPub self sess g seats ms from rfl, hh] at hraw
  unfold holdsPub
  simp only [Bool.and_eq_true, List.length_map]
  refine ⟨⟨?_, ?_⟩, ?_⟩
  · rw [List.all_eq_true]
    intro p hp
    obtain ⟨x, hx, rfl⟩ := List.mem_map.1 hp
    obtain ⟨hxh, _⟩ := received_subset _ 5 x hx
    obtain ⟨pm, hpm, rfl⟩ := List.mem_map.1 hxh
    obtain ⟨ha, hmem⟩ := hraw pm hpm
    obtain ⟨i, hi⟩ := List.mem_iff_getElem?.1 (by simpa using hmem : pm ∈ ms)
    have := hseq i pm hi
    subst this
    simp [PMsg.toMsg, hi, ha]
  · apply nodupB_of_nodup
    rw [List.map_map]
    exact receivedPub_senders_nodup h
  · simp [canTransitionPub]


/-! ## the real-run monitor accepts the model's predicted outcome (under A-tss) -/

theorem misbehaved_memberGroup_eq (n i : Nat) (excl : List Nat) (hn : n ≤ 255) (hi : i ∉ excl) :
    misbehaved (memberGroup n i excl) = misOf n excl := by
  apply eq_of_sorted_of_mem_iff _ _ (misbehaved_sorted _)
    ((List.pairwise_lt_range' (s := 1) (n := n)).sublist List.filter_sublist)
  intro m
  rw [mem_misbehaved_memberGroup, List.mem_filter, List.mem_range']
  constructor
  · rintro ⟨_, a, _, c, d⟩
    exact ⟨⟨m - 1, by omega, by omega⟩, by simpa using a⟩
  · rintro ⟨⟨k, hk, rfl⟩, h⟩
    have hm : 1 + 1 * k ∈ excl := by simpa using h
    exact ⟨by omega, hm, fun e => hi (e ▸ hm), by omega, by omega⟩

theorem mem_opOf (n : Nat) (excl : List Nat) (m : Nat) :
    m ∈ opOf n excl ↔ 1 ≤ m ∧ m ≤ n ∧ m ∉ excl := by
  rw [opOf, List.mem_filter, List.mem_range']
  constructor
  · rintro ⟨⟨k, hk, rfl⟩, h⟩; exact ⟨by omega, by omega, by simpa using h⟩
  · rintro ⟨a, b, c⟩; exact ⟨⟨m - 1, by omega, by omega⟩, by simpa using c⟩

theorem operating_of_op (n : Nat) (excl : List Nat) (i : Nat) (hi : i ∈ opOf n excl) :
    (memberGroup n i excl).operating = opOf n excl :=
  operating_set_common n excl i ((mem_opOf n excl i).1 hi).2.2

/-- the model's prediction of a real DKG run: who runs (`runExcluded`: the excluded members too),
    who completes (A-tss completion), the keys (`tss.pub`), the misbehaved lists, the stored keys -/
def modelRun {K : Type} [BEq K] (tss : TssKeygen K) (seed n t : Nat) (excl : List Nat)
    (runExcluded : Bool) : RunObs :=
  let runners := if runExcluded then List.range' 1 n else opOf n excl
  let views := runners.map (viewOf n excl)
  let finished := runners.filter fun i => completes t views (viewOf n excl i)
  let okm := finished.filter fun i => !excl.contains i
  let miss := okm.map fun i => misbehaved (memberGroup n i excl)
  { okm := okm
    agree := allEq (okm.map fun i => tss.pub (partyKeys seed (memberGroup n i excl)) (t - 1) (toKey seed i))
    mis := if allEq miss then miss.head? else none
    ks := okm.all fun i => partyKeys seed (memberGroup n i excl) == (opOf n excl).map (seed + ·)
      && (partyKeys seed (memberGroup n i excl)).contains (toKey seed i)
    exjoin := finished.filter fun i => excl.contains i }

theorem allEq_of_forall {α} [BEq α] [LawfulBEq α] (l : List α) (a : α) (h : ∀ x ∈ l, x = a) :
    allEq l = true := by
  cases l with
  | nil => rfl
  | cons b bs =>
    simp only [allEq, List.all_eq_true, beq_iff_eq]
    intro x hx
    rw [h x (List.mem_cons_of_mem _ hx), h b (by simp)]

theorem completes_op (n t : Nat) (excl : List Nat) (runExcluded : Bool) (i : Nat)
    (hi : i ∈ opOf n excl) (ht : t ≤ (opOf n excl).length) :
    completes t ((if runExcluded then List.range' 1 n else opOf n excl).map (viewOf n excl))
      (viewOf n excl i) = true := by
  simp only [completes, viewOf, operating_of_op n excl i hi, Bool.and_eq_true, decide_eq_true_eq,
    List.all_eq_true, List.any_eq_true, List.mem_map, beq_iff_eq]
  refine ⟨ht, fun p hp => ⟨(p, opOf n excl), ⟨p, ?_, ?_⟩, rfl, rfl⟩⟩
  · cases runExcluded
    · simpa using hp
    · have := (mem_opOf n excl p).1 hp
      simp only [if_true, List.mem_range']
      exact ⟨p - 1, by omega, by omega⟩
  · simp [viewOf, operating_of_op n excl p hp]

theorem not_completes_excluded (n t : Nat) (excl : List Nat) (runners : List Nat) (e : Nat)
    (he : e ∈ excl) (he1 : 1 ≤ e) (he2 : e ≤ n) (hne : opOf n excl ≠ []) :
    completes t (runners.map (viewOf n excl)) (viewOf n excl e) = false := by
  rw [Bool.eq_false_iff]
  intro h
  simp only [completes, viewOf, Bool.and_eq_true, decide_eq_true_eq, List.all_eq_true,
    List.any_eq_true, List.mem_map, beq_iff_eq] at h
  obtain ⟨m, hm⟩ := List.exists_mem_of_ne_nil _ hne
  have hmo := (mem_opOf n excl m).1 hm
  have hme : m ∈ (memberGroup n e excl).operating := by
    rw [operating_memberGroup, List.mem_filter, List.mem_range']
    exact ⟨⟨m - 1, by omega, by omega⟩, by simp [hmo.2.2]⟩
  obtain ⟨w, ⟨j, _, rfl⟩, hj1, hj2⟩ := h.2 m hme
  simp only at hj1 hj2
  subst hj1
  -- member j = m is not excluded: its operating set is `opOf`, which does not contain e
  rw [operating_of_op n excl j hm] at hj2
  have : e ∈ opOf n excl := by
    rw [hj2, operating_memberGroup, List.mem_filter, List.mem_range']
    exact ⟨⟨e - 1, by omega, by omega⟩, by simp⟩
  exact ((mem_opOf n excl e).1 this).2.2 he

theorem okm_eq (n t : Nat) (excl : List Nat) (runExcluded : Bool) (ht : t ≤ (opOf n excl).length) :
    (((if runExcluded then List.range' 1 n else opOf n excl).filter fun i =>
      completes t ((if runExcluded then List.range' 1 n else opOf n excl).map (viewOf n excl))
        (viewOf n excl i)).filter fun i => !excl.contains i) = opOf n excl := by
  rw [List.filter_filter]
  cases runExcluded
  · simp only [Bool.false_eq_true, if_false]
    rw [List.filter_eq_self]
    intro i hi
    have hx : excl.contains i = false := by
      have := ((mem_opOf n excl i).1 hi).2.2
      simpa using this
    have := completes_op n t excl false i hi ht
    simp only [Bool.false_eq_true, if_false] at this
    rw [hx, this]; rfl
  · simp only [if_true]
    show _ = List.filter (fun m => !excl.contains m) (List.range' 1 n)
    apply List.filter_congr
    intro i hi
    cases hx : excl.contains i with
    | true => rfl
    | false =>
      have hio : i ∈ opOf n excl := by
        unfold opOf; rw [List.mem_filter]; exact ⟨hi, by rw [hx]; rfl⟩
      have := completes_op n t excl true i hio ht
      simp only [if_true] at this
      rw [this]; rfl

/-- **holdsRun_model_under_A_tss**: for every group size (`uint8`), exclusion set, seed and honest
    threshold that the exclusion leaves intact — with or without the excluded members running — the
    `run` monitor accepts the outcome the model predicts under A-tss (`TssKeygen.agree` for the key,
    `completes` for who finishes). -/
theorem holdsRun_model_under_A_tss {K : Type} [BEq K] [LawfulBEq K] (tss : TssKeygen K)
    (seed n t : Nat) (excl : List Nat) (runExcluded : Bool) (hn : n ≤ 255)
    (ht : t ≤ (opOf n excl).length) (ht1 : 1 ≤ t) :
    holdsRun n t excl (modelRun tss seed n t excl runExcluded) = true := by
  have hne : opOf n excl ≠ [] := by
    intro h; rw [h] at ht; simp at ht; omega
  -- who finishes
  have hokm : (modelRun tss seed n t excl runExcluded).okm = opOf n excl :=
    okm_eq n t excl runExcluded ht
  have hex : (modelRun tss seed n t excl runExcluded).exjoin = [] := by
    simp only [modelRun, List.filter_filter]
    rw [List.filter_eq_nil_iff]
    intro e he
    have hr : 1 ≤ e ∧ e ≤ n := by
      cases runExcluded
      · simp only [Bool.false_eq_true, if_false] at he
        have := (mem_opOf n excl e).1 he; omega
      · simp only [if_true, List.mem_range'] at he
        obtain ⟨k, hk, rfl⟩ := he; omega
    show ¬ ((excl.contains e && completes t
      ((if runExcluded then List.range' 1 n else opOf n excl).map (viewOf n excl)) (viewOf n excl e)) = true)
    cases hx : excl.contains e with
    | false => simp
    | true =>
      rw [not_completes_excluded n t excl _ e (by simpa using hx) hr.1 hr.2 hne]
      simp
  obtain ⟨i0, hi0⟩ := List.exists_mem_of_ne_nil _ hne
  have hkeys : (modelRun tss seed n t excl runExcluded).agree = true := by
    have e : (modelRun tss seed n t excl runExcluded).agree =
        allEq ((modelRun tss seed n t excl runExcluded).okm.map fun i =>
          tss.pub (partyKeys seed (memberGroup n i excl)) (t - 1) (toKey seed i)) := rfl
    rw [e, hokm]
    apply allEq_of_forall _ (tss.pub (partyKeys seed (memberGroup n i0 excl)) (t - 1) (toKey seed i0))
    intro x hx
    obtain ⟨i, hi, rfl⟩ := List.mem_map.1 hx
    have a := (mem_opOf n excl i).1 hi
    have b := (mem_opOf n excl i0).1 hi0
    exact same_key_under_A_tss tss seed n (t - 1) excl i i0 a.2.2 b.2.2 a.1 a.2.1 b.1 b.2.1
  have hmis : (modelRun tss seed n t excl runExcluded).mis = some (misOf n excl) := by
    have e : (modelRun tss seed n t excl runExcluded).mis =
        (if allEq ((modelRun tss seed n t excl runExcluded).okm.map fun i => misbehaved (memberGroup n i excl))
         then ((modelRun tss seed n t excl runExcluded).okm.map fun i => misbehaved (memberGroup n i excl)).head?
         else none) := rfl
    rw [e, hokm]
    have hall : ∀ x ∈ (opOf n excl).map (fun i => misbehaved (memberGroup n i excl)), x = misOf n excl := by
      intro x hx
      obtain ⟨i, hi, rfl⟩ := List.mem_map.1 hx
      exact misbehaved_memberGroup_eq n i excl hn ((mem_opOf n excl i).1 hi).2.2
    rw [allEq_of_forall _ _ hall, if_pos rfl]
    cases hl : (opOf n excl).map (fun i => misbehaved (memberGroup n i excl)) with
    | nil => simp at hl; exact absurd hl hne
    | cons a as => rw [List.head?_cons, hall a (by rw [hl]; simp)]
  have hks : (modelRun tss seed n t excl runExcluded).ks = true := by
    have e : (modelRun tss seed n t excl runExcluded).ks =
        ((modelRun tss seed n t excl runExcluded).okm.all fun i =>
          partyKeys seed (memberGroup n i excl) == (opOf n excl).map (seed + ·)
          && (partyKeys seed (memberGroup n i excl)).contains (toKey seed i)) := rfl
    rw [e, hokm, List.all_eq_true]
    intro i hi
    have a := (mem_opOf n excl i).1 hi
    rw [partyKeys_eq, operating_of_op n excl i hi]
    have := (ownKey_some seed n i excl a.1 a.2.1).2
    rw [partyKeys_eq, operating_of_op n excl i hi] at this
    simp [this]
  unfold holdsRun
  rw [hex, hkeys, hmis, hks, hokm]
  simp

/-- **operating_members_one_key** (C07 as stated, over the model, under A-tss): for every group
    size, exclusion set `E` and honest threshold `t` with at least `t` members left, in a run of
    all members (the excluded ones included) exactly the non-excluded members obtain a key share;
    they all output the same wallet key and the same misbehaved list — the members of `E`,
    ascending; no member of `E` obtains a share. -/
theorem operating_members_one_key {K : Type} [BEq K] [LawfulBEq K] (tss : TssKeygen K)
    (seed n t : Nat) (excl : List Nat) (hn : n ≤ 255) (ht : t ≤ (opOf n excl).length) (ht1 : 1 ≤ t) :
    let r := modelRun tss seed n t excl true
    r.okm = opOf n excl ∧ r.exjoin = [] ∧
    (∀ i ∈ opOf n excl, ∀ j ∈ opOf n excl,
      tss.pub (partyKeys seed (memberGroup n i excl)) (t - 1) (toKey seed i) =
        tss.pub (partyKeys seed (memberGroup n j excl)) (t - 1) (toKey seed j)) ∧
    (∀ i ∈ opOf n excl, misbehaved (memberGroup n i excl) = misOf n excl) ∧
    (∀ e ∈ excl, e ∉ r.okm) := by
  intro r
  have h := holdsRun_model_under_A_tss tss seed n t excl true hn ht ht1
  have hne : opOf n excl ≠ [] := by
    intro h; rw [h] at ht; simp at ht; omega
  have hge : (opOf n excl).length ≠ 0 := by
    intro h0; exact hne (List.eq_nil_of_length_eq_zero h0)
  unfold holdsRun at h
  simp only [Bool.and_eq_true, Bool.or_eq_true, List.isEmpty_iff, Bool.not_eq_true',
    Bool.and_eq_false_iff, decide_eq_false_iff_not, beq_iff_eq] at h
  obtain ⟨⟨⟨⟨hex, _⟩, _⟩, _⟩, hok⟩ := h
  have hokm : r.okm = opOf n excl := okm_eq n t excl true ht
  refine ⟨hokm, hex, ?_, ?_, ?_⟩
  · intro i hi j hj
    have a := (mem_opOf n excl i).1 hi
    have b := (mem_opOf n excl j).1 hj
    exact same_key_under_A_tss tss seed n (t - 1) excl i j a.2.2 b.2.2 a.1 a.2.1 b.1 b.2.1
  · intro i hi
    exact misbehaved_memberGroup_eq n i excl hn ((mem_opOf n excl i).1 hi).2.2
  · intro e he hmem
    rw [hokm] at hmem
    exact ((mem_opOf n excl e).1 hmem).2.2 he

/-! ## `exec`: the real exclusion loop of `Execute` -/

theorem foldl_step_all_admitted (self sess : Nat) (g : Group) (seats : List Nat) (l : List Msg) (s : St)
    (h : ∀ m ∈ l, admitted self sess g seats m = true) :
    ((l.map Ev.recv).foldl (step self sess g seats) s).hist = s.hist ++ l := by
  induction l generalizing s with
  | nil => simp
  | cons a as ih =>
    simp only [List.map_cons, List.foldl_cons]
    rw [ih _ (fun m hm => h m (List.mem_cons_of_mem _ hm))]
    simp [step, receive, h a (by simp)]

theorem dedupFrom_of_nodup (seen : List Nat) (l : List Msg) (hn : (l.map (·.sender)).Nodup)
    (hd : ∀ m ∈ l, m.sender ∉ seen) : dedupFrom seen l = l := by
  induction l generalizing seen with
  | nil => rfl
  | cons a as ih =>
    simp only [List.map_cons, List.nodup_cons, List.mem_map, not_exists, not_and] at hn
    simp only [dedupFrom]
    rw [if_neg (by simpa using hd a (by simp))]
    congr 1
    apply ih _ hn.2
    intro m hm
    simp only [List.mem_cons, not_or]
    exact ⟨fun e => hn.1 m hm e, hd m (List.mem_cons_of_mem _ hm)⟩

theorem count_with_self (self : Nat) (p : Nat → Bool) (l : List Nat) (hn : l.Nodup) :
    (l.filter fun m => m == self || p m).length =
      (l.filter fun m => !(m == self) && p m).length + (if self ∈ l then 1 else 0) := by
  induction l with
  | nil => simp
  | cons a as ih =>
    rw [List.nodup_cons] at hn
    by_cases ha : a = self
    · subst ha
      have := ih hn.2
      simp only [hn.1, if_false, Nat.add_zero] at this
      simp [List.filter_cons, this]
    · have h1 : (a == self) = false := by simpa using ha
      have h2 : (self ∈ a :: as) ↔ self ∈ as := by
        simp [List.mem_cons, Ne.symm ha]
      simp only [List.filter_cons, h1, Bool.false_or, Bool.not_false, Bool.true_and, h2]
      cases p a <;> simp [ih hn.2] <;> omega

/-- the senders of the `exec` deliveries -/
def execSenders (n self : Nat) (excl : List Nat) : List Nat :=
  (List.range' 1 n).filter (fun m => !(m == self) && !excl.contains m)

theorem execEvents_eq (n self : Nat) (excl : List Nat) :
    execEvents n self excl = ((execSenders n self excl).map fun m => (⟨0, m, m, 1, m⟩ : Msg)).map Ev.recv := by
  simp [execEvents, execSenders, List.map_map, Function.comp_def]

/-- **holdsExec_model**: for every group size (`uint8`), member of the group and exclusion list, a
    member whose group is what `Execute` must build (`memberGroup`: exactly the excluded others
    disqualified) admits every delivered message, counts one message per other operating member and
    leaves the first state: the `exec` monitor accepts the model's prediction. No tss-lib involved. -/
theorem holdsExec_model (n self : Nat) (excl : List Nat) (hn : n ≤ 255) (h1 : 1 ≤ self) (h2 : self ≤ n) :
    holdsExec (execReached n self excl (memberGroup n self excl)) = true := by
  unfold holdsExec execReached
  rw [execEvents_eq]
  have hadm : ∀ x ∈ (execSenders n self excl).map (fun m => (⟨0, m, m, 1, m⟩ : Msg)),
      admitted self 1 (memberGroup n self excl) (List.range' 1 n) x = true := by
    intro x hx
    obtain ⟨m, hm, rfl⟩ := List.mem_map.1 hx
    rw [execSenders, List.mem_filter, List.mem_range'] at hm
    obtain ⟨⟨k, hk, hmk⟩, hp⟩ := hm
    have hm1 : 1 ≤ m := by omega
    have hm2 : m ≤ n := by omega
    simp only [Bool.and_eq_true, Bool.not_eq_true', beq_eq_false_iff_ne, ne_eq,
      List.contains_eq_mem, decide_eq_false_iff_not] at hp
    have hv : validMembership (List.range' 1 n) m m = true := by
      unfold validMembership
      have : (m + 255) % 256 = m - 1 := by omega
      rw [this, List.getElem?_range' (by omega)]
      simp; omega
    have hop : (memberGroup n self excl).isOperating m = true := by
      rw [memberGroup, isOperating_exclude, isOperating_new]
      have a : decide (1 ≤ m) = true := by simpa using hm1
      have b : decide (m ≤ n) = true := by simpa using hm2
      have c : excl.contains m = false := by simpa using hp.2
      rw [a, b, c]; simp
    have hs : (m == self) = false := by simpa using hp.1
    simp [admitted, shouldAccept, hs, hv, hop]
  unfold run
  rw [foldl_step_all_admitted self 1 _ _ _ ⟨0, []⟩ hadm]
  simp only [List.nil_append, canTransition, kindOf, received, beq_iff_eq]
  rw [List.filter_eq_self.2 (by
    intro x hx
    obtain ⟨m, _, rfl⟩ := List.mem_map.1 hx
    rfl)]
  rw [dedupFrom_of_nodup [] _ (by
    rw [List.map_map]
    simp only [Function.comp_def, List.map_id']
    exact ((List.nodup_iff_pairwise_ne.2 ((List.pairwise_lt_range' (s := 1) (n := n)).imp
      (fun h => Nat.ne_of_lt h))).sublist List.filter_sublist)) (by simp)]
  rw [List.length_map, operating_memberGroup, execSenders]
  have hc := count_with_self self (fun m => !excl.contains m) (List.range' 1 n)
    (List.nodup_iff_pairwise_ne.2 ((List.pairwise_lt_range' (s := 1) (n := n)).imp
      (fun h => Nat.ne_of_lt h)))
  have hmem : self ∈ List.range' 1 n := by
    rw [List.mem_range']; exact ⟨self - 1, by omega, by omega⟩
  rw [if_pos hmem] at hc
  exact hc.symm

theorem foldl_step_filter (self sess : Nat) (g : Group) (seats : List Nat) (l : List Msg) (s : St) :
    ((l.map Ev.recv).foldl (step self sess g seats) s).hist =
      s.hist ++ l.filter (admitted self sess g seats) := by
  induction l generalizing s with
  | nil => simp
  | cons a as ih =>
    simp only [List.map_cons, List.foldl_cons]
    rw [ih]
    by_cases h : admitted self sess g seats a = true
    · simp [step, receive, h, List.filter_cons]
    · simp [step, receive, h, List.filter_cons]

theorem length_filter_le_of_imp (p q : Nat → Bool) (l : List Nat) (h : ∀ m, q m = true → p m = true) :
    (l.filter q).length ≤ (l.filter p).length := by
  induction l with
  | nil => simp
  | cons a as ih =>
    simp only [List.filter_cons]
    cases hq : q a <;> cases hp : p a <;> simp <;> first | omega | (have := h a hq; simp [hp] at this)

theorem length_filter_eq_iff (p q : Nat → Bool) (l : List Nat) (h : ∀ m, q m = true → p m = true) :
    (l.filter q).length = (l.filter p).length ↔ ∀ m ∈ l, p m = true → q m = true := by
  induction l with
  | nil => simp
  | cons a as ih =>
    have hle := length_filter_le_of_imp p q as h
    simp only [List.filter_cons, List.mem_cons, forall_eq_or_imp]
    cases hq : q a <;> cases hp : p a <;> simp <;> first
      | exact ih
      | omega
      | (have := h a hq; simp [hp] at this)

/-- **exec_reached_iff**: whatever group `g'` the real `Execute` built for the member (the member
    itself operating, nobody inactive), after the `exec` deliveries the member leaves the first state
    if and only if no excluded other member is still operating in `g'` — i.e. iff `Execute`
    disqualified every excluded other member. (A loop that disqualifies MORE than the excluded
    members is not seen by `exec`; it is seen by the misbehaved lists of the `run`/`parties` ops.) -/
theorem exec_reached_iff (n self : Nat) (excl : List Nat) (g' : Group) (hn : n ≤ 255)
    (hsize : g'.size = n) (hself : g'.isOperating self = true) :
    execReached n self excl g' = true ↔
      ∀ m, g'.isOperating m = true → m ≠ self → m ∉ excl := by
  have hin : ∀ m, g'.isOperating m = true → m ∈ List.range' 1 n := by
    intro m hm
    simp only [Group.isOperating, Group.inGroup, Bool.and_eq_true, decide_eq_true_eq] at hm
    rw [List.mem_range']; exact ⟨m - 1, by omega, by omega⟩
  have hRn : (List.range' 1 n).Nodup :=
    List.nodup_iff_pairwise_ne.2 ((List.pairwise_lt_range' (s := 1) (n := n)).imp (fun h => Nat.ne_of_lt h))
  unfold execReached
  rw [execEvents_eq]
  unfold run
  rw [foldl_step_filter]
  have hadm : ∀ m ∈ execSenders n self excl,
      admitted self 1 g' (List.range' 1 n) (⟨0, m, m, 1, m⟩ : Msg) = g'.isOperating m := by
    intro m hm
    rw [execSenders, List.mem_filter, List.mem_range'] at hm
    obtain ⟨⟨k, hk, hmk⟩, hp⟩ := hm
    simp only [Bool.and_eq_true, Bool.not_eq_true', beq_eq_false_iff_ne, ne_eq] at hp
    have hv : validMembership (List.range' 1 n) m m = true := by
      unfold validMembership
      have : (m + 255) % 256 = m - 1 := by omega
      rw [this, List.getElem?_range' (by omega)]
      simp; omega
    have hs : (m == self) = false := by simpa using hp.1
    simp [admitted, shouldAccept, hs, hv]
  rw [List.filter_map, List.filter_congr (q := fun m => g'.isOperating m) (by
    intro m hm; exact hadm m hm)]
  simp only [List.nil_append, canTransition, kindOf, received, beq_iff_eq]
  rw [List.filter_eq_self.2 (by
    intro x hx
    obtain ⟨m, _, rfl⟩ := List.mem_map.1 hx
    rfl)]
  rw [dedupFrom_of_nodup [] _ (by
    rw [List.map_map]
    simp only [Function.comp_def, List.map_id']
    exact (hRn.sublist List.filter_sublist).sublist List.filter_sublist) (by simp)]
  rw [List.length_map, execSenders, List.filter_filter]
  have hop : g'.operating.length =
      ((List.range' 1 n).filter fun m => !(m == self) && g'.isOperating m).length + 1 := by
    unfold Group.operating
    rw [hsize, List.filter_congr (q := fun m => m == self || g'.isOperating m) (by
      intro m _
      by_cases e : m = self
      · subst e; simp [hself]
      · simp [e])]
    rw [count_with_self self (fun m => g'.isOperating m) _ hRn, if_pos (hin self hself)]
  rw [hop, Nat.add_right_cancel_iff,
    length_filter_eq_iff (fun m => !(m == self) && g'.isOperating m) _ _ (by
      intro m hm
      simp only [Bool.and_eq_true] at hm ⊢
      exact ⟨hm.2.1, hm.1⟩)]
  constructor
  · intro h m hm hms
    have := h m (hin m hm) (by simp [hms, hm])
    simp only [Bool.and_eq_true, Bool.not_eq_true', List.contains_eq_mem, decide_eq_false_iff_not] at this
    exact this.2.2
  · intro h m _ hm
    simp only [Bool.and_eq_true, Bool.not_eq_true', beq_eq_false_iff_ne, ne_eq] at hm
    simp [hm.1, hm.2, h m hm.2 hm.1]

example : (memberGroup 5 1 [3, 3, 9, 1]).operating = [1, 2, 4, 5] := by decide
example : misbehaved (memberGroup 5 1 [3, 3, 9, 1]) = [3] := by decide
example : partyKeys 1000 (memberGroup 5 2 [4]) = [1001, 1002, 1003, 1005] := by decide
/-- excluded member 3 (genuine key, right session), a foreign session, a spoofed index and a
    duplicate: only member 2's first round-one message and member 4's early round-two message stay. -/
example :
    let evs := [Ev.recv ⟨1, 3, 3, 7, 0⟩, .recv ⟨1, 2, 2, 8, 1⟩, .recv ⟨1, 2, 3, 7, 2⟩,
      .recv ⟨1, 2, 2, 7, 3⟩, .recv ⟨2, 4, 4, 7, 4⟩, .next, .recv ⟨1, 2, 2, 7, 6⟩]
    let s := run 1 7 (memberGroup 4 1 [3]) [1, 2, 3, 4] evs
    s.hist.map (·.seq) = [3, 4, 6] ∧ (received s.hist 1).map (·.seq) = [3] ∧ s.idx = 1 := by decide

end KeepVerif.C07
