import KeepVerif.Props.C01Agree
/-!
# C01 — agreement steps for phases 9 and 11, and the group key

`dq_agree_generic` is the common core of all resolution phases of the REPAIRED code: the DQ additions
of a phase are a `markDQ` fold over targets computed from public data, so two members whose target
functions agree on the common items, whose own items only name members they had already
disqualified, and whose private disqualifications are covered by the other's items, end with the
same DQ set.
-/
namespace KeepVerif.C01

/-- common core of the resolution phases -/
theorem dq_agree_generic {X : Type} (a b : St) (LA LB : List X) (TA TB : X → List Nat) (own : X → Nat)
    (hn : a.n = b.n) (hia : ∀ k, k ∈ a.ia ↔ k ∈ b.ia)
    (hdqa : ∀ k ∈ a.dq, 1 ≤ k ∧ k ≤ a.n ∧ k ∉ a.ia) (hdqb : ∀ k ∈ b.dq, 1 ≤ k ∧ k ≤ b.n ∧ k ∉ b.ia)
    (h3ab : ∀ x ∈ LA, own x ≠ b.id → x ∈ LB ∧ TA x = TB x)
    (h3ba : ∀ x ∈ LB, own x ≠ a.id → x ∈ LA ∧ TB x = TA x)
    (hownA : ∀ x ∈ LA, own x = b.id → ∀ k ∈ TA x, k ∈ b.dq)
    (hownB : ∀ x ∈ LB, own x = a.id → ∀ k ∈ TB x, k ∈ a.dq)
    (hprivA : ∀ k ∈ a.dq, k ∈ b.dq ∨ ∃ x ∈ LB, k ∈ TB x)
    (hprivB : ∀ k ∈ b.dq, k ∈ a.dq ∨ ∃ x ∈ LA, k ∈ TA x) :
    ∀ k, k ∈ ((LA.flatMap TA).foldl markDQ a).dq ↔ k ∈ ((LB.flatMap TB).foldl markDQ b).dq := by
  have key : ∀ (a b : St) (LA LB : List X) (TA TB : X → List Nat),
      a.n = b.n → (∀ k, k ∈ a.ia ↔ k ∈ b.ia) →
      (∀ k ∈ a.dq, 1 ≤ k ∧ k ≤ a.n ∧ k ∉ a.ia) →
      (∀ x ∈ LA, own x ≠ b.id → x ∈ LB ∧ TA x = TB x) →
      (∀ x ∈ LA, own x = b.id → ∀ k ∈ TA x, k ∈ b.dq) →
      (∀ k ∈ a.dq, k ∈ b.dq ∨ ∃ x ∈ LB, k ∈ TB x) →
      ∀ k, k ∈ ((LA.flatMap TA).foldl markDQ a).dq → k ∈ ((LB.flatMap TB).foldl markDQ b).dq := by
    intro a b LA LB TA TB hn hia hdqa h3ab hownA hprivA k
    rw [markDQ_fold_iff, markDQ_fold_iff]
    have opB : ∀ k, 1 ≤ k → k ≤ a.n → k ∉ a.ia → k ∉ b.dq → isOperating b k = true := by
      intro k h1 h2 h3 h4
      have : k ∉ b.ia := fun h => h3 ((hia k).2 h)
      simp [isOperating, ← hn, h1, h2, this, h4]
    rintro (hk | ⟨hk, hop⟩)
    · rcases hprivA k hk with h | ⟨x, hx, hkx⟩
      · exact Or.inl h
      · obtain ⟨r1, r2, r3⟩ := hdqa k hk
        by_cases hkb : k ∈ b.dq
        · exact Or.inl hkb
        · exact Or.inr ⟨List.mem_flatMap.2 ⟨x, hx, hkx⟩, opB k r1 r2 r3 hkb⟩
    · obtain ⟨x, hx, hkx⟩ := List.mem_flatMap.1 hk
      have hrange : 1 ≤ k ∧ k ≤ a.n ∧ k ∉ a.ia := by
        simp only [isOperating, Bool.and_eq_true, decide_eq_true_eq, Bool.not_eq_true',
          List.contains_eq_mem, decide_eq_false_iff_not] at hop
        exact ⟨hop.1.1.1, hop.1.1.2, hop.1.2⟩
      by_cases hkb : k ∈ b.dq
      · exact Or.inl hkb
      · refine Or.inr ⟨?_, opB k hrange.1 hrange.2.1 hrange.2.2 hkb⟩
        by_cases hxb : own x = b.id
        · exact absurd (hownA x hx hxb k hkx) hkb
        · obtain ⟨hxB, hT⟩ := h3ab x hx hxb
          exact List.mem_flatMap.2 ⟨x, hxB, hT ▸ hkx⟩
  intro k
  exact ⟨key a b LA LB TA TB hn hia hdqa h3ab hownA hprivA k,
    key b a LB LA TB TA hn.symm (fun k => (hia k).symm) hdqb h3ba hownB hprivB k⟩

/-! ## phase 9 -/

/-- the public data the phase 9 verdicts are computed from (`pts` = the points every accusation
    against a member is judged on, `pointsOf`) -/
structure Pub9 where
  ev : Evidence
  q : Nat
  n : Nat
  pts : Nat → List Nat

def pub9 (s : St) : Pub9 := ⟨evidence s, s.q, s.n, pointsOf s⟩

/-- members disqualified by the judge `self` for one points accusation -/
def targets9 (P : Pub9) (self : Nat) (a : Nat × Nat × Nat) : List Nat :=
  match verdict9 P.ev P.q self P.n (P.pts a.2.1) a.1 a.2.1 a.2.2 with
  | .fatal => [a.1]
  | .accuser => [a.1]
  | .accused => [a.2.1]
  | .both => [a.1, a.2.1]

theorem discardPoints_spec (s : St) (hf : s.fixed = true) (j : Nat) :
    core (discardPoints s j) = core s ∧ pub9 (discardPoints s j) = pub9 s ∧
    (discardPoints s j).status = s.status ∧ (discardPoints s j).fixAbort = s.fixAbort ∧
    (discardPoints s j).fixed = true := by
  have hp : pointsOf (discardPoints s j) = pointsOf s := funext (pointsOf_discardPoints s hf j)
  unfold discardPoints at hp ⊢
  simp only [hf, Bool.not_true, Bool.false_eq_true, if_false] at hp ⊢
  cases h : lookup j s.validPts with
  | none => simp [hf]
  | some ps =>
    simp only [h] at hp
    simp only [pub9, hp]
    simp [core, evidence, hf]

theorem markDQ_spec9 (s : St) (j : Nat) :
    pub9 (markDQ s j) = pub9 s ∧ (markDQ s j).status = s.status ∧
    (markDQ s j).fixAbort = s.fixAbort ∧ (markDQ s j).fixed = s.fixed ∧ (markDQ s j).id = s.id := by
  have hp : pointsOf (markDQ s j) = pointsOf s := funext (pointsOf_markDQ s j)
  unfold markDQ at hp ⊢
  split
  · rename_i h
    simp only [h, if_true] at hp
    simp [pub9, hp, evidence]
  · simp

theorem resolve9Step_spec (s : St) (a : Nat × Nat × Nat) (hok : s.status = .ok)
    (hfa : s.fixAbort = true) (hf : s.fixed = true) :
    core (resolve9Step s a) = core ((targets9 (pub9 s) s.id a).foldl markDQ s) ∧
    pub9 (resolve9Step s a) = pub9 s ∧ (resolve9Step s a).status = .ok ∧
    (resolve9Step s a).fixAbort = true ∧ (resolve9Step s a).fixed = true ∧
    (resolve9Step s a).id = s.id := by
  have m1 := fun j => markDQ_spec9 s j
  unfold resolve9Step targets9
  simp only [hok, ne_eq, not_true_eq_false, if_false, hfa, if_true, pub9]
  cases hv : verdict9 (evidence s) s.q s.id s.n (pointsOf s a.2.1) a.1 a.2.1 a.2.2 <;>
    simp only [List.foldl_cons, List.foldl_nil]
  · obtain ⟨p1, p2, p3, p4, p5⟩ := m1 a.1
    exact ⟨trivial, p1, p2.trans hok, p3.trans hfa, p4.trans hf, p5⟩
  · obtain ⟨p1, p2, p3, p4, p5⟩ := m1 a.1
    exact ⟨trivial, p1, p2.trans hok, p3.trans hfa, p4.trans hf, p5⟩
  · obtain ⟨p1, p2, p3, p4, p5⟩ := m1 a.2.1
    obtain ⟨d1, d2, d3, d4, d5⟩ := discardPoints_spec (markDQ s a.2.1) (p4.trans hf) a.2.1
    have hid : (discardPoints (markDQ s a.2.1) a.2.1).id = s.id := by
      have := congrArg (·.1) d1; simpa [core] using this.trans p5
    exact ⟨d1, d2.trans p1, d3.trans (p2.trans hok), d4.trans (p3.trans hfa), d5, hid⟩
  · obtain ⟨p1, p2, p3, p4, p5⟩ := m1 a.1
    obtain ⟨q1, q2, q3, q4, q5⟩ := markDQ_spec9 (markDQ s a.1) a.2.1
    obtain ⟨d1, d2, d3, d4, d5⟩ := discardPoints_spec (markDQ (markDQ s a.1) a.2.1)
      (q4.trans (p4.trans hf)) a.2.1
    have hid : (discardPoints (markDQ (markDQ s a.1) a.2.1) a.2.1).id = s.id := by
      have := congrArg (·.1) d1; simpa [core] using this.trans (q5.trans p5)
    exact ⟨d1, d2.trans (q1.trans p1), d3.trans (q2.trans (p2.trans hok)),
      d4.trans (q3.trans (p3.trans hfa)), d5, hid⟩

theorem foldl_markDQ_core (l : List Nat) (s s' : St) (h : core s = core s') :
    core (l.foldl markDQ s) = core (l.foldl markDQ s') := by
  induction l generalizing s s' with
  | nil => exact h
  | cons j rest ih => exact ih _ _ (markDQ_core s s' h j)

theorem resolve9_fold (l : List (Nat × Nat × Nat)) (s : St) (hok : s.status = .ok)
    (hfa : s.fixAbort = true) (hf : s.fixed = true) :
    core (l.foldl resolve9Step s) = core ((l.flatMap (targets9 (pub9 s) s.id)).foldl markDQ s) ∧
    (l.foldl resolve9Step s).status = .ok := by
  suffices h : ∀ (l : List (Nat × Nat × Nat)) (s s' : St), s.status = .ok → s.fixAbort = true →
      s.fixed = true → core s = core s' →
      core (l.foldl resolve9Step s) = core ((l.flatMap (targets9 (pub9 s) s.id)).foldl markDQ s') ∧
      (l.foldl resolve9Step s).status = .ok from h l s s hok hfa hf rfl
  intro l
  induction l with
  | nil => intro s s' h1 _ _ hc; exact ⟨hc, h1⟩
  | cons a rest ih =>
    intro s s' h1 h2 h3 hc
    obtain ⟨c1, c2, c3, c4, c5, c6⟩ := resolve9Step_spec s a h1 h2 h3
    simp only [List.foldl_cons, List.flatMap_cons, List.foldl_append]
    have := ih (resolve9Step s a) ((targets9 (pub9 s) s.id a).foldl markDQ s') c3 c4 c5
      (c1.trans (foldl_markDQ_core _ s s' hc))
    rw [c2, c6] at this
    exact this

/-- DQ set after the phase 9 resolution (repaired code): old one plus the operating targets of the
    verdicts, all computed on the state BEFORE the resolution (order independent). -/
theorem resolve9_dq_iff (l : List (Nat × Nat × Nat)) (s : St) (hok : s.status = .ok)
    (hfa : s.fixAbort = true) (hf : s.fixed = true) (k : Nat) :
    k ∈ (l.foldl resolve9Step s).dq ↔
      k ∈ s.dq ∨ (k ∈ l.flatMap (targets9 (pub9 s) s.id) ∧ isOperating s k = true) := by
  have h := (resolve9_fold l s hok hfa hf).1
  simp only [core, Prod.mk.injEq] at h
  rw [h.2.2.2, markDQ_fold_iff]

/-- the verdict on a third-party accusation does not depend on the judge -/
theorem targets9_public (P : Pub9) (x : Nat × Nat × Nat) (s1 s2 : Nat)
    (h1 : s1 ≠ x.2.1) (h2 : s2 ≠ x.2.1) : targets9 P s1 x = targets9 P s2 x := by
  unfold targets9
  rw [verdict9_public P.ev P.q P.n _ x.1 x.2.1 x.2.2 s1 s2 h1 h2]

/-- the accused sides against the accuser -/
theorem targets9_self (P : Pub9) (x : Nat × Nat × Nat) : targets9 P x.2.1 x = [x.1] := by
  unfold targets9
  rw [verdict_accused_self]

/-- **Phase 9 agreement step (DQ sets).**  Same shape as the phase 5 step; `pub9` includes the points
    every accusation is judged on (equal for all honest members in the repaired code:
    `resolution_agree`). -/
theorem views_agree_after_phase_9_step (a b : St) (accsA accsB : List (Nat × Nat × Nat))
    (hoka : a.status = .ok) (hokb : b.status = .ok) (hfa : a.fixAbort = true) (hfb : b.fixAbort = true)
    (hxa : a.fixed = true) (hxb : b.fixed = true)
    (hpub : pub9 a = pub9 b) (hia : ∀ k, k ∈ a.ia ↔ k ∈ b.ia)
    (hdqa : ∀ k ∈ a.dq, 1 ≤ k ∧ k ≤ a.n ∧ k ∉ a.ia) (hdqb : ∀ k ∈ b.dq, 1 ≤ k ∧ k ≤ b.n ∧ k ∉ b.ia)
    (h3ab : ∀ x ∈ accsA, x.1 ≠ b.id → x ∈ accsB) (h3ba : ∀ x ∈ accsB, x.1 ≠ a.id → x ∈ accsA)
    (htrueA : ∀ x ∈ accsA, x.1 = b.id → ∀ k ∈ targets9 (pub9 a) a.id x, k ∈ b.dq)
    (htrueB : ∀ x ∈ accsB, x.1 = a.id → ∀ k ∈ targets9 (pub9 b) b.id x, k ∈ a.dq)
    (hprivA : ∀ k ∈ a.dq, k ∈ b.dq ∨ ∃ x ∈ accsB, k ∈ targets9 (pub9 b) b.id x)
    (hprivB : ∀ k ∈ b.dq, k ∈ a.dq ∨ ∃ x ∈ accsA, k ∈ targets9 (pub9 a) a.id x)
    (hhonA : ∀ x ∈ accsB, x.2.1 = a.id → targets9 (pub9 b) b.id x = [x.1])
    (hhonB : ∀ x ∈ accsA, x.2.1 = b.id → targets9 (pub9 a) a.id x = [x.1]) :
    ∀ k, k ∈ (accsA.foldl resolve9Step a).dq ↔ k ∈ (accsB.foldl resolve9Step b).dq := by
  have hn : a.n = b.n := congrArg Pub9.n hpub
  have hcoreA := (resolve9_fold accsA a hoka hfa hxa).1
  have hcoreB := (resolve9_fold accsB b hokb hfb hxb).1
  simp only [core, Prod.mk.injEq] at hcoreA hcoreB
  intro k
  rw [hcoreA.2.2.2, hcoreB.2.2.2]
  refine dq_agree_generic a b accsA accsB (targets9 (pub9 a) a.id) (targets9 (pub9 b) b.id)
    (fun x => x.1) hn hia hdqa hdqb ?_ ?_ htrueA htrueB hprivA hprivB k
  · intro x hx hxb
    refine ⟨h3ab x hx hxb, ?_⟩
    by_cases hya : x.2.1 = a.id
    · rw [hhonA x (h3ab x hx hxb) hya, ← hya, targets9_self]
    · by_cases hyb : x.2.1 = b.id
      · rw [hhonB x hx hyb, ← hyb, targets9_self]
      · rw [hpub]; exact targets9_public _ x a.id b.id (fun h => hya h.symm) (fun h => hyb h.symm)
  · intro x hx hxa'
    refine ⟨h3ba x hx hxa', ?_⟩
    by_cases hya : x.2.1 = a.id
    · rw [hhonA x hx hya, ← hya, targets9_self]
    · by_cases hyb : x.2.1 = b.id
      · rw [hhonB x (h3ba x hx hxa') hyb, ← hyb, targets9_self]
      · rw [hpub]; exact targets9_public _ x b.id a.id (fun h => hyb h.symm) (fun h => hya h.symm)

/-! ## phase 11 -/

/-- most general form of `dq_agree_generic` -/
theorem dq_agree_generic' {X Y : Type} (a b : St) (LA : List X) (LB : List Y)
    (TA : X → List Nat) (TB : Y → List Nat)
    (hn : a.n = b.n) (hia : ∀ k, k ∈ a.ia ↔ k ∈ b.ia)
    (hdqa : ∀ k ∈ a.dq, 1 ≤ k ∧ k ≤ a.n ∧ k ∉ a.ia) (hdqb : ∀ k ∈ b.dq, 1 ≤ k ∧ k ≤ b.n ∧ k ∉ b.ia)
    (HA : ∀ x ∈ LA, ∀ k ∈ TA x, k ∈ b.dq ∨ ∃ y ∈ LB, k ∈ TB y)
    (HB : ∀ y ∈ LB, ∀ k ∈ TB y, k ∈ a.dq ∨ ∃ x ∈ LA, k ∈ TA x)
    (hprivA : ∀ k ∈ a.dq, k ∈ b.dq ∨ ∃ y ∈ LB, k ∈ TB y)
    (hprivB : ∀ k ∈ b.dq, k ∈ a.dq ∨ ∃ x ∈ LA, k ∈ TA x) :
    ∀ k, k ∈ ((LA.flatMap TA).foldl markDQ a).dq ↔ k ∈ ((LB.flatMap TB).foldl markDQ b).dq := by
  have key : ∀ {X Y : Type} (a b : St) (LA : List X) (LB : List Y) (TA : X → List Nat) (TB : Y → List Nat),
      a.n = b.n → (∀ k, k ∈ a.ia ↔ k ∈ b.ia) →
      (∀ k ∈ a.dq, 1 ≤ k ∧ k ≤ a.n ∧ k ∉ a.ia) →
      (∀ x ∈ LA, ∀ k ∈ TA x, k ∈ b.dq ∨ ∃ y ∈ LB, k ∈ TB y) →
      (∀ k ∈ a.dq, k ∈ b.dq ∨ ∃ y ∈ LB, k ∈ TB y) →
      ∀ k, k ∈ ((LA.flatMap TA).foldl markDQ a).dq → k ∈ ((LB.flatMap TB).foldl markDQ b).dq := by
    intro X Y a b LA LB TA TB hn hia hdqa HA hprivA k
    rw [markDQ_fold_iff, markDQ_fold_iff]
    have opB : ∀ k, 1 ≤ k → k ≤ a.n → k ∉ a.ia → k ∉ b.dq → isOperating b k = true := by
      intro k h1 h2 h3 h4
      have : k ∉ b.ia := fun h => h3 ((hia k).2 h)
      simp [isOperating, ← hn, h1, h2, this, h4]
    rintro (hk | ⟨hk, hop⟩)
    · rcases hprivA k hk with h | ⟨y, hy, hky⟩
      · exact Or.inl h
      · obtain ⟨r1, r2, r3⟩ := hdqa k hk
        by_cases hkb : k ∈ b.dq
        · exact Or.inl hkb
        · exact Or.inr ⟨List.mem_flatMap.2 ⟨y, hy, hky⟩, opB k r1 r2 r3 hkb⟩
    · obtain ⟨x, hx, hkx⟩ := List.mem_flatMap.1 hk
      have hrange : 1 ≤ k ∧ k ≤ a.n ∧ k ∉ a.ia := by
        simp only [isOperating, Bool.and_eq_true, decide_eq_true_eq, Bool.not_eq_true',
          List.contains_eq_mem, decide_eq_false_iff_not] at hop
        exact ⟨hop.1.1.1, hop.1.1.2, hop.1.2⟩
      rcases HA x hx k hkx with h | ⟨y, hy, hky⟩
      · exact Or.inl h
      · by_cases hkb : k ∈ b.dq
        · exact Or.inl hkb
        · exact Or.inr ⟨List.mem_flatMap.2 ⟨y, hy, hky⟩, opB k hrange.1 hrange.2.1 hrange.2.2 hkb⟩
  intro k
  exact ⟨key a b LA LB TA TB hn hia hdqa HA hprivA k,
    key b a LB LA TB TA hn.symm (fun k => (hia k).symm) hdqb HB hprivB k⟩

/-- members disqualified for one revealed key -/
def targets11 (P : Pub11) (self : Nat) (e : Nat × Nat × Nat) : List Nat :=
  match recoverDecision P self e with
  | .dq => [e.1]
  | _ => []

theorem pub11_markDQ (snap s : St) (hf : s.fix11 = true) (j : Nat) (self : Nat) (e : Nat × Nat × Nat) :
    recoverDecision (pub11 snap (markDQ s j)) self e = recoverDecision (pub11 snap s) self e := by
  have h : ∀ (s' : St), s'.fix11 = true → s'.fixKey = s.fixKey → s'.fixAbort = s.fixAbort →
      s'.recvS = s.recvS → s'.evEph = s.evEph → s'.evShares = s.evShares → s'.recvC = s.recvC →
      s'.q = s.q → recoverDecision (pub11 snap s') self e = recoverDecision (pub11 snap s) self e := by
    intro s' h1 h2 h3 h4 h5 h6 h7 h8
    simp [recoverDecision, pub11, h1, hf, h2, h3, h4, h5, h6, h7, h8]
  unfold markDQ
  split
  · exact h _ hf rfl rfl rfl rfl rfl rfl rfl
  · rfl

theorem recoverDecision_ne_fatal (P : Pub11) (hP : P.fixAbort = true) (self : Nat)
    (e : Nat × Nat × Nat) : recoverDecision P self e ≠ .fatal := by
  intro h
  unfold recoverDecision at h
  repeat' (split at h)
  all_goals simp_all

theorem targets11_markDQ (snap s : St) (hf : s.fix11 = true) (j : Nat) :
    targets11 (pub11 snap (markDQ s j)) (markDQ s j).id = targets11 (pub11 snap s) s.id := by
  have hid : (markDQ s j).id = s.id := by unfold markDQ; split <;> rfl
  funext e
  unfold targets11
  rw [hid, pub11_markDQ snap s hf]

theorem recover11_fold (snap : St) (l : List (Nat × Nat × Nat)) (s : St) (rev : Revealed)
    (hok : s.status = .ok) (hfa : s.fixAbort = true) (hf : s.fix11 = true) :
    core (l.foldl (recover11Step snap) (s, rev)).1 =
      core ((l.flatMap (targets11 (pub11 snap s) s.id)).foldl markDQ s) ∧
    (l.foldl (recover11Step snap) (s, rev)).1.status = .ok := by
  induction l generalizing s rev with
  | nil => exact ⟨rfl, hok⟩
  | cons e rest ih =>
    simp only [List.foldl_cons, List.flatMap_cons, List.foldl_append]
    have hnf := recoverDecision_ne_fatal (pub11 snap s) (by simp [pub11, hfa]) s.id e
    cases hd : recoverDecision (pub11 snap s) s.id e with
    | skip =>
      have hs : recover11Step snap (s, rev) e = (s, rev) := by simp [recover11Step, hok, hd]
      have ht : targets11 (pub11 snap s) s.id e = [] := by simp [targets11, hd]
      rw [hs]
      simp only [ht, List.foldl_nil]
      exact ih s rev hok hfa hf
    | add sv =>
      have hs : recover11Step snap (s, rev) e = (s, addShare rev e.2.1 e.1 sv) := by
        simp [recover11Step, hok, hd]
      have ht : targets11 (pub11 snap s) s.id e = [] := by simp [targets11, hd]
      rw [hs]
      simp only [ht, List.foldl_nil]
      exact ih s _ hok hfa hf
    | dq =>
      have hs : recover11Step snap (s, rev) e = (markDQ s e.1, rev) := by simp [recover11Step, hok, hd]
      have ht : targets11 (pub11 snap s) s.id e = [e.1] := by simp [targets11, hd]
      rw [hs]
      simp only [ht, List.foldl_cons, List.foldl_nil]
      have m1 : (markDQ s e.1).status = .ok := by unfold markDQ; split <;> simp [hok]
      have m2 : (markDQ s e.1).fixAbort = true := by unfold markDQ; split <;> simp [hfa]
      have m3 : (markDQ s e.1).fix11 = true := by unfold markDQ; split <;> simp [hf]
      have := ih (markDQ s e.1) rev m1 m2 m3
      rw [targets11_markDQ snap s hf] at this
      exact this
    | fatal => exact absurd hd hnf

/-- DQ set after the phase 11 recovery (repaired code): the old one plus the operating revealers
    convicted by decisions computed on the state BEFORE the recovery (order independent). -/
theorem recover11_dq_iff (snap : St) (l : List (Nat × Nat × Nat)) (s : St) (rev : Revealed)
    (hok : s.status = .ok) (hfa : s.fixAbort = true) (hf : s.fix11 = true) (k : Nat) :
    k ∈ (l.foldl (recover11Step snap) (s, rev)).1.dq ↔
      k ∈ s.dq ∨ (k ∈ l.flatMap (targets11 (pub11 snap s) s.id) ∧ isOperating s k = true) := by
  have h := (recover11_fold snap l s rev hok hfa hf).1
  simp only [core, Prod.mk.injEq] at h
  rw [h.2.2.2, markDQ_fold_iff]

/-- validation of the reveal messages (repaired code) is a `markDQ` fold over the senders of the
    messages that are invalid against the state BEFORE the validation -/
theorem validate11_dq_iff (s : St) (msgs : List (Nat × List (Nat × Nat))) (hf : s.fix11 = true) (k : Nat) :
    k ∈ (validate11 s msgs).dq ↔
      k ∈ s.dq ∨ (k ∈ ((dedup (·.1) msgs).filter (fun p => !isValidReveal s p.2)).map (·.1) ∧
        isOperating s k = true) := by
  unfold validate11
  rw [if_pos hf, markDQ_fold_iff]

/-- **Phase 11 agreement step (DQ sets), validation + recovery.**  Members `a`, `b` with equal views
    (as after phase 9 and the inactivity marking of phase 11) and DQ lists within the group, such
    that every revealer convicted by one of them is convicted by the other or already disqualified
    by it (premises `HA`, `HB`: for third-party revealers this is `recoverDecision` being a
    function of public data, for reveals naming `a` or `b` themselves the revealer's message is
    invalid for the other), end phase 11 with the same DQ set. -/
theorem views_agree_after_phase_11_step (a b snapA snapB : St) (EA EB : List (Nat × Nat × Nat))
    (revA revB : Revealed)
    (hoka : a.status = .ok) (hokb : b.status = .ok) (hfa : a.fixAbort = true) (hfb : b.fixAbort = true)
    (hxa : a.fix11 = true) (hxb : b.fix11 = true)
    (hn : a.n = b.n) (hia : ∀ k, k ∈ a.ia ↔ k ∈ b.ia) (hdq : ∀ k, k ∈ a.dq ↔ k ∈ b.dq)
    (hdqa : ∀ k ∈ a.dq, 1 ≤ k ∧ k ≤ a.n ∧ k ∉ a.ia) (hdqb : ∀ k ∈ b.dq, 1 ≤ k ∧ k ≤ b.n ∧ k ∉ b.ia)
    (HA : ∀ e ∈ EA, ∀ k ∈ targets11 (pub11 snapA a) a.id e,
      k ∈ b.dq ∨ ∃ e' ∈ EB, k ∈ targets11 (pub11 snapB b) b.id e')
    (HB : ∀ e ∈ EB, ∀ k ∈ targets11 (pub11 snapB b) b.id e,
      k ∈ a.dq ∨ ∃ e' ∈ EA, k ∈ targets11 (pub11 snapA a) a.id e') :
    ∀ k, k ∈ (EA.foldl (recover11Step snapA) (a, revA)).1.dq ↔
         k ∈ (EB.foldl (recover11Step snapB) (b, revB)).1.dq := by
  have hcoreA := (recover11_fold snapA EA a revA hoka hfa hxa).1
  have hcoreB := (recover11_fold snapB EB b revB hokb hfb hxb).1
  simp only [core, Prod.mk.injEq] at hcoreA hcoreB
  intro k
  rw [hcoreA.2.2.2, hcoreB.2.2.2]
  exact dq_agree_generic' a b EA EB _ _ hn hia hdqa hdqb HA HB
    (fun k hk => Or.inl ((hdq k).1 hk)) (fun k hk => Or.inl ((hdq k).2 hk)) k

/-- for a third-party revealer and a third-party misbehaved member the decision is a function of
    the public data only -/
theorem recoverDecision_public (P : Pub11) (e : Nat × Nat × Nat) (s1 s2 : Nat)
    (h1 : s1 ≠ e.2.1) (h2 : s2 ≠ e.2.1) : recoverDecision P s1 e = recoverDecision P s2 e := by
  unfold recoverDecision
  simp [h1, h2]

/-! ## phase 12: the group key -/

/-- the individual keys (exponents) a member adds up in `CombineGroupPublicKey` -/
def keyTerms (s : St) : List Nat :=
  s.pts.headD 0 :: (s.validPts.map (fun p => p.2.headD 0) ++
    (s.reconPriv.filter (fun p => !(s.fixKey && hasKey p.1 s.validPts))).map (·.2))

private theorem foldl_add_mod {α} (q : Nat) (g : α → Nat) (l : List α) (acc : Nat) :
    l.foldl (fun acc p => (acc + g p) % q) acc % q = (acc + (l.map g).sum) % q := by
  induction l generalizing acc with
  | nil => simp
  | cons p rest ih =>
    simp only [List.foldl_cons, List.map_cons, List.sum_cons]
    rw [ih, Nat.mod_add_mod, Nat.add_assoc]

private theorem foldl_add_lt {α} (q : Nat) (hq : 0 < q) (g : α → Nat) (l : List α) (acc : Nat)
    (h : acc < q) : l.foldl (fun acc p => (acc + g p) % q) acc < q := by
  induction l generalizing acc with
  | nil => simpa using h
  | cons p rest ih => exact ih _ (Nat.mod_lt _ hq)

private theorem mod3k (a b c q : Nat) : (a % q + b + c % q) % q = (a + (b + c)) % q := by
  calc (a % q + b + c % q) % q = ((a % q + b) % q + (c % q) % q) % q := Nat.add_mod _ _ _
    _ = ((a + b) % q + c % q) % q := by rw [Nat.mod_add_mod a q b, Nat.mod_mod]
    _ = (a + b + c) % q := (Nat.add_mod _ _ _).symm
    _ = (a + (b + c)) % q := by rw [Nat.add_assoc]

/-- `CombineGroupPublicKey`: the key exponent is the sum of the individual keys modulo `q` -/
theorem phase12_gk (s : St) (hq : 0 < s.q) : (phase12 s).gk = some ((keyTerms s).sum % s.q) := by
  simp only [phase12, keyTerms, List.sum_cons, List.sum_append]
  congr 1
  have l1 := foldl_add_lt s.q hq (fun p : Nat × List Nat => p.2.headD 0) s.validPts
    (s.pts.headD 0 % s.q) (Nat.mod_lt _ hq)
  have e1 := foldl_add_mod s.q (fun p : Nat × List Nat => p.2.headD 0) s.validPts (s.pts.headD 0 % s.q)
  have l2 := foldl_add_lt s.q hq (fun p : Nat × Nat => p.2)
    (s.reconPriv.filter (fun p => !(s.fixKey && hasKey p.1 s.validPts))) _ l1
  have e2 := foldl_add_mod s.q (fun p : Nat × Nat => p.2)
    (s.reconPriv.filter (fun p => !(s.fixKey && hasKey p.1 s.validPts)))
    (s.validPts.foldl (fun acc p => (acc + p.2.headD 0) % s.q) (s.pts.headD 0 % s.q))
  rw [← Nat.mod_eq_of_lt l2, e2, Nat.add_mod, ← Nat.mod_eq_of_lt l1, Nat.mod_mod, e1,
    Nat.mod_add_mod]
  exact mod3k _ _ _ _

private theorem perm_sum {l₁ l₂ : List Nat} (h : l₁.Perm l₂) : l₁.sum = l₂.sum := by
  induction h with
  | nil => rfl
  | cons x _ ih => simp [ih]
  | swap x y l => simp only [List.sum_cons]; omega
  | trans _ _ ih1 ih2 => exact ih1.trans ih2

/-- **Group key agreement step.**  Two members over the same modulus that hold the same individual
    keys — own zeroth coefficient, zeroth valid points of the others, reconstructed keys; as
    multisets, in any order — combine the same group public key. -/
theorem group_key_agree_step (a b : St) (hq : a.q = b.q) (hpos : 0 < a.q)
    (hterms : (keyTerms a).Perm (keyTerms b)) : (phase12 a).gk = (phase12 b).gk := by
  rw [phase12_gk a hpos, phase12_gk b (hq ▸ hpos), perm_sum hterms, hq]

/-- …in particular the order in which Go ranges over the `receivedValid…Points` and
    `reconstructedIndividualPublicKeys` maps is irrelevant. -/
theorem group_key_order_independent (s s' : St) (hq : s.q = s'.q) (hpos : 0 < s.q)
    (hpts : s.pts = s'.pts) (hfk : s.fixKey = s'.fixKey)
    (hv : s.validPts.Perm s'.validPts) (hr : s.reconPriv.Perm s'.reconPriv)
    (hk : ∀ m, hasKey m s.validPts = hasKey m s'.validPts) :
    (phase12 s).gk = (phase12 s').gk := by
  apply group_key_agree_step s s' hq hpos
  unfold keyTerms
  rw [hpts, hfk]
  refine List.Perm.cons _ (List.Perm.append (hv.map _) ?_)
  have : (fun p : Nat × Nat => !(s'.fixKey && hasKey p.1 s.validPts)) =
      (fun p : Nat × Nat => !(s'.fixKey && hasKey p.1 s'.validPts)) := by
    funext p; rw [hk]
  rw [this]
  exact (hr.filter _).map _

end KeepVerif.C01
