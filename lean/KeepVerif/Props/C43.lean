import KeepVerif.Model.C43
/-!
# C43 — The difficulty relay maintainer proves each epoch once with the right headers

Theorems over `Model/C43.lean`.  Quantification: every chain height, relay epoch answer, proof
length, header failure set, submission result, every list of later `CurrentEpoch` answers, and —
for the history theorems — every environment script (`World`) and every fuel.
The epoch length is the constant extracted from the source (`Gen/C43.lean`).
-/
namespace KeepVerif.C43

/-- T1 tie: the epoch length used by the maintainer is Bitcoin's 2016. -/
theorem epoch_length_is_2016 : epochLen = 2016 := by decide

/-- No-overflow side condition under which the `uint` window arithmetic is exact (always true
for real chains: epoch·2016 + proof length is far below 2^64, proof length ≤ epoch start). -/
structure NoWrap (ce L : Nat) : Prop where
  h1 : (ce + 1) * epochLen + L < W
  h2 : L ≤ (ce + 1) * epochLen

theorem W_pos : 0 < W := by decide

private theorem wadd_eq {a b : Nat} (h : a + b < W) : wadd a b = a + b := Nat.mod_eq_of_lt h
private theorem wmul_eq {a b : Nat} (h : a * b < W) : wmul a b = a * b := Nat.mod_eq_of_lt h
private theorem wsub_eq {a b : Nat} (hb : b ≤ a) (ha : a < W) : wsub a b = a - b := by
  unfold wsub
  have hbW : b % W = b := Nat.mod_eq_of_lt (Nat.lt_of_le_of_lt hb ha)
  rw [hbW]
  have e : a + W - b = (a - b) + W := by omega
  rw [e, Nat.add_mod_right]
  exact Nat.mod_eq_of_lt (by omega)

/-- under `NoWrap` the Go `uint` expressions equal the mathematical ones (`W`, `epochLen` stay
symbolic in the proof). -/
theorem window_exact (ce L : Nat) (hw : NoWrap ce L) :
    window ce L = ((ce + 1) * epochLen - L, (ce + 1) * epochLen + L - 1) := by
  obtain ⟨h1, h2⟩ := hw
  have hE : 0 < epochLen := by decide
  have hle : ce + 1 ≤ (ce + 1) * epochLen := Nat.le_mul_of_pos_right _ hE
  have t : target ce = ce + 1 := wadd_eq (by omega)
  have m : wmul (target ce) epochLen = (ce + 1) * epochLen := by
    rw [t]; exact wmul_eq (by omega)
  simp only [window, m]
  generalize (ce + 1) * epochLen = neh at *
  rw [wsub_eq h2 (by omega), wadd_eq h1, wsub_eq (by omega) h1]

/-- the window holds exactly `2·L` headers: `L` before the first block of the new epoch and `L`
from it on. -/
theorem window_count (ce L : Nat) (hw : NoWrap ce L) :
    headerCount (window ce L).1 (window ce L).2 = 2 * L := by
  rw [window_exact ce L hw]
  obtain ⟨h1, h2⟩ := hw
  have hE : 0 < epochLen := by decide
  have hle : ce + 1 ≤ (ce + 1) * epochLen := Nat.le_mul_of_pos_right _ hE
  simp only [headerCount]
  generalize (ce + 1) * epochLen = neh at *
  split <;> omega

theorem target_eq (ce : Nat) (h : ce + 1 < W) : target ce = ce + 1 := wadd_eq h

/-! ### one `proveNextEpoch`

`prove` is the round after the three queries, for an arbitrary header range `[first, last]` and
target epoch `E`; `proveNext` instantiates it with `window ce L` and `target ce`. -/

/-- Shape of a proving round: if the chain reached the end of the window and no header fetch
fails, the calls are exactly: fetch the window in ascending order, one `Retarget*` with that
window through the configured contract, then (on success) `CurrentEpoch` polls. -/
theorem prove_shape (dp : Bool) (hf : List Nat) (first last E h : Nat) (b : Bool)
    (polls : List (Option Nat)) (hm : h ≥ last)
    (hnf : firstFail hf first (headerCount first last) = none) :
    (prove dp hf first last E h (some b) polls).1 =
      (if headerCount first last = 0 then [] else [Ev.fetch first (headerCount first last)]) ++
      [Ev.submit (!dp) first (headerCount first last)] ++
      (if b then (polls.take (waitLoop E polls).1).map Ev.epoch else []) := by
  simp only [prove, hm, hnf, if_true]
  cases b <;> simp

/-- every submission of a round carries exactly the headers `first … last` in order, through the
configured contract. -/
theorem submits_window (dp : Bool) (hf : List Nat) (first last E h : Nat) (sub : Option Bool)
    (polls : List (Option Nat)) (r : Bool) (f c : Nat)
    (hmem : Ev.submit r f c ∈ (prove dp hf first last E h sub polls).1) :
    f = first ∧ c = headerCount first last ∧ r = !dp := by
  by_cases hm : h ≥ last
  · cases hff : firstFail hf first (headerCount first last) with
    | some k => simp [prove, hm, hff] at hmem
    | none =>
      cases sub with
      | none =>
        simp only [prove, hm, hff, if_true] at hmem
        split at hmem <;> simp at hmem
      | some b =>
        rw [prove_shape dp hf first last E h b polls hm hff] at hmem
        simp only [List.mem_append, List.mem_singleton] at hmem
        rcases hmem with (hmem | hmem) | hmem
        · split at hmem <;> simp at hmem
        · simp only [Ev.submit.injEq] at hmem
          exact ⟨hmem.2.1, hmem.2.2, hmem.1⟩
        · split at hmem
          · simp only [List.mem_map] at hmem
            obtain ⟨_, _, hc⟩ := hmem
            cases hc
          · simp at hmem
  · simp [prove, hm] at hmem

/-- C43 (a)+(b): a round run on the window of relay epoch `ce` and proof length `L` submits only
for the epoch after the relay's current one: exactly the `L` headers before and the `L` headers
from that epoch's first block (`first = (ce+1)·2016 − L`, `2·L` headers, last `(ce+1)·2016 + L − 1`). -/
theorem submits_next_epoch_only (dp : Bool) (hf : List Nat) (h ce L : Nat) (sub : Option Bool)
    (polls : List (Option Nat)) (hw : NoWrap ce L) (r : Bool) (first count : Nat)
    (hmem : Ev.submit r first count ∈
      (prove dp hf (window ce L).1 (window ce L).2 (target ce) h sub polls).1) :
    first = (ce + 1) * epochLen - L ∧ count = 2 * L ∧ first + count - 1 = (ce + 1) * epochLen + L - 1
      ∧ r = !dp := by
  have hc := window_count ce L hw
  have hx := window_exact ce L hw
  obtain ⟨k1, k2, k3⟩ := submits_window dp hf _ _ _ h sub polls r first count hmem
  rw [hc] at k2
  rw [hx] at k1
  obtain ⟨h1, h2⟩ := hw
  have hE : 0 < epochLen := by decide
  have hle : ce + 1 ≤ (ce + 1) * epochLen := Nat.le_mul_of_pos_right _ hE
  simp only at k1
  refine ⟨k1, k2, ?_, k3⟩
  generalize (ce + 1) * epochLen = neh at *
  omega

/-- C43 (c): headers are submitted **iff** all of them are mined (the chain height reached the
last header of the window: `>=`, not `>`), no header fetch fails and the history goes on. -/
theorem submits_iff_mined (dp : Bool) (hf : List Nat) (first last E h : Nat) (sub : Option Bool)
    (polls : List (Option Nat)) :
    (∃ e ∈ (prove dp hf first last E h sub polls).1, e.isSubmit = true) ↔
      h ≥ last ∧ firstFail hf first (headerCount first last) = none ∧ sub.isSome = true := by
  by_cases hm : h ≥ last
  · cases hff : firstFail hf first (headerCount first last) with
    | some k => simp [prove, hm, hff, Ev.isSubmit]
    | none =>
      cases sub with
      | none =>
        simp only [prove, hm, hff, if_true]
        split <;> simp [Ev.isSubmit]
      | some b =>
        rw [prove_shape dp hf first last E h b polls hm hff]
        simp only [hm, Option.isSome_some, and_self, iff_true]
        exact ⟨Ev.submit (!dp) first (headerCount first last), by simp, rfl⟩
  · simp [prove, hm]

/-- not yet mined ⇒ the round makes no call at all after the three queries and reports "not
proven". -/
theorem not_mined_idle (dp : Bool) (hf : List Nat) (first last E h : Nat) (sub : Option Bool)
    (polls : List (Option Nat)) (hm : h < last) :
    prove dp hf first last E h sub polls = ([], .idle, 0, 0) := by
  simp [prove, Nat.not_le.mpr hm]

/-- C43 (d): the wait ends with "proven" only at a `CurrentEpoch` answer `≥` the target; every
answer consumed before it was a successful answer below the target. -/
theorem waits_for_epoch (E : Nat) (polls : List (Option Nat)) (hp : (waitLoop E polls).2 = .proven) :
    ∃ v, polls[(waitLoop E polls).1 - 1]? = some (some v) ∧ E ≤ v ∧ 0 < (waitLoop E polls).1 ∧
      ∀ i, i < (waitLoop E polls).1 - 1 → ∃ u, polls[i]? = some (some u) ∧ u < E := by
  induction polls with
  | nil => simp [waitLoop] at hp
  | cons a rest ih =>
    cases a with
    | none => simp [waitLoop] at hp
    | some v =>
      by_cases hv : v ≥ E
      · refine ⟨v, ?_⟩
        simp [waitLoop, hv]
      · simp only [waitLoop, hv, if_false] at hp ⊢
        obtain ⟨u, h1, h2, h3, h4⟩ := ih hp
        refine ⟨u, ?_, h2, by omega, ?_⟩
        · have : (waitLoop E rest).1 + 1 - 1 = ((waitLoop E rest).1 - 1) + 1 := by omega
          rw [this]; simpa using h1
        · intro i hi
          cases i with
          | zero => exact ⟨v, by simp, by omega⟩
          | succ j =>
            have := h4 j (by omega)
            simpa using this

/-- a round reports "proven" only after a successful submission and a relay answer `≥` target. -/
theorem proven_only_after_relay_update (dp : Bool) (hf : List Nat) (first last E h : Nat)
    (sub : Option Bool) (polls : List (Option Nat))
    (hp : (prove dp hf first last E h sub polls).2.1 = .proven) :
    sub = some true ∧ (waitLoop E polls).2 = .proven := by
  by_cases hm : h ≥ last
  · cases hff : firstFail hf first (headerCount first last) with
    | some k => simp [prove, hm, hff] at hp
    | none =>
      cases sub with
      | none => simp [prove, hm, hff] at hp
      | some b =>
        cases b
        · simp [prove, hm, hff] at hp
        · simpa [prove, hm, hff] using hp
  · simp [prove, hm] at hp

/-- The next round after a proven one targets a strictly later epoch whenever the relay's
answers do not go backwards (if the relay did not advance, the wait does not end). -/
theorem next_target_strictly_later (E : Nat) (polls : List (Option Nat)) (ce' : Nat)
    (hp : (waitLoop E polls).2 = .proven)
    (hmono : ∀ v, polls[(waitLoop E polls).1 - 1]? = some (some v) → v ≤ ce') (hno : ce' + 1 < W) :
    E < target ce' := by
  obtain ⟨v, h1, h2, _, _⟩ := waits_for_epoch E polls hp
  have := hmono v h1
  rw [target_eq ce' hno]
  omega

/-! ### eligibility -/

section generic
variable (win : Nat → Nat → Nat × Nat) (tgt : Nat → Nat)


/-- C43 (e): a session in which the relay is not ready or the maintainer is not authorised (or
either query fails, or the history ends there) makes no header fetch and no submission. -/
theorem never_when_not_ready_or_unauthorised (dp : Bool) (fuel : Nat)
    (r a : List Ans) (hs es ls : List (Option Nat)) (ss : List Bool) (hf : List Nat)
    (h : r.head? ≠ some .t ∨ a.head? ≠ some .t) :
    ∀ e ∈ (session win tgt dp fuel ⟨r, a, hs, es, ls, ss, hf⟩).1, e.isSubmit = false ∧ e.isFetch = false := by
  simp only [session, verify]
  rcases r with _ | ⟨x, rs⟩
  · simp
  · cases x
    · rcases a with _ | ⟨y, as⟩
      · simp [Ev.isSubmit, Ev.isFetch]
      · cases y
        · simp at h
        · cases dp <;> simp [authEv, Ev.isSubmit, Ev.isFetch]
        · cases dp <;> simp [authEv, Ev.isSubmit, Ev.isFetch]
    · simp [Ev.isSubmit, Ev.isFetch]
    · simp [Ev.isSubmit, Ev.isFetch]

/-- the authorisation is asked through the contract that will be used for the submission. -/
theorem auth_query_matches_mode (dp : Bool)
    (r a : List Ans) (hs es ls : List (Option Nat)) (ss : List Bool) (hf : List Nat) :
    ∀ e ∈ (verify dp ⟨r, a, hs, es, ls, ss, hf⟩).1,
      (∀ x, e = .auth x → dp = true) ∧ (∀ x, e = .authRefund x → dp = false) := by
  simp only [verify]
  rcases r with _ | ⟨x, rs⟩
  · simp
  · cases x
    · rcases a with _ | ⟨y, as⟩
      · simp
      · cases y <;> cases dp <;> simp [authEv]
    · simp
    · simp

/-! ### histories: the monitor accepts every run of the model

`holds` (Model/C43) is the history form of the property: every `Retarget*` call in the call list
happens in a session that found the relay ready and the maintainer authorised, with the window
of (this round's relay answer)+1 and this round's proof length, after the chain height of this
round reached the window's end, at most once per round.  The theorems below prove it for the
call list of **every** environment script and fuel. -/

private theorem run_append (dp : Bool) (s : MonState) (a b : List Ev) :
    run win tgt dp s (a ++ b) = run win tgt dp (run win tgt dp s a) b := by simp [run, List.foldl_append]

/-- invariant kept between rounds of an eligible session. -/
private def Elig (s s' : MonState) : Prop := s'.ok = s.ok ∧ s'.eligible = true

/-- …with the outcome of the round: a round after which the loop goes on leaves no awaited epoch. -/
private def Elig2 (s s' : MonState) (o : Outcome) : Prop :=
  s'.ok = s.ok ∧ s'.eligible = true ∧ ((o = .proven ∨ o = .idle) → s'.pending = none)

private theorem waitLoop_ne_idle (E : Nat) (ps : List (Option Nat)) : (waitLoop E ps).2 ≠ .idle := by
  induction ps with
  | nil => simp [waitLoop]
  | cons p ps ih =>
    cases p with
    | none => simp [waitLoop]
    | some v => by_cases hv : v ≥ E <;> simp [waitLoop, hv, ih]

private theorem run_polls (dp : Bool) (E : Nat) (ps : List (Option Nat)) (s : MonState)
    (hk : s.k ≠ 0) (hp : s.pending = some E) :
    (run win tgt dp s ((ps.take (waitLoop E ps).1).map Ev.epoch)).ok = s.ok ∧
    (run win tgt dp s ((ps.take (waitLoop E ps).1).map Ev.epoch)).eligible = s.eligible ∧
    ((waitLoop E ps).2 = .proven → (run win tgt dp s ((ps.take (waitLoop E ps).1).map Ev.epoch)).pending = none) := by
  induction ps generalizing s with
  | nil => simp [waitLoop, run]
  | cons p ps ih =>
    cases p with
    | none => simp [waitLoop, run, monStep, hk]
    | some v =>
      by_cases hv : v ≥ E
      · simp [waitLoop, hv, run, monStep, hk, hp, clearPending]
      · simp only [waitLoop, hv, if_false, List.take_succ_cons, List.map_cons, run, List.foldl_cons]
        have hstep : monStep win tgt dp s (Ev.epoch (some v)) = { s with k := s.k + 1 } := by
          simp [monStep, hk, hp, clearPending, hv]
        rw [hstep]
        exact ih { s with k := s.k + 1 } (by simp) (by simpa using hp)

private theorem run_fetch (dp : Bool) (t : MonState) (first n : Nat) :
    run win tgt dp t (if n = 0 then [] else [Ev.fetch first n]) = t := by
  split <;> rfl

private theorem run_prove (dp : Bool) (hf : List Nat) (first last ce h : Nat) (sub : Option Bool)
    (polls : List (Option Nat)) (s : MonState) (h4 : s.k = 1) (h5 : s.eligible = true)
    (hce : s.ce = some ce) (hpn : s.pending = none)
    (good : h ≥ last → submitGood win tgt dp s (!dp) first (headerCount first last) = true) :
    Elig2 s (run win tgt dp s (prove dp hf first last (tgt ce) h sub polls).1)
      (prove dp hf first last (tgt ce) h sub polls).2.1 := by
  by_cases hm : h ≥ last
  · have good := good hm
    cases hff : firstFail hf first (headerCount first last) with
    | some k => simp [prove, hm, hff, run, monStep, Elig2, h5]
    | none =>
      cases sub with
      | none =>
        simp only [prove, hm, hff, if_true]
        rw [run_fetch win tgt]; simp [Elig2, h5]
      | some b =>
        cases b
        · simp only [prove, hm, hff, if_true]
          rw [run_append win tgt, run_fetch win tgt]
          simp [Elig2, run, monStep, good, h5]
        · simp only [prove, hm, hff, if_true]
          rw [run_append win tgt, run_append win tgt, run_fetch win tgt]
          have ht : run win tgt dp s [Ev.submit (!dp) first (headerCount first last)] =
              { s with ok := s.ok && submitGood win tgt dp s (!dp) first (headerCount first last), h := none,
                       pending := some (tgt ce) } := by
            simp [run, monStep, hce]
          rw [ht]
          have hp := run_polls win tgt dp (tgt ce) polls
            { s with ok := s.ok && submitGood win tgt dp s (!dp) first (headerCount first last), h := none,
                     pending := some (tgt ce) } (by simp [h4]) rfl
          refine ⟨by simpa [good] using hp.1, by simpa [h5] using hp.2.1, ?_⟩
          intro ho
          rcases ho with ho | ho
          · exact hp.2.2 ho
          · exact absurd ho (waitLoop_ne_idle _ _)
  · simp [prove, hm, run, Elig2, h5, hpn]

/-- `proveNextEpoch` when all three queries are answered. -/
private theorem proveNext_full (dp : Bool) (r a : List Ans) (hs es ls : List (Option Nat))
    (ss : List Bool) (hf : List Nat) (h ce L : Nat) :
    proveNext win tgt dp ⟨r, a, some h :: hs, some ce :: es, some L :: ls, ss, hf⟩ =
      ([Ev.height (some h), Ev.epoch (some ce), Ev.len (some L)] ++
          (prove dp hf (win ce L).1 (win ce L).2 (tgt ce) h ss.head? es).1,
        (prove dp hf (win ce L).1 (win ce L).2 (tgt ce) h ss.head? es).2.1,
        ⟨r, a, hs, es.drop (prove dp hf (win ce L).1 (win ce L).2 (tgt ce) h ss.head? es).2.2.2, ls,
          ss.drop (prove dp hf (win ce L).1 (win ce L).2 (tgt ce) h ss.head? es).2.2.1, hf⟩) := rfl

private theorem run_proveNext (dp : Bool) (w : World) (s : MonState) (he : s.eligible = true)
    (hpn : s.pending = none) :
    Elig2 s (run win tgt dp s (proveNext win tgt dp w).1) (proveNext win tgt dp w).2.1 := by
  obtain ⟨r, a, hts, es, ls, ss, hf⟩ := w
  rcases hts with _ | ⟨x, hs⟩
  · simp [proveNext, run, Elig2, he]
  · cases x with
    | none => simp [proveNext, run, monStep, Elig2, he, hpn]
    | some h =>
      rcases es with _ | ⟨y, es⟩
      · simp [proveNext, run, monStep, Elig2, he, hpn]
      · cases y with
        | none => simp [proveNext, run, monStep, Elig2, he, hpn]
        | some ce =>
          rcases ls with _ | ⟨z, ls⟩
          · simp [proveNext, run, monStep, Elig2, he, hpn]
          · cases z with
            | none => simp [proveNext, run, monStep, Elig2, he, hpn]
            | some L =>
              rw [proveNext_full win tgt]
              have key : ∀ (evs : List Ev) (o : Outcome),
                  Elig2 (run win tgt dp s [Ev.height (some h), Ev.epoch (some ce), Ev.len (some L)])
                    (run win tgt dp (run win tgt dp s [Ev.height (some h), Ev.epoch (some ce), Ev.len (some L)]) evs) o →
                  Elig2 s (run win tgt dp s ([Ev.height (some h), Ev.epoch (some ce), Ev.len (some L)] ++ evs)) o := by
                intro evs o hE
                rw [run_append win tgt]
                obtain ⟨t1, t2, t3⟩ := hE
                refine ⟨?_, t2, t3⟩
                rw [t1]; simp [run, monStep, hpn]
              apply key
              by_cases hm : h ≥ (win ce L).2
              · exact run_prove win tgt dp hf (win ce L).1 (win ce L).2 ce h ss.head? es
                  (run win tgt dp s [Ev.height (some h), Ev.epoch (some ce), Ev.len (some L)])
                  (by simp [run, monStep]) (by simp [run, monStep, he]) (by simp [run, monStep])
                  (by simp [run, monStep, hpn])
                  (fun _ => by simp [run, monStep, submitGood, he, hm])
              · rw [not_mined_idle dp hf _ _ _ h _ _ (Nat.not_le.mp hm)]
                simp [run, monStep, Elig2, he, hpn]

private theorem run_proveLoop (dp : Bool) (fuel : Nat) (w : World) (s : MonState)
    (he : s.eligible = true) (hpn : s.pending = none) :
    Elig s (run win tgt dp s (proveLoop win tgt dp fuel w).1) := by
  induction fuel generalizing w s with
  | zero => simp [proveLoop, run, Elig, he]
  | succ n ih =>
    simp only [proveLoop]
    have h1 := run_proveNext win tgt dp w s he hpn
    cases ho : (proveNext win tgt dp w).2.1
    · rw [ho] at h1
      simp only []; rw [run_append win tgt]
      have h2 := ih (proveNext win tgt dp w).2.2 (run win tgt dp s (proveNext win tgt dp w).1) h1.2.1 (h1.2.2 (Or.inl rfl))
      exact ⟨h2.1.trans h1.1, h2.2⟩
    · rw [ho] at h1
      simp only []; rw [run_append win tgt]
      have h2 := ih (proveNext win tgt dp w).2.2 (run win tgt dp s (proveNext win tgt dp w).1) h1.2.1 (h1.2.2 (Or.inr rfl))
      exact ⟨h2.1.trans h1.1, h2.2⟩
    · exact ⟨h1.1, h1.2.1⟩
    · exact ⟨h1.1, h1.2.1⟩

private theorem run_session (dp : Bool) (fuel : Nat) (w : World) (s : MonState) :
    (run win tgt dp s (session win tgt dp fuel w).1).ok = s.ok := by
  obtain ⟨r, a, hs, es, ls, ss, hf⟩ := w
  simp only [session, verify]
  rcases r with _ | ⟨x, rs⟩
  · simp [run]
  · cases x
    · rcases a with _ | ⟨y, as⟩
      · simp [run, monStep]
      · cases y
        · simp only []
          rw [run_append win tgt]
          have h0 : (run win tgt dp s [Ev.ready Ans.t, authEv dp Ans.t]).eligible = true ∧
              (run win tgt dp s [Ev.ready Ans.t, authEv dp Ans.t]).ok = s.ok ∧
              (run win tgt dp s [Ev.ready Ans.t, authEv dp Ans.t]).pending = none := by
            cases dp <;> simp [run, monStep, authEv]
          have := run_proveLoop win tgt dp fuel ⟨rs, as, hs, es, ls, ss, hf⟩
            (run win tgt dp s [Ev.ready Ans.t, authEv dp Ans.t]) h0.1 h0.2.2
          rw [this.1, h0.2.1]
        · cases dp <;> simp [run, monStep, authEv]
        · cases dp <;> simp [run, monStep, authEv]
    · simp [run, monStep]
    · simp [run, monStep]

private theorem run_controlLoop (dp : Bool) (fuel k : Nat) (w : World) (s : MonState) :
    (run win tgt dp s (controlLoop win tgt dp fuel k w)).ok = s.ok := by
  induction k generalizing w s with
  | zero => simp [controlLoop, run]
  | succ n ih =>
    simp only [controlLoop]
    split
    · exact run_session win tgt dp fuel w s
    · rw [run_append, ih, run_session]

/-- History theorem + soundness link for `proveEpochs`: the monitor accepts the model's call
list for every environment script. -/
theorem holds_session (dp : Bool) (fuel : Nat) (w : World) : holds win tgt dp (session win tgt dp fuel w).1 = true := by
  simp only [holds]; rw [run_session win tgt]

/-- …and for `startControlLoop` (any number of restarts). -/
theorem holds_model (dp : Bool) (fuel k : Nat) (w : World) :
    holds win tgt dp (controlLoop win tgt dp fuel k w) = true := by
  simp only [holds]; rw [run_controlLoop win tgt]

end generic

/-- the history theorem for the real window arithmetic of the code. -/
theorem holds_model_real (dp : Bool) (fuel k : Nat) (w : World) :
    holds window target dp (controlLoop window target dp fuel k w) = true :=
  holds_model window target dp fuel k w

/-! ### the monitor is not vacuous -/

-- a correct round (relay at epoch 1, L = 3, chain at 4034): accepted
example : holds window target false [.ready .t, .authRefund .t, .height (some 4034), .epoch (some 1), .len (some 3),
    .fetch 4029 6, .submit true 4029 6, .epoch (some 2)] = true := by decide
-- submitted one block too early (`>` for `>=` would wait, `>= last-1` submits early)
example : holds window target false [.ready .t, .authRefund .t, .height (some 4033), .epoch (some 1), .len (some 3),
    .fetch 4029 6, .submit true 4029 6] = false := by decide
-- asymmetric window
example : holds window target false [.ready .t, .authRefund .t, .height (some 4034), .epoch (some 1), .len (some 3),
    .fetch 4029 5, .submit true 4029 5] = false := by decide
-- current epoch instead of the next one
example : holds window target false [.ready .t, .authRefund .t, .height (some 4034), .epoch (some 1), .len (some 3),
    .fetch 2013 6, .submit true 2013 6] = false := by decide
-- not authorised
example : holds window target false [.ready .t, .authRefund .f, .height (some 4034), .epoch (some 1), .len (some 3),
    .fetch 4029 6, .submit true 4029 6] = false := by decide
-- twice in one round
example : holds window target false [.ready .t, .authRefund .t, .height (some 4034), .epoch (some 1), .len (some 3),
    .submit true 4029 6, .submit true 4029 6] = false := by decide
-- moving on after a poll below the submitted epoch, then submitting the same epoch again
example : holds window target false [.ready .t, .authRefund .t, .height (some 4034), .epoch (some 1), .len (some 3),
    .fetch 4029 6, .submit true 4029 6, .epoch (some 1), .height (some 4034), .epoch (some 1), .len (some 3),
    .fetch 4029 6, .submit true 4029 6] = false := by decide
-- the model itself on a two-epoch history
example : (controlLoop window target false 5 3 ⟨[.t], [.t], [some 4034, some 6050], [some 1, some 2, some 2, some 3],
    [some 3, some 3], [true, true], []⟩).filter Ev.isSubmit = [.submit true 4029 6, .submit true 6045 6] := by
  decide

end KeepVerif.C43
