import KeepVerif.Model.C12
import KeepVerif.Gen.C12
/-!
# C12 — Protocol messages are only accepted from the member index the sender controls

Theorems over `Model/C12.lean`.  `addr` (public key ↦ chain address) is a parameter everywhere.
-/
namespace KeepVerif.C12

/-! ## `uint8` facts -/

theorem u8_pred_toNat (idx : UInt8) :
    (idx - 1).toNat = if idx.toNat = 0 then 255 else idx.toNat - 1 := by
  have h := UInt8.toNat_sub idx 1
  have hl := UInt8.toNat_lt idx
  simp at h
  split <;> omega

/-! ## MembershipValidator -/

private theorem mem_positionsFrom (ops : List Nat) (a start p : Nat) :
    p ∈ positionsFrom ops a start ↔ start ≤ p ∧ ops[p - start]? = some a := by
  induction ops generalizing start with
  | nil => simp [positionsFrom]
  | cons o rest ih =>
    unfold positionsFrom
    by_cases ho : o = a
    · rw [if_pos ho, List.mem_cons, ih]
      constructor
      · rintro (rfl | ⟨h1, h2⟩)
        · simp [ho]
        · refine ⟨by omega, ?_⟩
          have : p - start = (p - (start + 1)) + 1 := by omega
          rw [this]; simpa using h2
      · rintro ⟨h1, h2⟩
        by_cases hp : p = start
        · exact Or.inl hp
        · right
          refine ⟨by omega, ?_⟩
          have : p - start = (p - (start + 1)) + 1 := by omega
          rw [this] at h2; simpa using h2
    · rw [if_neg ho, ih]
      constructor
      · rintro ⟨h1, h2⟩
        refine ⟨by omega, ?_⟩
        have : p - start = (p - (start + 1)) + 1 := by omega
        rw [this]; simpa using h2
      · rintro ⟨h1, h2⟩
        by_cases hp : p = start
        · subst hp; simp at h2; exact absurd h2 ho
        · refine ⟨by omega, ?_⟩
          have : p - start = (p - (start + 1)) + 1 := by omega
          rw [this] at h2; simpa using h2

/-- The validator accepts exactly when the operator list holds the sender's address at the 0-based
    position `uint8(memberID - 1)` — for every operator list, every index, every key (operators
    holding several seats included). -/
theorem valid_membership_lookup (ops : List Nat) (idx : UInt8) (a : Nat) :
    isValidMembership ops idx a = true ↔ ops[(idx - 1).toNat]? = some a := by
  unfold isValidMembership positions
  simp only
  split
  · rename_i he
    constructor
    · intro h; cases h
    · intro h
      have : (idx - 1).toNat ∈ positionsFrom ops a 0 := (mem_positionsFrom ops a 0 _).2 ⟨by omega, by simpa using h⟩
      rw [List.isEmpty_iff] at he
      rw [he] at this; cases this
  · rw [List.any_eq_true]
    constructor
    · rintro ⟨p, hp, he⟩
      have := (mem_positionsFrom ops a 0 p).1 hp
      have hpe : p = (idx - 1).toNat := by simpa using he
      rw [← hpe]; simpa using this.2
    · intro h
      exact ⟨_, (mem_positionsFrom ops a 0 _).2 ⟨by omega, by simpa using h⟩, by simp⟩

/-- C12 core (`valid_membership_iff`): with at most 255 seats, `IsValidMembership idx key` holds iff
    `1 ≤ idx ≤ n` and seat `idx` belongs to the key's address.  Covers `idx = 0` (wraps to position
    255, beyond the list) and every index above the group size. -/
theorem valid_membership_iff (ops : List Nat) (idx : UInt8) (a : Nat) (hn : ops.length ≤ 255) :
    isValidMembership ops idx a = true ↔
      1 ≤ idx.toNat ∧ idx.toNat ≤ ops.length ∧ ops[idx.toNat - 1]? = some a := by
  rw [valid_membership_lookup, u8_pred_toNat]
  split
  · rename_i h0
    constructor
    · intro h
      have := (List.getElem?_eq_some_iff.1 h).1
      omega
    · intro h; omega
  · rename_i h0
    constructor
    · intro h
      have := (List.getElem?_eq_some_iff.1 h).1
      exact ⟨by omega, by omega, h⟩
    · intro h; exact h.2.2

theorem valid_membership_eq_controls (ops : List Nat) (idx : UInt8) (a : Nat) (hn : ops.length ≤ 255) :
    isValidMembership ops idx a = controls ops idx a := by
  rw [Bool.eq_iff_iff, valid_membership_iff ops idx a hn]
  simp [controls, and_assoc]

/-- Index 0 is never a valid membership in a group of at most 255 seats. -/
theorem valid_membership_zero (ops : List Nat) (a : Nat) (hn : ops.length ≤ 255) :
    isValidMembership ops 0 a = false := by
  rw [Bool.eq_false_iff]
  intro h
  have := (valid_membership_iff ops 0 a hn).1 h
  simp at this

/-- The bound is sharp: with 256 seats the claimed index 0 wraps to position 255 and is accepted
    for the holder of the 256th seat (no `MemberIndex` names that seat). -/
theorem valid_membership_wraps_at_256 :
    isValidMembership (List.replicate 255 1 ++ [2]) 0 2 = true := by
  rw [valid_membership_lookup]
  decide

/-! ## Group -/

theorem mem_memberIndexes (size : Nat) (idx : UInt8) (hs : size ≤ 255) :
    (memberIndexes size).contains idx = true ↔ 1 ≤ idx.toNat ∧ idx.toNat ≤ size := by
  unfold memberIndexes
  rw [List.contains_iff_mem, List.mem_map]
  have hl := UInt8.toNat_lt idx
  constructor
  · rintro ⟨i, hi, rfl⟩
    have hi' : i < size := List.mem_range.1 hi
    have : (UInt8.ofNat (i + 1)).toNat = i + 1 := by
      rw [UInt8.toNat_ofNat']; omega
    omega
  · rintro ⟨h1, h2⟩
    refine ⟨idx.toNat - 1, List.mem_range.2 (by omega), ?_⟩
    apply UInt8.toNat_inj.1
    rw [UInt8.toNat_ofNat']; omega

/-- `IsOperating` (group of at most 255): a real seat that is neither inactive nor disqualified. -/
theorem isOperating_iff (g : Group) (idx : UInt8) (hs : g.size ≤ 255) :
    g.isOperating idx = true ↔
      (1 ≤ idx.toNat ∧ idx.toNat ≤ g.size) ∧ idx ∉ g.ia ∧ idx ∉ g.dq := by
  unfold Group.isOperating
  simp only [Bool.and_eq_true, Bool.not_eq_true', mem_memberIndexes g.size idx hs]
  constructor
  · rintro ⟨⟨h1, h2⟩, h3⟩
    refine ⟨h1, ?_, ?_⟩
    · intro hm; rw [← List.contains_iff_mem] at hm; rw [hm] at h2; cases h2
    · intro hm; rw [← List.contains_iff_mem] at hm; rw [hm] at h3; cases h3
  · rintro ⟨h1, h2, h3⟩
    refine ⟨⟨h1, ?_⟩, ?_⟩
    · rw [Bool.eq_false_iff]; intro hc; exact h2 (List.contains_iff_mem.1 hc)
    · rw [Bool.eq_false_iff]; intro hc; exact h3 (List.contains_iff_mem.1 hc)

/-! ## The nine admission predicates -/

/-- `admit_uniform`: every step that acts on a message (stores it, marks ready, records done, returns
    the proposal, or raises a fault against the sender) has passed the *same* membership check on
    (claimed index, authenticated network key). -/
theorem admit_uniform (addr : Nat → Nat) (s : Step) (c : Ctx) (m : Msg)
    (h : acted (admitMsg addr s c m) = true) :
    isValidMembership c.ops m.idx (addr m.netKey) = true := by
  cases hv : isValidMembership c.ops m.idx (addr m.netKey) with
  | true => rfl
  | false =>
    exfalso
    cases s <;> simp [admitMsg, shouldAccept, ofBool, acted, hv] at h
    -- follower: nested ifs
    all_goals (split at h <;> simp_all)

/-- `admit_implies_controls`: for every step, every receiver context over at most 255 seats, every
    message: if the step acts on it then the authenticated sender's address holds seat `idx`
    (`1 ≤ idx ≤ n`), the seat is not the receiver's own (as documented per step), and the step's
    bindings (operating member, session, protocol, window, wallet, signing key, attempt) hold.
    This is the statement that the monitor `holds` accepts every model outcome. -/
theorem admit_implies_controls (addr : Nat → Nat) (s : Step) (c : Ctx) (m : Msg) :
    holds addr s c m (admitMsg addr s c m) = true := by
  unfold holds
  by_cases ha : acted (admitMsg addr s c m) = true
  · have hv := admit_uniform addr s c m ha
    have hv' : c.ops.length ≤ 255 → controls c.ops m.idx (addr m.netKey) = true := by
      intro hn; rw [← valid_membership_eq_controls _ _ _ hn]; exact hv
    simp only [ha, Bool.not_true, Bool.false_eq_true, if_false]
    have hmem : (if c.ops.length > 255 then isValidMembership c.ops m.idx (addr m.netKey)
        else controls c.ops m.idx (addr m.netKey)) = true := by
      split
      · exact hv
      · exact hv' (by omega)
    rw [hmem]
    cases s <;>
      simp [admitMsg, shouldAccept, ofBool, acted, notSelf, bindings, hv] at ha ⊢ <;>
      (try (split at ha <;> simp_all)) <;>
      (try (repeat' split) <;> simp_all) <;>
      (try (by_cases hx : m.action ∈ c.allowed <;> simp_all))
  · simp [ha]

/-- readable corollary for the six state-machine steps -/
theorem state_step_admit (addr : Nat → Nat) (s : Step) (c : Ctx) (m : Msg)
    (hs : s = .gjkr ∨ s = .tecdsaDkg ∨ s = .tecdsaSigning ∨ s = .beaconResult ∨ s = .tecdsaResult ∨ s = .inactivity)
    (hn : c.ops.length ≤ 255) (hg : c.group.size ≤ 255)
    (h : admitMsg addr s c m = .stored) :
    (1 ≤ m.idx.toNat ∧ m.idx.toNat ≤ c.ops.length ∧ c.ops[m.idx.toNat - 1]? = some (addr m.netKey)) ∧
    m.idx ≠ selfIdx c ∧ m.idx.toNat ≤ c.group.size ∧ m.idx ∉ c.group.ia ∧ m.idx ∉ c.group.dq ∧
    m.session = c.session := by
  have hA : acted (admitMsg addr s c m) = true := by rw [h]; decide
  have hv := (valid_membership_iff _ _ _ hn).1 (admit_uniform addr s c m hA)
  have hop : c.group.isOperating m.idx = true ∧ m.idx ≠ selfIdx c ∧ m.session = c.session := by
    rcases hs with rfl | rfl | rfl | rfl | rfl | rfl <;>
      simp [admitMsg, shouldAccept, ofBool] at h <;>
      simp_all
  have ho := (isOperating_iff c.group m.idx hg).1 hop.1
  exact ⟨hv, hop.2.1, ho.1.2, ho.2.1, ho.2.2, hop.2.2⟩

/-- signature-carrying steps additionally bind the key inside the message to the network key -/
theorem signed_step_key_binding (addr : Nat → Nat) (s : Step) (c : Ctx) (m : Msg)
    (hs : s = .beaconResult ∨ s = .tecdsaResult ∨ s = .inactivity)
    (h : admitMsg addr s c m = .stored) : m.msgKey = m.netKey := by
  rcases hs with rfl | rfl | rfl <;>
    simp [admitMsg, ofBool] at h <;> exact h.2.1

/-- the follower returns a proposal only for the leader's own seat and an allowed action -/
theorem follower_accepts_only_leader (addr : Nat → Nat) (c : Ctx) (m : Msg)
    (h : admitMsg addr .follower c m = .stored) :
    m.idx = c.leaderID ∧ m.action ∈ c.allowed ∧ m.idx ∉ c.selfs ∧
    isValidMembership c.ops m.idx (addr m.netKey) = true ∧ m.aux1 = c.aux1 ∧ m.aux2 = c.aux2 := by
  simp only [admitMsg] at h
  repeat' split at h
  all_goals simp_all

/-- the done-check records at most one message per claimed seat, over every history -/
theorem done_one_per_sender (addr : Nat → Nat) (c : Ctx) (ms : List Msg) :
    ∀ (pre : List Msg) (m : Msg) (post : List Msg), ms = pre ++ m :: post →
      m.idx ∈ c.doneSigners → (run addr .done c ms)[pre.length]? = some .dropped := by
  induction ms generalizing c with
  | nil => intro pre m post h; simp at h
  | cons x xs ih =>
    intro pre m post h hin
    cases pre with
    | nil =>
      simp at h
      obtain ⟨rfl, rfl⟩ := h
      simp [run, admitMsg, ofBool, hin]
    | cons p pre' =>
      simp at h
      obtain ⟨rfl, rfl⟩ := h
      simp only [run, List.length_cons, List.getElem?_cons_succ]
      apply ih _ pre' m post rfl
      unfold nextCtx
      split
      · simp [hin]
      · exact hin

/-- The monitor accepts the model's outcome list for every history (every step). -/
theorem holdsRun_run (addr : Nat → Nat) (s : Step) (c : Ctx) (ms : List Msg) :
    holdsRun addr s c ms (run addr s c ms) = true := by
  induction ms generalizing c with
  | nil => simp [run, holdsRun]
  | cons m ms ih =>
    simp only [run, holdsRun, Bool.and_eq_true]
    exact ⟨admit_implies_controls addr s c m, ih _⟩

/-- the validator monitor accepts every validator verdict -/
theorem holdsMv_model (ops : List Nat) (idx : UInt8) (a : Nat) :
    holdsMv ops idx a (isValidMembership ops idx a) = true := by
  unfold holdsMv
  by_cases hn : ops.length > 255
  · simp [hn]
  · simp only [hn, if_false]
    rw [valid_membership_eq_controls _ _ _ (by omega)]
    cases controls ops idx a <;> rfl

/-! ## Facts regenerated from the source (T1): `group.MaxMemberIndex`, the width of `group.MemberIndex`,
and the two wrap-arounds the model relies on, measured by a compiled probe. -/

/-- The `UInt8` model of `MemberIndex` matches the compiled type: 8 bits, maximum 255,
    `MemberIndex(0) - 1 = 255`, `MemberIndex(255) + 1 = 0`. -/
theorem facts_tie :
    Gen.C12.maxMemberIndex = 255 ∧ Gen.C12.memberIndexBits = 8 ∧
    Gen.C12.zeroMinusOne = ((0 : UInt8) - 1).toNat ∧ Gen.C12.maxPlusOne = ((255 : UInt8) + 1).toNat := by
  decide

/-- `valid_membership_iff` stated over the regenerated bound: every group that `MemberIndex` can
    address (`n ≤ group.MaxMemberIndex`). -/
theorem valid_membership_iff_gen (ops : List Nat) (idx : UInt8) (a : Nat)
    (hn : ops.length ≤ Gen.C12.maxMemberIndex) :
    isValidMembership ops idx a = true ↔
      1 ≤ idx.toNat ∧ idx.toNat ≤ ops.length ∧ ops[idx.toNat - 1]? = some a :=
  valid_membership_iff ops idx a (by have := facts_tie.1; omega)

/-! ## One announcement window / one follower routine over a whole history -/


theorem mem_insertSorted (x : UInt8) (l : List UInt8) (y : UInt8) :
    y ∈ insertSorted x l ↔ y = x ∨ y ∈ l := by
  induction l with
  | nil => simp [insertSorted]
  | cons a as ih =>
    unfold insertSorted
    split
    · simp
    · split
      · rename_i h; subst h; simp
      · simp only [List.mem_cons, ih]
        constructor
        · rintro (h | h | h)
          · exact Or.inr (Or.inl h)
          · exact Or.inl h
          · exact Or.inr (Or.inr h)
        · rintro (h | h | h)
          · exact Or.inr (Or.inl h)
          · exact Or.inl h
          · exact Or.inr (Or.inr h)

theorem mem_sortDedup (l : List UInt8) (y : UInt8) : y ∈ sortDedup l ↔ y ∈ l := by
  induction l with
  | nil => simp [sortDedup]
  | cons a as ih =>
    simp only [sortDedup, List.foldr_cons, List.mem_cons] at ih ⊢
    rw [mem_insertSorted, ih]

/-- `ready_sound`: in ONE announcement window with any history of announcements (same key announcing
    several indices, valid ones before invalid ones, duplicates, interleaved senders), every index
    reported ready other than the member's own was announced by a message of that window whose
    authenticated key passes the membership check for exactly that index, with the window's protocol and
    session.  Earlier messages never influence the admission of later ones. -/
theorem ready_sound (addr : Nat → Nat) (c : Ctx) (ms : List Msg) (i : UInt8)
    (h : i ∈ readyList addr c ms) (hne : i ≠ selfIdx c) :
    ∃ m ∈ ms, m.idx = i ∧ isValidMembership c.ops m.idx (addr m.netKey) = true ∧
      (c.ops.length ≤ 255 → controls c.ops m.idx (addr m.netKey) = true) ∧
      m.aux1 = c.aux1 ∧ m.session = c.session := by
  unfold readyList at h
  rw [mem_sortDedup] at h
  simp only [List.mem_cons, List.mem_map, List.mem_filter, beq_iff_eq] at h
  rcases h with h | ⟨m, ⟨hm, hs⟩, rfl⟩
  · exact absurd h hne
  · have hA : acted (admitMsg addr .announcer c m) = true := by rw [hs]; decide
    have hv := admit_uniform addr .announcer c m hA
    refine ⟨m, hm, rfl, hv, fun hn => by rw [← valid_membership_eq_controls _ _ _ hn]; exact hv, ?_⟩
    simp only [admitMsg, ofBool] at hs
    split at hs
    · rename_i hc; simp at hc; exact ⟨hc.1.2, hc.2⟩
    · cases hs

/-- the ready-list monitor accepts the model's ready list for every history -/
theorem holdsReady_model (addr : Nat → Nat) (c : Ctx) (ms : List Msg) :
    holdsReady addr c ms (readyList addr c ms) = true := by
  unfold holdsReady
  rw [Bool.and_eq_true]
  constructor
  · rw [List.contains_iff_mem]; unfold readyList; rw [mem_sortDedup]; simp
  · rw [List.all_eq_true]
    intro i hi
    by_cases hs : i = selfIdx c
    · simp [hs]
    · unfold readyList at hi
      rw [mem_sortDedup] at hi
      simp only [List.mem_cons, List.mem_map, List.mem_filter, beq_iff_eq] at hi
      rcases hi with hi | ⟨m, ⟨hm, hst⟩, rfl⟩
      · exact absurd hi hs
      · simp only [Bool.or_eq_true, beq_iff_eq, hs, false_or, List.any_eq_true, Bool.and_eq_true]
        exact ⟨m, hm, rfl, by have := admit_implies_controls addr .announcer c m; rwa [hst] at this⟩

theorem followerTrace_spec (addr : Nat → Nat) (c : Ctx) (ms : List Msg) (start : Nat)
    (o : Outcome) (pos : Nat) (h : (o, pos) ∈ followerTrace addr c ms start) :
    start ≤ pos ∧ ∃ m, ms[pos - start]? = some m ∧ admitMsg addr .follower c m = o ∧ o ≠ .dropped := by
  induction ms generalizing start with
  | nil => simp [followerTrace] at h
  | cons m ms ih =>
    have shift : ∀ {p}, start + 1 ≤ p → (m :: ms)[p - start]? = ms[p - (start + 1)]? := by
      intro p hp
      have : p - start = (p - (start + 1)) + 1 := by omega
      rw [this]; simp
    unfold followerTrace at h
    split at h
    · obtain ⟨h1, x, h2, h3⟩ := ih _ h
      exact ⟨by omega, x, by rw [shift h1]; exact h2, h3⟩
    · rename_i hs
      simp only [List.mem_singleton, Prod.mk.injEq] at h
      obtain ⟨rfl, rfl⟩ := h
      exact ⟨Nat.le_refl _, m, by simp, hs, by decide⟩
    · rename_i o' hnd hns
      simp only [List.mem_cons, Prod.mk.injEq] at h
      rcases h with ⟨rfl, rfl⟩ | h
      · exact ⟨Nat.le_refl _, m, by simp, rfl, hnd⟩
      · obtain ⟨h1, x, h2, h3⟩ := ih _ h
        exact ⟨by omega, x, by rw [shift h1]; exact h2, h3⟩

/-- `follower_trace_sound`: in ONE follower routine over any history, every fault raised and the
    proposal returned stem from a message whose authenticated sender controls the claimed seat (same
    window, same wallet); the returned proposal comes from the leader's own seat with an allowed
    action. -/
theorem follower_trace_sound (addr : Nat → Nat) (c : Ctx) (ms : List Msg) (o : Outcome) (pos : Nat)
    (h : (o, pos) ∈ followerTrace addr c ms 0) :
    ∃ m, ms[pos]? = some m ∧ holds addr .follower c m o = true ∧
      isValidMembership c.ops m.idx (addr m.netKey) = true ∧ m.idx ∉ c.selfs := by
  obtain ⟨_, m, hm, ha, hnd⟩ := followerTrace_spec addr c ms 0 o pos h
  have hA : acted (admitMsg addr .follower c m) = true := by
    rw [ha]; cases o <;> first | rfl | exact absurd rfl hnd
  refine ⟨m, by simpa using hm, by have := admit_implies_controls addr .follower c m; rwa [ha] at this,
    admit_uniform addr .follower c m hA, ?_⟩
  intro hin
  simp only [admitMsg] at ha
  rw [if_pos (List.contains_iff_mem.2 hin)] at ha
  exact hnd ha.symm

/-- the follower monitor accepts the model's run on every history -/
theorem holdsTrace_model (addr : Nat → Nat) (c : Ctx) (ms : List Msg) :
    holdsTrace addr c ms (traceFaults (followerTrace addr c ms 0))
      (traceAccepted (followerTrace addr c ms 0)) = true := by
  unfold holdsTrace
  rw [Bool.and_eq_true]
  constructor
  · rw [List.all_eq_true]
    intro o ho
    simp only [traceFaults, List.mem_map, List.mem_filter] at ho
    obtain ⟨⟨o', pos⟩, ⟨hmem, hns⟩, rfl⟩ := ho
    obtain ⟨m, hm, hh, _, _⟩ := follower_trace_sound addr c ms o' pos hmem
    obtain ⟨_, _, _, _, hnd⟩ := followerTrace_spec addr c ms 0 o' pos hmem
    rw [Bool.and_eq_true]
    constructor
    · cases o' <;> simp_all
    · rw [List.any_eq_true]
      exact ⟨m, List.mem_of_getElem? hm, hh⟩
  · cases hf : (followerTrace addr c ms 0).find? (fun e => e.1 == .stored) with
    | none => simp [traceAccepted, hf]
    | some e =>
      obtain ⟨o, pos⟩ := e
      have hmem := List.mem_of_find?_eq_some hf
      have ho : o = .stored := by simpa using List.find?_some hf
      subst ho
      obtain ⟨m, hm, hh, _, _⟩ := follower_trace_sound addr c ms _ pos hmem
      simp [traceAccepted, hf, hm, hh]

/-- after `MarkInactiveMembers`, a member other than the receiver is operating iff it was operating and
    sent a message in the previous phase: silent members are excluded before the accusers snapshot. -/
theorem isOperating_markInactive (g : Group) (self idx : UInt8) (active : List Nat) (hne : idx ≠ self) :
    (markInactive g self active).isOperating idx = true ↔
      g.isOperating idx = true ∧ idx.toNat ∈ active := by
  simp [markInactive, Group.isOperating, hne]
  constructor
  · rintro ⟨⟨h1, h2, h3⟩, h4⟩
    rcases h3 with h3 | h3
    · exact absurd h1 h3
    · exact ⟨⟨⟨h1, h2⟩, h4⟩, h3⟩
  · rintro ⟨⟨⟨h1, h2⟩, h4⟩, h5⟩
    exact ⟨⟨h1, h2, Or.inr h5⟩, h4⟩

/-! ## The follower's leader id (`wallet.membersByOperator(leader)[0]`) -/

theorem positionsFrom_ge (ops : List Nat) (a start p : Nat) (h : p ∈ positionsFrom ops a start) : start ≤ p := by
  induction ops generalizing start with
  | nil => simp [positionsFrom] at h
  | cons o rest ih =>
    unfold positionsFrom at h
    split at h
    · simp only [List.mem_cons] at h
      rcases h with h | h
      · omega
      · have := ih _ h; omega
    · have := ih _ h; omega

theorem positionsFrom_sorted (ops : List Nat) (a start : Nat) :
    (positionsFrom ops a start).Pairwise (· < ·) := by
  induction ops generalizing start with
  | nil => simp [positionsFrom]
  | cons o rest ih =>
    unfold positionsFrom
    split
    · rw [List.pairwise_cons]
      exact ⟨fun q hq => by have := positionsFrom_ge rest a (start + 1) q hq; omega, ih _⟩
    · exact ih _

theorem positionsFrom_spec (ops : List Nat) (a start p : Nat) :
    p ∈ positionsFrom ops a start ↔ start ≤ p ∧ ops[p - start]? = some a := by
  induction ops generalizing start with
  | nil => simp [positionsFrom]
  | cons o rest ih =>
    have shift : ∀ {q}, start + 1 ≤ q → (o :: rest)[q - start]? = rest[q - (start + 1)]? := by
      intro q hq
      have : q - start = (q - (start + 1)) + 1 := by omega
      rw [this]; simp
    unfold positionsFrom
    by_cases ho : o = a
    · rw [if_pos ho, List.mem_cons, ih]
      constructor
      · rintro (rfl | ⟨h1, h2⟩)
        · simp [ho]
        · exact ⟨by omega, by rw [shift h1]; exact h2⟩
      · rintro ⟨h1, h2⟩
        by_cases hp : p = start
        · exact Or.inl hp
        · have h1' : start + 1 ≤ p := by omega
          exact Or.inr ⟨h1', by rw [← shift h1']; exact h2⟩
    · rw [if_neg ho, ih]
      constructor
      · rintro ⟨h1, h2⟩
        exact ⟨by omega, by rw [shift h1]; exact h2⟩
      · rintro ⟨h1, h2⟩
        by_cases hp : p = start
        · subst hp; simp at h2; exact absurd h2 ho
        · have h1' : start + 1 ≤ p := by omega
          exact ⟨h1', by rw [← shift h1']; exact h2⟩

/-- the running minimum of `slices.Sort(...)[0]` -/
theorem foldl_min_spec (xs : List UInt8) (x : UInt8) :
    let r := xs.foldl (fun a b => if b.toNat < a.toNat then b else a) x
    (r = x ∨ r ∈ xs) ∧ r.toNat ≤ x.toNat ∧ ∀ y ∈ xs, r.toNat ≤ y.toNat := by
  induction xs generalizing x with
  | nil => simp
  | cons y ys ih =>
    simp only [List.foldl_cons]
    by_cases hc : y.toNat < x.toNat
    · simp only [hc, if_true]
      obtain ⟨h1, h2, h3⟩ := ih y
      refine ⟨Or.inr ?_, by omega, ?_⟩
      · rcases h1 with h1 | h1
        · rw [h1]; simp
        · exact List.mem_cons_of_mem _ h1
      · intro z hz
        simp only [List.mem_cons] at hz
        rcases hz with rfl | hz
        · exact h2
        · exact h3 z hz
    · simp only [hc, if_false]
      obtain ⟨h1, h2, h3⟩ := ih x
      refine ⟨?_, h2, ?_⟩
      · rcases h1 with h1 | h1
        · exact Or.inl h1
        · exact Or.inr (List.mem_cons_of_mem _ h1)
      · intro z hz
        simp only [List.mem_cons] at hz
        rcases hz with rfl | hz
        · omega
        · exact h3 z hz

/-- `firstSeat_min` (every group size): the leader id is one of the leader's wrapped member indexes
    `MemberIndex(p+1)` and is the smallest of them — what `slices.Sort(members)[0]` yields. -/
theorem firstSeat_min (ops : List Nat) (leader : Nat) (s : UInt8) (h : firstSeat ops leader = some s) :
    (∃ p ∈ positions ops leader, s = UInt8.ofNat (p + 1)) ∧
    ∀ p ∈ positions ops leader, s.toNat ≤ (UInt8.ofNat (p + 1)).toNat := by
  unfold firstSeat at h
  split at h
  · cases h
  · rename_i x xs heq
    simp only [Option.some.injEq] at h
    have hs := foldl_min_spec xs x
    simp only at hs
    rw [h] at hs
    obtain ⟨h1, h2, h3⟩ := hs
    have hmem : s ∈ (positions ops leader).map (fun p => UInt8.ofNat (p + 1)) := by
      rw [heq]; rcases h1 with h1 | h1
      · rw [h1]; simp
      · exact List.mem_cons_of_mem _ h1
    constructor
    · obtain ⟨p, hp, rfl⟩ := List.mem_map.1 hmem
      exact ⟨p, hp, rfl⟩
    · intro p hp
      have : UInt8.ofNat (p + 1) ∈ x :: xs := by rw [← heq]; exact List.mem_map.2 ⟨p, hp, rfl⟩
      simp only [List.mem_cons] at this
      rcases this with h' | h'
      · rw [h']; exact h2
      · exact h3 _ h'

theorem firstSeat_isSome_iff (ops : List Nat) (leader : Nat) :
    (firstSeat ops leader).isSome = true ↔ leader ∈ ops := by
  unfold firstSeat
  constructor
  · intro h
    split at h
    · cases h
    · rename_i x xs heq
      cases hp : positions ops leader with
      | nil => rw [hp] at heq; cases heq
      | cons p ps =>
        have : p ∈ positionsFrom ops leader 0 := by unfold positions at hp; rw [hp]; simp
        have := (positionsFrom_spec ops leader 0 p).1 this
        exact List.mem_of_getElem? this.2
  · intro h
    obtain ⟨i, hi, hget⟩ := List.getElem_of_mem h
    have : i ∈ positions ops leader :=
      (positionsFrom_spec ops leader 0 i).2 ⟨by omega, by simp [List.getElem?_eq_getElem hi, hget]⟩
    split
    · rename_i heq
      rw [List.map_eq_nil_iff] at heq
      rw [heq] at this; cases this
    · rfl

/-- `firstSeat_le255`: with at most 255 seats the leader id is the leader operator's LOWEST member index:
    seat `s` belongs to the leader and no lower seat does. -/
theorem firstSeat_le255 (ops : List Nat) (leader : Nat) (s : UInt8) (hn : ops.length ≤ 255)
    (h : firstSeat ops leader = some s) :
    1 ≤ s.toNat ∧ s.toNat ≤ ops.length ∧ ops[s.toNat - 1]? = some leader ∧
    ∀ j, j < s.toNat - 1 → ops[j]? ≠ some leader := by
  obtain ⟨⟨p, hp, rfl⟩, hmin⟩ := firstSeat_min ops leader s h
  have hspec : ∀ q, q ∈ positions ops leader ↔ ops[q]? = some leader := by
    intro q
    have := positionsFrom_spec ops leader 0 q
    simpa [positions] using this
  have hlt : ∀ q, q ∈ positions ops leader → q < ops.length := by
    intro q hq
    exact (List.getElem?_eq_some_iff.1 ((hspec q).1 hq)).1
  have hw : ∀ q, q ∈ positions ops leader → (UInt8.ofNat (q + 1)).toNat = q + 1 := by
    intro q hq
    have := hlt q hq
    rw [UInt8.toNat_ofNat']; omega
  rw [hw p hp]
  refine ⟨by omega, by have := hlt p hp; omega, by simpa using (hspec p).1 hp, ?_⟩
  intro j hj hc
  have hjm := (hspec j).2 hc
  have := hmin j hjm
  rw [hw p hp, hw j hjm] at this
  omega

/-- `follower_accepts_only_leader_seat`: the follower routine, with `leaderID` computed as the code does
    (`membersByOperator(leader)[0]`), returns a proposal only for a message that claims the leader
    operator's lowest seat, sent by the network key whose address is the leader (n ≤ 255). -/
theorem follower_accepts_only_leader_seat (addr : Nat → Nat) (c : Ctx) (m : Msg) (leader : Nat)
    (hn : c.ops.length ≤ 255) (hl : firstSeat c.ops leader = some c.leaderID)
    (h : admitMsg addr .follower c m = .stored) :
    addr m.netKey = leader ∧ c.ops[m.idx.toNat - 1]? = some leader ∧
    (∀ j, j < m.idx.toNat - 1 → c.ops[j]? ≠ some leader) ∧
    m.action ∈ c.allowed ∧ m.idx ∉ c.selfs := by
  obtain ⟨hid, hact, hself, hv, _, _⟩ := follower_accepts_only_leader addr c m h
  obtain ⟨_, _, hseat, hlow⟩ := firstSeat_le255 c.ops leader c.leaderID hn hl
  have hctl := (valid_membership_iff c.ops m.idx (addr m.netKey) hn).1 hv
  rw [hid] at hctl ⊢
  have : some (addr m.netKey) = some leader := by rw [← hctl.2.2, hseat]
  exact ⟨by simpa using this, hseat, hlow, hact, by rw [← hid]; exact hself⟩

/-! ## Session identifiers: every attempt of the signing retry loop is its own session -/

theorem ofDigits_digitsAux (b : Nat) (hb : 2 ≤ b) : ∀ fuel n, n ≤ fuel → ofDigits b (digitsAux b fuel n) = n := by
  intro fuel
  induction fuel with
  | zero => intro n hn; have : n = 0 := by omega
            subst this; simp [digitsAux, ofDigits]
  | succ f ih =>
    intro n hn
    unfold digitsAux
    by_cases h0 : n = 0
    · simp [h0, ofDigits]
    · rw [if_neg h0]
      have hlt : n / b < n := Nat.div_lt_self (by omega) (by omega)
      simp only [ofDigits]
      rw [ih (n / b) (by omega)]
      exact Nat.mod_add_div n b

theorem ofDigits_digits (b n : Nat) (hb : 2 ≤ b) : ofDigits b (digits b n) = n :=
  ofDigits_digitsAux b hb n n (Nat.le_refl n)

theorem digitsAux_lt (b : Nat) (hb : 0 < b) : ∀ fuel n, ∀ d ∈ digitsAux b fuel n, d < b := by
  intro fuel
  induction fuel with
  | zero => intro n d hd; simp [digitsAux] at hd
  | succ f ih =>
    intro n d hd
    unfold digitsAux at hd
    split at hd
    · cases hd
    · simp only [List.mem_cons] at hd
      rcases hd with rfl | hd
      · exact Nat.mod_lt _ hb
      · exact ih _ d hd

theorem digitVal_digitChar : ∀ d, d < 16 → digitVal (digitChar d) = d := by decide
theorem digitChar_ne_dash : ∀ d, d < 16 → digitChar d ≠ '-' := by decide

theorem map_digitVal_digitChar (ds : List Nat) (h : ∀ d ∈ ds, d < 16) :
    (ds.map digitChar).map digitVal = ds := by
  induction ds with
  | nil => rfl
  | cons d ds ih =>
    simp only [List.map_cons]
    rw [digitVal_digitChar d (h d (by simp)), ih (fun x hx => h x (by simp [hx]))]

theorem showBase_inj (b : Nat) (hb : 2 ≤ b) (hb16 : b ≤ 16) (m n : Nat) (hm : 0 < m) (hn : 0 < n)
    (h : showBase b m = showBase b n) : m = n := by
  unfold showBase at h
  rw [if_neg (by omega), if_neg (by omega)] at h
  have hlt : ∀ k, ∀ d ∈ (digits b k).reverse, d < 16 := by
    intro k d hd
    have := digitsAux_lt b (by omega) k k d (by simpa [digits] using hd)
    omega
  have h' := congrArg (List.map digitVal) h
  rw [map_digitVal_digitChar _ (hlt m), map_digitVal_digitChar _ (hlt n)] at h'
  have h'' : digits b m = digits b n := by simpa using congrArg List.reverse h'
  rw [← ofDigits_digits b m hb, ← ofDigits_digits b n hb, h'']

theorem showBase_no_dash (b : Nat) (hb : 0 < b) (hb16 : b ≤ 16) (n : Nat) : '-' ∉ showBase b n := by
  unfold showBase
  split
  · decide
  · intro hmem
    obtain ⟨d, hd, he⟩ := List.mem_map.1 hmem
    have := digitsAux_lt b hb n n d (by simpa [digits] using hd)
    exact digitChar_ne_dash d (by omega) he

theorem split_at_dash (xs xs' ys ys' : List Char) (h1 : '-' ∉ xs) (h2 : '-' ∉ xs')
    (h : xs ++ '-' :: ys = xs' ++ '-' :: ys') : xs = xs' ∧ ys = ys' := by
  induction xs generalizing xs' with
  | nil =>
    cases xs' with
    | nil => simpa using h
    | cons c cs =>
      simp only [List.nil_append, List.cons_append, List.cons.injEq] at h
      exact absurd (by rw [← h.1]; simp) h2
  | cons a as ih =>
    cases xs' with
    | nil =>
      simp only [List.nil_append, List.cons_append, List.cons.injEq] at h
      exact absurd (by rw [h.1]; simp) h1
    | cons c cs =>
      simp only [List.cons_append, List.cons.injEq] at h
      obtain ⟨r1, r2⟩ := ih cs (fun hm => h1 (List.mem_cons_of_mem _ hm)) (fun hm => h2 (List.mem_cons_of_mem _ hm)) h.2
      exact ⟨by rw [h.1, r1], r2⟩

/-- `session_id_injective`: the session identifier `"<message hex>-<attempt>"` determines both the
    message and the attempt number (hexadecimal and decimal digits contain no '-'): different attempts
    of the retry loop, and different messages, never share a session. -/
theorem session_id_injective (m a m' a' : Nat) (hm : 0 < m) (hm' : 0 < m') (ha : 0 < a) (ha' : 0 < a')
    (h : sessionId m a = sessionId m' a') : m = m' ∧ a = a' := by
  have hc : sessionChars m a = sessionChars m' a' := by
    have := congrArg String.toList h
    simpa [sessionId] using this
  obtain ⟨h1, h2⟩ := split_at_dash _ _ _ _ (showBase_no_dash 16 (by omega) (by omega) m)
    (showBase_no_dash 16 (by omega) (by omega) m') hc
  exact ⟨showBase_inj 16 (by omega) (by omega) m m' hm hm' h1,
    showBase_inj 10 (by omega) (by omega) a a' ha ha' h2⟩

example : sessionId 100 1 = "64-1" := by decide
example : sessionId 4096 12 = "1000-12" := by decide

/-! ## Non-vacuity and monitor sanity -/

def exCtx : Ctx :=
  { ops := [7, 8, 7], group := ⟨3, [], []⟩, selfs := [1], session := 5, aux1 := 0, aux2 := 0,
    leaderID := 2, allowed := [1], doneSigners := [] }
def exMsg (idx : UInt8) (key : Nat) : Msg :=
  { idx := idx, netKey := key, msgKey := key, session := 5, aux1 := 0, aux2 := 0, action := 1, hasSig := true }

-- multi-seat operator 7 holds seats 1 and 3; seat 3 is admitted, seat 2 with key 7 is not, index 0 is not
example : admitMsg id .gjkr exCtx (exMsg 3 7) = .stored := by decide
example : admitMsg id .gjkr exCtx (exMsg 2 7) = .dropped := by decide
example : admitMsg id .gjkr exCtx (exMsg 0 7) = .dropped := by decide
example : admitMsg id .gjkr exCtx (exMsg 1 7) = .dropped := by decide   -- own seat
example : admitMsg id .follower exCtx (exMsg 3 7) = .faultImpersonation := by decide
example : admitMsg id .follower exCtx (exMsg 2 8) = .stored := by decide
-- leader id: first seat up to 255 seats; above, the smallest wrapped `MemberIndex` (as `slices.Sort` yields)
example : firstSeat [7, 8, 7] 7 = some 1 := by decide
example : firstSeat [7, 8, 8] 8 = some 2 := by decide
set_option maxRecDepth 8000 in
example : firstSeat (List.replicate 253 1 ++ [2, 2, 2, 2]) 2 = some 0 := by decide
-- the monitor rejects an implementation that stores a spoofed / own / wrong-session message
example : holds id .gjkr exCtx (exMsg 2 7) .stored = false := by decide
example : holds id .gjkr exCtx (exMsg 0 7) .stored = false := by decide
example : holds id .tecdsaResult exCtx { exMsg 3 7 with msgKey := 9 } .stored = false := by decide
example : holds id .announcer exCtx { exMsg 3 7 with session := 6 } .stored = false := by decide

end KeepVerif.C12
