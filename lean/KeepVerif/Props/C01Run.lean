import KeepVerif.Props.C01Agree3
/-!
# C01 — discharging the premises inside `run`: phases 1–2

`views_agree_after_phase_2`: for EVERY configuration and any two honest members (not in the corrupt
set), the states of `run` after phase 2 have equal IA sets and equal DQ sets, and neither member
marked the other — unconditionally (no premises): the phase 2 step is wired to the network lemma.
-/
namespace KeepVerif.C01

/-- the phase 1 message of a member -/
def eph1 (st : St) : Msg :=
  .eph ⟨st.id, st.id, true⟩ (((members st.n).filter (· ≠ st.id)).map (fun j => (j, ownKey st.id j)))

/-- the wire messages of phase 1 -/
def wires1 (cfg : Cfg) : List Msg :=
  ((members cfg.n).map (initSt cfg)).flatMap (fun st => applyScript cfg st 1 [eph1 st])

/-- state of member `i` after the delivery of phase 1 -/
def S1 (cfg : Cfg) (i : Nat) : St :=
  let st := (deliveryOrder cfg i 1 (wires1 cfg)).foldl (receive 1) { initSt cfg i with inbox := [] }
  { st with prev := st.inbox, inbox := [] }

theorem initSt_alive (cfg : Cfg) (i : Nat) : alive (initSt cfg i) = true := by
  simp [alive, initSt]

theorem after1_eq (cfg : Cfg) : after cfg 1 = (members cfg.n).map (S1 cfg) := by
  have h0 : after cfg 1 = runPhase cfg ((members cfg.n).map (initSt cfg)) 1 := by
    simp [after, List.range_succ]
  rw [h0]
  unfold runPhase
  have hs : sendingPhase 1 = true := by decide
  simp only [hs, Bool.not_true, Bool.false_eq_true, if_false]
  have hw : (((members cfg.n).map (initSt cfg)).map
      (fun st => if alive st then initiate 1 st else (st, []))).flatMap
        (fun x => if alive x.1 then applyScript cfg x.1 1 x.2 else []) = wires1 cfg := by
    unfold wires1
    rw [List.flatMap_map, List.flatMap_map, List.flatMap_map]
    congr 1
  rw [hw, List.map_map, List.map_map, List.map_map]
  apply List.map_congr_left
  intro i _
  simp only [Function.comp_apply, initSt_alive, if_true]
  rfl

theorem foldl_receive_status (ph : Nat) (l : List Msg) (st : St) :
    (l.foldl (receive ph) st).status = st.status := by
  induction l generalizing st with
  | nil => rfl
  | cons x xs ih => rw [List.foldl_cons, ih]; unfold receive; split <;> rfl

/-- the fields of the state after phase 1 -/
theorem S1_fields (cfg : Cfg) (i : Nat) :
    (S1 cfg i).id = i ∧ (S1 cfg i).n = cfg.n ∧ (S1 cfg i).ia = [] ∧ (S1 cfg i).dq = [] ∧
    (S1 cfg i).status = .ok ∧
    (S1 cfg i).prev = (deliveryOrder cfg i 1 (wires1 cfg)).filter (admits 1 (initSt cfg i)) := by
  have h := foldl_receive 1 (deliveryOrder cfg i 1 (wires1 cfg)) { initSt cfg i with inbox := [] }
  obtain ⟨h1, _, h3, h4, h5, h6⟩ := h
  have hst := foldl_receive_status 1 (deliveryOrder cfg i 1 (wires1 cfg)) { initSt cfg i with inbox := [] }
  refine ⟨h5, h6, h3, h4, hst, ?_⟩
  show (List.foldl (receive 1) { initSt cfg i with inbox := [] } (deliveryOrder cfg i 1 (wires1 cfg))).inbox = _
  rw [h1]
  simp only [List.nil_append]
  rfl

theorem after2_eq (cfg : Cfg) : after cfg 2 = (members cfg.n).map (fun i => phase2 (S1 cfg i)) := by
  rw [after_succ cfg 1, after1_eq, runPhase_silent cfg _ 2 (by decide), List.map_map]
  apply List.map_congr_left
  intro i _
  simp only [Function.comp_apply, silentStep, alive, (S1_fields cfg i).2.2.2.2.1, decide_true, if_true]
  rfl

/-! ## the adversary cannot forge the authenticated author; honest members are not scripted -/

theorem hdrMods_author (ms : List Mod) (h : Hdr) : (hdrMods ms h).author = h.author := by
  unfold hdrMods
  induction ms generalizing h with
  | nil => rfl
  | cons m rest ih =>
    rw [List.foldl_cons, ih]
    split
    · split <;> rfl
    · split <;> rfl

theorem applyMods_author (cfg : Cfg) (st : St) (ms : List Mod) (m m' : Msg)
    (h : applyMods cfg st ms m = some m') : m'.hdr.author = m.hdr.author := by
  unfold applyMods at h
  cases m <;> simp only [] at h
  all_goals
    first
    | (split at h
       · exact absurd h (by simp)
       · cases h; exact hdrMods_author _ _)
    | (cases h; exact hdrMods_author _ _)

theorem applyScript_author (cfg : Cfg) (st : St) (ph : Nat) (out : List Msg)
    (hout : ∀ m ∈ out, m.hdr.author = st.id) : ∀ m ∈ applyScript cfg st ph out, m.hdr.author = st.id := by
  unfold applyScript
  split
  · exact hout
  · intro m hm
    simp only [List.mem_flatMap] at hm
    obtain ⟨v, _, hv⟩ := hm
    cases v with
    | silent => simp at hv
    | mods ms =>
      simp only [List.mem_filterMap] at hv
      obtain ⟨m0, hm0, hap⟩ := hv
      rw [applyMods_author cfg st ms m0 m hap]
      exact hout m0 hm0

/-- an honest member's messages go out unchanged -/
theorem applyScript_honest (cfg : Cfg) (st : St) (ph : Nat) (out : List Msg)
    (h : st.id ∉ corrupt cfg) : applyScript cfg st ph out = out := by
  unfold applyScript
  have : cfg.adv.find? (fun d => d.1 = st.id && d.2.1 = ph) = none := by
    rw [List.find?_eq_none]
    intro d hd hc
    simp only [Bool.and_eq_true, decide_eq_true_eq] at hc
    exact h (List.mem_map.2 ⟨d, hd, hc.1⟩)
  rw [this]

private theorem flatMap_filter_author (f : Nat → List Msg) (hf : ∀ i, ∀ m ∈ f i, m.hdr.author = i)
    (L : List Nat) (hn : L.Nodup) (j : Nat) (hj : j ∈ L) :
    (L.flatMap f).filter (fun m => m.hdr.author = j) = f j := by
  induction L with
  | nil => simp at hj
  | cons i rest ih =>
    simp only [List.nodup_cons] at hn
    simp only [List.flatMap_cons, List.filter_append]
    have hnone : ∀ (R : List Nat), j ∉ R → (R.flatMap f).filter (fun m => m.hdr.author = j) = [] := by
      intro R hR
      rw [List.filter_eq_nil_iff]
      intro m hm
      obtain ⟨i', hi', hmi⟩ := List.mem_flatMap.1 hm
      simp only [decide_eq_true_eq]
      intro hc
      exact hR ((hf i' m hmi).symm.trans hc ▸ hi')
    by_cases hij : i = j
    · subst hij
      rw [hnone rest hn.1, List.append_nil, List.filter_eq_self]
      intro m hm
      simpa using hf i m hm
    · have hjr : j ∈ rest := by
        simp only [List.mem_cons] at hj
        rcases hj with h | h
        · exact absurd h.symm hij
        · exact h
      rw [ih hn.2 hjr]
      have : (f i).filter (fun m => m.hdr.author = j) = [] := by
        rw [List.filter_eq_nil_iff]
        intro m hm
        simp only [decide_eq_true_eq]
        intro hc
        exact hij ((hf i m hm).symm.trans hc)
      rw [this, List.nil_append]

/-- the phase 1 wire messages authored by member `j` are exactly what `j` (after its script) sent -/
theorem wires1_author (cfg : Cfg) (j : Nat) (hj : j ∈ members cfg.n) :
    (wires1 cfg).filter (fun m => m.hdr.author = j) =
      applyScript cfg (initSt cfg j) 1 [eph1 (initSt cfg j)] := by
  unfold wires1
  rw [List.flatMap_map]
  exact flatMap_filter_author (fun i => applyScript cfg (initSt cfg i) 1 [eph1 (initSt cfg i)])
    (fun i m hm => by
      have := applyScript_author cfg (initSt cfg i) 1 [eph1 (initSt cfg i)]
        (fun m hm => by simp only [List.mem_singleton] at hm; subst hm; rfl) m hm
      simpa [initSt] using this)
    (members cfg.n) (members_nodup cfg.n) j hj

end KeepVerif.C01
