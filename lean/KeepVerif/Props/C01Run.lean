import KeepVerif.Props.C01Agree3
/-!
# C01 — discharging the premises inside `run`: phases 1–2

`views_agree_after_phase_2`: for EVERY configuration and any two honest members (not in the corrupt
set), the states of `run` after phase 2 have equal IA sets and equal DQ sets, and neither member
marked the other — unconditionally (no premises): the phase 2 step is wired to the network lemma.

`runPhase_sending`, `deliverTo_prev_author`, `deliverTo_views` lift the network lemma to every sending
phase of `run` (the bridge the later phases need).  `agreement_summary` collects what is proved about
`run`: phase 2 unconditionally, the final outcome under `Sync10` (see `Props/C01Agree3.lean`).
Not discharged: that honest members of `run` satisfy the premises of the phase 5 and phase 9 steps
(truthful accusations covering every private disqualification; accusations against honest members
judged false — this needs the symbolic crypto facts: an honest dealer's ciphertext decrypts under the
ECDH key of the pair and its share verifies against its own commitments/points), hence `Sync10`.
-/
namespace KeepVerif.C01

/-- the phase 1 message of a member -/
def eph1 (st : St) : Msg :=
  .eph ⟨st.id, st.id, true⟩ (((members st.n).filter (· ≠ st.id)).map (fun j => (j, ownKey st.id j)))

/-- the wire messages of phase 1 -/
def wires1 (cfg : Cfg) : List Msg :=
  ((members cfg.n).map (initSt cfg)).flatMap (fun st => applyScript cfg st 1 [eph1 st])

/-- state of member `i` after the delivery of phase 1 -/
def S1 (cfg : Cfg) (i : Nat) : St :=
  let st := (deliveryOrder cfg i 1 (wires1 cfg)).foldl (receive 1) { initSt cfg i with inbox := [] }
  { st with prev := st.inbox, inbox := [] }

theorem initSt_alive (cfg : Cfg) (i : Nat) : alive (initSt cfg i) = true := by
  simp [alive, initSt]

theorem after1_eq (cfg : Cfg) : after cfg 1 = (members cfg.n).map (S1 cfg) := by
  have h0 : after cfg 1 = runPhase cfg ((members cfg.n).map (initSt cfg)) 1 := by
    simp [after, List.range_succ]
  rw [h0]
  unfold runPhase
  have hs : sendingPhase 1 = true := by decide
  simp only [hs, Bool.not_true, Bool.false_eq_true, if_false]
  have hw : (((members cfg.n).map (initSt cfg)).map
      (fun st => if alive st then initiate 1 st else (st, []))).flatMap
        (fun x => if alive x.1 then applyScript cfg x.1 1 x.2 else []) = wires1 cfg := by
    unfold wires1
    rw [List.flatMap_map, List.flatMap_map, List.flatMap_map]
    congr 1
  rw [hw, List.map_map, List.map_map, List.map_map]
  apply List.map_congr_left
  intro i _
  simp only [Function.comp_apply, initSt_alive, if_true]
  rfl

theorem foldl_receive_status (ph : Nat) (l : List Msg) (st : St) :
    (l.foldl (receive ph) st).status = st.status := by
  induction l generalizing st with
  | nil => rfl
  | cons x xs ih => rw [List.foldl_cons, ih]; unfold receive; split <;> rfl

/-- the fields of the state after phase 1 -/
theorem S1_fields (cfg : Cfg) (i : Nat) :
    (S1 cfg i).id = i ∧ (S1 cfg i).n = cfg.n ∧ (S1 cfg i).ia = [] ∧ (S1 cfg i).dq = [] ∧
    (S1 cfg i).status = .ok ∧
    (S1 cfg i).prev = (deliveryOrder cfg i 1 (wires1 cfg)).filter (admits 1 (initSt cfg i)) := by
  have h := foldl_receive 1 (deliveryOrder cfg i 1 (wires1 cfg)) { initSt cfg i with inbox := [] }
  obtain ⟨h1, _, h3, h4, h5, h6⟩ := h
  have hst := foldl_receive_status 1 (deliveryOrder cfg i 1 (wires1 cfg)) { initSt cfg i with inbox := [] }
  refine ⟨h5, h6, h3, h4, hst, ?_⟩
  show (List.foldl (receive 1) { initSt cfg i with inbox := [] } (deliveryOrder cfg i 1 (wires1 cfg))).inbox = _
  rw [h1]
  simp only [List.nil_append]
  rfl

theorem after2_eq (cfg : Cfg) : after cfg 2 = (members cfg.n).map (fun i => phase2 (S1 cfg i)) := by
  rw [after_succ cfg 1, after1_eq, runPhase_silent cfg _ 2 (by decide), List.map_map]
  apply List.map_congr_left
  intro i _
  simp only [Function.comp_apply, silentStep, alive, (S1_fields cfg i).2.2.2.2.1, decide_true, if_true]
  rfl

/-! ## the adversary cannot forge the authenticated author; honest members are not scripted -/

theorem hdrMods_author (ms : List Mod) (h : Hdr) : (hdrMods ms h).author = h.author := by
  unfold hdrMods
  induction ms generalizing h with
  | nil => rfl
  | cons m rest ih =>
    rw [List.foldl_cons, ih]
    split
    · split <;> rfl
    · split <;> rfl

theorem applyMods_author (cfg : Cfg) (st : St) (ms : List Mod) (m m' : Msg)
    (h : applyMods cfg st ms m = some m') : m'.hdr.author = m.hdr.author := by
  unfold applyMods at h
  cases m <;> simp only [] at h
  all_goals
    first
    | (split at h
       · exact absurd h (by simp)
       · cases h; exact hdrMods_author _ _)
    | (cases h; exact hdrMods_author _ _)

theorem applyScript_author (cfg : Cfg) (st : St) (ph : Nat) (out : List Msg)
    (hout : ∀ m ∈ out, m.hdr.author = st.id) : ∀ m ∈ applyScript cfg st ph out, m.hdr.author = st.id := by
  unfold applyScript
  split
  · exact hout
  · intro m hm
    simp only [List.mem_flatMap] at hm
    obtain ⟨v, _, hv⟩ := hm
    cases v with
    | silent => simp at hv
    | mods ms =>
      simp only [List.mem_filterMap] at hv
      obtain ⟨m0, hm0, hap⟩ := hv
      rw [applyMods_author cfg st ms m0 m hap]
      exact hout m0 hm0

/-- an honest member's messages go out unchanged -/
theorem applyScript_honest (cfg : Cfg) (st : St) (ph : Nat) (out : List Msg)
    (h : st.id ∉ corrupt cfg) : applyScript cfg st ph out = out := by
  unfold applyScript
  have : cfg.adv.find? (fun d => d.1 = st.id && d.2.1 = ph) = none := by
    rw [List.find?_eq_none]
    intro d hd hc
    simp only [Bool.and_eq_true, decide_eq_true_eq] at hc
    exact h (List.mem_map.2 ⟨d, hd, hc.1⟩)
  rw [this]

private theorem flatMap_filter_author (f : Nat → List Msg) (hf : ∀ i, ∀ m ∈ f i, m.hdr.author = i)
    (L : List Nat) (hn : L.Nodup) (j : Nat) (hj : j ∈ L) :
    (L.flatMap f).filter (fun m => m.hdr.author = j) = f j := by
  induction L with
  | nil => simp at hj
  | cons i rest ih =>
    simp only [List.nodup_cons] at hn
    simp only [List.flatMap_cons, List.filter_append]
    have hnone : ∀ (R : List Nat), j ∉ R → (R.flatMap f).filter (fun m => m.hdr.author = j) = [] := by
      intro R hR
      rw [List.filter_eq_nil_iff]
      intro m hm
      obtain ⟨i', hi', hmi⟩ := List.mem_flatMap.1 hm
      simp only [decide_eq_true_eq]
      intro hc
      exact hR ((hf i' m hmi).symm.trans hc ▸ hi')
    by_cases hij : i = j
    · subst hij
      rw [hnone rest hn.1, List.append_nil, List.filter_eq_self]
      intro m hm
      simpa using hf i m hm
    · have hjr : j ∈ rest := by
        simp only [List.mem_cons] at hj
        rcases hj with h | h
        · exact absurd h.symm hij
        · exact h
      rw [ih hn.2 hjr]
      have : (f i).filter (fun m => m.hdr.author = j) = [] := by
        rw [List.filter_eq_nil_iff]
        intro m hm
        simp only [decide_eq_true_eq]
        intro hc
        exact hij ((hf i m hm).symm.trans hc)
      rw [this, List.nil_append]

/-- the phase 1 wire messages authored by member `j` are exactly what `j` (after its script) sent -/
theorem wires1_author (cfg : Cfg) (j : Nat) (hj : j ∈ members cfg.n) :
    (wires1 cfg).filter (fun m => m.hdr.author = j) =
      applyScript cfg (initSt cfg j) 1 [eph1 (initSt cfg j)] := by
  unfold wires1
  rw [List.flatMap_map]
  exact flatMap_filter_author (fun i => applyScript cfg (initSt cfg i) 1 [eph1 (initSt cfg i)])
    (fun i m hm => by
      have := applyScript_author cfg (initSt cfg i) 1 [eph1 (initSt cfg i)]
        (fun m hm => by simp only [List.mem_singleton] at hm; subst hm; rfl) m hm
      simpa [initSt] using this)
    (members cfg.n) (members_nodup cfg.n) j hj

/-! ## the premises of the phase 2 step hold for honest members of `run` -/

/-- phase 1 payloads of a message list -/
def ephOf (L : List Msg) : List (Nat × List (Nat × Nat)) :=
  L.filterMap (fun m => match m with | .eph h k => some (h.sender, k) | _ => none)

theorem ephMsgs_eq (st : St) : ephMsgs st = ephOf st.prev := rfl

/-- on admitted messages (author = sender) the first message of sender `k` is the first message
    authored by `k` -/
theorem ephOf_find_author (L : List Msg) (hL : ∀ m ∈ L, m.hdr.author = m.hdr.sender) (k : Nat) :
    (ephOf L).find? (fun p => p.1 = k) =
      (ephOf (L.filter (fun m => m.hdr.author = k))).find? (fun p => p.1 = k) := by
  induction L with
  | nil => rfl
  | cons m rest ih =>
    have hrest : ∀ m ∈ rest, m.hdr.author = m.hdr.sender := fun m hm => hL m (List.mem_cons_of_mem _ hm)
    have hm := hL m (by simp)
    by_cases hk : m.hdr.author = k
    · rw [List.filter_cons_of_pos (by simpa using hk)]
      cases m with
      | eph h keys =>
        have hs : h.sender = k := by simp only [Msg.hdr] at hm hk; rw [← hm]; exact hk
        simp [ephOf, List.filterMap_cons, List.find?_cons, hs]
      | _ => simpa [ephOf, List.filterMap_cons] using ih hrest
    · rw [List.filter_cons_of_neg (by simpa using hk)]
      cases m with
      | eph h keys =>
        have hs : ¬ h.sender = k := by simp only [Msg.hdr] at hm hk; rw [← hm]; exact hk
        simp only [ephOf, List.filterMap_cons, List.find?_cons, hs, decide_false]
        exact ih hrest
      | _ => simpa [ephOf, List.filterMap_cons] using ih hrest

theorem admits1 (st : St) (m : Msg) : admits 1 st m = accept st m := by
  simp [admits]

theorem isOperating_init (cfg : Cfg) (i k : Nat) :
    isOperating (initSt cfg i) k = true ↔ (1 ≤ k ∧ k ≤ cfg.n) := by
  constructor
  · intro h
    simp only [isOperating, Bool.and_eq_true] at h
    exact ⟨of_decide_eq_true h.1.1.1, of_decide_eq_true h.1.1.2⟩
  · intro h
    simp only [isOperating, Bool.and_eq_true]
    exact ⟨⟨⟨decide_eq_true h.1, decide_eq_true h.2⟩, rfl⟩, rfl⟩

theorem isOperating_init_eq (cfg : Cfg) (i j k : Nat) :
    isOperating (initSt cfg i) k = isOperating (initSt cfg j) k := rfl

/-- what member `i` holds of author `k` after phase 1 -/
theorem S1_prev_author (cfg : Cfg) (i k : Nat) (hk : k ∈ members cfg.n) :
    (S1 cfg i).prev.filter (fun m => m.hdr.author = k) =
      ((wires1 cfg).filter (fun m => m.hdr.author = k)).filter (accept (initSt cfg i)) := by
  rw [(S1_fields cfg i).2.2.2.2.2, List.filter_filter]
  rw [← deliveryOrder_author cfg i 1 (wires1 cfg) k hk, List.filter_filter]
  apply List.filter_congr
  intro m _
  rw [admits1, Bool.and_comm]

theorem S1_prev_accepted (cfg : Cfg) (i : Nat) : ∀ m ∈ (S1 cfg i).prev, accept (initSt cfg i) m = true := by
  intro m hm
  rw [(S1_fields cfg i).2.2.2.2.2] at hm
  have := (List.mem_filter.1 hm).2
  rwa [admits1] at this

private theorem lookup_map_self (L : List Nat) (g : Nat → Nat) (x : Nat) (hx : x ∈ L) :
    (lookup x (L.map (fun y => (y, g y)))).isSome = true := by
  induction L with
  | nil => simp at hx
  | cons y ys ih =>
    simp only [List.map_cons, lookup]
    by_cases h : y = x
    · simp [h]
    · simp only [h, if_false]
      simp only [List.mem_cons] at hx
      rcases hx with rfl | hx
      · exact absurd rfl h
      · exact ih hx

/-- **Agreement after phase 2, inside `run`, unconditionally.**  For every configuration and any two
    honest members `i ≠ j`: the states of `run` after phase 2 are `phase2 (S1 cfg ·)`, they have the
    same IA set and the same DQ set, and neither marked the other. -/
theorem views_agree_after_phase_2 (cfg : Cfg) (i j : Nat)
    (hi : i ∈ members cfg.n) (hj : j ∈ members cfg.n) (hij : i ≠ j)
    (hci : i ∉ corrupt cfg) (hcj : j ∉ corrupt cfg) :
    after cfg 2 = (members cfg.n).map (fun i => phase2 (S1 cfg i)) ∧
    (∀ k, k ∈ (phase2 (S1 cfg i)).ia ↔ k ∈ (phase2 (S1 cfg j)).ia) ∧
    (∀ k, k ∈ (phase2 (S1 cfg i)).dq ↔ k ∈ (phase2 (S1 cfg j)).dq) ∧
    j ∉ (phase2 (S1 cfg i)).ia ∧ j ∉ (phase2 (S1 cfg i)).dq ∧
    i ∉ (phase2 (S1 cfg j)).ia ∧ i ∉ (phase2 (S1 cfg j)).dq := by
  refine ⟨after2_eq cfg, ?_⟩
  obtain ⟨ai, an, aia, adq, _, _⟩ := S1_fields cfg i
  obtain ⟨bi, bn, bia, bdq, _, _⟩ := S1_fields cfg j
  -- admitted messages: sender in range, not self, author = sender
  have hacc : ∀ (x : Nat) (m : Msg), m ∈ (S1 cfg x).prev →
      m.hdr.sender ≠ x ∧ m.hdr.author = m.hdr.sender ∧ 1 ≤ m.hdr.sender ∧ m.hdr.sender ≤ cfg.n := by
    intro x m hm
    have h := accept_only_operating_valid_nonself _ m (S1_prev_accepted cfg x m hm)
    have hop := h.2.2.1
    rw [isOperating_init] at hop
    exact ⟨by simpa [initSt] using h.1, h.2.1, hop.1, hop.2⟩
  have hrange : ∀ (x : Nat), ∀ k ∈ (ephMsgs (S1 cfg x)).map (·.1), 1 ≤ k ∧ k ≤ cfg.n ∧ k ≠ x := by
    intro x k hk
    obtain ⟨p, hp, rfl⟩ := List.mem_map.1 hk
    rw [ephMsgs_eq, ephOf, List.mem_filterMap] at hp
    obtain ⟨m, hm, hmp⟩ := hp
    cases m with
    | eph h keys =>
      simp only [Option.some.injEq] at hmp
      subst hmp
      have := hacc x _ hm
      simp only [Msg.hdr] at this
      exact ⟨this.2.2.1, this.2.2.2, this.1⟩
    | _ => simp at hmp
  -- the message of an honest member `y` as held by another member `x`
  have hhonest : ∀ (x y : Nat), x ≠ y → y ∈ members cfg.n → y ∉ corrupt cfg →
      ∃ p, (ephMsgs (S1 cfg x)).find? (fun p => p.1 = y) = some p ∧ badEph cfg.n p = false := by
    intro x y hxy hy hcy
    have hw : (wires1 cfg).filter (fun m => m.hdr.author = y) = [eph1 (initSt cfg y)] := by
      rw [wires1_author cfg y hy, applyScript_honest cfg _ 1 _ (by simpa [initSt] using hcy)]
    have hyr := (mem_members cfg.n y).1 hy
    have hacc1 : accept (initSt cfg x) (eph1 (initSt cfg y)) = true := by
      have hop : isOperating (initSt cfg x) y = true := (isOperating_init cfg x y).2 hyr
      have e1 : (initSt cfg y).id = y := rfl
      have e2 : (initSt cfg x).id = x := rfl
      unfold accept eph1
      simp only [Msg.hdr, e1, e2, hop]
      simp [Ne.symm hxy]
    have hp : (S1 cfg x).prev.filter (fun m => m.hdr.author = y) = [eph1 (initSt cfg y)] := by
      rw [S1_prev_author cfg x y hy, hw]
      simp [hacc1]
    refine ⟨(y, ((members cfg.n).filter (· ≠ y)).map (fun z => (z, ownKey y z))), ?_, ?_⟩
    · rw [ephMsgs_eq, ephOf_find_author _ (fun m hm => (hacc x m hm).2.1) y, hp]
      simp [ephOf, eph1, initSt]
      all_goals (congr 1; apply List.filter_congr; intro z _; by_cases hzz : z = y <;> simp [hzz])
    · simp only [badEph, Bool.not_eq_false', List.all_eq_true, Bool.or_eq_true, decide_eq_true_eq]
      intro z hz
      by_cases hzy : z = y
      · exact Or.inl hzy
      · refine Or.inr ?_
        unfold hasKey
        exact lookup_map_self _ _ z (List.mem_filter.2 ⟨hz, by simpa using hzy⟩)
  -- consistent broadcast for third members
  have hsync : ∀ k, k ≠ (S1 cfg i).id → k ≠ (S1 cfg j).id →
      (ephMsgs (S1 cfg i)).find? (fun p => p.1 = k) = (ephMsgs (S1 cfg j)).find? (fun p => p.1 = k) := by
    intro k hki hkj
    rw [ai] at hki; rw [bi] at hkj
    by_cases hk : k ∈ members cfg.n
    · rw [ephMsgs_eq, ephMsgs_eq, ephOf_find_author _ (fun m hm => (hacc i m hm).2.1) k,
        ephOf_find_author _ (fun m hm => (hacc j m hm).2.1) k,
        S1_prev_author cfg i k hk, S1_prev_author cfg j k hk]
      congr 2
      apply List.filter_congr
      intro m hm
      have hau : m.hdr.author = k := by simpa using (List.mem_filter.1 hm).2
      have e1 : (initSt cfg i).id = i := rfl
      have e2 : (initSt cfg j).id = j := rfl
      simp only [accept, isOperating_init_eq cfg i j m.hdr.sender, e1, e2]
      by_cases hs : m.hdr.author = m.hdr.sender
      · have hsk : m.hdr.sender = k := hs ▸ hau
        simp [hsk, hki, hkj]
      · simp [hs]
    · have none_of : ∀ x, (ephMsgs (S1 cfg x)).find? (fun p => p.1 = k) = none := by
        intro x
        rw [List.find?_eq_none]
        intro p hp hc
        simp only [decide_eq_true_eq] at hc
        have := hrange x p.1 (List.mem_map.2 ⟨p, hp, rfl⟩)
        exact hk ((mem_members cfg.n k).2 (hc ▸ ⟨this.1, this.2.1⟩))
      rw [none_of i, none_of j]
  have hir := (mem_members cfg.n i).1 hi
  have hjr := (mem_members cfg.n j).1 hj
  have step := views_agree_after_phase_2_step (S1 cfg i) (S1 cfg j) cfg.n an bn ⟨aia, adq⟩ ⟨bia, bdq⟩
    (by rw [ai]; exact hrange i) (by rw [bi]; exact hrange j) hsync
    (by rw [bi]; exact hhonest i j hij hj hcj) (by rw [ai]; exact hhonest j i (Ne.symm hij) hi hci)
    (by rw [ai]; exact hir) (by rw [bi]; exact hjr)
  rw [ai, bi] at step
  exact step

theorem phase2_id (st : St) : (phase2 st).id = st.id := by
  have hc := phase2_fold_core (dedup (·.1) (ephMsgs st)) (markInactive st ((ephMsgs st).map (·.1)))
    (markInactive st ((ephMsgs st).map (·.1))) rfl
  have h1 : (phase2 st).id = ((((dedup (·.1) (ephMsgs st)).filter
      (badEph (markInactive st ((ephMsgs st).map (·.1))).n)).map (·.1)).foldl markDQ
        (markInactive st ((ephMsgs st).map (·.1)))).id := congrArg (·.1) hc
  have h2 : ∀ (l : List Nat) (s : St), (l.foldl markDQ s).id = s.id := by
    intro l
    induction l with
    | nil => intro s; rfl
    | cons j rest ih => intro s; rw [List.foldl_cons, ih]; unfold markDQ; split <;> rfl
  rw [h1, h2, markInactive_id]

/-- **Agreement and `honest_never_marked` after phase 2 — a theorem about `run`, no premises.**
    For every configuration (any n, t, corrupt set, behaviour script, delivery orders), any two
    states of honest members in `after cfg 2` (the prefix of `run` after phase 2) have the same IA
    set and the same DQ set, and an honest member is never marked by another honest member. -/
theorem agreement_after_phase_2 (cfg : Cfg) :
    ∀ a ∈ after cfg 2, ∀ b ∈ after cfg 2, a.id ∉ corrupt cfg → b.id ∉ corrupt cfg →
      (∀ k, k ∈ a.ia ↔ k ∈ b.ia) ∧ (∀ k, k ∈ a.dq ↔ k ∈ b.dq) ∧
      (a.id ≠ b.id → b.id ∉ a.ia ∧ b.id ∉ a.dq) := by
  intro a ha b hb hca hcb
  rw [after2_eq] at ha hb
  obtain ⟨i, hi, rfl⟩ := List.mem_map.1 ha
  obtain ⟨j, hj, rfl⟩ := List.mem_map.1 hb
  have hidi : (phase2 (S1 cfg i)).id = i := (phase2_id _).trans (S1_fields cfg i).1
  have hidj : (phase2 (S1 cfg j)).id = j := (phase2_id _).trans (S1_fields cfg j).1
  rw [hidi] at hca; rw [hidj] at hcb
  by_cases hij : i = j
  · subst hij
    exact ⟨fun _ => Iff.rfl, fun _ => Iff.rfl, fun h => absurd rfl h⟩
  · obtain ⟨_, h1, h2, h3, h4, _, _⟩ := views_agree_after_phase_2 cfg i j hi hj hij hca hcb
    refine ⟨h1, h2, fun _ => ?_⟩
    rw [hidj]; exact ⟨h3, h4⟩

/-! ## the network lemma at the level of `runPhase` (bridge for the later phases) -/

/-- the wire messages of a sending phase -/
def wiresOf (cfg : Cfg) (sts : List St) (ph : Nat) : List Msg :=
  (sts.map (fun st => if alive st then initiate ph st else (st, []))).flatMap
    (fun x => if alive x.1 then applyScript cfg x.1 ph x.2 else [])

/-- delivery of a phase's wire messages to one (live) member -/
def deliverTo (cfg : Cfg) (ph : Nat) (wires : List Msg) (st : St) : St :=
  let st' := (deliveryOrder cfg st.id ph wires).foldl (receive ph) { st with inbox := [] }
  { st' with prev := st'.inbox, inbox := [] }

theorem runPhase_sending (cfg : Cfg) (sts : List St) (ph : Nat) (h : sendingPhase ph = true) :
    runPhase cfg sts ph =
      (sts.map (fun st => if alive st then (initiate ph st).1 else st)).map
        (fun st => if !alive st then st else deliverTo cfg ph (wiresOf cfg sts ph) st) := by
  unfold runPhase
  simp only [h, Bool.not_true, Bool.false_eq_true, if_false, List.map_map]
  apply List.map_congr_left
  intro st _
  simp only [Function.comp_apply]
  split <;> rfl

/-- **Consistent broadcast inside `run`**: in ANY sending phase, what a live member holds of author
    `k` after the delivery is exactly the wire messages authored by `k`, in `k`'s order, that pass
    the member's admission rule — whatever the per-receiver delivery order is.  Two members whose
    admission rules agree on `k`'s messages therefore hold the same messages of `k`. -/
theorem deliverTo_prev_author (cfg : Cfg) (ph : Nat) (wires : List Msg) (st : St) (k : Nat)
    (hk : k ∈ members cfg.n) :
    (deliverTo cfg ph wires st).prev.filter (fun m => m.hdr.author = k) =
      (wires.filter (fun m => m.hdr.author = k)).filter (admits ph st) := by
  have h := inbox_author cfg ph wires { st with inbox := [] } k hk rfl
  have hadm : admits ph { st with inbox := [] } = admits ph st := by
    funext m; simp [admits, acceptAccusation, accept, isOperating]
  rw [hadm] at h
  exact h

theorem deliverTo_views (cfg : Cfg) (ph : Nat) (wires : List Msg) (st : St) :
    (deliverTo cfg ph wires st).ia = st.ia ∧ (deliverTo cfg ph wires st).dq = st.dq ∧
    (deliverTo cfg ph wires st).id = st.id ∧ (deliverTo cfg ph wires st).n = st.n ∧
    (deliverTo cfg ph wires st).status = st.status := by
  obtain ⟨_, _, h3, h4, h5, h6⟩ := foldl_receive ph (deliveryOrder cfg st.id ph wires) { st with inbox := [] }
  exact ⟨h3, h4, h5, h6, foldl_receive_status ph _ _⟩

/-! ## summary: what is proved about `run` -/

/-- **What is proved about the model's `run`, for every configuration.**
    (1) unconditionally: after phase 2 all honest members hold the same IA and DQ sets and no honest
        member is marked by an honest member;
    (2) `run` is `finish` of the states after phase 10, and under the named premises `Sync10` on two
        members' phase 10 states they finish with equal IA sets, DQ sets and group keys. -/
theorem agreement_summary (cfg : Cfg) :
    (∀ a ∈ after cfg 2, ∀ b ∈ after cfg 2, a.id ∉ corrupt cfg → b.id ∉ corrupt cfg →
      (∀ k, k ∈ a.ia ↔ k ∈ b.ia) ∧ (∀ k, k ∈ a.dq ↔ k ∈ b.dq) ∧
      (a.id ≠ b.id → b.id ∉ a.ia ∧ b.id ∉ a.dq)) ∧
    run cfg = (after cfg 10).map finish ∧
    (∀ a ∈ after cfg 10, ∀ b ∈ after cfg 10, Sync10 a b →
      (finish a).status = .ok ∧ (finish b).status = .ok ∧
      (∀ k, k ∈ (finish a).ia ↔ k ∈ (finish b).ia) ∧
      (∀ k, k ∈ (finish a).dq ↔ k ∈ (finish b).dq) ∧
      (finish a).gk = (finish b).gk) :=
  ⟨agreement_after_phase_2 cfg, (agreement_partial cfg).1, (agreement_partial cfg).2⟩

end KeepVerif.C01
