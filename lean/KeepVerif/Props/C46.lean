import KeepVerif.Model.C46
/-!
# C46 — Wallet action deadlines nest inside the proposal validity window

All theorems are over the definitions of `Gen/C46.lean` (regenerated from the code on every run):
a changed constant or a changed start/timeout expression re-runs these proofs; a change that
keeps the nesting re-proves, a change that breaks it makes the proof (hence the check) fail.
Quantification: every action type and every coordination block `cb : Nat` (an action starts at
the end of its coordination window: `start cb`).
-/
namespace KeepVerif.C46
open KeepVerif.Gen.C46

/-! ### T1 ties between what is compiled and what is written -/

/-- `ValidityBlocks()` of each proposal type returns its documented constant. -/
theorem validity_method_is_constant : ∀ a : Action, validity a = validityConst a := by
  intro a; cases a <;> decide

/-- each action constructor wires the action's own safety-margin constant into the struct. -/
theorem constructor_wires_margin : ∀ a : Action, compiledMargin a = margin a := by
  intro a; cases a <;> decide

/-- …and its own broadcast timeout. -/
theorem constructor_wires_broadcast_timeout : ∀ a : Action, compiledBcastSeconds a = bcastSeconds a := by
  intro a; cases a <;> decide

/-- the source expression of `signingAttemptMaximumBlocks` evaluates to what the compiled
function returns. -/
theorem attempt_blocks_expression_matches_compiled :
    signingAttemptMaximumBlocks = compiledSigningAttemptMaximumBlocks := by decide

/-! ### the nesting theorems -/

/-- the "invalid proposal expiry block" guard never fires for an expiry computed by `node.go`
(so the `uint64` subtraction in the deadline expression never wraps). -/
theorem guard_never_fails (a : Action) (cb : Nat) : guardFails a cb = false := by
  cases a <;>
    simp only [guardFails, expiry, start, actionStart, windowEnd, coordinationDurationBlocks, validity, proposalExpiry, depositSweepGuardFails, redemptionGuardFails,
      movingFundsGuardFails, movedFundsSweepGuardFails, heartbeatGuardFails,
      depositSweepCompiledValidity, redemptionCompiledValidity, movingFundsCompiledValidity,
      movedFundsSweepCompiledValidity, heartbeatCompiledValidity,
      depositSweepSigningTimeoutSafetyMarginBlocks, redemptionSigningTimeoutSafetyMarginBlocks,
      movingFundsSigningTimeoutSafetyMarginBlocks, movedFundsSweepSigningTimeoutSafetyMarginBlocks,
      heartbeatInactivityClaimValidityBlocks] <;> apply decide_eq_false <;> omega

/-- unfolding set shared by the arithmetic proofs. -/
macro "c46_unfold" : tactic => `(tactic|
  simp only [signStart, signEnd, expiry, start, actionStart, windowEnd, coordinationDurationBlocks, validity, margin,
    oneLoop, claimEnd, proposalExpiry,
    signingLoopTimeout, signingAttemptMaximumBlocks, signingAttemptsLimit,
    signingAttemptAnnouncementDelayBlocks, signingAttemptAnnouncementActiveBlocks,
    signingAttemptMaximumProtocolBlocks, signingAttemptCoolDownBlocks,
    depositSweepSignStart, depositSweepSignEnd, redemptionSignStart, redemptionSignEnd,
    movingFundsSignStart, movingFundsSignEnd, movedFundsSweepSignStart, movedFundsSweepSignEnd,
    heartbeatSignStart, heartbeatSignEnd, heartbeatClaimEnd,
    depositSweepCompiledValidity, redemptionCompiledValidity, movingFundsCompiledValidity,
    movedFundsSweepCompiledValidity, heartbeatCompiledValidity,
    depositSweepSigningTimeoutSafetyMarginBlocks, redemptionSigningTimeoutSafetyMarginBlocks,
    movingFundsSigningTimeoutSafetyMarginBlocks, movedFundsSweepSigningTimeoutSafetyMarginBlocks,
    heartbeatInactivityClaimValidityBlocks, heartbeatTimeoutSafetyMarginBlocks,
    movingFundsCommitmentConfirmationBlocks])

/-- C46 (a): signing starts no earlier than the action start. -/
theorem sign_start_ge_start (a : Action) (cb : Nat) : start cb ≤ signStart a cb := by
  cases a <;> c46_unfold <;> omega

/-- C46 (b): signing ends at least the documented safety margin before the proposal expires. -/
theorem sign_end_le_expiry_minus_margin (a : Action) (cb : Nat) :
    signEnd a cb + margin a ≤ expiry a cb := by
  cases a <;> c46_unfold <;> omega

/-- C46 (c): the signing window is long enough for one complete signing retry loop of a single
message (`signingAttemptsLimit · signingAttemptMaximumBlocks`). -/
theorem sign_window_ge_one_loop (a : Action) (cb : Nat) :
    signStart a cb + oneLoop ≤ signEnd a cb := by
  cases a <;> c46_unfold <;> omega

/-- equivalently: the retry loop's own timeout block (`signingExecutor.sign`) is reached before
the action's signing context is cancelled. -/
theorem loop_timeout_before_sign_deadline (a : Action) (cb : Nat) :
    signingLoopTimeout (signStart a cb) ≤ signEnd a cb := by
  cases a <;> c46_unfold <;> omega

/-- the signing window is non-empty and inside `[start, expiry]`. -/
theorem sign_window_inside (a : Action) (cb : Nat) :
    start cb ≤ signStart a cb ∧ signStart a cb < signEnd a cb ∧ signEnd a cb ≤ expiry a cb := by
  cases a <;> c46_unfold <;> omega

/-- C46 (d), transaction actions: at the nominal 12 s block time the broadcast step (timeout plus
one check delay) fits into the safety margin, hence ends before the proposal expires. -/
theorem post_signing_fits (a : Action) : bcastSeconds a + delaySeconds a ≤ margin a * blockSeconds := by
  cases a <;> decide

/-- C46 (d), heartbeat: the inactivity claim deadline lies after the signing deadline and the
documented safety margin before the expiry. -/
theorem heartbeat_claim_nested (cb : Nat) :
    signEnd .heartbeat cb ≤ claimEnd cb ∧
    claimEnd cb + heartbeatTimeoutSafetyMarginBlocks = expiry .heartbeat cb ∧
    claimEnd cb ≤ expiry .heartbeat cb := by
  c46_unfold; omega

/-- the expiry is the start plus the documented validity. -/
theorem expiry_is_start_plus_validity (a : Action) (cb : Nat) : expiry a cb = start cb + validityConst a := by
  rw [← validity_method_is_constant]; rfl

/-- the action starts exactly at the end of its coordination window, as the compiled
`coordinationWindow.endBlock` computes it. -/
theorem start_is_window_end (cb : Nat) : start cb = cb + coordinationDurationBlocks ∧
    windowEnd 1000 = compiledWindowEndOf1000 := ⟨rfl, by decide⟩

/-- one retry loop today: 5 × 41 blocks (closed fact, re-checked on regenerated numerals). -/
theorem one_loop_value : oneLoop = signingAttemptsLimit * compiledSigningAttemptMaximumBlocks := by decide

/-! ### the monitor accepts every model output -/

/-- Soundness link (transaction actions): the monitor accepts the deadlines the model computes,
for every start block. -/
theorem holdsTx_model (a : Action) (cb : Nat) (h : a ≠ .heartbeat) :
    holdsTx a (start cb) (expiry a cb) (signStart a cb) (signEnd a cb) (compiledMargin a)
      (compiledBcastSeconds a) (delaySeconds a) = true := by
  have h1 := expiry_is_start_plus_validity a cb
  have h2 := sign_start_ge_start a cb
  have h3 := sign_end_le_expiry_minus_margin a cb
  have h4 := sign_window_ge_one_loop a cb
  have h5 := constructor_wires_margin a
  have h6 := post_signing_fits a
  have h7 := constructor_wires_broadcast_timeout a
  simp only [holdsTx, Bool.and_eq_true, decide_eq_true_eq]
  rw [h7]
  exact ⟨⟨⟨⟨⟨h1, h2⟩, h3⟩, h4⟩, h5⟩, h6⟩

/-- Soundness link (heartbeat): any number of signing deadlines and claim deadlines. -/
theorem holdsHb_model (cb n m k : Nat) :
    holdsHb (start cb) (expiry .heartbeat cb) (List.replicate k (signStart .heartbeat cb))
      (List.replicate n (signEnd .heartbeat cb) ++ List.replicate m (claimEnd cb)) = true := by
  have h1 := expiry_is_start_plus_validity .heartbeat cb
  have h2 := sign_start_ge_start .heartbeat cb
  have h3 := sign_end_le_expiry_minus_margin .heartbeat cb
  have h4 := sign_window_ge_one_loop .heartbeat cb
  have h5 := heartbeat_claim_nested cb
  simp only [margin, heartbeatInactivityClaimValidityBlocks, heartbeatTimeoutSafetyMarginBlocks] at h3 h5
  simp only [holdsHb, margin, heartbeatInactivityClaimValidityBlocks, heartbeatTimeoutSafetyMarginBlocks, Bool.and_eq_true, decide_eq_true_eq, List.all_eq_true, List.mem_replicate,
    List.mem_append, Bool.or_eq_true]
  refine ⟨⟨⟨h1, ?_⟩, ?_⟩, ?_⟩
  · intro x hx; have e := hx.2; omega
  · intro d hd
    rcases hd with hd | hd
    · have e := hd.2
      exact ⟨by omega, by intro x hx; have e' := hx.2; omega⟩
    · have e := hd.2
      exact ⟨by omega, by intro x hx; have e' := hx.2; omega⟩
  · intro d hd
    rcases hd with hd | hd
    · have e := hd.2
      left; first | omega | exact decide_eq_true (by omega)
    · have e := hd.2
      right; first | omega | exact ⟨by omega, by omega⟩ | exact ⟨decide_eq_true (by omega), decide_eq_true (by omega)⟩

/-- the monitor is not vacuous (stated relative to the generated constants so that a harmless
constant change keeps them true): the model's own deadlines are accepted; a signing window one
block shorter than a retry loop, a deadline one block inside the safety margin, a start before
the action start and a broadcast longer than the margin are rejected. -/
example : holdsTx .redemption (start 1000) (expiry .redemption 1000) (signStart .redemption 1000)
    (signEnd .redemption 1000) (margin .redemption) (bcastSeconds .redemption) (delaySeconds .redemption) = true := by decide
example : holdsTx .redemption (start 1000) (expiry .redemption 1000) (start 1000) (start 1000 + oneLoop - 1)
    (margin .redemption) (bcastSeconds .redemption) (delaySeconds .redemption) = false := by decide
example : holdsTx .redemption (start 1000) (expiry .redemption 1000) (start 1000) (expiry .redemption 1000 - margin .redemption + 1)
    (margin .redemption) (bcastSeconds .redemption) (delaySeconds .redemption) = false := by decide
example : holdsTx .redemption (start 1000) (expiry .redemption 1000) (start 1000 - 1) (signEnd .redemption 1000)
    (margin .redemption) (bcastSeconds .redemption) (delaySeconds .redemption) = false := by decide
example : holdsTx .redemption (start 1000) (expiry .redemption 1000) (start 1000) (signEnd .redemption 1000)
    (margin .redemption) (margin .redemption * blockSeconds + 1) 0 = false := by decide

end KeepVerif.C46
