import KeepVerif.Model.C10
import KeepVerif.Props.C09
/-!
# C10 — Attempt member selection: every member derives the same exact participants

Theorems over `Model/C10.lean` (`performMembersSelection` of the signing and DKG retry loops).
The selection does not take the member's own index, so "every member computes the same lists" is:
the result is a function of the group, the attempt's random sources and the ready *set* — the order
in which the announcer reported the ready members does not matter (`…_order_independent`).
-/
namespace KeepVerif.C10
open KeepVerif.C09

/-! ## the retry package only sees the multiset of seats -/

theorem bound_perm {s' s : List Addr} (h : s'.Perm s) : bound s' = bound s := by
  induction h with
  | nil => rfl
  | cons x _ ih => show max (x + 1) (bound _) = max (x + 1) (bound _); rw [ih]
  | swap x y l =>
    show max (y + 1) (max (x + 1) (bound l)) = max (x + 1) (max (y + 1) (bound l))
    rw [← Nat.max_assoc, Nat.max_comm (y + 1), Nat.max_assoc]
  | trans _ _ ih1 ih2 => exact ih1.trans ih2

theorem sortedOps_perm {s' s : List Addr} (h : s'.Perm s) : sortedOps s' = sortedOps s := by
  unfold sortedOps
  rw [bound_perm h]
  apply List.filter_congr
  intro a _
  exact h.contains_eq

theorem seatCount_perm {s' s : List Addr} (h : s'.Perm s) (o : Addr) : seatCount o s' = seatCount o s :=
  h.count_eq o

theorem accept_congr {s' s : List Addr} (hc : ∀ o, seatCount o s' = seatCount o s) (k : Nat) :
    ∀ (L : List Addr) (acc : Nat), accept s' k acc L = accept s k acc L
  | [], acc => by simp [accept]
  | o :: rest, acc => by simp only [accept, hc, accept_congr hc k rest]

/-- two results that qualify the same operators -/
def SameSet : Res → Res → Prop
  | .ok q', .ok q => ∀ a, q'.contains a = q.contains a
  | .tooMany, .tooMany => True
  | .retries a, .retries b => a = b
  | .panic, .panic => True
  | _, _ => False

theorem filter_contains_perm {s' s : List Addr} (h : s'.Perm s) (p : Addr → Bool) (a : Addr) :
    (s'.filter p).contains a = (s.filter p).contains a :=
  (h.filter p).contains_eq

theorem signing_perm (shuf : Nat → List Nat) {s' s : List Addr} (h : s'.Perm s) (k : Nat) :
    SameSet (signing shuf s' k) (signing shuf s k) := by
  unfold signing
  simp only [h.length_eq, sortedOps_perm h, accept_congr (seatCount_perm h)]
  split
  · trivial
  · split
    · trivial
    · exact fun a => filter_contains_perm h _ a

theorem eligible_perm {s' s : List Addr} (h : s'.Perm s) (k : Nat) : eligible s' k = eligible s k := by
  simp only [eligible, seatCount_perm h, h.length_eq, sortedOps_perm h]

theorem eligiblePairs_perm {s' s : List Addr} (h : s'.Perm s) (ops : List Addr) (k : Nat) :
    eligiblePairs s' ops k = eligiblePairs s ops k := by
  simp only [eligiblePairs, seatCount_perm h, h.length_eq]

theorem eligibleTriplets_perm (asWas : Bool) {s' s : List Addr} (h : s'.Perm s) (ops : List Addr) (k : Nat) :
    eligibleTriplets asWas s' ops k = eligibleTriplets asWas s ops k := by
  simp only [eligibleTriplets, seatCount_perm h, h.length_eq]

theorem select_perm (asWas : Bool) (shuf : Nat → List Nat) {s' s : List Addr} (h : s'.Perm s) (r k : Nat) :
    select asWas shuf s' r k = select asWas shuf s r k := by
  unfold select
  simp only [eligible_perm h, eligiblePairs_perm h, eligibleTriplets_perm asWas h]

theorem keygen_perm (asWas : Bool) (shuf : Nat → List Nat) {s' s : List Addr} (h : s'.Perm s) (r k : Nat) :
    SameSet (keygenGen asWas shuf s' r k) (keygenGen asWas shuf s r k) := by
  unfold keygenGen
  rw [h.length_eq, select_perm asWas shuf h]
  split
  · trivial
  · split
    · exact fun a => filter_contains_perm h _ a
    · rfl
    · trivial

/-! ## order independence -/

theorem all_perm {α} {l' l : List α} (h : l'.Perm l) (p : α → Bool) : l'.all p = l.all p := by
  rw [Bool.eq_iff_iff]
  simp only [List.all_eq_true]
  exact ⟨fun H x hx => H x (h.mem_iff.2 hx), fun H x hx => H x (h.mem_iff.1 hx)⟩

theorem isIncluded_congr (ops : List Addr) {q' q : List Addr} {ready' ready : List Nat}
    (hq : ∀ a, q'.contains a = q.contains a) (hr : ready'.Perm ready) :
    isIncluded ops q' ready' = isIncluded ops q ready := by
  funext m
  simp only [isIncluded, hq, hr.contains_eq]

/-- C10, signing: whatever order the ready members were reported in, the excluded list (hence the
    included list) is identical — for every group layout, threshold, attempt and both sources. -/
theorem signing_selection_order_independent (shufRetry shufTrim : Nat → List Nat) (ops : List Addr)
    (threshold : Nat) {ready' ready : List Nat} (h : ready'.Perm ready) :
    signingSelection shufRetry shufTrim ops threshold ready'
      = signingSelection shufRetry shufTrim ops threshold ready := by
  unfold signingSelection readyOperators
  rw [all_perm h]
  split
  · rfl
  · have hs := signing_perm shufRetry (h.map (opOf ops)) threshold
    revert hs
    cases signing shufRetry (ready'.map (opOf ops)) threshold <;>
      cases signing shufRetry (ready.map (opOf ops)) threshold <;>
      intro hs <;> simp only [SameSet] at hs <;> try trivial
    dsimp only
    rw [isIncluded_congr ops hs h]

theorem dkgQualified_perm (shuf : Nat → List Nat) (ops : List Addr) (quorum attempt : Nat)
    {ready' ready : List Nat} (h : ready'.Perm ready) :
    SameSet (dkgQualified shuf ops quorum attempt ready') (dkgQualified shuf ops quorum attempt ready) := by
  unfold dkgQualified readyOperators
  have hp := h.map (opOf ops)
  split
  · exact fun a => hp.contains_eq
  · exact keygen_perm false shuf hp _ _

/-- C10, key generation: same statement for the DKG loop. -/
theorem dkg_selection_order_independent (shuf : Nat → List Nat) (ops : List Addr)
    (quorum attempt : Nat) {ready' ready : List Nat} (h : ready'.Perm ready) :
    dkgSelection shuf ops quorum attempt ready' = dkgSelection shuf ops quorum attempt ready := by
  unfold dkgSelection
  rw [all_perm h]
  split
  · rfl
  · have hs := dkgQualified_perm shuf ops quorum attempt h
    revert hs
    cases dkgQualified shuf ops quorum attempt ready' <;>
      cases dkgQualified shuf ops quorum attempt ready <;>
      intro hs <;> simp only [SameSet] at hs <;> try trivial
    dsimp only
    rw [isIncluded_congr ops hs h]

/-! ## shape of the result -/

theorem members_sorted (ops : List Addr) : (members ops).Pairwise (· < ·) := by
  unfold members
  rw [List.pairwise_map]
  exact List.pairwise_lt_range.imp (fun h => by omega)

theorem mem_members {ops : List Addr} {m : Nat} : m ∈ members ops ↔ 1 ≤ m ∧ m ≤ ops.length := by
  simp only [members, List.mem_map, List.mem_range]
  constructor
  · rintro ⟨i, hi, rfl⟩; omega
  · intro h; exact ⟨m - 1, by omega, by omega⟩

theorem signing_excluded_sublist {sr st ops thr ready ex}
    (h : signingSelection sr st ops thr ready = .ok ex) : ex.Sublist (members ops) := by
  unfold signingSelection at h
  split at h
  · cases h
  · split at h
    · dsimp only at h
      split at h <;> (injection h with h; subst h; exact List.filter_sublist)
    · cases h
    · cases h

theorem dkg_excluded_sublist {sh ops q a ready ex}
    (h : dkgSelection sh ops q a ready = .ok ex) : ex.Sublist (members ops) := by
  unfold dkgSelection at h
  split at h
  · cases h
  · split at h
    · injection h with h; subst h; exact List.filter_sublist
    · cases h
    · cases h

/-- the excluded list is an ascending duplicate-free list of member indexes of the group, so
    `included = members \ excluded` partitions `1..n` with it. -/
theorem excluded_ascending {ops : List Addr} {ex : List Nat} (h : ex.Sublist (members ops)) :
    ex.Pairwise (· < ·) ∧ ∀ m ∈ ex, 1 ≤ m ∧ m ≤ ops.length :=
  ⟨(members_sorted ops).sublist h, fun _ hm => mem_members.1 (h.subset hm)⟩

/-- signing: every included member (a group member that is not excluded) announced readiness. -/
theorem signing_included_ready {sr st ops thr ready ex}
    (h : signingSelection sr st ops thr ready = .ok ex) {m : Nat} (hm : m ∈ members ops) (hx : m ∉ ex) :
    m ∈ ready := by
  unfold signingSelection at h
  split at h
  · cases h
  · split at h
    · dsimp only at h
      split at h
      · injection h with h; subst h
        simp only [List.mem_filter, hm, true_and, Bool.or_eq_true, List.contains_iff_mem,
          Bool.not_eq_true', not_or] at hx
        have := hx.1
        simp only [Bool.not_eq_false, not_false_eq_true, Bool.not_eq_true, isIncluded,
          Bool.and_eq_false_iff, not_or, Bool.not_eq_false, List.contains_iff_mem] at this
        first | exact this.2 | simp_all [isIncluded]
      · injection h with h; subst h
        simp only [List.mem_filter, hm, true_and, Bool.not_eq_true', Bool.not_eq_false, isIncluded,
          Bool.and_eq_true, List.contains_iff_mem] at hx
        exact hx.2
    · cases h
    · cases h

/-- key generation: an included member announced readiness and its operator is in the qualified
    set returned by the retry selection (the ready operators themselves on the first attempt). -/
theorem dkg_included_subset {sh ops q a ready ex}
    (h : dkgSelection sh ops q a ready = .ok ex) {m : Nat} (hm : m ∈ members ops) (hx : m ∉ ex) :
    m ∈ ready ∧ ∃ qual, dkgQualified sh ops q a ready = .ok qual ∧ opOf ops m ∈ qual := by
  unfold dkgSelection at h
  split at h
  · cases h
  · split at h
    · rename_i qual hq
      injection h with h; subst h
      simp only [List.mem_filter, hm, true_and, Bool.not_eq_true', Bool.not_eq_false, isIncluded,
        Bool.and_eq_true, List.contains_iff_mem] at hx
      exact ⟨hx.2, qual, hq, hx.1⟩
    · cases h
    · cases h

/-! ## counting: exactly the threshold / at least the quorum -/

/-- for a well-formed ready list, the members of the group that are ready and satisfy `p` are as
    many as the entries of `ready` that satisfy `p` -/
theorem length_members_filter {ops : List Addr} {ready : List Nat} (hn : ready.Nodup)
    (hv : ∀ m ∈ ready, m ∈ members ops) (p : Nat → Bool) :
    ((members ops).filter (fun m => p m && ready.contains m)).length = (ready.filter p).length := by
  apply List.Perm.length_eq
  apply (List.perm_ext_iff_of_nodup ?_ ?_).2
  · intro m
    simp only [List.mem_filter, Bool.and_eq_true, List.contains_iff_mem]
    constructor
    · rintro ⟨_, h1, h2⟩; exact ⟨h2, h1⟩
    · rintro ⟨h1, h2⟩; exact ⟨hv m h1, h2, h1⟩
  · exact ((members_sorted ops).imp (fun h => Nat.ne_of_lt h)).sublist List.filter_sublist
  · exact hn.sublist List.filter_sublist

theorem length_filter_map {α β} (f : α → β) (p : β → Bool) (l : List α) :
    ((l.map f).filter p).length = (l.filter (fun x => p (f x))).length := by
  induction l with
  | nil => rfl
  | cons x xs ih => simp only [List.map_cons, List.filter_cons]; split <;> simp [ih]

/-- C10, key generation: when the retry selection succeeds (or on the first attempt, when the ready
    list itself has quorum), at least `quorum` members are included.  Rests on
    `C09.keygen_at_least_k`, i.e. on the repaired triplet stage. -/
theorem dkg_included_at_least_quorum {sh : Nat → List Nat} {ops : List Addr} {q a : Nat} {ready ex : List Nat}
    (hn : ready.Nodup) (hv : ∀ m ∈ ready, m ∈ members ops) (hq : q ≤ ready.length)
    (h : dkgSelection sh ops q a ready = .ok ex) : q ≤ (includedOf ops ex).length := by
  unfold dkgSelection at h
  split at h
  · cases h
  · split at h
    · rename_i qual hqual
      injection h with h; subst h
      -- included = members that are ready and whose operator is qualified
      have hinc : includedOf ops ((members ops).filter (fun m => !isIncluded ops qual ready m))
          = (members ops).filter (fun m => (fun m => qual.contains (opOf ops m)) m && ready.contains m) := by
        unfold includedOf
        apply List.filter_congr
        intro m hm
        simp [List.mem_filter, hm, isIncluded]
      rw [hinc, length_members_filter hn hv]
      -- the qualified seats are the ready seats of qualified operators
      have hsel : IsSelection (ready.map (opOf ops)) qual ∧ q ≤ qual.length := by
        unfold dkgQualified readyOperators at hqual
        split at hqual
        · injection hqual with hqual; subst hqual
          exact ⟨⟨fun _ => true, (List.filter_eq_self.2 (fun _ _ => rfl)).symm⟩, by simpa using hq⟩
        · exact ⟨keygen_isSelection hqual, keygen_at_least_k hqual⟩
      obtain ⟨⟨p, hp⟩, hlen⟩ := hsel
      have : qual = (ready.map (opOf ops)).filter (fun o => qual.contains o) := by
        conv => lhs; rw [hp]
        rw [hp, filter_contains_filter]
      rw [this, length_filter_map] at hlen
      exact hlen
    · cases h
    · cases h

/-! ## signing: exactly the honest threshold is included -/

theorem all_valid_of_members {ops : List Addr} {ready : List Nat} (hv : ∀ m ∈ ready, m ∈ members ops) :
    ready.all (validMember ops) = true := by
  rw [List.all_eq_true]
  intro m hm
  simpa [validMember] using mem_members.1 (hv m hm)

/-- a duplicate-free list split in two: filtering out the tail leaves the head -/
theorem filter_not_tail {α} [BEq α] [LawfulBEq α] (a b : List α) (hn : (a ++ b).Nodup) :
    (a ++ b).filter (fun x => !b.contains x) = a := by
  rw [List.filter_append]
  have hdis : ∀ x ∈ a, x ∉ b := fun x hx hb => (List.nodup_append.1 hn).2.2 x hx x hb rfl
  have h1 : a.filter (fun x => !b.contains x) = a := by
    apply List.filter_eq_self.2
    intro x hx
    simpa using hdis x hx
  have h2 : b.filter (fun x => !b.contains x) = [] := by
    apply List.filter_eq_nil_iff.2
    intro x hx
    simpa using hx
  rw [h1, h2, List.append_nil]

/-- the qualified seats returned by the retry package are as many as the ready members whose
    operator is qualified -/
theorem qualified_length {ops : List Addr} {ready : List Nat} {q : List Addr}
    (hs : IsSelection (ready.map (opOf ops)) q) :
    (ready.filter (fun m => q.contains (opOf ops m))).length = q.length := by
  obtain ⟨p, hp⟩ := hs
  have : q = (ready.map (opOf ops)).filter (fun o => q.contains o) := by
    conv => lhs; rw [hp]
    rw [hp, filter_contains_filter]
  conv => rhs; rw [this]
  rw [length_filter_map]

theorem includedOf_filter_not (ops : List Addr) (p : Nat → Bool) :
    includedOf ops ((members ops).filter (fun m => !p m)) = (members ops).filter p := by
  unfold includedOf
  apply List.filter_congr
  intro m hm
  by_cases hp : p m = true <;> simp [List.mem_filter, hm, hp]

/-- C10, signing: for real shuffles, a duplicate-free ready list of group members with at least
    `threshold` entries yields a selection whose included members (the group members that are not
    excluded) are exactly `threshold` many, all of them ready. -/
theorem signing_included_exact {sr st : Nat → List Nat} (hsr : ValidShuf sr) (hst : ValidShuf st)
    {ops : List Addr} {thr : Nat} {ready : List Nat} (hn : ready.Nodup)
    (hv : ∀ m ∈ ready, m ∈ members ops) (ht : thr ≤ ready.length) :
    ∃ ex, signingSelection sr st ops thr ready = .ok ex
      ∧ (includedOf ops ex).length = thr ∧ ∀ m ∈ includedOf ops ex, m ∈ ready := by
  obtain ⟨q, hq, hqlen⟩ := signing_at_least_k hsr (ready.map (opOf ops)) thr (by simpa using ht)
  have hinc0 : ((members ops).filter (isIncluded ops q ready)).length = q.length := by
    have := length_members_filter hn hv (fun m => q.contains (opOf ops m))
    rw [show (isIncluded ops q ready) = (fun m => (fun m => q.contains (opOf ops m)) m && ready.contains m) from rfl,
      this, qualified_length (signing_isSelection hq)]
  have hsub : ∀ ex, signingSelection sr st ops thr ready = .ok ex → ∀ m ∈ includedOf ops ex, m ∈ ready := by
    intro ex hex m hm
    have := List.mem_filter.1 hm
    exact signing_included_ready hex this.1 (by simpa using this.2)
  unfold signingSelection readyOperators at hsub ⊢
  rw [if_neg (by rw [all_valid_of_members hv]; simp)] at hsub ⊢
  rw [hq] at hsub ⊢
  dsimp only at hsub ⊢
  by_cases hlt : thr < ((members ops).filter (isIncluded ops q ready)).length
  · rw [if_pos hlt] at hsub ⊢
    refine ⟨_, rfl, ?_, hsub _ rfl⟩
    -- included after trimming = the first `thr` entries of the shuffled included list
    generalize hI : (members ops).filter (isIncluded ops q ready) = inc at hlt hinc0 ⊢
    have hperm : (applyPerm (st inc.length) inc).Perm inc := applyPerm_perm (hst _)
    have hincnd : inc.Nodup := by
      rw [← hI]; exact ((members_sorted ops).imp (fun h => Nat.ne_of_lt h)).sublist List.filter_sublist
    generalize hS : applyPerm (st inc.length) inc = sh at hperm ⊢
    have hshnd : sh.Nodup := hperm.nodup_iff.2 hincnd
    have hfinal : includedOf ops ((members ops).filter (fun m =>
          ((members ops).filter (fun m => !isIncluded ops q ready m)).contains m || (sh.drop thr).contains m))
        = inc.filter (fun m => !(sh.drop thr).contains m) := by
      unfold includedOf
      rw [← hI, List.filter_filter]
      apply List.filter_congr
      intro m hm
      by_cases hi : isIncluded ops q ready m = true <;> by_cases hd : m ∈ sh.drop thr <;>
        simp [List.mem_filter, hm, hi, hd]
    rw [hfinal, (hperm.symm.filter _).length_eq]
    have := filter_not_tail (sh.take thr) (sh.drop thr) (by rw [List.take_append_drop]; exact hshnd)
    rw [List.take_append_drop] at this
    rw [this, List.length_take]
    have : sh.length = inc.length := hperm.length_eq
    omega
  · rw [if_neg hlt] at hsub ⊢
    refine ⟨_, rfl, ?_, hsub _ rfl⟩
    rw [includedOf_filter_not]
    omega

/-! ## `sort.Slice` on distinct member indexes is the filter of the ascending member list -/

/-- Sorting any duplicate-free list `l` of elements of an ascending list `mem` gives
    `mem.filter (· ∈ l)` — this is how the model writes the two `sort.Slice` calls of
    `excludedMembersIndexes`. -/
theorem sort_is_filter (mem : List Nat) (hm : mem.Pairwise (· < ·)) (l : List Nat) (hn : l.Nodup)
    (hs : ∀ x ∈ l, x ∈ mem) :
    l.mergeSort (fun a b => decide (a ≤ b)) = mem.filter (fun x => l.contains x) := by
  apply List.Perm.eq_of_pairwise (le := fun a b => decide (a ≤ b) = true)
  · intro a b _ _ h1 h2
    simp at h1 h2
    exact Nat.le_antisymm h1 h2
  · apply List.pairwise_mergeSort
    · intro a b c h1 h2; simp at h1 h2 ⊢; exact Nat.le_trans h1 h2
    · intro a b; simp; exact Nat.le_total a b
  · exact (hm.filter _).imp (fun h => by simpa using Nat.le_of_lt h)
  · refine (List.mergeSort_perm l _).trans ?_
    apply (List.perm_ext_iff_of_nodup hn ((hm.imp (fun h => Nat.ne_of_lt h)).filter _)).2
    intro a
    simp only [List.mem_filter, List.contains_iff_mem]
    exact ⟨fun h => ⟨hs a h, h⟩, fun h => h.2⟩

/-- the final `sort.Slice(excludedMembersIndexes)` of the code: `excluded ++ surplus` sorted is the
    list the model returns -/
theorem signing_sort_faithful (ops : List Addr) (excluded surplus : List Nat)
    (hn : (excluded ++ surplus).Nodup) (hs : ∀ x ∈ excluded ++ surplus, x ∈ members ops) :
    (excluded ++ surplus).mergeSort (fun a b => decide (a ≤ b))
      = (members ops).filter (fun m => excluded.contains m || surplus.contains m) := by
  rw [sort_is_filter (members ops) (members_sorted ops) _ hn hs]
  apply List.filter_congr
  intro m _
  simp [List.contains_iff_mem, List.mem_append]

/-- the "sort in ascending order just in case" of the included list is a no-op: the list is built
    in ascending member order -/
theorem included_sort_noop (ops : List Addr) (p : Nat → Bool) :
    ((members ops).filter p).mergeSort (fun a b => decide (a ≤ b)) = (members ops).filter p :=
  List.mergeSort_of_pairwise
    (((members_sorted ops).filter p).imp (fun h => by simpa using Nat.le_of_lt h))


/-! ## monitor soundness: the monitors accept every model output -/

theorem isStrictlyAscending_of_pairwise : ∀ {l : List Nat}, l.Pairwise (· < ·) → isStrictlyAscending l = true
  | [], _ => rfl
  | [_], _ => rfl
  | a :: b :: rest, h => by
    simp only [isStrictlyAscending, Bool.and_eq_true, decide_eq_true_eq]
    exact ⟨(List.pairwise_cons.1 h).1 b (by simp),
      isStrictlyAscending_of_pairwise (List.pairwise_cons.1 h).2⟩

theorem wellFormed_iff {ops : List Addr} {ready : List Nat} :
    wellFormedReady ops ready = true ↔ (∀ m ∈ ready, m ∈ members ops) ∧ ready.Nodup := by
  simp only [wellFormedReady, Bool.and_eq_true, List.all_eq_true, validMember, decide_eq_true_eq]
  constructor
  · rintro ⟨h1, h2⟩; exact ⟨fun m hm => mem_members.2 (h1 m hm), h2⟩
  · rintro ⟨h1, h2⟩; exact ⟨fun m hm => mem_members.1 (h1 m hm), h2⟩

theorem holdsCommon_of {ops : List Addr} {ready ex : List Nat} (hsub : ex.Sublist (members ops))
    (hinc : ∀ m ∈ includedOf ops ex, m ∈ ready) : holdsCommon ops ready ex = true := by
  obtain ⟨h1, h2⟩ := excluded_ascending hsub
  simp only [holdsCommon, Bool.and_eq_true, List.all_eq_true, validMember, decide_eq_true_eq,
    List.contains_iff_mem]
  exact ⟨⟨isStrictlyAscending_of_pairwise h1, h2⟩, hinc⟩

theorem signing_result_cases (shuf : Nat → List Nat) (seats : List Addr) (k : Nat) :
    (∃ q, signing shuf seats k = .ok q) ∨ signing shuf seats k = .panic
      ∨ (signing shuf seats k = .tooMany ∧ seats.length < k) := by
  unfold signing
  split
  · right; right; exact ⟨rfl, by assumption⟩
  · dsimp only
    split
    · right; left; rfl
    · left; exact ⟨_, rfl⟩

theorem signingSelection_err {sr st : Nat → List Nat} {ops : List Addr} {thr : Nat} {ready : List Nat}
    (h : signingSelection sr st ops thr ready = .err) : ready.length < thr := by
  unfold signingSelection readyOperators at h
  split at h
  · cases h
  · rcases signing_result_cases sr (ready.map (opOf ops)) thr with ⟨q, hq⟩ | hq | ⟨_, hlen⟩
    · rw [hq] at h; dsimp only at h; split at h <;> cases h
    · rw [hq] at h; cases h
    · simpa using hlen

/-- the signing monitor accepts every output of the signing selection model (real shuffles) -/
theorem holds_signing_selection {sr st : Nat → List Nat} (hsr : ValidShuf sr) (hst : ValidShuf st)
    (ops : List Addr) (thr : Nat) (ready : List Nat) :
    holdsSigning ops thr ready (signingSelection sr st ops thr ready) = true := by
  cases h : signingSelection sr st ops thr ready with
  | err => simpa [holdsSigning] using signingSelection_err h
  | ok ex =>
    by_cases hw : wellFormedReady ops ready = true
    · obtain ⟨hv, hn⟩ := wellFormed_iff.1 hw
      have ht : thr ≤ ready.length := by
        rcases Nat.lt_or_ge ready.length thr with hlt | hge
        · exfalso
          unfold signingSelection readyOperators at h
          rw [if_neg (by rw [all_valid_of_members hv]; simp)] at h
          have : signing sr (ready.map (opOf ops)) thr = .tooMany := by
            unfold signing; rw [if_pos (by simpa using hlt)]
          rw [this] at h; cases h
        · exact hge
      obtain ⟨ex', hex', hlen, hsub⟩ := signing_included_exact hsr hst hn hv ht
      rw [h] at hex'; injection hex' with hex'; subst hex'
      simp [holdsSigning, hw, holdsCommon_of (signing_excluded_sublist h) hsub, hlen]
    · simp [holdsSigning, hw]
  | panic =>
    by_cases hw : wellFormedReady ops ready = true
    · exfalso
      obtain ⟨hv, hn⟩ := wellFormed_iff.1 hw
      unfold signingSelection readyOperators at h
      rw [if_neg (by rw [all_valid_of_members hv]; simp)] at h
      rcases Nat.lt_or_ge ready.length thr with hlt | hge
      · have : signing sr (ready.map (opOf ops)) thr = .tooMany := by
          unfold signing; rw [if_pos (by simpa using hlt)]
        rw [this] at h; cases h
      · obtain ⟨q, hq, _⟩ := signing_at_least_k hsr (ready.map (opOf ops)) thr (by simpa using hge)
        rw [hq] at h; dsimp only at h; split at h <;> cases h
    · simp [holdsSigning, hw]

theorem dkgQualified_no_panic {sh : Nat → List Nat} (hv : ValidShuf sh) (ops : List Addr) (q a : Nat)
    (ready : List Nat) : dkgQualified sh ops q a ready ≠ .panic := by
  unfold dkgQualified
  split
  · simp
  · exact keygen_no_panic hv false _ _ _

theorem dkg_ok_shape {sh ops q a ready ex} (h : dkgSelection sh ops q a ready = .ok ex) :
    ∃ qual, ex = (members ops).filter (fun m => !isIncluded ops qual ready m) := by
  unfold dkgSelection at h
  split at h
  · cases h
  · split at h
    · injection h with h; exact ⟨_, h.symm⟩
    · cases h
    · cases h

/-- the DKG monitor accepts every output of the DKG selection model (real shuffle) -/
theorem holds_dkg_selection {sh : Nat → List Nat} (hsh : ValidShuf sh) (ops : List Addr) (q a : Nat)
    (ready : List Nat) : holdsDkg ops q ready (dkgSelection sh ops q a ready) = true := by
  cases h : dkgSelection sh ops q a ready with
  | err => rfl
  | panic =>
    by_cases hw : wellFormedReady ops ready = true
    · exfalso
      obtain ⟨hv, _⟩ := wellFormed_iff.1 hw
      unfold dkgSelection at h
      rw [if_neg (by rw [all_valid_of_members hv]; simp)] at h
      have := dkgQualified_no_panic hsh ops q a ready
      split at h
      · cases h
      · rename_i hp; exact this hp
      · cases h
    · simp [holdsDkg, hw]
  | ok ex =>
    by_cases hw : wellFormedReady ops ready = true
    · by_cases hq : q ≤ ready.length
      · obtain ⟨hv, hn⟩ := wellFormed_iff.1 hw
        have hinc : ∀ m ∈ includedOf ops ex, m ∈ ready := by
          intro m hm
          have := List.mem_filter.1 hm
          exact (dkg_included_subset h this.1 (by simpa using this.2)).1
        have hquo := dkg_included_at_least_quorum hn hv hq h
        have hat : operatorsAtomic ops ready ex = true := by
          obtain ⟨qual, rfl⟩ := dkg_ok_shape h
          simp only [operatorsAtomic, List.all_eq_true, Bool.or_eq_true, bne_iff_ne, ne_eq, beq_iff_eq]
          intro m hm m' hm'
          by_cases he : opOf ops m = opOf ops m'
          · right
            rw [Bool.eq_iff_iff]
            have c1 : ready.contains m = true := by simpa using hm
            have c2 : ready.contains m' = true := by simpa using hm'
            simp only [List.contains_iff_mem, List.mem_filter, hv m hm, hv m' hm', true_and, isIncluded, he,
              c1, c2]
          · left; exact he
        simp [holdsDkg, hw, holdsCommon_of (dkg_excluded_sublist h) hinc, hquo, hat]
      · simp [holdsDkg, hw, Nat.lt_of_not_le hq]
    · simp [holdsDkg, hw]

/-! ## non-vacuity -/

example : signingSelection (fun n => List.range n) (fun n => List.range n) [7, 7, 8, 9, 9] 3 [5, 1, 2, 3]
    = .ok [4, 5] := by decide
example : signingSelection (fun n => List.range n) (fun n => List.range n) [7, 7, 8, 9, 9] 2 [5, 1, 2, 3]
    = .ok [3, 4, 5] := by decide                                                           -- trimming is not needed
example : signingSelection (fun n => List.range n) (fun n => List.range n) [7, 7, 8, 9, 9] 1 [5, 1, 2, 3]
    = .ok [2, 3, 4, 5] := by decide                                                        -- surplus member 2 trimmed
example : holdsSigning [7, 7, 8, 9, 9] 3 [5, 1, 2, 3] (.ok [4, 5]) = true := by decide
example : holdsSigning [7, 7, 8, 9, 9] 3 [5, 1, 2, 3] (.ok [3, 5]) = false := by decide   -- 4 included but not ready
example : holdsSigning [7, 7, 8, 9, 9] 3 [5, 1, 2, 3] (.ok [4]) = false := by decide      -- 4 included, not 3
example : dkgSelection (fun n => List.range n) [7, 7, 8, 9, 9] 3 2 [1, 2, 3, 4, 5] = .ok [3] := by decide
example : dkgSelection (fun n => List.range n) [7, 7, 8, 9, 9] 3 1 [1, 2, 3, 4, 5] = .ok [] := by decide
example : holdsDkg [7, 7, 8, 9, 9] 3 [1, 2, 3, 4, 5] (.ok [1, 2]) = true := by decide
example : holdsDkg [7, 7, 8, 9, 9] 3 [1, 2, 3, 4, 5] (.ok [1]) = false := by decide        -- operator 7 split
example : holdsDkg [7, 7, 8, 9, 9] 4 [1, 2, 3, 4, 5] (.ok [1, 2]) = false := by decide     -- below quorum

end KeepVerif.C10
