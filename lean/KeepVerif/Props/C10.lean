import KeepVerif.Model.C10
import KeepVerif.Props.C09
/-!
# C10 — Attempt member selection: every member derives the same exact participants

Theorems over `Model/C10.lean` (`performMembersSelection` of the signing and DKG retry loops).
The selection does not take the member's own index, so "every member computes the same lists" is:
the result is a function of the group, the attempt's random sources and the ready *set* — the order
in which the announcer reported the ready members does not matter (`…_order_independent`).
-/
namespace KeepVerif.C10
open KeepVerif.C09

/-! ## the retry package only sees the multiset of seats -/

theorem bound_perm {s' s : List Addr} (h : s'.Perm s) : bound s' = bound s := by
  induction h with
  | nil => rfl
  | cons x _ ih => show max (x + 1) (bound _) = max (x + 1) (bound _); rw [ih]
  | swap x y l =>
    show max (y + 1) (max (x + 1) (bound l)) = max (x + 1) (max (y + 1) (bound l))
    rw [← Nat.max_assoc, Nat.max_comm (y + 1), Nat.max_assoc]
  | trans _ _ ih1 ih2 => exact ih1.trans ih2

theorem sortedOps_perm {s' s : List Addr} (h : s'.Perm s) : sortedOps s' = sortedOps s := by
  unfold sortedOps
  rw [bound_perm h]
  apply List.filter_congr
  intro a _
  exact h.contains_eq

theorem seatCount_perm {s' s : List Addr} (h : s'.Perm s) (o : Addr) : seatCount o s' = seatCount o s :=
  h.count_eq o

theorem accept_congr {s' s : List Addr} (hc : ∀ o, seatCount o s' = seatCount o s) (k : Nat) :
    ∀ (L : List Addr) (acc : Nat), accept s' k acc L = accept s k acc L
  | [], acc => by simp [accept]
  | o :: rest, acc => by simp only [accept, hc, accept_congr hc k rest]

/-- two results that qualify the same operators -/
def SameSet : Res → Res → Prop
  | .ok q', .ok q => ∀ a, q'.contains a = q.contains a
  | .tooMany, .tooMany => True
  | .retries a, .retries b => a = b
  | .panic, .panic => True
  | _, _ => False

theorem filter_contains_perm {s' s : List Addr} (h : s'.Perm s) (p : Addr → Bool) (a : Addr) :
    (s'.filter p).contains a = (s.filter p).contains a :=
  (h.filter p).contains_eq

theorem signing_perm (shuf : Nat → List Nat) {s' s : List Addr} (h : s'.Perm s) (k : Nat) :
    SameSet (signing shuf s' k) (signing shuf s k) := by
  unfold signing
  simp only [h.length_eq, sortedOps_perm h, accept_congr (seatCount_perm h)]
  split
  · trivial
  · split
    · trivial
    · exact fun a => filter_contains_perm h _ a

theorem eligible_perm {s' s : List Addr} (h : s'.Perm s) (k : Nat) : eligible s' k = eligible s k := by
  simp only [eligible, seatCount_perm h, h.length_eq, sortedOps_perm h]

theorem eligiblePairs_perm {s' s : List Addr} (h : s'.Perm s) (ops : List Addr) (k : Nat) :
    eligiblePairs s' ops k = eligiblePairs s ops k := by
  simp only [eligiblePairs, seatCount_perm h, h.length_eq]

theorem eligibleTriplets_perm (asWas : Bool) {s' s : List Addr} (h : s'.Perm s) (ops : List Addr) (k : Nat) :
    eligibleTriplets asWas s' ops k = eligibleTriplets asWas s ops k := by
  simp only [eligibleTriplets, seatCount_perm h, h.length_eq]

theorem select_perm (asWas : Bool) (shuf : Nat → List Nat) {s' s : List Addr} (h : s'.Perm s) (r k : Nat) :
    select asWas shuf s' r k = select asWas shuf s r k := by
  unfold select
  simp only [eligible_perm h, eligiblePairs_perm h, eligibleTriplets_perm asWas h]

theorem keygen_perm (asWas : Bool) (shuf : Nat → List Nat) {s' s : List Addr} (h : s'.Perm s) (r k : Nat) :
    SameSet (keygenGen asWas shuf s' r k) (keygenGen asWas shuf s r k) := by
  unfold keygenGen
  rw [h.length_eq, select_perm asWas shuf h]
  split
  · trivial
  · split
    · exact fun a => filter_contains_perm h _ a
    · rfl
    · trivial

/-! ## order independence -/

theorem all_perm {α} {l' l : List α} (h : l'.Perm l) (p : α → Bool) : l'.all p = l.all p := by
  rw [Bool.eq_iff_iff]
  simp only [List.all_eq_true]
  exact ⟨fun H x hx => H x (h.mem_iff.2 hx), fun H x hx => H x (h.mem_iff.1 hx)⟩

theorem isIncluded_congr (ops : List Addr) {q' q : List Addr} {ready' ready : List Nat}
    (hq : ∀ a, q'.contains a = q.contains a) (hr : ready'.Perm ready) :
    isIncluded ops q' ready' = isIncluded ops q ready := by
  funext m
  simp only [isIncluded, hq, hr.contains_eq]

/-- C10, signing: whatever order the ready members were reported in, the excluded list (hence the
    included list) is identical — for every group layout, threshold, attempt and both sources. -/
theorem signing_selection_order_independent (shufRetry shufTrim : Nat → List Nat) (ops : List Addr)
    (threshold : Nat) {ready' ready : List Nat} (h : ready'.Perm ready) :
    signingSelection shufRetry shufTrim ops threshold ready'
      = signingSelection shufRetry shufTrim ops threshold ready := by
  unfold signingSelection readyOperators
  rw [all_perm h]
  split
  · rfl
  · have hs := signing_perm shufRetry (h.map (opOf ops)) threshold
    revert hs
    cases signing shufRetry (ready'.map (opOf ops)) threshold <;>
      cases signing shufRetry (ready.map (opOf ops)) threshold <;>
      intro hs <;> simp only [SameSet] at hs <;> try trivial
    dsimp only
    rw [isIncluded_congr ops hs h]

theorem dkgQualified_perm (shuf : Nat → List Nat) (ops : List Addr) (quorum attempt : Nat)
    {ready' ready : List Nat} (h : ready'.Perm ready) :
    SameSet (dkgQualified shuf ops quorum attempt ready') (dkgQualified shuf ops quorum attempt ready) := by
  unfold dkgQualified readyOperators
  have hp := h.map (opOf ops)
  split
  · exact fun a => hp.contains_eq
  · exact keygen_perm false shuf hp _ _

/-- C10, key generation: same statement for the DKG loop. -/
theorem dkg_selection_order_independent (shuf : Nat → List Nat) (ops : List Addr)
    (quorum attempt : Nat) {ready' ready : List Nat} (h : ready'.Perm ready) :
    dkgSelection shuf ops quorum attempt ready' = dkgSelection shuf ops quorum attempt ready := by
  unfold dkgSelection
  rw [all_perm h]
  split
  · rfl
  · have hs := dkgQualified_perm shuf ops quorum attempt h
    revert hs
    cases dkgQualified shuf ops quorum attempt ready' <;>
      cases dkgQualified shuf ops quorum attempt ready <;>
      intro hs <;> simp only [SameSet] at hs <;> try trivial
    dsimp only
    rw [isIncluded_congr ops hs h]

/-! ## shape of the result -/

theorem members_sorted (ops : List Addr) : (members ops).Pairwise (· < ·) := by
  unfold members
  rw [List.pairwise_map]
  exact List.pairwise_lt_range.imp (fun h => by omega)

theorem mem_members {ops : List Addr} {m : Nat} : m ∈ members ops ↔ 1 ≤ m ∧ m ≤ ops.length := by
  simp only [members, List.mem_map, List.mem_range]
  constructor
  · rintro ⟨i, hi, rfl⟩; omega
  · intro h; exact ⟨m - 1, by omega, by omega⟩

theorem signing_excluded_sublist {sr st ops thr ready ex}
    (h : signingSelection sr st ops thr ready = .ok ex) : ex.Sublist (members ops) := by
  unfold signingSelection at h
  split at h
  · cases h
  · split at h
    · dsimp only at h
      split at h <;> (injection h with h; subst h; exact List.filter_sublist)
    · cases h
    · cases h

theorem dkg_excluded_sublist {sh ops q a ready ex}
    (h : dkgSelection sh ops q a ready = .ok ex) : ex.Sublist (members ops) := by
  unfold dkgSelection at h
  split at h
  · cases h
  · split at h
    · injection h with h; subst h; exact List.filter_sublist
    · cases h
    · cases h

/-- the excluded list is an ascending duplicate-free list of member indexes of the group, so
    `included = members \ excluded` partitions `1..n` with it. -/
theorem excluded_ascending {ops : List Addr} {ex : List Nat} (h : ex.Sublist (members ops)) :
    ex.Pairwise (· < ·) ∧ ∀ m ∈ ex, 1 ≤ m ∧ m ≤ ops.length :=
  ⟨(members_sorted ops).sublist h, fun _ hm => mem_members.1 (h.subset hm)⟩

/-- signing: every included member (a group member that is not excluded) announced readiness. -/
theorem signing_included_ready {sr st ops thr ready ex}
    (h : signingSelection sr st ops thr ready = .ok ex) {m : Nat} (hm : m ∈ members ops) (hx : m ∉ ex) :
    m ∈ ready := by
  unfold signingSelection at h
  split at h
  · cases h
  · split at h
    · dsimp only at h
      split at h
      · injection h with h; subst h
        simp only [List.mem_filter, hm, true_and, Bool.or_eq_true, List.contains_iff_mem,
          Bool.not_eq_true', not_or] at hx
        have := hx.1
        simp only [Bool.not_eq_false, not_false_eq_true, Bool.not_eq_true, isIncluded,
          Bool.and_eq_false_iff, not_or, Bool.not_eq_false, List.contains_iff_mem] at this
        first | exact this.2 | simp_all [isIncluded]
      · injection h with h; subst h
        simp only [List.mem_filter, hm, true_and, Bool.not_eq_true', Bool.not_eq_false, isIncluded,
          Bool.and_eq_true, List.contains_iff_mem] at hx
        exact hx.2
    · cases h
    · cases h

/-- key generation: an included member announced readiness and its operator is in the qualified
    set returned by the retry selection (the ready operators themselves on the first attempt). -/
theorem dkg_included_subset {sh ops q a ready ex}
    (h : dkgSelection sh ops q a ready = .ok ex) {m : Nat} (hm : m ∈ members ops) (hx : m ∉ ex) :
    m ∈ ready ∧ ∃ qual, dkgQualified sh ops q a ready = .ok qual ∧ opOf ops m ∈ qual := by
  unfold dkgSelection at h
  split at h
  · cases h
  · split at h
    · rename_i qual hq
      injection h with h; subst h
      simp only [List.mem_filter, hm, true_and, Bool.not_eq_true', Bool.not_eq_false, isIncluded,
        Bool.and_eq_true, List.contains_iff_mem] at hx
      exact ⟨hx.2, qual, hq, hx.1⟩
    · cases h
    · cases h

/-! ## counting: exactly the threshold / at least the quorum -/

/-- for a well-formed ready list, the members of the group that are ready and satisfy `p` are as
    many as the entries of `ready` that satisfy `p` -/
theorem length_members_filter {ops : List Addr} {ready : List Nat} (hn : ready.Nodup)
    (hv : ∀ m ∈ ready, m ∈ members ops) (p : Nat → Bool) :
    ((members ops).filter (fun m => p m && ready.contains m)).length = (ready.filter p).length := by
  apply List.Perm.length_eq
  apply (List.perm_ext_iff_of_nodup ?_ ?_).2
  · intro m
    simp only [List.mem_filter, Bool.and_eq_true, List.contains_iff_mem]
    constructor
    · rintro ⟨_, h1, h2⟩; exact ⟨h2, h1⟩
    · rintro ⟨h1, h2⟩; exact ⟨hv m h1, h2, h1⟩
  · exact ((members_sorted ops).imp (fun h => Nat.ne_of_lt h)).sublist List.filter_sublist
  · exact hn.sublist List.filter_sublist

theorem length_filter_map {α β} (f : α → β) (p : β → Bool) (l : List α) :
    ((l.map f).filter p).length = (l.filter (fun x => p (f x))).length := by
  induction l with
  | nil => rfl
  | cons x xs ih => simp only [List.map_cons, List.filter_cons]; split <;> simp [ih]

/-- C10, key generation: when the retry selection succeeds (or on the first attempt, when the ready
    list itself has quorum), at least `quorum` members are included.  Rests on
    `C09.keygen_at_least_k`, i.e. on the repaired triplet stage. -/
theorem dkg_included_at_least_quorum {sh : Nat → List Nat} {ops : List Addr} {q a : Nat} {ready ex : List Nat}
    (hn : ready.Nodup) (hv : ∀ m ∈ ready, m ∈ members ops) (hq : q ≤ ready.length)
    (h : dkgSelection sh ops q a ready = .ok ex) : q ≤ (includedOf ops ex).length := by
  unfold dkgSelection at h
  split at h
  · cases h
  · split at h
    · rename_i qual hqual
      injection h with h; subst h
      -- included = members that are ready and whose operator is qualified
      have hinc : includedOf ops ((members ops).filter (fun m => !isIncluded ops qual ready m))
          = (members ops).filter (fun m => (fun m => qual.contains (opOf ops m)) m && ready.contains m) := by
        unfold includedOf
        apply List.filter_congr
        intro m hm
        simp [List.mem_filter, hm, isIncluded]
      rw [hinc, length_members_filter hn hv]
      -- the qualified seats are the ready seats of qualified operators
      have hsel : IsSelection (ready.map (opOf ops)) qual ∧ q ≤ qual.length := by
        unfold dkgQualified readyOperators at hqual
        split at hqual
        · injection hqual with hqual; subst hqual
          exact ⟨⟨fun _ => true, (List.filter_eq_self.2 (fun _ _ => rfl)).symm⟩, by simpa using hq⟩
        · exact ⟨keygen_isSelection hqual, keygen_at_least_k hqual⟩
      obtain ⟨⟨p, hp⟩, hlen⟩ := hsel
      have : qual = (ready.map (opOf ops)).filter (fun o => qual.contains o) := by
        conv => lhs; rw [hp]
        rw [hp, filter_contains_filter]
      rw [this, length_filter_map] at hlen
      exact hlen
    · cases h
    · cases h

/-! ## monitor soundness / non-vacuity -/

example : signingSelection (fun n => List.range n) (fun n => List.range n) [7, 7, 8, 9, 9] 3 [5, 1, 2, 3]
    = .ok [4, 5] := by decide
example : signingSelection (fun n => List.range n) (fun n => List.range n) [7, 7, 8, 9, 9] 2 [5, 1, 2, 3]
    = .ok [3, 4, 5] := by decide                                                           -- trimming is not needed
example : signingSelection (fun n => List.range n) (fun n => List.range n) [7, 7, 8, 9, 9] 1 [5, 1, 2, 3]
    = .ok [2, 3, 4, 5] := by decide                                                        -- surplus member 2 trimmed
example : holdsSigning [7, 7, 8, 9, 9] 3 [5, 1, 2, 3] (.ok [4, 5]) = true := by decide
example : holdsSigning [7, 7, 8, 9, 9] 3 [5, 1, 2, 3] (.ok [3, 5]) = false := by decide   -- 4 included but not ready
example : holdsSigning [7, 7, 8, 9, 9] 3 [5, 1, 2, 3] (.ok [4]) = false := by decide      -- 4 included, not 3
example : dkgSelection (fun n => List.range n) [7, 7, 8, 9, 9] 3 2 [1, 2, 3, 4, 5] = .ok [3] := by decide
example : dkgSelection (fun n => List.range n) [7, 7, 8, 9, 9] 3 1 [1, 2, 3, 4, 5] = .ok [] := by decide
example : holdsDkg [7, 7, 8, 9, 9] 3 [1, 2, 3, 4, 5] (.ok [1, 2]) = true := by decide
example : holdsDkg [7, 7, 8, 9, 9] 3 [1, 2, 3, 4, 5] (.ok [1]) = false := by decide        -- operator 7 split
example : holdsDkg [7, 7, 8, 9, 9] 4 [1, 2, 3, 4, 5] (.ok [1, 2]) = false := by decide     -- below quorum

end KeepVerif.C10
