import KeepVerif.Model.C24
/-!
# C24 — Coordination followers accept only the leader's valid proposal

Theorems over `Model/C24.lean` for *all* message histories (any length, any interleaving of
impersonation, wrong window / wallet, disallowed actions, duplicates, other payload types,
silence).  Core Lean only.
-/
namespace KeepVerif.C24

/-! ## member indexes -/

theorem mem_membersFrom (i x : Nat) (seats : List Nat) (op : Nat) :
    x ∈ membersFrom i seats op ↔ i ≤ x ∧ seats[x - i]? = some op := by
  induction seats generalizing i with
  | nil => simp [membersFrom]
  | cons s ss ih =>
    unfold membersFrom
    by_cases hs : s = op
    · rw [if_pos hs, List.mem_cons, ih]
      constructor
      · rintro (rfl | ⟨h1, h2⟩)
        · simp [hs]
        · refine ⟨by omega, ?_⟩
          have : x - i = (x - (i + 1)) + 1 := by omega
          rw [this, List.getElem?_cons_succ]; exact h2
      · rintro ⟨h1, h2⟩
        by_cases hx : x = i
        · exact Or.inl hx
        · right
          refine ⟨by omega, ?_⟩
          have : x - i = (x - (i + 1)) + 1 := by omega
          rw [this, List.getElem?_cons_succ] at h2; exact h2
    · rw [if_neg hs, ih]
      constructor
      · rintro ⟨h1, h2⟩
        refine ⟨by omega, ?_⟩
        have : x - i = (x - (i + 1)) + 1 := by omega
        rw [this, List.getElem?_cons_succ]; exact h2
      · rintro ⟨h1, h2⟩
        by_cases hx : x = i
        · subst hx; simp at h2; exact absurd h2 hs
        · refine ⟨by omega, ?_⟩
          have : x - i = (x - (i + 1)) + 1 := by omega
          rw [this, List.getElem?_cons_succ] at h2; exact h2

theorem membersFrom_head_le (i : Nat) (seats : List Nat) (op lid : Nat)
    (h : (membersFrom i seats op).head? = some lid) : ∀ x ∈ membersFrom i seats op, lid ≤ x := by
  induction seats generalizing i with
  | nil => simp [membersFrom] at h
  | cons s ss ih =>
    unfold membersFrom at h ⊢
    by_cases hs : s = op
    · rw [if_pos hs] at h ⊢
      simp at h; subst h
      intro x hx
      rcases List.mem_cons.1 hx with rfl | hx
      · exact Nat.le_refl _
      · have := ((mem_membersFrom (i + 1) x ss op).1 hx).1; omega
    · rw [if_neg hs] at h ⊢
      exact ih (i + 1) h

/-- `leaderID` is the lowest member index whose seat is held by the leader operator. -/
theorem leaderID_spec (cfg : Cfg) (lid : Nat) (h : leaderID? cfg = some lid) :
    1 ≤ lid ∧ cfg.seats[lid - 1]? = some cfg.leader ∧
      ∀ x, 1 ≤ x → cfg.seats[x - 1]? = some cfg.leader → lid ≤ x := by
  unfold leaderID? membersByOperator at h
  have hm : lid ∈ membersFrom 1 cfg.seats cfg.leader := List.mem_of_mem_head? h
  have := (mem_membersFrom 1 lid cfg.seats cfg.leader).1 hm
  refine ⟨this.1, this.2, ?_⟩
  intro x hx hs
  exact membersFrom_head_le 1 cfg.seats cfg.leader lid h x
    ((mem_membersFrom 1 x cfg.seats cfg.leader).2 ⟨hx, hs⟩)

/-- Only the leader operator's own network key has a valid membership at `leaderID`
    (group size ≤ 255 = `group.MaxMemberIndex`). -/
theorem valid_at_leaderID (cfg : Cfg) (lid net : Nat) (h : leaderID? cfg = some lid)
    (hsz : cfg.seats.length ≤ Gen.C24.maxMemberIndex)
    (hv : validMembership cfg.seats lid net = true) : net = cfg.leader := by
  obtain ⟨h1, h2, _⟩ := leaderID_spec cfg lid h
  have hlt : lid - 1 < cfg.seats.length := by
    rcases Nat.lt_or_ge (lid - 1) cfg.seats.length with h | h
    · exact h
    · rw [List.getElem?_eq_none h] at h2; cases h2
  have hmax : Gen.C24.maxMemberIndex = 255 := rfl
  have : (lid + 255) % 256 = lid - 1 := by omega
  unfold validMembership at hv
  rw [this, h2] at hv
  have h3 : cfg.leader = net := by simpa using hv
  exact h3.symm

/-- an operator with a valid membership at some index really holds that seat -/
theorem valid_holds_seat (seats : List Nat) (sid net : Nat) (h : validMembership seats sid net = true) :
    seats[(sid + 255) % 256]? = some net := by
  simpa [validMembership] using h

/-! ## one message -/

theorem classify_accept_iff (cfg : Cfg) (lid : Nat) (m : Msg) (a t : Nat) :
    classify cfg lid m = .accept a t ↔
      (m.kind = 0 ∧ cfg.self.contains m.sid = false ∧ validMembership cfg.seats m.sid m.net = true ∧
        m.blk = cfg.block ∧ m.wallet = 0 ∧ m.sid = lid ∧ cfg.allowed.contains m.act = true ∧
        a = m.act ∧ t = m.tag) := by
  unfold classify
  repeat' split
  all_goals simp_all
  all_goals omega

theorem classify_skip_iff (cfg : Cfg) (lid : Nat) (m : Msg) :
    classify cfg lid m = .skip ↔ qualifies cfg m = false := by
  unfold classify qualifies
  repeat' split
  all_goals simp_all

theorem classify_fault_iff (cfg : Cfg) (lid : Nat) (m : Msg) (f : Fault) :
    classify cfg lid m = .fault f ↔
      qualifies cfg m = true ∧
        ((m.sid ≠ lid ∧ f = ⟨.impersonation, m.net⟩) ∨
         (m.sid = lid ∧ cfg.allowed.contains m.act = false ∧ f = ⟨.mistake, cfg.leader⟩)) := by
  unfold classify qualifies
  repeat' split
  all_goals simp_all
  all_goals (try constructor) <;> (try intro h) <;> (try subst h) <;> simp_all

theorem acceptable_iff (cfg : Cfg) (lid : Nat) (m : Msg) :
    acceptable cfg lid m = true ↔ classify cfg lid m = .accept m.act m.tag := by
  rw [classify_accept_iff]
  simp [acceptable, qualifies, and_assoc]

/-! ## the loop -/

/-- faults left behind by a list of (non-accepted) messages, in order -/
def faultsOf (cfg : Cfg) (lid : Nat) (ms : List Msg) : List Fault :=
  ms.filterMap fun m => match classify cfg lid m with | .fault f => some f | _ => none

theorem run_some (cfg : Cfg) (lid : Nat) (msgs : List Msg) (fs fs' : List Fault) (p : Nat × Nat)
    (h : run cfg lid msgs fs = (some p, fs')) :
    ∃ pre m post, msgs = pre ++ m :: post ∧ (∀ x ∈ pre, acceptable cfg lid x = false) ∧
      classify cfg lid m = .accept p.1 p.2 ∧ fs' = fs ++ faultsOf cfg lid pre := by
  induction msgs generalizing fs with
  | nil => simp [run] at h
  | cons m ms ih =>
    unfold run at h
    cases hc : classify cfg lid m with
    | skip =>
      rw [hc] at h
      obtain ⟨pre, m', post, e, hpre, hm, hf⟩ := ih fs h
      refine ⟨m :: pre, m', post, by simp [e], ?_, hm, ?_⟩
      · intro x hx
        rcases List.mem_cons.1 hx with rfl | hx
        · cases ha : acceptable cfg lid x with
          | false => rfl
          | true => rw [(acceptable_iff cfg lid x).1 ha] at hc; cases hc
        · exact hpre x hx
      · simp [faultsOf, hc] at hf ⊢; exact hf
    | fault f =>
      rw [hc] at h
      obtain ⟨pre, m', post, e, hpre, hm, hf⟩ := ih (fs ++ [f]) h
      refine ⟨m :: pre, m', post, by simp [e], ?_, hm, ?_⟩
      · intro x hx
        rcases List.mem_cons.1 hx with rfl | hx
        · cases ha : acceptable cfg lid x with
          | false => rfl
          | true => rw [(acceptable_iff cfg lid x).1 ha] at hc; cases hc
        · exact hpre x hx
      · simp [faultsOf, hc] at hf ⊢; exact hf
    | accept a t =>
      rw [hc] at h
      simp at h
      obtain ⟨hp, hf⟩ := h
      refine ⟨[], m, ms, rfl, by simp, ?_, by simp [faultsOf, hf]⟩
      rw [← hp]; exact hc

theorem run_none (cfg : Cfg) (lid : Nat) (msgs : List Msg) (fs fs' : List Fault)
    (h : run cfg lid msgs fs = (none, fs')) :
    (∀ x ∈ msgs, acceptable cfg lid x = false) ∧
      fs' = fs ++ faultsOf cfg lid msgs ++ [⟨.idleness, cfg.leader⟩] := by
  induction msgs generalizing fs with
  | nil => simp [run] at h; simp [faultsOf, h]
  | cons m ms ih =>
    unfold run at h
    cases hc : classify cfg lid m with
    | skip =>
      rw [hc] at h
      obtain ⟨h1, h2⟩ := ih fs h
      refine ⟨?_, ?_⟩
      · intro x hx
        rcases List.mem_cons.1 hx with rfl | hx
        · cases ha : acceptable cfg lid x with
          | false => rfl
          | true => rw [(acceptable_iff cfg lid x).1 ha] at hc; cases hc
        · exact h1 x hx
      · simp [faultsOf, hc] at h2 ⊢; exact h2
    | fault f =>
      rw [hc] at h
      obtain ⟨h1, h2⟩ := ih (fs ++ [f]) h
      refine ⟨?_, ?_⟩
      · intro x hx
        rcases List.mem_cons.1 hx with rfl | hx
        · cases ha : acceptable cfg lid x with
          | false => rfl
          | true => rw [(acceptable_iff cfg lid x).1 ha] at hc; cases hc
        · exact h1 x hx
      · simp [faultsOf, hc] at h2 ⊢; exact h2
    | accept a t => rw [hc] at h; simp at h

theorem mem_faultsOf (cfg : Cfg) (lid : Nat) (ms : List Msg) (f : Fault) :
    f ∈ faultsOf cfg lid ms ↔ ∃ m ∈ ms, classify cfg lid m = .fault f := by
  simp only [faultsOf, List.mem_filterMap]
  constructor
  · rintro ⟨m, hm, h⟩
    refine ⟨m, hm, ?_⟩
    cases hc : classify cfg lid m <;> rw [hc] at h <;> simp at h
    rw [h]
  · rintro ⟨m, hm, h⟩
    exact ⟨m, hm, by rw [h]⟩

/-- the faults of a finished run: those of the processed prefix, then idleness iff nothing
    was accepted -/
theorem follower_faults (cfg : Cfg) (msgs : List Msg) (p : Option (Nat × Nat)) (fs : List Fault)
    (h : follower cfg msgs = some (p, fs)) :
    ∃ lid processed, leaderID? cfg = some lid ∧ processed <+: msgs ∧
      (∀ x ∈ processed, acceptable cfg lid x = false) ∧
      fs = faultsOf cfg lid processed ++ (if p.isNone then [⟨.idleness, cfg.leader⟩] else []) := by
  unfold follower at h
  cases hl : leaderID? cfg with
  | none => rw [hl] at h; simp at h
  | some lid =>
    rw [hl] at h; simp at h
    cases p with
    | none =>
      obtain ⟨h1, h2⟩ := run_none cfg lid msgs [] fs h
      exact ⟨lid, msgs, rfl, List.prefix_refl _, h1, by simpa using h2⟩
    | some p =>
      obtain ⟨pre, m, post, e, h1, _, h3⟩ := run_some cfg lid msgs [] fs p h
      exact ⟨lid, pre, rfl, ⟨m :: post, e.symm⟩, h1, by simpa using h3⟩

/-! ## the property -/

/-- C24: a returned proposal is the payload of a coordination message that claims the
    leader's lowest member index, was really sent by the leader operator's network key (valid
    membership), is not the follower's own, is for this window and wallet and proposes an
    allowed action — and it is the *first* such message of the history. -/
theorem accepted_is_leaders (cfg : Cfg) (msgs : List Msg) (p : Nat × Nat) (fs : List Fault)
    (hsz : cfg.seats.length ≤ Gen.C24.maxMemberIndex)
    (h : follower cfg msgs = some (some p, fs)) :
    ∃ lid pre m post, leaderID? cfg = some lid ∧ msgs = pre ++ m :: post ∧
      m.kind = 0 ∧ m.sid = lid ∧ m.net = cfg.leader ∧ cfg.self.contains m.sid = false ∧
      m.blk = cfg.block ∧ m.wallet = 0 ∧ m.act ∈ cfg.allowed ∧ p = (m.act, m.tag) ∧
      (∀ x ∈ pre, acceptable cfg lid x = false) := by
  unfold follower at h
  cases hl : leaderID? cfg with
  | none => rw [hl] at h; simp at h
  | some lid =>
    rw [hl] at h; simp at h
    obtain ⟨pre, m, post, e, h1, h2, _⟩ := run_some cfg lid msgs [] fs p h
    obtain ⟨a1, a2, a3, a4, a5, a6, a7, a8, a9⟩ := (classify_accept_iff cfg lid m p.1 p.2).1 h2
    refine ⟨lid, pre, m, post, rfl, e, a1, a6, ?_, a2, a4, a5, ?_, ?_, h1⟩
    · exact valid_at_leaderID cfg lid m.net hl hsz (a6 ▸ a3)
    · simpa using a7
    · cases p; simp_all

/-- C24: every impersonation fault names the operator whose network key really sent a message
    that passed the type / self / membership / window / wallet filters with an index other than
    the leader's; that operator really holds the claimed seat. The leader is never blamed for it
    unless the leader itself used another of its seats. -/
theorem impersonation_attributed (cfg : Cfg) (msgs : List Msg) (p : Option (Nat × Nat))
    (fs : List Fault) (c : Nat) (h : follower cfg msgs = some (p, fs))
    (hf : ⟨.impersonation, c⟩ ∈ fs) :
    ∃ lid m, leaderID? cfg = some lid ∧ m ∈ msgs ∧ qualifies cfg m = true ∧ m.sid ≠ lid ∧
      m.net = c ∧ cfg.seats[(m.sid + 255) % 256]? = some c := by
  obtain ⟨lid, pr, hl, hpre, _, hfs⟩ := follower_faults cfg msgs p fs h
  rw [hfs] at hf
  have hf' : (⟨.impersonation, c⟩ : Fault) ∈ faultsOf cfg lid pr := by
    rcases List.mem_append.1 hf with hf | hf
    · exact hf
    · cases hp : p.isNone <;> simp [hp] at hf
  obtain ⟨m, hm, hc⟩ := (mem_faultsOf cfg lid pr _).1 hf'
  obtain ⟨hq, hcase⟩ := (classify_fault_iff cfg lid m _).1 hc
  rcases hcase with ⟨hne, he⟩ | ⟨_, _, he⟩
  · have hnet : m.net = c := by injection he with _ h2; exact h2.symm
    refine ⟨lid, m, hl, hpre.subset hm, hq, hne, hnet, ?_⟩
    have hv : validMembership cfg.seats m.sid m.net = true := by
      simp [qualifies] at hq; exact hq.1.1.2
    rw [← hnet]; exact valid_holds_seat _ _ _ hv
  · cases he

/-- C24: a mistake fault is always the leader's, and stems from a message really sent by the
    leader at its leader index for this window and wallet with a disallowed action. -/
theorem mistake_attributed (cfg : Cfg) (msgs : List Msg) (p : Option (Nat × Nat))
    (fs : List Fault) (c : Nat) (hsz : cfg.seats.length ≤ Gen.C24.maxMemberIndex)
    (h : follower cfg msgs = some (p, fs)) (hf : ⟨.mistake, c⟩ ∈ fs) :
    c = cfg.leader ∧ ∃ lid m, leaderID? cfg = some lid ∧ m ∈ msgs ∧ qualifies cfg m = true ∧
      m.sid = lid ∧ m.net = cfg.leader ∧ cfg.allowed.contains m.act = false := by
  obtain ⟨lid, pr, hl, hpre, _, hfs⟩ := follower_faults cfg msgs p fs h
  rw [hfs] at hf
  have hf' : (⟨.mistake, c⟩ : Fault) ∈ faultsOf cfg lid pr := by
    rcases List.mem_append.1 hf with hf | hf
    · exact hf
    · cases hp : p.isNone <;> simp [hp] at hf
  obtain ⟨m, hm, hc⟩ := (mem_faultsOf cfg lid pr _).1 hf'
  obtain ⟨hq, hcase⟩ := (classify_fault_iff cfg lid m _).1 hc
  rcases hcase with ⟨_, he⟩ | ⟨hs, hna, he⟩
  · cases he
  · have hcl : c = cfg.leader := by injection he with _ h2
    refine ⟨hcl, lid, m, hl, hpre.subset hm, hq, hs, ?_, hna⟩
    have hv : validMembership cfg.seats m.sid m.net = true := by
      simp [qualifies] at hq; exact hq.1.1.2
    exact valid_at_leaderID cfg lid m.net hl hsz (hs ▸ hv)

/-- C24: idleness is recorded — against the leader, as the last fault — exactly when no proposal
    is returned. -/
theorem idle_iff_no_proposal (cfg : Cfg) (msgs : List Msg) (p : Option (Nat × Nat))
    (fs : List Fault) (h : follower cfg msgs = some (p, fs)) :
    ((∃ c, ⟨.idleness, c⟩ ∈ fs) ↔ p = none) ∧ (∀ c, ⟨.idleness, c⟩ ∈ fs → c = cfg.leader) ∧
      (p = none → fs.getLast? = some ⟨.idleness, cfg.leader⟩) := by
  obtain ⟨lid, pr, _, _, _, hfs⟩ := follower_faults cfg msgs p fs h
  have hno : ∀ c, (⟨.idleness, c⟩ : Fault) ∉ faultsOf cfg lid pr := by
    intro c hc
    obtain ⟨m, _, hm⟩ := (mem_faultsOf cfg lid pr _).1 hc
    obtain ⟨_, hcase⟩ := (classify_fault_iff cfg lid m _).1 hm
    rcases hcase with ⟨_, he⟩ | ⟨_, _, he⟩ <;> cases he
  subst hfs
  cases p with
  | none =>
    refine ⟨⟨fun _ => rfl, fun _ => ⟨cfg.leader, by simp⟩⟩, ?_, fun _ => by simp⟩
    intro c hc
    rcases List.mem_append.1 hc with hc | hc
    · exact absurd hc (hno c)
    · simp at hc; exact hc
  | some p =>
    refine ⟨⟨?_, fun h => by cases h⟩, ?_, fun h => by cases h⟩
    · rintro ⟨c, hc⟩; simp at hc; exact absurd hc (hno c)
    · intro c hc; simp at hc; exact absurd hc (hno c)

/-- C24: a filtered message (other payload type, the follower's own index, invalid membership,
    another window or wallet) leaves no trace — the result is as if it had never arrived. -/
theorem filtered_no_trace (cfg : Cfg) (lid : Nat) (pre post : List Msg) (m : Msg) (fs : List Fault)
    (h : qualifies cfg m = false) :
    run cfg lid (pre ++ m :: post) fs = run cfg lid (pre ++ post) fs := by
  have hs := (classify_skip_iff cfg lid m).2 h
  induction pre generalizing fs with
  | nil => simp [run, hs]
  | cons x xs ih =>
    simp only [List.cons_append, run]
    cases classify cfg lid x <;> simp [ih]

/-- Completeness: if nothing acceptable arrives before the context ends, nothing is returned;
    if something acceptable arrives, the first such proposal is returned. -/
theorem returns_first_acceptable (cfg : Cfg) (lid : Nat) (msgs : List Msg) (fs : List Fault) :
    (run cfg lid msgs fs).1 = (msgs.find? (acceptable cfg lid)).map (fun m => (m.act, m.tag)) := by
  induction msgs generalizing fs with
  | nil => simp [run]
  | cons m ms ih =>
    unfold run
    cases ha : acceptable cfg lid m with
    | true =>
      rw [(acceptable_iff cfg lid m).1 ha]; simp [ha]
    | false =>
      cases hc : classify cfg lid m with
      | skip => simp [ha, ih]
      | fault f => simp [ha, ih]
      | accept a t =>
        obtain ⟨_, _, _, _, _, _, _, rfl, rfl⟩ := (classify_accept_iff cfg lid m a t).1 hc
        rw [(acceptable_iff cfg lid m).2 hc] at ha; cases ha

/-- C24 (long-lived executor): the result of a window does not depend on the windows the
    executor followed before. -/
theorem followerSeq_history_independent (pre post : List (Cfg × List Msg)) (c : Cfg × List Msg) :
    (followerSeq (pre ++ c :: post))[pre.length]? = some (follower c.1 c.2) := by
  simp [followerSeq]

/-- C24 (cancellation racing with buffered messages = a shorter history): whatever prefix of the
    history the loop processed before it noticed the end of the active phase, an accepted
    proposal is the first acceptable message of the *whole* history. -/
theorem prefix_accepts_first_acceptable (cfg : Cfg) (lid : Nat) (msgs : List Msg) (j : Nat)
    (p : Nat × Nat) (fs : List Fault) (h : run cfg lid (msgs.take j) [] = (some p, fs)) :
    (msgs.find? (acceptable cfg lid)).map (fun m => (m.act, m.tag)) = some p := by
  obtain ⟨pre, m, post, e, hpre, hm, _⟩ := run_some cfg lid (msgs.take j) [] fs p h
  have hsplit : msgs = pre ++ m :: (post ++ msgs.drop j) := by
    have := List.take_append_drop j msgs
    rw [e] at this
    simpa using this.symm
  obtain ⟨_, _, _, _, _, _, _, ha, ht⟩ := (classify_accept_iff cfg lid m p.1 p.2).1 hm
  have hacc : acceptable cfg lid m = true := by
    rw [acceptable_iff, ← ha, ← ht]; exact hm
  rw [hsplit, List.find?_append]
  have hnone : List.find? (acceptable cfg lid) pre = none := by
    rw [List.find?_eq_none]; intro x hx; simp [hpre x hx]
  simp [hnone, hacc, ← ha, ← ht]

/-- C24 ("during the active phase"): once the chain clock has reached the end of the active
    phase, nothing that arrives later — passive phase, next window — influences the result. -/
theorem passive_phase_ignored (cfg : Cfg) (pre post post' : List Ev) (b : Nat)
    (hb : activePhaseEndBlock cfg.block ≤ b) :
    coordinateFollower cfg (pre ++ .clock b :: post) = coordinateFollower cfg (pre ++ .clock b :: post') := by
  have h : ∀ endB, endB ≤ b → ∀ pre : List Ev,
      activeMsgs endB (pre ++ .clock b :: post) = activeMsgs endB (pre ++ .clock b :: post') := by
    intro endB he pre
    induction pre with
    | nil => simp [activeMsgs, he]
    | cons e es ih =>
      cases e with
      | msg m => simp [activeMsgs, ih]
      | clock c => simp only [List.cons_append, activeMsgs]; split <;> simp [ih]
  simp [coordinateFollower, h _ hb pre]

/-- the active phase is strictly inside the window (T1 tie on the extracted constants) -/
theorem active_phase_inside_window :
    0 < Gen.C24.activePhaseDurationBlocks ∧
      Gen.C24.activePhaseDurationBlocks < Gen.C24.durationBlocks := by decide

/-! ## monitor tie -/

theorem holds_model (cfg : Cfg) (msgs : List Msg) (p : Option (Nat × Nat)) (fs : List Fault)
    (h : follower cfg msgs = some (p, fs)) : holds cfg msgs p fs = true := by
  obtain ⟨lid, pr, hl, hpre, hna, hfs⟩ := follower_faults cfg msgs p fs h
  have hp : p = (msgs.find? (acceptable cfg lid)).map (fun m => (m.act, m.tag)) := by
    have := returns_first_acceptable cfg lid msgs []
    unfold follower at h
    rw [hl] at h; simp at h
    rw [h] at this; exact this
  have hcls : ∀ f ∈ faultsOf cfg lid pr, ∃ m ∈ msgs, classify cfg lid m = .fault f := by
    intro f hf
    obtain ⟨m, hm, hc⟩ := (mem_faultsOf cfg lid pr f).1 hf
    exact ⟨m, hpre.subset hm, hc⟩
  have hfilt : (faultsOf cfg lid pr).filter (fun f => f.type == .idleness) = [] := by
    rw [List.filter_eq_nil_iff]
    intro f hf
    obtain ⟨m, _, hc⟩ := hcls f hf
    obtain ⟨_, hcase⟩ := (classify_fault_iff cfg lid m f).1 hc
    rcases hcase with ⟨_, rfl⟩ | ⟨_, _, rfl⟩ <;> simp
  have hmemf : ∀ f ∈ fs, f.type ≠ .idleness → f ∈ faultsOf cfg lid pr := by
    intro f hf hne
    rw [hfs] at hf
    rcases List.mem_append.1 hf with hf | hf
    · exact hf
    · cases hpn : p.isNone <;> simp [hpn] at hf
      subst hf; simp at hne
  unfold holds
  rw [hl]
  simp only [Bool.and_eq_true]
  refine ⟨⟨⟨?_, ?_⟩, ?_⟩, ?_⟩
  · rw [← hp]; simp
  · rw [hfs, List.filter_append, hfilt]
    cases p <;> simp
  · rw [List.all_eq_true]
    intro f hf
    cases hft : f.type with
    | idleness => simp
    | mistake => simp
    | impersonation =>
      have := hmemf f hf (by rw [hft]; simp)
      obtain ⟨m, hm, hc⟩ := hcls f this
      obtain ⟨hq, hcase⟩ := (classify_fault_iff cfg lid m f).1 hc
      rcases hcase with ⟨hne, rfl⟩ | ⟨_, _, rfl⟩
      · simp only [Bool.or_eq_true, List.any_eq_true]
        right
        exact ⟨m, hm, by simp [hq, hne]⟩
      · simp at hft
  · rw [List.all_eq_true]
    intro f hf
    cases hft : f.type with
    | idleness => simp
    | impersonation => simp
    | mistake =>
      have := hmemf f hf (by rw [hft]; simp)
      obtain ⟨m, hm, hc⟩ := hcls f this
      obtain ⟨hq, hcase⟩ := (classify_fault_iff cfg lid m f).1 hc
      rcases hcase with ⟨_, rfl⟩ | ⟨hs, hna', rfl⟩
      · simp at hft
      · simp only [Bool.or_eq_true, Bool.and_eq_true, List.any_eq_true]
        right
        have hna2 : ¬ m.act ∈ cfg.allowed := by simpa using hna'
        exact ⟨by simp, m, hm, by simp [hq, hs, hna2]⟩

/-! non-vacuity: a mixed history; the monitor rejects wrong attributions -/
def exCfg : Cfg := ⟨[1, 2, 0, 0, 2, 1], [1, 6], 0, 900, [3, 0]⟩
def exMsgs : List Msg :=
  [⟨1, 0, 3, 900, 0, 3, 1⟩,   -- other type
   ⟨0, 2, 3, 900, 0, 3, 2⟩,   -- 2 claims the leader's index: invalid membership, no trace
   ⟨0, 2, 2, 900, 0, 3, 3⟩,   -- 2 with its own seat: impersonation by 2
   ⟨0, 0, 3, 901, 0, 3, 4⟩,   -- leader, wrong window
   ⟨0, 0, 3, 900, 0, 1, 5⟩,   -- leader, disallowed action
   ⟨0, 0, 3, 900, 0, 3, 6⟩,   -- accepted
   ⟨0, 0, 3, 900, 0, 0, 0⟩]
example : follower exCfg exMsgs = some (some (3, 6), [⟨.impersonation, 2⟩, ⟨.mistake, 0⟩]) := by decide
example : follower exCfg (exMsgs.take 5) =
    some (none, [⟨.impersonation, 2⟩, ⟨.mistake, 0⟩, ⟨.idleness, 0⟩]) := by decide
example : holds exCfg exMsgs (some (3, 6)) [⟨.impersonation, 0⟩, ⟨.mistake, 0⟩] = false := by decide
example : holds exCfg exMsgs (some (0, 0)) [⟨.impersonation, 2⟩, ⟨.mistake, 0⟩] = false := by decide
example : holds exCfg exMsgs none [⟨.impersonation, 2⟩, ⟨.mistake, 0⟩, ⟨.idleness, 0⟩] = false := by decide
example : holds exCfg (exMsgs.take 5) none [⟨.impersonation, 2⟩, ⟨.mistake, 2⟩, ⟨.idleness, 0⟩] = false := by decide

end KeepVerif.C24
