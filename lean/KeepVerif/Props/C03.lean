import KeepVerif.Model.C03
namespace KeepVerif.C03
end KeepVerif.C03
