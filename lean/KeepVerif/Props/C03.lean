import KeepVerif.Model.C03
import Mathlib.Data.ZMod.Basic
import Mathlib.Tactic.Ring
import Mathlib.Tactic.Linarith
import Mathlib.LinearAlgebra.Lagrange
import Mathlib.FieldTheory.Finite.Basic
import KeepVerif.Proofs.Primes
/-!
# C03 — Threshold BLS recovery yields the unique group signature

Theorems over `Model/C03.lean` (the functions the driver runs).  The scalar field is `ZMod R`
with `R = Gen.C03.groupOrder` (extracted from `bn256.Order`); its primality is the hypothesis
`[Fact (Nat.Prime R)]` of the lemmas and is DISCHARGED at the end of the file (`R_prime`, a Pratt
certificate checked by the kernel in `Proofs/Primes.lean`; `*_unconditional` theorems) — never an axiom.  Group elements are exponents (A-field: G1, G2
cyclic of order `R`), so "`f(i) • M`" is the product `f(i) * M` in `ZMod R`.

* `recover_skips`, `recover_skips_insert` — skipped entries never change the result (fixed code);
  `recover_skips_counterexample_panic/_wrong` — false for the code before the fix;
  `recover_skips_partial` — what did hold before the fix (no skipped entry among the first `thr`).
* `combine_eq_secret`, `recover_eq_secret` — correct shares at distinct indices recover `f(0) • M`;
  `recover_unique` — any subset, any order; `recover_perm` — order independence for arbitrary values.
* `verify_iff`, `recovered_verifies` — the recovered signature verifies under the group key.
* `validateShare_accepted_iff`, `only_verified_shares_used` — share validation in `entry.go`.
-/
namespace KeepVerif.C03

/-! ## Selection loop and skipped entries (core Lean) -/


/-- the shares `RecoverSignature` uses, as a function of the non-skipped entries only. -/
def usedOf (thr : Int) (valid : List (Int × Nat)) : List (Int × Nat) :=
  if 0 ≤ thr then valid.take thr.toNat else valid

theorem collectSig_acc (thr : Int) : ∀ (es : List Entry) (acc : List (Int × Nat)),
    collectSig thr es acc =
      acc ++ (if (acc.length : Int) ≤ thr then (es.filterMap Entry.valid?).take (thr - acc.length).toNat
              else es.filterMap Entry.valid?) := by
  intro es
  induction es with
  | nil => intro acc; simp [collectSig]
  | cons e es ih =>
    intro acc
    unfold collectSig
    by_cases h : (acc.length : Int) = thr
    · rw [if_pos h]
      have : (thr - (acc.length : Int)).toNat = 0 := by omega
      simp [h]
    · rw [if_neg h]
      cases hv : e.valid? with
      | none =>
        simp only [List.filterMap_cons, hv]
        exact ih acc
      | some s =>
        simp only [List.filterMap_cons, hv]
        rw [ih (acc ++ [s])]
        simp only [List.length_append, List.length_cons, List.length_nil, List.append_assoc]
        by_cases hle : (acc.length : Int) ≤ thr
        · have h1 : ((acc.length + (0 + 1) : Nat) : Int) ≤ thr := by omega
          rw [if_pos h1, if_pos hle]
          have h2 : (thr - (acc.length : Int)).toNat = (thr - ((acc.length + (0 + 1) : Nat) : Int)).toNat + 1 := by
            omega
          rw [h2, List.take_succ_cons]
          simp
        · have h1 : ¬ ((acc.length + (0 + 1) : Nat) : Int) ≤ thr := by omega
          rw [if_neg h1, if_neg hle]
          simp

theorem collectSig_eq (thr : Int) (es : List Entry) :
    collectSig thr es [] = usedOf thr (es.filterMap Entry.valid?) := by
  rw [collectSig_acc]
  unfold usedOf
  simp

/-- `RecoverSignature` as a function of the non-skipped entries. -/
def recoverValid (thr : Int) (valid : List (Int × Nat)) : Out :=
  if ((usedOf thr valid).length : Int) < thr then .notEnough else combine (usedOf thr valid)

theorem recoverSig_eq_recoverValid (thr : Int) (es : List Entry) :
    recoverSig thr es = recoverValid thr (es.filterMap Entry.valid?) := by
  unfold recoverSig recoverValid
  simp only [collectSig_eq]

/-- **Skipped entries do not matter** (fixed code): two input slices with the same non-skipped
    entries in the same order — i.e. that differ only by interleaved `nil` shares, shares without a
    value and shares with a negative index — recover the same result, for every threshold. -/
theorem recover_skips (thr : Int) (es es' : List Entry)
    (h : es.filterMap Entry.valid? = es'.filterMap Entry.valid?) :
    recoverSig thr es = recoverSig thr es' := by
  rw [recoverSig_eq_recoverValid, recoverSig_eq_recoverValid, h]

/-- inserting one skipped entry anywhere changes nothing. -/
theorem recover_skips_insert (thr : Int) (pre post : List Entry) (e : Entry) (he : e.valid? = none) :
    recoverSig thr (pre ++ e :: post) = recoverSig thr (pre ++ post) := by
  apply recover_skips
  simp [List.filterMap_append, he]

/-- non-vacuity: a nil entry, a value-less entry and a negative index are all skipped. -/
example : recoverSig 3 [.nil, .share 1 6, .noV 4, .share 2 11, .share (-7) 99, .share 3 18] =
    recoverSig 3 [.share 1 6, .share 2 11, .share 3 18] := by
  apply recover_skips; decide

/-! ### the code before the fix -/

/-- **Counterexample 1** (code before the fix): `[nil, s1, s2, s3]` with threshold 3 panics, while
    the three shares (of `3 + 2x + x²`, message exponent 1) determine the secret 3. -/
theorem recover_skips_counterexample_panic :
    recoverSigOld 3 [.nil, .share 1 6, .share 2 11, .share 3 18] = .panic ∧
    recoverSig 3 [.nil, .share 1 6, .share 2 11, .share 3 18] = .ok 3 := by
  decide +kernel

/-- **Counterexample 2** (code before the fix): a first entry with a negative index is skipped by
    the filter but its value is used: the result is not the secret. -/
theorem recover_skips_counterexample_wrong :
    recoverSigOld 3 [.share (-1) 5, .share 1 6, .share 2 11, .share 3 18] ≠ .ok 3 ∧
    recoverSig 3 [.share (-1) 5, .share 1 6, .share 2 11, .share 3 18] = .ok 3 := by
  decide +kernel



theorem combineOld_eq (xs : List Int) (es : List Entry) (vals : List Nat) :
    ∀ (is : List Nat) (acc : Nat),
    (∀ i ∈ is, ∃ idx, es.getD i .nil = .share idx (vals.getD i 0)) →
    combineOldFrom xs es is acc = combineFrom xs vals is acc := by
  intro is
  induction is with
  | nil => intro acc _; rfl
  | cons i is ih =>
    intro acc h
    obtain ⟨idx, hidx⟩ := h i (by simp)
    unfold combineOldFrom combineFrom
    cases hb : lagrangeBasis i xs with
    | none => rfl
    | some b =>
      simp only [hidx]
      exact ih _ (fun k hk => h k (by simp [hk]))

theorem allValid_getD : ∀ (es : List Entry), (∀ e ∈ es, e.valid?.isSome) →
    (es.filterMap Entry.valid?).length = es.length ∧
    ∀ i, i < es.length →
      ∃ idx, es.getD i .nil = .share idx (((es.filterMap Entry.valid?).map (·.2)).getD i 0) := by
  intro es
  induction es with
  | nil => intro _; exact ⟨rfl, fun i hi => absurd hi (by simp)⟩
  | cons e es ih =>
    intro h
    have he := h e (by simp)
    obtain ⟨ihl, ihg⟩ := ih (fun e' he' => h e' (by simp [he']))
    cases e with
    | nil => simp [Entry.valid?] at he
    | noV i => simp [Entry.valid?] at he
    | share idx v =>
      have hv : (Entry.share idx v).valid? = some (idx, v) := by
        by_cases hneg : idx < 0
        · simp [Entry.valid?, hneg] at he
        · simp [Entry.valid?, hneg]
      refine ⟨by simp [hv, ihl], ?_⟩
      intro i hi
      cases i with
      | zero => exact ⟨idx, by simp [hv]⟩
      | succ i =>
        obtain ⟨idx', h'⟩ := ihg i (by simpa using hi)
        refine ⟨idx', ?_⟩
        simp only [List.filterMap_cons, hv, List.map_cons]
        simpa [List.getD_cons_succ] using h'


/-! ## Lagrange recovery over `ZMod R` -/

open Finset

theorem powModAux_cast (m : Nat) : ∀ (f acc base e : Nat), e ≤ f →
    ((powModAux m f acc base e : ℕ) : ZMod m) = (acc : ZMod m) * (base : ZMod m) ^ e := by
  intro f
  induction f with
  | zero =>
    intro acc base e he
    have : e = 0 := by omega
    subst this
    simp [powModAux]
  | succ f ih =>
    intro acc base e he
    unfold powModAux
    by_cases h0 : e = 0
    · subst h0; simp
    · rw [if_neg h0, ih _ _ _ (by omega)]
      have hsq : ((base * base % m : ℕ) : ZMod m) ^ (e / 2) = (base : ZMod m) ^ (2 * (e / 2)) := by
        rw [ZMod.natCast_mod, Nat.cast_mul, pow_mul, pow_two]
      rw [hsq]
      by_cases hodd : e % 2 = 1
      · rw [if_pos hodd, ZMod.natCast_mod, Nat.cast_mul]
        have : e = 2 * (e / 2) + 1 := by omega
        conv_rhs => rw [this]
        ring
      · rw [if_neg hodd]
        have : e = 2 * (e / 2) := by omega
        conv_rhs => rw [this]

theorem powMod_cast (m a e : Nat) : ((powMod m a e : ℕ) : ZMod m) = (a : ZMod m) ^ e := by
  unfold powMod
  rw [powModAux_cast m e _ _ e (Nat.le_refl e), ZMod.natCast_mod, ZMod.natCast_mod]
  simp


theorem foldl_cast (l : List Int) (a : Int) :
    ((l.foldl (fun a x => (a * x) % (R : Int)) a : Int) : ZMod R)
      = (a : ZMod R) * (l.map (fun z : Int => (z : ZMod R))).prod := by
  induction l generalizing a with
  | nil => simp
  | cons x l ih =>
    simp only [List.foldl_cons, List.map_cons, List.prod_cons]
    rw [ih, ZMod.intCast_mod, Int.cast_mul]; ring

theorem prodMod_cast (l : List Int) :
    ((prodMod l : Int) : ZMod R) = (l.map (fun z : Int => (z : ZMod R))).prod := by
  unfold prodMod; rw [foldl_cast]; simp

theorem others_prod {M : Type} [CommMonoid M] (n i : Nat) (g : Nat → M) :
    ((others n i).map g).prod = ∏ j ∈ (Finset.range n).erase i, g j := by
  have hnd : (others n i).Nodup := List.Nodup.filter _ List.nodup_range
  rw [← List.prod_toFinset g hnd]
  congr 1
  ext j
  simp [others]
  tauto

/-- the `j`-th index as an element of the scalar field. -/
def xz (xs : List Int) (j : Nat) : ZMod R := ((xs.getD j 0 : Int) : ZMod R)

theorem toNat_cast (z : Int) (hz : 0 ≤ z) : ((z.toNat : ℕ) : ZMod R) = (z : ZMod R) := by
  rw [← Int.cast_natCast, Int.toNat_of_nonneg hz]

theorem lagrangeBasis_cast [hp : Fact (Nat.Prime R)] (xs : List Int) (i : Nat)
    (hne : ∀ j ∈ (Finset.range xs.length).erase i, xz xs j ≠ xz xs i) :
    ∃ b, lagrangeBasis i xs = some b ∧ b < R ∧
      (b : ZMod R) = ∏ j ∈ (Finset.range xs.length).erase i, xz xs j / (xz xs j - xz xs i) := by
  have hR0 : (0 : Int) < (R : Int) := by exact_mod_cast hp.out.pos
  have hRne : ((R : Nat) : Int) ≠ 0 := ne_of_gt hR0
  unfold lagrangeBasis
  simp only
  set num := prodMod ((others xs.length i).map fun j => xs.getD j 0) with hnum
  set den := prodMod ((others xs.length i).map fun j => xs.getD j 0 - xs.getD i 0) with hden
  have hdenc : ((den : Int) : ZMod R) = ∏ j ∈ (Finset.range xs.length).erase i, (xz xs j - xz xs i) := by
    rw [hden, prodMod_cast, List.map_map, others_prod]
    apply Finset.prod_congr rfl
    intro j _
    simp [xz]
  have hnumc : ((num : Int) : ZMod R) = ∏ j ∈ (Finset.range xs.length).erase i, xz xs j := by
    rw [hnum, prodMod_cast, List.map_map, others_prod]
    apply Finset.prod_congr rfl
    intro j _
    simp [xz]
  have hden0 : ((den : Int) : ZMod R) ≠ 0 := by
    rw [hdenc, Finset.prod_ne_zero_iff]
    intro j hj
    exact sub_ne_zero.mpr (hne j hj)
  have hmod : den % (R : Int) ≠ 0 := by
    intro h
    apply hden0
    rw [← ZMod.intCast_mod, h]; simp
  rw [if_neg hmod]
  refine ⟨_, rfl, Nat.mod_lt _ hp.out.pos, ?_⟩
  rw [ZMod.natCast_mod, Nat.cast_mul, powMod_cast, toNat_cast _ (Int.emod_nonneg _ hRne),
    toNat_cast _ (Int.emod_nonneg _ hRne), ZMod.intCast_mod, ZMod.intCast_mod]
  have hinv : ((den : Int) : ZMod R) ^ (R - 2) = ((den : Int) : ZMod R)⁻¹ := by
    have h1 := ZMod.pow_card_sub_one_eq_one hden0
    have h2 : 2 ≤ R := hp.out.two_le
    apply eq_inv_of_mul_eq_one_left
    rw [← pow_succ]
    have : R - 2 + 1 = R - 1 := by omega
    rw [this]; exact h1
  rw [hinv, hnumc, hdenc, Finset.prod_div_distrib, div_eq_mul_inv]


/-- the Lagrange coefficient at 0 for position `i`. -/
noncomputable def coef [Fact (Nat.Prime R)] (xs : List Int) (i : Nat) : ZMod R :=
  ∏ j ∈ (Finset.range xs.length).erase i, xz xs j / (xz xs j - xz xs i)

theorem combineFrom_cast [Fact (Nat.Prime R)] (xs : List Int) (vals : List Nat) (hR : 0 < R) (is : List Nat)
    (hB : ∀ i ∈ is, ∃ b, lagrangeBasis i xs = some b ∧ (b : ZMod R) = coef xs i) :
    ∀ acc, acc < R → ∃ e, combineFrom xs vals is acc = .ok e ∧ e < R ∧
      (e : ZMod R) = (acc : ZMod R) + (is.map (fun i => coef xs i * (vals.getD i 0 : ZMod R))).sum := by
  induction is with
  | nil => intro acc hacc; exact ⟨acc, rfl, hacc, by simp⟩
  | cons i is ih =>
    intro acc hacc
    obtain ⟨b, hb, hbc⟩ := hB i (by simp)
    obtain ⟨e, he, helt, hec⟩ := ih (fun k hk => hB k (by simp [hk])) ((acc + b * vals.getD i 0) % R)
      (Nat.mod_lt _ hR)
    refine ⟨e, ?_, helt, ?_⟩
    · simp only [combineFrom, hb]; exact he
    · rw [hec, ZMod.natCast_mod]
      simp only [List.map_cons, List.sum_cons]
      push_cast
      rw [hbc]; ring

theorem list_range_sum {M : Type} [AddCommMonoid M] (n : Nat) (g : Nat → M) :
    ((List.range n).map g).sum = ∑ i ∈ Finset.range n, g i := by
  induction n with
  | zero => simp
  | succ n ih => rw [List.range_succ, List.map_append, List.sum_append, ih, Finset.sum_range_succ]; simp

open Polynomial in
/-- Lagrange interpolation at 0: a polynomial of degree `< n` evaluated at 0 is the
    `coef`-weighted sum of its values at `n` distinct points. -/
theorem eval_zero_eq_sum [hp : Fact (Nat.Prime R)] (xs : List Int) (f : (ZMod R)[X])
    (hinj : Set.InjOn (xz xs) (Finset.range xs.length : Set ℕ))
    (hdeg : f.degree < xs.length) :
    f.eval 0 = ∑ i ∈ Finset.range xs.length, coef xs i * f.eval (xz xs i) := by
  have hf := Lagrange.eq_interpolate_of_eval_eq (s := Finset.range xs.length) (v := xz xs)
    (r := fun i => f.eval (xz xs i)) hinj (by simpa using hdeg) (fun i _ => rfl)
  conv_lhs => rw [hf]
  rw [Lagrange.interpolate_apply, Polynomial.eval_finsetSum]
  apply Finset.sum_congr rfl
  intro i hi
  rw [Polynomial.eval_mul, Polynomial.eval_C, mul_comm]
  congr 1
  unfold coef Lagrange.basis
  rw [Polynomial.eval_prod]
  apply Finset.prod_congr rfl
  intro j hj
  have hji : xz xs j ≠ xz xs i := by
    intro h
    have hj' := Finset.mem_erase.mp hj
    exact hj'.1 (hinj (by exact_mod_cast hj'.2) (by exact_mod_cast hi) h)
  unfold Lagrange.basisDivisor
  simp only [Polynomial.eval_mul, Polynomial.eval_C, Polynomial.eval_sub, Polynomial.eval_X]
  have h1 : xz xs j - xz xs i ≠ 0 := sub_ne_zero.mpr hji
  have h2 : xz xs i - xz xs j ≠ 0 := sub_ne_zero.mpr (Ne.symm hji)
  field_simp
  ring

theorem getD_fst (used : List (Int × Nat)) (j : Nat) (hj : j < used.length) :
    (used.map (·.1)).getD j 0 = used[j].1 := by
  simp [List.getD_eq_getElem?_getD, List.getElem?_eq_getElem hj]

theorem getD_snd (used : List (Int × Nat)) (j : Nat) (hj : j < used.length) :
    (used.map (·.2)).getD j 0 = used[j].2 := by
  simp [List.getD_eq_getElem?_getD, List.getElem?_eq_getElem hj]

theorem xz_eq (used : List (Int × Nat)) (j : Nat) (hj : j < used.length) :
    xz (used.map (·.1)) j = ((used[j].1 : Int) : ZMod R) := by
  unfold xz; rw [getD_fst _ _ hj]

open Polynomial in
/-- **Recovery theorem** (over the model the driver runs).  If the used shares have indices that
    are distinct in the scalar field and their values are `f(index) · M` for a polynomial `f` of
    degree below the number of shares, the Lagrange combination is `f(0) · M`. -/
theorem combine_eq_secret [hp : Fact (Nat.Prime R)] (used : List (Int × Nat))
    (f : (ZMod R)[X]) (M : ZMod R)
    (hdist : (used.map (fun s => ((s.1 : Int) : ZMod R))).Nodup)
    (hdeg : f.degree < used.length)
    (hval : ∀ s ∈ used, (s.2 : ZMod R) = f.eval ((s.1 : Int) : ZMod R) * M) :
    ∃ e, combine used = .ok e ∧ e < R ∧ (e : ZMod R) = f.eval 0 * M := by
  have hlen : (used.map (·.1)).length = used.length := by simp
  have hxz : ∀ j (hj : j < used.length),
      xz (used.map (·.1)) j = (used.map (fun s => ((s.1 : Int) : ZMod R)))[j]'(by simpa using hj) := by
    intro j hj
    rw [xz_eq _ _ hj]; simp
  have hinj : Set.InjOn (xz (used.map (·.1))) (Finset.range (used.map (·.1)).length : Set ℕ) := by
    intro j hj k hk hjk
    rw [hlen] at hj hk
    have hj' : j < used.length := by simpa using hj
    have hk' : k < used.length := by simpa using hk
    rw [hxz j hj', hxz k hk'] at hjk
    exact (hdist.getElem_inj_iff).mp hjk
  have hB : ∀ i ∈ List.range used.length, ∃ b, lagrangeBasis i (used.map (·.1)) = some b ∧
      (b : ZMod R) = coef (used.map (·.1)) i := by
    intro i hi
    have hi' : i < used.length := List.mem_range.mp hi
    obtain ⟨b, hb, _, hbc⟩ := lagrangeBasis_cast (used.map (·.1)) i (by
      intro j hj h
      have hj' := Finset.mem_erase.mp hj
      exact hj'.1 (hinj (by exact_mod_cast hj'.2) (by rw [hlen]; simpa using hi') h))
    exact ⟨b, hb, hbc⟩
  obtain ⟨e, he, helt, hec⟩ := combineFrom_cast (used.map (·.1)) (used.map (·.2)) hp.out.pos
    (List.range used.length) hB 0 hp.out.pos
  refine ⟨e, he, helt, ?_⟩
  rw [hec, list_range_sum, eval_zero_eq_sum (used.map (·.1)) f hinj (by rw [hlen]; exact hdeg), hlen,
    Finset.sum_mul]
  simp only [Nat.cast_zero, zero_add]
  apply Finset.sum_congr rfl
  intro i hi
  have hi' : i < used.length := Finset.mem_range.mp hi
  have hv := hval (used[i]) (List.getElem_mem hi')
  rw [getD_snd _ _ hi', hv, mul_assoc]
  congr 2
  rw [xz_eq _ _ hi']

/-- two exponents below `R` with the same image in `ZMod R` are equal. -/
theorem eq_of_cast_eq {a b : Nat} (ha : a < R) (hb : b < R) (h : (a : ZMod R) = (b : ZMod R)) :
    a = b := by
  have := (ZMod.natCast_eq_natCast_iff' a b R).mp h
  rwa [Nat.mod_eq_of_lt ha, Nat.mod_eq_of_lt hb] at this

open Polynomial in
/-- **Uniqueness**: any two share lists (any subset of size above the degree, any order) that
    carry correct shares of the same polynomial recover the same value. -/
theorem recover_unique [hp : Fact (Nat.Prime R)] (used₁ used₂ : List (Int × Nat))
    (f : (ZMod R)[X]) (M : ZMod R)
    (hd₁ : (used₁.map (fun s => ((s.1 : Int) : ZMod R))).Nodup)
    (hd₂ : (used₂.map (fun s => ((s.1 : Int) : ZMod R))).Nodup)
    (hg₁ : f.degree < used₁.length) (hg₂ : f.degree < used₂.length)
    (hv₁ : ∀ s ∈ used₁, (s.2 : ZMod R) = f.eval ((s.1 : Int) : ZMod R) * M)
    (hv₂ : ∀ s ∈ used₂, (s.2 : ZMod R) = f.eval ((s.1 : Int) : ZMod R) * M) :
    combine used₁ = combine used₂ := by
  obtain ⟨e₁, h₁, l₁, c₁⟩ := combine_eq_secret used₁ f M hd₁ hg₁ hv₁
  obtain ⟨e₂, h₂, l₂, c₂⟩ := combine_eq_secret used₂ f M hd₂ hg₂ hv₂
  rw [h₁, h₂, eq_of_cast_eq l₁ l₂ (c₁.trans c₂.symm)]

open Polynomial in
/-- **Order independence** with no assumption on the values: permuting shares with distinct
    indices does not change the recovered value (they always lie on a unique polynomial of degree
    below their number). This is what makes the Go map iteration in `completeSignature` harmless. -/
theorem recover_perm [hp : Fact (Nat.Prime R)] (used₁ used₂ : List (Int × Nat))
    (hperm : used₁.Perm used₂)
    (hd₁ : (used₁.map (fun s => ((s.1 : Int) : ZMod R))).Nodup) :
    combine used₁ = combine used₂ := by
  classical
  have hlen : (used₁.map (·.1)).length = used₁.length := by simp
  have hxz : ∀ j (hj : j < used₁.length),
      xz (used₁.map (·.1)) j = (used₁.map (fun s => ((s.1 : Int) : ZMod R)))[j]'(by simpa using hj) := by
    intro j hj
    rw [xz_eq _ _ hj]; simp
  have hinj : Set.InjOn (xz (used₁.map (·.1))) (Finset.range used₁.length : Set ℕ) := by
    intro j hj k hk hjk
    have hj' : j < used₁.length := by simpa using hj
    have hk' : k < used₁.length := by simpa using hk
    rw [hxz j hj', hxz k hk'] at hjk
    exact (hd₁.getElem_inj_iff).mp hjk
  let r : ℕ → ZMod R := fun i => (((used₁.map (·.2)).getD i 0 : ℕ) : ZMod R)
  let f := Lagrange.interpolate (Finset.range used₁.length) (xz (used₁.map (·.1))) r
  have hdeg : f.degree < used₁.length := by
    have := Lagrange.degree_interpolate_lt (r := r) hinj
    rw [Finset.card_range] at this
    exact this
  have hv₁ : ∀ s ∈ used₁, (s.2 : ZMod R) = f.eval ((s.1 : Int) : ZMod R) * 1 := by
    intro s hs
    obtain ⟨i, hi, rfl⟩ := List.mem_iff_getElem.mp hs
    have h := Lagrange.eval_interpolate_at_node (r := r) hinj (Finset.mem_range.mpr hi)
    have hx : xz (used₁.map (·.1)) i = ((used₁[i].1 : Int) : ZMod R) := xz_eq _ _ hi
    rw [mul_one, ← hx]
    show _ = Polynomial.eval _ (Lagrange.interpolate _ _ r)
    rw [h]
    show _ = (((used₁.map (·.2)).getD i 0 : ℕ) : ZMod R)
    rw [getD_snd _ _ hi]
  have hd₂ : (used₂.map (fun s => ((s.1 : Int) : ZMod R))).Nodup :=
    (hperm.map _).nodup_iff.mp hd₁
  have hv₂ : ∀ s ∈ used₂, (s.2 : ZMod R) = f.eval ((s.1 : Int) : ZMod R) * 1 :=
    fun s hs => hv₁ s (hperm.mem_iff.mpr hs)
  exact recover_unique used₁ used₂ f 1 hd₁ hd₂ hdeg (by rw [← hperm.length_eq]; exact hdeg) hv₁ hv₂



/-! ## Consequences for `RecoverSignature` -/

theorem take_getD {α : Type} (l : List α) (k i : Nat) (d : α) (h : i < k) :
    (l.take k).getD i d = l.getD i d := by
  simp [List.getD_eq_getElem?_getD, h]

/-- **What held before the fix** (`recover_skips` is false of the old code): if no skipped entry
    occurs among the first `thr` entries, old and fixed code agree. -/
theorem recover_skips_partial (thr : Int) (pre post : List Entry)
    (hpre : ∀ e ∈ pre, e.valid?.isSome) (h0 : 0 ≤ thr) (hlen : thr ≤ pre.length) :
    recoverSigOld thr (pre ++ post) = recoverSig thr (pre ++ post) := by
  obtain ⟨hvl, hvg⟩ := allValid_getD pre hpre
  have hk : thr.toNat ≤ (pre.filterMap Entry.valid?).length := by omega
  have hused : collectSig thr (pre ++ post) [] = (pre.filterMap Entry.valid?).take thr.toNat := by
    rw [collectSig_eq, usedOf, if_pos h0, List.filterMap_append, List.take_append_of_le_length hk]
  unfold recoverSigOld recoverSig
  simp only [hused]
  split
  · rfl
  · unfold combine
    apply combineOld_eq
    intro i hi
    have hi' : i < thr.toNat := by
      have := List.mem_range.mp hi
      rw [List.length_take] at this
      omega
    have hip : i < pre.length := by omega
    obtain ⟨idx, hidx⟩ := hvg i hip
    refine ⟨idx, ?_⟩
    rw [List.map_take, take_getD _ _ _ _ hi']
    rw [← hidx]
    simp [List.getD_eq_getElem?_getD, List.getElem?_append_left hip]

open Polynomial in
/-- **C03, recovery**: for every threshold `thr ≥ 0`, every input slice whose first `thr`
    non-skipped entries have distinct indices (in the scalar field) and carry the values
    `f(index) • M` of a polynomial of degree `< thr` — in any order, any subset, with skipped
    entries interleaved anywhere — `RecoverSignature` returns `f(0) • M`. -/
theorem recover_eq_secret [hp : Fact (Nat.Prime R)] (thr : Int) (es : List Entry)
    (f : (ZMod R)[X]) (M : ZMod R) (h0 : 0 ≤ thr)
    (henough : thr ≤ (es.filterMap Entry.valid?).length)
    (hdist : (((es.filterMap Entry.valid?).take thr.toNat).map
      (fun s => ((s.1 : Int) : ZMod R))).Nodup)
    (hdeg : f.degree < thr.toNat)
    (hval : ∀ s ∈ (es.filterMap Entry.valid?).take thr.toNat,
      (s.2 : ZMod R) = f.eval ((s.1 : Int) : ZMod R) * M) :
    ∃ e, recoverSig thr es = .ok e ∧ e < R ∧ (e : ZMod R) = f.eval 0 * M := by
  have hl : ((es.filterMap Entry.valid?).take thr.toNat).length = thr.toNat := by
    rw [List.length_take]; omega
  obtain ⟨e, he, helt, hec⟩ := combine_eq_secret _ f M hdist (by rw [hl]; exact hdeg) hval
  refine ⟨e, ?_, helt, hec⟩
  rw [recoverSig_eq_recoverValid, recoverValid, usedOf, if_pos h0, hl, if_neg (by omega)]
  exact he

/-- fewer than `thr` non-skipped entries give the error, whatever else is in the slice. -/
theorem recover_not_enough (thr : Int) (es : List Entry)
    (h : ((es.filterMap Entry.valid?).length : Int) < thr) :
    recoverSig thr es = .notEnough := by
  have h0 : 0 ≤ thr := by omega
  rw [recoverSig_eq_recoverValid, recoverValid, usedOf, if_pos h0, List.length_take]
  rw [if_pos (by omega)]

/-! ## Verification (A-field: exponent form of the pairing check) -/

/-- `VerifyG1 (sk•G2) (m•G1) (s•G1)` holds iff `s = sk·m` in the scalar field. -/
theorem verify_iff (pk m s : Nat) :
    verify pk m s = true ↔ ((s : ZMod R)) = (pk : ZMod R) * (m : ZMod R) := by
  unfold verify
  rw [beq_iff_eq, ← ZMod.natCast_eq_natCast_iff']
  push_cast
  exact eq_comm

open Polynomial in
/-- **C03, the recovered signature verifies under the group public key** `f(0) • G2`. -/
theorem recovered_verifies [hp : Fact (Nat.Prime R)] (thr : Int) (es : List Entry)
    (f : (ZMod R)[X]) (a0 m : Nat) (h0 : 0 ≤ thr)
    (ha0 : f.eval 0 = (a0 : ZMod R))
    (henough : thr ≤ (es.filterMap Entry.valid?).length)
    (hdist : (((es.filterMap Entry.valid?).take thr.toNat).map
      (fun s => ((s.1 : Int) : ZMod R))).Nodup)
    (hdeg : f.degree < thr.toNat)
    (hval : ∀ s ∈ (es.filterMap Entry.valid?).take thr.toNat,
      (s.2 : ZMod R) = f.eval ((s.1 : Int) : ZMod R) * (m : ZMod R)) :
    ∃ e, recoverSig thr es = .ok e ∧ verify a0 m e = true := by
  obtain ⟨e, he, _, hec⟩ := recover_eq_secret thr es f (m : ZMod R) h0 henough hdist hdeg hval
  exact ⟨e, he, (verify_iff a0 m e).mpr (by rw [hec, ha0])⟩

/-! ## Assumption A-field (primality of the group order) discharged -/

/-- the group order extracted from the source is prime (Pratt certificate checked by the kernel);
    if the constant in the source changes this stops checking. -/
theorem R_prime : Nat.Prime R := Primes.groupOrder_prime

open Polynomial in
/-- **C03, recovery — no hypothesis on `R`.** -/
theorem recover_eq_secret_unconditional (thr : Int) (es : List Entry)
    (f : (ZMod R)[X]) (M : ZMod R) (h0 : 0 ≤ thr)
    (henough : thr ≤ (es.filterMap Entry.valid?).length)
    (hdist : (((es.filterMap Entry.valid?).take thr.toNat).map
      (fun s => ((s.1 : Int) : ZMod R))).Nodup)
    (hdeg : f.degree < thr.toNat)
    (hval : ∀ s ∈ (es.filterMap Entry.valid?).take thr.toNat,
      (s.2 : ZMod R) = f.eval ((s.1 : Int) : ZMod R) * M) :
    ∃ e, recoverSig thr es = .ok e ∧ e < R ∧ (e : ZMod R) = f.eval 0 * M :=
  @recover_eq_secret ⟨R_prime⟩ thr es f M h0 henough hdist hdeg hval

open Polynomial in
/-- **C03, the recovered signature verifies — no hypothesis on `R`.** -/
theorem recovered_verifies_unconditional (thr : Int) (es : List Entry)
    (f : (ZMod R)[X]) (a0 m : Nat) (h0 : 0 ≤ thr)
    (ha0 : f.eval 0 = (a0 : ZMod R))
    (henough : thr ≤ (es.filterMap Entry.valid?).length)
    (hdist : (((es.filterMap Entry.valid?).take thr.toNat).map
      (fun s => ((s.1 : Int) : ZMod R))).Nodup)
    (hdeg : f.degree < thr.toNat)
    (hval : ∀ s ∈ (es.filterMap Entry.valid?).take thr.toNat,
      (s.2 : ZMod R) = f.eval ((s.1 : Int) : ZMod R) * (m : ZMod R)) :
    ∃ e, recoverSig thr es = .ok e ∧ verify a0 m e = true :=
  @recovered_verifies ⟨R_prime⟩ thr es f a0 m h0 ha0 henough hdist hdeg hval

/-! ## Share validation (`extractAndValidateShare`) -/

/-- A share is accepted exactly when the bytes unmarshal to a G1 point, the sender has a public
    key share, and the point is `(pk_sender · prev) • G` (= the pairing check under A-field);
    the accepted value is that point. -/
theorem validateShare_accepted_iff (sender : Nat) (pks : List (Nat × Nat)) (prev : Nat)
    (share : Option (Nat × Nat)) (x y : Nat) :
    validateShare sender pks prev share = .accepted x y ↔
      ∃ pk, share.bind (fun s => g1Unmarshal s.1 s.2) = some (x, y) ∧
        pks.lookup sender = some pk ∧ g1OfExp (pk * prev) = (x, y) := by
  unfold validateShare
  cases hs : share.bind (fun s => g1Unmarshal s.1 s.2) with
  | none => simp
  | some pt =>
    cases hl : pks.lookup sender with
    | none => simp
    | some pk =>
      simp only
      by_cases hv : g1OfExp (pk * prev) = pt
      · rw [if_pos hv]
        constructor
        · intro h
          injection h with h1 h2
          exact ⟨pk, by rw [← h1, ← h2], rfl, by rw [hv, ← h1, ← h2]⟩
        · rintro ⟨pk', h1, h2, _⟩
          injection h1 with h1; injection h2 with h2
          subst h1; rfl
      · rw [if_neg hv]
        constructor
        · intro h; cases h
        · rintro ⟨pk', h1, h2, h3⟩
          injection h1 with h1; injection h2 with h2
          subst h1; subst h2; exact absurd h3 hv

/-- the receive loop as a fold over any message history: shares that validate are stored
    under their sender (later messages overwrite), everything else is dropped. -/
def receiveLoop (pks : List (Nat × Nat)) (prev : Nat) :
    List (Nat × Option (Nat × Nat)) → List (Nat × (Nat × Nat)) → List (Nat × (Nat × Nat))
  | [], acc => acc
  | (sender, bytes) :: rest, acc =>
    match validateShare sender pks prev bytes with
    | .accepted x y => receiveLoop pks prev rest ((sender, (x, y)) :: acc.filter (·.1 != sender))
    | _ => receiveLoop pks prev rest acc

/-- **C03, only verified shares are used**: after any message history, every stored share of a
    sender verifies under that sender's public key share (own share aside = the initial `acc`). -/
theorem only_verified_shares_used (pks : List (Nat × Nat)) (prev : Nat)
    (msgs : List (Nat × Option (Nat × Nat))) (acc : List (Nat × (Nat × Nat)))
    (hacc : ∀ p ∈ acc, ∃ pk, pks.lookup p.1 = some pk ∧ g1OfExp (pk * prev) = p.2) :
    ∀ p ∈ receiveLoop pks prev msgs acc, ∃ pk, pks.lookup p.1 = some pk ∧ g1OfExp (pk * prev) = p.2 := by
  induction msgs generalizing acc with
  | nil => exact hacc
  | cons msg rest ih =>
    obtain ⟨sender, bytes⟩ := msg
    unfold receiveLoop
    cases hv : validateShare sender pks prev bytes with
    | accepted x y =>
      apply ih
      intro p hp
      rcases List.mem_cons.mp hp with rfl | hp
      · obtain ⟨pk, _, h2, h3⟩ := (validateShare_accepted_iff _ _ _ _ _ _).mp hv
        exact ⟨pk, h2, h3⟩
      · exact hacc p (List.mem_filter.mp hp).1
    | unmarshal => exact ih acc hacc
    | nosender => exact ih acc hacc
    | invalid => exact ih acc hacc


/-! ## The monitor accepts every model output -/

open Polynomial

/-- the generator's polynomial as a `Polynomial (ZMod R)`. -/
noncomputable def polyOf : List Nat → (ZMod R)[X]
  | [] => 0
  | c :: cs => C (c : ZMod R) + X * polyOf cs

theorem evalPoly_cast (coefs : List Nat) (x : Int) :
    ((evalPoly coefs x : Int) : ZMod R) = (polyOf coefs).eval (x : ZMod R) := by
  induction coefs with
  | nil => simp [evalPoly, polyOf]
  | cons c cs ih =>
    have : evalPoly (c :: cs) x = (evalPoly cs x * x + (c : Int)) % (R : Int) := rfl
    rw [this, ZMod.intCast_mod]
    push_cast
    rw [ih]
    simp [polyOf]
    ring

theorem polyOf_coeff (coefs : List Nat) : ∀ k, coefs.length ≤ k → (polyOf coefs).coeff k = 0 := by
  induction coefs with
  | nil => intro k _; simp [polyOf]
  | cons c cs ih =>
    intro k hk
    cases k with
    | zero => simp at hk
    | succ k =>
      simp only [polyOf, coeff_add, coeff_C_succ, coeff_X_mul, zero_add]
      exact ih k (by simpa using hk)

theorem polyOf_degree (coefs : List Nat) : (polyOf coefs).degree < coefs.length :=
  (degree_lt_iff_coeff_zero _ _).mpr (polyOf_coeff coefs)

theorem polyOf_eval_zero (coefs : List Nat) :
    (polyOf coefs).eval 0 = ((coefs.headD 0 : Nat) : ZMod R) := by
  cases coefs <;> simp [polyOf]

theorem nodupInts_nodup : ∀ l : List Int, nodupInts l = true → l.Nodup
  | [], _ => List.nodup_nil
  | x :: xs, h => by
    simp only [nodupInts, Bool.and_eq_true, Bool.not_eq_true', List.contains_eq_mem,
      decide_eq_false_iff_not] at h
    exact List.nodup_cons.mpr ⟨h.1, nodupInts_nodup xs h.2⟩

theorem nodup_nodupInts : ∀ l : List Int, l.Nodup → nodupInts l = true
  | [], _ => rfl
  | x :: xs, h => by
    have h' := List.nodup_cons.mp h
    simp only [nodupInts, Bool.and_eq_true, Bool.not_eq_true', List.contains_eq_mem,
      decide_eq_false_iff_not]
    exact ⟨h'.1, nodup_nodupInts xs h'.2⟩

theorem valid_nonneg (es : List Entry) : ∀ s ∈ es.filterMap Entry.valid?, 0 ≤ s.1 := by
  intro s hs
  obtain ⟨e, _, he⟩ := List.mem_filterMap.mp hs
  cases e with
  | nil => simp [Entry.valid?] at he
  | noV i => simp [Entry.valid?] at he
  | share i v =>
    by_cases hneg : i < 0
    · simp [Entry.valid?, hneg] at he
    · simp [Entry.valid?, hneg] at he
      rw [← he]; simpa using hneg

theorem cast_inj_of_bounds {a b : Int} (ha0 : 0 ≤ a) (ha : a < R) (hb0 : 0 ≤ b) (hb : b < R)
    (h : (a : ZMod R) = (b : ZMod R)) : a = b := by
  have := (ZMod.intCast_eq_intCast_iff' a b R).mp h
  rwa [Int.emod_eq_of_lt ha0 ha, Int.emod_eq_of_lt hb0 hb] at this

theorem cast_nodup (used : List (Int × Nat)) (hnd : (used.map (·.1)).Nodup)
    (h0 : ∀ s ∈ used, 0 ≤ s.1) (hR : ∀ s ∈ used, s.1 < (R : Int)) :
    (used.map (fun s => ((s.1 : Int) : ZMod R))).Nodup := by
  have : used.map (fun s => ((s.1 : Int) : ZMod R)) = (used.map (·.1)).map (fun z : Int => (z : ZMod R)) := by
    simp
  rw [this]
  apply List.Nodup.map_on _ hnd
  intro a ha b hb hab
  obtain ⟨s, hs, rfl⟩ := List.mem_map.mp ha
  obtain ⟨t, ht, rfl⟩ := List.mem_map.mp hb
  exact cast_inj_of_bounds (h0 s hs) (hR s hs) (h0 t ht) (hR t ht) hab


theorem correctShare_cast [hp : Fact (Nat.Prime R)] (coefs : List Nat) (m : Nat) (s : Int × Nat)
    (h : correctShare coefs m s = true) :
    (s.2 : ZMod R) = (polyOf coefs).eval ((s.1 : Int) : ZMod R) * (m : ZMod R) := by
  have hRne : ((R : Nat) : Int) ≠ 0 := by exact_mod_cast hp.out.ne_zero
  unfold correctShare at h
  rw [beq_iff_eq] at h
  have h2 := congrArg (fun n : Nat => (n : ZMod R)) h
  simp only [ZMod.natCast_mod] at h2
  rw [toNat_cast _ (Int.emod_nonneg _ hRne), ZMod.intCast_mod] at h2
  rw [← h2]
  push_cast
  rw [evalPoly_cast]

theorem combineFrom_ne_notEnough (xs : List Int) (vals : List Nat) :
    ∀ (is : List Nat) (acc : Nat), combineFrom xs vals is acc ≠ .notEnough := by
  intro is
  induction is with
  | nil => intro acc h; cases h
  | cons i is ih =>
    intro acc
    unfold combineFrom
    cases lagrangeBasis i xs with
    | none => intro h; cases h
    | some b => exact ih _

/-- distinct indices (in the scalar field) never make the recovery crash. -/
theorem combine_ok_of_nodup [hp : Fact (Nat.Prime R)] (used : List (Int × Nat))
    (hdist : (used.map (fun s => ((s.1 : Int) : ZMod R))).Nodup) :
    ∃ e, combine used = .ok e := by
  have hlen : (used.map (·.1)).length = used.length := by simp
  have hB : ∀ i ∈ List.range used.length, ∃ b, lagrangeBasis i (used.map (·.1)) = some b ∧
      (b : ZMod R) = coef (used.map (·.1)) i := by
    intro i hi
    have hi' : i < used.length := List.mem_range.mp hi
    obtain ⟨b, hb, _, hbc⟩ := lagrangeBasis_cast (used.map (·.1)) i (by
      intro j hj h
      have hj' := Finset.mem_erase.mp hj
      have hjl : j < used.length := by rw [← hlen]; exact Finset.mem_range.mp hj'.2
      rw [xz_eq _ _ hjl, xz_eq _ _ hi'] at h
      have h' : (used.map (fun s => ((s.1 : Int) : ZMod R)))[j]'(by simpa using hjl) =
          (used.map (fun s => ((s.1 : Int) : ZMod R)))[i]'(by simpa using hi') := by simpa using h
      exact hj'.1 ((hdist.getElem_inj_iff).mp h'))
    exact ⟨b, hb, hbc⟩
  obtain ⟨e, he, _, _⟩ := combineFrom_cast (used.map (·.1)) (used.map (·.2)) hp.out.pos
    (List.range used.length) hB 0 hp.out.pos
  exact ⟨e, he⟩

theorem crashOk_of_panic [hp : Fact (Nat.Prime R)] (used : List (Int × Nat))
    (h0 : ∀ s ∈ used, 0 ≤ s.1) (hpanic : combine used = .panic) :
    (!nodupInts (used.map (·.1)) || used.any (fun s => decide ((R : Int) ≤ s.1))) = true := by
  by_contra hcon
  simp only [Bool.or_eq_true, Bool.not_eq_true', List.any_eq_true, decide_eq_true_eq, not_or,
    Bool.not_eq_false, not_exists, not_and, not_le] at hcon
  obtain ⟨hnd, hlt⟩ := hcon
  obtain ⟨e, he⟩ := combine_ok_of_nodup used (cast_nodup used (nodupInts_nodup _ hnd) h0 hlt)
  rw [he] at hpanic; cases hpanic

/-- **The monitor accepts every output of the model** (so: implementation = model on a case, and
    the theorems about the model, give the property for that case of the implementation). -/
theorem holdsRec_model [hp : Fact (Nat.Prime R)] (thr : Int) (es : List Entry) (coefs : List Nat)
    (m : Nat) :
    match recoverSig thr es with
    | .ok e => holdsRec thr es coefs m (some (g1OfExp e, verify (coefs.headD 0) m e)) = true
    | .notEnough => holdsRec thr es coefs m none = true
    | .panic => holdsRecCrashOk thr es = true := by
  have hvalid0 := valid_nonneg es
  by_cases h1 : thr < 1
  · have hrec : ∀ o, holdsRec thr es coefs m o = true := by
      intro o; unfold holdsRec; simp [h1]
    cases hr : recoverSig thr es with
    | ok e => exact hrec _
    | notEnough => exact hrec _
    | panic =>
      simp only
      unfold holdsRecCrashOk
      simp only [if_pos h1]
      rw [recoverSig_eq_recoverValid, recoverValid] at hr
      by_cases h0 : 0 ≤ thr
      · have : thr = 0 := by omega
        subst this
        simp [usedOf, combine, combineFrom] at hr
      · have hu : usedOf thr (es.filterMap Entry.valid?) = es.filterMap Entry.valid? := by
          simp [usedOf, h0]
        rw [hu] at hr
        split at hr
        · cases hr
        · exact crashOk_of_panic _ hvalid0 hr
  · have h0 : 0 ≤ thr := by omega
    by_cases h2 : ((es.filterMap Entry.valid?).length : Int) < thr
    · rw [recover_not_enough thr es h2]
      simp only
      unfold holdsRec
      simp [h1, h2]
    · have hl : ((es.filterMap Entry.valid?).take thr.toNat).length = thr.toNat := by
        rw [List.length_take]; omega
      have hrs : recoverSig thr es = combine ((es.filterMap Entry.valid?).take thr.toNat) := by
        rw [recoverSig_eq_recoverValid, recoverValid, usedOf, if_pos h0, hl, if_neg (by omega)]
      have hused0 : ∀ s ∈ (es.filterMap Entry.valid?).take thr.toNat, 0 ≤ s.1 :=
        fun s hs => hvalid0 s (List.mem_of_mem_take hs)
      rw [hrs]
      cases hc : combine ((es.filterMap Entry.valid?).take thr.toNat) with
      | notEnough => exact absurd hc (combineFrom_ne_notEnough _ _ _ _)
      | panic =>
        simp only
        unfold holdsRecCrashOk
        simp only [if_neg h1]
        exact crashOk_of_panic _ hused0 hc
      | ok e =>
        simp only
        unfold holdsRec
        simp only [if_neg h1, if_neg h2]
        split
        · rename_i hcond
          simp only [Bool.and_eq_true, List.all_eq_true, decide_eq_true_eq] at hcond
          obtain ⟨⟨⟨hnd, hlt⟩, hcorr⟩, hclen⟩ := hcond
          have hdist := cast_nodup _ (nodupInts_nodup _ hnd) hused0 hlt
          have hdeg : (polyOf coefs).degree < ((es.filterMap Entry.valid?).take thr.toNat).length := by
            refine lt_of_lt_of_le (polyOf_degree coefs) ?_
            rw [hl]
            have : coefs.length ≤ thr.toNat := by omega
            exact_mod_cast this
          obtain ⟨e', he', _, hec⟩ := combine_eq_secret _ (polyOf coefs) (m : ZMod R) hdist hdeg
            (fun s hs => correctShare_cast coefs m s (hcorr s hs))
          rw [hc] at he'
          injection he' with he'
          subst he'
          rw [polyOf_eval_zero] at hec
          have hv : verify (coefs.headD 0) m e = true := (verify_iff _ _ _).mpr hec
          have hmod : e % R = (coefs.headD 0 * m) % R := by
            apply (ZMod.natCast_eq_natCast_iff' _ _ _).mp
            rw [hec]; push_cast; rfl
          rw [hv, Bool.true_and, beq_iff_eq]
          unfold g1OfExp
          rw [hmod]
        · rfl

/-- the monitor for share validation accepts what the model accepts. -/
theorem holdsAccepted_model (sender : Nat) (pks : List (Nat × Nat)) (prev : Nat)
    (share : Option (Nat × Nat)) (x y : Nat)
    (h : validateShare sender pks prev share = .accepted x y) :
    holdsAccepted sender pks prev share (x, y) = true := by
  obtain ⟨pk, h1, h2, h3⟩ := (validateShare_accepted_iff _ _ _ _ _ _).mp h
  unfold holdsAccepted
  rw [h1, h2]
  simp [h3]


end KeepVerif.C03
