import KeepVerif.Model.C26
/-!
# C26 — Wallet transactions conserve value and pay only the intended scripts

Theorems over `Model/C26.lean` (the same definitions the driver runs), for all `Int` amounts,
all request/target/deposit counts, both redemption shapes.  `int64` overflow is outside the
model (amounts below 2^62).
-/
namespace KeepVerif.C26

/-! ### arithmetic helpers -/

theorem isum_append (xs ys : List Int) : isum (xs ++ ys) = isum xs + isum ys := by
  induction xs with
  | nil => simp [isum]
  | cons x xs ih => simp [isum, ih, Int.add_assoc]

theorem isum_replicate (k : Nat) (x : Int) : isum (List.replicate k x) = k * x := by
  induction k with
  | zero => simp [isum]
  | succ k ih =>
    simp only [List.replicate_succ, isum, ih]
    rw [Int.natCast_succ, Int.add_mul]; omega

/-- the Go loop emits `n−1` times `per`, then `per + r`. -/
theorem splitEven_succ (per r : Int) (k : Nat) :
    splitEven per r (k + 1) = List.replicate k per ++ [per + r] := by
  induction k with
  | zero => simp [splitEven]
  | succ k ih =>
    rw [splitEven, ih]
    simp [List.replicate_succ]

theorem splitEven_length (per r : Int) (k : Nat) : (splitEven per r k).length = k := by
  induction k with
  | zero => simp [splitEven]
  | succ k ih => simp [splitEven, ih]

/-- `(total − total % n) / n = total / n` (truncated), for `n ≠ 0`. -/
theorem perOf_eq (t : Int) (n : Nat) (hn : 0 < n) : perOf t n = t.tdiv n := by
  unfold perOf
  rw [← Int.mul_tdiv_self]
  exact Int.mul_tdiv_cancel_left _ (by omega)

theorem per_mul_add_rem (t : Int) (n : Nat) (hn : 0 < n) : (n : Int) * perOf t n + remOf t n = t := by
  rw [perOf_eq t n hn]; unfold remOf
  exact Int.mul_tdiv_add_tmod t n

theorem splitEven_sum (t : Int) (n : Nat) (hn : 0 < n) :
    isum (splitEven (perOf t n) (remOf t n) n) = t := by
  obtain ⟨k, rfl⟩ : ∃ k, n = k + 1 := ⟨n - 1, by omega⟩
  rw [splitEven_succ, isum_append, isum_replicate]
  have h := per_mul_add_rem t (k + 1) hn
  simp only [isum]
  rw [Int.natCast_succ, Int.add_mul] at h
  omega

/-! ### fee distribution (`withRedemptionTotalFee`) -/

/-- `fee_shares_sum`: the shares add up to the proposed total fee — for every `totalFee : Int`
    (also negative ones: Go's `%` is truncated) and every `n > 0`. -/
theorem feeShares_sum (totalFee : Int) (n : Nat) (hn : 0 < n) : isum (feeShares totalFee n) = totalFee :=
  splitEven_sum totalFee n hn

/-- one share per request. -/
theorem feeShares_length (totalFee : Int) (n : Nat) : (feeShares totalFee n).length = n :=
  splitEven_length _ _ n

/-- the shape of the distribution: every request but the last pays `⌊fee/n⌋` (truncated), the
    last one pays that plus the remainder `fee % n`. -/
theorem feeShares_shape (totalFee : Int) (n : Nat) (hn : 0 < n) :
    feeShares totalFee n =
      List.replicate (n - 1) (totalFee.tdiv n) ++ [totalFee.tdiv n + totalFee.tmod n] := by
  obtain ⟨k, rfl⟩ : ∃ k, n = k + 1 := ⟨n - 1, by omega⟩
  unfold feeShares
  rw [splitEven_succ, perOf_eq _ _ hn]
  rfl

/-- `shares_differ_by_lt_n`: the last share differs from the others by less than `n`. -/
theorem shares_differ_by_lt_n (totalFee : Int) (n : Nat) (hn : 0 < n) :
    (totalFee.tmod n).natAbs < n := by
  rw [Int.natAbs_tmod]
  simpa using Nat.mod_lt _ hn

/-! ### deposit sweep -/

/-- `inputs_exact`: a sweep spends the main UTXO (if any) first and then exactly the deposits,
    in order. -/
theorem sweep_inputs_exact (w : String) (main : Option Utxo) (deps : List Dep) (fee : Int) (tx : Tx)
    (h : sweep w main deps fee = .ok tx) :
    tx.ins = (optList main ++ deps.map (·.utxo)).map outpoint := by
  unfold sweep at h
  split at h; · cases h
  split at h; · cases h
  split at h; · cases h
  cases h; rfl

/-- `outputs_exact`: one output, to the wallet's own P2WPKH script. -/
theorem sweep_outputs_exact (w : String) (main : Option Utxo) (deps : List Dep) (fee : Int) (tx : Tx)
    (h : sweep w main deps fee = .ok tx) :
    tx.outs = [(p2wpkh w, totalIn (optList main ++ deps.map (·.utxo)) - fee)] := by
  unfold sweep at h
  split at h; · cases h
  split at h; · cases h
  split at h; · cases h
  cases h; rfl

/-- `fee_exact`: inputs minus outputs is the proposed fee. -/
theorem sweep_fee_exact (w : String) (main : Option Utxo) (deps : List Dep) (fee : Int) (tx : Tx)
    (h : sweep w main deps fee = .ok tx) :
    totalIn (optList main ++ deps.map (·.utxo)) - totalOut tx.outs = fee := by
  rw [sweep_outputs_exact w main deps fee tx h]
  simp [totalOut, isum]; omega

/-- a sweep only succeeds over key-hash main UTXO and script-hash deposits with a script. -/
theorem sweep_ok_inputs_valid (w : String) (main : Option Utxo) (deps : List Dep) (fee : Int) (tx : Tx)
    (h : sweep w main deps fee = .ok tx) :
    deps ≠ [] ∧ (∀ m, main = some m → m.kind.isPkh = true) ∧ depErr deps = none := by
  unfold sweep at h
  split at h; · cases h
  rename_i h1
  split at h; · cases h
  rename_i h2
  split at h; · cases h
  rename_i h3
  refine ⟨by intro e; simp [e] at h1, ?_, h3⟩
  intro m hm; subst hm
  simpa [optList] using h2

/-- non-vacuity: well-formed inputs do assemble. -/
example : ∃ tx, sweep "aa" (some ⟨1, 0, 500, .wpkh⟩) [⟨⟨2, 1, 300, .wsh⟩, true⟩, ⟨⟨3, 0, 200, .sh⟩, true⟩] 10
    = .ok tx ∧ tx.outs = [("0014aa", 990)] := ⟨_, rfl, by decide⟩

/-! ### moved funds sweep -/

theorem msweep_inputs_exact (w : String) (moved main : Option Utxo) (fee : Int) (tx : Tx)
    (h : msweep w moved main fee = .ok tx) :
    ∃ mv, moved = some mv ∧ tx.ins = (mv :: optList main).map outpoint := by
  unfold msweep at h
  split at h; · cases h
  split at h; · cases h
  split at h; · cases h
  cases h; exact ⟨_, rfl, rfl⟩

theorem msweep_outputs_exact (w : String) (moved main : Option Utxo) (fee : Int) (tx : Tx)
    (h : msweep w moved main fee = .ok tx) :
    tx.outs = [(p2wpkh w, totalIn (optList moved ++ optList main) - fee)] := by
  unfold msweep at h
  split at h; · cases h
  split at h; · cases h
  split at h; · cases h
  cases h; rfl

theorem msweep_fee_exact (w : String) (moved main : Option Utxo) (fee : Int) (tx : Tx)
    (h : msweep w moved main fee = .ok tx) :
    totalIn (optList moved ++ optList main) - totalOut tx.outs = fee := by
  rw [msweep_outputs_exact w moved main fee tx h]
  simp [totalOut, isum]; omega

/-! ### moving funds -/

theorem zipTargets_scripts (ts : List String) (vs : List Int) (h : ts.length = vs.length) :
    (zipTargets ts vs).map (·.1) = ts.map p2wpkh := by
  induction ts generalizing vs with
  | nil => cases vs <;> simp [zipTargets]
  | cons t ts ih =>
    cases vs with
    | nil => simp at h
    | cons v vs => simp [zipTargets, ih vs (by simpa using h)]

theorem zipTargets_values (ts : List String) (vs : List Int) (h : ts.length = vs.length) :
    (zipTargets ts vs).map (·.2) = vs := by
  induction ts generalizing vs with
  | nil => cases vs <;> simp_all [zipTargets]
  | cons t ts ih =>
    cases vs with
    | nil => simp at h
    | cons v vs => simp [zipTargets, ih vs (by simpa using h)]

/-- shape of a successful moving funds transaction. -/
theorem move_ok (main : Option Utxo) (targets : List String) (fee : Int) (tx : Tx)
    (h : move main targets fee = .ok tx) :
    ∃ m, main = some m ∧ targets ≠ [] ∧ tx.ins = [outpoint m] ∧
      tx.outs = zipTargets targets
        (splitEven (perOf (m.value - fee) targets.length) (remOf (m.value - fee) targets.length) targets.length) := by
  unfold move at h
  split at h; · cases h
  rename_i h1
  split at h; · cases h
  split at h; · cases h
  cases h
  exact ⟨_, rfl, by intro e; simp [e] at h1, rfl, rfl⟩

/-- `inputs_exact`: only the wallet's main UTXO is spent. -/
theorem move_inputs_exact (main : Option Utxo) (targets : List String) (fee : Int) (tx : Tx)
    (h : move main targets fee = .ok tx) : ∃ m, main = some m ∧ tx.ins = [outpoint m] := by
  obtain ⟨m, a, _, c, _⟩ := move_ok main targets fee tx h
  exact ⟨m, a, c⟩

/-- `outputs_exact` (scripts): one P2WPKH output per target wallet, in commitment order. -/
theorem move_scripts_exact (main : Option Utxo) (targets : List String) (fee : Int) (tx : Tx)
    (h : move main targets fee = .ok tx) : tx.outs.map (·.1) = targets.map p2wpkh := by
  obtain ⟨m, _, _, _, d⟩ := move_ok main targets fee tx h
  rw [d]; exact zipTargets_scripts _ _ (splitEven_length _ _ _).symm

/-- `outputs_exact` (values): an even split, the remainder on the last target. -/
theorem move_values_exact (main : Option Utxo) (targets : List String) (fee : Int) (tx : Tx) (m : Utxo)
    (hm : main = some m) (h : move main targets fee = .ok tx) :
    tx.outs.map (·.2) =
      List.replicate (targets.length - 1) ((m.value - fee).tdiv targets.length)
        ++ [(m.value - fee).tdiv targets.length + (m.value - fee).tmod targets.length] := by
  obtain ⟨m', a, b, _, d⟩ := move_ok main targets fee tx h
  rw [hm] at a; cases a
  rw [d, zipTargets_values _ _ (splitEven_length _ _ _).symm]
  have hn : 0 < targets.length := List.length_pos_iff.mpr b
  exact feeShares_shape (m.value - fee) targets.length hn

/-- `fee_exact`: input minus outputs is the proposed fee. -/
theorem move_fee_exact (main : Option Utxo) (targets : List String) (fee : Int) (tx : Tx) (m : Utxo)
    (hm : main = some m) (h : move main targets fee = .ok tx) :
    m.value - totalOut tx.outs = fee := by
  obtain ⟨m', a, b, _, d⟩ := move_ok main targets fee tx h
  rw [hm] at a; cases a
  have hn : 0 < targets.length := List.length_pos_iff.mpr b
  unfold totalOut
  rw [d, zipTargets_values _ _ (splitEven_length _ _ _).symm, splitEven_sum _ _ hn]
  omega

example : ∃ tx, move (some ⟨1, 0, 1003, .wpkh⟩) ["aa", "bb", "cc"] 1 = .ok tx ∧
    tx.outs = [("0014aa", 334), ("0014bb", 334), ("0014cc", 334)] := ⟨_, rfl, by decide⟩
example : ∃ tx, move (some ⟨1, 0, 1003, .pkh⟩) ["aa", "bb", "cc"] 0 = .ok tx ∧
    tx.outs = [("0014aa", 334), ("0014bb", 334), ("0014cc", 335)] := ⟨_, rfl, by decide⟩

/-! ### redemption -/

def redeemableTotal (reqs : List Req) : Int := isum (reqs.map (fun r => r.amount - r.treasury))

theorem redemptionOuts_scripts (reqs : List Req) (ss : List Int) (h : reqs.length = ss.length) :
    (redemptionOuts reqs ss).map (·.1) = reqs.map (·.script) := by
  induction reqs generalizing ss with
  | nil => cases ss <;> simp [redemptionOuts]
  | cons r rs ih =>
    cases ss with
    | nil => simp at h
    | cons s ss => simp [redemptionOuts, ih ss (by simpa using h)]

theorem redemptionOuts_length (reqs : List Req) (ss : List Int) (h : reqs.length = ss.length) :
    (redemptionOuts reqs ss).length = reqs.length := by
  have := congrArg List.length (redemptionOuts_scripts reqs ss h)
  simpa using this

theorem redemptionOuts_total (reqs : List Req) (ss : List Int) (h : reqs.length = ss.length) :
    totalOut (redemptionOuts reqs ss) = redeemableTotal reqs - isum ss := by
  induction reqs generalizing ss with
  | nil => cases ss <;> simp_all [redemptionOuts, totalOut, redeemableTotal, isum]
  | cons r rs ih =>
    cases ss with
    | nil => simp at h
    | cons s ss =>
      have := ih ss (by simpa using h)
      simp only [totalOut, redeemableTotal, redemptionOuts, List.map_cons, isum] at this ⊢
      omega

/-- the (possible) change value computed by the code equals `main − Σ redeemable`. -/
def changeOf (m : Utxo) (reqs : List Req) : Int := m.value - redeemableTotal reqs

/-- shape of a successful redemption transaction. -/
theorem redeem_ok (w : String) (main : Option Utxo) (reqs : List Req) (fee : Int) (cl : Bool) (tx : Tx)
    (h : redeem w main reqs fee cl = .ok tx) :
    ∃ m, main = some m ∧ reqs ≠ [] ∧ tx.ins = [outpoint m] ∧
      tx.outs =
        (let routs := redemptionOuts reqs (feeShares fee reqs.length)
         if changeOf m reqs > 0 then
           if cl then routs ++ [(p2wpkh w, changeOf m reqs)] else (p2wpkh w, changeOf m reqs) :: routs
         else routs) := by
  unfold redeem at h
  split at h; · cases h
  rename_i m
  split at h; · cases h
  rename_i h1
  split at h; · cases h
  cases h
  have hne : reqs ≠ [] := by intro e; simp [e] at h1
  have hn : 0 < reqs.length := List.length_pos_iff.mpr hne
  refine ⟨m, rfl, hne, rfl, ?_⟩
  have hc : m.value - totalOut (redemptionOuts reqs (feeShares fee reqs.length))
      - isum (feeShares fee reqs.length) = changeOf m reqs := by
    rw [redemptionOuts_total _ _ (feeShares_length _ _).symm]
    unfold changeOf; omega
  simp only [hc]

/-- `inputs_exact`: only the wallet's main UTXO is spent. -/
theorem redeem_inputs_exact (w : String) (main : Option Utxo) (reqs : List Req) (fee : Int) (cl : Bool)
    (tx : Tx) (h : redeem w main reqs fee cl = .ok tx) : ∃ m, main = some m ∧ tx.ins = [outpoint m] := by
  obtain ⟨m, a, _, c, _⟩ := redeem_ok w main reqs fee cl tx h
  exact ⟨m, a, c⟩

/-- `outputs_exact`: request `i` is paid `amount_i − treasury_i − share_i` to its own script, in
    request order; a change output to the wallet's P2WPKH script exists iff
    `main − Σ redeemable > 0`, is the first (ChangeFirst) or the last (ChangeLast) output and
    carries exactly that value. -/
theorem redeem_outputs_exact (w : String) (main : Option Utxo) (reqs : List Req) (fee : Int) (cl : Bool)
    (tx : Tx) (m : Utxo) (hm : main = some m) (h : redeem w main reqs fee cl = .ok tx) :
    let routs := redemptionOuts reqs (feeShares fee reqs.length)
    routs.map (·.1) = reqs.map (·.script) ∧
    (0 < changeOf m reqs → cl = false → tx.outs = (p2wpkh w, changeOf m reqs) :: routs) ∧
    (0 < changeOf m reqs → cl = true → tx.outs = routs ++ [(p2wpkh w, changeOf m reqs)]) ∧
    (changeOf m reqs ≤ 0 → tx.outs = routs) := by
  obtain ⟨m', a, _, _, d⟩ := redeem_ok w main reqs fee cl tx h
  rw [hm] at a; cases a
  refine ⟨redemptionOuts_scripts _ _ (feeShares_length _ _).symm, ?_, ?_, ?_⟩
  · intro hc hcl; simp [d, hc, hcl]
  · intro hc hcl; simp [d, hc, hcl]
  · intro hc; have : ¬ changeOf m reqs > 0 := by omega
    simp [d, this]

/-- `fee_exact`: when the main UTXO covers the redeemable amounts (which proposal validation
    guarantees), inputs minus outputs is exactly the proposed fee. -/
theorem redeem_fee_exact (w : String) (main : Option Utxo) (reqs : List Req) (fee : Int) (cl : Bool)
    (tx : Tx) (m : Utxo) (hm : main = some m) (h : redeem w main reqs fee cl = .ok tx)
    (hcover : redeemableTotal reqs ≤ m.value) : m.value - totalOut tx.outs = fee := by
  obtain ⟨m', a, b, _, d⟩ := redeem_ok w main reqs fee cl tx h
  rw [hm] at a; cases a
  have hn : 0 < reqs.length := List.length_pos_iff.mpr b
  have ht := redemptionOuts_total reqs (feeShares fee reqs.length) (feeShares_length _ _).symm
  rw [feeShares_sum fee _ hn] at ht
  rw [d]
  by_cases hc : changeOf m reqs > 0
  · cases cl
    · simp only [hc, if_true, Bool.false_eq_true, if_false]
      simp only [totalOut, List.map_cons, isum] at ht ⊢
      unfold changeOf at *; omega
    · simp only [hc, if_true]
      simp only [totalOut, List.map_append, isum_append, List.map_cons, List.map_nil, isum] at ht ⊢
      unfold changeOf at *; omega
  · simp only [hc, if_false]
    unfold changeOf at hc; omega

/-- `fee_partial`: without the cover hypothesis the real difference is stated: the redemption
    outputs always total `Σ redeemable − fee` (so the transaction overspends its input by
    `Σ redeemable − main` and cannot be valid on Bitcoin; the code does not reject it). -/
theorem redeem_fee_partial (w : String) (main : Option Utxo) (reqs : List Req) (fee : Int) (cl : Bool)
    (tx : Tx) (m : Utxo) (hm : main = some m) (h : redeem w main reqs fee cl = .ok tx)
    (hunder : m.value < redeemableTotal reqs) :
    totalOut tx.outs = redeemableTotal reqs - fee := by
  obtain ⟨m', a, b, _, d⟩ := redeem_ok w main reqs fee cl tx h
  rw [hm] at a; cases a
  have hn : 0 < reqs.length := List.length_pos_iff.mpr b
  have ht := redemptionOuts_total reqs (feeShares fee reqs.length) (feeShares_length _ _).symm
  rw [feeShares_sum fee _ hn] at ht
  have hc : ¬ changeOf m reqs > 0 := by unfold changeOf; omega
  rw [d]; simp only [hc, if_false]; exact ht

example : ∃ tx, redeem "aa" (some ⟨1, 0, 1000, .wpkh⟩) [⟨"51", 300, 10⟩, ⟨"52", 400, 20⟩, ⟨"53", 100, 0⟩] 10 false
    = .ok tx ∧ tx.outs = [("0014aa", 230), ("51", 287), ("52", 377), ("53", 96)] := ⟨_, rfl, by decide⟩
example : ∃ tx, redeem "aa" (some ⟨1, 0, 770, .wpkh⟩) [⟨"51", 300, 10⟩, ⟨"52", 400, 20⟩, ⟨"53", 100, 0⟩] 10 true
    = .ok tx ∧ tx.outs = [("51", 287), ("52", 377), ("53", 96)] := ⟨_, rfl, by decide⟩

/-! ### the monitor accepts every transaction the model assembles
(correspondence on outputs + these ⇒ the monitor verdict on the implementation is the property). -/

theorem evenSplitOk_of (t : Int) (k : Nat) (q x : Int) (hq : q = t.tdiv ((k + 1 : Nat) : Int))
    (hx : x = t - (k : Int) * q) : evenSplitOk t (List.replicate k q ++ [x]) = true := by
  unfold evenSplitOk
  have hlen : (List.replicate k q ++ [x]).length = k + 1 := by simp
  simp only [hlen, Nat.add_sub_cancel, Nat.zero_lt_succ, decide_true, Bool.true_and, Bool.and_eq_true]
  constructor
  · rw [List.take_left' (by simp)]
    simp [hq]
  · rw [List.drop_left' (by simp)]
    simp [hx, hq]

theorem evenSplitOk_splitEven (t : Int) (n : Nat) (hn : 0 < n) :
    evenSplitOk t (splitEven (perOf t n) (remOf t n) n) = true := by
  obtain ⟨k, rfl⟩ : ∃ k, n = k + 1 := ⟨n - 1, by omega⟩
  have h := per_mul_add_rem t (k + 1) hn
  rw [perOf_eq t _ hn] at h
  rw [splitEven_succ, perOf_eq t _ hn]
  apply evenSplitOk_of t k _ _ rfl
  generalize t.tdiv ((k + 1 : Nat) : Int) = q at h ⊢
  rw [Int.natCast_succ, Int.add_mul] at h
  omega

theorem holdsShares_model (fee : Int) (n : Nat) (hn : 0 < n) : holdsShares fee n (feeShares fee n) = true := by
  unfold holdsShares
  simp [feeShares_length, feeShares_sum fee n hn]
  exact evenSplitOk_splitEven fee n hn

theorem holdsSweep_model (w : String) (main : Option Utxo) (deps : List Dep) (fee : Int) (tx : Tx)
    (h : sweep w main deps fee = .ok tx) : holdsSweep w main deps fee tx = true := by
  have h1 := sweep_inputs_exact w main deps fee tx h
  have h2 := sweep_outputs_exact w main deps fee tx h
  have h3 := sweep_fee_exact w main deps fee tx h
  unfold holdsSweep
  rw [h2] at h3
  simp [h1, h2, h3]

theorem holdsMsweep_model (w : String) (moved main : Option Utxo) (fee : Int) (tx : Tx)
    (h : msweep w moved main fee = .ok tx) : holdsMsweep w moved main fee tx = true := by
  obtain ⟨mv, hmv, h1⟩ := msweep_inputs_exact w moved main fee tx h
  have h2 := msweep_outputs_exact w moved main fee tx h
  have h3 := msweep_fee_exact w moved main fee tx h
  subst hmv
  unfold holdsMsweep
  have e : optList (some mv) ++ optList main = mv :: optList main := rfl
  rw [e] at h2 h3
  rw [h2] at h3
  simp [h1, h2, h3]

theorem holdsMove_model (main : Option Utxo) (targets : List String) (fee : Int) (tx : Tx)
    (h : move main targets fee = .ok tx) : holdsMove main targets fee tx = true := by
  obtain ⟨m, hm, hne, h1, h4⟩ := move_ok main targets fee tx h
  have h2 := move_scripts_exact main targets fee tx h
  have h3 := move_fee_exact main targets fee tx m hm h
  have hn : 0 < targets.length := List.length_pos_iff.mpr hne
  subst hm
  unfold holdsMove
  simp only [h1, h2, h3, beq_self_eq_true, decide_true, Bool.true_and]
  rw [h4, zipTargets_values _ _ (splitEven_length _ _ _).symm]
  exact evenSplitOk_splitEven _ _ hn

theorem sharesPaid_eq (reqs : List Req) (ss : List Int) (h : reqs.length = ss.length) :
    List.zipWith (fun a (o : String × Int) => a - o.2) (reqs.map (fun r => r.amount - r.treasury))
      (redemptionOuts reqs ss) = ss := by
  induction reqs generalizing ss with
  | nil => cases ss <;> simp_all [redemptionOuts]
  | cons r rs ih =>
    cases ss with
    | nil => simp at h
    | cons s ss =>
      simp only [List.map_cons, redemptionOuts, List.zipWith_cons_cons, ih ss (by simpa using h)]
      congr 1; omega

theorem holdsRedeem_model (w : String) (main : Option Utxo) (reqs : List Req) (fee : Int) (cl : Bool)
    (tx : Tx) (h : redeem w main reqs fee cl = .ok tx) : holdsRedeem w main reqs fee cl tx = true := by
  obtain ⟨m, hm, hne, h1, h4⟩ := redeem_ok w main reqs fee cl tx h
  have hn : 0 < reqs.length := List.length_pos_iff.mpr hne
  have hl := (feeShares_length fee reqs.length).symm
  have hrl := redemptionOuts_length reqs _ hl
  have hsc := redemptionOuts_scripts reqs _ hl
  have hsp := sharesPaid_eq reqs _ hl
  have hsum := feeShares_sum fee _ hn
  have hev : evenSplitOk fee (feeShares fee reqs.length) = true := evenSplitOk_splitEven fee _ hn
  have ht := redemptionOuts_total reqs (feeShares fee reqs.length) hl
  rw [hsum] at ht
  subst hm
  unfold holdsRedeem
  simp only
  by_cases hc : changeOf m reqs > 0
  · cases cl
    · simp only [hc, if_true, Bool.false_eq_true, if_false] at h4
      have : splitChange reqs.length false tx.outs =
          some (some (p2wpkh w, changeOf m reqs), redemptionOuts reqs (feeShares fee reqs.length)) := by
        unfold splitChange
        simp [h4, hrl]
      rw [this]
      simp only [h1, hsc, hsp, hev, hsum, beq_self_eq_true, decide_true, Bool.true_and, hc]
      simp only [h4, totalOut, List.map_cons, isum] at ht ⊢
      simp; unfold changeOf at *; omega
    · simp only [hc, if_true] at h4
      have : splitChange reqs.length true tx.outs =
          some (some (p2wpkh w, changeOf m reqs), redemptionOuts reqs (feeShares fee reqs.length)) := by
        unfold splitChange
        simp [h4, hrl]
      rw [this]
      simp only [h1, hsc, hsp, hev, hsum, beq_self_eq_true, decide_true, Bool.true_and, hc]
      simp only [h4, totalOut, List.map_append, isum_append, List.map_cons, List.map_nil, isum] at ht ⊢
      simp; unfold changeOf at *; omega
  · simp only [hc, if_false] at h4
    have : splitChange reqs.length cl tx.outs =
        some (none, redemptionOuts reqs (feeShares fee reqs.length)) := by
      unfold splitChange
      simp [h4, hrl]
    rw [this]
    simp only [h1, hsc, hsp, hev, hsum, beq_self_eq_true, decide_true, Bool.true_and]
    rw [h4, ht]
    simp; unfold changeOf at hc; omega

/-- the monitor is not vacuous: it rejects a remainder put on the first output, a missing
    treasury-fee deduction, a zero-valued change output and a fee taken from one request only. -/
example : holdsMove (some ⟨1, 0, 1003, .wpkh⟩) ["aa", "bb", "cc"] 0
    ⟨[(1, 0)], [("0014aa", 335), ("0014bb", 334), ("0014cc", 334)]⟩ = false := by decide
example : holdsRedeem "aa" (some ⟨1, 0, 1000, .wpkh⟩) [⟨"51", 300, 10⟩] 10 false
    ⟨[(1, 0)], [("0014aa", 700), ("51", 290)]⟩ = false := by decide
example : holdsRedeem "aa" (some ⟨1, 0, 290, .wpkh⟩) [⟨"51", 300, 10⟩] 10 false
    ⟨[(1, 0)], [("0014aa", 0), ("51", 280)]⟩ = false := by decide
example : holdsRedeem "aa" (some ⟨1, 0, 1000, .wpkh⟩) [⟨"51", 300, 10⟩, ⟨"52", 300, 10⟩] 10 false
    ⟨[(1, 0)], [("0014aa", 420), ("51", 280), ("52", 290)]⟩ = false := by decide
example : holdsRedeem "aa" (some ⟨1, 0, 1000, .wpkh⟩) [⟨"51", 300, 10⟩, ⟨"52", 300, 10⟩] 10 false
    ⟨[(1, 0)], [("0014aa", 420), ("51", 285), ("52", 285)]⟩ = true := by decide
example : holdsSweep "aa" none [⟨⟨2, 1, 300, .wsh⟩, true⟩] 10 ⟨[(2, 1)], [("0014ab", 290)]⟩ = false := by decide

/-! ### tie of the `Int` model to the `int64` code: no overflow below 2^62

The Go code computes in `int64` (two's complement wrap-around, `wrap64`). The definitions below
redo the arithmetic of the assemblers with every `+`/`-` wrapped, in the order the code performs
it (left-to-right accumulation), and the theorems show that under the side conditions
"amounts are non-negative, their total is below 2^62, |fee| < 2^62" (true for any Bitcoin amount:
the supply is < 2^51 sat) no intermediate result wraps, i.e. the wrapped computation equals the
`Int` model the other theorems are about. -/

def wrap64 (x : Int) : Int :=
  (x + 9223372036854775808) % 18446744073709551616 - 9223372036854775808

def InI64 (x : Int) : Prop := -9223372036854775808 ≤ x ∧ x < 9223372036854775808

theorem wrap64_of_in {x : Int} (h : InI64 x) : wrap64 x = x := by
  unfold wrap64; unfold InI64 at h; omega

/-- the result of a wrapped operation is always an `int64`. -/
theorem wrap64_in (x : Int) : InI64 (wrap64 x) := by
  unfold wrap64 InI64; omega

/-- wrap-around does happen outside the range (the side conditions are needed). -/
example : wrap64 (9223372036854775807 + 1) = -9223372036854775808 := by decide

def add64 (a b : Int) : Int := wrap64 (a + b)
def sub64 (a b : Int) : Int := wrap64 (a - b)

/-- `for … { total += v }` in `int64`. -/
def isum64 (xs : List Int) : Int := xs.foldl add64 0

def absSum : List Int → Int
  | [] => 0
  | x :: xs => x.natAbs + absSum xs

theorem absSum_nonneg (xs : List Int) : 0 ≤ absSum xs := by
  induction xs with
  | nil => simp [absSum]
  | cons x xs ih => simp only [absSum]; omega

theorem foldl_add64 (xs : List Int) (acc : Int)
    (h : acc.natAbs + absSum xs < 9223372036854775808) : xs.foldl add64 acc = acc + isum xs := by
  induction xs generalizing acc with
  | nil => simp [isum]
  | cons x xs ih =>
    have hn := absSum_nonneg xs
    simp only [absSum] at h
    have hx : add64 acc x = acc + x := wrap64_of_in (by unfold InI64; omega)
    simp only [List.foldl_cons, hx, isum]
    rw [ih (acc + x) (by omega)]
    omega

theorem absSum_of_nonneg (xs : List Int) (h : ∀ x ∈ xs, 0 ≤ x) : absSum xs = isum xs := by
  induction xs with
  | nil => rfl
  | cons x xs ih =>
    have := h x (by simp)
    simp only [absSum, isum, ih (fun y hy => h y (by simp [hy]))]
    omega

/-- `TotalInputsValue` (and every other accumulation of non-negative amounts) does not overflow
    when the total is below 2^62. -/
theorem sum64_exact (vals : List Int) (h0 : ∀ v ∈ vals, 0 ≤ v)
    (h : isum vals < 4611686018427387904) : isum64 vals = isum vals := by
  unfold isum64
  rw [foldl_add64 vals 0 (by rw [absSum_of_nonneg vals h0]; simp; omega)]
  omega

/-- deposit sweep / moved funds sweep: `outputValue := builder.TotalInputsValue() - fee` in
    `int64` is the `Int` value of the model. -/
theorem sweep_int64_exact (vals : List Int) (fee : Int) (h0 : ∀ v ∈ vals, 0 ≤ v)
    (h : isum vals < 4611686018427387904) (hf : fee.natAbs < 4611686018427387904) :
    sub64 (isum64 vals) fee = isum vals - fee := by
  rw [sum64_exact vals h0 h]
  have hs : 0 ≤ isum vals := by rw [← absSum_of_nonneg vals h0]; exact absSum_nonneg vals
  exact wrap64_of_in (by unfold InI64; omega)

/-- the split `remainder := t % n; per := (t - remainder) / n; last := per + remainder` with
    wrapped `-` and `+` (`withRedemptionTotalFee`, `assembleMovingFundsTransaction`). -/
def split64 (t : Int) (n : Nat) : List Int :=
  let r := t.tmod n
  let per := (sub64 t r).tdiv n
  match n with
  | 0 => []
  | k + 1 => List.replicate k per ++ [add64 per r]

theorem split64_exact (t : Int) (n : Nat) (hn : 0 < n) (ht : t.natAbs < 4611686018427387904) :
    split64 t n = splitEven (perOf t n) (remOf t n) n := by
  obtain ⟨k, rfl⟩ : ∃ k, n = k + 1 := ⟨n - 1, by omega⟩
  have hr : (t.tmod ((k + 1 : Nat) : Int)).natAbs ≤ t.natAbs := by
    rw [Int.natAbs_tmod]; exact Nat.mod_le _ _
  have hsub : sub64 t (t.tmod ((k + 1 : Nat) : Int)) = t - t.tmod ((k + 1 : Nat) : Int) :=
    wrap64_of_in (by unfold InI64; omega)
  have hper : (perOf t (k + 1)).natAbs ≤ t.natAbs := by
    rw [perOf_eq t _ hn, Int.natAbs_tdiv]; exact Nat.div_le_self _ _
  have hadd : add64 (perOf t (k + 1)) (remOf t (k + 1)) = perOf t (k + 1) + remOf t (k + 1) :=
    wrap64_of_in (by unfold InI64 remOf; omega)
  rw [splitEven_succ]
  simp only [split64, hsub]
  exact congrArg _ (congrArg (fun x => [x]) hadd)

/-- fee shares computed in `int64` equal the model's, for every |fee| < 2^62. -/
theorem feeShares_int64_exact (fee : Int) (n : Nat) (hn : 0 < n)
    (hf : fee.natAbs < 4611686018427387904) : split64 fee n = feeShares fee n :=
  split64_exact fee n hn hf

/-- moving funds: `totalOutputValue := walletMainUtxo.Value - fee` and its split in `int64`. -/
theorem move_int64_exact (value fee : Int) (n : Nat) (hn : 0 < n) (hv : 0 ≤ value)
    (hv2 : value < 2305843009213693952) (hf : fee.natAbs < 2305843009213693952) :
    split64 (sub64 value fee) n =
      splitEven (perOf (value - fee) n) (remOf (value - fee) n) n := by
  have : sub64 value fee = value - fee := wrap64_of_in (by unfold InI64; omega)
  rw [this]
  exact split64_exact _ n hn (by omega)

/-- redemption outputs with wrapped arithmetic: `int64(uint64 a - uint64 t) - share`. -/
def redemptionOuts64 : List Req → List Int → List (String × Int)
  | r :: rs, s :: ss => (r.script, sub64 (wrap64 (r.amount - r.treasury)) s) :: redemptionOuts64 rs ss
  | _, _ => []

/-- `changeOutputValue := TotalInputsValue() - totalRedemptionOutputsValue - totalFee`, wrapped. -/
def change64 (mainValue : Int) (outs : List (String × Int)) (shares : List Int) : Int :=
  sub64 (sub64 mainValue (isum64 (outs.map (·.2)))) (isum64 shares)

def ReqOk (r : Req) : Prop := 0 ≤ r.treasury ∧ r.treasury ≤ r.amount ∧ r.amount < 4611686018427387904

theorem redemptionOuts64_exact (reqs : List Req) (ss : List Int) (hr : ∀ r ∈ reqs, ReqOk r)
    (hs : ∀ s ∈ ss, s.natAbs < 4611686018427387904) :
    redemptionOuts64 reqs ss = redemptionOuts reqs ss := by
  induction reqs generalizing ss with
  | nil => cases ss <;> rfl
  | cons r rs ih =>
    cases ss with
    | nil => rfl
    | cons x xs =>
      obtain ⟨a, b, c⟩ := hr r (by simp)
      have hx := hs x (by simp)
      have h1 : wrap64 (r.amount - r.treasury) = r.amount - r.treasury :=
        wrap64_of_in (by unfold InI64; omega)
      have h2 : sub64 (r.amount - r.treasury) x = r.amount - r.treasury - x :=
        wrap64_of_in (by unfold InI64; omega)
      simp only [redemptionOuts64, redemptionOuts, h1, h2,
        ih xs (fun q hq => hr q (by simp [hq])) (fun q hq => hs q (by simp [hq]))]

theorem natAbs_isum_le (xs : List Int) : ((isum xs).natAbs : Int) ≤ absSum xs := by
  induction xs with
  | nil => simp [isum, absSum]
  | cons x xs ih => simp only [isum, absSum]; omega

theorem absSum_mem_le (xs : List Int) : ∀ x ∈ xs, (x.natAbs : Int) ≤ absSum xs := by
  induction xs with
  | nil => intro x hx; cases hx
  | cons y ys ih =>
    intro x hx
    have hn := absSum_nonneg ys
    simp only [List.mem_cons] at hx
    simp only [absSum]
    rcases hx with rfl | hx
    · omega
    · have := ih x hx; omega

theorem absSum_outs_le (reqs : List Req) (ss : List Int) (hr : ∀ r ∈ reqs, ReqOk r)
    (hl : reqs.length = ss.length) :
    absSum ((redemptionOuts reqs ss).map (·.2)) ≤ redeemableTotal reqs + absSum ss := by
  induction reqs generalizing ss with
  | nil =>
    cases ss with
    | nil => simp [redemptionOuts, absSum, redeemableTotal, isum]
    | cons _ _ => simp at hl
  | cons r rs ih =>
    cases ss with
    | nil => simp at hl
    | cons x xs =>
      obtain ⟨a, b, c⟩ := hr r (by simp)
      have := ih xs (fun q hq => hr q (by simp [hq])) (by simpa using hl)
      simp only [redemptionOuts, List.map_cons, absSum, redeemableTotal, isum] at this ⊢
      omega

/-- redemption in `int64`: with well-formed requests (0 ≤ treasury ≤ amount < 2^62), a main UTXO
    below 2^61 and `Σ redeemable + Σ|share| < 2^61`, neither the outputs nor the change
    computation wraps: they are the `Int` values of the model. -/
theorem redeem_int64_exact (reqs : List Req) (ss : List Int) (mv : Int)
    (hr : ∀ r ∈ reqs, ReqOk r) (hl : reqs.length = ss.length)
    (hm : 0 ≤ mv ∧ mv < 2305843009213693952)
    (hb : redeemableTotal reqs + absSum ss < 2305843009213693952) :
    redemptionOuts64 reqs ss = redemptionOuts reqs ss ∧
    change64 mv (redemptionOuts reqs ss) ss = mv - totalOut (redemptionOuts reqs ss) - isum ss := by
  have hrt : 0 ≤ redeemableTotal reqs := by
    unfold redeemableTotal
    have : ∀ x ∈ reqs.map (fun r => r.amount - r.treasury), 0 ≤ x := by
      intro x hx
      simp only [List.mem_map] at hx
      obtain ⟨r, hr', rfl⟩ := hx
      have := hr r hr'; unfold ReqOk at this; omega
    rw [← absSum_of_nonneg _ this]; exact absSum_nonneg _
  have hss := absSum_nonneg ss
  constructor
  · apply redemptionOuts64_exact reqs ss hr
    intro x hx
    have := absSum_mem_le ss x hx
    omega
  · have ho := absSum_outs_le reqs ss hr hl
    have h1 : isum64 ((redemptionOuts reqs ss).map (·.2)) = isum ((redemptionOuts reqs ss).map (·.2)) := by
      unfold isum64; rw [foldl_add64 _ 0 (by simp; omega)]; omega
    have h2 : isum64 ss = isum ss := by
      unfold isum64; rw [foldl_add64 _ 0 (by simp; omega)]; omega
    have n1 := natAbs_isum_le ((redemptionOuts reqs ss).map (·.2))
    have n2 := natAbs_isum_le ss
    unfold change64 totalOut
    rw [h1, h2]
    have h3 : sub64 mv (isum ((redemptionOuts reqs ss).map (·.2))) = mv - isum ((redemptionOuts reqs ss).map (·.2)) :=
      wrap64_of_in (by unfold InI64; omega)
    rw [h3]
    exact wrap64_of_in (by unfold InI64; omega)

/-- the fee shares of `withRedemptionTotalFee` have `Σ|share| ≤ 3·|fee|`, so the bound of
    `redeem_int64_exact` follows from bounds on the amounts and the proposed fee alone. -/
theorem absSum_feeShares_le (fee : Int) (n : Nat) (hn : 0 < n) :
    absSum (feeShares fee n) ≤ 3 * (fee.natAbs : Int) := by
  obtain ⟨k, rfl⟩ : ∃ k, n = k + 1 := ⟨n - 1, by omega⟩
  rw [feeShares_shape fee _ hn]
  have hq : (fee.tdiv ((k + 1 : Nat) : Int)).natAbs = fee.natAbs / (k + 1) := by
    rw [Int.natAbs_tdiv, Int.natAbs_natCast]; rfl
  have hr : (fee.tmod ((k + 1 : Nat) : Int)).natAbs ≤ fee.natAbs := by
    rw [Int.natAbs_tmod]; exact Nat.mod_le _ _
  have hk : k * (fee.natAbs / (k + 1)) ≤ fee.natAbs :=
    Nat.le_trans (Nat.mul_le_mul_right _ (Nat.le_succ k)) (Nat.mul_div_le _ _)
  have hd : fee.natAbs / (k + 1) ≤ fee.natAbs := Nat.div_le_self _ _
  have hrep : ∀ (m : Nat) (x : Int) (tl : List Int),
      absSum (List.replicate m x ++ tl) = m * (x.natAbs : Int) + absSum tl := by
    intro m x tl
    induction m with
    | zero => simp
    | succ m ih =>
      simp only [List.replicate_succ, List.cons_append, absSum, ih]
      rw [Int.natCast_succ, Int.add_mul]; omega
  rw [hrep]
  simp only [Nat.add_sub_cancel, absSum, hq]
  have hk' : (k : Int) * ((fee.natAbs / (k + 1) : Nat) : Int) ≤ fee.natAbs := by exact_mod_cast hk
  have hd' : ((fee.natAbs / (k + 1) : Nat) : Int) ≤ fee.natAbs := by exact_mod_cast hd
  omega

end KeepVerif.C26
