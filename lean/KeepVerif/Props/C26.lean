import KeepVerif.Model.C26
/-!
# C26 — Wallet transactions conserve value and pay only the intended scripts

Theorems over `Model/C26.lean` (the same definitions the driver runs), for all `Int` amounts,
all request/target/deposit counts, both redemption shapes.  `int64` overflow is outside the
model (amounts below 2^62).
-/
namespace KeepVerif.C26

/-! ### arithmetic helpers -/

theorem isum_append (xs ys : List Int) : isum (xs ++ ys) = isum xs + isum ys := by
  induction xs with
  | nil => simp [isum]
  | cons x xs ih => simp [isum, ih, Int.add_assoc]

theorem isum_replicate (k : Nat) (x : Int) : isum (List.replicate k x) = k * x := by
  induction k with
  | zero => simp [isum]
  | succ k ih =>
    simp only [List.replicate_succ, isum, ih]
    rw [Int.natCast_succ, Int.add_mul]; omega

/-- the Go loop emits `n−1` times `per`, then `per + r`. -/
theorem splitEven_succ (per r : Int) (k : Nat) :
    splitEven per r (k + 1) = List.replicate k per ++ [per + r] := by
  induction k with
  | zero => simp [splitEven]
  | succ k ih =>
    rw [splitEven, ih]
    simp [List.replicate_succ]

theorem splitEven_length (per r : Int) (k : Nat) : (splitEven per r k).length = k := by
  induction k with
  | zero => simp [splitEven]
  | succ k ih => simp [splitEven, ih]

/-- `(total − total % n) / n = total / n` (truncated), for `n ≠ 0`. -/
theorem perOf_eq (t : Int) (n : Nat) (hn : 0 < n) : perOf t n = t.tdiv n := by
  unfold perOf
  rw [← Int.mul_tdiv_self]
  exact Int.mul_tdiv_cancel_left _ (by omega)

theorem per_mul_add_rem (t : Int) (n : Nat) (hn : 0 < n) : (n : Int) * perOf t n + remOf t n = t := by
  rw [perOf_eq t n hn]; unfold remOf
  exact Int.mul_tdiv_add_tmod t n

theorem splitEven_sum (t : Int) (n : Nat) (hn : 0 < n) :
    isum (splitEven (perOf t n) (remOf t n) n) = t := by
  obtain ⟨k, rfl⟩ : ∃ k, n = k + 1 := ⟨n - 1, by omega⟩
  rw [splitEven_succ, isum_append, isum_replicate]
  have h := per_mul_add_rem t (k + 1) hn
  simp only [isum]
  rw [Int.natCast_succ, Int.add_mul] at h
  omega

/-! ### fee distribution (`withRedemptionTotalFee`) -/

/-- `fee_shares_sum`: the shares add up to the proposed total fee — for every `totalFee : Int`
    (also negative ones: Go's `%` is truncated) and every `n > 0`. -/
theorem feeShares_sum (totalFee : Int) (n : Nat) (hn : 0 < n) : isum (feeShares totalFee n) = totalFee :=
  splitEven_sum totalFee n hn

/-- one share per request. -/
theorem feeShares_length (totalFee : Int) (n : Nat) : (feeShares totalFee n).length = n :=
  splitEven_length _ _ n

/-- the shape of the distribution: every request but the last pays `⌊fee/n⌋` (truncated), the
    last one pays that plus the remainder `fee % n`. -/
theorem feeShares_shape (totalFee : Int) (n : Nat) (hn : 0 < n) :
    feeShares totalFee n =
      List.replicate (n - 1) (totalFee.tdiv n) ++ [totalFee.tdiv n + totalFee.tmod n] := by
  obtain ⟨k, rfl⟩ : ∃ k, n = k + 1 := ⟨n - 1, by omega⟩
  unfold feeShares
  rw [splitEven_succ, perOf_eq _ _ hn]
  rfl

/-- `shares_differ_by_lt_n`: the last share differs from the others by less than `n`. -/
theorem shares_differ_by_lt_n (totalFee : Int) (n : Nat) (hn : 0 < n) :
    (totalFee.tmod n).natAbs < n := by
  rw [Int.natAbs_tmod]
  simpa using Nat.mod_lt _ hn

/-! ### deposit sweep -/

/-- `inputs_exact`: a sweep spends the main UTXO (if any) first and then exactly the deposits,
    in order. -/
theorem sweep_inputs_exact (w : String) (main : Option Utxo) (deps : List Dep) (fee : Int) (tx : Tx)
    (h : sweep w main deps fee = .ok tx) :
    tx.ins = (optList main ++ deps.map (·.utxo)).map outpoint := by
  unfold sweep at h
  split at h; · cases h
  split at h; · cases h
  split at h; · cases h
  cases h; rfl

/-- `outputs_exact`: one output, to the wallet's own P2WPKH script. -/
theorem sweep_outputs_exact (w : String) (main : Option Utxo) (deps : List Dep) (fee : Int) (tx : Tx)
    (h : sweep w main deps fee = .ok tx) :
    tx.outs = [(p2wpkh w, totalIn (optList main ++ deps.map (·.utxo)) - fee)] := by
  unfold sweep at h
  split at h; · cases h
  split at h; · cases h
  split at h; · cases h
  cases h; rfl

/-- `fee_exact`: inputs minus outputs is the proposed fee. -/
theorem sweep_fee_exact (w : String) (main : Option Utxo) (deps : List Dep) (fee : Int) (tx : Tx)
    (h : sweep w main deps fee = .ok tx) :
    totalIn (optList main ++ deps.map (·.utxo)) - totalOut tx.outs = fee := by
  rw [sweep_outputs_exact w main deps fee tx h]
  simp [totalOut, isum]; omega

/-- a sweep only succeeds over key-hash main UTXO and script-hash deposits with a script. -/
theorem sweep_ok_inputs_valid (w : String) (main : Option Utxo) (deps : List Dep) (fee : Int) (tx : Tx)
    (h : sweep w main deps fee = .ok tx) :
    deps ≠ [] ∧ (∀ m, main = some m → m.kind.isPkh = true) ∧ depErr deps = none := by
  unfold sweep at h
  split at h; · cases h
  rename_i h1
  split at h; · cases h
  rename_i h2
  split at h; · cases h
  rename_i h3
  refine ⟨by intro e; simp [e] at h1, ?_, h3⟩
  intro m hm; subst hm
  simpa [optList] using h2

/-- non-vacuity: well-formed inputs do assemble. -/
example : ∃ tx, sweep "aa" (some ⟨1, 0, 500, .wpkh⟩) [⟨⟨2, 1, 300, .wsh⟩, true⟩, ⟨⟨3, 0, 200, .sh⟩, true⟩] 10
    = .ok tx ∧ tx.outs = [("0014aa", 990)] := ⟨_, rfl, by decide⟩

/-! ### moved funds sweep -/

theorem msweep_inputs_exact (w : String) (moved main : Option Utxo) (fee : Int) (tx : Tx)
    (h : msweep w moved main fee = .ok tx) :
    ∃ mv, moved = some mv ∧ tx.ins = (mv :: optList main).map outpoint := by
  unfold msweep at h
  split at h; · cases h
  split at h; · cases h
  split at h; · cases h
  cases h; exact ⟨_, rfl, rfl⟩

theorem msweep_outputs_exact (w : String) (moved main : Option Utxo) (fee : Int) (tx : Tx)
    (h : msweep w moved main fee = .ok tx) :
    tx.outs = [(p2wpkh w, totalIn (optList moved ++ optList main) - fee)] := by
  unfold msweep at h
  split at h; · cases h
  split at h; · cases h
  split at h; · cases h
  cases h; rfl

theorem msweep_fee_exact (w : String) (moved main : Option Utxo) (fee : Int) (tx : Tx)
    (h : msweep w moved main fee = .ok tx) :
    totalIn (optList moved ++ optList main) - totalOut tx.outs = fee := by
  rw [msweep_outputs_exact w moved main fee tx h]
  simp [totalOut, isum]; omega

/-! ### moving funds -/

theorem zipTargets_scripts (ts : List String) (vs : List Int) (h : ts.length = vs.length) :
    (zipTargets ts vs).map (·.1) = ts.map p2wpkh := by
  induction ts generalizing vs with
  | nil => cases vs <;> simp [zipTargets]
  | cons t ts ih =>
    cases vs with
    | nil => simp at h
    | cons v vs => simp [zipTargets, ih vs (by simpa using h)]

theorem zipTargets_values (ts : List String) (vs : List Int) (h : ts.length = vs.length) :
    (zipTargets ts vs).map (·.2) = vs := by
  induction ts generalizing vs with
  | nil => cases vs <;> simp_all [zipTargets]
  | cons t ts ih =>
    cases vs with
    | nil => simp at h
    | cons v vs => simp [zipTargets, ih vs (by simpa using h)]

/-- shape of a successful moving funds transaction. -/
theorem move_ok (main : Option Utxo) (targets : List String) (fee : Int) (tx : Tx)
    (h : move main targets fee = .ok tx) :
    ∃ m, main = some m ∧ targets ≠ [] ∧ tx.ins = [outpoint m] ∧
      tx.outs = zipTargets targets
        (splitEven (perOf (m.value - fee) targets.length) (remOf (m.value - fee) targets.length) targets.length) := by
  unfold move at h
  split at h; · cases h
  rename_i h1
  split at h; · cases h
  split at h; · cases h
  cases h
  exact ⟨_, rfl, by intro e; simp [e] at h1, rfl, rfl⟩

/-- `inputs_exact`: only the wallet's main UTXO is spent. -/
theorem move_inputs_exact (main : Option Utxo) (targets : List String) (fee : Int) (tx : Tx)
    (h : move main targets fee = .ok tx) : ∃ m, main = some m ∧ tx.ins = [outpoint m] := by
  obtain ⟨m, a, _, c, _⟩ := move_ok main targets fee tx h
  exact ⟨m, a, c⟩

/-- `outputs_exact` (scripts): one P2WPKH output per target wallet, in commitment order. -/
theorem move_scripts_exact (main : Option Utxo) (targets : List String) (fee : Int) (tx : Tx)
    (h : move main targets fee = .ok tx) : tx.outs.map (·.1) = targets.map p2wpkh := by
  obtain ⟨m, _, _, _, d⟩ := move_ok main targets fee tx h
  rw [d]; exact zipTargets_scripts _ _ (splitEven_length _ _ _).symm

/-- `outputs_exact` (values): an even split, the remainder on the last target. -/
theorem move_values_exact (main : Option Utxo) (targets : List String) (fee : Int) (tx : Tx) (m : Utxo)
    (hm : main = some m) (h : move main targets fee = .ok tx) :
    tx.outs.map (·.2) =
      List.replicate (targets.length - 1) ((m.value - fee).tdiv targets.length)
        ++ [(m.value - fee).tdiv targets.length + (m.value - fee).tmod targets.length] := by
  obtain ⟨m', a, b, _, d⟩ := move_ok main targets fee tx h
  rw [hm] at a; cases a
  rw [d, zipTargets_values _ _ (splitEven_length _ _ _).symm]
  have hn : 0 < targets.length := List.length_pos_iff.mpr b
  exact feeShares_shape (m.value - fee) targets.length hn

/-- `fee_exact`: input minus outputs is the proposed fee. -/
theorem move_fee_exact (main : Option Utxo) (targets : List String) (fee : Int) (tx : Tx) (m : Utxo)
    (hm : main = some m) (h : move main targets fee = .ok tx) :
    m.value - totalOut tx.outs = fee := by
  obtain ⟨m', a, b, _, d⟩ := move_ok main targets fee tx h
  rw [hm] at a; cases a
  have hn : 0 < targets.length := List.length_pos_iff.mpr b
  unfold totalOut
  rw [d, zipTargets_values _ _ (splitEven_length _ _ _).symm, splitEven_sum _ _ hn]
  omega

example : ∃ tx, move (some ⟨1, 0, 1003, .wpkh⟩) ["aa", "bb", "cc"] 1 = .ok tx ∧
    tx.outs = [("0014aa", 334), ("0014bb", 334), ("0014cc", 334)] := ⟨_, rfl, by decide⟩
example : ∃ tx, move (some ⟨1, 0, 1003, .pkh⟩) ["aa", "bb", "cc"] 0 = .ok tx ∧
    tx.outs = [("0014aa", 334), ("0014bb", 334), ("0014cc", 335)] := ⟨_, rfl, by decide⟩

/-! ### redemption -/

def redeemableTotal (reqs : List Req) : Int := isum (reqs.map (fun r => r.amount - r.treasury))

theorem redemptionOuts_scripts (reqs : List Req) (ss : List Int) (h : reqs.length = ss.length) :
    (redemptionOuts reqs ss).map (·.1) = reqs.map (·.script) := by
  induction reqs generalizing ss with
  | nil => cases ss <;> simp [redemptionOuts]
  | cons r rs ih =>
    cases ss with
    | nil => simp at h
    | cons s ss => simp [redemptionOuts, ih ss (by simpa using h)]

theorem redemptionOuts_length (reqs : List Req) (ss : List Int) (h : reqs.length = ss.length) :
    (redemptionOuts reqs ss).length = reqs.length := by
  have := congrArg List.length (redemptionOuts_scripts reqs ss h)
  simpa using this

theorem redemptionOuts_total (reqs : List Req) (ss : List Int) (h : reqs.length = ss.length) :
    totalOut (redemptionOuts reqs ss) = redeemableTotal reqs - isum ss := by
  induction reqs generalizing ss with
  | nil => cases ss <;> simp_all [redemptionOuts, totalOut, redeemableTotal, isum]
  | cons r rs ih =>
    cases ss with
    | nil => simp at h
    | cons s ss =>
      have := ih ss (by simpa using h)
      simp only [totalOut, redeemableTotal, redemptionOuts, List.map_cons, isum] at this ⊢
      omega

/-- the (possible) change value computed by the code equals `main − Σ redeemable`. -/
def changeOf (m : Utxo) (reqs : List Req) : Int := m.value - redeemableTotal reqs

/-- shape of a successful redemption transaction. -/
theorem redeem_ok (w : String) (main : Option Utxo) (reqs : List Req) (fee : Int) (cl : Bool) (tx : Tx)
    (h : redeem w main reqs fee cl = .ok tx) :
    ∃ m, main = some m ∧ reqs ≠ [] ∧ tx.ins = [outpoint m] ∧
      tx.outs =
        (let routs := redemptionOuts reqs (feeShares fee reqs.length)
         if changeOf m reqs > 0 then
           if cl then routs ++ [(p2wpkh w, changeOf m reqs)] else (p2wpkh w, changeOf m reqs) :: routs
         else routs) := by
  unfold redeem at h
  split at h; · cases h
  rename_i m
  split at h; · cases h
  rename_i h1
  split at h; · cases h
  cases h
  have hne : reqs ≠ [] := by intro e; simp [e] at h1
  have hn : 0 < reqs.length := List.length_pos_iff.mpr hne
  refine ⟨m, rfl, hne, rfl, ?_⟩
  have hc : m.value - totalOut (redemptionOuts reqs (feeShares fee reqs.length))
      - isum (feeShares fee reqs.length) = changeOf m reqs := by
    rw [redemptionOuts_total _ _ (feeShares_length _ _).symm]
    unfold changeOf; omega
  simp only [hc]

/-- `inputs_exact`: only the wallet's main UTXO is spent. -/
theorem redeem_inputs_exact (w : String) (main : Option Utxo) (reqs : List Req) (fee : Int) (cl : Bool)
    (tx : Tx) (h : redeem w main reqs fee cl = .ok tx) : ∃ m, main = some m ∧ tx.ins = [outpoint m] := by
  obtain ⟨m, a, _, c, _⟩ := redeem_ok w main reqs fee cl tx h
  exact ⟨m, a, c⟩

/-- `outputs_exact`: request `i` is paid `amount_i − treasury_i − share_i` to its own script, in
    request order; a change output to the wallet's P2WPKH script exists iff
    `main − Σ redeemable > 0`, is the first (ChangeFirst) or the last (ChangeLast) output and
    carries exactly that value. -/
theorem redeem_outputs_exact (w : String) (main : Option Utxo) (reqs : List Req) (fee : Int) (cl : Bool)
    (tx : Tx) (m : Utxo) (hm : main = some m) (h : redeem w main reqs fee cl = .ok tx) :
    let routs := redemptionOuts reqs (feeShares fee reqs.length)
    routs.map (·.1) = reqs.map (·.script) ∧
    (0 < changeOf m reqs → cl = false → tx.outs = (p2wpkh w, changeOf m reqs) :: routs) ∧
    (0 < changeOf m reqs → cl = true → tx.outs = routs ++ [(p2wpkh w, changeOf m reqs)]) ∧
    (changeOf m reqs ≤ 0 → tx.outs = routs) := by
  obtain ⟨m', a, _, _, d⟩ := redeem_ok w main reqs fee cl tx h
  rw [hm] at a; cases a
  refine ⟨redemptionOuts_scripts _ _ (feeShares_length _ _).symm, ?_, ?_, ?_⟩
  · intro hc hcl; simp [d, hc, hcl]
  · intro hc hcl; simp [d, hc, hcl]
  · intro hc; have : ¬ changeOf m reqs > 0 := by omega
    simp [d, this]

/-- `fee_exact`: when the main UTXO covers the redeemable amounts (which proposal validation
    guarantees), inputs minus outputs is exactly the proposed fee. -/
theorem redeem_fee_exact (w : String) (main : Option Utxo) (reqs : List Req) (fee : Int) (cl : Bool)
    (tx : Tx) (m : Utxo) (hm : main = some m) (h : redeem w main reqs fee cl = .ok tx)
    (hcover : redeemableTotal reqs ≤ m.value) : m.value - totalOut tx.outs = fee := by
  obtain ⟨m', a, b, _, d⟩ := redeem_ok w main reqs fee cl tx h
  rw [hm] at a; cases a
  have hn : 0 < reqs.length := List.length_pos_iff.mpr b
  have ht := redemptionOuts_total reqs (feeShares fee reqs.length) (feeShares_length _ _).symm
  rw [feeShares_sum fee _ hn] at ht
  rw [d]
  by_cases hc : changeOf m reqs > 0
  · cases cl
    · simp only [hc, if_true, Bool.false_eq_true, if_false]
      simp only [totalOut, List.map_cons, isum] at ht ⊢
      unfold changeOf at *; omega
    · simp only [hc, if_true]
      simp only [totalOut, List.map_append, isum_append, List.map_cons, List.map_nil, isum] at ht ⊢
      unfold changeOf at *; omega
  · simp only [hc, if_false]
    unfold changeOf at hc; omega

/-- `fee_partial`: without the cover hypothesis the real difference is stated: the redemption
    outputs always total `Σ redeemable − fee` (so the transaction overspends its input by
    `Σ redeemable − main` and cannot be valid on Bitcoin; the code does not reject it). -/
theorem redeem_fee_partial (w : String) (main : Option Utxo) (reqs : List Req) (fee : Int) (cl : Bool)
    (tx : Tx) (m : Utxo) (hm : main = some m) (h : redeem w main reqs fee cl = .ok tx)
    (hunder : m.value < redeemableTotal reqs) :
    totalOut tx.outs = redeemableTotal reqs - fee := by
  obtain ⟨m', a, b, _, d⟩ := redeem_ok w main reqs fee cl tx h
  rw [hm] at a; cases a
  have hn : 0 < reqs.length := List.length_pos_iff.mpr b
  have ht := redemptionOuts_total reqs (feeShares fee reqs.length) (feeShares_length _ _).symm
  rw [feeShares_sum fee _ hn] at ht
  have hc : ¬ changeOf m reqs > 0 := by unfold changeOf; omega
  rw [d]; simp only [hc, if_false]; exact ht

example : ∃ tx, redeem "aa" (some ⟨1, 0, 1000, .wpkh⟩) [⟨"51", 300, 10⟩, ⟨"52", 400, 20⟩, ⟨"53", 100, 0⟩] 10 false
    = .ok tx ∧ tx.outs = [("0014aa", 230), ("51", 287), ("52", 377), ("53", 96)] := ⟨_, rfl, by decide⟩
example : ∃ tx, redeem "aa" (some ⟨1, 0, 770, .wpkh⟩) [⟨"51", 300, 10⟩, ⟨"52", 400, 20⟩, ⟨"53", 100, 0⟩] 10 true
    = .ok tx ∧ tx.outs = [("51", 287), ("52", 377), ("53", 96)] := ⟨_, rfl, by decide⟩

/-! ### the monitor accepts every transaction the model assembles
(correspondence on outputs + these ⇒ the monitor verdict on the implementation is the property). -/

theorem evenSplitOk_of (t : Int) (k : Nat) (q x : Int) (hq : q = t.tdiv ((k + 1 : Nat) : Int))
    (hx : x = t - (k : Int) * q) : evenSplitOk t (List.replicate k q ++ [x]) = true := by
  unfold evenSplitOk
  have hlen : (List.replicate k q ++ [x]).length = k + 1 := by simp
  simp only [hlen, Nat.add_sub_cancel, Nat.zero_lt_succ, decide_true, Bool.true_and, Bool.and_eq_true]
  constructor
  · rw [List.take_left' (by simp)]
    simp [hq]
  · rw [List.drop_left' (by simp)]
    simp [hx, hq]

theorem evenSplitOk_splitEven (t : Int) (n : Nat) (hn : 0 < n) :
    evenSplitOk t (splitEven (perOf t n) (remOf t n) n) = true := by
  obtain ⟨k, rfl⟩ : ∃ k, n = k + 1 := ⟨n - 1, by omega⟩
  have h := per_mul_add_rem t (k + 1) hn
  rw [perOf_eq t _ hn] at h
  rw [splitEven_succ, perOf_eq t _ hn]
  apply evenSplitOk_of t k _ _ rfl
  generalize t.tdiv ((k + 1 : Nat) : Int) = q at h ⊢
  rw [Int.natCast_succ, Int.add_mul] at h
  omega

theorem holdsShares_model (fee : Int) (n : Nat) (hn : 0 < n) : holdsShares fee n (feeShares fee n) = true := by
  unfold holdsShares
  simp [feeShares_length, feeShares_sum fee n hn]
  exact evenSplitOk_splitEven fee n hn

theorem holdsSweep_model (w : String) (main : Option Utxo) (deps : List Dep) (fee : Int) (tx : Tx)
    (h : sweep w main deps fee = .ok tx) : holdsSweep w main deps fee tx = true := by
  have h1 := sweep_inputs_exact w main deps fee tx h
  have h2 := sweep_outputs_exact w main deps fee tx h
  have h3 := sweep_fee_exact w main deps fee tx h
  unfold holdsSweep
  rw [h2] at h3
  simp [h1, h2, h3]

theorem holdsMsweep_model (w : String) (moved main : Option Utxo) (fee : Int) (tx : Tx)
    (h : msweep w moved main fee = .ok tx) : holdsMsweep w moved main fee tx = true := by
  obtain ⟨mv, hmv, h1⟩ := msweep_inputs_exact w moved main fee tx h
  have h2 := msweep_outputs_exact w moved main fee tx h
  have h3 := msweep_fee_exact w moved main fee tx h
  subst hmv
  unfold holdsMsweep
  have e : optList (some mv) ++ optList main = mv :: optList main := rfl
  rw [e] at h2 h3
  rw [h2] at h3
  simp [h1, h2, h3]

theorem holdsMove_model (main : Option Utxo) (targets : List String) (fee : Int) (tx : Tx)
    (h : move main targets fee = .ok tx) : holdsMove main targets fee tx = true := by
  obtain ⟨m, hm, hne, h1, h4⟩ := move_ok main targets fee tx h
  have h2 := move_scripts_exact main targets fee tx h
  have h3 := move_fee_exact main targets fee tx m hm h
  have hn : 0 < targets.length := List.length_pos_iff.mpr hne
  subst hm
  unfold holdsMove
  simp only [h1, h2, h3, beq_self_eq_true, decide_true, Bool.true_and]
  rw [h4, zipTargets_values _ _ (splitEven_length _ _ _).symm]
  exact evenSplitOk_splitEven _ _ hn

theorem sharesPaid_eq (reqs : List Req) (ss : List Int) (h : reqs.length = ss.length) :
    List.zipWith (fun a (o : String × Int) => a - o.2) (reqs.map (fun r => r.amount - r.treasury))
      (redemptionOuts reqs ss) = ss := by
  induction reqs generalizing ss with
  | nil => cases ss <;> simp_all [redemptionOuts]
  | cons r rs ih =>
    cases ss with
    | nil => simp at h
    | cons s ss =>
      simp only [List.map_cons, redemptionOuts, List.zipWith_cons_cons, ih ss (by simpa using h)]
      congr 1; omega

theorem holdsRedeem_model (w : String) (main : Option Utxo) (reqs : List Req) (fee : Int) (cl : Bool)
    (tx : Tx) (h : redeem w main reqs fee cl = .ok tx) : holdsRedeem w main reqs fee cl tx = true := by
  obtain ⟨m, hm, hne, h1, h4⟩ := redeem_ok w main reqs fee cl tx h
  have hn : 0 < reqs.length := List.length_pos_iff.mpr hne
  have hl := (feeShares_length fee reqs.length).symm
  have hrl := redemptionOuts_length reqs _ hl
  have hsc := redemptionOuts_scripts reqs _ hl
  have hsp := sharesPaid_eq reqs _ hl
  have hsum := feeShares_sum fee _ hn
  have hev : evenSplitOk fee (feeShares fee reqs.length) = true := evenSplitOk_splitEven fee _ hn
  have ht := redemptionOuts_total reqs (feeShares fee reqs.length) hl
  rw [hsum] at ht
  subst hm
  unfold holdsRedeem
  simp only
  by_cases hc : changeOf m reqs > 0
  · cases cl
    · simp only [hc, if_true, Bool.false_eq_true, if_false] at h4
      have : splitChange reqs.length false tx.outs =
          some (some (p2wpkh w, changeOf m reqs), redemptionOuts reqs (feeShares fee reqs.length)) := by
        unfold splitChange
        simp [h4, hrl]
      rw [this]
      simp only [h1, hsc, hsp, hev, hsum, beq_self_eq_true, decide_true, Bool.true_and, hc]
      simp only [h4, totalOut, List.map_cons, isum] at ht ⊢
      simp; unfold changeOf at *; omega
    · simp only [hc, if_true] at h4
      have : splitChange reqs.length true tx.outs =
          some (some (p2wpkh w, changeOf m reqs), redemptionOuts reqs (feeShares fee reqs.length)) := by
        unfold splitChange
        simp [h4, hrl]
      rw [this]
      simp only [h1, hsc, hsp, hev, hsum, beq_self_eq_true, decide_true, Bool.true_and, hc]
      simp only [h4, totalOut, List.map_append, isum_append, List.map_cons, List.map_nil, isum] at ht ⊢
      simp; unfold changeOf at *; omega
  · simp only [hc, if_false] at h4
    have : splitChange reqs.length cl tx.outs =
        some (none, redemptionOuts reqs (feeShares fee reqs.length)) := by
      unfold splitChange
      simp [h4, hrl]
    rw [this]
    simp only [h1, hsc, hsp, hev, hsum, beq_self_eq_true, decide_true, Bool.true_and]
    rw [h4, ht]
    simp; unfold changeOf at hc; omega

/-- the monitor is not vacuous: it rejects a remainder put on the first output, a missing
    treasury-fee deduction, a zero-valued change output and a fee taken from one request only. -/
example : holdsMove (some ⟨1, 0, 1003, .wpkh⟩) ["aa", "bb", "cc"] 0
    ⟨[(1, 0)], [("0014aa", 335), ("0014bb", 334), ("0014cc", 334)]⟩ = false := by decide
example : holdsRedeem "aa" (some ⟨1, 0, 1000, .wpkh⟩) [⟨"51", 300, 10⟩] 10 false
    ⟨[(1, 0)], [("0014aa", 700), ("51", 290)]⟩ = false := by decide
example : holdsRedeem "aa" (some ⟨1, 0, 290, .wpkh⟩) [⟨"51", 300, 10⟩] 10 false
    ⟨[(1, 0)], [("0014aa", 0), ("51", 280)]⟩ = false := by decide
example : holdsRedeem "aa" (some ⟨1, 0, 1000, .wpkh⟩) [⟨"51", 300, 10⟩, ⟨"52", 300, 10⟩] 10 false
    ⟨[(1, 0)], [("0014aa", 420), ("51", 280), ("52", 290)]⟩ = false := by decide
example : holdsRedeem "aa" (some ⟨1, 0, 1000, .wpkh⟩) [⟨"51", 300, 10⟩, ⟨"52", 300, 10⟩] 10 false
    ⟨[(1, 0)], [("0014aa", 420), ("51", 285), ("52", 285)]⟩ = true := by decide
example : holdsSweep "aa" none [⟨⟨2, 1, 300, .wsh⟩, true⟩] 10 ⟨[(2, 1)], [("0014ab", 290)]⟩ = false := by decide

end KeepVerif.C26
