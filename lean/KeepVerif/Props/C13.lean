import KeepVerif.Model.C13
import KeepVerif.Props.C12
/-!
# C13 — Result and claim support counts only valid, distinct, matching signatures

Theorems over `Model/C13.lean`, for every history of network messages (duplicates, conflicting hashes,
invalid signatures, foreign keys, non-members, any order) and every `verify` (A-ecdsa is only needed to
read `verify = true` as "the holder of that key signed this hash").
-/
namespace KeepVerif.C13
open KeepVerif.C12

/-! ## the signature map -/

theorem mem_setSig {sigs : List (UInt8 × Nat)} {i : UInt8} {s : Nat} {e : UInt8 × Nat}
    (h : e ∈ setSig sigs i s) : e = (i, s) ∨ e ∈ sigs := by
  induction sigs with
  | nil => simp [setSig] at h; exact Or.inl h
  | cons hd tl ih =>
    obtain ⟨j, t⟩ := hd
    unfold setSig at h
    split at h
    · simp only [List.mem_cons] at h
      rcases h with h | h
      · exact Or.inl h
      · exact Or.inr (List.mem_cons_of_mem _ h)
    · simp only [List.mem_cons] at h
      rcases h with h | h
      · right; subst h; simp
      · rcases ih h with h' | h'
        · exact Or.inl h'
        · exact Or.inr (List.mem_cons_of_mem _ h')

theorem setSig_self_mem (sigs : List (UInt8 × Nat)) (i : UInt8) (s : Nat) : (i, s) ∈ setSig sigs i s := by
  induction sigs with
  | nil => simp [setSig]
  | cons hd tl ih =>
    obtain ⟨j, t⟩ := hd
    unfold setSig
    split
    · simp
    · exact List.mem_cons_of_mem _ ih

theorem setSig_keys (sigs : List (UInt8 × Nat)) (i : UInt8) (s : Nat) :
    (setSig sigs i s).map (·.1) =
      if i ∈ sigs.map (·.1) then sigs.map (·.1) else sigs.map (·.1) ++ [i] := by
  induction sigs with
  | nil => simp [setSig]
  | cons hd tl ih =>
    obtain ⟨j, t⟩ := hd
    unfold setSig
    by_cases hj : j = i
    · subst hj; simp
    · have hne : ¬ i = j := fun h => hj h.symm
      simp only [hj, if_false, List.map_cons, ih, List.mem_cons, hne, false_or]
      split <;> simp

theorem setSig_nodup {sigs : List (UInt8 × Nat)} (i : UInt8) (s : Nat)
    (h : (sigs.map (·.1)).Nodup) : ((setSig sigs i s).map (·.1)).Nodup := by
  rw [setSig_keys]
  split
  · exact h
  · rename_i hi
    rw [List.nodup_append]
    refine ⟨h, by simp, ?_⟩
    intro a ha b hb
    simp at hb; subst hb
    intro hab; subst hab; exact hi ha

/-! ## the verification loop -/

/-- invariant of `collect`: an entry of the result is an entry of the initial map or comes from a
    candidate message that was not skipped and passed the hash and signature checks. -/
theorem mem_collect (verify : Verify) (pref : Nat) (skip : Msg → Bool) (sigs : List (UInt8 × Nat))
    (ms : List Msg) (e : UInt8 × Nat) (h : e ∈ collect verify pref skip sigs ms) :
    e ∈ sigs ∨ ∃ m ∈ ms, skip m = false ∧ counts verify pref m = true ∧ e = (m.idx, m.aux2) := by
  induction ms generalizing sigs with
  | nil => exact Or.inl (by simpa [collect] using h)
  | cons m ms ih =>
    unfold collect at h
    split at h
    · rcases ih _ h with h' | ⟨x, hx, r⟩
      · exact Or.inl h'
      · exact Or.inr ⟨x, List.mem_cons_of_mem _ hx, r⟩
    · rename_i hs
      split at h
      · rename_i hc
        rcases ih _ h with h' | ⟨x, hx, r⟩
        · rcases mem_setSig h' with h'' | h''
          · exact Or.inr ⟨m, by simp, by simpa using hs, hc, h''⟩
          · exact Or.inl h''
        · exact Or.inr ⟨x, List.mem_cons_of_mem _ hx, r⟩
      · rcases ih _ h with h' | ⟨x, hx, r⟩
        · exact Or.inl h'
        · exact Or.inr ⟨x, List.mem_cons_of_mem _ hx, r⟩

theorem collect_nodup (verify : Verify) (pref : Nat) (skip : Msg → Bool) (sigs : List (UInt8 × Nat))
    (ms : List Msg) (h : (sigs.map (·.1)).Nodup) :
    ((collect verify pref skip sigs ms).map (·.1)).Nodup := by
  induction ms generalizing sigs with
  | nil => simpa [collect] using h
  | cons m ms ih =>
    unfold collect
    split
    · exact ih _ h
    · split
      · exact ih _ (setSig_nodup _ _ h)
      · exact ih _ h

theorem mem_dedupFrom (seen : List UInt8) (ms : List Msg) (m : Msg) (h : m ∈ dedupFrom seen ms) : m ∈ ms := by
  induction ms generalizing seen with
  | nil => simp [dedupFrom] at h
  | cons x xs ih =>
    unfold dedupFrom at h
    split at h
    · exact List.mem_cons_of_mem _ (ih _ h)
    · simp only [List.mem_cons] at h
      rcases h with h | h
      · subst h; simp
      · exact List.mem_cons_of_mem _ (ih _ h)

theorem mem_candidates (p : Proto) (st : List Msg) (m : Msg) (h : m ∈ candidates p st) : m ∈ st := by
  cases p
  · exact h
  · exact mem_dedupFrom _ _ _ h
  · exact mem_dedupFrom _ _ _ h

/-! ## the property -/

/-- `support_sound` on the stored messages: every entry of the submitted map other than the member's own
    comes from a stored message of that sender carrying the preferred hash and a signature that
    verifies under the key inside the message. -/
theorem support_sound_stored (verify : Verify) (p : Proto) (self : UInt8) (selfSig pref : Nat)
    (st : List Msg) (e : UInt8 × Nat) (h : e ∈ support verify p self selfSig pref st)
    (hne : e.1 ≠ self) :
    ∃ m ∈ st, m.idx = e.1 ∧ m.aux2 = e.2 ∧ m.aux1 = pref ∧ verify m.aux1 m.aux2 m.msgKey = true := by
  unfold support at h
  rcases mem_setSig h with h' | h'
  · subst h'; exact absurd rfl hne
  · rcases mem_collect _ _ _ _ _ _ h' with h'' | ⟨m, hm, _, hc, he⟩
    · simp at h''
    · subst he
      simp only [counts, Bool.and_eq_true, beq_iff_eq] at hc
      exact ⟨m, mem_candidates p st m hm, rfl, rfl, hc.1, hc.2⟩

/-- `support_sound`: over the whole history — every entry other than the member's own comes from a
    network message of that claimed sender that was *admitted* (C12: the authenticated network key
    controls the seat, the member is operating, same session), whose inner key is the network key,
    whose hash is the preferred one, and whose signature verifies under that key. -/
theorem support_sound (addr : Nat → Nat) (verify : Verify) (p : Proto) (c : Ctx) (g : Params)
    (selfSig pref : Nat) (hist : List Msg) (e : UInt8 × Nat)
    (h : e ∈ (pipeline addr verify p c g selfSig pref hist).1) (hne : e.1 ≠ selfIdx c) :
    ∃ m ∈ hist, m.idx = e.1 ∧ m.aux2 = e.2 ∧ admitMsg addr p.step c m = .stored ∧
      isValidMembership c.ops m.idx (addr m.netKey) = true ∧ m.msgKey = m.netKey ∧
      m.aux1 = pref ∧ verify m.aux1 m.aux2 m.netKey = true := by
  obtain ⟨m, hm, h1, h2, h3, h4⟩ := support_sound_stored verify p (selfIdx c) selfSig pref _ e h hne
  simp only [stored, List.mem_filter, beq_iff_eq] at hm
  have hk : m.msgKey = m.netKey :=
    signed_step_key_binding addr p.step c m (by cases p <;> simp [Proto.step]) hm.2
  have hv := admit_uniform addr p.step c m (by rw [hm.2]; decide)
  exact ⟨m, hm.1, h1, h2, hm.2, hv, hk, h3, hk ▸ h4⟩

/-- `support_at_most_one_per_member`: the submitted map has one entry per member index. -/
theorem support_at_most_one_per_member (verify : Verify) (p : Proto) (self : UInt8) (selfSig pref : Nat)
    (st : List Msg) : ((support verify p self selfSig pref st).map (·.1)).Nodup := by
  unfold support
  exact setSig_nodup _ _ (collect_nodup _ _ _ _ _ (by simp))

/-- `self_always_present`: the member's own signature is always in the map, under its own index. -/
theorem self_always_present (verify : Verify) (p : Proto) (self : UInt8) (selfSig pref : Nat)
    (st : List Msg) : (self, selfSig) ∈ support verify p self selfSig pref st := by
  unfold support; exact setSig_self_mem _ _ _

/-- beacon: a sender with more than one stored message contributes nothing (all its messages are
    dropped), and the member's own messages are never counted. -/
theorem beacon_duplicated_sender_dropped (verify : Verify) (self : UInt8) (selfSig pref : Nat)
    (st : List Msg) (e : UInt8 × Nat) (h : e ∈ support verify .beacon self selfSig pref st)
    (hne : e.1 ≠ self) : st.countP (fun m => m.idx == e.1) = 1 := by
  unfold support at h
  rcases mem_setSig h with h' | h'
  · subst h'; exact absurd rfl hne
  · rcases mem_collect _ _ _ _ _ _ h' with h'' | ⟨m, hm, hs, _, he⟩
    · simp at h''
    · subst he
      simp only [skipRule, duplicated, Bool.or_eq_false_iff, decide_eq_false_iff_not] at hs
      have hpos : 0 < st.countP (fun x => x.idx == m.idx) :=
        List.countP_pos_iff.2 ⟨m, hm, by simp⟩
      simp only
      omega

/-- `submit_only_at_threshold`: the gate lets a submission through only if the map has at least
    `H + (N-H)/2` (beacon) / `GroupQuorum` (tbtc dkg) / `HonestThreshold` (inactivity) entries. -/
theorem submit_only_at_threshold (addr : Nat → Nat) (verify : Verify) (p : Proto) (c : Ctx) (g : Params)
    (selfSig pref : Nat) (hist : List Msg)
    (h : (pipeline addr verify p c g selfSig pref hist).2 = true) :
    threshold p g ≤ (pipeline addr verify p c g selfSig pref hist).1.length := by
  simp only [pipeline, passesGate, Bool.not_eq_true', decide_eq_false_iff_not] at h
  simp only [pipeline]; omega

/-- consequently a submitted map names at least `threshold` distinct members -/
theorem submitted_supporters_distinct (addr : Nat → Nat) (verify : Verify) (p : Proto) (c : Ctx) (g : Params)
    (selfSig pref : Nat) (hist : List Msg)
    (h : (pipeline addr verify p c g selfSig pref hist).2 = true) :
    ∃ members : List UInt8, members.Nodup ∧ threshold p g ≤ members.length ∧
      ∀ i ∈ members, ∃ s, (i, s) ∈ (pipeline addr verify p c g selfSig pref hist).1 := by
  refine ⟨(pipeline addr verify p c g selfSig pref hist).1.map (·.1),
    support_at_most_one_per_member _ _ _ _ _ _, ?_, ?_⟩
  · simpa using submit_only_at_threshold addr verify p c g selfSig pref hist h
  · intro i hi
    obtain ⟨e, he, rfl⟩ := List.mem_map.1 hi
    exact ⟨e.2, he⟩

/-- The monitor accepts the model's output on every history. -/
theorem holds_pipeline (addr : Nat → Nat) (verify : Verify) (p : Proto) (c : Ctx) (g : Params)
    (selfSig pref : Nat) (hist : List Msg) :
    holds addr verify p c g selfSig pref hist
      (pipeline addr verify p c g selfSig pref hist).1
      (pipeline addr verify p c g selfSig pref hist).2 = true := by
  unfold holds
  simp only [Bool.and_eq_true]
  refine ⟨⟨⟨?_, ?_⟩, ?_⟩, ?_⟩
  · rw [List.contains_iff_mem]; exact self_always_present _ _ _ _ _ _
  · exact decide_eq_true (support_at_most_one_per_member _ _ _ _ _ _)
  · rw [List.all_eq_true]
    intro e he
    by_cases hs : e.1 = selfIdx c
    · simp [hs]
    · obtain ⟨m, hm, h1, h2, h3, _, h5, h6, h7⟩ := support_sound addr verify p c g selfSig pref hist e he hs
      simp only [Bool.or_eq_true, beq_iff_eq, hs, false_or, List.any_eq_true, Bool.and_eq_true]
      exact ⟨m, hm, ⟨⟨⟨⟨⟨h1, h2⟩, h3⟩, h6⟩, h5⟩, h5 ▸ h7⟩⟩
  · cases hsub : (pipeline addr verify p c g selfSig pref hist).2 with
    | false => simp
    | true =>
      simp only [Bool.not_true, Bool.false_or, decide_eq_true_eq]
      exact submit_only_at_threshold addr verify p c g selfSig pref hist hsub

/-! ## order of the history -/

theorem mem_setSig_keep {sigs : List (UInt8 × Nat)} {i : UInt8} {s : Nat} {e : UInt8 × Nat}
    (h : e ∈ sigs) (hv : i = e.1 → s = e.2) : e ∈ setSig sigs i s := by
  induction sigs with
  | nil => cases h
  | cons hd tl ih =>
    obtain ⟨j, t⟩ := hd
    unfold setSig
    simp only [List.mem_cons] at h
    split
    · rename_i hj
      rcases h with h | h
      · subst h
        simp only at hj hv
        have := hv hj.symm
        subst this; subst hj; simp
      · exact List.mem_cons_of_mem _ h
    · rcases h with h | h
      · subst h; simp
      · exact List.mem_cons_of_mem _ (ih h)

theorem collect_keep (verify : Verify) (pref : Nat) (skip : Msg → Bool) (sigs : List (UInt8 × Nat))
    (ms : List Msg) (e : UInt8 × Nat) (h : e ∈ sigs)
    (hv : ∀ x ∈ ms, skip x = false → x.idx = e.1 → x.aux2 = e.2) :
    e ∈ collect verify pref skip sigs ms := by
  induction ms generalizing sigs with
  | nil => simpa [collect] using h
  | cons x xs ih =>
    have hv' : ∀ y ∈ xs, skip y = false → y.idx = e.1 → y.aux2 = e.2 :=
      fun y hy => hv y (List.mem_cons_of_mem _ hy)
    unfold collect
    split
    · exact ih _ h hv'
    · rename_i hs
      split
      · exact ih _ (mem_setSig_keep h (fun hi => hv x (by simp) (by simpa using hs) hi)) hv'
      · exact ih _ h hv'

theorem collect_complete (verify : Verify) (pref : Nat) (skip : Msg → Bool) (sigs : List (UInt8 × Nat))
    (ms : List Msg) (m : Msg) (hm : m ∈ ms) (hs : skip m = false) (hc : counts verify pref m = true)
    (hv : ∀ x ∈ ms, skip x = false → x.idx = m.idx → x.aux2 = m.aux2) :
    (m.idx, m.aux2) ∈ collect verify pref skip sigs ms := by
  induction ms generalizing sigs with
  | nil => cases hm
  | cons x xs ih =>
    have hv' : ∀ y ∈ xs, skip y = false → y.idx = m.idx → y.aux2 = m.aux2 :=
      fun y hy => hv y (List.mem_cons_of_mem _ hy)
    simp only [List.mem_cons] at hm
    rcases hm with hm | hm
    · subst hm
      unfold collect
      simp only [hs, Bool.false_eq_true, if_false, hc, if_true]
      exact collect_keep _ _ _ _ _ _ (setSig_self_mem _ _ _) hv'
    · unfold collect
      split
      · exact ih _ hm hv'
      · split
        · exact ih _ hm hv'
        · exact ih _ hm hv'

theorem countP_one_unique {α} (p : α → Bool) (l : List α) (h : l.countP p = 1) (x y : α)
    (hx : x ∈ l) (hy : y ∈ l) (px : p x = true) (py : p y = true) : x = y := by
  induction l with
  | nil => cases hx
  | cons a as ih =>
    rw [List.countP_cons] at h
    simp only [List.mem_cons] at hx hy
    by_cases pa : p a = true
    · simp only [pa, if_true] at h
      have h0 : as.countP p = 0 := by omega
      rw [List.countP_eq_zero] at h0
      rcases hx with hx | hx
      · rcases hy with hy | hy
        · rw [hx, hy]
        · exact absurd py (h0 y hy)
      · exact absurd px (h0 x hx)
    · simp only [pa] at h
      have hx' : x ∈ as := by
        rcases hx with hx | hx
        · subst hx; exact absurd px pa
        · exact hx
      have hy' : y ∈ as := by
        rcases hy with hy | hy
        · subst hy; exact absurd py pa
        · exact hy
      exact ih (by simpa using h) hx' hy'

/-- Beacon: exact, order-free description of the submitted map. -/
theorem beacon_support_iff (verify : Verify) (self : UInt8) (selfSig pref : Nat) (st : List Msg)
    (e : UInt8 × Nat) :
    e ∈ support verify .beacon self selfSig pref st ↔
      e = (self, selfSig) ∨
      ∃ m ∈ st, m.idx ≠ self ∧ st.countP (fun x => x.idx == m.idx) = 1 ∧ counts verify pref m = true ∧
        e = (m.idx, m.aux2) := by
  constructor
  · intro h
    unfold support at h
    rcases mem_setSig h with h' | h'
    · exact Or.inl h'
    · rcases mem_collect _ _ _ _ _ _ h' with h'' | ⟨m, hm, hs, hc, he⟩
      · simp at h''
      · right
        simp only [skipRule, duplicated, Bool.or_eq_false_iff, decide_eq_false_iff_not, beq_eq_false_iff_ne] at hs
        have hpos : 0 < st.countP (fun x => x.idx == m.idx) := List.countP_pos_iff.2 ⟨m, hm, by simp⟩
        exact ⟨m, hm, hs.1, by omega, hc, he⟩
  · rintro (h | ⟨m, hm, hne, hcnt, hc, he⟩)
    · subst h; exact self_always_present _ _ _ _ _ _
    · subst he
      unfold support
      apply mem_setSig_keep
      · apply collect_complete _ _ _ _ _ m hm _ hc
        · intro x hx _ hxi
          have : x = m := countP_one_unique _ st hcnt x m hx hm (by simp [hxi]) (by simp)
          rw [this]
        · simp only [skipRule, duplicated, Bool.or_eq_false_iff, decide_eq_false_iff_not, beq_eq_false_iff_ne]
          exact ⟨hne, by omega⟩
      · intro hself; exact absurd hself.symm hne

/-- `history_order_irrelevant` (beacon): permuting the history of network messages changes neither the
    set of supporting signatures nor the submission decision. -/
theorem beacon_history_order_irrelevant (addr : Nat → Nat) (verify : Verify) (c : Ctx) (g : Params)
    (selfSig pref : Nat) (h1 h2 : List Msg) (hp : h1.Perm h2) :
    (∀ e, e ∈ (pipeline addr verify .beacon c g selfSig pref h1).1 ↔
          e ∈ (pipeline addr verify .beacon c g selfSig pref h2).1) ∧
    (pipeline addr verify .beacon c g selfSig pref h1).2 =
      (pipeline addr verify .beacon c g selfSig pref h2).2 := by
  have hst : (stored addr .beacon c h1).Perm (stored addr .beacon c h2) := hp.filter _
  have hmem : ∀ e, e ∈ support verify .beacon (selfIdx c) selfSig pref (stored addr .beacon c h1) ↔
      e ∈ support verify .beacon (selfIdx c) selfSig pref (stored addr .beacon c h2) := by
    intro e
    rw [beacon_support_iff, beacon_support_iff]
    constructor
    · rintro (h | ⟨m, hm, a, b, c', d⟩)
      · exact Or.inl h
      · exact Or.inr ⟨m, hst.mem_iff.1 hm, a, by rw [← hst.countP_eq]; exact b, c', d⟩
    · rintro (h | ⟨m, hm, a, b, c', d⟩)
      · exact Or.inl h
      · exact Or.inr ⟨m, hst.mem_iff.2 hm, a, by rw [hst.countP_eq]; exact b, c', d⟩
  refine ⟨hmem, ?_⟩
  have hnd : ∀ h, (support verify .beacon (selfIdx c) selfSig pref (stored addr .beacon c h)).Nodup :=
    fun h => List.Pairwise.of_map (·.1) (fun a b hne hab => hne (by rw [hab]))
      (support_at_most_one_per_member _ _ _ _ _ _)
  have hperm := (List.perm_ext_iff_of_nodup (hnd h1) (hnd h2)).2 hmem
  simp only [pipeline, passesGate, hperm.length_eq]

/-- tecdsa / inactivity: the history order matters only through "which message of a sender came
    first": a sender whose first stored message does not count contributes nothing, whatever it sent
    later (precise form of `history_order_irrelevant` for the first-per-sender variants). -/
theorem first_message_decides (verify : Verify) (p : Proto) (hp : p ≠ .beacon) (self : UInt8)
    (selfSig pref : Nat) (st : List Msg) (e : UInt8 × Nat)
    (h : e ∈ support verify p self selfSig pref st) (hne : e.1 ≠ self) :
    ∃ m ∈ dedup st, m.idx = e.1 ∧ m.aux2 = e.2 ∧ counts verify pref m = true := by
  unfold support at h
  rcases mem_setSig h with h' | h'
  · subst h'; exact absurd rfl hne
  · rcases mem_collect _ _ _ _ _ _ h' with h'' | ⟨m, hm, _, hc, he⟩
    · simp at h''
    · subst he
      refine ⟨m, ?_, rfl, rfl, hc⟩
      cases p
      · exact absurd rfl hp
      · exact hm
      · exact hm

/-- `support_entry_verifies_for_seat_holder` (all three protocols, in particular the tbtc path; operators
    holding several seats included): every entry `(seat, signature)` of the map handed to the submitter,
    other than the member's own, carries a signature that ITSELF verifies over the preferred hash under
    a key whose chain address holds exactly that seat.  A verdict obtained for another signature of the
    same operator (C13-w2) or a membership confirmed for another seat of the same key (C13-w3) cannot
    justify an entry. -/
theorem support_entry_verifies_for_seat_holder (addr : Nat → Nat) (verify : Verify) (p : Proto) (c : Ctx)
    (g : Params) (selfSig pref : Nat) (hist : List Msg) (hn : c.ops.length ≤ 255) (e : UInt8 × Nat)
    (h : e ∈ (pipeline addr verify p c g selfSig pref hist).1) (hne : e.1 ≠ selfIdx c) :
    ∃ key, 1 ≤ e.1.toNat ∧ e.1.toNat ≤ c.ops.length ∧ c.ops[e.1.toNat - 1]? = some (addr key) ∧
      verify pref e.2 key = true := by
  obtain ⟨m, _, h1, h2, _, hv, _, h6, h7⟩ := support_sound addr verify p c g selfSig pref hist e h hne
  have := (valid_membership_iff c.ops m.idx (addr m.netKey) hn).1 hv
  rw [h1] at this
  exact ⟨m.netKey, this.1, this.2.1, this.2.2, by rw [← h6, ← h2]; exact h7⟩

end KeepVerif.C13
