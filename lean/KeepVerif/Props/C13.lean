import KeepVerif.Model.C13
import KeepVerif.Props.C12
/-!
# C13 — Result and claim support counts only valid, distinct, matching signatures

Theorems over `Model/C13.lean`, for every history of network messages (duplicates, conflicting hashes,
invalid signatures, foreign keys, non-members, any order) and every `verify` (A-ecdsa is only needed to
read `verify = true` as "the holder of that key signed this hash").
-/
namespace KeepVerif.C13
open KeepVerif.C12

/-! ## the signature map -/

theorem mem_setSig {sigs : List (UInt8 × Nat)} {i : UInt8} {s : Nat} {e : UInt8 × Nat}
    (h : e ∈ setSig sigs i s) : e = (i, s) ∨ e ∈ sigs := by
  induction sigs with
  | nil => simp [setSig] at h; exact Or.inl h
  | cons hd tl ih =>
    obtain ⟨j, t⟩ := hd
    unfold setSig at h
    split at h
    · simp only [List.mem_cons] at h
      rcases h with h | h
      · exact Or.inl h
      · exact Or.inr (List.mem_cons_of_mem _ h)
    · simp only [List.mem_cons] at h
      rcases h with h | h
      · right; subst h; simp
      · rcases ih h with h' | h'
        · exact Or.inl h'
        · exact Or.inr (List.mem_cons_of_mem _ h')

theorem setSig_self_mem (sigs : List (UInt8 × Nat)) (i : UInt8) (s : Nat) : (i, s) ∈ setSig sigs i s := by
  induction sigs with
  | nil => simp [setSig]
  | cons hd tl ih =>
    obtain ⟨j, t⟩ := hd
    unfold setSig
    split
    · simp
    · exact List.mem_cons_of_mem _ ih

theorem setSig_keys (sigs : List (UInt8 × Nat)) (i : UInt8) (s : Nat) :
    (setSig sigs i s).map (·.1) =
      if i ∈ sigs.map (·.1) then sigs.map (·.1) else sigs.map (·.1) ++ [i] := by
  induction sigs with
  | nil => simp [setSig]
  | cons hd tl ih =>
    obtain ⟨j, t⟩ := hd
    unfold setSig
    by_cases hj : j = i
    · subst hj; simp
    · have hne : ¬ i = j := fun h => hj h.symm
      simp only [hj, if_false, List.map_cons, ih, List.mem_cons, hne, false_or]
      split <;> simp

theorem setSig_nodup {sigs : List (UInt8 × Nat)} (i : UInt8) (s : Nat)
    (h : (sigs.map (·.1)).Nodup) : ((setSig sigs i s).map (·.1)).Nodup := by
  rw [setSig_keys]
  split
  · exact h
  · rename_i hi
    rw [List.nodup_append]
    refine ⟨h, by simp, ?_⟩
    intro a ha b hb
    simp at hb; subst hb
    intro hab; subst hab; exact hi ha

/-! ## the verification loop -/

/-- invariant of `collect`: an entry of the result is an entry of the initial map or comes from a
    candidate message that was not skipped and passed the hash and signature checks. -/
theorem mem_collect (verify : Verify) (pref : Nat) (skip : Msg → Bool) (sigs : List (UInt8 × Nat))
    (ms : List Msg) (e : UInt8 × Nat) (h : e ∈ collect verify pref skip sigs ms) :
    e ∈ sigs ∨ ∃ m ∈ ms, skip m = false ∧ counts verify pref m = true ∧ e = (m.idx, m.aux2) := by
  induction ms generalizing sigs with
  | nil => exact Or.inl (by simpa [collect] using h)
  | cons m ms ih =>
    unfold collect at h
    split at h
    · rcases ih _ h with h' | ⟨x, hx, r⟩
      · exact Or.inl h'
      · exact Or.inr ⟨x, List.mem_cons_of_mem _ hx, r⟩
    · rename_i hs
      split at h
      · rename_i hc
        rcases ih _ h with h' | ⟨x, hx, r⟩
        · rcases mem_setSig h' with h'' | h''
          · exact Or.inr ⟨m, by simp, by simpa using hs, hc, h''⟩
          · exact Or.inl h''
        · exact Or.inr ⟨x, List.mem_cons_of_mem _ hx, r⟩
      · rcases ih _ h with h' | ⟨x, hx, r⟩
        · exact Or.inl h'
        · exact Or.inr ⟨x, List.mem_cons_of_mem _ hx, r⟩

theorem collect_nodup (verify : Verify) (pref : Nat) (skip : Msg → Bool) (sigs : List (UInt8 × Nat))
    (ms : List Msg) (h : (sigs.map (·.1)).Nodup) :
    ((collect verify pref skip sigs ms).map (·.1)).Nodup := by
  induction ms generalizing sigs with
  | nil => simpa [collect] using h
  | cons m ms ih =>
    unfold collect
    split
    · exact ih _ h
    · split
      · exact ih _ (setSig_nodup _ _ h)
      · exact ih _ h

theorem mem_dedupFrom (seen : List UInt8) (ms : List Msg) (m : Msg) (h : m ∈ dedupFrom seen ms) : m ∈ ms := by
  induction ms generalizing seen with
  | nil => simp [dedupFrom] at h
  | cons x xs ih =>
    unfold dedupFrom at h
    split at h
    · exact List.mem_cons_of_mem _ (ih _ h)
    · simp only [List.mem_cons] at h
      rcases h with h | h
      · subst h; simp
      · exact List.mem_cons_of_mem _ (ih _ h)

theorem mem_candidates (p : Proto) (st : List Msg) (m : Msg) (h : m ∈ candidates p st) : m ∈ st := by
  cases p
  · exact h
  · exact mem_dedupFrom _ _ _ h
  · exact mem_dedupFrom _ _ _ h

/-! ## the property -/

/-- `support_sound` on the stored messages: every entry of the submitted map other than the member's own
    comes from a stored message of that sender carrying the preferred hash and a signature that
    verifies under the key inside the message. -/
theorem support_sound_stored (verify : Verify) (p : Proto) (self : UInt8) (selfSig pref : Nat)
    (st : List Msg) (e : UInt8 × Nat) (h : e ∈ support verify p self selfSig pref st)
    (hne : e.1 ≠ self) :
    ∃ m ∈ st, m.idx = e.1 ∧ m.aux2 = e.2 ∧ m.aux1 = pref ∧ verify m.aux1 m.aux2 m.msgKey = true := by
  unfold support at h
  rcases mem_setSig h with h' | h'
  · subst h'; exact absurd rfl hne
  · rcases mem_collect _ _ _ _ _ _ h' with h'' | ⟨m, hm, _, hc, he⟩
    · simp at h''
    · subst he
      simp only [counts, Bool.and_eq_true, beq_iff_eq] at hc
      exact ⟨m, mem_candidates p st m hm, rfl, rfl, hc.1, hc.2⟩

/-- `support_sound`: over the whole history — every entry other than the member's own comes from a
    network message of that claimed sender that was *admitted* (C12: the authenticated network key
    controls the seat, the member is operating, same session), whose inner key is the network key,
    whose hash is the preferred one, and whose signature verifies under that key. -/
theorem support_sound (addr : Nat → Nat) (verify : Verify) (p : Proto) (c : Ctx) (g : Params)
    (selfSig pref : Nat) (hist : List Msg) (e : UInt8 × Nat)
    (h : e ∈ (pipeline addr verify p c g selfSig pref hist).1) (hne : e.1 ≠ selfIdx c) :
    ∃ m ∈ hist, m.idx = e.1 ∧ m.aux2 = e.2 ∧ admitMsg addr p.step c m = .stored ∧
      isValidMembership c.ops m.idx (addr m.netKey) = true ∧ m.msgKey = m.netKey ∧
      m.aux1 = pref ∧ verify m.aux1 m.aux2 m.netKey = true := by
  obtain ⟨m, hm, h1, h2, h3, h4⟩ := support_sound_stored verify p (selfIdx c) selfSig pref _ e h hne
  simp only [stored, List.mem_filter, beq_iff_eq] at hm
  have hk : m.msgKey = m.netKey :=
    signed_step_key_binding addr p.step c m (by cases p <;> simp [Proto.step]) hm.2
  have hv := admit_uniform addr p.step c m (by rw [hm.2]; decide)
  exact ⟨m, hm.1, h1, h2, hm.2, hv, hk, h3, hk ▸ h4⟩

/-- `support_at_most_one_per_member`: the submitted map has one entry per member index. -/
theorem support_at_most_one_per_member (verify : Verify) (p : Proto) (self : UInt8) (selfSig pref : Nat)
    (st : List Msg) : ((support verify p self selfSig pref st).map (·.1)).Nodup := by
  unfold support
  exact setSig_nodup _ _ (collect_nodup _ _ _ _ _ (by simp))

/-- `self_always_present`: the member's own signature is always in the map, under its own index. -/
theorem self_always_present (verify : Verify) (p : Proto) (self : UInt8) (selfSig pref : Nat)
    (st : List Msg) : (self, selfSig) ∈ support verify p self selfSig pref st := by
  unfold support; exact setSig_self_mem _ _ _

/-- beacon: a sender with more than one stored message contributes nothing (all its messages are
    dropped), and the member's own messages are never counted. -/
theorem beacon_duplicated_sender_dropped (verify : Verify) (self : UInt8) (selfSig pref : Nat)
    (st : List Msg) (e : UInt8 × Nat) (h : e ∈ support verify .beacon self selfSig pref st)
    (hne : e.1 ≠ self) : st.countP (fun m => m.idx == e.1) = 1 := by
  unfold support at h
  rcases mem_setSig h with h' | h'
  · subst h'; exact absurd rfl hne
  · rcases mem_collect _ _ _ _ _ _ h' with h'' | ⟨m, hm, hs, _, he⟩
    · simp at h''
    · subst he
      simp only [skipRule, duplicated, Bool.or_eq_false_iff, decide_eq_false_iff_not] at hs
      have hpos : 0 < st.countP (fun x => x.idx == m.idx) :=
        List.countP_pos_iff.2 ⟨m, hm, by simp⟩
      simp only
      omega

/-- `submit_only_at_threshold`: the gate lets a submission through only if the map has at least
    `H + (N-H)/2` (beacon) / `GroupQuorum` (tbtc dkg) / `HonestThreshold` (inactivity) entries. -/
theorem submit_only_at_threshold (addr : Nat → Nat) (verify : Verify) (p : Proto) (c : Ctx) (g : Params)
    (selfSig pref : Nat) (hist : List Msg)
    (h : (pipeline addr verify p c g selfSig pref hist).2 = true) :
    threshold p g ≤ (pipeline addr verify p c g selfSig pref hist).1.length := by
  simp only [pipeline, passesGate, Bool.not_eq_true', decide_eq_false_iff_not] at h
  simp only [pipeline]; omega

/-- consequently a submitted map names at least `threshold` distinct members -/
theorem submitted_supporters_distinct (addr : Nat → Nat) (verify : Verify) (p : Proto) (c : Ctx) (g : Params)
    (selfSig pref : Nat) (hist : List Msg)
    (h : (pipeline addr verify p c g selfSig pref hist).2 = true) :
    ∃ members : List UInt8, members.Nodup ∧ threshold p g ≤ members.length ∧
      ∀ i ∈ members, ∃ s, (i, s) ∈ (pipeline addr verify p c g selfSig pref hist).1 := by
  refine ⟨(pipeline addr verify p c g selfSig pref hist).1.map (·.1),
    support_at_most_one_per_member _ _ _ _ _ _, ?_, ?_⟩
  · simpa using submit_only_at_threshold addr verify p c g selfSig pref hist h
  · intro i hi
    obtain ⟨e, he, rfl⟩ := List.mem_map.1 hi
    exact ⟨e.2, he⟩

/-- The monitor accepts the model's output on every history. -/
theorem holds_pipeline (addr : Nat → Nat) (verify : Verify) (p : Proto) (c : Ctx) (g : Params)
    (selfSig pref : Nat) (hist : List Msg) :
    holds addr verify p c g selfSig pref hist
      (pipeline addr verify p c g selfSig pref hist).1
      (pipeline addr verify p c g selfSig pref hist).2 = true := by
  unfold holds
  simp only [Bool.and_eq_true]
  refine ⟨⟨⟨?_, ?_⟩, ?_⟩, ?_⟩
  · rw [List.contains_iff_mem]; exact self_always_present _ _ _ _ _ _
  · exact decide_eq_true (support_at_most_one_per_member _ _ _ _ _ _)
  · rw [List.all_eq_true]
    intro e he
    by_cases hs : e.1 = selfIdx c
    · simp [hs]
    · obtain ⟨m, hm, h1, h2, h3, _, h5, h6, h7⟩ := support_sound addr verify p c g selfSig pref hist e he hs
      simp only [Bool.or_eq_true, beq_iff_eq, hs, false_or, List.any_eq_true, Bool.and_eq_true]
      exact ⟨m, hm, ⟨⟨⟨⟨⟨h1, h2⟩, h3⟩, h6⟩, h5⟩, h5 ▸ h7⟩⟩
  · cases hsub : (pipeline addr verify p c g selfSig pref hist).2 with
    | false => simp
    | true =>
      simp only [Bool.not_true, Bool.false_or, decide_eq_true_eq]
      exact submit_only_at_threshold addr verify p c g selfSig pref hist hsub

end KeepVerif.C13
