import KeepVerif.Model.C09
/-!
# C09 — Retry participant selection respects seat bounds and is deterministic

Theorems over `Model/C09.lean` (`pkg/tecdsa/retry/retry.go`).  The model functions are pure
functions of `(shuf, seats, retry, k)`; `shuf` is the permutation family of the seeded generator
(A-rng: a function of the seed and the length only), so "identical on every node" is the statement
that nothing else enters — the only other source of nondeterminism in the code, the iteration order
of the seat-count map, is removed by `map_order_irrelevant`.
-/
namespace KeepVerif.C09

/-- `shuf` is a real shuffle: `shuf n` is a permutation of `0..n-1` (what `rand.Shuffle` applies). -/
def ValidShuf (shuf : Nat → List Nat) : Prop := ∀ n, (shuf n).Perm (List.range n)

/-! ## helper lemmas -/

theorem applyPerm_mem {α} {p : List Nat} {xs : List α} {x : α} (h : x ∈ applyPerm p xs) : x ∈ xs := by
  simp only [applyPerm, List.mem_filterMap] at h
  obtain ⟨i, _, hi⟩ := h
  exact List.mem_of_getElem? hi

theorem applyPerm_range {α} (xs : List α) : applyPerm (List.range xs.length) xs = xs := by
  induction xs with
  | nil => simp [applyPerm]
  | cons x xs ih =>
    simp only [applyPerm] at ih ⊢
    rw [List.length_cons, List.range_succ_eq_map, List.filterMap_cons]
    simp only [List.getElem?_cons_zero, List.filterMap_map]
    have : ((fun i => (x :: xs)[i]?) ∘ Nat.succ) = (fun i => xs[i]?) := by
      funext i; simp
    rw [this, ih]

theorem applyPerm_perm {α} {p : List Nat} {xs : List α} (h : p.Perm (List.range xs.length)) :
    (applyPerm p xs).Perm xs := by
  have := List.Perm.filterMap (fun i => xs[i]?) h
  rw [show List.filterMap (fun i => xs[i]?) (List.range xs.length) = xs from applyPerm_range xs] at this
  exact this

theorem applyPerm_length {α} {shuf : Nat → List Nat} (hv : ValidShuf shuf) (xs : List α) :
    (applyPerm (shuf xs.length) xs).length = xs.length :=
  (applyPerm_perm (hv xs.length)).length_eq

theorem lt_bound_of_mem {a : Addr} {seats : List Addr} (h : a ∈ seats) : a < bound seats := by
  induction seats with
  | nil => cases h
  | cons s ss ih =>
    show a < max (s + 1) (bound ss)
    rcases List.mem_cons.1 h with rfl | h'
    · exact Nat.lt_of_lt_of_le (Nat.lt_succ_self _) (Nat.le_max_left _ _)
    · exact Nat.lt_of_lt_of_le (ih h') (Nat.le_max_right _ _)

theorem mem_sortedOps {a : Addr} {seats : List Addr} : a ∈ sortedOps seats ↔ a ∈ seats := by
  simp only [sortedOps, List.mem_filter, List.mem_range, List.contains_iff_mem]
  exact ⟨fun h => h.2, fun h => ⟨lt_bound_of_mem h, h⟩⟩

theorem sortedOps_sorted (seats : List Addr) : (sortedOps seats).Pairwise (· < ·) :=
  List.Pairwise.filter _ List.pairwise_lt_range

theorem sortedOps_nodup (seats : List Addr) : (sortedOps seats).Nodup :=
  (sortedOps_sorted seats).imp (fun h => Nat.ne_of_lt h)

/-- seats of a duplicate-free operator list: their number is the sum of the seat counts -/
theorem length_filter_contains (seats : List Addr) :
    ∀ (A : List Addr), A.Nodup →
      (seats.filter (fun o => A.contains o)).length = (A.map (fun o => seatCount o seats)).sum
  | [], _ => by simp
  | a :: A, hn => by
    have hA := length_filter_contains seats A (List.nodup_cons.1 hn).2
    have ha : a ∉ A := (List.nodup_cons.1 hn).1
    simp only [List.map_cons, List.sum_cons]
    rw [← hA]
    clear hA
    simp only [seatCount]
    induction seats with
    | nil => simp
    | cons s ss ih =>
      by_cases hs : s = a
      · subst hs
        simp [List.filter_cons, ha] at ih ⊢
        omega
      · have hs' : ¬ a = s := fun h => hs h.symm
        by_cases hc : s ∈ A
        · simp [List.filter_cons, hs, hs', hc] at ih ⊢; omega
        · simp [List.filter_cons, hs, hs', hc] at ih ⊢; omega

/-- removing the seats of some operators removes at most the sum of their seat counts -/
theorem length_filter_not_contains (seats : List Addr) :
    ∀ (ex : List Addr),
      seats.length ≤ (seats.filter (fun o => !ex.contains o)).length + (ex.map (fun o => seatCount o seats)).sum
  | [] => by
    have : seats.filter (fun o => !([] : List Addr).contains o) = seats :=
      List.filter_eq_self.2 (by simp)
    rw [this]; simp
  | a :: ex => by
    have h := length_filter_not_contains seats ex
    have key : (seats.filter (fun o => !ex.contains o)).length
        ≤ (seats.filter (fun o => !(a :: ex).contains o)).length + seatCount a seats := by
      clear h
      simp only [seatCount]
      induction seats with
      | nil => simp
      | cons s ss ih =>
        by_cases hs : s = a
        · subst hs
          by_cases hc : s ∈ ex
          · simp [List.filter_cons, hc] at ih ⊢; omega
          · simp [List.filter_cons, hc] at ih ⊢; omega
        · have hs' : ¬ a = s := fun h => hs h.symm
          by_cases hc : s ∈ ex
          · simp [List.filter_cons, hs, hs', hc] at ih ⊢; omega
          · simp [List.filter_cons, hs, hs', hc] at ih ⊢; omega
    simp only [List.map_cons, List.sum_cons]
    omega

theorem sum_seatCount_sortedOps (seats : List Addr) :
    ((sortedOps seats).map (fun o => seatCount o seats)).sum = seats.length := by
  rw [← length_filter_contains seats _ (sortedOps_nodup seats)]
  congr 1
  apply List.filter_eq_self.2
  intro a ha
  simpa using mem_sortedOps.2 ha

/-! ## result shape: sub-list, operators' seats kept or dropped together -/

/-- every result of the package is the seat list filtered by a predicate on the *operator* -/
def IsSelection (seats res : List Addr) : Prop := ∃ p : Addr → Bool, res = seats.filter p

theorem signing_isSelection {shuf seats k res} (h : signing shuf seats k = .ok res) :
    IsSelection seats res := by
  unfold signing at h
  split at h
  · cases h
  · dsimp only at h
    split at h
    · cases h
    · rename_i acc _
      injection h with h
      exact ⟨_, h.symm⟩

theorem keygen_isSelection {asWas shuf seats retry k res}
    (h : keygenGen asWas shuf seats retry k = .ok res) : IsSelection seats res := by
  unfold keygenGen at h
  split at h
  · cases h
  · split at h
    · injection h with h; exact ⟨_, h.symm⟩
    · cases h
    · cases h

/-- C09 (a): the returned seats are a sub-list of the given seats (order preserved). -/
theorem result_sublist {seats res} (h : IsSelection seats res) : res.Sublist seats := by
  obtain ⟨p, rfl⟩ := h
  exact List.filter_sublist

/-- C09 (b): each operator's seats are all kept or all dropped. -/
theorem operator_atomic {seats res} (h : IsSelection seats res) (a : Addr) :
    res.count a = seats.count a ∨ res.count a = 0 := by
  obtain ⟨p, rfl⟩ := h
  by_cases hp : p a = true
  · exact Or.inl (List.count_filter hp)
  · right
    apply List.count_eq_zero.2
    intro hm
    exact hp (List.mem_filter.1 hm).2

/-! ## signing keeps at least `k` seats -/

theorem accept_spec (seats : List Addr) (k : Nat) :
    ∀ (L : List Addr) (acc : Nat) (A : List Addr), accept seats k acc L = some A →
      A.Sublist L ∧ k ≤ acc + (A.map (fun o => seatCount o seats)).sum
  | [], acc, A, h => by
    simp only [accept] at h
    split at h
    · injection h with h; subst h; simp; omega
    · cases h
  | o :: rest, acc, A, h => by
    simp only [accept] at h
    split at h
    · injection h with h; subst h; simp; omega
    · cases hr : accept seats k (acc + seatCount o seats) rest with
      | none => rw [hr] at h; cases h
      | some A' =>
        rw [hr] at h
        injection h with h
        subst h
        obtain ⟨h1, h2⟩ := accept_spec seats k rest _ A' hr
        refine ⟨h1.cons₂ o, ?_⟩
        simp only [List.map_cons, List.sum_cons]
        omega

theorem accept_succeeds (seats : List Addr) (k : Nat) :
    ∀ (L : List Addr) (acc : Nat), k ≤ acc + (L.map (fun o => seatCount o seats)).sum →
      ∃ A, accept seats k acc L = some A
  | [], acc, h => by
    simp only [List.map_nil, List.sum_nil, Nat.add_zero] at h
    exact ⟨[], by simp [accept, h]⟩
  | o :: rest, acc, h => by
    simp only [accept]
    by_cases hk : k ≤ acc
    · exact ⟨[], by simp [hk]⟩
    · simp only [hk, if_false]
      have : k ≤ acc + seatCount o seats + (rest.map (fun o => seatCount o seats)).sum := by
        simp only [List.map_cons, List.sum_cons] at h; omega
      obtain ⟨A', hA'⟩ := accept_succeeds seats k rest _ this
      exact ⟨o :: A', by simp [hA']⟩

/-- C09 (c), signing: for every real shuffle and every `k ≤ #seats` the selection succeeds and
    keeps at least `k` seats. -/
theorem signing_at_least_k {shuf : Nat → List Nat} (hv : ValidShuf shuf) (seats : List Addr) (k : Nat)
    (hk : k ≤ seats.length) : ∃ res, signing shuf seats k = .ok res ∧ k ≤ res.length := by
  have hperm : (applyPerm (shuf (sortedOps seats).length) (sortedOps seats)).Perm (sortedOps seats) :=
    applyPerm_perm (hv _)
  have hsum : k ≤ 0 + ((applyPerm (shuf (sortedOps seats).length) (sortedOps seats)).map
      (fun o => seatCount o seats)).sum := by
    rw [(hperm.map _).sum_nat, sum_seatCount_sortedOps]; omega
  obtain ⟨A, hA⟩ := accept_succeeds seats k _ 0 hsum
  obtain ⟨hsub, hge⟩ := accept_spec seats k _ 0 A hA
  have hnd : A.Nodup := (hperm.nodup_iff.2 (sortedOps_nodup seats)).sublist hsub
  refine ⟨seats.filter (fun o => A.contains o), ?_, ?_⟩
  · unfold signing
    rw [if_neg (by omega)]
    simp only [hA]
  · rw [length_filter_contains seats A hnd]; omega

/-! ## key generation keeps at least `k` seats (repaired code), and did not before -/

theorem select_excl_sum {shuf seats retry k ex} (h : select false shuf seats retry k = .excl ex) :
    k + (ex.map (fun o => seatCount o seats)).sum ≤ seats.length := by
  unfold select at h
  simp only [] at h
  split at h
  · split at h
    · rename_i a ha
      injection h with h; subst h
      have hm := applyPerm_mem (List.mem_of_getElem? ha)
      simp only [eligible, List.mem_filter, decide_eq_true_eq] at hm
      simp only [List.map_cons, List.map_nil, List.sum_cons, List.sum_nil]
      omega
    · cases h
  · split at h
    · split at h
      · rename_i p hp
        injection h with h; subst h
        have hm := applyPerm_mem (List.mem_of_getElem? hp)
        simp only [eligiblePairs, List.mem_filter, decide_eq_true_eq] at hm
        simp only [List.map_cons, List.map_nil, List.sum_cons, List.sum_nil]
        omega
      · cases h
    · split at h
      · split at h
        · rename_i t ht
          injection h with h; subst h
          have hm := applyPerm_mem (List.mem_of_getElem? ht)
          simp only [eligibleTriplets, List.mem_filter, decide_eq_true_eq] at hm
          simp only [List.map_cons, List.map_nil, List.sum_cons, List.sum_nil]
          have := hm.2
          simp only [Bool.false_eq_true, if_false] at this
          omega
        · cases h
      · cases h

/-- C09 (c), key generation, repaired code: whenever a selection is returned it has at least the
    requested number of seats — for every `shuf`, seat list, retry count and `k`. -/
theorem keygen_at_least_k {shuf seats retry k res} (h : keygen shuf seats retry k = .ok res) :
    k ≤ res.length := by
  unfold keygen keygenGen at h
  split at h
  · cases h
  · split at h
    · rename_i ex hex
      injection h with h; subst h
      have h1 := select_excl_sum hex
      have h2 := length_filter_not_contains seats ex
      omega
    · cases h
    · cases h

/-- the permutations `rand.New(rand.NewSource(0)).Shuffle(n, ·)` applies for `n ≤ 4`
    (as produced by the real generator) -/
def shufSeed0 : Nat → List Nat
  | 3 => [1, 0, 2]
  | 4 => [2, 1, 0, 3]
  | n => List.range n

/-- F4: the code **as it was** (`rightOperator := operators[j]`) returned 1 seat when 3 were
    requested: seats `[a,b,c,d,d,d]`, seed 0, retry 7.  (Replay: `kg 0,1,2,3,3,3 0 7 3 -`.) -/
theorem keygen_triplet_counterexample :
    keygenAsWas shufSeed0 [0, 1, 2, 3, 3, 3] 7 3 = .ok [1] := by decide

/-- …whereas the repaired code rejects that retry count (only one triplet is eligible). -/
theorem keygen_triplet_fixed :
    keygen shufSeed0 [0, 1, 2, 3, 3, 3] 7 3 = .ok [3, 3, 3]
    ∧ keygen shufSeed0 [0, 1, 2, 3, 3, 3] 8 3 = .retries 0 := by decide

/-- What did hold for the code as it was: sub-list and atomicity (`keygen_isSelection` is stated
    for both versions), and the seat bound for the single and pair stages. -/
theorem keygen_at_least_k_partial {shuf seats retry k res}
    (hr : retry < (eligible seats k).length + (eligiblePairs seats (eligible seats k) k).length)
    (h : keygenAsWas shuf seats retry k = .ok res) : k ≤ res.length := by
  have : select true shuf seats retry k = select false shuf seats retry k := by
    unfold select
    simp only []
    split
    · rfl
    · split
      · rfl
      · omega
  unfold keygenAsWas keygenGen at h
  rw [this] at h
  exact keygen_at_least_k (shuf := shuf) (retry := retry) (by unfold keygen keygenGen; exact h)

/-! ## retry bookkeeping -/

/-- number of exclusions enumerated before the error -/
def totalExclusions (asWas : Bool) (seats : List Addr) (k : Nat) : Nat :=
  (eligible seats k).length + (eligiblePairs seats (eligible seats k) k).length
    + (eligibleTriplets asWas seats (eligible seats k) k).length

/-- once every single, pair and triplet has been used the error reports the surplus retries -/
theorem too_many_retries_error (asWas : Bool) (shuf : Nat → List Nat) (seats : List Addr) (retry k : Nat)
    (hk : k ≤ seats.length) (hr : totalExclusions asWas seats k ≤ retry) :
    keygenGen asWas shuf seats retry k = .retries (retry - totalExclusions asWas seats k) := by
  unfold totalExclusions at hr ⊢
  unfold keygenGen select
  simp only []
  rw [if_neg (by omega), if_neg (by omega), if_neg (by omega), if_neg (by omega)]
  simp only [Nat.sub_sub]

/-- singles first, then pairs, then triplets: the stage is determined by the retry count alone. -/
theorem select_stage {asWas shuf seats retry k ex} (h : select asWas shuf seats retry k = .excl ex) :
    (retry < (eligible seats k).length ∧ ex.length = 1)
    ∨ ((eligible seats k).length ≤ retry
        ∧ retry < (eligible seats k).length + (eligiblePairs seats (eligible seats k) k).length
        ∧ ex.length = 2)
    ∨ ((eligible seats k).length + (eligiblePairs seats (eligible seats k) k).length ≤ retry
        ∧ retry < totalExclusions asWas seats k ∧ ex.length = 3) := by
  unfold select at h
  simp only [] at h
  split at h
  · split at h
    · injection h with h; subst h; left; exact ⟨by assumption, rfl⟩
    · cases h
  · split at h
    · split at h
      · injection h with h; subst h; right; left; exact ⟨by omega, by omega, rfl⟩
      · cases h
    · split at h
      · split at h
        · injection h with h; subst h; right; right
          exact ⟨by omega, by unfold totalExclusions; omega, rfl⟩
        · cases h
      · cases h

/-! ## monitor soundness: the monitor accepts every model output -/

theorem filter_contains_filter (seats : List Addr) (p : Addr → Bool) :
    seats.filter (fun o => (seats.filter p).contains o) = seats.filter p := by
  apply List.filter_congr
  intro a ha
  by_cases hp : p a = true
  · simp [hp, ha]
  · simp [hp]

theorem holdsOk_of {seats res k} (hs : IsSelection seats res) (hk : k ≤ res.length) :
    holdsOk seats k res = true := by
  obtain ⟨p, rfl⟩ := hs
  simp only [holdsOk, Bool.and_eq_true, decide_eq_true_eq, beq_iff_eq]
  exact ⟨(filter_contains_filter seats p).symm, hk⟩

/-- the monitor accepts what the signing model returns (for every real shuffle) -/
theorem holds_signing {shuf : Nat → List Nat} (hv : ValidShuf shuf) (seats : List Addr) (k : Nat) :
    holds seats k (signing shuf seats k) = true := by
  by_cases hk : k ≤ seats.length
  · obtain ⟨res, h1, h2⟩ := signing_at_least_k hv seats k hk
    rw [h1]
    exact holdsOk_of (signing_isSelection h1) h2
  · have : signing shuf seats k = .tooMany := by unfold signing; rw [if_pos (by omega)]
    rw [this]; simp [holds]; omega

/-- the monitor accepts what the key-generation model returns unless the model panics, which a real
    shuffle excludes (`keygen_no_panic`). -/
theorem holds_keygen (shuf : Nat → List Nat) (seats : List Addr) (retry k : Nat)
    (hp : keygen shuf seats retry k ≠ .panic) : holds seats k (keygen shuf seats retry k) = true := by
  cases h : keygen shuf seats retry k with
  | ok res => exact holdsOk_of (keygen_isSelection h) (keygen_at_least_k h)
  | tooMany =>
    unfold keygen keygenGen at h
    split at h
    · simp [holds]; assumption
    · split at h <;> cases h
  | retries n =>
    unfold keygen keygenGen at h
    split at h
    · cases h
    · simp [holds]; omega
  | panic => exact absurd h hp

theorem getElem?_applyPerm_isSome {α} {shuf : Nat → List Nat} (hv : ValidShuf shuf) (xs : List α) {i : Nat}
    (hi : i < xs.length) : ∃ x, (applyPerm (shuf xs.length) xs)[i]? = some x := by
  have : i < (applyPerm (shuf xs.length) xs).length := by rw [applyPerm_length hv]; exact hi
  exact ⟨_, List.getElem?_eq_getElem this⟩

/-- with a real shuffle the model never indexes out of range -/
theorem keygen_no_panic {shuf : Nat → List Nat} (hv : ValidShuf shuf) (asWas : Bool) (seats : List Addr)
    (retry k : Nat) : keygenGen asWas shuf seats retry k ≠ .panic := by
  have hsel : select asWas shuf seats retry k ≠ .panic := by
    unfold select
    simp only []
    split
    · rename_i h1
      obtain ⟨x, hx⟩ := getElem?_applyPerm_isSome hv _ h1
      rw [hx]; simp
    · split
      · rename_i h2
        obtain ⟨x, hx⟩ := getElem?_applyPerm_isSome hv _ h2
        rw [hx]; simp
      · split
        · rename_i h3
          obtain ⟨x, hx⟩ := getElem?_applyPerm_isSome hv _ h3
          rw [hx]; simp
        · simp
  unfold keygenGen
  split
  · simp
  · split
    · simp
    · simp
    · rename_i h; exact absurd h hsel

/-! ## determinism: the map iteration order does not matter -/

/-- The code collects the keys of `operatorToSeatCount` in map iteration order and then sorts them.
    Whatever order (`l` = any permutation of the distinct operators) the iteration produced, the
    sorted slice is `sortedOps seats`, the list the model uses. -/
theorem map_order_irrelevant (seats : List Nat) (l : List Nat) (h : l.Perm (sortedOps seats)) :
    l.mergeSort (fun a b => decide (a ≤ b)) = sortedOps seats := by
  apply List.Perm.eq_of_pairwise (le := fun a b => decide (a ≤ b) = true)
  · intro a b _ _ h1 h2
    simp at h1 h2
    exact Nat.le_antisymm h1 h2
  · apply List.pairwise_mergeSort
    · intro a b c h1 h2; simp at h1 h2 ⊢; exact Nat.le_trans h1 h2
    · intro a b; simp; exact Nat.le_total a b
  · exact (sortedOps_sorted seats).imp (fun h => by simpa using Nat.le_of_lt h)
  · exact (List.mergeSort_perm l _).trans h

/-- same for the eligible operators of key generation (filtered during the iteration, then sorted) -/
theorem map_order_irrelevant_eligible (seats : List Nat) (k : Nat) (l : List Nat)
    (h : l.Perm (sortedOps seats)) :
    (l.filter (fun o => decide (k + seatCount o seats ≤ seats.length))).mergeSort
      (fun a b => decide (a ≤ b)) = eligible seats k := by
  apply List.Perm.eq_of_pairwise (le := fun a b => decide (a ≤ b) = true)
  · intro a b _ _ h1 h2
    simp at h1 h2
    exact Nat.le_antisymm h1 h2
  · apply List.pairwise_mergeSort
    · intro a b c h1 h2; simp at h1 h2 ⊢; exact Nat.le_trans h1 h2
    · intro a b; simp; exact Nat.le_total a b
  · exact ((sortedOps_sorted seats).filter _).imp (fun h => by simpa using Nat.le_of_lt h)
  · exact (List.mergeSort_perm _ _).trans (h.filter _)

/-! ## non-vacuity -/

example : ValidShuf (fun n => List.range n) := fun _ => List.Perm.refl _
example : signing (fun n => List.range n) [5, 3, 5, 7] 2 = .ok [5, 5, 3] ∨
          signing (fun n => List.range n) [5, 3, 5, 7] 2 = .ok [5, 3, 5] := by decide
example : keygen (fun n => List.range n) [5, 3, 5, 7] 3 2 = .ok [5, 5] := by decide
example : holds [0, 1, 2, 3, 3, 3] 3 (.ok [1]) = false := by decide
example : holds [0, 1, 2, 3, 3, 3] 3 (.ok [3, 3]) = false := by decide
example : holds [0, 1, 2, 3, 3, 3] 3 (.ok [3, 3, 3]) = true := by decide

/-! ## key-generation retries enumerate distinct exclusions -/

theorem mem_pairIdx {n : Nat} {p : Nat × Nat} : p ∈ pairIdx n ↔ p.1 < p.2 ∧ p.2 < n := by
  obtain ⟨i, j⟩ := p
  simp only [pairIdx, List.mem_flatMap, List.mem_range, List.mem_map, List.mem_filter,
    decide_eq_true_eq, Prod.mk.injEq]
  constructor
  · rintro ⟨a, _, b, ⟨hb, hab⟩, rfl, rfl⟩; exact ⟨hab, hb⟩
  · rintro ⟨h1, h2⟩; exact ⟨i, by omega, j, ⟨h2, h1⟩, rfl, rfl⟩

theorem mem_tripIdx {n : Nat} {t : Nat × Nat × Nat} :
    t ∈ tripIdx n ↔ t.1 < t.2.1 ∧ t.2.1 < t.2.2 ∧ t.2.2 < n := by
  obtain ⟨i, j, l⟩ := t
  simp only [tripIdx, List.mem_flatMap, List.mem_range]
  constructor
  · rintro ⟨a, _, b, _, h⟩
    split at h
    · simp only [List.mem_map, List.mem_filter, List.mem_range, decide_eq_true_eq, Prod.mk.injEq] at h
      obtain ⟨c, ⟨hc, hbc⟩, rfl, rfl, rfl⟩ := h
      exact ⟨by assumption, hbc, hc⟩
    · cases h
  · rintro ⟨h1, h2, h3⟩
    refine ⟨i, by omega, j, by omega, ?_⟩
    rw [if_pos h1]
    exact List.mem_map.2 ⟨l, List.mem_filter.2 ⟨List.mem_range.2 h3, by simpa using h2⟩, rfl⟩

theorem pairIdx_nodup (n : Nat) : (pairIdx n).Nodup := by
  unfold pairIdx List.Nodup
  rw [List.pairwise_flatMap]
  constructor
  · intro i _
    rw [List.pairwise_map]
    exact (List.nodup_range.filter _).imp (fun h he => h (Prod.mk.inj he).2)
  · refine List.pairwise_lt_range.imp ?_
    intro a b hab x hx y hy he
    simp only [List.mem_map] at hx hy
    obtain ⟨_, _, rfl⟩ := hx
    obtain ⟨_, _, rfl⟩ := hy
    have := (Prod.mk.inj he).1
    omega

theorem tripIdx_nodup (n : Nat) : (tripIdx n).Nodup := by
  unfold tripIdx List.Nodup
  rw [List.pairwise_flatMap]
  constructor
  · intro i _
    rw [List.pairwise_flatMap]
    constructor
    · intro j _
      split
      · rw [List.pairwise_map]
        exact (List.nodup_range.filter _).imp (fun h he => h (Prod.mk.inj (Prod.mk.inj he).2).2)
      · exact List.Pairwise.nil
    · refine List.pairwise_lt_range.imp ?_
      intro a b hab x hx y hy he
      split at hx
      · split at hy
        · simp only [List.mem_map] at hx hy
          obtain ⟨_, _, rfl⟩ := hx
          obtain ⟨_, _, rfl⟩ := hy
          have := (Prod.mk.inj (Prod.mk.inj he).2).1
          omega
        · cases hy
      · cases hx
  · refine List.pairwise_lt_range.imp ?_
    intro a b hab x hx y hy he
    simp only [List.mem_flatMap] at hx hy
    obtain ⟨j, _, hx⟩ := hx
    obtain ⟨j', _, hy⟩ := hy
    split at hx
    · split at hy
      · simp only [List.mem_map] at hx hy
        obtain ⟨_, _, rfl⟩ := hx
        obtain ⟨_, _, rfl⟩ := hy
        have := (Prod.mk.inj he).1
        omega
      · cases hy
    · cases hx

theorem eligible_nodup (seats : List Addr) (k : Nat) : (eligible seats k).Nodup :=
  (sortedOps_nodup seats).filter _

/-- two different positions of a shuffled duplicate-free list hold different entries -/
theorem shuffled_entries_distinct {α} {shuf : Nat → List Nat} (hv : ValidShuf shuf) {L : List α}
    (hn : L.Nodup) {r1 r2 : Nat} (hr : r1 ≠ r2) {x1 x2 : α}
    (h1 : (applyPerm (shuf L.length) L)[r1]? = some x1)
    (h2 : (applyPerm (shuf L.length) L)[r2]? = some x2) : x1 ≠ x2 := by
  intro he
  subst he
  have hnd : (applyPerm (shuf L.length) L).Nodup := (applyPerm_perm (hv _)).nodup_iff.2 hn
  have hlt : r1 < (applyPerm (shuf L.length) L).length := by
    rcases Nat.lt_or_ge r1 (applyPerm (shuf L.length) L).length with h | h
    · exact h
    · rw [List.getElem?_eq_none h] at h1; cases h1
  exact hr ((List.getElem?_inj hlt hnd).1 (h1.trans h2.symm))

/-- explicit shape of a successful selection, stage by stage -/
theorem select_cases {asWas shuf seats retry k ex} (h : select asWas shuf seats retry k = .excl ex) :
    (retry < (eligible seats k).length ∧
      ∃ a, (applyPerm (shuf (eligible seats k).length) (eligible seats k))[retry]? = some a ∧ ex = [a])
    ∨ ((eligible seats k).length ≤ retry ∧
        retry - (eligible seats k).length < (eligiblePairs seats (eligible seats k) k).length ∧
        ∃ p, (applyPerm (shuf (eligiblePairs seats (eligible seats k) k).length)
                (eligiblePairs seats (eligible seats k) k))[retry - (eligible seats k).length]? = some p
          ∧ ex = [opAt (eligible seats k) p.1, opAt (eligible seats k) p.2])
    ∨ ((eligible seats k).length + (eligiblePairs seats (eligible seats k) k).length ≤ retry ∧
        ∃ t, (applyPerm (shuf (eligibleTriplets asWas seats (eligible seats k) k).length)
                (eligibleTriplets asWas seats (eligible seats k) k))[retry - (eligible seats k).length
                  - (eligiblePairs seats (eligible seats k) k).length]? = some t
          ∧ ex = [opAt (eligible seats k) t.1, opAt (eligible seats k) t.2.1, opAt (eligible seats k) t.2.2]) := by
  unfold select at h
  simp only [] at h
  split at h
  · split at h
    · rename_i a ha
      injection h with h; subst h; left; exact ⟨by assumption, a, ha, rfl⟩
    · cases h
  · split at h
    · split at h
      · rename_i p hp
        injection h with h; subst h; right; left; exact ⟨by omega, by assumption, p, hp, rfl⟩
      · cases h
    · split at h
      · split at h
        · rename_i t ht
          injection h with h; subst h; right; right
          exact ⟨by omega, t, ht, rfl⟩
        · cases h
      · cases h

/-- the operators a selection excludes are listed in strictly ascending order (so two exclusions
    are the same *set* iff they are the same list) -/
theorem select_excl_sorted {asWas shuf seats retry k ex} (h : select asWas shuf seats retry k = .excl ex) :
    ex.Pairwise (· < ·) := by
  have hsorted : (eligible seats k).Pairwise (· < ·) := (sortedOps_sorted seats).filter _
  have key : ∀ {i j : Nat}, i < j → j < (eligible seats k).length →
      opAt (eligible seats k) i < opAt (eligible seats k) j := by
    intro i j hij hj
    have := (List.pairwise_iff_getElem.1 hsorted) i j (by omega) hj hij
    simpa [opAt, List.getD_eq_getElem?_getD, List.getElem?_eq_getElem hj,
      List.getElem?_eq_getElem (show i < (eligible seats k).length by omega)] using this
  rcases select_cases h with ⟨_, a, _, rfl⟩ | ⟨_, _, p, hp, rfl⟩ | ⟨_, t, ht, rfl⟩
  · simp
  · have hm := applyPerm_mem (List.mem_of_getElem? hp)
    have := mem_pairIdx.1 (List.mem_filter.1 hm).1
    simp only [List.pairwise_cons, List.mem_cons, List.mem_nil_iff, or_false, forall_eq,
      List.not_mem_nil, false_imp_iff, implies_true, List.Pairwise.nil, and_true]
    exact key this.1 this.2
  · have hm := applyPerm_mem (List.mem_of_getElem? ht)
    have := mem_tripIdx.1 (List.mem_filter.1 hm).1
    simp only [List.pairwise_cons, List.mem_cons, List.mem_nil_iff, or_false, forall_eq,
      List.not_mem_nil, false_imp_iff, implies_true, List.Pairwise.nil, and_true, forall_eq_or_imp]
    exact ⟨⟨key this.1 (by omega), key (by omega) this.2.2⟩, key this.2.1 this.2.2⟩

theorem opAt_inj {ops : List Addr} (hn : ops.Nodup) {i j : Nat} (hi : i < ops.length) (hj : j < ops.length)
    (h : opAt ops i = opAt ops j) : i = j :=
  (List.getD_inj hi hj hn).1 h

/-- C09: key generation retries enumerate **distinct** exclusions.  For every real shuffle, two
    different retry counts that both yield a selection exclude different operator sets (the lists
    are ascending by `select_excl_sorted`, so different lists are different sets); singles come
    before pairs before triplets (`select_stage`), each at most once. -/
theorem exclusions_distinct {shuf : Nat → List Nat} (hv : ValidShuf shuf) {asWas : Bool}
    {seats : List Addr} {k r1 r2 : Nat} {e1 e2 : List Addr} (hr : r1 ≠ r2)
    (h1 : select asWas shuf seats r1 k = .excl e1) (h2 : select asWas shuf seats r2 k = .excl e2) :
    e1 ≠ e2 := by
  have hops := eligible_nodup seats k
  rcases select_cases h1 with ⟨_, a1, ha1, rfl⟩ | ⟨hl1, _, p1, hp1, rfl⟩ | ⟨hl1, t1, ht1, rfl⟩ <;>
  rcases select_cases h2 with ⟨_, a2, ha2, rfl⟩ | ⟨hl2, _, p2, hp2, rfl⟩ | ⟨hl2, t2, ht2, rfl⟩ <;>
  intro he
  · have := shuffled_entries_distinct hv hops hr ha1 ha2
    exact this (List.cons.inj he).1
  · simpa using congrArg List.length he
  · simpa using congrArg List.length he
  · simpa using congrArg List.length he
  · have hnd : (eligiblePairs seats (eligible seats k) k).Nodup := (pairIdx_nodup _).filter _
    have hne := shuffled_entries_distinct hv hnd (by omega) hp1 hp2
    have m1 := mem_pairIdx.1 (List.mem_filter.1 (applyPerm_mem (List.mem_of_getElem? hp1))).1
    have m2 := mem_pairIdx.1 (List.mem_filter.1 (applyPerm_mem (List.mem_of_getElem? hp2))).1
    simp only [List.cons.injEq, and_true] at he
    have e1 := opAt_inj hops (by omega) (by omega) he.1
    have e2 := opAt_inj hops m1.2 m2.2 he.2
    exact hne (Prod.ext e1 e2)
  · simpa using congrArg List.length he
  · simpa using congrArg List.length he
  · simpa using congrArg List.length he
  · have hnd : (eligibleTriplets asWas seats (eligible seats k) k).Nodup := (tripIdx_nodup _).filter _
    have hne := shuffled_entries_distinct hv hnd (by omega) ht1 ht2
    have m1 := mem_tripIdx.1 (List.mem_filter.1 (applyPerm_mem (List.mem_of_getElem? ht1))).1
    have m2 := mem_tripIdx.1 (List.mem_filter.1 (applyPerm_mem (List.mem_of_getElem? ht2))).1
    simp only [List.cons.injEq, and_true] at he
    have e1 := opAt_inj hops (by omega) (by omega) he.1
    have e2 := opAt_inj hops (by omega) (by omega) he.2.1
    have e3 := opAt_inj hops m1.2.2 m2.2.2 he.2.2
    exact hne (Prod.ext e1 (Prod.ext e2 e3))

end KeepVerif.C09
