import KeepVerif.Model.C35
import KeepVerif.Gen.C35
/-!
# C35 — Signing completes only when every included member confirmed the same signature

Theorems over `Model/C35.lean`, for every history of done messages and ticks (`List Ev`).
-/
namespace KeepVerif.C35

/-! ## Source tie (T1) -/

/-- atomic semantics (ticks and receives are mutually exclusive steps) is the semantics of the
    source iff every read of `doneSigners` in the wait loop is under `doneSignersMutex`
    (go/ast lock-set fact, re-extracted on every run). -/
inductive Sem | atomic | racy
  deriving DecidableEq

def semOfCode : Sem := if Gen.C35.waitLoopReadsGuarded then .atomic else .racy

theorem tie_wait_loop_locked : semOfCode = .atomic := by decide

/-! ## The defect of the unrepaired code -/

/-- **excluded_member_counts**: before the repair, with members {1,2,3} included in the attempt,
    confirmations from 1, 2 and the *excluded* member 4 complete the check: a signature is
    reported although member 3 never confirmed. -/
theorem excluded_member_counts :
    let p : Params := ⟨[1, 2, 3, 4], [1, 2, 3], 100, 2, 1000⟩
    runWait .old p [] [.recv ⟨1, 1, 100, 2, 7, 501⟩, .recv ⟨2, 2, 100, 2, 7, 502⟩,
      .recv ⟨4, 4, 100, 2, 7, 504⟩, .tick]
      = (.success 7 504, [⟨1, 1, 100, 2, 7, 501⟩, ⟨2, 2, 100, 2, 7, 502⟩, ⟨4, 4, 100, 2, 7, 504⟩]) := by
  decide

/-- the same history under the repaired code: no result. -/
example :
    let p : Params := ⟨[1, 2, 3, 4], [1, 2, 3], 100, 2, 1000⟩
    (runWait .fixed p [] [.recv ⟨1, 1, 100, 2, 7, 501⟩, .recv ⟨2, 2, 100, 2, 7, 502⟩,
      .recv ⟨4, 4, 100, 2, 7, 504⟩, .tick]).1 = .timeout := by
  decide

/-- **stale_listener_counts**: before the repair of `listen` (previous receiver not closed): attempt 1
    = {1,2,3} fails before `waitUntilAllDone`; attempt 2 = {1,2,4} listens; the late confirmations
    of members 1, 2, 4 *for attempt 1* are recorded by the stale listener and complete attempt 2:
    a signature is reported for attempt 2 that nobody confirmed for attempt 2.  (Under the repaired
    code the same messages are rejected: second part.) -/
theorem stale_listener_counts :
    let a1 : Params := ⟨[1, 2, 3, 4], [1, 2, 3], 5, 1, 600⟩
    let a2 : Params := ⟨[1, 2, 3, 4], [1, 2, 4], 5, 2, 700⟩
    let late : List Msg := [⟨1, 1, 5, 1, 7, 500⟩, ⟨2, 2, 5, 1, 7, 510⟩, ⟨4, 4, 5, 1, 7, 520⟩]
    check .fixed a2 (late.foldl (receiveStale a1 a2) []) = some (.success 7 520) ∧
    (scenario .fixed a2 late []).1 = .timeout := by
  decide

/-! ## Invariant of the recorded confirmations -/

structure Inv (v : Variant) (p : Params) (evs : List Ev) (done : Done) : Prop where
  nodup : (done.map (·.sender)).Nodup
  wf : ∀ m ∈ done, wellFormed p m = true
  recvd : ∀ m ∈ done, Ev.recv m ∈ evs
  incl : v = .fixed → ∀ m ∈ done, m.sender ∈ p.included

theorem inv_receive {v p evs done} (m : Msg) (h : Inv v p evs done) (hm : Ev.recv m ∈ evs) :
    Inv v p evs (receive v p done m) := by
  unfold receive
  split
  · rename_i hv
    unfold isValid at hv
    simp only [Bool.and_eq_true, Bool.not_eq_true', List.any_eq_false, beq_iff_eq] at hv
    obtain ⟨⟨h1, h2⟩, h3⟩ := hv
    refine ⟨?_, ?_, ?_, ?_⟩
    · rw [List.map_append, List.nodup_append]
      refine ⟨h.nodup, by simp, ?_⟩
      intro a ha b hb
      simp only [List.map_cons, List.map_nil, List.mem_singleton] at hb
      subst hb
      simp only [List.mem_map] at ha
      obtain ⟨x, hx, rfl⟩ := ha
      exact fun e => h1 x hx e
    · intro x hx
      simp only [List.mem_append, List.mem_singleton] at hx
      rcases hx with hx | rfl
      · exact h.wf x hx
      · exact h3
    · intro x hx
      simp only [List.mem_append, List.mem_singleton] at hx
      rcases hx with hx | rfl
      · exact h.recvd x hx
      · exact hm
    · intro hv x hx
      simp only [List.mem_append, List.mem_singleton] at hx
      rcases hx with hx | rfl
      · exact h.incl hv x hx
      · subst hv; simpa using h2
  · exact h

theorem inv_runWait {v p} (all : List Ev) (evs : List Ev) (done : Done)
    (hsub : ∀ e ∈ evs, e ∈ all) (h : Inv v p all done) :
    Inv v p all (runWait v p done evs).2 := by
  induction evs generalizing done with
  | nil => exact h
  | cons e rest ih =>
    have hrest : ∀ e ∈ rest, e ∈ all := fun e he => hsub e (by simp [he])
    cases e with
    | recv m =>
      simp only [runWait]
      exact ih _ hrest (inv_receive m h (hsub _ (by simp)))
    | tick =>
      simp only [runWait]
      split
      · exact h
      · exact ih _ hrest h

/-- at the deciding tick the outcome is `check` of the recorded confirmations -/
theorem runWait_success_check {v p} (evs : List Ev) (done : Done) (o : Outcome)
    (ho : o ≠ .timeout) (h : (runWait v p done evs).1 = o) :
    check v p (runWait v p done evs).2 = some o := by
  induction evs generalizing done with
  | nil => simp [runWait] at h; exact absurd h.symm ho
  | cons e rest ih =>
    cases e with
    | recv m => simp only [runWait] at h ⊢; exact ih _ h
    | tick =>
      cases hc : check v p done with
      | some o' =>
        simp only [runWait, hc] at h ⊢
        rw [h]
      | none =>
        simp only [runWait, hc] at h ⊢
        exact ih _ h

/-! ## `check` facts -/

theorem maxEnd_ge (done : Done) : ∀ m ∈ done, m.endBlock ≤ maxEnd done := by
  induction done with
  | nil => simp
  | cons a rest ih =>
    intro m hm
    simp only [List.mem_cons] at hm
    simp only [maxEnd]
    rcases hm with rfl | hm
    · exact Nat.le_max_left _ _
    · exact Nat.le_trans (ih m hm) (Nat.le_max_right _ _)

theorem maxEnd_attained (done : Done) (h : done ≠ []) : ∃ m ∈ done, m.endBlock = maxEnd done := by
  induction done with
  | nil => exact absurd rfl h
  | cons a rest ih =>
    simp only [maxEnd]
    by_cases hr : rest = []
    · subst hr; exact ⟨a, by simp, by simp [maxEnd]⟩
    · obtain ⟨m, hm, e⟩ := ih hr
      by_cases hle : maxEnd rest ≤ a.endBlock
      · exact ⟨a, by simp, by rw [Nat.max_eq_left hle]⟩
      · exact ⟨m, by simp [hm], by rw [e, Nat.max_eq_right (by omega)]⟩

theorem check_success {v p done sig eb} (h : check v p done = some (.success sig eb)) :
    expectedCount v p = done.length ∧ (∀ m ∈ done, m.sig = sig) ∧ eb = maxEnd done ∧
      (done = [] → sig = 0) := by
  unfold check at h
  split at h
  · cases h
  · rename_i hc
    have hc' : expectedCount v p = done.length := by simpa using hc
    cases done with
    | nil => simp at h; obtain ⟨rfl, rfl⟩ := h; simp [hc', maxEnd]
    | cons m rest =>
      simp only at h
      split at h
      · rename_i hall
        simp only [Option.some.injEq, Outcome.success.injEq] at h
        obtain ⟨rfl, rfl⟩ := h
        refine ⟨hc', ?_, rfl, by simp⟩
        intro x hx
        simp only [List.mem_cons] at hx
        rcases hx with rfl | hx
        · rfl
        · simp only [List.all_eq_true, beq_iff_eq] at hall; exact hall x hx
      · cases h

/-! ## Counting -/

theorem mem_distinct (l : List Nat) (x : Nat) : x ∈ distinct l ↔ x ∈ l := by
  induction l with
  | nil => simp [distinct]
  | cons a rest ih =>
    simp only [distinct]
    split
    · rename_i h; simp only [ih, List.mem_cons]
      constructor
      · exact Or.inr
      · rintro (rfl | h'); exact h; exact h'
    · simp [ih]

theorem nodup_distinct (l : List Nat) : (distinct l).Nodup := by
  induction l with
  | nil => simp [distinct]
  | cons a rest ih =>
    simp only [distinct]
    split
    · exact ih
    · rename_i h
      exact List.nodup_cons.2 ⟨fun h' => h ((mem_distinct rest a).1 h'), ih⟩

/-- pigeonhole: a duplicate-free list inside a duplicate-free list of no greater length is all of it -/
theorem subset_of_nodup_length_le : ∀ (l s : List Nat), l.Nodup → s.Nodup → (∀ x ∈ l, x ∈ s) →
    s.length ≤ l.length → ∀ x ∈ s, x ∈ l
  | [], s, _, _, _, hlen => by
    have : s = [] := List.eq_nil_of_length_eq_zero (by simpa using hlen)
    subst this; simp
  | a :: l', s, hl, hs, hsub, hlen => by
    have ha : a ∈ s := hsub a (by simp)
    have hl' := List.nodup_cons.1 hl
    have hsub' : ∀ x ∈ l', x ∈ s.erase a := by
      intro x hx
      have hne : x ≠ a := fun e => hl'.1 (e ▸ hx)
      exact (List.mem_erase_of_ne hne).2 (hsub x (by simp [hx]))
    have hlen' : (s.erase a).length ≤ l'.length := by
      rw [List.length_erase_of_mem ha]; simp at hlen; omega
    have ih := subset_of_nodup_length_le l' (s.erase a) hl'.2 (hs.erase a) hsub' hlen'
    intro x hx
    by_cases hxa : x = a
    · simp [hxa]
    · exact List.mem_cons_of_mem _ (ih x ((List.mem_erase_of_ne hxa).2 hx))

/-! ## The property -/

/-- **done_only_all_included** (the code as it is now).  For every history of received done
    messages and ticks, in any order: if `waitUntilAllDone` reports signature `sig` and end block
    `eb`, then the recorded confirmations `done` are exactly one per included member and from no
    one else; each was really received, comes from the operator holding that seat, is for this
    message and attempt, has an end block within the attempt timeout and carries the reported
    signature; and the reported end block is the latest of theirs. -/
theorem done_only_all_included (p : Params) (evs : List Ev) (sig eb : Nat)
    (h : (runWait .fixed p [] evs).1 = .success sig eb) :
    let done := (runWait .fixed p [] evs).2
    (∀ i ∈ p.included, ∃ m ∈ done, m.sender = i) ∧
    (∀ m ∈ done, m.sender ∈ p.included) ∧
    (done.map (·.sender)).Nodup ∧
    (∀ m ∈ done, Ev.recv m ∈ evs ∧ validMembership p.operators m.sender m.op = true ∧
      m.message = p.message ∧ m.attempt = p.attempt ∧ m.endBlock ≤ p.timeout ∧
      m.sig = sig ∧ m.sig ≠ 0) ∧
    (∀ m ∈ done, m.endBlock ≤ eb) ∧ (done ≠ [] → ∃ m ∈ done, m.endBlock = eb) := by
  intro done
  have hI : Inv .fixed p evs done :=
    inv_runWait evs evs [] (fun _ h => h) ⟨by simp, by simp, by simp, by simp⟩
  have hc := runWait_success_check evs [] (.success sig eb) (by simp) h
  obtain ⟨hlen, hsig, heb, _⟩ := check_success hc
  refine ⟨?_, hI.incl rfl, hI.nodup, ?_, ?_, ?_⟩
  · intro i hi
    have hsub : ∀ x ∈ done.map (·.sender), x ∈ distinct p.included := by
      intro x hx
      simp only [List.mem_map] at hx
      obtain ⟨m, hm, rfl⟩ := hx
      exact (mem_distinct _ _).2 (hI.incl rfl m hm)
    have := subset_of_nodup_length_le (done.map (·.sender)) (distinct p.included) hI.nodup
      (nodup_distinct _) hsub (by rw [List.length_map]; exact Nat.le_of_eq hlen) i
      ((mem_distinct _ _).2 hi)
    simp only [List.mem_map] at this
    obtain ⟨m, hm, e⟩ := this
    exact ⟨m, hm, e⟩
  · intro m hm
    have hw := hI.wf m hm
    simp only [wellFormed, Bool.and_eq_true, beq_iff_eq, decide_eq_true_eq, bne_iff_ne, ne_eq] at hw
    exact ⟨hI.recvd m hm, hw.1.1.1.1, hw.1.1.1.2, hw.1.1.2, hw.1.2, hsig m hm, hw.2⟩
  · intro m hm; rw [heb]; exact maxEnd_ge _ m hm
  · intro hne; rw [heb]; exact maxEnd_attained _ hne

/-- **done_partial** (holds for the code before the repair as well): a reported signature means
    as many distinct senders as the attempt has members confirmed, each with a valid membership,
    matching message and attempt, end block within the timeout and the reported signature; the
    reported end block is the latest of theirs.  Gap to the property (closed by the repair, see
    `done_only_all_included`): the senders need not be the *included* members. -/
theorem done_partial (v : Variant) (p : Params) (evs : List Ev) (sig eb : Nat)
    (h : (runWait v p [] evs).1 = .success sig eb) :
    let done := (runWait v p [] evs).2
    done.length = expectedCount v p ∧ (done.map (·.sender)).Nodup ∧
    (∀ m ∈ done, Ev.recv m ∈ evs ∧ wellFormed p m = true ∧ m.sig = sig) ∧
    (∀ m ∈ done, m.endBlock ≤ eb) ∧ (done ≠ [] → ∃ m ∈ done, m.endBlock = eb) := by
  intro done
  have hI : Inv v p evs done :=
    inv_runWait evs evs [] (fun _ h => h) ⟨by simp, by simp, by simp, by simp⟩
  have hc := runWait_success_check evs [] (.success sig eb) (by simp) h
  obtain ⟨hlen, hsig, heb, _⟩ := check_success hc
  refine ⟨hlen.symm, hI.nodup, fun m hm => ⟨hI.recvd m hm, hI.wf m hm, hsig m hm⟩, ?_, ?_⟩
  · intro m hm; rw [heb]; exact maxEnd_ge _ m hm
  · intro hne; rw [heb]; exact maxEnd_attained _ hne

/-- **complete_stable**: once one confirmation per included member is recorded, no further message
    changes the recorded confirmations — so it does not matter at which tick after completion the
    waiter looks (ticks racing with late messages cannot change the result). -/
theorem complete_stable (p : Params) (all : List Ev) (done : Done) (hI : Inv .fixed p all done)
    (hlen : expectedCount .fixed p = done.length) (m : Msg) :
    receive .fixed p done m = done := by
  unfold receive
  split
  · rename_i hv
    exfalso
    unfold isValid at hv
    simp only [Bool.and_eq_true, Bool.not_eq_true', List.any_eq_false, beq_iff_eq,
      List.contains_iff_mem] at hv
    obtain ⟨⟨h1, h2⟩, _⟩ := hv
    have hsub : ∀ x ∈ done.map (·.sender), x ∈ distinct p.included := by
      intro x hx
      simp only [List.mem_map] at hx
      obtain ⟨m', hm', rfl⟩ := hx
      exact (mem_distinct _ _).2 (hI.incl rfl m' hm')
    have := subset_of_nodup_length_le (done.map (·.sender)) (distinct p.included) hI.nodup
      (nodup_distinct _) hsub (by rw [List.length_map]; exact Nat.le_of_eq hlen) m.sender
      ((mem_distinct _ _).2 (by simpa using h2))
    simp only [List.mem_map] at this
    obtain ⟨x, hx, e⟩ := this
    exact h1 x hx e
  · rfl

/-! ## Map iteration order -/

theorem maxEnd_perm {a b : Done} (h : a.Perm b) : maxEnd a = maxEnd b := by
  induction h with
  | nil => rfl
  | cons x _ ih => simp [maxEnd, ih]
  | swap x y l => simp only [maxEnd]; omega
  | trans _ _ ih1 ih2 => exact ih1.trans ih2

/-- all recorded confirmations carry the same signature -/
def AllSame (done : Done) : Prop := ∀ a ∈ done, ∀ b ∈ done, a.sig = b.sig

theorem all_iff_allSame (m : Msg) (rest : Done) :
    rest.all (·.sig == m.sig) = true ↔ AllSame (m :: rest) := by
  simp only [List.all_eq_true, beq_iff_eq, AllSame, List.mem_cons]
  constructor
  · intro h a ha b hb
    have ea : a.sig = m.sig := by rcases ha with rfl | ha; rfl; exact h a ha
    have eb : b.sig = m.sig := by rcases hb with rfl | hb; rfl; exact h b hb
    rw [ea, eb]
  · intro h x hx
    exact h x (Or.inr hx) m (Or.inl rfl)

/-- **check_perm**: `checkAllDone` iterates the Go map `doneSigners` in an unspecified order.
    Whatever that order is (any permutation `done'` of the recorded confirmations), the result is
    the same: complete or not, mismatch or not, the reported signature and the end block. -/
theorem check_perm (v : Variant) (p : Params) {done done' : Done} (h : done.Perm done') :
    check v p done' = check v p done := by
  unfold check
  rw [h.length_eq]
  split
  · rfl
  · cases done with
    | nil => rw [List.nil_perm.mp h]
    | cons m rest =>
      cases done' with
      | nil => exact absurd h.length_eq (by simp)
      | cons m' rest' =>
        simp only
        have hmem : ∀ x, x ∈ m :: rest ↔ x ∈ m' :: rest' := fun x => h.mem_iff
        have hsame : AllSame (m' :: rest') ↔ AllSame (m :: rest) := by
          unfold AllSame
          constructor
          · intro hh a ha b hb; exact hh a ((hmem a).1 ha) b ((hmem b).1 hb)
          · intro hh a ha b hb; exact hh a ((hmem a).2 ha) b ((hmem b).2 hb)
        by_cases hs : AllSame (m :: rest)
        · have e1 : rest.all (·.sig == m.sig) = true := (all_iff_allSame m rest).2 hs
          have e2 : rest'.all (·.sig == m'.sig) = true := (all_iff_allSame m' rest').2 (hsame.2 hs)
          have esig : m'.sig = m.sig := hs m' ((hmem m').2 (by simp)) m (by simp)
          rw [if_pos e2, if_pos e1, esig, maxEnd_perm h]
        · have e1 : ¬ rest.all (·.sig == m.sig) = true := fun e => hs ((all_iff_allSame m rest).1 e)
          have e2 : ¬ rest'.all (·.sig == m'.sig) = true :=
            fun e => hs (hsame.1 ((all_iff_allSame m' rest').1 e))
          rw [if_neg e2, if_neg e1]

/-- the wait loop with an arbitrary iteration order at every tick: `ord` maps the recorded
    confirmations to the order in which the map happens to be iterated -/
def runWaitOrd (v : Variant) (p : Params) (ord : Done → Done) : Done → List Ev → Outcome × Done
  | done, [] => (.timeout, done)
  | done, .recv m :: rest => runWaitOrd v p ord (receive v p done m) rest
  | done, .tick :: rest =>
    match check v p (ord done) with
    | some o => (o, done)
    | none => runWaitOrd v p ord done rest

/-- **runWait_order_independent**: for every iteration-order function that permutes the recorded
    confirmations, the wait loop returns exactly what the arrival-order model returns — so all
    theorems about `runWait` hold for the Go map. -/
theorem runWait_order_independent (v : Variant) (p : Params) (ord : Done → Done)
    (hord : ∀ d : Done, List.Perm d (ord d)) (done : Done) (evs : List Ev) :
    runWaitOrd v p ord done evs = runWait v p done evs := by
  induction evs generalizing done with
  | nil => rfl
  | cons e rest ih =>
    cases e with
    | recv m => simp only [runWaitOrd, runWait]; exact ih _
    | tick =>
      simp only [runWaitOrd, runWait]
      rw [check_perm v p (hord done)]
      cases check v p done with
      | some o => rfl
      | none => exact ih _

/-! ## Monitor tie -/

theorem length_le_of_nodup_subset : ∀ (l s : List Nat), l.Nodup → (∀ x ∈ l, x ∈ s) →
    l.length ≤ s.length
  | [], _, _, _ => by simp
  | a :: l', s, hl, hsub => by
    have ha : a ∈ s := hsub a (by simp)
    have hl' := List.nodup_cons.1 hl
    have hsub' : ∀ x ∈ l', x ∈ s.erase a := by
      intro x hx
      have hne : x ≠ a := fun e => hl'.1 (e ▸ hx)
      exact (List.mem_erase_of_ne hne).2 (hsub x (by simp [hx]))
    have ih := length_le_of_nodup_subset l' (s.erase a) hl'.2 hsub'
    rw [List.length_erase_of_mem ha] at ih
    have : 0 < s.length := List.length_pos_of_mem ha
    simp only [List.length_cons]; omega

/-- The monitor accepts every output of the model on the harness scenario (correspondence on the
    outputs + this ⇒ the property holds on what the implementation reported). -/
theorem holds_scenario (p : Params) (A B : List Msg) :
    holds p (A ++ B) (scenario .fixed p A B).1 (scenario .fixed p A B).2 = true := by
  unfold scenario
  generalize hevs : (A ++ B).map Ev.recv ++ [Ev.tick] = evs
  simp only
  have hI : Inv .fixed p evs (runWait .fixed p [] evs).2 :=
    inv_runWait evs evs [] (fun _ h => h) ⟨by simp, by simp, by simp, by simp⟩
  have hmem : ∀ m, Ev.recv m ∈ evs → m ∈ A ++ B := by
    intro m hm
    rw [← hevs] at hm
    simp only [List.mem_append, List.mem_map, List.mem_singleton, reduceCtorEq, or_false] at hm
    obtain ⟨x, hx, e⟩ := hm
    cases e
    simpa using hx
  have hcnt : (runWait .fixed p [] evs).2.length ≤ (distinct p.included).length := by
    have := length_le_of_nodup_subset _ (distinct p.included) hI.nodup (by
      intro x hx
      simp only [List.mem_map] at hx
      obtain ⟨m, hm, rfl⟩ := hx
      exact (mem_distinct _ _).2 (hI.incl rfl m hm))
    simpa using this
  unfold holds
  simp only [Bool.and_eq_true, decide_eq_true_eq]
  refine ⟨hcnt, ?_⟩
  cases ho : (runWait .fixed p [] evs).1 with
  | timeout => rfl
  | mismatch => rfl
  | success sig eb =>
    simp only
    obtain ⟨hcov, hincl, _, hprops, hle, hatt⟩ := done_only_all_included p evs sig eb ho
    have hc := runWait_success_check evs [] (.success sig eb) (by simp) ho
    obtain ⟨_, _, heb, hnil⟩ := check_success hc
    by_cases hemp : p.included = []
    · have hd : (runWait .fixed p [] evs).2 = [] := by
        cases hdn : (runWait .fixed p [] evs).2 with
        | nil => rfl
        | cons m rest =>
          have := hincl m (by rw [hdn]; simp)
          rw [hemp] at this; simp at this
      simp [hemp, hnil hd, heb, hd, maxEnd]
    · have hne : p.included.isEmpty = false := by
        cases hi : p.included with
        | nil => exact absurd hi hemp
        | cons _ _ => rfl
      simp only [hne, Bool.false_eq_true, if_false, Bool.and_eq_true, bne_iff_ne, ne_eq,
        List.all_eq_true, List.any_eq_true, decide_eq_true_eq, beq_iff_eq]
      have good : ∀ m ∈ (runWait .fixed p [] evs).2, goodFrom p m.sender sig m = true := by
        intro m hm
        have := hprops m hm
        simp only [goodFrom, Bool.and_eq_true, beq_iff_eq]
        exact ⟨⟨trivial, hI.wf m hm⟩, this.2.2.2.2.2.1⟩
      obtain ⟨i0, hi0⟩ : ∃ i, i ∈ p.included := by
        cases hi : p.included with
        | nil => exact absurd hi hemp
        | cons a _ => exact ⟨a, by simp⟩
      refine ⟨⟨?_, ?_⟩, ?_⟩
      · obtain ⟨m, hm, _⟩ := hcov i0 hi0
        have := hprops m hm
        intro e; exact this.2.2.2.2.2.2 (this.2.2.2.2.2.1.trans e)
      · intro i hi
        obtain ⟨m, hm, e⟩ := hcov i hi
        exact ⟨m, hmem m (hprops m hm).1, by rw [← e]; exact good m hm, hle m hm⟩
      · have hdne : (runWait .fixed p [] evs).2 ≠ [] := by
          obtain ⟨m, hm, _⟩ := hcov i0 hi0
          intro e; rw [e] at hm; simp at hm
        obtain ⟨m, hm, e⟩ := hatt hdne
        exact ⟨m.sender, hincl m hm, m, hmem m (hprops m hm).1, good m hm, e⟩

example : holds ⟨[1, 2, 3, 4], [1, 2, 3], 100, 2, 1000⟩
    [⟨1, 1, 100, 2, 7, 501⟩, ⟨2, 2, 100, 2, 7, 502⟩, ⟨4, 4, 100, 2, 7, 504⟩] (.success 7 504) 3
    = false := by decide
example : holds ⟨[1, 2, 3, 4], [1, 2, 3], 100, 2, 1000⟩
    [⟨1, 1, 100, 2, 7, 501⟩, ⟨2, 2, 100, 2, 7, 502⟩, ⟨3, 3, 100, 2, 7, 504⟩] (.success 7 504) 3
    = true := by decide

/-! ## Non-vacuity -/

example :
    let p : Params := ⟨[1, 2, 3, 1], [1, 3, 4], 100, 2, 600⟩
    runWait .fixed p [] [.recv ⟨1, 1, 100, 2, 7, 501⟩, .tick, .recv ⟨2, 2, 100, 2, 7, 502⟩,
      .recv ⟨3, 3, 100, 2, 7, 590⟩, .recv ⟨3, 3, 100, 2, 8, 400⟩, .recv ⟨4, 2, 100, 2, 7, 505⟩, .tick,
      .recv ⟨4, 1, 100, 2, 7, 504⟩, .tick]
      = (.success 7 590, [⟨1, 1, 100, 2, 7, 501⟩, ⟨3, 3, 100, 2, 7, 590⟩, ⟨4, 1, 100, 2, 7, 504⟩]) := by
  decide

end KeepVerif.C35
