import KeepVerif.Model.C45
import KeepVerif.Gen.C45
/-!
# C45 — background generation pauses while a protocol runs

All theorems are over `runSteps s steps` for an arbitrary list of atomic steps, i.e. over every
schedule of every number of threads calling `Lock`, `Unlock`, `checkProtocols`, `compute`.
-/
namespace KeepVerif.C45

/-- T1 lock-set facts extracted from the source on every run: the atomic steps of the model are
    exactly the sections the code runs under the respective mutex. -/
theorem lockset_facts :
    (Gen.C45.latchLockLocked && Gen.C45.latchUnlockLocked && Gen.C45.latchIsExecutingLocked &&
     Gen.C45.checkHoldsProtocolsMutex && Gen.C45.registerHoldsProtocolsMutex &&
     Gen.C45.stopHoldsWorkMutex && Gen.C45.resumeHoldsWorkMutex && Gen.C45.computeHoldsWorkMutex) = true := by
  decide

/-! ## the latch counts nested executions -/

/-- one latch: `true` = Lock, `false` = Unlock; `none` = the Unlock panic. -/
def latchRun : Nat → List Bool → Option Nat
  | c, [] => some c
  | c, true :: r => latchRun (c + 1) r
  | 0, false :: _ => none
  | c + 1, false :: r => latchRun c r

theorem latchRun_count (c0 : Nat) (l : List Bool) (c : Nat) (h : latchRun c0 l = some c) :
    c + l.count false = c0 + l.count true := by
  induction l generalizing c0 with
  | nil => simp [latchRun] at h; simp [h]
  | cons b l ih =>
    cases b
    · cases c0 with
      | zero => simp [latchRun] at h
      | succ k => have := ih k (by simpa [latchRun] using h); simp; omega
    · have := ih (c0 + 1) (by simpa [latchRun] using h); simp; omega

/-- C45 nested counting: after any panic-free sequence of Lock/Unlock calls `IsExecuting`
    (`counter != 0`) is true exactly when more Locks than Unlocks happened. -/
theorem nested_counted (l : List Bool) (c : Nat) (h : latchRun 0 l = some c) :
    c = l.count true - l.count false ∧ (c ≠ 0 ↔ l.count true > l.count false) := by
  have := latchRun_count 0 l c h
  omega

/-! ## scheduler invariant under every schedule -/

structure Inv (s : St) : Prop where
  liveEq : s.live = s.stops
  stoppedClear : s.working = false → s.stops = []
  workingAll : s.working = true → s.stops.length = s.workers

theorem inv_init (n : Nat) : Inv (init n) := by constructor <;> simp [init]

theorem startWorkers_spec (k : Nat) (s : St) :
    (startWorkers k s).working = s.working ∧ (startWorkers k s).workers = s.workers ∧
    (startWorkers k s).counters = s.counters ∧ (startWorkers k s).chk = s.chk ∧
    (startWorkers k s).panics = s.panics ∧
    (startWorkers k s).stops.length = s.stops.length + k ∧
    (s.live = s.stops → (startWorkers k s).live = (startWorkers k s).stops) := by
  induction k generalizing s with
  | zero => simp [startWorkers]
  | succ k ih =>
    obtain ⟨a, b, c, d, e, f, g⟩ := ih (startWorker s)
    simp only [startWorkers]
    refine ⟨a, b, c, d, e, ?_, ?_⟩
    · rw [f]; simp [startWorker]; omega
    · intro h; apply g; simp [startWorker, h]

theorem inv_doStop {s : St} (h : Inv s) : Inv (doStop s) ∧ (doStop s).working = false := by
  unfold doStop
  split
  · refine ⟨?_, rfl⟩
    constructor <;> simp [h.liveEq]
  · rename_i hw
    exact ⟨h, by simpa using hw⟩

theorem inv_doStop_working (s : St) : (doStop s).working = false := by
  unfold doStop; split
  · rfl
  · rename_i hw; simpa using hw

theorem inv_doResume_working (s : St) : (doResume s).working = true := by
  unfold doResume; split
  · rename_i hw; exact hw
  · exact (startWorkers_spec _ _).1

theorem inv_doResume {s : St} (h : Inv s) : Inv (doResume s) ∧ (doResume s).working = true := by
  unfold doResume
  split
  · rename_i hw; exact ⟨h, hw⟩
  · rename_i hw
    have hw' : s.working = false := by simpa using hw
    have hs := h.stoppedClear hw'
    obtain ⟨a, b, _, _, _, f, g⟩ := startWorkers_spec s.workers { s with working := true }
    refine ⟨?_, a⟩
    constructor
    · exact g h.liveEq
    · intro hf; rw [a] at hf; cases hf
    · intro _; rw [f, b]; simp [hs]

theorem inv_chkStep {s : St} (h : Inv s) : Inv (chkStep s) := by
  unfold chkStep
  split
  · split
    · exact h
    · exact ⟨h.liveEq, h.stoppedClear, h.workingAll⟩
  · split
    · exact ⟨h.liveEq, h.stoppedClear, h.workingAll⟩
    · split <;> exact ⟨h.liveEq, h.stoppedClear, h.workingAll⟩
  · have := (inv_doStop h).1
    exact ⟨this.liveEq, this.stoppedClear, this.workingAll⟩
  · have := (inv_doResume h).1
    exact ⟨this.liveEq, this.stoppedClear, this.workingAll⟩

theorem inv_step {s : St} (h : Inv s) (st : Step) : Inv (step s st) := by
  cases st
  case lock i => exact ⟨h.liveEq, h.stoppedClear, h.workingAll⟩
  case unlock i => simp only [step]; split <;> exact ⟨h.liveEq, h.stoppedClear, h.workingAll⟩
  case chk => exact inv_chkStep h
  case compute =>
    simp only [step]
    split
    · rename_i hw
      constructor
      · simp [startWorker, h.liveEq]
      · intro hf; simp [startWorker, hw] at hf
      · intro _; simp [startWorker, h.workingAll hw]
    · rename_i hw
      have hw' : s.working = false := by simpa using hw
      constructor
      · exact h.liveEq
      · intro _; exact h.stoppedClear hw'
      · intro hf; simp [hw'] at hf

/-- C45 invariant, for every schedule: the contexts that are still live are exactly the ones whose
    cancel function the scheduler holds; a stopped scheduler holds none (⇒ every worker context
    ever created is cancelled: all background work is stopped); a working one holds exactly one
    per registered worker (no duplicate workers after stop/resume cycles). -/
theorem inv_runSteps (n : Nat) (steps : List Step) : Inv (runSteps (init n) steps) := by
  suffices ∀ s, Inv s → Inv (runSteps s steps) from this _ (inv_init n)
  induction steps with
  | nil => intro s h; exact h
  | cons st steps ih => intro s h; exact ih _ (inv_step h st)

theorem stopped_means_no_live_worker (n : Nat) (steps : List Step)
    (h : (runSteps (init n) steps).working = false) : (runSteps (init n) steps).live = [] := by
  have i := inv_runSteps n steps
  rw [i.liveEq]; exact i.stoppedClear h

theorem working_means_one_context_per_worker (n : Nat) (steps : List Step)
    (h : (runSteps (init n) steps).working = true) :
    (runSteps (init n) steps).live.length = (runSteps (init n) steps).workers := by
  have i := inv_runSteps n steps
  rw [i.liveEq]; exact i.workingAll h

/-! ## what a check decides, under every interleaving with latch operations -/

def ctr (s : St) (i : Nat) : Nat := s.counters.getD i 0

theorem len_startWorkers (k : Nat) (s : St) : (startWorkers k s).counters = s.counters :=
  (startWorkers_spec k s).2.2.1

theorem len_step (s : St) (st : Step) : (step s st).counters.length = s.counters.length := by
  cases st
  case lock i => simp [step]
  case unlock i => simp only [step]; split <;> simp
  case chk =>
    simp only [step, chkStep]
    split
    · split <;> rfl
    · split
      · rfl
      · split <;> rfl
    · simp only [doStop]; split <;> rfl
    · simp only [doResume]; split
      · rfl
      · simp [len_startWorkers]
  case compute => simp only [step]; split <;> rfl

theorem step_nonchk (s : St) (st : Step) (h : st ≠ .chk) :
    (step s st).chk = s.chk ∧ (step s st).working = s.working := by
  cases st
  case lock i => simp [step]
  case unlock i => simp only [step]; split <;> simp
  case chk => exact absurd rfl h
  case compute => simp only [step]; split <;> simp [startWorker]

/-- progress of the check in flight while latch `i` is executing; `C` = "a check step happened". -/
def GB (i : Nat) (C : Prop) : Chk → Bool → Prop
  | .idle, w => C → w = false
  | .reading pc, _ => pc ≤ i
  | .decided d, _ => d = true

def GuardBusy (i : Nat) (C : Prop) (s : St) : Prop := GB i C s.chk s.working

theorem guardBusy_step (i : Nat) (C : Prop) (s : St) (st : Step) (hi : i < s.counters.length)
    (hpos : ctr s i ≠ 0) (hg : GuardBusy i C s) : GuardBusy i (C ∨ st = .chk) (step s st) := by
  by_cases hst : st = .chk
  · subst hst
    unfold GuardBusy at *
    simp only [step, chkStep]
    cases hc : s.chk with
    | idle =>
      simp only
      split
      · omega
      · simp [GB]
    | reading pc =>
      rw [hc] at hg
      simp only
      split
      · simp [GB]
      · rename_i hz
        have hne : pc ≠ i := by
          intro h; subst h; exact hpos (by simpa [ctr] using hz)
        have hle : pc ≤ i := hg
        split
        · simp only [GB]; omega
        · omega
    | decided d =>
      rw [hc] at hg
      have : d = true := hg
      subst this
      simp [GB, inv_doStop_working]
  · obtain ⟨h1, h2⟩ := step_nonchk s st hst
    unfold GuardBusy at *
    rw [h1, h2]
    cases hc : s.chk <;> rw [hc] at hg <;> simp_all [GB]

theorem ctr_len (s : St) (st : Step) (i : Nat) (hi : i < s.counters.length) :
    i < (step s st).counters.length := by rw [len_step]; exact hi

/-- generalised form of `no_resume_while_running`. -/
theorem guardBusy_run (i : Nat) (steps : List Step) : ∀ (C : Prop) (s : St),
    i < s.counters.length → GuardBusy i C s →
    (∀ k ≤ steps.length, ctr (runSteps s (steps.take k)) i ≠ 0) →
    GuardBusy i (C ∨ Step.chk ∈ steps) (runSteps s steps) := by
  induction steps with
  | nil => intro C s _ hg _; simpa [runSteps] using hg
  | cons st rest ih =>
    intro C s hi hg hrun
    have h0 : ctr s i ≠ 0 := by simpa [runSteps] using hrun 0 (Nat.zero_le _)
    have hg' := guardBusy_step i C s st hi h0 hg
    have := ih (C ∨ st = .chk) (step s st) (ctr_len s st i hi) hg' (by
      intro k hk
      have := hrun (k + 1) (by simp; omega)
      simpa [runSteps] using this)
    have e : ((C ∨ st = Step.chk) ∨ Step.chk ∈ rest) ↔ (C ∨ Step.chk ∈ st :: rest) := by
      simp only [List.mem_cons]
      constructor
      · rintro ((h | h) | h)
        · exact Or.inl h
        · exact Or.inr (Or.inl h.symm)
        · exact Or.inr (Or.inr h)
      · rintro (h | h | h)
        · exact Or.inl (Or.inl h)
        · exact Or.inl (Or.inr h.symm)
        · exact Or.inr h
    simp only [runSteps, List.foldl_cons] at this ⊢
    unfold GuardBusy at *
    cases hc : (List.foldl step (step s st) rest).chk <;> rw [hc] at this <;> simp_all [GB]

/-- C45 (no resume while any protocol runs), for every schedule: if some registered protocol `i`
    is executing at every moment of a stretch of the execution in which at least one
    `checkProtocols` step happened and no check is left in flight, then the scheduler is stopped
    and no worker context is live — whatever other latches, nested Lock/Unlock calls, concurrent
    checks and `compute` calls did in between. -/
theorem no_resume_while_running (i : Nat) (s : St) (steps : List Step)
    (hinv : Inv s) (hidle : s.chk = .idle) (hi : i < s.counters.length)
    (hrun : ∀ k ≤ steps.length, ctr (runSteps s (steps.take k)) i ≠ 0)
    (hchk : Step.chk ∈ steps) (hend : (runSteps s steps).chk = .idle) :
    (runSteps s steps).working = false ∧ (runSteps s steps).live = [] := by
  have hg := guardBusy_run i steps False s hi (by simp [GuardBusy, GB, hidle]) hrun
  unfold GuardBusy at hg
  rw [hend] at hg
  have hw : (runSteps s steps).working = false := hg (Or.inr hchk)
  have inv : Inv (runSteps s steps) := by
    clear hg hw hend hchk hrun hi hidle
    induction steps generalizing s with
    | nil => exact hinv
    | cons st rest ih => exact ih _ (inv_step hinv st)
  exact ⟨hw, by rw [inv.liveEq]; exact inv.stoppedClear hw⟩

/-- progress of the check in flight while no protocol is executing. -/
def GZ (C : Prop) : Chk → Bool → Prop
  | .idle, w => C → w = true
  | .reading _, _ => True
  | .decided d, _ => d = false

theorem guardIdle_step (C : Prop) (s : St) (st : Step) (hn : 0 < s.counters.length)
    (hz : ∀ j, ctr s j = 0) (hg : GZ C s.chk s.working) :
    GZ (C ∨ st = .chk) (step s st).chk (step s st).working := by
  by_cases hst : st = .chk
  · subst hst
    simp only [step, chkStep]
    cases hc : s.chk with
    | idle =>
      simp only
      split
      · omega
      · simp [GZ]
    | reading pc =>
      simp only
      split
      · rename_i h; exact absurd (by simpa [ctr] using hz pc) h
      · split <;> simp [GZ]
    | decided d =>
      rw [hc] at hg
      have : d = false := hg
      subst this
      simp [GZ, inv_doResume_working]
  · obtain ⟨h1, h2⟩ := step_nonchk s st hst
    rw [h1, h2]
    cases hc : s.chk <;> rw [hc] at hg <;> simp_all [GZ]

theorem guardIdle_run (steps : List Step) : ∀ (C : Prop) (s : St),
    0 < s.counters.length → GZ C s.chk s.working →
    (∀ k ≤ steps.length, ∀ j, ctr (runSteps s (steps.take k)) j = 0) →
    GZ (C ∨ Step.chk ∈ steps) (runSteps s steps).chk (runSteps s steps).working := by
  induction steps with
  | nil => intro C s _ hg _; simpa [runSteps] using hg
  | cons st rest ih =>
    intro C s hn hg hrun
    have h0 : ∀ j, ctr s j = 0 := by simpa [runSteps] using hrun 0 (Nat.zero_le _)
    have hg' := guardIdle_step C s st hn h0 hg
    have := ih (C ∨ st = .chk) (step s st) (by rw [len_step]; exact hn) hg' (by
      intro k hk
      have := hrun (k + 1) (by simp; omega)
      simpa [runSteps] using this)
    simp only [runSteps, List.foldl_cons] at this ⊢
    cases hc : (List.foldl step (step s st) rest).chk <;> rw [hc] at this <;>
      simp_all [GZ] <;> grind

theorem inv_runSteps_from {s : St} (hinv : Inv s) (steps : List Step) : Inv (runSteps s steps) := by
  induction steps generalizing s with
  | nil => exact hinv
  | cons st rest ih => exact ih (inv_step hinv st)

/-- C45 (resume once nothing is executing), for every schedule: if no registered protocol is
    executing during a stretch in which a `checkProtocols` step happened and no check is left in
    flight, the scheduler is working with exactly one live context per registered worker. -/
theorem resumes_when_idle (s : St) (steps : List Step)
    (hinv : Inv s) (hidle : s.chk = .idle) (hn : 0 < s.counters.length)
    (hrun : ∀ k ≤ steps.length, ∀ j, ctr (runSteps s (steps.take k)) j = 0)
    (hchk : Step.chk ∈ steps) (hend : (runSteps s steps).chk = .idle) :
    (runSteps s steps).working = true ∧
    (runSteps s steps).live.length = (runSteps s steps).workers := by
  have hg := guardIdle_run steps False s hn (by simp [GZ, hidle]) hrun
  rw [hend] at hg
  have hw : (runSteps s steps).working = true := hg (Or.inr hchk)
  have inv := inv_runSteps_from hinv steps
  exact ⟨hw, by rw [inv.liveEq]; exact inv.workingAll hw⟩

/-! ## a check with nothing interleaved (the scheduler's one-second tick at a quiet moment) -/

theorem counters_chkStep (s : St) : (chkStep s).counters = s.counters := by
  simp only [chkStep]
  split
  · split <;> rfl
  · split
    · rfl
    · split <;> rfl
  · simp only [doStop]; split <;> rfl
  · simp only [doResume]; split
    · rfl
    · simp [len_startWorkers]

theorem counters_chkRun (s : St) (k j : Nat) :
    (runSteps s ((List.replicate k Step.chk).take j)).counters = s.counters := by
  induction k generalizing s j with
  | zero => simp [runSteps]
  | succ k ih =>
    cases j with
    | zero => simp [runSteps]
    | succ j =>
      simp only [List.replicate_succ, List.take_succ_cons, runSteps, List.foldl_cons]
      have := ih (step s .chk) j
      simp only [runSteps] at this
      rw [this]; exact counters_chkStep s

/-- C45 (a): at a scheduler check with at least one registered protocol executing, all
    background work is stopped (state `stopped`, every worker context cancelled); with none
    executing the state is `working` with one live context per worker. `k` check steps with nothing
    interleaved, ending with no check in flight, i.e. one or more complete `checkProtocols` calls. -/
theorem check_stops_iff_executing (s : St) (k : Nat) (hinv : Inv s) (hidle : s.chk = .idle)
    (hk : 0 < k) (hend : (runSteps s (List.replicate k .chk)).chk = .idle) :
    ((∃ i, i < s.counters.length ∧ ctr s i ≠ 0) →
      (runSteps s (List.replicate k .chk)).working = false ∧
      (runSteps s (List.replicate k .chk)).live = []) ∧
    (0 < s.counters.length → (∀ j, ctr s j = 0) →
      (runSteps s (List.replicate k .chk)).working = true ∧
      (runSteps s (List.replicate k .chk)).live.length = (runSteps s (List.replicate k .chk)).workers) := by
  have hmem : Step.chk ∈ List.replicate k Step.chk := by
    cases k with
    | zero => omega
    | succ k => simp [List.replicate_succ]
  constructor
  · rintro ⟨i, hi, hpos⟩
    exact no_resume_while_running i s _ hinv hidle hi
      (by intro j _; unfold ctr; rw [counters_chkRun]; exact hpos) hmem hend
  · intro hn hz
    exact resumes_when_idle s _ hinv hidle hn
      (by intro j _ x; unfold ctr; rw [counters_chkRun]; exact hz x) hmem hend

/-! ## the monitor's enumeration only produces outcomes of real schedules -/

/-- every state the enumerator `explore` returns is `runSteps s steps` for some schedule `steps`
    made of the group's single-step actions and check steps, with no check left in flight. -/
theorem explore_sound : ∀ (fuel : Nat) (s : St) (singles : List Step) (k : Nat) (s' : St),
    s' ∈ explore fuel s singles k →
    ∃ steps, s' = runSteps s steps ∧ s'.chk = .idle ∧ (∀ st ∈ steps, st = .chk ∨ st ∈ singles) ∧
      (0 < k → s.counters.length ≠ 0 → Step.chk ∈ steps) := by
  intro fuel
  induction fuel with
  | zero => intro s singles k s' h; simp [explore] at h
  | succ fuel ih =>
    intro s singles k s' h
    simp only [explore, List.mem_append, List.mem_flatMap, List.mem_range] at h
    rcases h with (h | h) | h
    · split at h
      · rename_i hc
        simp only [List.mem_singleton] at h
        subst h
        simp only [Bool.and_eq_true, decide_eq_true_eq] at hc
        exact ⟨[], rfl, hc.1.2, by simp, by intro hk; omega⟩
      · simp at h
    · obtain ⟨i, _, hi⟩ := h
      cases hs : singles[i]? with
      | none => simp [hs] at hi
      | some st =>
        simp only [hs] at hi
        obtain ⟨steps, h1, h2, h3, h4⟩ := ih _ _ _ _ hi
        refine ⟨st :: steps, by simpa [runSteps] using h1, h2, ?_, by
          intro hk hn; exact List.mem_cons_of_mem _ (h4 hk (by rw [len_step]; exact hn))⟩
        have hst : st ∈ singles := List.mem_of_getElem? hs
        have hsub : ∀ (l : List Step) (j : Nat) (x : Step), x ∈ removeAt l j → x ∈ l := by
          intro l
          induction l with
          | nil => intro j x hx; simp [removeAt] at hx
          | cons a r ihl =>
            intro j x hx
            cases j with
            | zero => simp only [removeAt] at hx; simp [hx]
            | succ j =>
              simp only [removeAt, List.mem_cons] at hx
              rcases hx with rfl | hx
              · simp
              · simp [ihl j x hx]
        intro x hx
        simp only [List.mem_cons] at hx
        rcases hx with rfl | hx
        · exact Or.inr hst
        · rcases h3 x hx with h | h
          · exact Or.inl h
          · exact Or.inr (hsub _ _ _ h)
    · split at h
      · obtain ⟨steps, h1, h2, h3, _⟩ := ih _ _ _ _ h
        exact ⟨.chk :: steps, by simpa [runSteps, step] using h1, h2, by
          intro x hx; simp only [List.mem_cons] at hx
          rcases hx with rfl | hx
          · exact Or.inl rfl
          · exact h3 x hx, by intro _ _; simp⟩
      · split at h
        · split at h
          · rename_i hz
            obtain ⟨steps, h1, h2, h3, _⟩ := ih _ _ _ _ h
            exact ⟨steps, h1, h2, h3, by intro _ hn; exact absurd hz hn⟩
          · obtain ⟨steps, h1, h2, h3, _⟩ := ih _ _ _ _ h
            exact ⟨.chk :: steps, by simpa [runSteps, step] using h1, h2, by
              intro x hx; simp only [List.mem_cons] at hx
              rcases hx with rfl | hx
              · exact Or.inl rfl
              · exact h3 x hx, by intro _ _; simp⟩
        · simp at h

/-- what the monitor accepts for a concurrent group is the outcome of some interleaving of the
    atomic steps, so the schedule theorems above (`inv_step`, `no_resume_while_running`,
    `resumes_when_idle`) apply to it. -/
theorem groupOutcomes_sound (s : St) (acts : List Act) (s' : St) (h : s' ∈ groupOutcomes s acts) :
    ∃ steps, s' = runSteps s steps ∧ s'.chk = .idle := by
  simp only [groupOutcomes, List.mem_eraseDups] at h
  obtain ⟨steps, h1, h2, _, _⟩ := explore_sound _ _ _ _ _ h
  exact ⟨steps, h1, h2⟩

theorem groupOutcomes_inv (s : St) (acts : List Act) (s' : St) (hinv : Inv s)
    (h : s' ∈ groupOutcomes s acts) : Inv s' := by
  obtain ⟨steps, rfl, _⟩ := groupOutcomes_sound s acts s' h
  exact inv_runSteps_from hinv steps

/-! ## the monitor's property predicate holds of every quiescent check of the model -/

theorem chkOnly_frame (steps : List Step) (hall : ∀ st ∈ steps, st = Step.chk) (s : St) :
    (runSteps s steps).counters = s.counters ∧ (runSteps s steps).workers = s.workers := by
  induction steps generalizing s with
  | nil => simp [runSteps]
  | cons st rest ih =>
    have : st = .chk := hall st (by simp)
    subst this
    obtain ⟨a, b⟩ := ih (fun x hx => hall x (by simp [hx])) (step s .chk)
    simp only [runSteps, List.foldl_cons] at a b ⊢
    refine ⟨by rw [a]; exact counters_chkStep s, ?_⟩
    rw [b]
    simp only [step, chkStep]
    split
    · split <;> rfl
    · split
      · rfl
      · split <;> rfl
    · simp only [doStop]; split <;> rfl
    · simp only [doResume]; split
      · rfl
      · exact (startWorkers_spec _ _).2.1

theorem chkOnly_noproto (steps : List Step) (hall : ∀ st ∈ steps, st = Step.chk) (s : St)
    (hn : s.counters.length = 0) (hidle : s.chk = .idle) : runSteps s steps = s := by
  induction steps with
  | nil => rfl
  | cons st rest ih =>
    have : st = .chk := hall st (by simp)
    subst this
    have e : step s .chk = s := by simp [step, chkStep, hidle, hn]
    simp only [runSteps, List.foldl_cons, e]
    exact ih (fun x hx => hall x (by simp [hx]))

/-- C45 monitor tie: for every state the model can be in (any schedule before), every outcome
    the model allows for a lone `checkProtocols` call satisfies the property predicate
    `quiescentCheckOk` that the monitor evaluates on the implementation's observation. Together
    with `groupOutcomes_sound`/`groupOutcomes_inv` (what the monitor accepts is a real schedule's
    outcome and keeps the invariant) this is "the monitor accepts every model run". -/
theorem quiescent_check_ok (s : St) (hinv : Inv s) (hidle : s.chk = .idle) (s' : St)
    (h : s' ∈ groupOutcomes s [.check]) :
    quiescentCheckOk s.counters.length s.workers (view s') = true := by
  simp only [groupOutcomes, List.mem_eraseDups] at h
  obtain ⟨steps, h1, h2, h3, h4⟩ := explore_sound _ _ _ _ _ h
  have hall : ∀ st ∈ steps, st = Step.chk := by
    intro st hst; rcases h3 st hst with h | h
    · exact h
    · simp [Act.single?] at h
  have hinv' : Inv s' := by rw [h1]; exact inv_runSteps_from hinv steps
  obtain ⟨hc, hwk⟩ := chkOnly_frame steps hall s
  rw [← h1] at hc hwk
  have hprefix : ∀ k, (runSteps s (steps.take k)).counters = s.counters := fun k =>
    (chkOnly_frame (steps.take k) (fun st hst => hall st (List.mem_of_mem_take hst)) s).1
  by_cases hn : s.counters.length = 0
  · have e : s' = s := by rw [h1]; exact chkOnly_noproto steps hall s hn hidle
    subst e
    simp only [quiescentCheckOk, view, hn]
    cases hw : s'.working
    · have := hinv.stoppedClear hw; simp [hinv.liveEq, this]
    · have := hinv.workingAll hw; simp [hinv.liveEq, this]
  · have hmem : Step.chk ∈ steps := h4 (by simp) hn
    have hend : (runSteps s steps).chk = .idle := by rw [← h1]; exact h2
    by_cases hex : s.counters.any (· ≠ 0) = true
    · -- some latch is executing
      obtain ⟨x, hx, hx0⟩ := List.any_eq_true.1 hex
      obtain ⟨i, hi, rfl⟩ := List.mem_iff_getElem.1 hx
      have hci : ctr s i ≠ 0 := by simpa [ctr, hi] using hx0
      obtain ⟨hw, hl⟩ := no_resume_while_running i s steps hinv hidle hi
        (by intro k _; unfold ctr; rw [hprefix k]; exact hci) hmem hend
      rw [← h1] at hw hl
      have hs : s'.stops = [] := by rw [← hinv'.liveEq]; exact hl
      have hany : (view s').flags.any id = true := by
        simp only [view]; rw [hc]; simpa using hex
      have hv1 : (view s').working = false := hw
      have hv2 : (view s').active = 0 := by simp [view, hl]
      have hv3 : (view s').stops = 0 := by simp [view, hs]
      simp only [quiescentCheckOk, hany, hv1, hv2, hv3]
      simp
    · -- no latch is executing
      have hz : ∀ j, ctr s j = 0 := by
        intro j
        simp only [ctr, List.getD_eq_getElem?_getD]
        cases hj : s.counters[j]? with
        | none => rfl
        | some x =>
          have hx := List.mem_of_getElem? hj
          simp only [Option.getD_some]
          exact Decidable.byContradiction fun hne =>
            hex (List.any_eq_true.2 ⟨x, hx, by simpa using hne⟩)
      obtain ⟨hw, hl⟩ := resumes_when_idle s steps hinv hidle (by omega)
        (by intro k _ j; unfold ctr; rw [hprefix k]; exact hz j) hmem hend
      rw [← h1] at hw hl
      have hany : (view s').flags.any id = false := by
        simp only [view]; rw [hc]
        simpa using hex
      have hst : s'.stops.length = s'.workers := by rw [← hinv'.liveEq]; exact hl
      have hv1 : (view s').working = true := hw
      have hv2 : (view s').active = s.workers := by simp [view, hl, hwk]
      have hv3 : (view s').stops = s.workers := by simp [view, hst, hwk]
      simp only [quiescentCheckOk, hany, hv1, hv2, hv3]
      simp

/-- the monitor's invariant predicate holds of every state any schedule can reach: "stopped ∧ a
    live worker context" is never an outcome of the model. -/
theorem view_inv_ok (n : Nat) (steps : List Step) : viewInvOk (view (runSteps (init n) steps)) = true := by
  have i := inv_runSteps n steps
  simp only [viewInvOk, view, i.liveEq]
  cases hw : (runSteps (init n) steps).working
  · simp [i.stoppedClear hw]
  · simp

theorem finishChk_sound (k : Nat) (s : St) : ∃ steps, finishChk k s = runSteps s steps := by
  induction k generalizing s with
  | zero => exact ⟨[], rfl⟩
  | succ k ih =>
    simp only [finishChk]
    split
    · exact ⟨[.chk], rfl⟩
    · obtain ⟨steps, h⟩ := ih (chkStep s)
      exact ⟨.chk :: steps, by simpa [runSteps, step] using h⟩

theorem chkToLastPoll_sound (k : Nat) (s : St) : ∃ steps, chkToLastPoll k s = runSteps s steps := by
  induction k generalizing s with
  | zero => exact ⟨[], rfl⟩
  | succ k ih =>
    simp only [chkToLastPoll]
    split
    · exact ⟨[.chk], rfl⟩
    · obtain ⟨steps, h⟩ := ih (chkStep s)
      exact ⟨.chk :: steps, by simpa [runSteps, step] using h⟩

/-- the `O` scenario of the model is a schedule of the atomic steps (so every schedule theorem,
    in particular the invariant, applies to what the model predicts for it). -/
theorem overlapRun_sound (s : St) : ∃ steps, overlapRun s = runSteps s steps := by
  simp only [overlapRun]
  obtain ⟨a, ha⟩ := chkToLastPoll_sound (s.counters.length + 3) s
  rw [ha]
  have happ : ∀ (x : St) (p q : List Step), runSteps (runSteps x p) q = runSteps x (p ++ q) := by
    intro x p q; simp [runSteps, List.foldl_append]
  have hlock : step (runSteps s a) (.lock 0) = runSteps s (a ++ [.lock 0]) := by
    simp [runSteps, List.foldl_append]
  rw [hlock]
  split
  · obtain ⟨c, hc⟩ := finishChk_sound (s.counters.length + 3) (runSteps s (a ++ [.lock 0]))
    exact ⟨(a ++ [.lock 0]) ++ c, by rw [hc, happ]⟩
  · obtain ⟨b, hb⟩ := finishChk_sound (s.counters.length + 3) (runSteps s (a ++ [.lock 0]))
    rw [hb, happ]
    obtain ⟨c, hc⟩ := finishChk_sound (s.counters.length + 3) (runSteps s ((a ++ [.lock 0]) ++ b))
    exact ⟨((a ++ [.lock 0]) ++ b) ++ c, by rw [hc, happ]⟩

theorem overlapRun_inv (s : St) (h : Inv s) : Inv (overlapRun s) := by
  obtain ⟨steps, e⟩ := overlapRun_sound s
  rw [e]; exact inv_runSteps_from h steps

/-- non-vacuity: 2 latches, 2 workers; latch 1 locked twice and unlocked once is still executing,
    a check stops both workers; after the second unlock the next check resumes exactly two. -/
example :
    let s1 := runSteps (init 2) [.compute, .compute, .lock 1, .lock 1, .unlock 1, .chk, .chk, .chk, .chk]
    let s2 := runSteps s1 [.unlock 1, .chk, .chk, .chk, .chk]
    (s1.working, s1.live, s1.chk, s2.working, s2.live, s2.workers, s2.chk) =
      (false, [], .idle, true, [2, 3], 2, .idle) := by decide

end KeepVerif.C45
