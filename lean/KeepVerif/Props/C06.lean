import KeepVerif.Model.C06
import KeepVerif.Model.C06Sched
/-!
# C06 — Relay entry requests are processed at most once and in order

Theorems over `Model/C06.lean`, for **every** notification sequence and every chain answer.
Domain guard: start blocks are ≥ 1 (block 0 carries no event on a real chain; with a block-0
request the state stays "empty" and a duplicate is accepted again — `block0_duplicate_accepted`).
-/
namespace KeepVerif.C06

/-- T1 tie (lock-set fact extracted from the source with go/ast): the whole body of
    `NotifyRelayEntryStarted` is one critical section of `relayEntryMutex`. -/
theorem lock_fact : Gen.C06.relayMutexHeldForWholeBody = true := by decide

theorem step_out (st : St) (n : Notif) : (step st n).2 = judge st n := by
  unfold step; cases judge st n <;> rfl

theorem step_state_accept (st : St) (n : Notif) (h : judge st n = .A) :
    (step st n).1 = ⟨n.blk, n.prev⟩ := by
  unfold step; rw [h]

/-- A rejected notification or a failing chain call changes nothing. -/
theorem error_changes_nothing (st : St) (n : Notif) (h : judge st n ≠ .A) :
    (step st n).1 = st := by
  unfold step; cases hj : judge st n <;> simp_all

/-- A genuinely new request (newer start block, different previous entry) is always processed;
    so is the very first one. -/
theorem new_entry_always_processed (st : St) (n : Notif)
    (h : st.cur = 0 ∨ (n.blk > st.cur ∧ n.prev ≠ st.prev)) : judge st n = .A := by
  unfold judge
  rcases h with h | ⟨h1, h2⟩
  · simp [h]
  · by_cases h0 : st.cur = 0
    · simp [h0]
    · simp [h0, h1, h2]

/-- A later request reusing the previous entry is processed exactly when the chain confirms it
    as the current request (both answers present and equal to the notification). -/
theorem reused_entry_iff_chain_confirms (st : St) (n : Notif) (h0 : st.cur ≠ 0)
    (h1 : n.blk > st.cur) (h2 : n.prev = st.prev) :
    judge st n = .A ↔ n.chainPrev = some n.prev ∧ n.chainBlk = some n.blk := by
  unfold judge
  simp only [h0, if_false, h1, if_true, h2]
  cases hcp : n.chainPrev with
  | none => simp
  | some cp =>
    cases hcb : n.chainBlk with
    | none => simp
    | some cb =>
      simp only [Option.some.injEq]
      constructor
      · intro h
        split at h
        · rename_i hc; exact ⟨hc.1.symm, hc.2.symm⟩
        · cases h
      · rintro ⟨rfl, rfl⟩
        simp

/-- Duplicates and older requests are never processed once a request (block ≥ 1) was accepted. -/
theorem stale_rejected (st : St) (n : Notif) (h0 : st.cur ≠ 0) (h : n.blk ≤ st.cur) :
    judge st n = .R := by
  unfold judge
  have : ¬ n.blk > st.cur := by omega
  simp [h0, this]

/-- Acceptance implies "strictly newer than the current request" (or no current request). -/
theorem accept_newer (st : St) (n : Notif) (h : judge st n = .A) (hb : 1 ≤ n.blk) :
    st.cur < n.blk := by
  unfold judge at h
  by_cases h0 : st.cur = 0
  · omega
  · by_cases h1 : n.blk > st.cur
    · exact h1
    · simp [h0, h1] at h

private theorem acceptedFrom_spec (st : St) (ns : List Notif) (hd : ∀ n ∈ ns, 1 ≤ n.blk) :
    (∀ b ∈ acceptedFrom st ns, st.cur < b) ∧ (acceptedFrom st ns).Pairwise (· < ·) := by
  induction ns generalizing st with
  | nil => simp [acceptedFrom]
  | cons n ns ih =>
    have hdn : 1 ≤ n.blk := hd n (by simp)
    have hd' : ∀ m ∈ ns, 1 ≤ m.blk := fun m hm => hd m (by simp [hm])
    unfold acceptedFrom
    rw [step_out]
    cases hj : judge st n with
    | A =>
      simp only
      rw [step_state_accept st n hj]
      obtain ⟨ih1, ih2⟩ := ih ⟨n.blk, n.prev⟩ hd'
      have hlt := accept_newer st n hj hdn
      constructor
      · intro b hb
        simp only [List.mem_cons] at hb
        rcases hb with rfl | hb
        · exact hlt
        · exact Nat.lt_trans hlt (ih1 b hb)
      · exact List.pairwise_cons.2 ⟨fun b hb => ih1 b hb, ih2⟩
    | R =>
      simp only
      rw [error_changes_nothing st n (by simp [hj])]
      exact ih st hd'
    | P =>
      simp only
      rw [error_changes_nothing st n (by simp [hj])]
      exact ih st hd'
    | B =>
      simp only
      rw [error_changes_nothing st n (by simp [hj])]
      exact ih st hd'

/-- C06 main: over any notification sequence (duplicates, stale redeliveries, reorganised chains,
    failing chain calls) with start blocks ≥ 1, the start blocks the node starts signing for are
    strictly increasing — hence at most once per request and never for an older one. -/
theorem accepted_strictly_increasing (ns : List Notif) (hd : ∀ n ∈ ns, 1 ≤ n.blk) :
    (accepted ns).Pairwise (· < ·) :=
  (acceptedFrom_spec init ns hd).2

theorem accepted_nodup (ns : List Notif) (hd : ∀ n ∈ ns, 1 ≤ n.blk) : (accepted ns).Nodup :=
  (accepted_strictly_increasing ns hd).imp (fun h => Nat.ne_of_lt h)

/-- Concurrency: the method body is atomic (`lock_fact`), so a concurrent execution of the calls
    `ns` is the sequential run of some permutation of them; at-most-once and monotonicity hold
    for every such order. -/
theorem concurrent_at_most_once (ns sched : List Notif) (hp : sched.Perm ns)
    (hd : ∀ n ∈ ns, 1 ≤ n.blk) :
    (accepted sched).Pairwise (· < ·) ∧ (accepted sched).Nodup :=
  have hd' : ∀ n ∈ sched, 1 ≤ n.blk := fun n hn => hd n (hp.mem_iff.1 hn)
  ⟨accepted_strictly_increasing sched hd', accepted_nodup sched hd'⟩


/-! ## Concurrency, small-step: every schedule of `Lock` / body+`Unlock` actions linearises -/

theorem runFrom_append (st : St) (a b : List Notif) :
    runFrom st (a ++ b) = runFrom st a ++ runFrom (finalFrom st a) b := by
  induction a generalizing st with
  | nil => rfl
  | cons n a ih => simp [runFrom, finalFrom, ih]

theorem finalFrom_append (st : St) (a b : List Notif) :
    finalFrom st (a ++ b) = finalFrom (finalFrom st a) b := by
  induction a generalizing st with
  | nil => rfl
  | cons n a ih => simp [finalFrom, ih]

/-- invariant of the small-step system -/
structure Inv (calls : List Notif) (s : Sys) : Prop where
  st_eq : s.st = finalFrom init (order calls s)
  outs_eq : s.outs.map (·.2) = runFrom init (order calls s)
  done_of_out : ∀ p ∈ s.outs, s.pcs[p.1]? = some Pc.done
  nodup : (s.outs.map (·.1)).Nodup
  valid : ∀ p ∈ s.outs, p.1 < calls.length

theorem inv_start (calls : List Notif) : Inv calls (Sys.start calls.length) :=
  ⟨rfl, rfl, by simp [Sys.start], by simp [Sys.start], by simp [Sys.start]⟩

theorem inv_step (calls : List Notif) (s : Sys) (t : Nat) (h : Inv calls s) :
    Inv calls (sstep calls s t) := by
  unfold sstep
  split
  · -- Lock
    split
    · refine ⟨h.st_eq, h.outs_eq, ?_, h.nodup, h.valid⟩
      intro p hp
      have hd := h.done_of_out p hp
      rename_i hpc _ _
      by_cases hpt : p.1 = t
      · rw [hpt] at hd; rw [hd] at hpc; cases hpc
      · simp only [List.getElem?_set]
        simp [Ne.symm hpt, hd]
    · exact h
  · -- body + Unlock
    rename_i n hpc hcall
    split
    · have hlt : t < calls.length := by
        rcases Nat.lt_or_ge t calls.length with h' | h'
        · exact h'
        · rw [List.getElem?_eq_none h'] at hcall; cases hcall
      have hnot : t ∉ s.outs.map (·.1) := by
        intro hmem
        obtain ⟨p, hp, rfl⟩ := List.mem_map.1 hmem
        have := h.done_of_out p hp
        rw [this] at hpc; cases hpc
      have hord : order calls (bodyStep s t n) = order calls s ++ [n] := by
        simp [order, bodyStep, List.filterMap_append, hcall]
      refine ⟨?_, ?_, ?_, ?_, ?_⟩
      · rw [hord, finalFrom_append, ← h.st_eq]; rfl
      · rw [hord, runFrom_append, ← h.outs_eq, ← h.st_eq]
        simp [runFrom, bodyStep]
      · intro p hp
        simp only [bodyStep, List.mem_append, List.mem_singleton] at hp
        simp only [bodyStep, List.getElem?_set]
        rcases hp with hp | rfl
        · have hd := h.done_of_out p hp
          by_cases hpt : t = p.1
          · have hlen : p.1 < s.pcs.length := by
              rcases Nat.lt_or_ge p.1 s.pcs.length with h' | h'
              · exact h'
              · rw [List.getElem?_eq_none h'] at hd; cases hd
            simp [hpt, hlen]
          · simp [hpt, hd]
        · have hlen : t < s.pcs.length := by
            rcases Nat.lt_or_ge t s.pcs.length with h' | h'
            · exact h'
            · rw [List.getElem?_eq_none h'] at hpc; cases hpc
          simp [hlen]
      · simp only [bodyStep, List.map_append, List.map_cons, List.map_nil]
        rw [List.nodup_append]
        refine ⟨h.nodup, by simp, ?_⟩
        intro a ha b hb
        simp only [List.mem_singleton] at hb
        subst hb
        intro hab
        exact hnot (hab ▸ ha)
      · intro p hp
        simp only [bodyStep, List.mem_append, List.mem_singleton] at hp
        rcases hp with hp | rfl
        · exact h.valid p hp
        · exact hlt
    · exact h
  · exact h

theorem inv_run (calls : List Notif) (sched : List Nat) : Inv calls (runSched calls sched) := by
  unfold runSched
  have : ∀ s, Inv calls s → Inv calls (sched.foldl (sstep calls) s) := by
    induction sched with
    | nil => intro s h; exact h
    | cons t rest ih => intro s h; exact ih _ (inv_step calls s t h)
  exact this _ (inv_start calls)

/-- Linearisation, for **every schedule**: each call is answered at most once, and the answers
    are exactly those of the sequential run of the answered calls in the order in which they
    took the mutex. -/
theorem schedule_linearises (calls : List Notif) (sched : List Nat) :
    let s := runSched calls sched
    (s.outs.map (·.1)).Nodup ∧
    s.outs.map (·.2) = runFrom init (order calls s) ∧
    s.st = finalFrom init (order calls s) :=
  let h := inv_run calls sched
  ⟨h.nodup, h.outs_eq, h.st_eq⟩

/-- …hence, for every schedule, the requests the node starts signing for have strictly
    increasing start blocks (at most once, never an older one), however the goroutines race. -/
theorem schedule_accepted_increasing (calls : List Notif) (sched : List Nat)
    (hd : ∀ n ∈ calls, 1 ≤ n.blk) :
    (accepted (order calls (runSched calls sched))).Pairwise (· < ·) := by
  apply accepted_strictly_increasing
  intro n hn
  unfold order at hn
  obtain ⟨p, -, hp⟩ := List.mem_filterMap.1 hn
  exact hd n (List.mem_of_getElem? hp)

/-- The domain guard is needed: a request at start block 0 leaves the state "empty". -/
theorem block0_duplicate_accepted :
    run [⟨0, "aa", none, none⟩, ⟨0, "aa", none, none⟩] = [.A, .A] := by decide

/-! ## The monitor accepts every run of the model (inside the domain) -/

private def rel (last : Option (Nat × String)) (st : St) : Prop :=
  match last with
  | none => st.cur = 0
  | some (b, p) => st.cur = b ∧ st.prev = p ∧ 1 ≤ b

private theorem expected_eq_judge (last : Option (Nat × String)) (st : St) (n : Notif)
    (hr : rel last st) : expected last n = judge st n := by
  unfold expected judge
  cases last with
  | none => simp [rel] at hr; simp [hr]
  | some lp =>
    obtain ⟨b, p⟩ := lp
    simp only [rel] at hr
    obtain ⟨h1, h2, h3⟩ := hr
    have h0 : b ≠ 0 := by omega
    simp only [h1, h2, h0, if_false]
    by_cases hb : n.blk > b
    · simp only [hb, if_true]
      by_cases hp : n.prev = p
      · simp only [hp, ne_eq, not_true_eq_false, if_false, if_true]
        cases n.chainPrev <;> cases n.chainBlk <;> rfl
      · simp [hp]
    · simp [hb]

private theorem holdsFrom_run (last : Option (Nat × String)) (st : St) (ns : List Notif)
    (hr : rel last st) (hd : ∀ n ∈ ns, 1 ≤ n.blk) : holdsFrom last ns (runFrom st ns) = true := by
  induction ns generalizing last st with
  | nil => rfl
  | cons n ns ih =>
    have hdn : 1 ≤ n.blk := hd n (by simp)
    have hd' : ∀ m ∈ ns, 1 ≤ m.blk := fun m hm => hd m (by simp [hm])
    unfold runFrom holdsFrom
    rw [step_out, expected_eq_judge last st n hr]
    simp only [decide_true, Bool.true_and]
    by_cases hj : judge st n = .A
    · rw [if_pos hj, step_state_accept st n hj]
      exact ih _ _ ⟨rfl, rfl, hdn⟩ hd'
    · rw [if_neg hj, error_changes_nothing st n hj]
      exact ih _ _ hr hd'

/-- monitor soundness: `holds` accepts the model's output on every in-domain sequence, so
    "implementation = model on the sampled cases" + the theorems above ⇒ the property. -/
theorem holds_model (ns : List Notif) (hd : ∀ n ∈ ns, 1 ≤ n.blk) : holds ns (run ns) = true :=
  holdsFrom_run none init ns rfl hd

/-! ## Non-vacuity -/

example : run [⟨5, "aa", none, none⟩, ⟨5, "aa", none, none⟩, ⟨7, "aa", some "aa", some 7⟩,
    ⟨9, "aa", some "aa", some 8⟩, ⟨9, "bb", none, none⟩, ⟨8, "cc", none, none⟩,
    ⟨10, "bb", none, some 10⟩] = [.A, .R, .A, .R, .A, .R, .P] := by decide
example : holds [⟨5, "aa", none, none⟩, ⟨5, "aa", none, none⟩] [.A, .A] = false := by decide
example : holds [⟨5, "aa", none, none⟩, ⟨4, "bb", none, none⟩] [.A, .A] = false := by decide
example : holds [⟨5, "aa", none, none⟩, ⟨6, "bb", none, none⟩] [.A, .R] = false := by decide
example : holdsConc init [(⟨5, "aa", none, none⟩, .A), (⟨5, "aa", none, none⟩, .A)] = false := by
  decide
example : holdsConc init [(⟨5, "aa", none, none⟩, .R), (⟨5, "aa", none, none⟩, .A)] = true := by
  decide

end KeepVerif.C06
