import KeepVerif.Model.C06
/-!
# C06 — Relay entry requests are processed at most once and in order

Theorems over `Model/C06.lean`, for **every** notification sequence and every chain answer.
Domain guard: start blocks are ≥ 1 (block 0 carries no event on a real chain; with a block-0
request the state stays "empty" and a duplicate is accepted again — `block0_duplicate_accepted`).
-/
namespace KeepVerif.C06

/-- T1 tie (lock-set fact extracted from the source with go/ast): the whole body of
    `NotifyRelayEntryStarted` is one critical section of `relayEntryMutex`. -/
theorem lock_fact : Gen.C06.relayMutexHeldForWholeBody = true := by decide

theorem step_out (st : St) (n : Notif) : (step st n).2 = judge st n := by
  unfold step; cases judge st n <;> rfl

theorem step_state_accept (st : St) (n : Notif) (h : judge st n = .A) :
    (step st n).1 = ⟨n.blk, n.prev⟩ := by
  unfold step; rw [h]

/-- A rejected notification or a failing chain call changes nothing. -/
theorem error_changes_nothing (st : St) (n : Notif) (h : judge st n ≠ .A) :
    (step st n).1 = st := by
  unfold step; cases hj : judge st n <;> simp_all

/-- A genuinely new request (newer start block, different previous entry) is always processed;
    so is the very first one. -/
theorem new_entry_always_processed (st : St) (n : Notif)
    (h : st.cur = 0 ∨ (n.blk > st.cur ∧ n.prev ≠ st.prev)) : judge st n = .A := by
  unfold judge
  rcases h with h | ⟨h1, h2⟩
  · simp [h]
  · by_cases h0 : st.cur = 0
    · simp [h0]
    · simp [h0, h1, h2]

/-- A later request reusing the previous entry is processed exactly when the chain confirms it
    as the current request (both answers present and equal to the notification). -/
theorem reused_entry_iff_chain_confirms (st : St) (n : Notif) (h0 : st.cur ≠ 0)
    (h1 : n.blk > st.cur) (h2 : n.prev = st.prev) :
    judge st n = .A ↔ n.chainPrev = some n.prev ∧ n.chainBlk = some n.blk := by
  unfold judge
  simp only [h0, if_false, h1, if_true, h2]
  cases hcp : n.chainPrev with
  | none => simp
  | some cp =>
    cases hcb : n.chainBlk with
    | none => simp
    | some cb =>
      simp only [Option.some.injEq]
      constructor
      · intro h
        split at h
        · rename_i hc; exact ⟨hc.1.symm, hc.2.symm⟩
        · cases h
      · rintro ⟨rfl, rfl⟩
        simp

/-- Duplicates and older requests are never processed once a request (block ≥ 1) was accepted. -/
theorem stale_rejected (st : St) (n : Notif) (h0 : st.cur ≠ 0) (h : n.blk ≤ st.cur) :
    judge st n = .R := by
  unfold judge
  have : ¬ n.blk > st.cur := by omega
  simp [h0, this]

/-- Acceptance implies "strictly newer than the current request" (or no current request). -/
theorem accept_newer (st : St) (n : Notif) (h : judge st n = .A) (hb : 1 ≤ n.blk) :
    st.cur < n.blk := by
  unfold judge at h
  by_cases h0 : st.cur = 0
  · omega
  · by_cases h1 : n.blk > st.cur
    · exact h1
    · simp [h0, h1] at h

private theorem acceptedFrom_spec (st : St) (ns : List Notif) (hd : ∀ n ∈ ns, 1 ≤ n.blk) :
    (∀ b ∈ acceptedFrom st ns, st.cur < b) ∧ (acceptedFrom st ns).Pairwise (· < ·) := by
  induction ns generalizing st with
  | nil => simp [acceptedFrom]
  | cons n ns ih =>
    have hdn : 1 ≤ n.blk := hd n (by simp)
    have hd' : ∀ m ∈ ns, 1 ≤ m.blk := fun m hm => hd m (by simp [hm])
    unfold acceptedFrom
    rw [step_out]
    cases hj : judge st n with
    | A =>
      simp only
      rw [step_state_accept st n hj]
      obtain ⟨ih1, ih2⟩ := ih ⟨n.blk, n.prev⟩ hd'
      have hlt := accept_newer st n hj hdn
      constructor
      · intro b hb
        simp only [List.mem_cons] at hb
        rcases hb with rfl | hb
        · exact hlt
        · exact Nat.lt_trans hlt (ih1 b hb)
      · exact List.pairwise_cons.2 ⟨fun b hb => ih1 b hb, ih2⟩
    | R =>
      simp only
      rw [error_changes_nothing st n (by simp [hj])]
      exact ih st hd'
    | P =>
      simp only
      rw [error_changes_nothing st n (by simp [hj])]
      exact ih st hd'
    | B =>
      simp only
      rw [error_changes_nothing st n (by simp [hj])]
      exact ih st hd'

/-- C06 main: over any notification sequence (duplicates, stale redeliveries, reorganised chains,
    failing chain calls) with start blocks ≥ 1, the start blocks the node starts signing for are
    strictly increasing — hence at most once per request and never for an older one. -/
theorem accepted_strictly_increasing (ns : List Notif) (hd : ∀ n ∈ ns, 1 ≤ n.blk) :
    (accepted ns).Pairwise (· < ·) :=
  (acceptedFrom_spec init ns hd).2

theorem accepted_nodup (ns : List Notif) (hd : ∀ n ∈ ns, 1 ≤ n.blk) : (accepted ns).Nodup :=
  (accepted_strictly_increasing ns hd).imp (fun h => Nat.ne_of_lt h)

/-- Concurrency: the method body is atomic (`lock_fact`), so a concurrent execution of the calls
    `ns` is the sequential run of some permutation of them; at-most-once and monotonicity hold
    for every such order. -/
theorem concurrent_at_most_once (ns sched : List Notif) (hp : sched.Perm ns)
    (hd : ∀ n ∈ ns, 1 ≤ n.blk) :
    (accepted sched).Pairwise (· < ·) ∧ (accepted sched).Nodup :=
  have hd' : ∀ n ∈ sched, 1 ≤ n.blk := fun n hn => hd n (hp.mem_iff.1 hn)
  ⟨accepted_strictly_increasing sched hd', accepted_nodup sched hd'⟩

/-- The domain guard is needed: a request at start block 0 leaves the state "empty". -/
theorem block0_duplicate_accepted :
    run [⟨0, "aa", none, none⟩, ⟨0, "aa", none, none⟩] = [.A, .A] := by decide

/-! ## The monitor accepts every run of the model (inside the domain) -/

private def rel (last : Option (Nat × String)) (st : St) : Prop :=
  match last with
  | none => st.cur = 0
  | some (b, p) => st.cur = b ∧ st.prev = p ∧ 1 ≤ b

private theorem expected_eq_judge (last : Option (Nat × String)) (st : St) (n : Notif)
    (hr : rel last st) : expected last n = judge st n := by
  unfold expected judge
  cases last with
  | none => simp [rel] at hr; simp [hr]
  | some lp =>
    obtain ⟨b, p⟩ := lp
    simp only [rel] at hr
    obtain ⟨h1, h2, h3⟩ := hr
    have h0 : b ≠ 0 := by omega
    simp only [h1, h2, h0, if_false]
    by_cases hb : n.blk > b
    · simp only [hb, if_true]
      by_cases hp : n.prev = p
      · simp only [hp, ne_eq, not_true_eq_false, if_false, if_true]
        cases n.chainPrev <;> cases n.chainBlk <;> rfl
      · simp [hp]
    · simp [hb]

private theorem holdsFrom_run (last : Option (Nat × String)) (st : St) (ns : List Notif)
    (hr : rel last st) (hd : ∀ n ∈ ns, 1 ≤ n.blk) : holdsFrom last ns (runFrom st ns) = true := by
  induction ns generalizing last st with
  | nil => rfl
  | cons n ns ih =>
    have hdn : 1 ≤ n.blk := hd n (by simp)
    have hd' : ∀ m ∈ ns, 1 ≤ m.blk := fun m hm => hd m (by simp [hm])
    unfold runFrom holdsFrom
    rw [step_out, expected_eq_judge last st n hr]
    simp only [decide_true, Bool.true_and]
    by_cases hj : judge st n = .A
    · rw [if_pos hj, step_state_accept st n hj]
      exact ih _ _ ⟨rfl, rfl, hdn⟩ hd'
    · rw [if_neg hj, error_changes_nothing st n hj]
      exact ih _ _ hr hd'

/-- monitor soundness: `holds` accepts the model's output on every in-domain sequence, so
    "implementation = model on the sampled cases" + the theorems above ⇒ the property. -/
theorem holds_model (ns : List Notif) (hd : ∀ n ∈ ns, 1 ≤ n.blk) : holds ns (run ns) = true :=
  holdsFrom_run none init ns rfl hd

/-! ## Non-vacuity -/

example : run [⟨5, "aa", none, none⟩, ⟨5, "aa", none, none⟩, ⟨7, "aa", some "aa", some 7⟩,
    ⟨9, "aa", some "aa", some 8⟩, ⟨9, "bb", none, none⟩, ⟨8, "cc", none, none⟩,
    ⟨10, "bb", none, some 10⟩] = [.A, .R, .A, .R, .A, .R, .P] := by decide
example : holds [⟨5, "aa", none, none⟩, ⟨5, "aa", none, none⟩] [.A, .A] = false := by decide
example : holds [⟨5, "aa", none, none⟩, ⟨4, "bb", none, none⟩] [.A, .A] = false := by decide
example : holds [⟨5, "aa", none, none⟩, ⟨6, "bb", none, none⟩] [.A, .R] = false := by decide
example : holdsConc init [(⟨5, "aa", none, none⟩, .A), (⟨5, "aa", none, none⟩, .A)] = false := by
  decide
example : holdsConc init [(⟨5, "aa", none, none⟩, .R), (⟨5, "aa", none, none⟩, .A)] = true := by
  decide

end KeepVerif.C06
