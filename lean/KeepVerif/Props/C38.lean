import KeepVerif.Model.C38
import KeepVerif.Gen.C38
/-!
# C38 — wallet and group registries survive restarts exactly
-/
namespace KeepVerif.C38

def filesOf (disk : List File) (w : Nat) : List (Nat × Nat) :=
  (disk.filter (·.1 == w)).map (fun f => (f.2.1, f.2.2))

/-! ## the cache operations -/

theorem signersOf_addSigner (c : Cache) (w w' : Nat) (e : Nat × Nat) :
    signersOf (addSigner c w e) w' = if w' = w then signersOf c w ++ [e] else signersOf c w' := by
  induction c with
  | nil =>
    by_cases h : w' = w
    · subst h; simp [addSigner, signersOf]
    · have : (w == w') = false := by simp; exact fun h' => h h'.symm
      simp [addSigner, signersOf, h, this]
  | cons a r ih =>
    obtain ⟨k, l⟩ := a
    simp only [signersOf] at ih
    by_cases hk : k = w <;> by_cases hk' : k = w' <;> by_cases h : w' = w <;>
      simp_all [addSigner, signersOf, List.find?_cons] <;> grind

theorem known_addSigner (c : Cache) (w w' : Nat) (e : Nat × Nat) :
    known (addSigner c w e) w' = (known c w' || w' == w) := by
  induction c with
  | nil => simp [addSigner, known]; grind
  | cons a r ih =>
    obtain ⟨k, l⟩ := a
    simp only [known] at ih
    by_cases hk : k = w <;> by_cases hk' : k = w' <;> by_cases h : w' = w <;>
      simp_all [addSigner, known] <;> grind

theorem load_spec (disk : List File) (c : Cache) (w : Nat) :
    signersOf (disk.foldl (fun c f => addSigner c f.1 (f.2.1, f.2.2)) c) w =
      signersOf c w ++ filesOf disk w ∧
    known (disk.foldl (fun c f => addSigner c f.1 (f.2.1, f.2.2)) c) w = (known c w || hasDir disk w) := by
  induction disk generalizing c with
  | nil => simp [filesOf, hasDir]
  | cons f r ih =>
    obtain ⟨a, b⟩ := ih (addSigner c f.1 (f.2.1, f.2.2))
    simp only [List.foldl_cons]
    rw [a, b, signersOf_addSigner, known_addSigner]
    constructor
    · by_cases h : w = f.1
      · subst h; simp [filesOf]
      · have : (f.1 == w) = false := by simp; exact fun h' => h h'.symm
        simp [h, filesOf, this]
    · simp only [hasDir, List.any_cons]
      by_cases h : w = f.1
      · subst h; simp
      · have h1 : (f.1 == w) = false := by simp; exact fun h' => h h'.symm
        have h2 : (w == f.1) = false := by simp [h]
        simp [h1, h2]

/-- C38 restart_exact: a restarted node knows, for every wallet, exactly the signers whose files
    are in the storage's current directory — same member indices, same key material, nothing
    else — and knows a wallet iff it has a file. (`s` is any state, in particular any state
    reached by any history of registrations, archivals, faults and crashes.) -/
theorem restart_exact (s : St) (w : Nat) :
    signersOf (restartSt s).cache w = filesOf s.disk w ∧
    known (restartSt s).cache w = hasDir s.disk w := by
  have := load_spec s.disk [] w
  simpa [restartSt, load, signersOf, known] using this

/-- the order in which `ReadAll` delivers the files (directory listing, channel scheduling) does
    not matter: for any reordering of the storage content a restart yields, per wallet, the same
    signers up to order. -/
theorem restart_order_irrelevant (d1 d2 : List File) (h : d1.Perm d2) (w : Nat) :
    (signersOf (load d1) w).Perm (signersOf (load d2) w) := by
  have e1 := (load_spec d1 [] w).1
  have e2 := (load_spec d2 [] w).1
  simp only [signersOf, List.find?_nil, List.nil_append] at e1 e2
  unfold load signersOf
  rw [e1, e2]
  exact (h.filter _).map _

/-! ## invariants over every history -/

/-- cache well-formedness: one entry per wallet, never an empty signer slice (the lookups index
    `signers[0]`). -/
def WF (c : Cache) : Prop := (c.map (·.1)).Nodup ∧ ∀ e ∈ c, e.2 ≠ []

theorem keys_addSigner (c : Cache) (w : Nat) (e : Nat × Nat) :
    (addSigner c w e).map (·.1) = if known c w then c.map (·.1) else c.map (·.1) ++ [w] := by
  induction c with
  | nil => simp [addSigner, known]
  | cons a r ih =>
    obtain ⟨k, l⟩ := a
    by_cases hk : k = w
    · subst hk; simp [addSigner, known]
    · have h1 : (k == w) = false := by simp [hk]
      simp only [addSigner, h1, known, List.any_cons, Bool.false_or, List.map_cons,
        Bool.false_eq_true, if_false] at ih ⊢
      rw [ih]; split <;> simp_all

theorem known_iff_mem (c : Cache) (w : Nat) : known c w = true ↔ w ∈ c.map (·.1) := by
  simp [known]

theorem wf_addSigner {c : Cache} (h : WF c) (w : Nat) (e : Nat × Nat) : WF (addSigner c w e) := by
  obtain ⟨h1, h2⟩ := h
  constructor
  · rw [keys_addSigner]
    split
    · exact h1
    · rename_i hk
      have : w ∉ c.map (·.1) := fun hm => hk ((known_iff_mem c w).2 hm)
      rw [List.nodup_append]
      exact ⟨h1, by simp, by intro a ha b hb; simp at hb; subst hb; exact fun hab => this (hab ▸ ha)⟩
  · clear h1
    induction c with
    | nil => intro x hx; simp [addSigner] at hx; subst hx; simp
    | cons a r ih =>
      obtain ⟨k, l⟩ := a
      intro x hx
      simp only [addSigner] at hx
      split at hx
      · simp only [List.mem_cons] at hx
        rcases hx with rfl | hx
        · simp
        · exact h2 x (by simp [hx])
      · simp only [List.mem_cons] at hx
        rcases hx with rfl | hx
        · exact h2 _ (by simp)
        · exact ih (fun y hy => h2 y (by simp [hy])) x hx

theorem wf_load (disk : List File) : WF (load disk) := by
  unfold load
  suffices ∀ c, WF c → WF (disk.foldl (fun c f => addSigner c f.1 (f.2.1, f.2.2)) c) from
    this [] ⟨by simp, by simp⟩
  induction disk with
  | nil => intro c h; exact h
  | cons f r ih => intro c h; exact ih _ (wf_addSigner h _ _)

theorem wf_filter {c : Cache} (h : WF c) (p : Nat × List (Nat × Nat) → Bool) : WF (c.filter p) := by
  obtain ⟨h1, h2⟩ := h
  refine ⟨?_, fun e he => h2 e (List.mem_filter.1 he).1⟩
  exact h1.sublist ((List.filter_sublist).map _)

def diskKeys (disk : List File) : List (Nat × Nat) := disk.map (fun f => (f.1, f.2.1))

theorem diskKeys_saveFile (disk : List File) (w i sh : Nat) (h : (diskKeys disk).Nodup) :
    (diskKeys (saveFile disk w i sh)).Nodup := by
  unfold diskKeys saveFile at *
  rw [List.map_append, List.nodup_append]
  refine ⟨h.sublist ((List.filter_sublist).map _), by simp, ?_⟩
  intro a ha b hb
  simp only [List.map_cons, List.map_nil, List.mem_singleton] at hb
  subst hb
  simp only [List.mem_map, List.mem_filter] at ha
  obtain ⟨f, ⟨_, hf⟩, rfl⟩ := ha
  intro heq
  simp only [Prod.mk.injEq] at heq
  simp [heq.1, heq.2] at hf

structure Inv (s : St) : Prop where
  wf : WF s.cache
  diskUniq : (diskKeys s.disk).Nodup
  writeAhead : ∀ w i sh, (i, sh) ∈ signersOf s.cache w →
    ∃ x, (w, i, x) ∈ s.disk ∨ (w, i, x) ∈ s.archive

theorem mem_filesOf {disk : List File} {w i sh : Nat} :
    (i, sh) ∈ filesOf disk w ↔ (w, i, sh) ∈ disk := by
  simp only [filesOf, List.mem_map, List.mem_filter]
  constructor
  · rintro ⟨f, ⟨hf, hw⟩, he⟩
    obtain ⟨a, b, c⟩ := f
    simp at hw he; obtain ⟨rfl, rfl⟩ := he; subst hw; exact hf
  · intro h; exact ⟨(w, i, sh), ⟨h, by simp⟩, rfl⟩

theorem inv_restart {s : St} (h : Inv s) : Inv (restartSt s) := by
  refine ⟨wf_load _, h.diskUniq, ?_⟩
  intro w i sh hm
  rw [(restart_exact s w).1] at hm
  exact ⟨sh, Or.inl (mem_filesOf.1 hm)⟩

theorem saveFile_keeps (disk : List File) (w i sh w' i' : Nat) (h : ∃ x, (w', i', x) ∈ disk) :
    ∃ x, (w', i', x) ∈ saveFile disk w i sh := by
  obtain ⟨x, hx⟩ := h
  by_cases hh : w' = w ∧ i' = i
  · exact ⟨sh, by simp [saveFile, hh.1, hh.2]⟩
  · refine ⟨x, ?_⟩
    simp only [saveFile, List.mem_append, List.mem_filter]
    left
    refine ⟨hx, ?_⟩
    simp only [Bool.not_eq_true', Bool.and_eq_false_iff, beq_eq_false_iff_ne, ne_eq]
    by_cases hw : w' = w
    · right; exact fun hi => hh ⟨hw, hi⟩
    · left; exact hw

theorem inv_written {s : St} (h : Inv s) (w i sh : Nat) :
    Inv { s with disk := saveFile s.disk w i sh } := by
  refine ⟨h.wf, diskKeys_saveFile _ _ _ _ h.diskUniq, ?_⟩
  intro w' i' sh' hm
  obtain ⟨x, hx⟩ := h.writeAhead w' i' sh' hm
  rcases hx with hx | hx
  · obtain ⟨y, hy⟩ := saveFile_keeps s.disk w i sh w' i' ⟨x, hx⟩
    exact ⟨y, Or.inl hy⟩
  · exact ⟨x, Or.inr hx⟩

theorem inv_registered {s : St} (h : Inv s) (w i sh : Nat) :
    Inv { s with disk := saveFile s.disk w i sh, cache := addSigner s.cache w (i, sh) } := by
  have h1 := inv_written h w i sh
  refine ⟨wf_addSigner h.wf _ _, h1.diskUniq, ?_⟩
  intro w' i' sh' hm
  simp only [signersOf_addSigner] at hm
  split at hm
  · rename_i hw; subst hw
    simp only [List.mem_append, List.mem_singleton, Prod.mk.injEq] at hm
    rcases hm with hm | ⟨rfl, rfl⟩
    · exact h1.writeAhead _ _ _ hm
    · exact ⟨sh', Or.inl (by simp [saveFile])⟩
  · exact h1.writeAhead _ _ _ hm

theorem inv_moved {s : St} (h : Inv s) (w : Nat) : Inv (moveDir s w) := by
  refine ⟨h.wf, ?_, ?_⟩
  · exact h.diskUniq.sublist ((List.filter_sublist).map _)
  · intro w' i' sh' hm
    obtain ⟨x, hx⟩ := h.writeAhead w' i' sh' hm
    refine ⟨x, ?_⟩
    simp only [moveDir, List.mem_filter, List.mem_append]
    rcases hx with hx | hx
    · by_cases hw : w' = w
      · right; right; exact ⟨hx, by simp [hw]⟩
      · left; exact ⟨hx, by simp [hw]⟩
    · right; left; exact hx

theorem signersOf_filter_ne (c : Cache) (w w' : Nat) :
    signersOf (c.filter (·.1 != w)) w' = if w' = w then [] else signersOf c w' := by
  induction c with
  | nil => simp [signersOf]
  | cons a r ih =>
    obtain ⟨k, l⟩ := a
    simp only [signersOf] at ih
    by_cases hk : k = w <;> by_cases hk' : k = w' <;> by_cases h : w' = w <;>
      simp_all [signersOf, List.filter_cons] <;> grind

theorem inv_archived {s : St} (h : Inv s) (w : Nat) :
    Inv { moveDir s w with cache := (moveDir s w).cache.filter (·.1 != w) } := by
  have h1 := inv_moved h w
  refine ⟨wf_filter h1.wf _, h1.diskUniq, ?_⟩
  intro w' i' sh' hm
  simp only [signersOf_filter_ne] at hm
  split at hm
  · simp at hm
  · exact h1.writeAhead _ _ _ hm

/-- every step of either registry preserves: cache well-formed (one entry per wallet, no empty
    signer list), one file per (wallet, member index), and write-ahead: whatever the cache holds
    has been written to storage (it is in the current or in the archive directory). -/
theorem inv_step (wallet : Bool) {s : St} (h : Inv s) (op : Op) : Inv (step wallet s op).1 := by
  cases op
  case restart => exact inv_restart h
  case reg w i sh f =>
    cases f <;> simp only [step]
    · exact inv_registered h w i sh
    · exact h
    · exact inv_written h w i sh
    · exact inv_restart h
    · exact inv_restart (inv_written h w i sh)
    · split
      · exact inv_written h w i sh
      · exact inv_registered h w i sh
  case arch w f =>
    simp only [step]
    split
    · exact h
    · cases f <;> simp only
      case failBefore => exact h
      case failAfter => split; exact inv_moved h w; exact h
      case crashBefore => exact inv_restart h
      case crashAfter => split; exact inv_restart (inv_moved h w); exact inv_restart h
      all_goals (split; exact inv_archived h w; exact h)

theorem inv_final (wallet : Bool) (ops : List Op) : Inv (finalState wallet {} ops) := by
  suffices ∀ s, Inv s → Inv (finalState wallet s ops) from
    this {} ⟨⟨by simp, by simp⟩, by simp [diskKeys], by simp [signersOf]⟩
  induction ops with
  | nil => intro s h; exact h
  | cons op ops ih => intro s h; exact ih _ (inv_step wallet h op)

/-- write_ahead over every history (registrations, archivals, storage failures before/after the
    write, process deaths before/after the write, restarts), for both registries: whatever signer
    the in-memory cache holds has been written to storage; the cache has one entry per wallet and
    never an empty signer list (so the `signers[0]` lookups cannot panic). -/
theorem write_ahead (wallet : Bool) (ops : List Op) (w i sh : Nat)
    (h : (i, sh) ∈ signersOf (finalState wallet {} ops).cache w) :
    ∃ x, (w, i, x) ∈ (finalState wallet {} ops).disk ∨ (w, i, x) ∈ (finalState wallet {} ops).archive :=
  (inv_final wallet ops).writeAhead w i sh h

theorem cache_wellformed (wallet : Bool) (ops : List Op) : WF (finalState wallet {} ops).cache :=
  (inv_final wallet ops).wf

/-- after any history, the restarted node knows exactly the (wallet, member index, key material)
    triples stored and not archived, and each (wallet, member index) once. -/
theorem restart_exact_history (wallet : Bool) (ops : List Op) (w : Nat) :
    let s := finalState wallet {} ops
    signersOf (restartSt s).cache w = filesOf s.disk w ∧
    (known (restartSt s).cache w = hasDir s.disk w) ∧
    ((filesOf s.disk w).map (·.1)).Nodup := by
  intro s
  refine ⟨(restart_exact s w).1, (restart_exact s w).2, ?_⟩
  have hu := (inv_final wallet ops).diskUniq
  have : (filesOf s.disk w).map (·.1) = ((diskKeys s.disk).filter (·.1 == w)).map (·.2) := by
    simp only [filesOf, diskKeys, List.map_map, List.filter_map]
    rfl
  rw [this]
  have h2 := hu.sublist (List.filter_sublist (p := fun k => k.1 == w))
  rw [List.Nodup, List.pairwise_map]
  refine h2.imp_of_mem ?_
  intro a b ha hb hne
  simp only [List.mem_filter, beq_iff_eq] at ha hb
  intro heq
  exact hne (Prod.ext (ha.2.trans hb.2.symm) heq)

/-- a registration that returned success is on storage with its key material and in the cache;
    a restart right after it still knows it. -/
theorem reg_ok_persisted (wallet : Bool) (s : St) (w i sh : Nat) (f : Fault)
    (h : (step wallet s (.reg w i sh f)).2 = .ok) :
    let s' := (step wallet s (.reg w i sh f)).1
    (w, i, sh) ∈ s'.disk ∧ (i, sh) ∈ signersOf s'.cache w ∧
    (i, sh) ∈ signersOf (restartSt s').cache w := by
  intro s'
  have key : ∀ t : St, t.disk = saveFile s.disk w i sh → t.cache = addSigner s.cache w (i, sh) →
      (w, i, sh) ∈ t.disk ∧ (i, sh) ∈ signersOf t.cache w ∧ (i, sh) ∈ signersOf (restartSt t).cache w := by
    intro t hd hc
    have h1 : (w, i, sh) ∈ t.disk := by rw [hd]; simp [saveFile]
    refine ⟨h1, by rw [hc, signersOf_addSigner]; simp, ?_⟩
    rw [(restart_exact t w).1]; exact mem_filesOf.2 h1
  cases f
  case none => exact key _ rfl rfl
  case failBefore => simp [step] at h
  case failAfter => simp [step] at h
  case crashBefore => simp [step] at h
  case crashAfter => simp [step] at h
  case idFail =>
    by_cases hc : (wallet && !known s.cache w) = true
    · simp [step, hc] at h
    · have : s' = { s with disk := saveFile s.disk w i sh, cache := addSigner s.cache w (i, sh) } := by
        simp only [s', step, hc]; rfl
      rw [this]; exact key _ rfl rfl

theorem hasDir_moveDir (s : St) (w : Nat) : hasDir (moveDir s w).disk w = false := by
  simp [hasDir, moveDir]

/-- archive_removes (wallet registry): when `archiveWallet` returned success the wallet has no file
    in the current directory, is unknown to the cache, and stays unknown after a restart. -/
theorem archive_removes (s : St) (w : Nat) (f : Fault) (h : (step true s (.arch w f)).2 = .ok) :
    let s' := (step true s (.arch w f)).1
    hasDir s'.disk w = false ∧ signersOf s'.cache w = [] ∧ signersOf (restartSt s').cache w = [] ∧
    known (restartSt s').cache w = false := by
  intro s'
  have key : hasDir s.disk w = true →
      s' = { moveDir s w with cache := (moveDir s w).cache.filter (·.1 != w) } →
      hasDir s'.disk w = false ∧ signersOf s'.cache w = [] ∧ signersOf (restartSt s').cache w = [] ∧
      known (restartSt s').cache w = false := by
    intro _ he
    have hd : hasDir s'.disk w = false := by rw [he]; exact hasDir_moveDir s w
    refine ⟨hd, by rw [he, signersOf_filter_ne]; simp, ?_, by rw [(restart_exact s' w).2]; exact hd⟩
    rw [(restart_exact s' w).1]
    simp only [filesOf, List.map_eq_nil_iff, List.filter_eq_nil_iff]
    intro x hx hw
    simp only [hasDir, List.any_eq_false] at hd
    exact hd x hx hw
  by_cases hk : (!known s.cache w) = true
  · simp [step, hk] at h
  · by_cases hd : hasDir s.disk w = true
    · cases f
      case failBefore => simp [step, hk] at h
      case failAfter => simp [step, hk, hd] at h
      case crashBefore => simp [step, hk] at h
      case crashAfter => simp [step, hk] at h
      all_goals exact key hd (by simp only [s', step, hk, hd]; rfl)
    · cases f <;> simp [step, hk, hd] at h

/-- lookups_agree: with collision-free derived keys (A-hash) the lookup by public key hash and the
    lookup by wallet ID, in whatever order the map is iterated, find wallet `w` exactly when the
    lookup by public key does. -/
theorem lookups_agree (h : Nat → Nat) (hinj : ∀ a b, h a = h b → a = b) (c order : Cache)
    (hperm : ∀ e, e ∈ order ↔ e ∈ c) (w : Nat) :
    lookupBy h order (h w) = if known c w then some w else none := by
  unfold lookupBy
  cases hf : order.find? (fun e => h e.1 == h w) with
  | none =>
    have hn : known c w = false := by
      simp only [known, List.any_eq_false]
      intro e he
      have := List.find?_eq_none.1 hf e ((hperm e).2 he)
      simp only [beq_iff_eq] at this ⊢
      exact fun hw => this (by rw [hw])
    simp [hn]
  | some e =>
    have hm := List.mem_of_find?_eq_some hf
    have hp := List.find?_some hf
    simp only [beq_iff_eq] at hp
    have hw : e.1 = w := hinj _ _ hp
    have hk : known c w = true := by
      simp only [known, List.any_eq_true]
      exact ⟨e, (hperm e).1 hm, by simp [hw]⟩
    simp [hk, hw]

/-! ## memory and storage agree, except where a torn storage fault intervened -/

theorem hasDir_saveFile (d : List File) (w i sh w' : Nat) :
    hasDir (saveFile d w i sh) w' = (hasDir d w' || w' == w) := by
  by_cases h : w' = w
  · subst h; simp [hasDir, saveFile]
  · have h1 : (w' == w) = false := by simp [h]
    have h2 : (w == w') = false := by simp; exact fun x => h x.symm
    simp only [hasDir, saveFile, List.any_append, List.any_cons, List.any_nil, h1, h2, Bool.or_false]
    rw [Bool.eq_iff_iff]
    simp only [List.any_eq_true, List.mem_filter]
    constructor
    · rintro ⟨x, ⟨hx, _⟩, hw⟩; exact ⟨x, hx, hw⟩
    · rintro ⟨x, hx, hw⟩
      refine ⟨x, ⟨hx, ?_⟩, hw⟩
      simp only [beq_iff_eq] at hw
      simp [hw, h]

theorem hasDir_moveDir_ne (s : St) (w w' : Nat) (h : w' ≠ w) :
    hasDir (moveDir s w).disk w' = hasDir s.disk w' := by
  simp only [hasDir, moveDir]
  rw [Bool.eq_iff_iff]
  simp only [List.any_eq_true, List.mem_filter, beq_iff_eq]
  constructor
  · rintro ⟨x, ⟨hx, _⟩, hw⟩; exact ⟨x, hx, hw⟩
  · rintro ⟨x, hx, hw⟩; exact ⟨x, ⟨hx, by simp [hw, h]⟩, hw⟩

theorem known_filter_ne (c : Cache) (w w' : Nat) :
    known (c.filter (·.1 != w)) w' = (known c w' && w' != w) := by
  simp only [known]
  rw [Bool.eq_iff_iff]
  simp only [List.any_eq_true, List.mem_filter, beq_iff_eq, Bool.and_eq_true, bne_iff_ne, ne_eq]
  constructor
  · rintro ⟨x, ⟨hx, hn⟩, hw⟩; exact ⟨⟨x, hx, hw⟩, by rw [← hw]; exact hn⟩
  · rintro ⟨⟨x, hx, hw⟩, hn⟩; exact ⟨x, ⟨hx, by rw [hw]; exact hn⟩, hw⟩

/-- what memory knows is on storage, unless a torn archival moved it away since the last load. -/
def Sync (t : List Nat) (s : St) : Prop :=
  ∀ w, known s.cache w = true → w ∉ t → hasDir s.disk w = true

/-- what storage holds is known to memory, unless a failed registration wrote it since the last
    load. -/
def SyncR (u : List Nat) (s : St) : Prop :=
  ∀ w, hasDir s.disk w = true → w ∉ u → known s.cache w = true

theorem sync_restart (t : List Nat) (s : St) : Sync t (restartSt s) ∧ SyncR t (restartSt s) := by
  constructor <;> intro w h _ <;> have := (restart_exact s w).2 <;> simp_all [restartSt]

theorem sync_step (wallet : Bool) (t : List Nat) (s : St) (op : Op) (h : Sync t s) :
    Sync (tornStep t op) (step wallet s op).1 := by
  cases op
  case restart => exact (sync_restart _ s).1
  case reg w i sh f =>
    have hw : ∀ c, (∀ w', known c w' = true → known s.cache w' = true ∨ w' = w) →
        Sync t { s with disk := saveFile s.disk w i sh, cache := c } := by
      intro c hc w' hk ht
      simp only [hasDir_saveFile, Bool.or_eq_true, beq_iff_eq]
      rcases hc w' hk with hk' | rfl
      · exact Or.inl (h w' hk' ht)
      · exact Or.inr rfl
    have hadd : ∀ w', known (addSigner s.cache w (i, sh)) w' = true → known s.cache w' = true ∨ w' = w := by
      intro w' hk; rw [known_addSigner] at hk; simpa using hk
    cases f <;> simp only [step, tornStep]
    · exact hw _ hadd
    · exact h
    · exact hw _ (fun w' hk => Or.inl hk)
    · exact (sync_restart _ s).1
    · exact (sync_restart _ _).1
    · split
      · exact hw _ (fun w' hk => Or.inl hk)
      · exact hw _ hadd
  case arch w f =>
    have harch : hasDir s.disk w = true →
        Sync t { moveDir s w with cache := (moveDir s w).cache.filter (·.1 != w) } := by
      intro _ w' hk ht
      simp only [known_filter_ne, Bool.and_eq_true, bne_iff_ne, ne_eq] at hk
      rw [hasDir_moveDir_ne s w w' hk.2]
      exact h w' (by simpa [moveDir] using hk.1) ht
    have htorn : Sync (w :: t) (moveDir s w) := by
      intro w' hk ht
      simp only [List.mem_cons, not_or] at ht
      rw [hasDir_moveDir_ne s w w' ht.1]
      exact h w' (by simpa [moveDir] using hk) ht.2
    have hweak : Sync (w :: t) s := fun w' hk ht => h w' hk (fun hm => ht (List.mem_cons_of_mem _ hm))
    simp only [step]
    split
    · cases f <;> simp only [tornStep] <;> first | exact h | exact hweak
    · cases f <;> simp only [tornStep]
      case failBefore => exact h
      case failAfter => split; exact htorn; exact hweak
      case crashBefore => exact (sync_restart _ s).1
      case crashAfter => exact (sync_restart _ _).1
      all_goals (split; (rename_i hd; exact harch hd); exact h)

theorem syncR_step (wallet : Bool) (u : List Nat) (s : St) (op : Op) (h : SyncR u s) :
    SyncR (tornSaveStep u op) (step wallet s op).1 := by
  cases op
  case restart => exact (sync_restart _ s).2
  case reg w i sh f =>
    have hreg : SyncR u { s with disk := saveFile s.disk w i sh, cache := addSigner s.cache w (i, sh) } := by
      intro w' hd hu
      simp only [hasDir_saveFile, Bool.or_eq_true, beq_iff_eq] at hd
      rw [known_addSigner]
      rcases hd with hd | rfl
      · simp [h w' hd hu]
      · simp
    have htorn : SyncR (w :: u) { s with disk := saveFile s.disk w i sh } := by
      intro w' hd hu
      simp only [List.mem_cons, not_or] at hu
      simp only [hasDir_saveFile, Bool.or_eq_true, beq_iff_eq] at hd
      rcases hd with hd | rfl
      · exact h w' hd hu.2
      · exact absurd rfl hu.1
    have hweak : SyncR (w :: u) { s with disk := saveFile s.disk w i sh, cache := addSigner s.cache w (i, sh) } :=
      fun w' hd hu => hreg w' hd (fun hm => hu (List.mem_cons_of_mem _ hm))
    cases f <;> simp only [step, tornSaveStep]
    · exact hreg
    · exact h
    · exact htorn
    · exact (sync_restart _ s).2
    · exact (sync_restart _ _).2
    · split
      · exact htorn
      · exact hweak
  case arch w f =>
    have harch : SyncR u { moveDir s w with cache := (moveDir s w).cache.filter (·.1 != w) } := by
      intro w' hd hu
      by_cases hw : w' = w
      · subst hw; rw [hasDir_moveDir] at hd; exact absurd hd (by simp)
      · rw [hasDir_moveDir_ne s w w' hw] at hd
        simp only [known_filter_ne, Bool.and_eq_true, bne_iff_ne, ne_eq]
        exact ⟨by simpa [moveDir] using h w' hd hu, hw⟩
    have hmoved : SyncR u (moveDir s w) := by
      intro w' hd hu
      by_cases hw : w' = w
      · subst hw; rw [hasDir_moveDir] at hd; exact absurd hd (by simp)
      · rw [hasDir_moveDir_ne s w w' hw] at hd
        simpa [moveDir] using h w' hd hu
    simp only [step]
    split
    · cases f <;> exact h
    · cases f <;> simp only [tornSaveStep]
      case failBefore => exact h
      case failAfter => split; exact hmoved; exact h
      case crashBefore => exact (sync_restart _ s).2
      case crashAfter => exact (sync_restart _ _).2
      all_goals (split; exact harch; exact h)

def tornOf (ops : List Op) : List Nat := ops.foldl tornStep []
def tornSaveOf (ops : List Op) : List Nat := ops.foldl tornSaveStep []

/-- C38 refinement, for every history of registrations, archivals, storage failures before/after
    the write, process deaths before/after the write and restarts, for both registries: at every
    moment the wallets the node has in memory are exactly the wallets that have files in the
    storage's current directory — "registered and not archived" —, with two precisely delimited
    exceptions that a restart repairs: a wallet whose `Archive` moved the directory but reported an
    error is still in memory (`tornOf`), and a wallet whose registration wrote the file but
    reported an error is not yet in memory (`tornSaveOf`). -/
theorem memory_refines_storage (wallet : Bool) (ops : List Op) :
    Sync (tornOf ops) (finalState wallet {} ops) ∧ SyncR (tornSaveOf ops) (finalState wallet {} ops) := by
  suffices ∀ s t u, Sync t s → SyncR u s →
      Sync (ops.foldl tornStep t) (finalState wallet s ops) ∧
      SyncR (ops.foldl tornSaveStep u) (finalState wallet s ops) from
    this {} [] [] (fun w hk _ => by simp [known] at hk) (fun w hd _ => by simp [hasDir] at hd)
  induction ops with
  | nil => intro s t u h1 h2; exact ⟨h1, h2⟩
  | cons op ops ih =>
    intro s t u h1 h2
    exact ih _ _ _ (sync_step wallet t s op h1) (syncR_step wallet u s op h2)

/-- T1 lock-set / call-order facts, regenerated from the source on every run (astfacts.GuardedBy,
    astfacts.CallOrder): every access to the storage handle and to the cache inside
    registerSigner / archiveWallet / getSigners / RegisterGroup / UnregisterStaleGroups happens while
    the registry mutex is held, and the archival precedes the removal from memory. This is what makes
    a whole registry operation one atomic step of the model. -/
theorem lockset_facts :
    (Gen.C38.registerSignerHoldsMutex && Gen.C38.archiveWalletHoldsMutex &&
     Gen.C38.getSignersHoldsMutex && Gen.C38.registerGroupHoldsMutex &&
     Gen.C38.unregisterStaleHoldsMutex && Gen.C38.unregisterArchivesBeforeDelete &&
     Gen.C38.archiveWalletArchivesBeforeDelete) = true := by decide

/-- concurrency: with every operation atomic under the registry mutex (`lockset_facts`), a
    concurrent execution of any number of threads is one of the interleavings `sched` of their
    operations — and for every such schedule memory refines storage at quiescence (with the two
    torn-fault exceptions, none of which a fault-free concurrent run has). -/
theorem all_schedules_refine (wallet : Bool) (threads : List (List Op)) (sched : List Op)
    (_hsched : sched.Perm threads.flatten) :
    Sync (tornOf sched) (finalState wallet {} sched) ∧
    SyncR (tornSaveOf sched) (finalState wallet {} sched) :=
  memory_refines_storage wallet sched

/-- without torn faults since the last load, memory = storage exactly (per wallet, before any
    restart); after a restart always (`restart_exact`). -/
theorem memory_equals_storage (wallet : Bool) (ops : List Op)
    (h1 : tornOf ops = []) (h2 : tornSaveOf ops = []) (w : Nat) :
    known (finalState wallet {} ops).cache w = hasDir (finalState wallet {} ops).disk w := by
  obtain ⟨a, b⟩ := memory_refines_storage wallet ops
  rw [h1] at a; rw [h2] at b
  rw [Bool.eq_iff_iff]
  exact ⟨fun h => a w h (by simp), fun h => b w h (by simp)⟩

/-- after a restart the lookups by public key hash and by wallet ID (any map iteration order,
    collision-free derived keys) find exactly the wallets that have files on storage. -/
theorem lookups_after_restart (h : Nat → Nat) (hinj : ∀ a b, h a = h b → a = b) (s : St)
    (order : Cache) (hperm : ∀ e, e ∈ order ↔ e ∈ (restartSt s).cache) (w : Nat) :
    lookupBy h order (h w) = if hasDir s.disk w then some w else none := by
  rw [lookups_agree h hinj _ order hperm w, (restart_exact s w).2]

/-! ## the monitor accepts every trace of the model -/

theorem sameSet_refl (l : List (Nat × Nat)) : sameSet l l = true := by
  simp [sameSet]

theorem snapSigners_eq (c : Cache) (w : Nat) : snapSigners c w = signersOf c w := rfl

theorem step_err_cache (wallet : Bool) (s : St) (w i sh : Nat) (f : Fault)
    (h : (step wallet s (.reg w i sh f)).2 = .eSave ∨ (step wallet s (.reg w i sh f)).2 = .eId) :
    (step wallet s (.reg w i sh f)).1.cache = s.cache := by
  cases f
  case none => simp [step] at h
  case failBefore => rfl
  case failAfter => rfl
  case crashBefore => simp [step] at h
  case crashAfter => simp [step] at h
  case idFail =>
    by_cases hc : (wallet && !known s.cache w) = true
    · simp only [step, hc]; rfl
    · simp [step, hc] at h

theorem step_arch_err_cache (s : St) (w : Nat) (f : Fault)
    (h : (step true s (.arch w f)).2 = .eArch ∨ (step true s (.arch w f)).2 = .eNf) :
    (step true s (.arch w f)).1.cache = s.cache := by
  by_cases hk : (!known s.cache w) = true
  · simp [step, hk]
  · by_cases hd : hasDir s.disk w = true
    · cases f <;> simp [step, hk, hd] at h ⊢ <;> rfl
    · cases f <;> simp [step, hk, hd] at h ⊢

theorem known_of_signersOf {c : Cache} {w : Nat} (h : (signersOf c w).isEmpty = false) :
    known c w = true := by
  unfold signersOf at h
  cases hf : c.find? (·.1 == w) with
  | none => simp [hf] at h
  | some e =>
    simp only [known, List.any_eq_true]
    exact ⟨e, List.mem_of_find?_eq_some hf, by have := List.find?_some hf; exact this⟩

theorem arch_plain (wallet : Bool) (s : St) (w : Nat) (hk : known s.cache w = true)
    (hd : hasDir s.disk w = true) :
    (step wallet s (.arch w .none)).2 = .ok ∧ signersOf (step wallet s (.arch w .none)).1.cache w = [] := by
  have e : (step wallet s (.arch w .none)) =
      ({ moveDir s w with cache := (moveDir s w).cache.filter (·.1 != w) }, .ok) := by
    simp [step, hk, hd]
  rw [e]
  exact ⟨rfl, by simp [signersOf_filter_ne]⟩

theorem stepOk_model (wallet : Bool) (t : List Nat) (s : St) (hs : Sync t s) (op : Op) :
    stepOk wallet t op (step wallet s op).2 s.cache (step wallet s op).1.cache none = true ∧
    stepOk wallet t op (step wallet s op).2 s.cache (step wallet s op).1.cache
      (some (restartSt (step wallet s op).1).cache) = true := by
  cases op
  case restart => simp [stepOk, step, restartSt, snapEq, sameSet_refl]
  case reg w i sh f =>
    by_cases h : (step wallet s (.reg w i sh f)).2 = .ok
    · obtain ⟨_, h2, h3⟩ := reg_ok_persisted wallet s w i sh f h
      simp only [stepOk, h, snapSigners_eq]
      simp [h2, h3]
    · by_cases he : (step wallet s (.reg w i sh f)).2 = .eSave ∨ (step wallet s (.reg w i sh f)).2 = .eId
      · have hc := step_err_cache wallet s w i sh f he
        simp only [stepOk, hc, sameSet_refl]
        rcases he with he | he <;> simp [he]
      · have h1 : ¬ (step wallet s (.reg w i sh f)).2 = .eSave := fun x => he (Or.inl x)
        have h2 : ¬ (step wallet s (.reg w i sh f)).2 = .eId := fun x => he (Or.inr x)
        simp [stepOk, h, h1, h2]
  case arch w f =>
    -- first conjunct of the rule: a plain archival of a known, non-torn wallet
    have first : (if f == Fault.none && !(snapSigners s.cache w).isEmpty && !t.contains w then
        (snapSigners (step wallet s (.arch w f)).1.cache w).isEmpty &&
          (!wallet || (step wallet s (.arch w f)).2 == .ok) else true) = true := by
      split
      · rename_i hc
        simp only [Bool.and_eq_true, Bool.not_eq_true', beq_iff_eq, List.contains_eq_mem,
          decide_eq_false_iff_not] at hc
        obtain ⟨⟨hf, hne⟩, hnt⟩ := hc
        subst hf
        have hk := known_of_signersOf (by simpa [snapSigners_eq] using hne)
        obtain ⟨a, b⟩ := arch_plain wallet s w hk (hs w hk hnt)
        simp [snapSigners_eq, a, b]
      · rfl
    have second : (if f == Fault.failBefore then
        sameSet (snapSigners (step wallet s (.arch w f)).1.cache w) (snapSigners s.cache w) else true) = true := by
      split
      · rename_i hf
        have : f = .failBefore := by simpa using hf
        subst this
        have e : (step wallet s (.arch w .failBefore)).1 = s := by
          simp only [step]; split <;> rfl
        rw [e]; exact sameSet_refl _
      · rfl
    cases wallet
    · simp only [stepOk, first, second, Bool.true_and, Bool.false_and]; simp
    · by_cases h : (step true s (.arch w f)).2 = .ok
      · obtain ⟨_, h2, h3, _⟩ := archive_removes s w f h
        simp only [stepOk, first, second, Bool.true_and]
        simp only [h, snapSigners_eq]
        simp [h2, h3]
      · by_cases he : (step true s (.arch w f)).2 = .eArch ∨ (step true s (.arch w f)).2 = .eNf
        · have hc := step_arch_err_cache s w f he
          simp only [stepOk, first, second, Bool.true_and]
          simp only [hc, sameSet_refl]
          rcases he with he | he <;> simp [he]
        · have h1 : ¬ (step true s (.arch w f)).2 = .eArch := fun x => he (Or.inl x)
          have h2 : ¬ (step true s (.arch w f)).2 = .eNf := fun x => he (Or.inr x)
          simp only [stepOk, first, second, Bool.true_and]
          simp [h, h1, h2]

theorem signersOf_ne_of_known {c : Cache} (hwf : WF c) {w : Nat} (hk : known c w = true) :
    (signersOf c w).isEmpty = false := by
  unfold signersOf
  cases hf : c.find? (·.1 == w) with
  | none =>
    simp only [known, List.any_eq_true] at hk
    obtain ⟨e, he, hw⟩ := hk
    exact absurd hw (by simpa using List.find?_eq_none.1 hf e he)
  | some e =>
    have := hwf.2 e (List.mem_of_find?_eq_some hf)
    cases h : e.2 with
    | nil => exact absurd h this
    | cons a r => simp [h]

theorem syncOk_model (t : List Nat) (s : St) (hs : Sync t s) :
    syncOk t s.cache (restartSt s).cache = true := by
  simp only [syncOk, List.all_eq_true]
  intro w _
  by_cases ht : w ∈ t
  · simp [ht]
  · by_cases he : (snapSigners s.cache w).isEmpty = true
    · simp [he]
    · have hk := known_of_signersOf (c := s.cache) (w := w) (by simpa [snapSigners_eq] using he)
      have hd := hs w hk ht
      have hk' : known (restartSt s).cache w = true := by rw [(restart_exact s w).2]; exact hd
      have := signersOf_ne_of_known (wf_load s.disk) (w := w) (by simpa [restartSt] using hk')
      simp [snapSigners_eq, restartSt, this]

/-- `holdsTrace` (the monitor) accepts what the model does on every history, for both registries. -/
theorem holds_model_from (wallet : Bool) (ops : List Op) (t : List Nat) (s : St) (hs : Sync t s) :
    holdsTrace wallet t s.cache ops (run wallet s ops) = true := by
  induction ops generalizing s t with
  | nil => simp [run, holdsTrace]
  | cons op ops ih =>
    obtain ⟨h1, h2⟩ := stepOk_model wallet t s hs op
    have hs' := sync_step wallet t s op hs
    cases ops with
    | nil => simp [run, holdsTrace, h1]
    | cons op2 ops2 =>
      have ih' := ih (tornStep t op) (step wallet s op).1 hs'
      cases op2
      case restart =>
        simp only [run, holdsTrace, Bool.and_eq_true] at ih' ⊢
        exact ⟨⟨by simpa [step] using h2, by simpa [step] using syncOk_model _ _ hs'⟩, ih'⟩
      all_goals
        simp only [run, holdsTrace, Bool.and_eq_true] at ih' ⊢
        exact ⟨h1, ih'⟩

theorem holds_model (wallet : Bool) (ops : List Op) :
    holdsTrace wallet [] [] ops (run wallet {} ops) = true :=
  holds_model_from wallet ops [] {} (fun w hk _ => by simp [known] at hk)

/-! non-vacuity -/
example : (run true {} [.reg 1 1 0 .none, .reg 1 1 3 .none, .reg 2 2 1 .failAfter, .restart,
    .arch 1 .failAfter, .arch 1 .none, .restart]).map (·.2) =
    [[(1, [(1, 0)])], [(1, [(1, 0), (1, 3)])], [(1, [(1, 0), (1, 3)])], [(1, [(1, 3)]), (2, [(2, 1)])],
     [(1, [(1, 3)]), (2, [(2, 1)])], [(1, [(1, 3)]), (2, [(2, 1)])], [(2, [(2, 1)])]] := by decide
/-- the monitor rejects: a registered signer lost by the restart, key material changed by the
    restart, an archived wallet that comes back. -/
example : holdsTrace true [] [] [.reg 1 1 0 .none, .restart] [(.ok, [(1, [(1, 0)])]), (.restarted, [])] = false := by decide
example : holdsTrace true [] [] [.reg 1 1 0 .none, .restart] [(.ok, [(1, [(1, 0)])]), (.restarted, [(1, [(1, 2)])])] = false := by decide
example : holdsTrace true [] [] [.arch 1 .none, .restart] [(.ok, []), (.restarted, [(1, [(1, 0)])])] = false := by decide
example : holdsTrace true [] [(1, [(1, 0)])] [.arch 1 .failBefore] [(.eArch, [])] = false := by decide
/-- …a plain archival that leaves the wallet known (wrong directory key), … -/
example : holdsTrace false [] [(1, [(1, 0)])] [.arch 1 .none] [(.ok, [(1, [(1, 0)])])] = false := by decide
/-- …and a signer that entered memory although its registration reported a storage error. -/
example : holdsTrace true [] [] [.reg 1 1 0 .failBefore] [(.eSave, [(1, [(1, 0)])])] = false := by decide

end KeepVerif.C38
