import KeepVerif.Model.C05
/-!
# C05 — Beacon DKG fate: members keep group membership only as the chain decided

Theorems over `Model/C05.lean` for every local key, every on-chain event (or none: timeout),
every misbehaviour list, selected-operator list and operating-member set.
-/
namespace KeepVerif.C05

/-- T1 tie: the pre-publication delay extracted from the source (the timeout block formula of
    `waitForDkgResultEvent` is compared on every harness case). -/
theorem prePublication_fact : Gen.C05.prePublicationBlocks = 6 := by decide

/-- C05 (fate): the member keeps its membership **iff** an event arrived before the timeout,
    it carries the member's own group public key and does not list the member; and then the
    operating members are exactly the group members not listed as misbehaving. -/
theorem fate_iff (me : Nat) (myKey : Option String) (members : List Nat) (ev : Option Event)
    (ops : List Nat) :
    decideMemberFate me myKey members ev = .ok ops ↔
      ∃ e, ev = some e ∧ myKey = some e.key ∧ me ∉ e.misbehaved ∧
        ops = members.filter (fun m => !e.misbehaved.contains m) := by
  unfold decideMemberFate
  cases ev with
  | none => simp
  | some e =>
    cases myKey with
    | none => simp
    | some k =>
      by_cases hk : k = e.key
      · by_cases hm : me ∈ e.misbehaved
        · simp [hk, hm]
        · simp [hk, hm, eq_comm]
      · simp [hk]

/-- every way of being turned away has its own error (none is silently accepted) -/
theorem fate_errors (me : Nat) (myKey : Option String) (members : List Nat) (ev : Option Event) :
    (ev = none → decideMemberFate me myKey members ev = .error .timeout) ∧
    (∀ e k, ev = some e → myKey = some k → k ≠ e.key →
      decideMemberFate me myKey members ev = .error .key) ∧
    (∀ e, ev = some e → myKey = some e.key → me ∈ e.misbehaved →
      decideMemberFate me myKey members ev = .error .misbehaved) := by
  refine ⟨?_, ?_, ?_⟩
  · rintro rfl; rfl
  · rintro e k rfl rfl hk; simp [decideMemberFate, hk]
  · rintro e rfl rfl hm; simp [decideMemberFate, hm]

/-! ## sort -/

theorem insertSorted_perm (a : Nat) (l : List Nat) : (insertSorted a l).Perm (a :: l) := by
  induction l with
  | nil => exact List.Perm.refl _
  | cons b rest ih =>
    unfold insertSorted
    split
    · exact List.Perm.refl _
    · exact (List.Perm.cons b ih).trans (List.Perm.swap a b rest)

theorem sortIds_perm (l : List Nat) : (sortIds l).Perm l := by
  induction l with
  | nil => exact List.Perm.refl _
  | cons a rest ih =>
    show (insertSorted a (sortIds rest)).Perm (a :: rest)
    exact (insertSorted_perm a _).trans (List.Perm.cons a ih)

theorem insertSorted_sorted (a : Nat) (l : List Nat) (h : l.Pairwise (· ≤ ·)) :
    (insertSorted a l).Pairwise (· ≤ ·) := by
  induction l with
  | nil => simp [insertSorted]
  | cons b rest ih =>
    unfold insertSorted
    have hb := List.pairwise_cons.1 h
    split
    · rename_i hab
      refine List.pairwise_cons.2 ⟨?_, h⟩
      intro c hc
      simp only [List.mem_cons] at hc
      rcases hc with rfl | hc
      · exact hab
      · exact Nat.le_trans hab (hb.1 c hc)
    · rename_i hab
      refine List.pairwise_cons.2 ⟨?_, ih hb.2⟩
      intro c hc
      have := (insertSorted_perm a rest).mem_iff.1 hc
      simp only [List.mem_cons] at this
      rcases this with rfl | hc
      · omega
      · exact hb.1 c hc

/-- the operator list is built in member-index order -/
theorem sortIds_sorted (l : List Nat) : (sortIds l).Pairwise (· ≤ ·) := by
  induction l with
  | nil => simp [sortIds]
  | cons a rest ih => exact insertSorted_sorted a _ ih

theorem sortIds_of_sorted (l : List Nat) (h : l.Pairwise (· ≤ ·)) : sortIds l = l := by
  induction l with
  | nil => rfl
  | cons a rest ih =>
    have hb := List.pairwise_cons.1 h
    show insertSorted a (sortIds rest) = a :: rest
    rw [ih hb.2]
    cases rest with
    | nil => rfl
    | cons b r => simp [insertSorted, hb.1 b (by simp)]

/-! ## operator list -/

theorem pickAll_inrange (sel : List String) (l : List Nat)
    (h : ∀ id ∈ l, 1 ≤ id ∧ id ≤ sel.length ∧ id ≤ 255) :
    pickAll sel l = some (l.filterMap (fun id => sel[id - 1]?)) ∧
    (l.filterMap (fun id => sel[id - 1]?)).length = l.length := by
  induction l with
  | nil => exact ⟨rfl, rfl⟩
  | cons id rest ih =>
    obtain ⟨h1, h2, h3⟩ := h id (by simp)
    obtain ⟨ih1, ih2⟩ := ih (fun x hx => h x (by simp [hx]))
    have hidx : (id + 255) % 256 = id - 1 := by omega
    have hlt : id - 1 < sel.length := by omega
    have hget : sel[id - 1]? = some sel[id - 1] := List.getElem?_eq_getElem hlt
    have hcons : List.filterMap (fun id => sel[id - 1]?) (id :: rest) =
        sel[id - 1] :: List.filterMap (fun id => sel[id - 1]?) rest :=
      List.filterMap_cons_some (f := fun id => sel[id - 1]?) hget
    constructor
    · unfold pickAll pick
      rw [hidx, hget, ih1, hcons]
    · rw [hcons]
      simp [ih2]

/-- C05 (operators): for ids of group members the result is exactly the selected operators of
    these members, in member-index order (`selectedOperators[id-1]` over the sorted ids), under
    the size / threshold guard of the code. -/
theorem operators_exact (sel : List String) (ids : List Nat) (n honest : Nat)
    (hsel : sel.length = n) (hh : honest ≤ ids.length)
    (hids : ∀ id ∈ ids, 1 ≤ id ∧ id ≤ n ∧ id ≤ 255) :
    resolveGroupOperators sel ids n honest =
      .ok ((sortIds ids).filterMap (fun id => sel[id - 1]?)) ∧
    ((sortIds ids).filterMap (fun id => sel[id - 1]?)).length = ids.length := by
  have hr : ∀ id ∈ sortIds ids, 1 ≤ id ∧ id ≤ sel.length ∧ id ≤ 255 := by
    intro id hid
    have := hids id ((sortIds_perm ids).mem_iff.1 hid)
    omega
  obtain ⟨h1, h2⟩ := pickAll_inrange sel (sortIds ids) hr
  constructor
  · unfold resolveGroupOperators
    have : ¬ (sel.length ≠ n ∨ ids.length < honest) := by omega
    rw [if_neg this, h1]
  · rw [h2]; exact (sortIds_perm ids).length_eq

theorem operators_guard (sel : List String) (ids : List Nat) (n honest : Nat)
    (h : sel.length ≠ n ∨ ids.length < honest) :
    resolveGroupOperators sel ids n honest = .err .ops := by
  unfold resolveGroupOperators; rw [if_pos h]

/-! ## composition -/

theorem members_sorted (n : Nat) : (members n).Pairwise (· ≤ ·) := by
  unfold members
  have := List.pairwise_lt_range' (s := 1) (n := n) (step := 1)
  exact this.imp (fun h => Nat.le_of_lt h)

theorem mem_members {n i : Nat} : i ∈ members n ↔ 1 ≤ i ∧ i ≤ n := by
  unfold members
  rw [List.mem_range'_1]
  omega

theorem filterMap_filter_spec (misb : List Nat) (sel : List String) (l : List Nat) :
    (l.filter (fun m => !misb.contains m)).filterMap (fun id => sel[id - 1]?) =
      l.filterMap (fun i => if misb.contains i then none else sel[i - 1]?) := by
  induction l with
  | nil => rfl
  | cons a rest ih =>
    have ih' := ih
    simp only [List.contains_eq_mem] at ih'
    by_cases h : a ∈ misb
    · simp [List.filter_cons, List.filterMap_cons, h, ih']
    · simp only [List.filter_cons, List.filterMap_cons, List.contains_eq_mem, h, decide_false,
        Bool.not_false, if_true, if_false, ih']
      cases sel[a - 1]? <;> simp

/-- C05 main: on the failure path of `ExecuteDKG`, when the chain's event carries the member's
    key and does not list it, the group operator list is exactly the selected operators of the
    non-misbehaving members in member-index order — or the membership is dropped with
    `invalid input parameters` when fewer than the honest threshold remain. -/
theorem main (me n honest : Nat) (e : Event) (sel : List String) (hn : n ≤ 255)
    (hsel : sel.length = n) (hme : me ∉ e.misbehaved) :
    fateThenOperators me n honest (some e.key) (some e) sel =
      if ((members n).filter (fun m => !e.misbehaved.contains m)).length < honest then .err .ops
      else .ok (specOperators n e.misbehaved sel) := by
  have hf : decideMemberFate me (some e.key) (members n) (some e) =
      .ok ((members n).filter (fun m => !e.misbehaved.contains m)) := by
    simp [decideMemberFate, hme]
  unfold fateThenOperators
  rw [hf]
  simp only
  split
  · rename_i hlt
    exact operators_guard _ _ _ _ (Or.inr hlt)
  · rename_i hge
    have hids : ∀ id ∈ (members n).filter (fun m => !e.misbehaved.contains m),
        1 ≤ id ∧ id ≤ n ∧ id ≤ 255 := by
      intro id hid
      have := mem_members.1 (List.mem_filter.1 hid).1
      omega
    have hsorted : ((members n).filter (fun m => !e.misbehaved.contains m)).Pairwise (· ≤ ·) :=
      (members_sorted n).filter _
    rw [(operators_exact sel _ n honest hsel (by omega) hids).1, sortIds_of_sorted _ hsorted,
      filterMap_filter_spec]
    rfl

/-- …and in every other case the member does not stay (no operator list is produced). -/
theorem not_ok_unless_chain_decided (me n honest : Nat) (myKey : Option String) (ev : Option Event)
    (sel : List String) (ops : List String)
    (h : fateThenOperators me n honest myKey ev sel = .ok ops) : mayStay me myKey ev = true := by
  unfold fateThenOperators at h
  cases hf : decideMemberFate me myKey (members n) ev with
  | error e => rw [hf] at h; cases h
  | ok ids =>
    obtain ⟨e, rfl, rfl, hme, -⟩ := (fate_iff _ _ _ _ _).1 hf
    simp [mayStay, hme]

/-- monitor soundness: `holds` accepts the model's output for all inputs (group size ≤ 255). -/
theorem holds_model (me n honest : Nat) (myKey : Option String) (ev : Option Event)
    (sel : List String) (hn : n ≤ 255) :
    holds me n honest myKey ev sel (fateThenOperators me n honest myKey ev sel) = true := by
  by_cases hs : mayStay me myKey ev = true
  · -- the chain decided the member stays
    obtain ⟨e, rfl⟩ : ∃ e, ev = some e := by
      cases ev with
      | none => simp [mayStay] at hs
      | some e => exact ⟨e, rfl⟩
    obtain ⟨k, rfl⟩ : ∃ k, myKey = some k := by
      cases myKey with
      | none => simp [mayStay] at hs
      | some k => exact ⟨k, rfl⟩
    simp only [mayStay, Bool.and_eq_true, beq_iff_eq, Bool.not_eq_true',
      List.contains_eq_mem, decide_eq_false_iff_not] at hs
    obtain ⟨rfl, hme⟩ := hs
    have hstay : mayStay me (some e.key) (some e) = true := by simp [mayStay, hme]
    by_cases hsel : sel.length = n
    · rw [main me n honest e sel hn hsel hme]
      split
      · simp [holds, hstay]
      · rename_i hge
        have hids : ∀ id ∈ (members n).filter (fun m => !e.misbehaved.contains m),
            1 ≤ id ∧ id ≤ n ∧ id ≤ 255 := by
          intro id hid
          have := mem_members.1 (List.mem_filter.1 hid).1
          omega
        have hlen := (pickAll_inrange sel _ (by rw [hsel]; exact hids)).2
        rw [filterMap_filter_spec] at hlen
        have : honest ≤ (specOperators n e.misbehaved sel).length := by
          unfold specOperators; omega
        simp [holds, hstay, this]
    · have hf : decideMemberFate me (some e.key) (members n) (some e) =
          .ok ((members n).filter (fun m => !e.misbehaved.contains m)) := by
        simp [decideMemberFate, hme]
      unfold fateThenOperators
      rw [hf]
      simp only
      rw [operators_guard _ _ _ _ (Or.inl hsel)]
      simp [holds, hstay]
  · -- the member is turned away with one of the fate errors
    cases hr : fateThenOperators me n honest myKey ev sel with
    | ok ops => exact absurd (not_ok_unless_chain_decided _ _ _ _ _ _ _ hr) hs
    | panicIndex =>
      unfold fateThenOperators at hr
      cases hf : decideMemberFate me myKey (members n) ev with
      | error e => rw [hf] at hr; cases hr
      | ok ids =>
        obtain ⟨e, rfl, rfl, hme, -⟩ := (fate_iff _ _ _ _ _).1 hf
        exact absurd (by simp [mayStay, hme]) hs
    | err e =>
      cases e with
      | ops =>
        unfold fateThenOperators at hr
        cases hf : decideMemberFate me myKey (members n) ev with
        | error e' =>
          rw [hf] at hr
          simp only [Res.err.injEq] at hr
          subst hr
          -- decideMemberFate never returns `ops`
          unfold decideMemberFate at hf
          cases ev with
          | none => simp at hf
          | some e =>
            cases myKey with
            | none => simp at hf
            | some k => simp only at hf; split at hf <;> (try split at hf) <;> simp at hf
        | ok ids =>
          obtain ⟨e, rfl, rfl, hme, -⟩ := (fate_iff _ _ _ _ _).1 hf
          exact absurd (by simp [mayStay, hme]) hs
      | timeout => simp only [Bool.not_eq_true] at hs; simp [holds, hs]
      | nokey => simp only [Bool.not_eq_true] at hs; simp [holds, hs]
      | key => simp only [Bool.not_eq_true] at hs; simp [holds, hs]
      | misbehaved => simp only [Bool.not_eq_true] at hs; simp [holds, hs]

/-! ## The member's local view of the group does not matter -/

/-- C05: whatever the node itself marked inactive / disqualified during GJKR (its local view of
    `gjkrResult.Group`), the fate and the resulting operator list are the same: they depend on
    the chain-accepted result only.  For all local IA / DQ sets. -/
theorem fate_independent_of_local_view (me n honest : Nat) (myKey : Option String)
    (ev : Option Event) (sel : List String) (ia dq ia' dq' : List Nat) :
    fateThenOperatorsG me n honest myKey ev sel ia dq =
      fateThenOperatorsG me n honest myKey ev sel ia' dq' := rfl

theorem fateG_eq (me n honest : Nat) (myKey : Option String) (ev : Option Event)
    (sel : List String) (ia dq : List Nat) :
    fateThenOperatorsG me n honest myKey ev sel ia dq =
      fateThenOperators me n honest myKey ev sel := rfl

/-- monitor soundness with a local view: `holds` (which knows nothing of the local view)
    accepts the model's output for every local view. -/
theorem holds_model_local (me n honest : Nat) (myKey : Option String) (ev : Option Event)
    (sel : List String) (ia dq : List Nat) (hn : n ≤ 255) :
    holds me n honest myKey ev sel (fateThenOperatorsG me n honest myKey ev sel ia dq) = true := by
  rw [fateG_eq]; exact holds_model me n honest myKey ev sel hn

/-- C05, the caller: in the publication-failure branch of `ExecuteDKG` the signer's operators
    are those of the fate decision — the local view that `operatingMemberIndexes` held before is
    gone, for every local view. -/
theorem executeDkg_failure_branch (me n honest : Nat) (myKey : Option String) (ev : Option Event)
    (sel : List String) (ia dq : List Nat) :
    executeDkgTail false me n honest myKey ev sel ia dq =
      fateThenOperators me n honest myKey ev sel := rfl

theorem executeDkg_failure_branch_holds (me n honest : Nat) (myKey : Option String)
    (ev : Option Event) (sel : List String) (ia dq : List Nat) (hn : n ≤ 255) :
    holds me n honest myKey ev sel (executeDkgTail false me n honest myKey ev sel ia dq) = true := by
  rw [executeDkg_failure_branch]; exact holds_model me n honest myKey ev sel hn

/-- Non-vacuity: keeping the local view in the failure branch (a shadowed variable) gives member 5
    of the corpus run four operators instead of five, which the monitor rejects. -/
example : resolveGroupOperators ["op", "op", "op", "op", "op"]
    (⟨members 5, [2], []⟩ : Group).operating 5 3 = .ok ["op", "op", "op", "op"] := by decide
example : executeDkgTail false 5 5 3 (some "k") (some ⟨"k", []⟩) ["op", "op", "op", "op", "op"] [2] []
    = .ok ["op", "op", "op", "op", "op"] := by decide
example : holds 5 5 3 (some "k") (some ⟨"k", []⟩) ["op", "op", "op", "op", "op"]
    (.ok ["op", "op", "op", "op"]) = false := by decide

/-- Non-vacuity: a fate built from the local operating set (`Group.operating`) instead of the
    member list differs, and the monitor rejects it. -/
example : (⟨members 5, [4], []⟩ : Group).operating = [1, 2, 3, 5] := by decide
example : holds 3 5 3 (some "k1") (some ⟨"k1", [2]⟩) ["a", "b", "c", "d", "e"]
    (.ok ["a", "c", "e"]) = false := by decide
example : fateThenOperatorsG 3 5 3 (some "k1") (some ⟨"k1", [2]⟩) ["a", "b", "c", "d", "e"] [4] []
    = .ok ["a", "c", "d", "e"] := by decide

/-! ## Non-vacuity -/

example : fateThenOperators 3 5 3 (some "k1") (some ⟨"k1", [2, 4]⟩) ["a", "b", "c", "d", "e"]
    = .ok ["a", "c", "e"] := by decide
example : resolveGroupOperators ["a", "b", "c", "d", "e"] [5, 1, 3] 5 3 = .ok ["a", "c", "e"] := by
  decide
example : fateThenOperators 3 5 3 (some "k1") (some ⟨"k2", []⟩) ["a", "b", "c", "d", "e"]
    = .err .key := by decide
example : holds 3 5 3 (some "k1") (some ⟨"k1", [2, 4]⟩) ["a", "b", "c", "d", "e"]
    (.ok ["a", "c", "e"]) = true := by decide
/-- the monitor rejects: a misbehaving member kept, a wrong order, staying after a key mismatch -/
example : holds 3 5 3 (some "k1") (some ⟨"k1", [2, 4]⟩) ["a", "b", "c", "d", "e"]
    (.ok ["a", "b", "c", "e"]) = false := by decide
example : holds 3 5 3 (some "k1") (some ⟨"k1", [2, 4]⟩) ["a", "b", "c", "d", "e"]
    (.ok ["e", "c", "a"]) = false := by decide
example : holds 3 5 3 (some "k1") (some ⟨"k2", []⟩) ["a", "b", "c", "d", "e"]
    (.ok ["a", "b", "c", "d", "e"]) = false := by decide
example : resolveGroupOperators ["a", "b"] [0, 1] 2 1 = .panicIndex := by decide

end KeepVerif.C05
