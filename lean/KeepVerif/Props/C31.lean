import KeepVerif.Model.C31
/-!
# C31 — Assembled SPV proofs prove the transaction

Theorems over `Model/C31.lean`, for **every** hash function `H` (the driver instantiates it with
double SHA-256, the theorems never look inside).
-/
namespace KeepVerif.C31
open KeepVerif.C29 (Bytes)

variable (H : Bytes → Bytes) (S : Bytes → Bytes)

/-! ## Merkle tree correctness -/

theorem pairUp_length : ∀ l : List Bytes, (pairUp H l).length = (l.length + 1) / 2
  | [] => rfl
  | [_] => by simp [pairUp]
  | _ :: _ :: rest => by
    simp only [pairUp, List.length_cons, pairUp_length rest]; omega

/-- the parent of position `pos` is the hash of the node and its sibling, sibling on the left
    iff `pos` is odd; a missing right sibling is the node itself (Bitcoin's duplication rule). -/
theorem pairUp_getD : ∀ (l : List Bytes) (pos : Nat), pos < l.length →
    (pairUp H l).getD (pos / 2) [] =
      if pos % 2 = 1 then H (sibling l pos ++ l.getD pos []) else H (l.getD pos [] ++ sibling l pos)
  | [], pos, h => by simp at h
  | [a], pos, h => by
    have : pos = 0 := by simpa using h
    subst this; simp [pairUp, sibling]
  | a :: b :: rest, 0, _ => by simp [pairUp, sibling]
  | a :: b :: rest, 1, _ => by simp [pairUp, sibling]
  | a :: b :: rest, pos + 2, h => by
    have ih := pairUp_getD rest pos (by simpa using h)
    have e1 : (pos + 2) / 2 = pos / 2 + 1 := by omega
    have e2 : (pos + 2) % 2 = pos % 2 := by omega
    have hs : sibling (a :: b :: rest) (pos + 2) = sibling rest pos := by
      unfold sibling
      rw [e2]
      by_cases hp : pos % 2 = 0
      · rw [if_pos hp, if_pos hp]; simp
      · rw [if_neg hp, if_neg hp]
        have : pos + 2 - 1 = (pos - 1) + 2 := by omega
        rw [this]; simp
    rw [e1, e2, hs]
    simp only [pairUp, List.getD_cons_succ]
    exact ih

/-- **branch_verifies** (fuel form): walking the branch from leaf `pos` reaches the root. -/
theorem branchF_verifies : ∀ (f : Nat) (l : List Bytes) (pos : Nat), pos < l.length → l.length ≤ f →
    verifyBranch H (l.getD pos []) pos (branchF H f l pos) = rootF H f l
  | 0, l, pos, hp, hf => by omega
  | f + 1, l, pos, hp, hf => by
    unfold branchF rootF
    by_cases h1 : l.length ≤ 1
    · have : pos = 0 := by omega
      subst this
      simp [h1, verifyBranch]
    · rw [if_neg h1, if_neg h1]
      simp only [verifyBranch]
      rw [← pairUp_getD H l pos hp]
      apply branchF_verifies f (pairUp H l) (pos / 2)
      · rw [pairUp_length]; omega
      · rw [pairUp_length]; omega

/-- **branch_verifies**: for every block (any number of transactions, odd levels included) and
    every position, the Merkle branch the oracle hands out verifies against the block's root at
    that position. -/
theorem branch_verifies (leaves : List Bytes) (pos : Nat) (hp : pos < leaves.length) :
    verifyBranch H (leaves.getD pos []) pos (branch H leaves pos) = merkleRoot H leaves :=
  branchF_verifies H leaves.length leaves pos hp (Nat.le_refl _)


/-! ## proof byte layout -/

/-- **reverse_concat_layout**: the oracle's nodes are in RPC byte order; `createMerkleProof`
    reverses each one back, so the proof bytes are the internal-order nodes concatenated. -/
theorem createMerkleProof_layout (nodes : List Bytes) :
    createMerkleProof (nodes.map List.reverse) = nodes.flatten := by
  induction nodes with
  | nil => rfl
  | cons n ns ih =>
    simp only [createMerkleProof, List.map_cons, List.flatMap_cons, List.reverse_reverse,
      List.flatten_cons] at *
    rw [ih]

theorem chunksF_flatten (n : Nat) (hn : 0 < n) : ∀ (xs : List Bytes) (f : Nat),
    (∀ x ∈ xs, x.length = n) → xs.flatten.length ≤ f → chunksF n f xs.flatten = xs
  | [], f, _, _ => by cases f <;> simp [chunksF]
  | x :: xs, 0, h, hf => by
    have : x.length = n := h x (by simp)
    simp only [List.flatten_cons, List.length_append] at hf; omega
  | x :: xs, f + 1, h, hf => by
    have hx : x.length = n := h x (by simp)
    have hne : (x ++ xs.flatten).isEmpty = false := by
      cases x with
      | nil => simp only [List.length_nil] at hx; omega
      | cons _ _ => rfl
    simp only [List.flatten_cons, chunksF, hne, Bool.false_eq_true, if_false]
    rw [List.take_left' hx, List.drop_left' hx]
    rw [chunksF_flatten n hn xs f (fun y hy => h y (by simp [hy]))
      (by simp only [List.flatten_cons, List.length_append] at hf; omega)]

/-- the verifier's 32-byte (80-byte) chunking recovers the concatenated nodes (headers) -/
theorem chunks_flatten (n : Nat) (hn : 0 < n) (xs : List Bytes) (h : ∀ x ∈ xs, x.length = n) :
    chunks n xs.flatten = xs :=
  chunksF_flatten n hn xs _ h (Nat.le_refl _)

/-! ## growth between the confirmations query and the latest-height query -/

theorem indexOf_some_mem : ∀ (l : List Bytes) (x : Bytes) (p : Nat), indexOf l x = some p → x ∈ l
  | [], x, p, h => by simp [indexOf] at h
  | y :: ys, x, p, h => by
    unfold indexOf at h
    by_cases hy : y = x
    · simp [hy]
    · rw [if_neg hy] at h
      cases hi : indexOf ys x with
      | none => simp [hi] at h
      | some q => simp [indexOf_some_mem ys x q hi]

theorem findHeightFrom_spec : ∀ (chain : List Block) (tip : Nat) (txid : Bytes) (off h : Nat),
    findHeightFrom chain tip txid off = some h →
      off ≤ h ∧ h ≤ tip ∧ ∃ b, chain[h - off]? = some b ∧ txid ∈ b.leaves
  | [], _, _, _, _, hf => by simp [findHeightFrom] at hf
  | b :: bs, tip, txid, off, h, hf => by
    unfold findHeightFrom at hf
    by_cases h1 : off > tip
    · simp [h1] at hf
    · rw [if_neg h1] at hf
      cases hi : indexOf b.leaves txid with
      | some p =>
        simp [hi] at hf
        subst hf
        exact ⟨Nat.le_refl _, by omega, b, by simp, indexOf_some_mem _ _ _ hi⟩
      | none =>
        simp [hi] at hf
        obtain ⟨a, c, b', hb, hm⟩ := findHeightFrom_spec bs tip txid (off + 1) h hf
        refine ⟨by omega, c, b', ?_, hm⟩
        have : h - off = (h - (off + 1)) + 1 := by omega
        rw [this]; simpa using hb

/-- the transaction id occurs in one block only (A-hash) -/
def UniqueTx (chain : List Block) (txid : Bytes) : Prop :=
  ∀ (i j : Nat) (bi bj : Block), chain[i]? = some bi → chain[j]? = some bj → txid ∈ bi.leaves → txid ∈ bj.leaves → i = j

/-- **wrong_height_fails** (the oracle assumption made explicit): a Merkle query for a height
    other than the transaction's block has no answer. -/
theorem wrong_height_fails (chain : List Block) (tip : Nat) (txid : Bytes) (h x : Nat) (b : Block)
    (hu : UniqueTx chain txid) (hb : chain[h]? = some b) (hm : txid ∈ b.leaves) (hx : x ≠ h) :
    merkleQuery H chain tip txid x = none := by
  unfold merkleQuery
  split
  · cases hc : chain[x]? with
    | none => rfl
    | some bx =>
      cases hi : indexOf bx.leaves txid with
      | none => simp [hi]
      | some p =>
        exact absurd (hu x h bx b hc hb (indexOf_some_mem _ _ _ hi) hm) hx
  · rfl

/-- **assemble_growth_early_fails** — the interesting schedule of the property: if any block
    becomes visible between `GetTransactionConfirmations` and `GetLatestBlockHeight`
    (`tips 2 ≠ tips 0`), the computed `txBlockHeight` is shifted by the growth, the Merkle query
    for that height has no answer, and assembly returns an error — for every chain, every
    transaction position, every later growth; never a proof for the wrong block. -/
theorem assemble_growth_early_fails (chain : List Block) (tips : Nat → Nat) (txid : Bytes) (req : Nat)
    (hu : UniqueTx chain txid) (mono : tips 0 ≤ tips 2) (hne : tips 2 ≠ tips 0)
    (hW : tips 2 < 18446744073709551616) :
    ∃ e, assemble H S chain tips txid req = .error e := by
  unfold assemble
  cases hf : findHeight chain (tips 0) txid with
  | none => exact ⟨_, rfl⟩
  | some h =>
    obtain ⟨_, hle, b, hb, hm⟩ := findHeightFrom_spec chain (tips 0) txid 0 h hf
    simp only [Nat.sub_zero] at hb
    simp only []
    split
    · exact ⟨_, rfl⟩
    · have hx : (tips 2 + 18446744073709551616 - (tips 0 - h + 1) + 1) % 18446744073709551616 ≠ h := by
        omega
      rw [wrong_height_fails H chain _ txid h _ b hu hb hm hx]
      split <;> exact ⟨_, rfl⟩

/-- with no growth before the latest-height query the computed height is the transaction's
    block, also for height 0 where `latest - confirmations` passes through `-1` in `uint`. -/
theorem txHeight_static (t h : Nat) (hle : h ≤ t) (hW : t < 18446744073709551616) :
    (t + 18446744073709551616 - (t - h + 1) + 1) % 18446744073709551616 = h := by
  omega


/-! ## end to end: an assembled proof verifies -/

/-- A well-formed chain: 80-byte headers carrying the Merkle root of their block's transaction
    ids and the hash of the previous header; 32-byte ids; the first id is the coinbase's. -/
structure ValidChain (chain : List Block) : Prop where
  header_len : ∀ (i : Nat) (b : Block), chain[i]? = some b → b.header.length = 80
  root : ∀ (i : Nat) (b : Block), chain[i]? = some b → headerRoot b.header = merkleRoot H b.leaves
  leaf_len : ∀ (i : Nat) (b : Block), chain[i]? = some b → ∀ l ∈ b.leaves, l.length = 32
  coinbase : ∀ (i : Nat) (b : Block), chain[i]? = some b → ∃ rest, b.leaves = H b.coinbaseRaw :: rest
  link : ∀ (i : Nat) (a b : Block), chain[i]? = some a → chain[i + 1]? = some b →
    headerPrev b.header = H a.header

theorem indexOf_spec : ∀ (l : List Bytes) (x : Bytes) (p : Nat), indexOf l x = some p →
    p < l.length ∧ l.getD p [] = x
  | [], x, p, h => by simp [indexOf] at h
  | y :: ys, x, p, h => by
    unfold indexOf at h
    by_cases hy : y = x
    · rw [if_pos hy] at h
      cases h
      simp [hy]
    · rw [if_neg hy] at h
      cases hi : indexOf ys x with
      | none => simp [hi] at h
      | some q =>
        simp [hi] at h
        subst h
        obtain ⟨a, b⟩ := indexOf_spec ys x q hi
        exact ⟨by simp only [List.length_cons]; omega, by simpa using b⟩

theorem flatten_length_const (n : Nat) : ∀ (xs : List Bytes), (∀ x ∈ xs, x.length = n) →
    xs.flatten.length = n * xs.length
  | [], _ => by simp
  | x :: xs, h => by
    have hx : x.length = n := h x (by simp)
    have ih := flatten_length_const n xs (fun y hy => h y (by simp [hy]))
    simp only [List.flatten_cons, List.length_append, List.length_cons, hx, ih, Nat.mul_succ]
    omega

/-- **header-chain linkage**: the headers `getHeadersChain` collects (whatever the tips of the
    individual queries were) are the 80-byte headers of consecutive blocks of the one chain,
    each linked to its predecessor by hash, starting with the header at `height`. -/
theorem getHeaders_spec (chain : List Block) (tips : Nat → Nat) (v : ValidChain H chain) :
    ∀ (n q height : Nat) (hs : List Bytes), getHeaders chain tips q height n = some hs →
      hs.length = n ∧ (∀ x ∈ hs, x.length = 80) ∧ linked H hs = true ∧
      (0 < n → hs.head? = (chain[height]?).map (·.header))
  | 0, q, height, hs, h => by
    simp only [getHeaders, Option.some.injEq] at h
    subst h
    simp [linked]
  | n + 1, q, height, hs, h => by
    unfold getHeaders at h
    cases hh : headerAt chain (tips q) height with
    | none => simp [hh] at h
    | some hd =>
      rw [hh] at h
      simp only [] at h
      cases hr : getHeaders chain tips (q + 1) (height + 1) n with
      | none => simp [hr] at h
      | some rest =>
        rw [hr] at h
        simp only [Option.some.injEq] at h
        subst h
        obtain ⟨rl, r80, rlink, rhead⟩ := getHeaders_spec chain tips v n (q + 1) (height + 1) rest hr
        -- the header at `height`
        have hb : ∃ b, chain[height]? = some b ∧ hd = b.header := by
          unfold headerAt at hh
          split at hh
          · cases hc : chain[height]? with
            | none => simp [hc] at hh
            | some b => exact ⟨b, rfl, by simpa [hc] using hh.symm⟩
          · cases hh
        obtain ⟨b, hbc, hbe⟩ := hb
        refine ⟨by simp [rl], ?_, ?_, ?_⟩
        · intro x hx
          simp only [List.mem_cons] at hx
          rcases hx with rfl | hx
          · rw [hbe]; exact v.header_len height b hbc
          · exact r80 x hx
        · cases rest with
          | nil => simp [linked]
          | cons r rs =>
            have hn : 0 < n := by simp at rl; omega
            have hh' := rhead hn
            simp only [List.head?_cons] at hh'
            cases hc : chain[height + 1]? with
            | none => simp [hc] at hh'
            | some b' =>
              simp only [hc, Option.map_some, Option.some.injEq] at hh'
              have := v.link height b b' hbc hc
              simp only [linked, Bool.and_eq_true, decide_eq_true_eq]
              exact ⟨by rw [hh', hbe]; exact this, rlink⟩
        · intro _
          simp [hbc, hbe]

theorem merkleQuery_some (chain : List Block) (tip : Nat) (x : Bytes) (h : Nat)
    (nodes : List Bytes) (pos : Nat) (hq : merkleQuery H chain tip x h = some (nodes, pos)) :
    ∃ b, chain[h]? = some b ∧ indexOf b.leaves x = some pos ∧
      nodes = (branch H b.leaves pos).map List.reverse := by
  unfold merkleQuery at hq
  split at hq
  · cases hc : chain[h]? with
    | none => simp [hc] at hq
    | some b =>
      rw [hc] at hq
      simp only [] at hq
      cases hi : indexOf b.leaves x with
      | none => simp [hi] at hq
      | some p =>
        rw [hi] at hq
        simp only [Option.some.injEq, Prod.mk.injEq] at hq
        obtain ⟨h1, h2⟩ := hq
        subst h2
        exact ⟨b, rfl, hi, h1.symm⟩
  · cases hq

theorem pairUp_node_len (hlen : ∀ x, (H x).length = 32) : ∀ (l : List Bytes), ∀ x ∈ pairUp H l, x.length = 32
  | [], x, hx => by simp [pairUp] at hx
  | [a], x, hx => by simp [pairUp] at hx; rw [hx]; exact hlen _
  | a :: b :: rest, x, hx => by
    simp only [pairUp, List.mem_cons] at hx
    rcases hx with rfl | hx
    · exact hlen _
    · exact pairUp_node_len hlen rest x hx

theorem getD_lt (l : List Bytes) (i : Nat) (d : Bytes) (h : i < l.length) : l.getD i d = l[i] := by
  simp [List.getD_eq_getElem?_getD, h]

theorem getD_mem (l : List Bytes) (i : Nat) (d : Bytes) : l.getD i d = d ∨ l.getD i d ∈ l := by
  by_cases h : i < l.length
  · right
    rw [getD_lt l i d h]
    exact List.getElem_mem h
  · left
    simp [List.getD_eq_getElem?_getD, List.getElem?_eq_none (Nat.le_of_not_lt h)]

theorem sibling_len (l : List Bytes) (pos : Nat) (hl : ∀ x ∈ l, x.length = 32) (hp : pos < l.length) :
    (sibling l pos).length = 32 := by
  unfold sibling
  have hd : (l.getD pos []).length = 32 := by
    rw [getD_lt l pos [] hp]; exact hl _ (List.getElem_mem hp)
  rcases getD_mem l (if pos % 2 = 0 then pos + 1 else pos - 1) (l.getD pos []) with h | h
  · rw [h]; exact hd
  · exact hl _ h

/-- every node of a branch is 32 bytes long -/
theorem branchF_node_len (hlen : ∀ x, (H x).length = 32) : ∀ (f : Nat) (l : List Bytes) (pos : Nat),
    (∀ x ∈ l, x.length = 32) → pos < l.length → ∀ n ∈ branchF H f l pos, n.length = 32
  | 0, _, _, _, _, n, hn => by simp [branchF] at hn
  | f + 1, l, pos, hl, hp, n, hn => by
    unfold branchF at hn
    by_cases h1 : l.length ≤ 1
    · simp [h1] at hn
    · rw [if_neg h1] at hn
      simp only [List.mem_cons] at hn
      rcases hn with rfl | hn
      · exact sibling_len l pos hl hp
      · exact branchF_node_len hlen f (pairUp H l) (pos / 2) (pairUp_node_len H hlen l)
          (by rw [pairUp_length]; omega) n hn

/-- **equal path lengths**: the branch length depends on the block only, not on the position -/
theorem branchF_length_indep : ∀ (f : Nat) (l : List Bytes) (p q : Nat),
    (branchF H f l p).length = (branchF H f l q).length
  | 0, _, _, _ => rfl
  | f + 1, l, p, q => by
    unfold branchF
    by_cases h1 : l.length ≤ 1
    · simp [h1]
    · simp only [if_neg h1, List.length_cons]
      rw [branchF_length_indep f (pairUp H l) (p / 2) (q / 2)]

/-- **assemble_static_verifies**: whenever the latest-height query sees the same tip as the
    confirmations query, a returned proof is accepted by the independent verifier — for every
    hash function, every valid chain, every transaction position, every required count ≥ 1, and
    *whatever* the tips of all later queries are (late growth included: nothing is assumed about
    `tips k` for `k ≥ 3`). -/
theorem assemble_static_verifies (hlen : ∀ x, (H x).length = 32) (hHS : ∀ x, H x = S (S x))
    (chain : List Block) (v : ValidChain H chain) (tips : Nat → Nat) (txid : Bytes) (req : Nat)
    (hreq : 1 ≤ req) (hstat : tips 2 = tips 0) (hW : tips 0 < 18446744073709551616)
    (p : Proof) (hp : assemble H S chain tips txid req = .ok p) :
    verify H S txid req p = true := by
  unfold assemble at hp
  cases hf : findHeight chain (tips 0) txid with
  | none => simp [hf] at hp
  | some h =>
    obtain ⟨_, hle, _, _, _⟩ := findHeightFrom_spec chain (tips 0) txid 0 h hf
    rw [hf] at hp
    simp only [] at hp
    split at hp
    · cases hp
    · rw [hstat, txHeight_static (tips 0) h hle hW] at hp
      cases hg : getHeaders chain tips 3 h req with
      | none => simp [hg] at hp
      | some hs =>
        rw [hg] at hp
        simp only [] at hp
        obtain ⟨hsl, hs80, hslink, hshead⟩ := getHeaders_spec H chain tips v req 3 h hs hg
        cases hm : merkleQuery H chain (tips (3 + req)) txid h with
        | none => simp [hm] at hp
        | some r =>
          obtain ⟨nodes, pos⟩ := r
          rw [hm] at hp
          simp only [] at hp
          obtain ⟨b, hb, hidx, hnodes⟩ := merkleQuery_some H chain _ txid h nodes pos hm
          cases hc : coinbaseQuery chain (tips (3 + req + 1)) h with
          | none => simp [hc] at hp
          | some cb =>
            rw [hc] at hp
            simp only [] at hp
            cases hm2 : merkleQuery H chain (tips (3 + req + 3)) cb h with
            | none => simp [hm2] at hp
            | some r2 =>
              obtain ⟨cnodes, cpos⟩ := r2
              rw [hm2] at hp
              simp only [Except.ok.injEq] at hp
              obtain ⟨b2, hb2, hidx2, hcnodes⟩ := merkleQuery_some H chain _ cb h cnodes cpos hm2
              have hbb : b2 = b := by rw [hb] at hb2; cases hb2; rfl
              subst hbb
              -- the coinbase id is the first leaf
              obtain ⟨rest, hleaves⟩ := v.coinbase h b2 hb
              have hcb : cb = H b2.coinbaseRaw := by
                unfold coinbaseQuery at hc
                split at hc
                · simp [hb, hleaves] at hc; exact hc.symm
                · cases hc
              have hcpos : cpos = 0 := by
                rw [hleaves, hcb] at hidx2
                simp [indexOf] at hidx2
                exact hidx2.symm
              subst hcpos
              obtain ⟨hpos, hget⟩ := indexOf_spec _ _ _ hidx
              have hl32 := v.leaf_len h b2 hb
              have hlpos : 0 < b2.leaves.length := by rw [hleaves]; simp
              have hbr32 : ∀ n ∈ branch H b2.leaves pos, n.length = 32 :=
                branchF_node_len H hlen _ _ _ hl32 hpos
              have hcbr32 : ∀ n ∈ branch H b2.leaves 0, n.length = 32 :=
                branchF_node_len H hlen _ _ _ hl32 hlpos
              have hhead : hs.getD 0 [] = b2.header := by
                have := hshead (by omega)
                rw [hb] at this
                cases hs with
                | nil => simp at this
                | cons x xs => simp at this; simp [this]
              have hroot := v.root h b2 hb
              have hb1 := branch_verifies H b2.leaves pos hpos
              have hb0 := branch_verifies H b2.leaves 0 hlpos
              have hget0 : b2.leaves.getD 0 [] = H b2.coinbaseRaw := by rw [hleaves]; simp
              subst hp
              unfold verify
              simp only [hnodes, hcnodes, createMerkleProof_layout, hb,
                chunks_flatten 80 (by decide) hs hs80, chunks_flatten 32 (by decide) _ hbr32,
                chunks_flatten 32 (by decide) _ hcbr32, hhead, hroot, Option.map_some,
                Option.getD_some, ← hHS, Bool.and_eq_true, decide_eq_true_eq]
              refine ⟨⟨⟨⟨⟨⟨hreq, ?_⟩, hslink⟩, ?_⟩, ?_⟩, ?_⟩, ?_⟩
              · rw [flatten_length_const 80 hs hs80, hsl]
              · rw [flatten_length_const 32 _ hbr32]; omega
              · rw [← hget]; exact hb1
              · rw [flatten_length_const 32 _ hcbr32, flatten_length_const 32 _ hbr32]
                unfold branch
                rw [branchF_length_indep H _ _ 0 pos]
              · rw [← hget0]; exact hb0

/-- **assemble_growth_safe** — C31: on every valid chain, for every append-only growth schedule
    (`tips 0 ≤ tips 2`; later tips arbitrary), every transaction occurring in one block only,
    every required count ≥ 1 and every hash function: assembly either fails or returns a proof
    the independent verifier accepts. -/
theorem assemble_growth_safe (hlen : ∀ x, (H x).length = 32) (hHS : ∀ x, H x = S (S x))
    (chain : List Block) (v : ValidChain H chain) (tips : Nat → Nat) (txid : Bytes) (req : Nat)
    (hu : UniqueTx chain txid) (hreq : 1 ≤ req) (mono : tips 0 ≤ tips 2)
    (hW : tips 2 < 18446744073709551616) :
    match assemble H S chain tips txid req with
    | .error _ => True
    | .ok p => verify H S txid req p = true := by
  by_cases hst : tips 2 = tips 0
  · cases hr : assemble H S chain tips txid req with
    | error e => trivial
    | ok p =>
      exact assemble_static_verifies H S hlen hHS chain v tips txid req hreq hst (by omega) p hr
  · obtain ⟨e, he⟩ := assemble_growth_early_fails H S chain tips txid req hu mono hst hW
    rw [he]
    trivial


/-! Non-vacuity: the hypotheses of `assemble_growth_safe` are satisfiable and assembly succeeds. -/
section
private def H0 : Bytes → Bytes := fun _ => zeros32
private def chain0 : List Block := [⟨List.replicate 80 0, [zeros32], []⟩, ⟨List.replicate 80 0, [zeros32], []⟩]

example : (assemble H0 H0 chain0 (fun _ => 1) zeros32 2).toOption.isSome = true := by decide

example : ValidChain H0 chain0 := by
  have hc : ∀ (i : Nat) (b : Block), chain0[i]? = some b → b = ⟨List.replicate 80 0, [zeros32], []⟩ := by
    intro i b h
    match i, h with
    | 0, h => simp [chain0] at h; exact h.symm
    | 1, h => simp [chain0] at h; exact h.symm
    | i + 2, h => simp [chain0] at h
  refine ⟨?_, ?_, ?_, ?_, ?_⟩
  · intro i b h; rw [hc i b h]; decide
  · intro i b h; rw [hc i b h]; decide
  · intro i b h; rw [hc i b h]; decide
  · intro i b h; rw [hc i b h]; exact ⟨[], rfl⟩
  · intro i a b h1 h2; rw [hc _ b h2, hc _ a h1]; decide
end

end KeepVerif.C31
