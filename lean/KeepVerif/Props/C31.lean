import KeepVerif.Model.C31
/-!
# C31 — Assembled SPV proofs prove the transaction

Theorems over `Model/C31.lean`, for **every** hash function `H` (the driver instantiates it with
double SHA-256, the theorems never look inside).
-/
namespace KeepVerif.C31
open KeepVerif.C29 (Bytes)

variable (H : Bytes → Bytes) (S : Bytes → Bytes)

/-! ## Merkle tree correctness -/

theorem pairUp_length : ∀ l : List Bytes, (pairUp H l).length = (l.length + 1) / 2
  | [] => rfl
  | [_] => by simp [pairUp]
  | _ :: _ :: rest => by
    simp only [pairUp, List.length_cons, pairUp_length rest]; omega

/-- the parent of position `pos` is the hash of the node and its sibling, sibling on the left
    iff `pos` is odd; a missing right sibling is the node itself (Bitcoin's duplication rule). -/
theorem pairUp_getD : ∀ (l : List Bytes) (pos : Nat), pos < l.length →
    (pairUp H l).getD (pos / 2) [] =
      if pos % 2 = 1 then H (sibling l pos ++ l.getD pos []) else H (l.getD pos [] ++ sibling l pos)
  | [], pos, h => by simp at h
  | [a], pos, h => by
    have : pos = 0 := by simpa using h
    subst this; simp [pairUp, sibling]
  | a :: b :: rest, 0, _ => by simp [pairUp, sibling]
  | a :: b :: rest, 1, _ => by simp [pairUp, sibling]
  | a :: b :: rest, pos + 2, h => by
    have ih := pairUp_getD rest pos (by simpa using h)
    have e1 : (pos + 2) / 2 = pos / 2 + 1 := by omega
    have e2 : (pos + 2) % 2 = pos % 2 := by omega
    have hs : sibling (a :: b :: rest) (pos + 2) = sibling rest pos := by
      unfold sibling
      rw [e2]
      by_cases hp : pos % 2 = 0
      · rw [if_pos hp, if_pos hp]; simp
      · rw [if_neg hp, if_neg hp]
        have : pos + 2 - 1 = (pos - 1) + 2 := by omega
        rw [this]; simp
    rw [e1, e2, hs]
    simp only [pairUp, List.getD_cons_succ]
    exact ih

/-- **branch_verifies** (fuel form): walking the branch from leaf `pos` reaches the root. -/
theorem branchF_verifies : ∀ (f : Nat) (l : List Bytes) (pos : Nat), pos < l.length → l.length ≤ f →
    verifyBranch H (l.getD pos []) pos (branchF H f l pos) = rootF H f l
  | 0, l, pos, hp, hf => by omega
  | f + 1, l, pos, hp, hf => by
    unfold branchF rootF
    by_cases h1 : l.length ≤ 1
    · have : pos = 0 := by omega
      subst this
      simp [h1, verifyBranch]
    · rw [if_neg h1, if_neg h1]
      simp only [verifyBranch]
      rw [← pairUp_getD H l pos hp]
      apply branchF_verifies f (pairUp H l) (pos / 2)
      · rw [pairUp_length]; omega
      · rw [pairUp_length]; omega

/-- **branch_verifies**: for every block (any number of transactions, odd levels included) and
    every position, the Merkle branch the oracle hands out verifies against the block's root at
    that position. -/
theorem branch_verifies (leaves : List Bytes) (pos : Nat) (hp : pos < leaves.length) :
    verifyBranch H (leaves.getD pos []) pos (branch H leaves pos) = merkleRoot H leaves :=
  branchF_verifies H leaves.length leaves pos hp (Nat.le_refl _)

end KeepVerif.C31
