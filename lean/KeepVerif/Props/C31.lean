import KeepVerif.Model.C31
/-!
# C31 — Assembled SPV proofs prove the transaction

Theorems over `Model/C31.lean`, for **every** hash function `H` (the driver instantiates it with
double SHA-256, the theorems never look inside).
-/
namespace KeepVerif.C31
open KeepVerif.C29 (Bytes)

variable (H : Bytes → Bytes) (S : Bytes → Bytes)

/-! ## Merkle tree correctness -/

theorem pairUp_length : ∀ l : List Bytes, (pairUp H l).length = (l.length + 1) / 2
  | [] => rfl
  | [_] => by simp [pairUp]
  | _ :: _ :: rest => by
    simp only [pairUp, List.length_cons, pairUp_length rest]; omega

/-- the parent of position `pos` is the hash of the node and its sibling, sibling on the left
    iff `pos` is odd; a missing right sibling is the node itself (Bitcoin's duplication rule). -/
theorem pairUp_getD : ∀ (l : List Bytes) (pos : Nat), pos < l.length →
    (pairUp H l).getD (pos / 2) [] =
      if pos % 2 = 1 then H (sibling l pos ++ l.getD pos []) else H (l.getD pos [] ++ sibling l pos)
  | [], pos, h => by simp at h
  | [a], pos, h => by
    have : pos = 0 := by simpa using h
    subst this; simp [pairUp, sibling]
  | a :: b :: rest, 0, _ => by simp [pairUp, sibling]
  | a :: b :: rest, 1, _ => by simp [pairUp, sibling]
  | a :: b :: rest, pos + 2, h => by
    have ih := pairUp_getD rest pos (by simpa using h)
    have e1 : (pos + 2) / 2 = pos / 2 + 1 := by omega
    have e2 : (pos + 2) % 2 = pos % 2 := by omega
    have hs : sibling (a :: b :: rest) (pos + 2) = sibling rest pos := by
      unfold sibling
      rw [e2]
      by_cases hp : pos % 2 = 0
      · rw [if_pos hp, if_pos hp]; simp
      · rw [if_neg hp, if_neg hp]
        have : pos + 2 - 1 = (pos - 1) + 2 := by omega
        rw [this]; simp
    rw [e1, e2, hs]
    simp only [pairUp, List.getD_cons_succ]
    exact ih

/-- **branch_verifies** (fuel form): walking the branch from leaf `pos` reaches the root. -/
theorem branchF_verifies : ∀ (f : Nat) (l : List Bytes) (pos : Nat), pos < l.length → l.length ≤ f →
    verifyBranch H (l.getD pos []) pos (branchF H f l pos) = rootF H f l
  | 0, l, pos, hp, hf => by omega
  | f + 1, l, pos, hp, hf => by
    unfold branchF rootF
    by_cases h1 : l.length ≤ 1
    · have : pos = 0 := by omega
      subst this
      simp [h1, verifyBranch]
    · rw [if_neg h1, if_neg h1]
      simp only [verifyBranch]
      rw [← pairUp_getD H l pos hp]
      apply branchF_verifies f (pairUp H l) (pos / 2)
      · rw [pairUp_length]; omega
      · rw [pairUp_length]; omega

/-- **branch_verifies**: for every block (any number of transactions, odd levels included) and
    every position, the Merkle branch the oracle hands out verifies against the block's root at
    that position. -/
theorem branch_verifies (leaves : List Bytes) (pos : Nat) (hp : pos < leaves.length) :
    verifyBranch H (leaves.getD pos []) pos (branch H leaves pos) = merkleRoot H leaves :=
  branchF_verifies H leaves.length leaves pos hp (Nat.le_refl _)


/-! ## proof byte layout -/

/-- **reverse_concat_layout**: the oracle's nodes are in RPC byte order; `createMerkleProof`
    reverses each one back, so the proof bytes are the internal-order nodes concatenated. -/
theorem createMerkleProof_layout (nodes : List Bytes) :
    createMerkleProof (nodes.map List.reverse) = nodes.flatten := by
  induction nodes with
  | nil => rfl
  | cons n ns ih =>
    simp only [createMerkleProof, List.map_cons, List.flatMap_cons, List.reverse_reverse,
      List.flatten_cons] at *
    rw [ih]

theorem chunksF_flatten (n : Nat) (hn : 0 < n) : ∀ (xs : List Bytes) (f : Nat),
    (∀ x ∈ xs, x.length = n) → xs.flatten.length ≤ f → chunksF n f xs.flatten = xs
  | [], f, _, _ => by cases f <;> simp [chunksF]
  | x :: xs, 0, h, hf => by
    have : x.length = n := h x (by simp)
    simp only [List.flatten_cons, List.length_append] at hf; omega
  | x :: xs, f + 1, h, hf => by
    have hx : x.length = n := h x (by simp)
    have hne : (x ++ xs.flatten).isEmpty = false := by
      cases x with
      | nil => simp only [List.length_nil] at hx; omega
      | cons _ _ => rfl
    simp only [List.flatten_cons, chunksF, hne, Bool.false_eq_true, if_false]
    rw [List.take_left' hx, List.drop_left' hx]
    rw [chunksF_flatten n hn xs f (fun y hy => h y (by simp [hy]))
      (by simp only [List.flatten_cons, List.length_append] at hf; omega)]

/-- the verifier's 32-byte (80-byte) chunking recovers the concatenated nodes (headers) -/
theorem chunks_flatten (n : Nat) (hn : 0 < n) (xs : List Bytes) (h : ∀ x ∈ xs, x.length = n) :
    chunks n xs.flatten = xs :=
  chunksF_flatten n hn xs _ h (Nat.le_refl _)

/-! ## growth between the confirmations query and the latest-height query -/

theorem indexOf_some_mem : ∀ (l : List Bytes) (x : Bytes) (p : Nat), indexOf l x = some p → x ∈ l
  | [], x, p, h => by simp [indexOf] at h
  | y :: ys, x, p, h => by
    unfold indexOf at h
    by_cases hy : y = x
    · simp [hy]
    · rw [if_neg hy] at h
      cases hi : indexOf ys x with
      | none => simp [hi] at h
      | some q => simp [indexOf_some_mem ys x q hi]

theorem findHeightFrom_spec : ∀ (chain : List Block) (tip : Nat) (txid : Bytes) (off h : Nat),
    findHeightFrom chain tip txid off = some h →
      off ≤ h ∧ h ≤ tip ∧ ∃ b, chain[h - off]? = some b ∧ txid ∈ b.leaves
  | [], _, _, _, _, hf => by simp [findHeightFrom] at hf
  | b :: bs, tip, txid, off, h, hf => by
    unfold findHeightFrom at hf
    by_cases h1 : off > tip
    · simp [h1] at hf
    · rw [if_neg h1] at hf
      cases hi : indexOf b.leaves txid with
      | some p =>
        simp [hi] at hf
        subst hf
        exact ⟨Nat.le_refl _, by omega, b, by simp, indexOf_some_mem _ _ _ hi⟩
      | none =>
        simp [hi] at hf
        obtain ⟨a, c, b', hb, hm⟩ := findHeightFrom_spec bs tip txid (off + 1) h hf
        refine ⟨by omega, c, b', ?_, hm⟩
        have : h - off = (h - (off + 1)) + 1 := by omega
        rw [this]; simpa using hb

/-- the transaction id occurs in one block only (A-hash) -/
def UniqueTx (chain : List Block) (txid : Bytes) : Prop :=
  ∀ (i j : Nat) (bi bj : Block), chain[i]? = some bi → chain[j]? = some bj → txid ∈ bi.leaves → txid ∈ bj.leaves → i = j

/-- **wrong_height_fails** (the oracle assumption made explicit): a Merkle query for a height
    other than the transaction's block has no answer. -/
theorem wrong_height_fails (chain : List Block) (tip : Nat) (txid : Bytes) (h x : Nat) (b : Block)
    (hu : UniqueTx chain txid) (hb : chain[h]? = some b) (hm : txid ∈ b.leaves) (hx : x ≠ h) :
    merkleQuery H chain tip txid x = none := by
  unfold merkleQuery
  split
  · cases hc : chain[x]? with
    | none => rfl
    | some bx =>
      cases hi : indexOf bx.leaves txid with
      | none => simp [hi]
      | some p =>
        exact absurd (hu x h bx b hc hb (indexOf_some_mem _ _ _ hi) hm) hx
  · rfl

/-- **assemble_growth_early_fails** — the interesting schedule of the property: if any block
    becomes visible between `GetTransactionConfirmations` and `GetLatestBlockHeight`
    (`tips 2 ≠ tips 0`), the computed `txBlockHeight` is shifted by the growth, the Merkle query
    for that height has no answer, and assembly returns an error — for every chain, every
    transaction position, every later growth; never a proof for the wrong block. -/
theorem assemble_growth_early_fails (chain : List Block) (tips : Nat → Nat) (txid : Bytes) (req : Nat)
    (hu : UniqueTx chain txid) (mono : tips 0 ≤ tips 2) (hne : tips 2 ≠ tips 0)
    (hW : tips 2 < 18446744073709551616) :
    ∃ e, assemble H S chain tips txid req = .error e := by
  unfold assemble
  cases hf : findHeight chain (tips 0) txid with
  | none => exact ⟨_, rfl⟩
  | some h =>
    obtain ⟨_, hle, b, hb, hm⟩ := findHeightFrom_spec chain (tips 0) txid 0 h hf
    simp only [Nat.sub_zero] at hb
    simp only []
    split
    · exact ⟨_, rfl⟩
    · have hx : (tips 2 + 18446744073709551616 - (tips 0 - h + 1) + 1) % 18446744073709551616 ≠ h := by
        omega
      rw [wrong_height_fails H chain _ txid h _ b hu hb hm hx]
      split <;> exact ⟨_, rfl⟩

/-- with no growth before the latest-height query the computed height is the transaction's
    block, also for height 0 where `latest - confirmations` passes through `-1` in `uint`. -/
theorem txHeight_static (t h : Nat) (hle : h ≤ t) (hW : t < 18446744073709551616) :
    (t + 18446744073709551616 - (t - h + 1) + 1) % 18446744073709551616 = h := by
  omega

end KeepVerif.C31
