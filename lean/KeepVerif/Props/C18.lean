import KeepVerif.Model.C18
/-!
# C18 — Delivered network messages are attributed to their authenticated author

Theorems over `Model/C18.lean`, for every library instance `L` (payload decoders, identity
decoder, peer-id derivation, key conversion are parameters) and every envelope.
-/
namespace KeepVerif.C18

variable {Bytes PubKey PeerId OpKey Payload : Type} [DecidableEq PeerId]

/-- **C18, delivery condition**: an envelope reaches `deliver` iff its type is registered, its
    payload decodes, its inner identity decodes to a public key whose peer id *is the
    authenticated publisher* and which converts to an operator key; and then the delivered
    message carries exactly that publisher, that key, and the envelope's type / seqno / payload. -/
theorem delivered_iff (L : Lib Bytes PubKey PeerId OpKey Payload) (e : Envelope Bytes PeerId)
    (d : Delivered PeerId OpKey Payload) :
    process L e = .ok d ↔
      L.registered e.typ = true ∧
      ∃ p pk k, L.decodePayload e.typ e.payload = some p ∧ L.decodeIdentity e.sender = some pk ∧
        L.peerIdOf pk = e.outer ∧ L.toOperatorKey pk = some k ∧
        d = ⟨e.outer, k, e.typ, e.seq, p⟩ := by
  unfold process
  cases hr : L.registered e.typ with
  | false => simp
  | true =>
    cases hp : L.decodePayload e.typ e.payload with
    | none => simp
    | some p =>
      cases hi : L.decodeIdentity e.sender with
      | none => simp
      | some pk =>
        by_cases hm : L.peerIdOf pk = e.outer
        · cases hk : L.toOperatorKey pk with
          | none => simp [hm, hk]
          | some k =>
            simp only [Bool.not_true, Bool.false_eq_true, if_false, hm, hk, ne_eq, not_true_eq_false,
              Except.ok.injEq, true_and, Option.some.injEq]
            constructor
            · intro h; exact ⟨p, pk, k, rfl, rfl, hm, hk, h.symm⟩
            · rintro ⟨p', pk', k', hp', hpk', _, hk', rfl⟩
              cases hp'; cases hpk'
              rw [hk] at hk'; cases hk'; rfl
        · simp only [Bool.not_true, Bool.false_eq_true, if_false, ne_eq, hm, not_false_eq_true,
            if_true, reduceCtorEq, true_and, Option.some.injEq, false_iff, not_exists, not_and]
          intro p' pk' k' _ hpk hm'
          cases hpk; exact absurd hm' hm

/-- **C18, attribution** (A-hash: `peerIdOf` injective): the delivered sender is the authenticated
    publisher, and the delivered key is the operator key of *the* public key whose peer id is the
    publisher — whatever key bytes the envelope carried inside. -/
theorem delivered_key_is_authors (L : Lib Bytes PubKey PeerId OpKey Payload)
    (hinj : ∀ a b, L.peerIdOf a = L.peerIdOf b → a = b)
    (e : Envelope Bytes PeerId) (d : Delivered PeerId OpKey Payload) (h : process L e = .ok d) :
    d.sender = e.outer ∧ ∀ pk, L.peerIdOf pk = e.outer → L.toOperatorKey pk = some d.key := by
  obtain ⟨_, p, pk, k, _, _, hm, hk, rfl⟩ := (delivered_iff L e d).1 h
  refine ⟨rfl, ?_⟩
  intro pk' hpk'
  have : pk' = pk := hinj _ _ (by rw [hpk', hm])
  subst this; exact hk

/-- a tampered inner identity (decodes, but to another peer) is never delivered. -/
theorem tamper_rejected (L : Lib Bytes PubKey PeerId OpKey Payload) (e : Envelope Bytes PeerId)
    (pk : PubKey) (hi : L.decodeIdentity e.sender = some pk) (hne : L.peerIdOf pk ≠ e.outer) :
    ∀ d, process L e ≠ .ok d := by
  intro d h
  obtain ⟨_, _, pk', _, _, hi', hm, _, _⟩ := (delivered_iff L e d).1 h
  rw [hi] at hi'; cases hi'; exact hne hm

/-- the check order of the code: which error a dropped envelope reports. -/
theorem drop_class (L : Lib Bytes PubKey PeerId OpKey Payload) (e : Envelope Bytes PeerId) :
    (process L e = .error .type ↔ L.registered e.typ = false) ∧
    (process L e = .error .payload ↔
      L.registered e.typ = true ∧ L.decodePayload e.typ e.payload = none) := by
  unfold process
  cases hr : L.registered e.typ <;> cases hp : L.decodePayload e.typ e.payload <;> simp
  all_goals
    cases hi : L.decodeIdentity e.sender <;> simp
    all_goals (split <;> try simp) ; (try split) <;> simp

/-- **C18, locality of drops**: processing is a function of the single envelope, so removing a
    dropped envelope from any history changes nothing that is delivered. -/
theorem drop_is_local (L : Lib Bytes PubKey PeerId OpKey Payload)
    (pre post : List (Envelope Bytes PeerId)) (e : Envelope Bytes PeerId) (c : Drop)
    (h : process L e = .error c) :
    deliveries L (pre ++ e :: post) = deliveries L (pre ++ post) := by
  simp [deliveries, List.filterMap_append, h]

theorem deliveries_append (L : Lib Bytes PubKey PeerId OpKey Payload)
    (a b : List (Envelope Bytes PeerId)) :
    deliveries L (a ++ b) = deliveries L a ++ deliveries L b := by
  simp [deliveries, List.filterMap_append]

/-- everything delivered in a history is authentic for some envelope of that history. -/
theorem deliveries_authentic (L : Lib Bytes PubKey PeerId OpKey Payload)
    (es : List (Envelope Bytes PeerId)) (d : Delivered PeerId OpKey Payload)
    (h : d ∈ deliveries L es) :
    ∃ e ∈ es, d.sender = e.outer ∧ ∃ pk, L.decodeIdentity e.sender = some pk ∧
      L.peerIdOf pk = e.outer ∧ L.toOperatorKey pk = some d.key := by
  simp only [deliveries, List.mem_filterMap] at h
  obtain ⟨e, he, hd⟩ := h
  cases hp : process L e with
  | error c => rw [hp] at hd; cases hd
  | ok d' =>
    rw [hp] at hd; cases hd
    obtain ⟨_, p, pk, k, _, hi, hm, hk, rfl⟩ := (delivered_iff L e d).1 hp
    exact ⟨e, he, rfl, pk, hi, hm, hk⟩

/-! ## Monitor soundness -/

def outcome (r : Except Drop (Delivered PeerId OpKey Payload)) : Option (Delivered PeerId OpKey Payload) :=
  match r with | .ok d => some d | .error _ => none

theorem holds1_model [DecidableEq OpKey] [DecidableEq Payload]
    (L : Lib Bytes PubKey PeerId OpKey Payload) (e : Envelope Bytes PeerId) :
    holds1 L e (outcome (process L e)) = true := by
  cases hp : process L e with
  | ok d =>
    obtain ⟨hr, p, pk, k, h1, h2, h3, h4, rfl⟩ := (delivered_iff L e d).1 hp
    simp [outcome, holds1, authentic, hr, h1, h2, h3, h4]
  | error c =>
    simp only [outcome, holds1, Bool.not_eq_true']
    cases hd : deliverable L e with
    | false => rfl
    | true =>
      exfalso
      simp only [deliverable, Bool.and_eq_true] at hd
      obtain ⟨⟨hr, hpl⟩, hid⟩ := hd
      cases hi : L.decodeIdentity e.sender with
      | none => rw [hi] at hid; cases hid
      | some pk =>
        rw [hi] at hid
        simp only [Bool.and_eq_true, beq_iff_eq] at hid
        obtain ⟨p, hp'⟩ := Option.isSome_iff_exists.1 hpl
        obtain ⟨k, hk⟩ := Option.isSome_iff_exists.1 hid.2
        have := (delivered_iff L e ⟨e.outer, k, e.typ, e.seq, p⟩).2
          ⟨hr, p, pk, k, hp', hi, hid.1, hk, rfl⟩
        rw [hp] at this; cases this

/-- **Soundness of the monitor w.r.t. the model**: for every library instance and every history the
    monitor accepts what the model delivers/drops. -/
theorem holds_model [DecidableEq OpKey] [DecidableEq Payload]
    (L : Lib Bytes PubKey PeerId OpKey Payload) (es : List (Envelope Bytes PeerId)) :
    holds L es (es.map fun e => outcome (process L e)) = true := by
  induction es with
  | nil => rfl
  | cons e es ih => simp [holds, holds1_model, ih]

/-- the monitor is the property: an accepted delivery is authentic (no reference to `process`). -/
theorem holds1_sound [DecidableEq OpKey] [DecidableEq Payload]
    (L : Lib Bytes PubKey PeerId OpKey Payload) (e : Envelope Bytes PeerId)
    (d : Delivered PeerId OpKey Payload) (h : holds1 L e (some d) = true) :
    d.sender = e.outer ∧ ∃ pk, L.decodeIdentity e.sender = some pk ∧ L.peerIdOf pk = e.outer ∧
      L.toOperatorKey pk = some d.key := by
  simp only [holds1, authentic, Bool.and_eq_true, beq_iff_eq] at h
  obtain ⟨⟨⟨⟨⟨_, _⟩, hid⟩, hs⟩, _⟩, _⟩ := h
  refine ⟨hs, ?_⟩
  cases hi : L.decodeIdentity e.sender with
  | none => rw [hi] at hid; cases hid
  | some pk =>
    rw [hi] at hid
    simp only [Bool.and_eq_true, beq_iff_eq] at hid
    exact ⟨pk, rfl, hid.1, hid.2⟩

/-! ## Non-vacuity on a concrete instance -/

deriving instance DecidableEq for Except

def exLib : Lib String (String × Bool) String String String :=
  { registered := fun t => t == "a"
    decodePayload := fun _ p => if p == "" then none else some p
    decodeIdentity := fun b => if b == "k1" then some ("p1", true) else if b == "k2" then some ("p2", true)
                               else if b == "ed" then some ("p3", false) else none
    peerIdOf := fun pk => pk.1
    toOperatorKey := fun pk => if pk.2 then some ("op-" ++ pk.1) else none }

example : process exLib ⟨"p1", "a", "x", 7, "k1"⟩ = .ok ⟨"p1", "op-p1", "a", 7, "x"⟩ := by decide
example : process exLib ⟨"p1", "a", "x", 7, "k2"⟩ = .error .mismatch := by decide
example : process exLib ⟨"p3", "a", "x", 7, "ed"⟩ = .error .keytype := by decide
example : process exLib ⟨"p1", "b", "", 7, "zz"⟩ = .error .type := by decide
example : process exLib ⟨"p1", "a", "", 7, "zz"⟩ = .error .payload := by decide
example : process exLib ⟨"p1", "a", "x", 7, "zz"⟩ = .error .identity := by decide
/-- the monitor rejects a delivery attributed to the inner identity of a tampered envelope, and a
    silently dropped valid message. -/
example : holds1 exLib ⟨"p1", "a", "x", 7, "k2"⟩ (some ⟨"p2", "op-p2", "a", 7, "x"⟩) = false := by decide
example : holds1 exLib ⟨"p1", "a", "x", 7, "k2"⟩ (some ⟨"p1", "op-p2", "a", 7, "x"⟩) = false := by decide
example : holds1 exLib ⟨"p1", "a", "x", 7, "k1"⟩ none = false := by decide

end KeepVerif.C18
