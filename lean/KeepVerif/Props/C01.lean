import KeepVerif.Model.C01
/-!
# C01 — Beacon DKG: honest members agree on the group key and on who misbehaved

Theorems over `Model/C01.lean` (the model the driver runs against the real `pkg/beacon/gjkr`).

What is proved for **all** inputs:
* admission: `dedup_first_wins` (+ `dedup_senders_nodup`, `dedup_sublist`), `accept_only_operating_valid_nonself`,
  `receive_keeps_views`;
* inactivity marking is a function of the set of senders seen: `markInactive_ia_iff`,
  `markInactive_dq`, and the agreement step `markInactive_agree`;
* accusation resolution is a function of public data only: `verdict5_public`, `verdict9_public`,
  `resolution_agree`, and where the unchanged code broke that: `pointsOf_unfixed_private`;
* Go map iteration order (`accusedMembersKeys`, `privateKeys`): `markDQ_fold_iff`,
  `markDQ_fold_order_independent` (disqualifying the same members in any order gives the same DQ
  set), `pointsOf_discardPoints` (repaired code: a conviction does not change the evidence later
  accusations are judged on, so the verdicts do not depend on the order either);
* the monitor means what it says: `holds_sound`, `holds_complete`.

What is proved on concrete runs by kernel evaluation of the *whole* model (`decide +kernel`):
* `phase9_disagreement_unfixed`, `honest_disqualified_unfixed` — finding F1 on the model of the unchanged tree;
* `f1_fixed_agrees`, `f1_single_fixed_agrees` — the same runs on the model of the repaired code.

`views_agree_partial` states agreement for the decision steps (one phase step, equal inputs ⇒ equal
views).  **Gap**: the protocol-level induction "for every adversary and delivery order the honest
members' inboxes of every phase have the same senders and the same first message per sender, hence
the views stay equal through all 12 phases" is not proved; it is covered by the differential
harness (model = implementation on every generated run, monitor on every run).
-/
namespace KeepVerif.C01

/-! ## (a) admission and first-message-wins -/

private theorem dedupAux_find {α} (f : α → Nat) (k : Nat) (l : List α) (seen : List Nat) :
    (dedupAux f seen l).find? (fun x => f x = k) =
      if k ∈ seen then none else l.find? (fun x => f x = k) := by
  induction l generalizing seen with
  | nil => simp [dedupAux]
  | cons m rest ih =>
    unfold dedupAux
    by_cases hs : f m ∈ seen
    · have hc : seen.contains (f m) = true := by simpa using hs
      rw [if_pos hc, ih seen]
      by_cases hk : k ∈ seen
      · simp [hk]
      · have hne : ¬ f m = k := fun e => hk (e ▸ hs)
        simp [hk, List.find?_cons, hne]
    · have hc : ¬ seen.contains (f m) = true := by simpa using hs
      rw [if_neg hc]
      by_cases hm : f m = k
      · have hk : k ∉ seen := hm ▸ hs
        simp [List.find?_cons, hm, hk]
      · have hmem : (k ∈ f m :: seen) ↔ k ∈ seen := by
          simp only [List.mem_cons]
          constructor
          · rintro (e | h)
            · exact absurd e.symm hm
            · exact h
          · exact Or.inr
        simp only [List.find?_cons, hm, decide_false]
        rw [ih (f m :: seen)]
        simp only [hmem]

/-- `deduplicateBySender` keeps, for every sender, exactly the FIRST message of that sender in the
    arrival order (and nothing of a sender that did not send). -/
theorem dedup_first_wins {α} (f : α → Nat) (l : List α) (k : Nat) :
    (dedup f l).find? (fun x => f x = k) = l.find? (fun x => f x = k) := by
  simpa [dedup] using dedupAux_find f k l []

private theorem dedupAux_spec {α} (f : α → Nat) (l : List α) (seen : List Nat) :
    (dedupAux f seen l).Sublist l ∧ (∀ x ∈ dedupAux f seen l, f x ∉ seen) ∧
    ((dedupAux f seen l).map f).Nodup := by
  induction l generalizing seen with
  | nil => simp [dedupAux]
  | cons m rest ih =>
    unfold dedupAux
    by_cases hs : seen.contains (f m) = true
    · rw [if_pos hs]
      obtain ⟨a, b, c⟩ := ih seen
      exact ⟨a.cons _, b, c⟩
    · rw [if_neg hs]
      obtain ⟨a, b, c⟩ := ih (f m :: seen)
      refine ⟨a.cons₂ _, ?_, ?_⟩
      · intro x hx
        simp only [List.mem_cons] at hx
        rcases hx with rfl | hx
        · simpa using hs
        · have := b x hx
          simp only [List.mem_cons, not_or] at this
          exact this.2
      · simp only [List.map_cons, List.nodup_cons]
        refine ⟨?_, c⟩
        intro hmem
        obtain ⟨x, hx, hfx⟩ := List.mem_map.1 hmem
        have := b x hx
        simp only [List.mem_cons, not_or] at this
        exact this.1 hfx

/-- no sender occurs twice after deduplication -/
theorem dedup_senders_nodup {α} (f : α → Nat) (l : List α) : ((dedup f l).map f).Nodup :=
  (dedupAux_spec f l []).2.2

/-- deduplication only drops messages and keeps the arrival order -/
theorem dedup_sublist {α} (f : α → Nat) (l : List α) : (dedup f l).Sublist l :=
  (dedupAux_spec f l []).1

/-- `shouldAcceptMessage`: only messages of an operating, correctly authenticated, other member of
    the same session are admitted. -/
theorem accept_only_operating_valid_nonself (st : St) (m : Msg) (h : accept st m = true) :
    m.hdr.sender ≠ st.id ∧ m.hdr.author = m.hdr.sender ∧ isOperating st m.hdr.sender = true ∧
    m.hdr.sessOk = true := by
  simpa [accept, and_assoc] using h

/-- receiving never changes a member's IA/DQ view, and stores exactly the admitted messages -/
theorem receive_keeps_views (ph : Nat) (st : St) (m : Msg) :
    (receive ph st m).ia = st.ia ∧ (receive ph st m).dq = st.dq ∧
    (receive ph st m).inbox = if admits ph st m then st.inbox ++ [m] else st.inbox := by
  unfold receive; split <;> simp [*]

example : accept { id := 1, n := 3, t := 1, q := 7, fixed := true } (.points ⟨2, 2, true⟩ []) = true := by decide
example : accept { id := 1, n := 3, t := 1, q := 7, fixed := true } (.points ⟨2, 3, true⟩ []) = false := by decide
example : accept { id := 1, n := 3, t := 1, q := 7, fixed := true, dq := [2] } (.points ⟨2, 2, true⟩ []) = false := by decide

/-! ## (b) inactivity marking -/

private def miStep (active : List Nat) (s : St) (j : Nat) : St :=
  if j = s.id || active.contains j then s else markIA s j

private theorem miFold (active : List Nat) (js : List Nat) (st : St) :
    let s' := js.foldl (miStep active) st
    s'.id = st.id ∧ s'.n = st.n ∧ s'.dq = st.dq ∧
    (∀ k, k ∈ s'.ia ↔ k ∈ st.ia ∨ (k ∈ js ∧ isOperating st k = true ∧ k ≠ st.id ∧ k ∉ active)) := by
  induction js generalizing st with
  | nil => simp
  | cons j rest ih =>
    simp only [List.foldl_cons]
    obtain ⟨h1, h2, h3, h4⟩ := ih (miStep active st j)
    have hid : (miStep active st j).id = st.id := by
      unfold miStep markIA
      split
      · rfl
      · split <;> rfl
    have hn : (miStep active st j).n = st.n := by
      unfold miStep markIA
      split
      · rfl
      · split <;> rfl
    have hdq : (miStep active st j).dq = st.dq := by
      unfold miStep markIA
      split
      · rfl
      · split <;> rfl
    refine ⟨h1.trans hid, h2.trans hn, h3.trans hdq, ?_⟩
    intro k
    rw [h4 k, hid]
    -- the ia list after the step
    by_cases hskip : (j = st.id || active.contains j) = true
    · have hst : miStep active st j = st := by unfold miStep; rw [if_pos hskip]
      rw [hst]
      constructor
      · rintro (h | ⟨hk, ho, hne, hna⟩)
        · exact Or.inl h
        · exact Or.inr ⟨List.mem_cons_of_mem _ hk, ho, hne, hna⟩
      · rintro (h | ⟨hk, ho, hne, hna⟩)
        · exact Or.inl h
        · simp only [List.mem_cons] at hk
          rcases hk with rfl | hk
          · exfalso
            simp only [Bool.or_eq_true, decide_eq_true_eq] at hskip
            rcases hskip with e | e
            · exact hne e
            · exact hna (by simpa using e)
          · exact Or.inr ⟨hk, ho, hne, hna⟩
    · have hst : miStep active st j = markIA st j := by unfold miStep; rw [if_neg hskip]
      simp only [Bool.or_eq_true, decide_eq_true_eq, not_or] at hskip
      obtain ⟨hjid, hjact⟩ := hskip
      have hjact' : j ∉ active := by simpa using hjact
      rw [hst]
      by_cases hop : isOperating st j = true
      · have hia : (markIA st j).ia = st.ia ++ [j] := by unfold markIA; rw [if_pos hop]
        have hopk : ∀ k, k ≠ j → isOperating (markIA st j) k = isOperating st k := by
          intro k hk
          unfold markIA; rw [if_pos hop]
          simp only [isOperating, List.contains_append]
          have : ([j] : List Nat).contains k = false := by simp [hk]
          simp only [this, Bool.or_false]
        rw [hia]
        constructor
        · rintro (h | ⟨hk, ho, hne, hna⟩)
          · simp only [List.mem_append, List.mem_singleton] at h
            rcases h with h | rfl
            · exact Or.inl h
            · exact Or.inr ⟨by simp, hop, hjid, hjact'⟩
          · by_cases hkj : k = j
            · subst hkj; exact Or.inr ⟨by simp, hop, hjid, hjact'⟩
            · rw [hopk k hkj] at ho
              exact Or.inr ⟨List.mem_cons_of_mem _ hk, ho, hne, hna⟩
        · rintro (h | ⟨hk, ho, hne, hna⟩)
          · exact Or.inl (by simp [h])
          · by_cases hkj : k = j
            · subst hkj; exact Or.inl (by simp)
            · simp only [List.mem_cons] at hk
              rcases hk with rfl | hk
              · exact absurd rfl hkj
              · exact Or.inr ⟨hk, by rw [hopk k hkj]; exact ho, hne, hna⟩
      · have hsame : markIA st j = st := by unfold markIA; rw [if_neg hop]
        rw [hsame]
        constructor
        · rintro (h | ⟨hk, ho, hne, hna⟩)
          · exact Or.inl h
          · exact Or.inr ⟨List.mem_cons_of_mem _ hk, ho, hne, hna⟩
        · rintro (h | ⟨hk, ho, hne, hna⟩)
          · exact Or.inl h
          · simp only [List.mem_cons] at hk
            rcases hk with rfl | hk
            · exact absurd ho hop
            · exact Or.inr ⟨hk, ho, hne, hna⟩

private theorem mem_members (n k : Nat) : k ∈ members n ↔ 1 ≤ k ∧ k ≤ n := by
  simp only [members, List.mem_map, List.mem_range]
  constructor
  · rintro ⟨a, ha, rfl⟩; omega
  · intro h; exact ⟨k - 1, by omega, by omega⟩

private theorem markInactive_eq (st : St) (active : List Nat) :
    markInactive st active = (members st.n).foldl (miStep active) st := rfl

/-- `MarkInactiveMembers`: after the call, `k` is inactive iff it already was, or it was operating,
    is not the member itself, and sent no (accepted) message in the phase. -/
theorem markInactive_ia_iff (st : St) (active : List Nat) (k : Nat) :
    k ∈ (markInactive st active).ia ↔
      k ∈ st.ia ∨ (isOperating st k = true ∧ k ≠ st.id ∧ k ∉ active) := by
  rw [markInactive_eq, (miFold active (members st.n) st).2.2.2 k]
  constructor
  · rintro (h | ⟨_, b, c, d⟩)
    · exact Or.inl h
    · exact Or.inr ⟨b, c, d⟩
  · rintro (h | ⟨b, c, d⟩)
    · exact Or.inl h
    · refine Or.inr ⟨?_, b, c, d⟩
      rw [mem_members]
      simp only [isOperating, Bool.and_eq_true, decide_eq_true_eq] at b
      exact ⟨b.1.1.1, b.1.1.2⟩

/-- inactivity marking never touches the DQ list -/
theorem markInactive_dq (st : St) (active : List Nat) : (markInactive st active).dq = st.dq := by
  rw [markInactive_eq]; exact (miFold active (members st.n) st).2.2.1

/-- inactivity marking never touches the group size or the member's identity -/
theorem markInactive_n (st : St) (active : List Nat) : (markInactive st active).n = st.n := by
  rw [markInactive_eq]; exact (miFold active (members st.n) st).2.1

theorem markInactive_id (st : St) (active : List Nat) : (markInactive st active).id = st.id := by
  rw [markInactive_eq]; exact (miFold active (members st.n) st).1

/-- two members with the same views `sameView` -/
def sameView (a b : St) : Prop :=
  a.n = b.n ∧ (∀ k, k ∈ a.ia ↔ k ∈ b.ia) ∧ (∀ k, k ∈ a.dq ↔ k ∈ b.dq)

private theorem isOperating_congr {a b : St} (h : sameView a b) (k : Nat) :
    isOperating a k = isOperating b k := by
  obtain ⟨hn, hia, hdq⟩ := h
  have e1 : a.ia.contains k = b.ia.contains k := by
    rw [Bool.eq_iff_iff]; simp [hia k]
  have e2 : a.dq.contains k = b.dq.contains k := by
    rw [Bool.eq_iff_iff]; simp [hdq k]
  simp only [isOperating, hn, e1, e2]

/-- Agreement step for the inactivity phases (2, 4, 5, 8, 9, 11): two honest members with equal
    views that saw the same set of senders — apart from their own messages, which each of them
    does not receive but the other does — have equal views afterwards. For all inputs. -/
theorem markInactive_agree (a b : St) (actA actB : List Nat)
    (hview : sameView a b)
    (hsenders : ∀ k, k ≠ a.id → k ≠ b.id → (k ∈ actA ↔ k ∈ actB))
    (hab : b.id ∈ actA) (hba : a.id ∈ actB)
    (_haop : isOperating b a.id = true) (_hbop : isOperating a b.id = true) :
    sameView (markInactive a actA) (markInactive b actB) := by
  have hn : (markInactive a actA).n = (markInactive b actB).n := by
    rw [markInactive_eq, markInactive_eq]
    rw [(miFold actA (members a.n) a).2.1, (miFold actB (members b.n) b).2.1]; exact hview.1
  refine ⟨hn, ?_, ?_⟩
  · intro k
    rw [markInactive_ia_iff, markInactive_ia_iff, isOperating_congr hview k, hview.2.1 k]
    constructor
    · rintro (h | ⟨ho, hne, hna⟩)
      · exact Or.inl h
      · by_cases hkb : k = b.id
        · subst hkb; exact absurd hab hna
        · exact Or.inr ⟨ho, hkb, fun hm => hna ((hsenders k hne hkb).2 hm)⟩
    · rintro (h | ⟨ho, hne, hna⟩)
      · exact Or.inl h
      · by_cases hka : k = a.id
        · subst hka; exact absurd hba hna
        · exact Or.inr ⟨ho, hka, fun hm => hna ((hsenders k hka hne).1 hm)⟩
  · intro k
    rw [markInactive_dq, markInactive_dq]; exact hview.2.2 k

/-! ## (c) accusation resolution is a function of public data -/

/-- Phase 5: the verdict on an accusation does not depend on which member judges it (as long as
    the judge is not the accused): it is a function of the evidence log, the commitments of the
    accused and the accusation itself. -/
theorem verdict5_public (ev : Evidence) (q n : Nat) (comms : List (Nat × Nat))
    (accuser accused key self₁ self₂ : Nat) (h₁ : self₁ ≠ accused) (h₂ : self₂ ≠ accused) :
    verdict5 ev q self₁ n comms accuser accused key = verdict5 ev q self₂ n comms accuser accused key := by
  simp [verdict5, openAccusation, h₁, h₂]

/-- Phase 9: same for the public key share points accusations. -/
theorem verdict9_public (ev : Evidence) (q n : Nat) (points : List Nat)
    (accuser accused key self₁ self₂ : Nat) (h₁ : self₁ ≠ accused) (h₂ : self₂ ≠ accused) :
    verdict9 ev q self₁ n points accuser accused key = verdict9 ev q self₂ n points accuser accused key := by
  simp [verdict9, openAccusation, h₁, h₂]

/-- the accused itself always sides against the accuser -/
theorem verdict_accused_self (ev : Evidence) (q n : Nat) (points : List Nat) (accuser key self : Nat) :
    verdict9 ev q self n points accuser self key = .accuser := by
  simp [verdict9, openAccusation]

/-- Phase 9 in the REPAIRED code: two members that hold the same evidence log and recorded the same
    points message of the accused — no matter whether each of them found the points valid for
    itself (`validPts`) or not (`rejPts`) — reach the same verdict. -/
theorem resolution_agree (a b : St) (accuser accused key : Nat) (ps : List Nat)
    (hfa : a.fixed = true) (hfb : b.fixed = true)
    (hev : evidence a = evidence b) (hq : a.q = b.q) (hn : a.n = b.n)
    (ha : lookup accused a.validPts = some ps ∨
          (lookup accused a.validPts = none ∧ lookup accused a.rejPts = some ps))
    (hb : lookup accused b.validPts = some ps ∨
          (lookup accused b.validPts = none ∧ lookup accused b.rejPts = some ps))
    (h₁ : a.id ≠ accused) (h₂ : b.id ≠ accused) :
    verdict9 (evidence a) a.q a.id a.n (pointsOf a accused) accuser accused key =
    verdict9 (evidence b) b.q b.id b.n (pointsOf b accused) accuser accused key := by
  have pa : pointsOf a accused = ps := by
    unfold pointsOf; rcases ha with h | ⟨h, h'⟩ <;> simp [h, hfa, *]
  have pb : pointsOf b accused = ps := by
    unfold pointsOf; rcases hb with h | ⟨h, h'⟩ <;> simp [h, hfb, *]
  rw [pa, pb, hev, hq, hn]
  exact verdict9_public _ _ _ _ _ _ _ _ _ h₁ h₂

/-- …and this is what the UNCHANGED code got wrong: a member that rejected the points for itself
    judges every accusation against their sender on the empty list, whatever was broadcast. -/
theorem pointsOf_unfixed_private (st : St) (j : Nat) (hf : st.fixed = false)
    (h : lookup j st.validPts = none) : pointsOf st j = [] := by
  simp [pointsOf, h, hf]

/-- One-step agreement statement (see the header for the gap to the full protocol-level theorem):
    an inactivity step followed by the resolution of one accusation keeps equal views equal. -/
theorem views_agree_partial (a b : St) (actA actB : List Nat)
    (hview : sameView a b)
    (hsenders : ∀ k, k ≠ a.id → k ≠ b.id → (k ∈ actA ↔ k ∈ actB))
    (hab : b.id ∈ actA) (hba : a.id ∈ actB)
    (haop : isOperating b a.id = true) (hbop : isOperating a b.id = true) (j : Nat) :
    sameView (markDQ (markInactive a actA) j) (markDQ (markInactive b actB) j) := by
  have h := markInactive_agree a b actA actB hview hsenders hab hba haop hbop
  have ho := isOperating_congr h j
  unfold markDQ
  rw [ho]
  split
  · refine ⟨h.1, h.2.1, ?_⟩
    intro k
    simp only [List.mem_append, List.mem_singleton, h.2.2 k]
  · exact h

/-! ## (c') Go map order: the processing order of accusations / reveals cannot change the DQ set -/

theorem lookup_erase_self {α} (k : Nat) (l : List (Nat × α)) : lookup k (erase k l) = none := by
  induction l with
  | nil => rfl
  | cons p rest ih =>
    obtain ⟨a, b⟩ := p
    by_cases h : a = k
    · simp [erase, List.filter_cons, h]; simpa [erase] using ih
    · have : lookup k (erase k rest) = none := ih
      simp [erase, List.filter_cons, h, lookup] ; simpa [erase] using ih

theorem lookup_erase_ne {α} (k j : Nat) (h : k ≠ j) (l : List (Nat × α)) :
    lookup k (erase j l) = lookup k l := by
  induction l with
  | nil => rfl
  | cons p rest ih =>
    obtain ⟨a, b⟩ := p
    by_cases ha : a = j
    · have hak : ¬ a = k := fun e => h (e ▸ ha)
      simp [erase, List.filter_cons, ha, lookup] at ih ⊢
      subst ha; simp [hak]; exact ih
    · simp only [erase, List.filter_cons, lookup] at ih ⊢
      simp only [ne_eq, ha, not_false_eq_true, decide_true, ↓reduceIte, lookup]
      split
      · rfl
      · exact ih

theorem lookup_put_self {α} (k : Nat) (v : α) (l : List (Nat × α)) : lookup k (put k v l) = some v := by
  induction l with
  | nil => simp [put, lookup]
  | cons p rest ih =>
    obtain ⟨a, b⟩ := p
    by_cases h : a = k
    · simp [put, h, lookup]
    · simp [put, h, lookup, ih]

theorem lookup_put_ne {α} (k j : Nat) (h : k ≠ j) (v : α) (l : List (Nat × α)) :
    lookup k (put j v l) = lookup k l := by
  induction l with
  | nil => simp [put, lookup]; exact fun e => absurd e.symm h
  | cons p rest ih =>
    obtain ⟨a, b⟩ := p
    by_cases ha : a = j
    · have : ¬ j = k := fun e => h e.symm
      simp [put, ha, lookup, this]
    · simp only [put, ha, ↓reduceIte, lookup]
      split
      · rfl
      · exact ih

/-- REPAIRED code: convicting a member does not change the points any later accusation against
    any member is judged on — the phase 9 verdicts do not depend on the processing order. -/
theorem pointsOf_discardPoints (st : St) (hf : st.fixed = true) (j k : Nat) :
    pointsOf (discardPoints st j) k = pointsOf st k := by
  unfold discardPoints
  simp only [hf, Bool.not_true, Bool.false_eq_true, ↓reduceIte]
  cases hj : lookup j st.validPts with
  | none => rfl
  | some ps =>
    simp only
    by_cases hkj : k = j
    · subst hkj
      simp [pointsOf, lookup_erase_self, lookup_put_self, hj, hf]
    · simp [pointsOf, lookup_erase_ne k j hkj, lookup_put_ne k j hkj, hf]

/-- …while in the UNCHANGED code (no evidence kept) a member whose own check failed judges on `[]`,
    see `pointsOf_unfixed_private`. -/
theorem pointsOf_markDQ (st : St) (j k : Nat) : pointsOf (markDQ st j) k = pointsOf st k := by
  unfold markDQ; split <;> rfl

private theorem dqFold (l : List Nat) (st : St) :
    (l.foldl markDQ st).ia = st.ia ∧ (l.foldl markDQ st).n = st.n ∧
    (∀ k, k ∈ (l.foldl markDQ st).dq ↔ k ∈ st.dq ∨ (k ∈ l ∧ isOperating st k = true)) := by
  induction l generalizing st with
  | nil => simp
  | cons j rest ih =>
    simp only [List.foldl_cons]
    obtain ⟨h1, h2, h3⟩ := ih (markDQ st j)
    by_cases hop : isOperating st j = true
    · have hs : markDQ st j = { st with dq := st.dq ++ [j] } := by unfold markDQ; rw [if_pos hop]
      have hia : (markDQ st j).ia = st.ia := by rw [hs]
      have hn : (markDQ st j).n = st.n := by rw [hs]
      have hdq : (markDQ st j).dq = st.dq ++ [j] := by rw [hs]
      have hopk : ∀ k, k ≠ j → isOperating (markDQ st j) k = isOperating st k := by
        intro k hk
        rw [hs]
        simp only [isOperating, List.contains_append]
        have : ([j] : List Nat).contains k = false := by simp [hk]
        simp only [this, Bool.or_false]
      have hopj : isOperating (markDQ st j) j = false := by
        rw [hs]; simp [isOperating]
      refine ⟨h1.trans hia, h2.trans hn, ?_⟩
      intro k
      rw [h3 k, hdq]
      constructor
      · rintro (h | ⟨hk, ho⟩)
        · simp only [List.mem_append, List.mem_singleton] at h
          rcases h with h | rfl
          · exact Or.inl h
          · exact Or.inr ⟨by simp, hop⟩
        · by_cases hkj : k = j
          · subst hkj; rw [hopj] at ho; exact absurd ho (by simp)
          · rw [hopk k hkj] at ho; exact Or.inr ⟨List.mem_cons_of_mem _ hk, ho⟩
      · rintro (h | ⟨hk, ho⟩)
        · exact Or.inl (by simp [h])
        · by_cases hkj : k = j
          · subst hkj; exact Or.inl (by simp)
          · simp only [List.mem_cons] at hk
            rcases hk with rfl | hk
            · exact absurd rfl hkj
            · exact Or.inr ⟨hk, by rw [hopk k hkj]; exact ho⟩
    · have hs : markDQ st j = st := by unfold markDQ; rw [if_neg hop]
      rw [hs] at h1 h2 h3 ⊢
      refine ⟨h1, h2, ?_⟩
      intro k
      rw [h3 k]
      constructor
      · rintro (h | ⟨hk, ho⟩)
        · exact Or.inl h
        · exact Or.inr ⟨List.mem_cons_of_mem _ hk, ho⟩
      · rintro (h | ⟨hk, ho⟩)
        · exact Or.inl h
        · simp only [List.mem_cons] at hk
          rcases hk with rfl | hk
          · exact absurd ho hop
          · exact Or.inr ⟨hk, ho⟩

/-- The DQ set after disqualifying a list of members: exactly the old ones plus the listed members
    that were operating. -/
theorem markDQ_fold_iff (l : List Nat) (st : St) (k : Nat) :
    k ∈ (l.foldl markDQ st).dq ↔ k ∈ st.dq ∨ (k ∈ l ∧ isOperating st k = true) :=
  (dqFold l st).2.2 k

/-- Go map order: disqualifying the same members in ANY order (any permutation, with or without
    repetitions) yields the same DQ set — the order in which the code ranges over the
    `accusedMembersKeys` / `privateKeys` maps cannot change the set of disqualified members, given
    that the verdicts themselves do not depend on the order (`pointsOf_discardPoints`,
    `verdict5_public`/`verdict9_public`: they are functions of the evidence only). -/
theorem markDQ_fold_order_independent (l l' : List Nat) (h : ∀ k, k ∈ l ↔ k ∈ l') (st : St) (k : Nat) :
    k ∈ (l.foldl markDQ st).dq ↔ k ∈ (l'.foldl markDQ st).dq := by
  rw [markDQ_fold_iff, markDQ_fold_iff, h k]

/-! ## the monitor -/

/-- what `holds` means: any two finished honest members have the same IA set, the same DQ set and
    the same key, and no finished honest member marked an honest member. -/
theorem holds_sound (honest : List Nat) (outs : List Out) (h : holds honest outs = true) :
    (∀ a ∈ outs, ∀ b ∈ outs, a.ok = true → b.ok = true →
      (∀ k, k ∈ a.ia ↔ k ∈ b.ia) ∧ (∀ k, k ∈ a.dq ↔ k ∈ b.dq) ∧ a.key = b.key) ∧
    (∀ a ∈ outs, a.ok = true → ∀ m ∈ honest, m ∉ a.ia ∧ m ∉ a.dq) := by
  simp only [holds, Bool.and_eq_true, List.all_eq_true, List.mem_filter, decide_eq_true_eq,
    and_imp, Bool.not_eq_true', List.contains_eq_mem, decide_eq_false_iff_not] at h
  obtain ⟨h1, h2⟩ := h
  constructor
  · intro a ha b hb oa ob
    have hab := h1 a ha oa b hb ob
    have hba := h1 b hb ob a ha oa
    refine ⟨fun k => ⟨fun hk => ?_, fun hk => ?_⟩, fun k => ⟨fun hk => ?_, fun hk => ?_⟩, hab.2⟩
    · simpa using hab.1.1 k hk
    · simpa using hba.1.1 k hk
    · simpa using hab.1.2 k hk
    · simpa using hba.1.2 k hk
  · intro a ha oa m hm
    have := h2 a ha oa m hm
    exact ⟨by simpa using this.1, by simpa using this.2⟩

/-- conversely the monitor accepts every outcome with these properties -/
theorem holds_complete (honest : List Nat) (outs : List Out)
    (h1 : ∀ a ∈ outs, ∀ b ∈ outs, a.ok = true → b.ok = true →
      (∀ k, k ∈ a.ia → k ∈ b.ia) ∧ (∀ k, k ∈ a.dq → k ∈ b.dq) ∧ a.key = b.key)
    (h2 : ∀ a ∈ outs, a.ok = true → ∀ m ∈ honest, m ∉ a.ia ∧ m ∉ a.dq) :
    holds honest outs = true := by
  simp only [holds, Bool.and_eq_true, List.all_eq_true, List.mem_filter, decide_eq_true_eq,
    and_imp, Bool.not_eq_true', List.contains_eq_mem, decide_eq_false_iff_not]
  constructor
  · intro a ha oa b hb ob
    obtain ⟨x, y, z⟩ := h1 a ha b hb oa ob
    exact ⟨⟨fun k hk => by simpa using x k hk, fun k hk => by simpa using y k hk⟩, z⟩
  · intro a ha oa m hm
    obtain ⟨x, y⟩ := h2 a ha oa m hm
    exact ⟨by simpa using x, by simpa using y⟩

/-! ## finding F1 on concrete runs (kernel evaluation of the whole 12-phase model) -/

/-- n = 5, t = 2, corrupt {3, 4}: member 4 publishes the points of `a + c(x−2)(x−3)` (valid for the
    shares of members 2 and 3 only), member 3 falsely accuses 4 in phase 8. -/
def f1 (fixed : Bool) : Cfg :=
  { n := 5, t := 2, seed := 7, ord := 3, q := Gen.C01.order, fixed := fixed,
    adv := [(3, 8, [.mods [⟨"acc", [4]⟩]]), (4, 7, [.mods [⟨"pt", [2, 3]⟩]])] }

/-- n = 3, t = 1, ONE corrupt member 3 publishing points valid for member 2 only. -/
def f1single (fixed : Bool) : Cfg :=
  { n := 3, t := 1, seed := 5, ord := 0, q := Gen.C01.order, fixed := fixed,
    adv := [(3, 7, [.mods [⟨"pt", [2]⟩]])] }

def dqOf (cfg : Cfg) (i : Nat) : List Nat :=
  match (run cfg).find? (·.id = i) with
  | some st => st.dq
  | none => []

set_option maxRecDepth 100000 in
/-- Finding F1 (unchanged tree): honest members 1 and 2 end with different DQ sets and keys. -/
theorem phase9_disagreement_unfixed : modelHolds (f1 false) = false := by decide +kernel

set_option maxRecDepth 100000 in
/-- Finding F1, single corrupt member (unchanged tree): honest member 1 disqualifies honest
    member 2, and the two compute different group keys. -/
theorem honest_disqualified_unfixed :
    2 ∈ dqOf (f1single false) 1 ∧ modelHolds (f1single false) = false := by decide +kernel

set_option maxRecDepth 100000 in
/-- The repaired code agrees on the F1 run. -/
theorem f1_fixed_agrees : modelHolds (f1 true) = true := by decide +kernel

set_option maxRecDepth 100000 in
theorem f1_single_fixed_agrees :
    dqOf (f1single true) 1 = [3] ∧ dqOf (f1single true) 2 = [3] ∧ modelHolds (f1single true) = true := by
  decide +kernel

/-! ## further findings of round 2 (each: counterexample on the model of the unchanged code, and the
same run on the model of the repaired code) -/

/-- corrupt 4 reveals the key of operating member 1 (invalid message), corrupt 5 reveals the key for 4:
    whether 5's message is valid depended on whether 4's message had been processed before. -/
def f11 (fix : Bool) : Cfg :=
  { n := 5, t := 2, seed := 1, ord := 2, q := Gen.C01.order, fixed := true, fix11 := fix,
    adv := [(4, 10, [.mods [⟨"rev", [1]⟩]]), (5, 10, [.mods [⟨"rev", [4]⟩]])] }

/-- corrupt 5 sends a second phase 10 message revealing the key used with honest member 4 -/
def fDup (fix : Bool) : Cfg :=
  { n := 5, t := 2, seed := 1, ord := 0, q := Gen.C01.order, fixed := true, fixDedup11 := fix,
    adv := [(5, 10, [.mods [⟨"h", []⟩], .mods [⟨"rev", [4]⟩]])] }

/-- corrupt 2 publishes points valid for members 1 and 4 only and accuses ITSELF in phase 8 -/
def fAbort (fix : Bool) : Cfg :=
  { n := 5, t := 2, seed := 463280, ord := 585, q := Gen.C01.order, fixed := true, fixAbort := fix, fixAccept := fix,
    adv := [(2, 7, [.mods [⟨"pt", [1, 4]⟩]]), (2, 8, [.mods [⟨"acc", [2]⟩]])] }

set_option maxRecDepth 100000 in
/-- unchanged tree: the DQ set of an honest member depended on the cross-sender delivery order -/
theorem phase11_order_dependence_unfixed :
    dqOf (f11 false) 1 ≠ dqOf (f11 false) 2 ∧ modelHolds (f11 false) = false := by decide +kernel

set_option maxRecDepth 100000 in
theorem phase11_order_fixed_agrees : modelHolds (f11 true) = true := by decide +kernel

set_option maxRecDepth 100000 in
/-- unchanged tree: only member 4 disqualified the sender of the second message -/
theorem phase11_second_message_unfixed :
    5 ∈ dqOf (fDup false) 4 ∧ 5 ∉ dqOf (fDup false) 1 ∧ modelHolds (fDup false) = false := by
  decide +kernel

set_option maxRecDepth 100000 in
theorem phase11_second_message_fixed_agrees : modelHolds (fDup true) = true := by decide +kernel

def iaOf (cfg : Cfg) (i : Nat) : List Nat :=
  match (run cfg).find? (·.id = i) with
  | some st => st.ia
  | none => []

set_option maxRecDepth 100000 in
/-- unchanged tree: honest members 1 and 4 abort and honest member 3 marks them inactive -/
theorem abort_marks_honest_inactive_unfixed :
    1 ∈ iaOf (fAbort false) 3 ∧ 4 ∈ iaOf (fAbort false) 3 ∧ modelHolds (fAbort false) = false := by
  decide +kernel

set_option maxRecDepth 100000 in
theorem abort_fixed_agrees : modelHolds (fAbort true) = true := by decide +kernel

/-- corrupt 2 sends a wrong share to member 5 only and stays silent in phase 4 -/
def fOrd (fix : Bool) : Cfg :=
  { n := 5, t := 2, seed := 946276, ord := 644, q := Gen.C01.order, fixed := true, fixOrder := fix,
    adv := [(2, 3, [.mods [⟨"bad", [5]⟩]]), (2, 4, [.silent])] }

/-- corrupt 3 omits the share for member 4, corrupt 4 sends a wrong number of commitments -/
def f4 (fix : Bool) : Cfg :=
  { n := 7, t := 3, seed := 280685, ord := 743800, q := Gen.C01.order, fixed := true, fix4 := fix,
    adv := [(3, 3, [.mods [⟨"rs", [4]⟩], .silent]), (4, 3, [.mods [⟨"cm", []⟩, ⟨"cm", []⟩]])] }

set_option maxRecDepth 100000 in
/-- unchanged tree: member 2 ends DISQUALIFIED for its accuser 5 but INACTIVE for member 1 -/
theorem inactive_vs_disqualified_unfixed :
    2 ∈ dqOf (fOrd false) 5 ∧ 2 ∈ iaOf (fOrd false) 1 ∧ modelHolds (fOrd false) = false := by
  decide +kernel

set_option maxRecDepth 100000 in
theorem inactive_vs_disqualified_fixed_agrees : modelHolds (fOrd true) = true := by decide +kernel

set_option maxRecDepth 100000 in
/-- unchanged tree: whether 3's shares message was complete depended on the delivery order -/
theorem phase4_order_dependence_unfixed : modelHolds (f4 false) = false := by decide +kernel

set_option maxRecDepth 100000 in
theorem phase4_order_fixed_agrees : modelHolds (f4 true) = true := by decide +kernel

/-- corrupt 5 sends a wrong share to corrupt 4, corrupt 4 sends a wrong share to honest 1 and
    (truthfully) accuses 5: member 1 had disqualified 4 on its own and ignored 4's accusation -/
def fAcc (fix : Bool) : Cfg :=
  { n := 5, t := 2, seed := 1, ord := 0, q := Gen.C01.order, fixed := true, fixAccept := fix,
    adv := [(4, 3, [.mods [⟨"bad", [1]⟩]]), (5, 3, [.mods [⟨"bad", [4]⟩]])] }

set_option maxRecDepth 100000 in
/-- unchanged tree: members 2 and 3 disqualify 5, member 1 does not -/
theorem private_dq_hides_accusation_unfixed :
    5 ∈ dqOf (fAcc false) 2 ∧ 5 ∉ dqOf (fAcc false) 1 ∧ modelHolds (fAcc false) = false := by
  decide +kernel

set_option maxRecDepth 100000 in
theorem private_dq_accusation_fixed_agrees : modelHolds (fAcc true) = true := by decide +kernel

/-- T1 tie: the states of the real state chain that are active for a positive number of blocks
    (i.e. receive messages) are exactly the model's sending phases. -/
theorem sending_phases_match :
    ((List.range 13).filter (fun k => Gen.C01.stateActiveBlocks.getD k 0 > 0 ∧ k + 1 ≠ 12)).map (· + 1)
      = (List.range 13).filter sendingPhase := by decide

end KeepVerif.C01
