import KeepVerif.Props.C01
import KeepVerif.Proofs.C01Net
/-!
# C01 — agreement of the views, phase by phase (bottom-up)

`views_agree_after_phase_2_step`: the decision of phase 2 (inactive = sent no admitted phase 1
message, disqualified = first admitted message lacks a key) is the same function of the per-sender
first messages for every member; together with `inbox_author_eq` (consistent broadcast of the model's
network) this is the induction step for phase 2.

## Status of the protocol-level theorem (`agreement`)

Proved here, for all inputs: the network lemma (`Proofs/C01Net.lean`, `inbox_author_eq`), the
phase 2 step (`views_agree_after_phase_2_step`) and the phase 5 step (`resolve5_dq_iff`,
`resolve5_order_independent`, `views_agree_after_phase_5_step` — its premises are exactly the facts the
paper argument below derives for phases 3→5).  Not yet formalised: the instantiation of the step's
hypotheses inside `run` (states after phase 1 are `initSt` + the filtered delivery) and the steps for
the later phases.  Paper argument for the REPAIRED code (every item names the fix that makes it true):

* phases 3→4: admission by the common view (equal after phase 2); inactivity and the completeness
  checks are public and evaluated on a snapshot (`20d0c28`); only the validity of the own share is
  private, and a private disqualification is always announced by an accusation revealing the key.
* phase 4→5: accusations are admitted by the snapshot taken before the own verification (`773009f`),
  so every honest member resolves the same accusations; the verdict is a function of the evidence
  log and the commitments (`verdict5_public`); the accuser's private verdict equals the public one
  because both decrypt the same ciphertext with the same ECDH key (A-aead) and check the same
  equation; resolution precedes inactivity marking (`c47d650`), an unresolvable accusation
  disqualifies its sender (`4d2211d`).  Hence equal views after phase 5.
* phases 7→9: same with `resolution_agree` / `pointsOf_discardPoints` (`4790a8a`).
* phases 10→11: reveals are validated and recovered against one snapshot, first message per sender
  (`fdc6bd5`, `855db62`), only for QUAL members (`62e8a18`); every honest member interpolates the
  same point set (`threshold_interpolates_exec`: any t+1 consistent shares give the same value).
* phase 12: the key is a commutative sum over the same set of individual keys.
-/
namespace KeepVerif.C01

/-- the part of a member state the IA/DQ decisions read and write -/
def core (s : St) : Nat × Nat × List Nat × List Nat := (s.id, s.n, s.ia, s.dq)

theorem markDQ_core (s s' : St) (h : core s = core s') (j : Nat) : core (markDQ s j) = core (markDQ s' j) := by
  simp only [core, Prod.mk.injEq] at h
  obtain ⟨h1, h2, h3, h4⟩ := h
  have ho : isOperating s j = isOperating s' j := by simp [isOperating, h2, h3, h4]
  unfold markDQ
  rw [ho]
  split <;> simp [core, h1, h2, h3, h4]

theorem isValidEph_core (s s' : St) (h : core s = core s') (k : Nat) (keys : List (Nat × Nat)) :
    isValidEph s k keys = isValidEph s' k keys := by
  simp only [core, Prod.mk.injEq] at h
  simp [isValidEph, h.2.1]

theorem phase2Step_core (s s' : St) (h : core s = core s') (p : Nat × List (Nat × Nat)) :
    core (phase2Step s p) = core (if !isValidEph s' p.1 p.2 then markDQ s' p.1 else s') := by
  unfold phase2Step
  rw [isValidEph_core s s' h]
  split
  · exact markDQ_core s s' h _
  · simp only
    split <;> simpa [core] using h

/-- the validity of a phase 1 message depends on the group size only -/
def badEph (n : Nat) (p : Nat × List (Nat × Nat)) : Bool :=
  !(members n).all (fun j => j = p.1 || hasKey j p.2)

theorem phase2_fold_core (l : List (Nat × List (Nat × Nat))) (s s' : St) (h : core s = core s') :
    core (l.foldl phase2Step s) = core (((l.filter (badEph s'.n)).map (·.1)).foldl markDQ s') := by
  induction l generalizing s s' with
  | nil => simpa using h
  | cons p rest ih =>
    simp only [List.foldl_cons, List.filter_cons]
    have hstep := phase2Step_core s s' h p
    have hb : (!isValidEph s' p.1 p.2) = badEph s'.n p := by simp [isValidEph, badEph]
    rw [hb] at hstep
    by_cases hbad : badEph s'.n p = true
    · rw [if_pos hbad] at hstep
      have hn : (markDQ s' p.1).n = s'.n := by unfold markDQ; split <;> rfl
      rw [if_pos hbad, List.map_cons, List.foldl_cons, ← hn]
      exact ih _ _ hstep
    · rw [if_neg hbad] at hstep
      rw [if_neg hbad]
      exact ih _ _ hstep

/-- IA and DQ sets after phase 2, in terms of the senders seen and the senders whose FIRST message
    is incomplete -/
theorem phase2_views (st : St) :
    (∀ k, k ∈ (phase2 st).ia ↔
      k ∈ st.ia ∨ (isOperating st k = true ∧ k ≠ st.id ∧ k ∉ (ephMsgs st).map (·.1))) ∧
    (∀ k, k ∈ (phase2 st).dq ↔
      k ∈ st.dq ∨ (k ∈ ((dedup (·.1) (ephMsgs st)).filter (badEph st.n)).map (·.1) ∧
        isOperating (markInactive st ((ephMsgs st).map (·.1))) k = true)) := by
  let st1 := markInactive st ((ephMsgs st).map (·.1))
  have hc := phase2_fold_core (dedup (·.1) (ephMsgs st)) st1 st1 rfl
  have hn : st1.n = st.n := markInactive_n st _
  have hph : phase2 st = (dedup (·.1) (ephMsgs st)).foldl phase2Step st1 := rfl
  simp only [core, Prod.mk.injEq] at hc
  obtain ⟨_, _, hia, hdq⟩ := hc
  constructor
  · intro k
    rw [hph, hia]
    have hfold : ∀ (l : List Nat) (s : St), (l.foldl markDQ s).ia = s.ia := by
      intro l
      induction l with
      | nil => intro s; rfl
      | cons j rest ih => intro s; rw [List.foldl_cons, ih]; unfold markDQ; split <;> rfl
    rw [hfold]
    exact markInactive_ia_iff st _ k
  · intro k
    rw [hph, hdq, markDQ_fold_iff, hn]
    have : st1.dq = st.dq := markInactive_dq st _
    rw [this]

private theorem nodup_map_unique {α} (f : α → Nat) (l : List α) (hn : (l.map f).Nodup)
    (x y : α) (hx : x ∈ l) (hy : y ∈ l) (h : f x = f y) : x = y := by
  induction l with
  | nil => simp at hx
  | cons z zs ih =>
    simp only [List.map_cons, List.nodup_cons, List.mem_map, not_exists, not_and] at hn
    simp only [List.mem_cons] at hx hy
    rcases hx with rfl | hx <;> rcases hy with rfl | hy
    · rfl
    · exact absurd h.symm (hn.1 y hy)
    · exact absurd h (hn.1 x hx)
    · exact ih hn.2 hx hy

/-- the senders whose FIRST message is `bad`, via `find?` on the raw inbox -/
theorem mem_dedup_filter_iff {α} (f : α → Nat) (bad : α → Bool) (l : List α) (k : Nat) :
    k ∈ ((dedup f l).filter bad).map f ↔ ∃ p, l.find? (fun x => f x = k) = some p ∧ bad p = true := by
  constructor
  · intro h
    obtain ⟨p, hp, rfl⟩ := List.mem_map.1 h
    obtain ⟨hpd, hbad⟩ := List.mem_filter.1 hp
    refine ⟨p, ?_, hbad⟩
    rw [← dedup_first_wins]
    cases hfd : (dedup f l).find? (fun x => decide (f x = f p)) with
    | none =>
      have := List.find?_eq_none.1 hfd p hpd
      simp at this
    | some p' =>
      have h1 := List.mem_of_find?_eq_some hfd
      have h2 := List.find?_some hfd
      simp only [decide_eq_true_eq] at h2
      rw [nodup_map_unique f _ (dedup_senders_nodup f l) p' p h1 hpd h2]
  · rintro ⟨p, hfind, hbad⟩
    rw [← dedup_first_wins] at hfind
    have h1 := List.mem_of_find?_eq_some hfind
    have h2 := List.find?_some hfind
    simp only [decide_eq_true_eq] at h2
    exact List.mem_map.2 ⟨p, List.mem_filter.2 ⟨h1, hbad⟩, h2⟩

theorem mem_map_iff_find {α} (f : α → Nat) (l : List α) (k : Nat) :
    k ∈ l.map f ↔ (l.find? (fun x => f x = k)).isSome = true := by
  rw [List.find?_isSome]
  simp [List.mem_map]

/-- **Phase 2 agreement step.**  Two members at the start of the protocol (empty IA/DQ) whose
    inboxes contain, for every third member, the same first phase 1 message (consistent broadcast),
    that do not hold a message of themselves, hold only messages of group members, and hold a
    complete message of each other, end phase 2 with the same IA set and the same DQ set, and do
    not mark each other. -/
theorem views_agree_after_phase_2_step (a b : St) (n : Nat)
    (han : a.n = n) (hbn : b.n = n)
    (ha0 : a.ia = [] ∧ a.dq = []) (hb0 : b.ia = [] ∧ b.dq = [])
    (hrA : ∀ k ∈ (ephMsgs a).map (·.1), 1 ≤ k ∧ k ≤ n ∧ k ≠ a.id)
    (hrB : ∀ k ∈ (ephMsgs b).map (·.1), 1 ≤ k ∧ k ≤ n ∧ k ≠ b.id)
    (hsync : ∀ k, k ≠ a.id → k ≠ b.id →
      (ephMsgs a).find? (fun p => p.1 = k) = (ephMsgs b).find? (fun p => p.1 = k))
    (hba : ∃ p, (ephMsgs a).find? (fun p => p.1 = b.id) = some p ∧ badEph n p = false)
    (hab : ∃ p, (ephMsgs b).find? (fun p => p.1 = a.id) = some p ∧ badEph n p = false)
    (hida : 1 ≤ a.id ∧ a.id ≤ n) (hidb : 1 ≤ b.id ∧ b.id ≤ n) :
    (∀ k, k ∈ (phase2 a).ia ↔ k ∈ (phase2 b).ia) ∧ (∀ k, k ∈ (phase2 a).dq ↔ k ∈ (phase2 b).dq) ∧
    b.id ∉ (phase2 a).ia ∧ b.id ∉ (phase2 a).dq ∧ a.id ∉ (phase2 b).ia ∧ a.id ∉ (phase2 b).dq := by
  -- characterisations
  have iaChar : ∀ (s : St), s.n = n → s.ia = [] ∧ s.dq = [] → ∀ k,
      k ∈ (phase2 s).ia ↔ (1 ≤ k ∧ k ≤ n ∧ k ≠ s.id ∧ ((ephMsgs s).find? (fun p => p.1 = k)).isSome = false) := by
    intro s hn h0 k
    rw [(phase2_views s).1 k, mem_map_iff_find]
    have hop : isOperating s k = true ↔ (1 ≤ k ∧ k ≤ n) := by simp [isOperating, h0.1, h0.2, hn]
    rw [h0.1, hop]
    simp only [List.not_mem_nil, false_or, Bool.not_eq_true]
    constructor
    · rintro ⟨⟨x, y⟩, z, w⟩; exact ⟨x, y, z, w⟩
    · rintro ⟨x, y, z, w⟩; exact ⟨⟨x, y⟩, z, w⟩
  have dqChar : ∀ (s : St), s.n = n → s.ia = [] ∧ s.dq = [] →
      (∀ k ∈ (ephMsgs s).map (·.1), 1 ≤ k ∧ k ≤ n ∧ k ≠ s.id) → ∀ k,
      k ∈ (phase2 s).dq ↔ ∃ p, (ephMsgs s).find? (fun p => p.1 = k) = some p ∧ badEph n p = true := by
    intro s hn h0 hr k
    rw [(phase2_views s).2 k, mem_dedup_filter_iff, h0.2, hn]
    simp only [List.not_mem_nil, false_or]
    constructor
    · exact fun h => h.1
    · intro h
      refine ⟨h, ?_⟩
      obtain ⟨p, hp, _⟩ := h
      have hk : k ∈ (ephMsgs s).map (·.1) := by
        rw [mem_map_iff_find, hp]; rfl
      obtain ⟨k1, k2, k3⟩ := hr k hk
      have hnia : k ∉ (markInactive s ((ephMsgs s).map (·.1))).ia := by
        rw [markInactive_ia_iff, h0.1]
        simp only [List.not_mem_nil, false_or, not_and]
        intro _ _ hc; exact hc hk
      have hdq : (markInactive s ((ephMsgs s).map (·.1))).dq = [] := by rw [markInactive_dq, h0.2]
      simp only [isOperating, markInactive_n, hn, hdq, Bool.and_eq_true, decide_eq_true_eq,
        Bool.not_eq_true', List.contains_eq_mem, decide_eq_false_iff_not, List.not_mem_nil,
        not_false_eq_true, and_true]
      exact ⟨⟨k1, k2⟩, hnia⟩
  have selfA : (ephMsgs a).find? (fun p => p.1 = a.id) = none := by
    rw [List.find?_eq_none]
    intro p hp hc
    simp only [decide_eq_true_eq] at hc
    exact (hrA p.1 (List.mem_map.2 ⟨p, hp, rfl⟩)).2.2 hc
  have selfB : (ephMsgs b).find? (fun p => p.1 = b.id) = none := by
    rw [List.find?_eq_none]
    intro p hp hc
    simp only [decide_eq_true_eq] at hc
    exact (hrB p.1 (List.mem_map.2 ⟨p, hp, rfl⟩)).2.2 hc
  obtain ⟨pb, hpb, hpbok⟩ := hba
  obtain ⟨pa, hpa, hpaok⟩ := hab
  have iaA := iaChar a han ha0
  have iaB := iaChar b hbn hb0
  have dqA := dqChar a han ha0 hrA
  have dqB := dqChar b hbn hb0 hrB
  refine ⟨?_, ?_, ?_, ?_, ?_, ?_⟩
  · intro k
    rw [iaA k, iaB k]
    by_cases hka : k = a.id
    · subst hka; simp [hpa]
    · by_cases hkb : k = b.id
      · subst hkb; simp [hpb]
      · rw [hsync k hka hkb]; simp [hka, hkb]
  · intro k
    rw [dqA k, dqB k]
    by_cases hka : k = a.id
    · subst hka; simp [selfA, hpa, hpaok]
    · by_cases hkb : k = b.id
      · subst hkb; simp [selfB, hpb, hpbok]
      · rw [hsync k hka hkb]
  · rw [iaA]; simp [hpb]
  · rw [dqA]; simp [hpb, hpbok]
  · rw [iaB]; simp [hpa]
  · rw [dqB]; simp [hpa, hpaok]

/-! ## phase 5: resolution of the share accusations -/

/-- the public data the phase 5 verdicts are computed from -/
structure Pub5 where
  ev : Evidence
  q : Nat
  n : Nat
  recvC : List (Nat × List (Nat × Nat))

def pub5 (s : St) : Pub5 := ⟨evidence s, s.q, s.n, s.recvC⟩

/-- member disqualified by the judge `self` for one accusation (repaired code: an unresolvable
    accusation disqualifies its sender) -/
def target5 (P : Pub5) (self : Nat) (a : Nat × Nat × Nat) : Nat :=
  match verdict5 P.ev P.q self P.n ((lookup a.2.1 P.recvC).getD []) a.1 a.2.1 a.2.2 with
  | .fatal => a.1
  | .accuser => a.1
  | _ => a.2.1

theorem resolve5Step_spec (s : St) (a : Nat × Nat × Nat) (hok : s.status = .ok) (hfa : s.fixAbort = true) :
    core (resolve5Step s a) = core (markDQ s (target5 (pub5 s) s.id a)) ∧
    pub5 (resolve5Step s a) = pub5 s ∧ (resolve5Step s a).status = .ok ∧
    (resolve5Step s a).fixAbort = true := by
  have hmk : ∀ j, pub5 (discardShares (markDQ s j) j) = pub5 s ∧
      core (discardShares (markDQ s j) j) = core (markDQ s j) ∧
      (discardShares (markDQ s j) j).status = .ok ∧ (discardShares (markDQ s j) j).fixAbort = true := by
    intro j
    unfold discardShares markDQ
    split <;> simp [pub5, core, evidence, hok, hfa]
  unfold resolve5Step target5
  simp only [hok, ne_eq, not_true_eq_false, if_false, hfa, if_true, pub5]
  cases hv : verdict5 (evidence s) s.q s.id s.n ((lookup a.2.1 s.recvC).getD []) a.1 a.2.1 a.2.2 <;>
    simp only [] <;>
    exact ⟨(hmk _).2.1, (hmk _).1, (hmk _).2.2.1, (hmk _).2.2.2⟩

theorem resolve5_fold (l : List (Nat × Nat × Nat)) (s : St) (hok : s.status = .ok) (hfa : s.fixAbort = true) :
    core (l.foldl resolve5Step s) = core ((l.map (target5 (pub5 s) s.id)).foldl markDQ s) ∧
    (l.foldl resolve5Step s).status = .ok := by
  suffices h : ∀ (l : List (Nat × Nat × Nat)) (s s' : St), s.status = .ok → s.fixAbort = true →
      core s = core s' →
      core (l.foldl resolve5Step s) = core ((l.map (target5 (pub5 s) s.id)).foldl markDQ s') ∧
      (l.foldl resolve5Step s).status = .ok from h l s s hok hfa rfl
  intro l
  induction l with
  | nil => intro s s' h1 _ hc; exact ⟨hc, h1⟩
  | cons a rest ih =>
    intro s s' h1 h2 hc
    obtain ⟨c1, c2, c3, c4⟩ := resolve5Step_spec s a h1 h2
    simp only [List.foldl_cons, List.map_cons]
    have hid : (resolve5Step s a).id = s.id := by
      have := congrArg (·.1) c1
      simpa [core, markDQ] using (show (resolve5Step s a).id = (markDQ s _).id from this).trans (by unfold markDQ; split <;> rfl)
    have := ih (resolve5Step s a) (markDQ s' (target5 (pub5 s) s.id a)) c3 c4
      (c1.trans (markDQ_core s s' hc _))
    rw [c2, hid] at this
    exact this

/-- DQ set after the phase 5 resolution (repaired code): the old one plus the operating targets of
    the verdicts — all computed on the state BEFORE the resolution, hence independent of the order
    in which the accusations (messages, and Go map entries inside a message) are processed. -/
theorem resolve5_dq_iff (l : List (Nat × Nat × Nat)) (s : St) (hok : s.status = .ok)
    (hfa : s.fixAbort = true) (k : Nat) :
    k ∈ (l.foldl resolve5Step s).dq ↔
      k ∈ s.dq ∨ (k ∈ l.map (target5 (pub5 s) s.id) ∧ isOperating s k = true) := by
  have h := (resolve5_fold l s hok hfa).1
  simp only [core, Prod.mk.injEq] at h
  rw [h.2.2.2, markDQ_fold_iff]

theorem resolve5_order_independent (l l' : List (Nat × Nat × Nat)) (hp : ∀ a, a ∈ l ↔ a ∈ l') (s : St)
    (hok : s.status = .ok) (hfa : s.fixAbort = true) (k : Nat) :
    k ∈ (l.foldl resolve5Step s).dq ↔ k ∈ (l'.foldl resolve5Step s).dq := by
  rw [resolve5_dq_iff l s hok hfa, resolve5_dq_iff l' s hok hfa]
  simp only [List.mem_map, hp]

/-- **Phase 5 agreement step (DQ sets).**  Two honest members `a`, `b` that
    * hold the same public data (evidence log, commitments), the same IA set, and whose DQ lists
      contain only group members that are not inactive,
    * see the same third-party accusations (consistent broadcast + admission by the snapshot),
    * each see the other's accusations, which are truthful (the public verdict confirms them) and
      cover everything the other disqualified on its own,
    * are themselves never convicted by the public verdict (honest members' shares verify),
    end the resolution with the same DQ set. -/
theorem views_agree_after_phase_5_step (a b : St) (accsA accsB : List (Nat × Nat × Nat))
    (hoka : a.status = .ok) (hokb : b.status = .ok) (hfa : a.fixAbort = true) (hfb : b.fixAbort = true)
    (hpub : pub5 a = pub5 b) (hia : ∀ k, k ∈ a.ia ↔ k ∈ b.ia)
    (hdqa : ∀ k ∈ a.dq, 1 ≤ k ∧ k ≤ a.n ∧ k ∉ a.ia) (hdqb : ∀ k ∈ b.dq, 1 ≤ k ∧ k ≤ b.n ∧ k ∉ b.ia)
    -- third-party accusations are common
    (h3ab : ∀ x ∈ accsA, x.1 ≠ b.id → x ∈ accsB) (h3ba : ∀ x ∈ accsB, x.1 ≠ a.id → x ∈ accsA)
    -- nobody holds its own accusations
    (hselfA : ∀ x ∈ accsA, x.1 ≠ a.id) (hselfB : ∀ x ∈ accsB, x.1 ≠ b.id)
    -- the other's accusations are truthful and are exactly its private disqualifications
    (htrueA : ∀ x ∈ accsA, x.1 = b.id → target5 (pub5 a) a.id x = x.2.1 ∧ x.2.1 ∈ b.dq)
    (htrueB : ∀ x ∈ accsB, x.1 = a.id → target5 (pub5 b) b.id x = x.2.1 ∧ x.2.1 ∈ a.dq)
    (hprivA : ∀ k ∈ a.dq, k ∈ b.dq ∨ ∃ x ∈ accsB, x.1 = a.id ∧ x.2.1 = k)
    (hprivB : ∀ k ∈ b.dq, k ∈ a.dq ∨ ∃ x ∈ accsA, x.1 = b.id ∧ x.2.1 = k)
    -- accusations against a or b are judged false by the public verdict
    (hhonA : ∀ x ∈ accsB, x.2.1 = a.id → target5 (pub5 b) b.id x = x.1)
    (hhonB : ∀ x ∈ accsA, x.2.1 = b.id → target5 (pub5 a) a.id x = x.1) :
    ∀ k, k ∈ (accsA.foldl resolve5Step a).dq ↔ k ∈ (accsB.foldl resolve5Step b).dq := by
  have hn : a.n = b.n := congrArg Pub5.n hpub
  -- one direction, stated symmetrically
  have key : ∀ (a b : St) (accsA accsB : List (Nat × Nat × Nat)),
      a.status = .ok → b.status = .ok → a.fixAbort = true → b.fixAbort = true →
      pub5 a = pub5 b → (∀ k, k ∈ a.ia ↔ k ∈ b.ia) →
      (∀ k ∈ a.dq, 1 ≤ k ∧ k ≤ a.n ∧ k ∉ a.ia) →
      (∀ x ∈ accsA, x.1 ≠ b.id → x ∈ accsB) →
      (∀ x ∈ accsA, x.1 ≠ a.id) →
      (∀ x ∈ accsA, x.1 = b.id → target5 (pub5 a) a.id x = x.2.1 ∧ x.2.1 ∈ b.dq) →
      (∀ x ∈ accsB, x.1 = a.id → target5 (pub5 b) b.id x = x.2.1 ∧ x.2.1 ∈ a.dq) →
      (∀ k ∈ a.dq, k ∈ b.dq ∨ ∃ x ∈ accsB, x.1 = a.id ∧ x.2.1 = k) →
      (∀ x ∈ accsB, x.2.1 = a.id → target5 (pub5 b) b.id x = x.1) →
      (∀ x ∈ accsA, x.2.1 = b.id → target5 (pub5 a) a.id x = x.1) →
      ∀ k, k ∈ (accsA.foldl resolve5Step a).dq → k ∈ (accsB.foldl resolve5Step b).dq := by
    intro a b accsA accsB hoka hokb hfa hfb hpub hia hdqa h3ab hselfA htrueA htrueB hprivA hhonA hhonB k
    have hn : a.n = b.n := congrArg Pub5.n hpub
    rw [resolve5_dq_iff accsA a hoka hfa, resolve5_dq_iff accsB b hokb hfb]
    have opB : ∀ k, 1 ≤ k → k ≤ a.n → k ∉ a.ia → k ∉ b.dq → isOperating b k = true := by
      intro k h1 h2 h3 h4
      have : k ∉ b.ia := fun h => h3 ((hia k).2 h)
      simp [isOperating, ← hn, h1, h2, this, h4]
    rintro (hk | ⟨hk, hop⟩)
    · rcases hprivA k hk with h | ⟨x, hx, hx1, hx2⟩
      · exact Or.inl h
      · obtain ⟨r1, r2, r3⟩ := hdqa k hk
        by_cases hkb : k ∈ b.dq
        · exact Or.inl hkb
        · refine Or.inr ⟨List.mem_map.2 ⟨x, hx, ?_⟩, opB k r1 r2 r3 hkb⟩
          rw [(htrueB x hx hx1).1, hx2]
    · obtain ⟨x, hx, hxt⟩ := List.mem_map.1 hk
      have hrange : 1 ≤ k ∧ k ≤ a.n ∧ k ∉ a.ia := by
        simp only [isOperating, Bool.and_eq_true, decide_eq_true_eq, Bool.not_eq_true',
          List.contains_eq_mem, decide_eq_false_iff_not] at hop
        exact ⟨hop.1.1.1, hop.1.1.2, hop.1.2⟩
      by_cases hkb : k ∈ b.dq
      · exact Or.inl hkb
      · refine Or.inr ⟨?_, opB k hrange.1 hrange.2.1 hrange.2.2 hkb⟩
        by_cases hxb : x.1 = b.id
        · -- b's own (truthful) accusation: its target is on b's DQ list already
          have := htrueA x hx hxb
          rw [this.1] at hxt
          exact absurd (hxt ▸ this.2) hkb
        · have hxB : x ∈ accsB := h3ab x hx hxb
          refine List.mem_map.2 ⟨x, hxB, ?_⟩
          rw [← hxt]
          by_cases hya : x.2.1 = a.id
          · -- a is the accused: a sides against the accuser, and so does the public verdict
            rw [hhonA x hxB hya]
            unfold target5 verdict5 openAccusation
            simp [hya]
          · by_cases hyb : x.2.1 = b.id
            · rw [hhonB x hx hyb]
              unfold target5 verdict5 openAccusation
              simp [hyb]
            · unfold target5
              rw [hpub, verdict5_public (pub5 b).ev (pub5 b).q (pub5 b).n _ x.1 x.2.1 x.2.2 b.id a.id
                (fun h => hyb h.symm) (fun h => hya h.symm)]
  intro k
  exact ⟨key a b accsA accsB hoka hokb hfa hfb hpub hia hdqa h3ab hselfA htrueA htrueB hprivA hhonA hhonB k,
    key b a accsB accsA hokb hoka hfb hfa hpub.symm (fun k => (hia k).symm) hdqb h3ba hselfB htrueB htrueA
      hprivB hhonB hhonA k⟩

end KeepVerif.C01
