import KeepVerif.Model.C19
import KeepVerif.Gen.C19
import KeepVerif.Proofs.C19Wire
import KeepVerif.Proofs.C19Flat
/-!
# C19 — Wire and storage decoding is total and round-trips

* wire layer (`Proofs/C19Wire`): `varint_roundtrip`, `wire_roundtrip` (every admissible field list,
  i.e. every message of every schema);
* typed layer (`Proofs/C19Flat`): `flat_roundtrip`, `unmarshal_marshal` (generic over all flat
  message specs and all value lists), `unmarshal_ok_post`;
* this file: the T1 tie of every schema to the Go descriptors (`Gen/C19.lean`, regenerated),
  per-type instances, the defects of the unrepaired tree, and the monitor tie.

Totality of decoding is by construction of the model (total functions into `Option`); that the Go
code is total is what the correspondence run shows (`PANIC` is never a model output).
-/
namespace KeepVerif.C19
open KeepVerif.Gen

/-! ## T1: the schemas used by the model are the schemas compiled into the Go binary -/

/-- flat specs against the generated descriptors (a changed `.proto`/`pb.go` breaks this proof) -/
theorem schema_tie_flat :
    schemaCode simple3.fields = C19.entry_SignatureShare ∧
    schemaCode simple3.fields = C19.dkg_TSSRoundOneMessage ∧
    schemaCode simple3.fields = C19.dkg_TSSRoundThreeMessage ∧
    schemaCode simple3.fields = C19.signing_TSSRoundThreeMessage ∧
    schemaCode simple3.fields = C19.signing_TSSRoundFourMessage ∧
    schemaCode simple3.fields = C19.signing_TSSRoundFiveMessage ∧
    schemaCode simple3.fields = C19.signing_TSSRoundSixMessage ∧
    schemaCode simple3.fields = C19.signing_TSSRoundSevenMessage ∧
    schemaCode simple3.fields = C19.signing_TSSRoundEightMessage ∧
    schemaCode simple3.fields = C19.signing_TSSRoundNineMessage ∧
    schemaCode finalization.fields = C19.dkg_TSSFinalizationMessage ∧
    schemaCode announcement.fields = C19.announcer_AnnouncementMessage ∧
    schemaCode hashSig.fields = C19.result_DKGResultHashSignature ∧
    schemaCode hashSig.fields = C19.inactivity_ClaimSignatureMessage ∧
    schemaCode hashSig.fields = C19.dkg_ResultSignatureMessage ∧
    schemaCode act1.fields = C19.net_Act1Message ∧
    schemaCode act2.fields = C19.net_Act2Message ∧
    schemaCode act3.fields = C19.net_Act3Message ∧
    schemaCode heartbeat.fields = C19.tbtc_HeartbeatProposal ∧
    schemaCode movedFundsSweep.fields = C19.tbtc_MovedFundsSweepProposal ∧
    schemaCode signature.fields = C19.tecdsa_Signature ∧
    schemaCode signingDone.fields = C19.tbtc_SigningDoneMessage ∧
    schemaCode redemptionSpec.fields = C19.tbtc_RedemptionProposal ∧
    schemaCode movingFundsSpec.fields = C19.tbtc_MovingFundsProposal := by decide

/-- field numbers / kinds the hand-composed decoders select (kinds: 6 message, 1x repeated,
    2x map<uint32,·>), against the generated descriptors. -/
theorem schema_tie_composed :
    C19.dkg_TSSRoundTwoMessage = [1, 0, 2, 2, 3, 22, 4, 3] ∧
    C19.signing_TSSRoundOneMessage = [1, 0, 2, 2, 3, 22, 4, 3] ∧
    C19.signing_TSSRoundTwoMessage = [1, 0, 2, 22, 3, 3] ∧
    C19.gjkr_SecretSharesAccusations = [1, 0, 2, 22, 3, 3] ∧
    C19.gjkr_PointsAccusations = [1, 0, 2, 22, 3, 3] ∧
    C19.gjkr_MisbehavedEphemeralKeys = [1, 0, 2, 22, 3, 3] ∧
    C19.gjkr_PeerShares = [1, 0, 2, 26, 3, 3] ∧
    C19.gjkr_PeerShares_Shares = [1, 2, 2, 2] ∧
    C19.tbtc_CoordinationMessage = [1, 0, 2, 1, 3, 2, 4, 6] ∧
    C19.tbtc_CoordinationProposal = [1, 0, 2, 2] ∧
    C19.tbtc_DepositSweepProposal = [1, 16, 2, 2, 3, 11] ∧
    C19.tbtc_DepositSweepProposal_DepositKey = [1, 2, 2, 0] ∧
    C19.tbtc_Signer = [1, 6, 2, 0, 3, 2] ∧
    C19.tbtc_Wallet = [1, 2, 2, 13] ∧
    C19.dkg_PreParams = [1, 6, 2, 6] ∧
    C19.dkg_PreParams_LocalPreParams = [1, 6, 2, 2, 3, 2, 4, 2, 5, 2, 6, 2, 7, 2, 8, 2] ∧
    C19.dkg_PreParams_PrivateKey = [1, 6, 2, 2, 3, 2] ∧
    C19.dkg_PreParams_PublicKey = [1, 2] ∧
    C19.google_protobuf_Timestamp = [1, 5, 2, 4] ∧
    C19.tecdsa_PrivateKeyShare = [1, 6] ∧
    C19.tecdsa_LocalPartySaveData = [1, 6, 2, 6, 3, 12, 4, 12, 5, 12, 6, 12, 7, 16, 8, 12, 9, 6] ∧
    C19.tecdsa_LocalPartySaveData_LocalPreParams = [1, 6, 2, 2, 3, 2, 4, 2, 5, 2, 6, 2, 7, 2, 8, 2] ∧
    C19.tecdsa_LocalPartySaveData_LocalPreParams_PrivateKey = [1, 2, 2, 2, 3, 2] ∧
    C19.tecdsa_LocalPartySaveData_LocalSecrets = [1, 2, 2, 2] ∧
    C19.tecdsa_LocalPartySaveData_ECPoint = [1, 2, 2, 2] ∧
    C19.gjkr_EphemeralPublicKey = [1, 0, 2, 22, 3, 3] ∧
    C19.dkg_EphemeralPublicKeyMessage = [1, 0, 2, 22, 3, 3] ∧
    C19.signing_EphemeralPublicKeyMessage = [1, 0, 2, 22, 3, 3] ∧
    C19.gjkr_MemberCommitments = [1, 0, 2, 12, 3, 3] ∧
    C19.gjkr_MemberPublicKeySharePoints = [1, 0, 2, 12, 3, 3] ∧
    C19.registry_ThresholdSigner = [1, 0, 2, 2, 3, 3, 4, 22, 5, 13] ∧
    C19.registry_Membership = [1, 2, 2, 3] ∧
    C19.net_Identity = [1, 2] := by decide

/-- every flat spec of the model is an admissible schema (hypothesis of `unmarshal_marshal`) -/
theorem flat_specs_schemaOk :
    SchemaOk simple3.fields ∧ SchemaOk finalization.fields ∧ SchemaOk announcement.fields ∧
    SchemaOk hashSig.fields ∧ SchemaOk act1.fields ∧ SchemaOk act2.fields ∧ SchemaOk act3.fields ∧
    SchemaOk heartbeat.fields ∧ SchemaOk movedFundsSweep.fields ∧ SchemaOk signature.fields ∧
    SchemaOk signingDone.fields ∧ SchemaOk redemptionSpec.fields ∧ SchemaOk movingFundsSpec.fields := by
  refine ⟨?_, ?_, ?_, ?_, ?_, ?_, ?_, ?_, ?_, ?_, ?_, ?_, ?_⟩ <;>
    (constructor
     · decide
     · intro s hs; simp [simple3, finalization, announcement, hashSig, act1, act2, act3, heartbeat,
         movedFundsSweep, signature, signingDone, redemptionSpec, movingFundsSpec] at hs; rcases hs with h | h | h | h | h <;>
         (try subst h) <;> simp_all)

/-! ## per-type instances -/

/-- sender/payload/session messages (`entry.SignatureShareMessage`, tECDSA DKG rounds 1 and 3,
    signing rounds 3–9): every value with a member index ≤ 255 round-trips. -/
theorem simple3_roundtrip (s : Nat) (p sess : Bytes) (hs : s ≤ 255)
    (hp : p.length < 2 ^ 64) (hl : sess.length < 2 ^ 64) (hu : isUtf8 sess = true) :
    simple3.unmarshal (simple3.marshal [.n s, .b p, .b sess]) =
      some (simple3.marshal [.n s, .b p, .b sess]) := by
  apply unmarshal_marshal _ _ flat_specs_schemaOk.1
  · exact ⟨Nat.lt_of_le_of_lt hs (by decide), hp, ⟨hl, hu⟩, trivial⟩
  · simp [simple3, idxOk, hs]

/-- … and an accepted message has a member index ≤ 255 (`validateMemberIndex`). -/
theorem simple3_ok_valid (bs out : Bytes) (h : simple3.unmarshal bs = some out) :
    ∃ s p sess, s ≤ 255 ∧ out = simple3.marshal [.n s, .b p, .b sess] := by
  obtain ⟨fs, vs, vs', _, _, h3, h4⟩ := unmarshal_ok_post simple3 bs out h
  rcases vs with _ | ⟨a, _ | ⟨b, _ | ⟨c, _ | ⟨d, t⟩⟩⟩⟩ <;> try (simp [simple3] at h3)
  cases a <;> cases b <;> cases c <;> simp [simple3] at h3
  obtain ⟨hi, rfl⟩ := h3
  exact ⟨_, _, _, by simpa [idxOk] using hi, h4⟩

/-- result-hash signature messages (beacon DKG result, tECDSA DKG result, inactivity claim):
    round trip for index ≤ 255 and a 32-byte hash. -/
theorem hashSig_roundtrip (s : Nat) (h sg pk sess : Bytes) (hs : s ≤ 255) (hh : h.length = 32)
    (h1 : sg.length < 2 ^ 64) (h2 : pk.length < 2 ^ 64) (h3 : sess.length < 2 ^ 64)
    (hu : isUtf8 sess = true) :
    hashSig.unmarshal (hashSig.marshal [.n s, .b h, .b sg, .b pk, .b sess]) =
      some (hashSig.marshal [.n s, .b h, .b sg, .b pk, .b sess]) := by
  apply unmarshal_marshal _ _ flat_specs_schemaOk.2.2.2.1
  · exact ⟨Nat.lt_of_le_of_lt hs (by decide), (show h.length < 2 ^ 64 by rw [hh]; decide), h1, h2, ⟨h3, hu⟩, trivial⟩
  · simp [hashSig, idxOk, hs, hh]

theorem hashSig_ok_valid (bs out : Bytes) (h : hashSig.unmarshal bs = some out) :
    ∃ s hsh sg pk sess, s ≤ 255 ∧ hsh.length = 32 ∧
      out = hashSig.marshal [.n s, .b hsh, .b sg, .b pk, .b sess] := by
  obtain ⟨fs, vs, vs', _, _, h3, h4⟩ := unmarshal_ok_post hashSig bs out h
  rcases vs with _ | ⟨a, _ | ⟨b, _ | ⟨c, _ | ⟨d, _ | ⟨e, _ | ⟨f, t⟩⟩⟩⟩⟩⟩ <;> try (simp [hashSig] at h3)
  cases a <;> cases b <;> cases c <;> cases d <;> cases e <;> simp [hashSig] at h3
  obtain ⟨⟨hi, hl⟩, rfl⟩ := h3
  exact ⟨_, _, _, _, _, by simpa [idxOk] using hi, hl, h4⟩

/-- handshake act 2: 8-byte nonce and 32-byte challenge round-trip; nothing else is accepted -/
theorem act2_roundtrip (nonce ch p : Bytes) (hn : nonce.length = 8) (hc : ch.length = 32)
    (hl : p.length < 2 ^ 64) (hu : isUtf8 p = true) :
    act2.unmarshal (act2.marshal [.b nonce, .b ch, .b p]) = some (act2.marshal [.b nonce, .b ch, .b p]) := by
  apply unmarshal_marshal _ _ flat_specs_schemaOk.2.2.2.2.2.1
  · exact ⟨(show nonce.length < 2 ^ 64 by rw [hn]; decide), (show ch.length < 2 ^ 64 by rw [hc]; decide), ⟨hl, hu⟩, trivial⟩
  · simp [act2, hn, hc]

theorem act2_ok_valid (bs out : Bytes) (h : act2.unmarshal bs = some out) :
    ∃ nonce ch p, nonce.length = 8 ∧ ch.length = 32 ∧ out = act2.marshal [.b nonce, .b ch, .b p] := by
  obtain ⟨fs, vs, vs', _, _, h3, h4⟩ := unmarshal_ok_post act2 bs out h
  rcases vs with _ | ⟨a, _ | ⟨b, _ | ⟨c, _ | ⟨d, t⟩⟩⟩⟩ <;> try (simp [act2] at h3)
  cases a <;> cases b <;> cases c <;> simp [act2] at h3
  obtain ⟨⟨h8, h32⟩, rfl⟩ := h3
  exact ⟨_, _, _, h8, h32, h4⟩

/-- moving-funds proposal (repeated 20-byte wallet hashes + fee as a big integer): round trip
    for every list of 20-byte hashes and every fee without leading zero bytes. -/
theorem movingFunds_roundtrip (ws : List Bytes) (fee : Bytes) (hw : ∀ w ∈ ws, w.length = 20)
    (hf : fee.length < 2 ^ 64) (hz : stripZeros fee = fee) :
    movingFundsSpec.unmarshal (movingFundsSpec.marshal [.l ws, .b fee]) =
      some (movingFundsSpec.marshal [.l ws, .b fee]) := by
  apply unmarshal_marshal _ _ flat_specs_schemaOk.2.2.2.2.2.2.2.2.2.2.2.2
  · refine ⟨?_, hf, trivial⟩
    intro b hb
    show b.length < 2 ^ 64
    rw [hw b hb]; decide
  · have : ws.all (fun w => w.length == 20) = true := by
      simp only [List.all_eq_true]; intro w hw'; simp [hw w hw']
    simp [movingFundsSpec, hz]
    exact hw

/-- … and only 20-byte wallet hashes are accepted -/
theorem movingFunds_ok_valid (bs out : Bytes) (h : movingFundsSpec.unmarshal bs = some out) :
    ∃ ws fee, (∀ w ∈ ws, w.length = 20) ∧ out = movingFundsSpec.marshal [.l ws, .b fee] := by
  obtain ⟨fs, vs, vs', _, _, h3, h4⟩ := unmarshal_ok_post movingFundsSpec bs out h
  rcases vs with _ | ⟨a, _ | ⟨b, _ | ⟨c, t⟩⟩⟩ <;> try (simp [movingFundsSpec] at h3)
  cases a <;> cases b <;> simp [movingFundsSpec] at h3
  obtain ⟨hall, rfl⟩ := h3
  exact ⟨_, _, hall, h4⟩

/-- redemption proposal: every list of scripts round-trips (no validation beyond the wire) -/
theorem redemption_roundtrip (scripts : List Bytes) (fee : Bytes)
    (hs : ∀ b ∈ scripts, b.length < 2 ^ 64) (hf : fee.length < 2 ^ 64) (hz : stripZeros fee = fee) :
    redemptionSpec.unmarshal (redemptionSpec.marshal [.l scripts, .b fee]) =
      some (redemptionSpec.marshal [.l scripts, .b fee]) := by
  apply unmarshal_marshal _ _ flat_specs_schemaOk.2.2.2.2.2.2.2.2.2.2.2.1
  · exact ⟨hs, hf, trivial⟩
  · simp [redemptionSpec, hz]

/-! ## defects of the unrepaired tree (F6) and the repaired behaviour -/

/-- **counterexample**: on the empty byte string the original `signer.Unmarshal` dereferences the
    absent wallet — a panic, not an error (replay: `tbtc.Signer -`). -/
theorem signerOrig_counterexample : signerOrig [] = .panic := by decide

/-- the repaired decoder returns an error on the same input -/
theorem signer_empty_err : signer [] = none := by decide

/-- **partial statement that did hold**: whatever the repaired decoder accepts, the original
    accepted with the same value, and wherever the original returned an error or panicked the
    repaired one returns an error — the fixes only turn panics and truncations into errors. -/
theorem signerOrig_partial (bs : Bytes) :
    (∀ out, signer bs = some out → signerOrig bs = .ok out) ∧
    (signerOrig bs = .err → signer bs = none) ∧
    (signerOrig bs = .panic → signer bs = none) := by
  unfold signerOrig signer
  cases parseMsg bs with
  | none => simp
  | some fs =>
    cases h1 : subMsg fs 1 with
    | none => simp [h1]
    | some ow =>
      cases ow with
      | none => simp [h1]
      | some w =>
        by_cases h2 : strOk w 2 = true
        · cases h3 : privateKeyShare (lastLen fs 3) with
          | none => simp [h1, h2, h3, guard']
          | some pks =>
            by_cases h4 : uncompressedOk (lastLen w 1) = true
            · by_cases h5 : idxOk (lastVarint fs 2 % 4294967296) = true
              · have h6 : lastVarint fs 2 % 4294967296 % 256 = lastVarint fs 2 % 4294967296 :=
                  Nat.mod_eq_of_lt (by simp [idxOk] at h5; omega)
                simp [h1, h2, h3, h4, h5, h6, guard']
              · simp [h1, h2, h3, h4, h5, guard']
            · simp [h1, h2, h3, h4, guard']
        · simp [h1, h2, guard']

/-- **counterexample** (`ThresholdSigner`, storage record): member index 256 was decoded as 0
    (`uint8` truncation) — an accepted value that does not round-trip (replay:
    `registry.ThresholdSigner 088002…`); the repaired decoder rejects it whatever the library
    parsers say about the rest. -/
theorem thresholdSignerOrig_counterexample : thresholdSignerOrigIndex [8, 128, 2] = some 0 := by decide

theorem thresholdSigner_fixed_rejects (cvH cvD : Bytes → Option Bytes) :
    thresholdSigner cvH cvD [8, 128, 2] = none := by
  have hp : parseMsg [8, 128, 2] = some [(1, WVal.varint 256)] := by decide
  have hm : mapBytes [(1, WVal.varint 256)] 4 = some [] := by decide
  have hs : (strOk [(1, WVal.varint 256)] 3 && strOk [(1, WVal.varint 256)] 5) = true := by decide
  have hi : idxOk (lastVarint [(1, WVal.varint 256)] 1 % 4294967296) = false := by decide
  simp [thresholdSigner, hp, hm, hs, hi, guard']

/-- the repaired `signer.Unmarshal` never yields the third outcome: it is a total function into
    error-or-value (statement of totality for the fixed model; the model type has no panic). -/
theorem signer_total (bs : Bytes) : signer bs = none ∨ ∃ out, signer bs = some out := by
  cases signer bs with
  | none => exact Or.inl rfl
  | some out => exact Or.inr ⟨out, rfl⟩

/-- **counterexample** (gjkr accusations): sender 5, an *empty* key for member 3, session "s".
    The original decoder swallowed the key error and accepted a message that carries only the
    sender: the session id is silently dropped. -/
theorem accusationsOrig_counterexample :
    accusationsOrig [8, 5, 18, 4, 8, 3, 18, 0, 26, 1, 115] = some [8, 5] := by decide

/-- the repaired decoder rejects it -/
theorem accusations_fixed_rejects :
    mapMsg false 2 3 privCv [8, 5, 18, 4, 8, 3, 18, 0, 26, 1, 115] = none := by
  decide

/-! ## monitor tie -/

def toObs : Option Bytes → Obs
  | some out => .ok out true
  | none => .err

/-- the monitor accepts every output of the model, for every type, oracle and input — on the
    round-trip stream under the hypothesis the stream claims (the model reproduces the input,
    which `unmarshal_marshal` proves for the flat specs). Correspondence (impl = model on the
    sampled inputs) + this theorem ⇒ the property on the implementation's observed behaviour. -/
theorem holds_model (o : Oracle) (ty : String) (wf : Bool) (bs : Bytes) (r : Option Bytes)
    (h : unmarshal o ty bs = some r) (hwf : wf = true → r = some bs) :
    holds o ty wf bs (toObs r) = true := by
  cases wf with
  | false => cases r <;> simp [toObs, holds, propHolds, specHolds, h]
  | true =>
    have := hwf rfl
    subst this
    simp [toObs, holds, propHolds, specHolds, h]

/-- the model-independent clause rejects panics, hangs, non-idempotent values, and a rejected or
    altered round trip, whatever the type -/
theorem propHolds_rejects (bs out : Bytes) (s : String) (wf : Bool) :
    propHolds wf bs (.other s) = false ∧ propHolds wf bs (.ok out false) = false ∧
    propHolds true bs .err = false ∧ (out ≠ bs → propHolds true bs (.ok out true) = false) := by
  refine ⟨rfl, by simp [propHolds], rfl, ?_⟩
  intro hne
  simp [propHolds, hne]

/-! ## non-vacuity -/

example : simple3.unmarshal [8, 7, 18, 2, 1, 2, 26, 1, 115] = some [8, 7, 18, 2, 1, 2, 26, 1, 115] := by decide
-- index 256 is rejected, 2³²+7 wraps to 7 exactly as Go's uint32 conversion does
example : simple3.unmarshal [8, 128, 2] = none := by decide
example : simple3.unmarshal [8, 135, 128, 128, 128, 16] = some [8, 7] := by decide
-- wrong wire type for the sender (length-delimited): skipped as unknown ⇒ sender 0
example : simple3.unmarshal [10, 1, 7, 18, 1, 9] = some [18, 1, 9] := by decide
-- truncated input, stray end-group, invalid UTF-8 in the session id
example : simple3.unmarshal [8, 7, 18, 5, 1] = none := by decide
example : simple3.unmarshal [12] = none := by decide
example : simple3.unmarshal [26, 1, 255] = none := by decide
-- the monitor rejects an accepted value that dropped a field, and a rejected canonical encoding
example : holds [] "entry.SignatureShare" false [8, 7, 26, 1, 115] (.ok [8, 7] true) = false := by decide
example : holds [] "entry.SignatureShare" false [8, 7, 26, 1, 115] .err = false := by decide
example : holds [] "entry.SignatureShare" true [8, 7, 26, 1, 115] (.ok [8, 7, 26, 1, 115] true) = true := by decide
-- library parsing is a parameter: the same bytes with an accepting / rejecting / missing oracle
example : unmarshal [(105, [1, 2], some [1, 2])] "libp2p.Identity" [10, 2, 1, 2] = some (some [10, 2, 1, 2]) := by decide
example : unmarshal [(105, [1, 2], none)] "libp2p.Identity" [10, 2, 1, 2] = some none := by decide
example : unmarshal [] "libp2p.Identity" [10, 2, 1, 2] = none := by decide

end KeepVerif.C19
