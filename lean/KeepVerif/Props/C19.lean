import KeepVerif.Model.C19
import KeepVerif.Gen.C19
import KeepVerif.Proofs.C19Wire
import KeepVerif.Proofs.C19Flat
import KeepVerif.Proofs.C19Map
/-!
# C19 — Wire and storage decoding is total and round-trips

* wire layer (`Proofs/C19Wire`): `varint_roundtrip`, `wire_roundtrip` (every admissible field list,
  i.e. every message of every schema);
* typed layer (`Proofs/C19Flat`): `flat_roundtrip`, `unmarshal_marshal`, `unmarshalF_marshalF`
  (generic over all message specs — scalar, repeated, packed, embedded-message and map fields —
  and all value lists), `unmarshal_ok_post`;
* this file: the T1 tie of every schema to the Go descriptors (`Gen/C19.lean`, regenerated),
  per-type instances, the defects of the unrepaired tree, and the monitor tie.

Totality of decoding is by construction of the model (total functions into `Option`); that the Go
code is total is what the correspondence run shows (`PANIC` is never a model output).
-/
namespace KeepVerif.C19
open KeepVerif.Gen

/-! ## T1: the schemas used by the model are the schemas compiled into the Go binary -/

/-- every spec of the model against the generated descriptors (a changed `.proto`/`pb.go`
    breaks this proof) -/
theorem schema_tie_flat :
    schemaCode simple3.fields = C19.entry_SignatureShare ∧
    schemaCode simple3.fields = C19.dkg_TSSRoundOneMessage ∧
    schemaCode simple3.fields = C19.dkg_TSSRoundThreeMessage ∧
    schemaCode simple3.fields = C19.signing_TSSRoundThreeMessage ∧
    schemaCode simple3.fields = C19.signing_TSSRoundFourMessage ∧
    schemaCode simple3.fields = C19.signing_TSSRoundFiveMessage ∧
    schemaCode simple3.fields = C19.signing_TSSRoundSixMessage ∧
    schemaCode simple3.fields = C19.signing_TSSRoundSevenMessage ∧
    schemaCode simple3.fields = C19.signing_TSSRoundEightMessage ∧
    schemaCode simple3.fields = C19.signing_TSSRoundNineMessage ∧
    schemaCode finalization.fields = C19.dkg_TSSFinalizationMessage ∧
    schemaCode announcement.fields = C19.announcer_AnnouncementMessage ∧
    schemaCode hashSig.fields = C19.result_DKGResultHashSignature ∧
    schemaCode hashSig.fields = C19.inactivity_ClaimSignatureMessage ∧
    schemaCode hashSig.fields = C19.dkg_ResultSignatureMessage ∧
    schemaCode act1.fields = C19.net_Act1Message ∧
    schemaCode act2.fields = C19.net_Act2Message ∧
    schemaCode act3.fields = C19.net_Act3Message ∧
    schemaCode heartbeat.fields = C19.tbtc_HeartbeatProposal ∧
    schemaCode movedFundsSweep.fields = C19.tbtc_MovedFundsSweepProposal ∧
    schemaCode signature.fields = C19.tecdsa_Signature ∧
    schemaCode signingDone.fields = C19.tbtc_SigningDoneMessage ∧
    schemaCode redemptionSpec.fields = C19.tbtc_RedemptionProposal ∧
    schemaCode movingFundsSpec.fields = C19.tbtc_MovingFundsProposal ∧
    schemaCode depositSweepSpec.fields = C19.tbtc_DepositSweepProposal ∧
    schemaCode coordinationSpec.fields = C19.tbtc_CoordinationMessage ∧
    schemaCode peerSharesSpec.fields = C19.gjkr_PeerShares ∧
    schemaCode preParamsSpec.fields = C19.dkg_PreParams ∧
    schemaCode privateKeyShareSpec.fields = C19.tecdsa_PrivateKeyShare ∧
    schemaCode signerSpec.fields = C19.tbtc_Signer ∧
    schemaCode walletSpec.fields = C19.tbtc_Wallet := by decide

/-- specs parameterised by a value converter / library parser: the schema does not depend on it -/
theorem schema_tie_param (cv cv' : Bytes → Option Bytes) :
    schemaCode (mapSpec3 cv).fields = C19.gjkr_SecretSharesAccusations ∧
    schemaCode (mapSpec3 cv).fields = C19.gjkr_PointsAccusations ∧
    schemaCode (mapSpec3 cv).fields = C19.gjkr_MisbehavedEphemeralKeys ∧
    schemaCode (mapSpec3 cv).fields = C19.gjkr_EphemeralPublicKey ∧
    schemaCode (mapSpec3 cv).fields = C19.dkg_EphemeralPublicKeyMessage ∧
    schemaCode (mapSpec3 cv).fields = C19.signing_EphemeralPublicKeyMessage ∧
    schemaCode (mapSpec3 cv).fields = C19.signing_TSSRoundTwoMessage ∧
    schemaCode (mapSpec4 cv).fields = C19.dkg_TSSRoundTwoMessage ∧
    schemaCode (mapSpec4 cv).fields = C19.signing_TSSRoundOneMessage ∧
    schemaCode (repSpec cv).fields = C19.gjkr_MemberCommitments ∧
    schemaCode (repSpec cv).fields = C19.gjkr_MemberPublicKeySharePoints ∧
    schemaCode (thresholdSignerSpec cv cv').fields = C19.registry_ThresholdSigner ∧
    schemaCode (membershipSpec cv cv').fields = C19.registry_Membership ∧
    schemaCode (identitySpec cv).fields = C19.net_Identity :=
  ⟨rfl, rfl, rfl, rfl, rfl, rfl, rfl, rfl, rfl, rfl, rfl, rfl, rfl, rfl⟩

/-- embedded messages selected inside the `post` functions (kinds: 6 message, 1x repeated) -/
theorem schema_tie_composed :
    C19.gjkr_PeerShares_Shares = [1, 2, 2, 2] ∧
    C19.tbtc_CoordinationProposal = [1, 0, 2, 2] ∧
    C19.tbtc_DepositSweepProposal_DepositKey = [1, 2, 2, 0] ∧
    C19.dkg_PreParams_LocalPreParams = [1, 6, 2, 2, 3, 2, 4, 2, 5, 2, 6, 2, 7, 2, 8, 2] ∧
    C19.dkg_PreParams_PrivateKey = [1, 6, 2, 2, 3, 2] ∧
    C19.dkg_PreParams_PublicKey = [1, 2] ∧
    C19.google_protobuf_Timestamp = [1, 5, 2, 4] ∧
    C19.tecdsa_LocalPartySaveData = [1, 6, 2, 6, 3, 12, 4, 12, 5, 12, 6, 12, 7, 16, 8, 12, 9, 6] ∧
    C19.tecdsa_LocalPartySaveData_LocalPreParams = [1, 6, 2, 2, 3, 2, 4, 2, 5, 2, 6, 2, 7, 2, 8, 2] ∧
    C19.tecdsa_LocalPartySaveData_LocalPreParams_PrivateKey = [1, 2, 2, 2, 3, 2] ∧
    C19.tecdsa_LocalPartySaveData_LocalSecrets = [1, 2, 2, 2] ∧
    C19.tecdsa_LocalPartySaveData_ECPoint = [1, 2, 2, 2] := by decide

/-! ## every spec of the dispatch table is an admissible schema -/

def schemaOkB (S : List FSpec) : Bool :=
  decide (S.map (·.num)).Nodup && S.all fun s => decide (1 ≤ s.num) && decide (s.num ≤ 536870911)

theorem schemaOk_of_b (S : List FSpec) (h : schemaOkB S = true) : SchemaOk S := by
  simp only [schemaOkB, Bool.and_eq_true, decide_eq_true_eq, List.all_eq_true] at h
  exact ⟨h.1, fun s hs => h.2 s hs⟩

/-- the schema of a table entry does not depend on the oracle -/
theorem table_fields_indep : ∀ e ∈ table, ∀ (o : Oracle) (d : Bool),
    (e.2 o d).fields = (e.2 [] false).fields := by
  intro e he
  simp only [table, List.mem_cons, List.not_mem_nil, or_false] at he
  rcases he with h | h | h | h | h | h | h | h | h | h | h | h | h | h | h | h | h | h | h | h | h | h |
    h | h | h | h | h | h | h | h | h | h | h | h | h | h | h | h | h | h | h | h | h | h <;>
    (subst h; intro o d; rfl)

/-- all 44 schemas of the table are admissible -/
theorem table_schemaOk : table.all (fun e => schemaOkB (e.2 [] false).fields) = true := by decide

theorem specOf_mem (o : Oracle) (d : Bool) (ty : Nat) (M : MsgSpec) (h : specOf o d ty = some M) :
    ∃ e ∈ table, M = e.2 o d := by
  unfold specOf at h
  cases he : table[ty]? with
  | none => simp [he] at h
  | some e =>
    simp only [he, Option.map_some, Option.some.injEq] at h
    exact ⟨e, List.mem_of_getElem? he, h.symm⟩

/-- every spec of the dispatch table has an admissible schema -/
theorem specOf_schemaOk (o : Oracle) (d : Bool) (ty : Nat) (M : MsgSpec)
    (h : specOf o d ty = some M) : SchemaOk M.fields := by
  obtain ⟨e, he, rfl⟩ := specOf_mem o d ty M h
  apply schemaOk_of_b
  rw [table_fields_indep e he o d]
  exact (List.all_eq_true.1 table_schemaOk) e he

/-- both oracle readings of a type have the same schema -/
theorem specOf_fields_eq (o : Oracle) (ty : Nat) (Mf Mt : MsgSpec)
    (hf : specOf o false ty = some Mf) (ht : specOf o true ty = some Mt) : Mt.fields = Mf.fields := by
  unfold specOf at hf ht
  cases he : table[ty]? with
  | none => simp [he] at hf
  | some e =>
    simp only [he, Option.map_some, Option.some.injEq] at hf ht
    subst hf; subst ht
    have hm := List.mem_of_getElem? he
    rw [table_fields_indep e hm o true, table_fields_indep e hm o false]

/-! ## per-type instances -/

/-- sender/payload/session messages (`entry.SignatureShareMessage`, tECDSA DKG rounds 1 and 3,
    signing rounds 3–9): every value with a member index ≤ 255 round-trips. -/
theorem simple3_roundtrip (s : Nat) (p sess : Bytes) (hs : s ≤ 255)
    (hp : p.length < 2 ^ 64) (hl : sess.length < 2 ^ 64) (hu : isUtf8 sess = true) :
    simple3.unmarshal (simple3.marshal [.n s, .b p, .b sess]) =
      some (simple3.marshal [.n s, .b p, .b sess]) := by
  apply unmarshal_marshal _ _ (schemaOk_of_b _ (by decide))
  · exact ⟨Nat.lt_of_le_of_lt hs (by decide), hp, ⟨hl, hu⟩, trivial⟩
  · simp [simple3, idxOk, hs]

/-- … and an accepted message has a member index ≤ 255 (`validateMemberIndex`). -/
theorem simple3_ok_valid (bs out : Bytes) (h : simple3.unmarshal bs = some out) :
    ∃ s p sess, s ≤ 255 ∧ out = simple3.marshal [.n s, .b p, .b sess] := by
  obtain ⟨fs, vs, vs', _, _, h3, h4⟩ := unmarshal_ok_post simple3 bs out h
  rcases vs with _ | ⟨a, _ | ⟨b, _ | ⟨c, _ | ⟨d, t⟩⟩⟩⟩ <;> try (simp [simple3] at h3)
  cases a <;> cases b <;> cases c <;> simp [simple3] at h3
  obtain ⟨hi, rfl⟩ := h3
  exact ⟨_, _, _, by simpa [idxOk] using hi, h4⟩

/-- result-hash signature messages (beacon DKG result, tECDSA DKG result, inactivity claim):
    round trip for index ≤ 255 and a 32-byte hash. -/
theorem hashSig_roundtrip (s : Nat) (h sg pk sess : Bytes) (hs : s ≤ 255) (hh : h.length = 32)
    (h1 : sg.length < 2 ^ 64) (h2 : pk.length < 2 ^ 64) (h3 : sess.length < 2 ^ 64)
    (hu : isUtf8 sess = true) :
    hashSig.unmarshal (hashSig.marshal [.n s, .b h, .b sg, .b pk, .b sess]) =
      some (hashSig.marshal [.n s, .b h, .b sg, .b pk, .b sess]) := by
  apply unmarshal_marshal _ _ (schemaOk_of_b _ (by decide))
  · exact ⟨Nat.lt_of_le_of_lt hs (by decide), (show h.length < 2 ^ 64 by rw [hh]; decide), h1, h2, ⟨h3, hu⟩, trivial⟩
  · simp [hashSig, idxOk, hs, hh]

theorem hashSig_ok_valid (bs out : Bytes) (h : hashSig.unmarshal bs = some out) :
    ∃ s hsh sg pk sess, s ≤ 255 ∧ hsh.length = 32 ∧
      out = hashSig.marshal [.n s, .b hsh, .b sg, .b pk, .b sess] := by
  obtain ⟨fs, vs, vs', _, h2, h3, h4⟩ := unmarshal_ok_post hashSig bs out h
  have hv : vs = [.n (lastVarint fs 1 % 4294967296), .b (lastLen fs 2), .b (lastLen fs 3),
      .b (lastLen fs 4), .b (lastLen fs 5)] := by
    simp only [decFlat, hashSig, List.mapM_cons, List.mapM_nil, decField] at h2
    split at h2 <;> simp at h2
    exact h2.symm
  subst hv
  simp [hashSig] at h3
  obtain ⟨⟨hi, hl⟩, rfl⟩ := h3
  exact ⟨_, _, _, _, _, by simpa [idxOk] using hi, hl, h4⟩

/-- handshake act 2: 8-byte nonce and 32-byte challenge round-trip; nothing else is accepted -/
theorem act2_roundtrip (nonce ch p : Bytes) (hn : nonce.length = 8) (hc : ch.length = 32)
    (hl : p.length < 2 ^ 64) (hu : isUtf8 p = true) :
    act2.unmarshal (act2.marshal [.b nonce, .b ch, .b p]) = some (act2.marshal [.b nonce, .b ch, .b p]) := by
  apply unmarshal_marshal _ _ (schemaOk_of_b _ (by decide))
  · exact ⟨(show nonce.length < 2 ^ 64 by rw [hn]; decide), (show ch.length < 2 ^ 64 by rw [hc]; decide), ⟨hl, hu⟩, trivial⟩
  · simp [act2, hn, hc]

theorem act2_ok_valid (bs out : Bytes) (h : act2.unmarshal bs = some out) :
    ∃ nonce ch p, nonce.length = 8 ∧ ch.length = 32 ∧ out = act2.marshal [.b nonce, .b ch, .b p] := by
  obtain ⟨fs, vs, vs', _, _, h3, h4⟩ := unmarshal_ok_post act2 bs out h
  rcases vs with _ | ⟨a, _ | ⟨b, _ | ⟨c, _ | ⟨d, t⟩⟩⟩⟩ <;> try (simp [act2] at h3)
  cases a <;> cases b <;> cases c <;> simp [act2] at h3
  obtain ⟨⟨h8, h32⟩, rfl⟩ := h3
  exact ⟨_, _, _, h8, h32, h4⟩

/-- moving-funds proposal (repeated 20-byte wallet hashes + fee as a big integer): round trip
    for every list of 20-byte hashes and every fee without leading zero bytes. -/
theorem movingFunds_roundtrip (ws : List Bytes) (fee : Bytes) (hw : ∀ w ∈ ws, w.length = 20)
    (hf : fee.length < 2 ^ 64) (hz : stripZeros fee = fee) :
    movingFundsSpec.unmarshal (movingFundsSpec.marshal [.l ws, .b fee]) =
      some (movingFundsSpec.marshal [.l ws, .b fee]) := by
  apply unmarshal_marshal _ _ (schemaOk_of_b _ (by decide))
  · refine ⟨?_, hf, trivial⟩
    intro b hb
    show b.length < 2 ^ 64
    rw [hw b hb]; decide
  · have : ws.all (fun w => w.length == 20) = true := by
      simp only [List.all_eq_true]; intro w hw'; simp [hw w hw']
    simp [movingFundsSpec, hz]
    exact hw

/-- … and only 20-byte wallet hashes are accepted -/
theorem movingFunds_ok_valid (bs out : Bytes) (h : movingFundsSpec.unmarshal bs = some out) :
    ∃ ws fee, (∀ w ∈ ws, w.length = 20) ∧ out = movingFundsSpec.marshal [.l ws, .b fee] := by
  obtain ⟨fs, vs, vs', _, _, h3, h4⟩ := unmarshal_ok_post movingFundsSpec bs out h
  rcases vs with _ | ⟨a, _ | ⟨b, _ | ⟨c, t⟩⟩⟩ <;> try (simp [movingFundsSpec] at h3)
  cases a <;> cases b <;> simp [movingFundsSpec] at h3
  obtain ⟨hall, rfl⟩ := h3
  exact ⟨_, _, hall, h4⟩

/-- redemption proposal: every list of scripts round-trips (no validation beyond the wire) -/
theorem redemption_roundtrip (scripts : List Bytes) (fee : Bytes)
    (hs : ∀ b ∈ scripts, b.length < 2 ^ 64) (hf : fee.length < 2 ^ 64) (hz : stripZeros fee = fee) :
    redemptionSpec.unmarshal (redemptionSpec.marshal [.l scripts, .b fee]) =
      some (redemptionSpec.marshal [.l scripts, .b fee]) := by
  apply unmarshal_marshal _ _ (schemaOk_of_b _ (by decide))
  · exact ⟨hs, hf, trivial⟩
  · simp [redemptionSpec, hz]

/-! ## every type of the dispatch table: round trip, validity, totality -/

/-- normalising form of `unmarshal_marshal`: whatever the validation turns the values into is what
    comes back -/
theorem unmarshal_marshal_post (M : MsgSpec) (vs vs' : List Val) (hS : SchemaOk M.fields)
    (hc : Canon M.fields vs) (hp : M.post vs = some vs') :
    M.unmarshal (M.marshal vs) = some (M.marshal vs') := unmarshal_marshal_post' M vs vs' hS hc hp

/-- **`_roundtrip` for every decoder type** (all 44 specs of the table, both oracle readings):
    the encoding of a value list that matches the type's schema and that the type's validation
    accepts unchanged is decoded and re-marshalled to the same bytes. -/
theorem spec_roundtrip (o : Oracle) (d : Bool) (ty : Nat) (M : MsgSpec) (vs : List Val)
    (hM : specOf o d ty = some M) (hc : Canon M.fields vs) (hwf : M.post vs = some vs) :
    unmarshalD o d ty (M.marshal vs) = some (some (M.marshal vs)) := by
  unfold unmarshalD
  rw [hM]
  simp [unmarshal_marshal M vs (specOf_schemaOk o d ty M hM) hc hwf]

/-- **`_ok_valid` for every decoder type**: an accepted input was parsed, typed-decoded, and the
    output is the marshalling of what the type's validation produced (so every invariant the
    validation enforces holds of the accepted value). -/
theorem spec_ok_valid (o : Oracle) (d : Bool) (ty : Nat) (M : MsgSpec) (bs out : Bytes)
    (hM : specOf o d ty = some M) (h : unmarshalD o d ty bs = some (some out)) :
    ∃ fs vs vs', parseMsg bs = some fs ∧ decFlat M.fields fs = some vs ∧
      M.post vs = some vs' ∧ out = M.marshal vs' := by
  unfold unmarshalD at h
  rw [hM] at h
  simp only [Option.some.injEq] at h
  exact unmarshal_ok_post M bs out h

/-- **decoding is total** in the repaired models: for every type name, oracle and byte string
    the outcome is "not predicted", an error, or a value — the model type has no panic outcome,
    and the pre-repair outcomes that were panics (`Orig.panic`) are errors now
    (`signerOrig_partial`). -/
theorem unmarshal_total (o : Oracle) (ty : Nat) (bs : Bytes) :
    unmarshal o ty bs = none ∨ unmarshal o ty bs = some none ∨
      ∃ out, unmarshal o ty bs = some (some out) := by
  rcases h : unmarshal o ty bs with _ | _ | out
  · exact Or.inl rfl
  · exact Or.inr (Or.inl rfl)
  · exact Or.inr (Or.inr ⟨out, rfl⟩)

/-- every spec decoder: error or value -/
theorem spec_total (M : MsgSpec) (bs : Bytes) :
    M.unmarshal bs = none ∨ ∃ out, M.unmarshal bs = some out := by
  cases M.unmarshal bs with
  | none => exact Or.inl rfl
  | some out => exact Or.inr ⟨out, rfl⟩

/-! ## map-carrying messages: any wire order of the entries -/

/-- gjkr accusation / misbehaved-key messages (`map<uint32, private key>`): entries in any
    order decode to the key-sorted map; keys ≤ 255, every key a normalised 32-byte scalar
    (`privCv v = some v`). -/
theorem accusations_any_order (s : Nat) (sess : Bytes) (kvs l : List (Nat × Bytes))
    (p : l.Perm kvs) (hs : KeySorted kvs) (hsn : s ≤ 255) (hk : ∀ kv ∈ kvs, kv.1 ≤ 255)
    (hv : ∀ kv ∈ kvs, kv.2.length < 4294967296) (hcv : ∀ kv ∈ kvs, privCv kv.2 = some kv.2)
    (hl : sess.length < 2 ^ 64) (hu : isUtf8 sess = true) :
    (mapSpec3 privCv).unmarshal ((mapSpec3 privCv).marshal [.n s, .ms (l.map entryOf), .b sess]) =
      some ((mapSpec3 privCv).marshal [.n s, .ms (kvs.map entryOf), .b sess]) :=
  mapSpec3_any_order privCv s sess kvs l p hs hsn hk hv hcv hl hu

/-- a 32-byte big-endian scalar without a leading zero byte is its own normal form -/
theorem privCv_fix (v : Bytes) (h32 : v.length = 32) (hnz : v.head? ≠ some 0) : privCv v = some v := by
  cases v with
  | nil => simp at h32
  | cons b r =>
    have hb : b ≠ 0 := by simpa using hnz
    have hsz : stripZeros (b :: r) = b :: r := by
      cases b with
      | zero => exact absurd rfl hb
      | succ n => rfl
    simp [privCv, privNorm, hsz, h32]

/-- tECDSA signing round two (`map<uint32, opaque tss payload>`): any entry order, any payloads -/
theorem tssPeers_any_order (s : Nat) (sess : Bytes) (kvs l : List (Nat × Bytes))
    (p : l.Perm kvs) (hs : KeySorted kvs) (hsn : s ≤ 255) (hk : ∀ kv ∈ kvs, kv.1 ≤ 255)
    (hv : ∀ kv ∈ kvs, kv.2.length < 4294967296) (hl : sess.length < 2 ^ 64) (hu : isUtf8 sess = true) :
    (mapSpec3 some).unmarshal ((mapSpec3 some).marshal [.n s, .ms (l.map entryOf), .b sess]) =
      some ((mapSpec3 some).marshal [.n s, .ms (kvs.map entryOf), .b sess]) :=
  mapSpec3_any_order some s sess kvs l p hs hsn hk hv (fun _ _ => rfl) hl hu

/-! ## composite messages: what an accepted value satisfies -/

theorem decFlat_coordination (fs : List Field) :
    decFlat coordinationSpec.fields fs = (subMsg fs 4).map fun p =>
      [.n (lastVarint fs 1 % 4294967296), .n (lastVarint fs 2), .b (lastLen fs 3), .m p] := by
  simp only [decFlat, coordinationSpec, List.mapM_cons, List.mapM_nil, decField]
  cases subMsg fs 4 <;> rfl

/-- `coordinationMessage`: an accepted message has a sender ≤ 255, a 20-byte wallet public key
    hash, a proposal that is present, of a known action type (≤ 5) and itself accepted by that
    proposal type's decoder. -/
theorem coordination_ok_valid (bs out : Bytes) (h : coordinationSpec.unmarshal bs = some out) :
    ∃ s blk hash at_ pl payload, s ≤ 255 ∧ hash.length = 20 ∧ at_ ≤ 5 ∧
      proposal at_ payload = some pl ∧
      out = coordinationSpec.marshal [.n s, .n blk, .b hash, .m (some (fU 1 at_ ++ fB 2 pl))] := by
  obtain ⟨fs, vs, vs', _, h2, h3, h4⟩ := unmarshal_ok_post coordinationSpec bs out h
  rw [decFlat_coordination] at h2
  cases hs : subMsg fs 4 with
  | none => simp [hs] at h2
  | some op =>
    simp only [hs, Option.map_some, Option.some.injEq] at h2
    subst h2
    cases op with
    | none => simp [coordinationSpec] at h3
    | some p =>
      simp only [coordinationSpec] at h3
      by_cases hg : (idxOk (lastVarint fs 1 % 4294967296) && (lastLen fs 3).length == 20) = true
      · simp only [hg, if_true] at h3
        cases hp : proposal (lastVarint p 1 % 4294967296) (lastLen p 2) with
        | none => simp [hp] at h3
        | some pl =>
          simp only [hp, Option.map_some, Option.some.injEq] at h3
          simp [idxOk] at hg
          have hat : lastVarint p 1 % 4294967296 ≤ 5 := by
            by_cases hle : lastVarint p 1 % 4294967296 ≤ 5
            · exact hle
            · exfalso
              have : proposal (lastVarint p 1 % 4294967296) (lastLen p 2) = none := by
                unfold proposal
                split <;> first | omega | rfl
              rw [this] at hp; exact absurd hp (by simp)
          exact ⟨_, _, _, _, pl, _, hg.1, hg.2, hat, hp, by rw [h4, ← h3]⟩
      · simp [hg] at h3

theorem decFlat_thresholdSigner (cvH cvD : Bytes → Option Bytes) (fs : List Field) (vs : List Val)
    (h : decFlat (thresholdSignerSpec cvH cvD).fields fs = some vs) :
    ∃ gpk share es ops, vs = [.n (lastVarint fs 1 % 4294967296), .b gpk, .b share, .ms es, .l ops] := by
  simp only [decFlat, thresholdSignerSpec, List.mapM_cons, List.mapM_nil, decField] at h
  split at h
  · cases hm : (lens fs 4).mapM parseMsg with
    | none => simp [hm] at h
    | some es =>
      split at h
      · simp [hm] at h; exact ⟨_, _, _, _, h.symm⟩
      · simp [hm] at h
  · simp at h

/-- `ThresholdSigner` (storage record): an accepted record has a member index ≤ 255 — the
    truncation of finding 45827cd cannot happen. -/
theorem thresholdSigner_ok_index (cvH cvD : Bytes → Option Bytes) (bs out : Bytes)
    (h : (thresholdSignerSpec cvH cvD).unmarshal bs = some out) :
    ∃ fs, parseMsg bs = some fs ∧ lastVarint fs 1 % 4294967296 ≤ 255 := by
  obtain ⟨fs, vs, vs', h1, h2, h3, _⟩ := unmarshal_ok_post (thresholdSignerSpec cvH cvD) bs out h
  refine ⟨fs, h1, ?_⟩
  obtain ⟨gpk, share, es, ops, rfl⟩ := decFlat_thresholdSigner cvH cvD fs vs h2
  simp only [thresholdSignerSpec] at h3
  by_cases hi : idxOk (lastVarint fs 1 % 4294967296) = true
  · simpa [idxOk] using hi
  · simp [hi, guard'] at h3

/-! ## defects of the unrepaired tree, one block per finding -/

/-! ### finding c54bee6 — `tbtc.signer.Unmarshal`: nil wallet / unparsable public key -/

/-- **counterexample**: on the empty byte string the original `signer.Unmarshal` dereferences the
    absent wallet — a panic, not an error (replay: `tbtc.Signer -`). -/
theorem signerOrig_counterexample : signerOrig [] = .panic := by decide

/-- the repaired decoder returns an error on the same input -/
theorem signer_empty_err : signer [] = none := by decide

theorem decFlat_signer (fs : List Field) :
    decFlat signerSpec.fields fs =
      (subMsg fs 1).map fun w => [.m w, .n (lastVarint fs 2 % 4294967296), .b (lastLen fs 3)] := by
  simp only [decFlat, signerSpec, List.mapM_cons, List.mapM_nil, decField]
  cases subMsg fs 1 <;> rfl

theorem decFlat_wallet (w : List Field) :
    decFlat walletSpec.fields w =
      if (lens w 2).all isUtf8 then some [.b (lastLen w 1), .l (lens w 2)] else none := by
  simp only [decFlat, walletSpec, List.mapM_cons, List.mapM_nil, decField]
  split <;> rfl

/-- **partial statement that did hold**: whatever the repaired decoder accepts, the original
    accepted with the same value; wherever the original returned an error or panicked the
    repaired one returns an error — the fixes only turn panics and truncations into errors. -/
theorem signerOrig_partial (bs : Bytes) :
    (∀ out, signer bs = some out → signerOrig bs = .ok out) ∧
    (signerOrig bs = .err → signer bs = none) ∧
    (signerOrig bs = .panic → signer bs = none) := by
  unfold signerOrig signer MsgSpec.unmarshal MsgSpec.unmarshalF
  cases parseMsg bs with
  | none => simp
  | some fs =>
    simp only [Option.bind_eq_bind, Option.bind_some, decFlat_signer]
    cases h1 : subMsg fs 1 with
    | none => simp
    | some ow =>
      cases ow with
      | none => simp [signerSpec]
      | some w =>
        simp only [Option.map_some, Option.bind_some, signerSpec, MsgSpec.unmarshalF, decFlat_wallet]
        by_cases h2 : (lens w 2).all isUtf8 = true
        · simp only [h2, if_true, Option.bind_some, walletSpec]
          by_cases h4 : uncompressedOk (lastLen w 1) = true
          · by_cases h5 : idxOk (lastVarint fs 2 % 4294967296) = true
            · have h6 : lastVarint fs 2 % 4294967296 % 256 = lastVarint fs 2 % 4294967296 :=
                Nat.mod_eq_of_lt (by simp [idxOk] at h5; omega)
              cases h3 : privateKeyShare (lastLen fs 3) with
              | none => simp [h4, h5, h3, guard']
              | some pks => simp [h4, h5, h3, h6, guard', MsgSpec.marshal]
            · cases h3 : privateKeyShare (lastLen fs 3) <;> simp [h4, h5, h3, guard']
          · cases h3 : privateKeyShare (lastLen fs 3) <;> simp [h4, h3]
        · simp [h2]

/-! ### finding 33a5031 — `tbtc.signer.Unmarshal`: member index truncated to uint8 -/

/-- **counterexample**: index 256 (field 2) was decoded as 0 -/
theorem signerOrigIndex_counterexample : signerOrigIndex [16, 128, 2] = some 0 := by decide

/-- every signer the repaired decoder accepts carries an index ≤ 255 (no truncation possible) -/
theorem signer_ok_index (bs out : Bytes) (h : signer bs = some out) :
    ∃ fs, parseMsg bs = some fs ∧ lastVarint fs 2 % 4294967296 ≤ 255 := by
  obtain ⟨fs, vs, vs', h1, h2, h3, _⟩ := unmarshal_ok_post signerSpec bs out h
  refine ⟨fs, h1, ?_⟩
  rw [decFlat_signer] at h2
  cases hs : subMsg fs 1 with
  | none => simp [hs] at h2
  | some ow =>
    simp only [hs, Option.map_some, Option.some.injEq] at h2
    subst h2
    cases ow with
    | none => simp [signerSpec] at h3
    | some w =>
      simp only [signerSpec] at h3
      cases hw : walletSpec.unmarshalF w with
      | none => simp [hw] at h3
      | some w' =>
        by_cases hi : idxOk (lastVarint fs 2 % 4294967296) = true
        · simpa [idxOk] using hi
        · simp [hw, hi, guard'] at h3

/-! ### finding 192bde1 — gjkr accusation messages: key-map error swallowed -/

/-- **counterexample**: sender 5, an *empty* key for member 3, session "s". The original decoder
    swallowed the key error and accepted a message that carries only the sender: the session id
    is silently dropped. -/
theorem accusationsOrig_counterexample :
    accusationsOrig [8, 5, 18, 4, 8, 3, 18, 0, 26, 1, 115] = some [8, 5] := by decide

/-- the repaired decoder rejects it -/
theorem accusations_fixed_rejects :
    (mapSpec3 privCv).unmarshal [8, 5, 18, 4, 8, 3, 18, 0, 26, 1, 115] = none := by decide

/-! ### finding 45827cd — `ThresholdSigner.Unmarshal`: indexes truncated to uint8 -/

/-- **counterexample**: member index 256 was decoded as 0 (replay `registry.ThresholdSigner 088002…`) -/
theorem thresholdSignerOrig_counterexample : thresholdSignerOrigIndex [8, 128, 2] = some 0 := by decide

/-- the repaired decoder rejects it whatever the library parsers say about the rest -/
theorem thresholdSigner_fixed_rejects (cvH cvD : Bytes → Option Bytes) :
    (thresholdSignerSpec cvH cvD).unmarshal [8, 128, 2] = none := by
  have hp : parseMsg [8, 128, 2] = some [(1, WVal.varint 256)] := by decide
  have hd : decFlat [⟨1, .u32⟩, ⟨2, .bytes⟩, ⟨3, .str⟩, ⟨4, .rmsg 22⟩, ⟨5, .rstr⟩] [(1, WVal.varint 256)] =
      some [.n 256, .b [], .b [], .ms [], .l []] := by decide
  simp [MsgSpec.unmarshal, MsgSpec.unmarshalF, hp, hd, thresholdSignerSpec, idxOk, guard']

/-! ## monitor tie -/

def toObs : Option Bytes → Obs
  | some out => .ok out true
  | none => .err

/-- the monitor accepts every output of the model, for every type, oracle and input; for `wf`
    ops under the hypothesis that the model reproduces the input — which `holds_model_wf` below
    discharges for every well-formed value of every type. Correspondence (impl = model on the
    sampled inputs) + this theorem ⇒ the property on the implementation's observed behaviour. -/
theorem holds_model (o : Oracle) (ty : Nat) (wf : Bool) (bs : Bytes) (r : Option Bytes)
    (h : unmarshal o ty bs = some r) (hwf : wf = true → r = some bs) :
    holds o ty wf bs (toObs r) = true := by
  cases wf with
  | false => cases r <;> simp [toObs, holds, propHolds, specHolds, h]
  | true =>
    have := hwf rfl
    subst this
    simp [toObs, holds, propHolds, specHolds, h]

/-- the model on the encoding of a well-formed value of any type: both oracle readings accept it
    unchanged, so the prediction is "ok, same bytes" … -/
theorem model_wf (o : Oracle) (ty : Nat) (Mf Mt : MsgSpec) (vs : List Val)
    (hf : specOf o false ty = some Mf) (ht : specOf o true ty = some Mt)
    (hc : Canon Mf.fields vs) (hpf : Mf.post vs = some vs) (hpt : Mt.post vs = some vs) :
    unmarshal o ty (Mf.marshal vs) = some (some (Mf.marshal vs)) := by
  have e : Mt.fields = Mf.fields := specOf_fields_eq o ty Mf Mt hf ht
  have hm : Mt.marshal vs = Mf.marshal vs := by simp [MsgSpec.marshal, e]
  unfold unmarshal
  rw [spec_roundtrip o false ty Mf vs hf hc hpf]
  have := spec_roundtrip o true ty Mt vs ht (e ▸ hc) hpt
  rw [hm] at this
  simp [this]

/-- … and **the monitor's round-trip clause holds of the model for every well-formed value of
    every type** (no sampling involved). -/
theorem holds_model_wf (o : Oracle) (ty : Nat) (Mf Mt : MsgSpec) (vs : List Val)
    (hf : specOf o false ty = some Mf) (ht : specOf o true ty = some Mt)
    (hc : Canon Mf.fields vs) (hpf : Mf.post vs = some vs) (hpt : Mt.post vs = some vs) :
    holds o ty true (Mf.marshal vs) (toObs (some (Mf.marshal vs))) = true :=
  holds_model o ty true _ _ (model_wf o ty Mf Mt vs hf ht hc hpf hpt) (fun _ => rfl)

/-- two decodes: the model is a pure function of each input, so the monitor's pair clause accepts
    the model's prediction (`A2 = A`) for every type, oracle and pair of inputs -/
theorem holdsPair_model (o : Oracle) (ty : Nat) (inA inB : Bytes) (ra rb : Option Bytes)
    (ha : unmarshal o ty inA = some ra) (hb : unmarshal o ty inB = some rb) :
    holdsPair o ty inA inB ra rb ra = true := by
  simp [holdsPair, propHoldsPair, specHoldsPair, ha, hb]

/-- … and rejects any observation in which the value decoded first changed afterwards -/
theorem propHoldsPair_rejects (a b a2 : Option Bytes) (h : a2 ≠ a) : propHoldsPair a b a2 = false := by
  simp [propHoldsPair, h]

/-- the model-independent clause rejects panics, hangs, non-idempotent values, and a rejected or
    altered round trip, whatever the type -/
theorem propHolds_rejects (bs out : Bytes) (s : String) (wf : Bool) :
    propHolds wf bs (.other s) = false ∧ propHolds wf bs (.ok out false) = false ∧
    propHolds true bs .err = false ∧ (out ≠ bs → propHolds true bs (.ok out true) = false) := by
  refine ⟨rfl, by simp [propHolds], rfl, ?_⟩
  intro hne
  simp [propHolds, hne]

/-! ## non-vacuity -/

example : simple3.unmarshal [8, 7, 18, 2, 1, 2, 26, 1, 115] = some [8, 7, 18, 2, 1, 2, 26, 1, 115] := by decide
-- index 256 is rejected, 2³²+7 wraps to 7 exactly as Go's uint32 conversion does
example : simple3.unmarshal [8, 128, 2] = none := by decide
example : simple3.unmarshal [8, 135, 128, 128, 128, 16] = some [8, 7] := by decide
-- wrong wire type for the sender (length-delimited): skipped as unknown ⇒ sender 0
example : simple3.unmarshal [10, 1, 7, 18, 1, 9] = some [18, 1, 9] := by decide
-- truncated input, stray end-group, invalid UTF-8 in the session id
example : simple3.unmarshal [8, 7, 18, 5, 1] = none := by decide
example : simple3.unmarshal [12] = none := by decide
example : simple3.unmarshal [26, 1, 255] = none := by decide
-- the monitor rejects an accepted value that dropped a field, and a rejected canonical encoding
example : holds [] 0 false [8, 7, 26, 1, 115] (.ok [8, 7] true) = false := by decide
example : holds [] 0 false [8, 7, 26, 1, 115] .err = false := by decide
example : holds [] 0 true [8, 7, 26, 1, 115] (.ok [8, 7, 26, 1, 115] true) = true := by decide
-- the Noop proposal decoder ignores its input; an unknown type id is not predicted
example : unmarshal [] noopId [1, 2, 3] = some (some []) := by decide
example : unmarshal [] 45 [] = none := by decide
-- library parsing is a parameter: the same bytes with an accepting / rejecting / missing oracle
example : unmarshal [(105, [1, 2], some [1, 2])] 43 [10, 2, 1, 2] = some (some [10, 2, 1, 2]) := by decide
example : unmarshal [(105, [1, 2], none)] 43 [10, 2, 1, 2] = some none := by decide
example : unmarshal [] 43 [10, 2, 1, 2] = none := by decide
example : (table[43]?).map (·.1) = some "libp2p.Identity" := rfl

end KeepVerif.C19
