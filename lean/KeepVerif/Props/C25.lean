import KeepVerif.Model.C25
/-!
# C25 — A wallet never runs two actions at the same time

Theorems over `Model/C25.lean`, for *all* schedules (`∀ sched : List Step`): any number of
wallets, any interleaving of dispatches, goroutine starts, completions (any outcome) and
releases.  Core Lean only.
-/
namespace KeepVerif.C25

/-- T1 tie (lock-set facts regenerated from pkg/tbtc/wallet.go on every run): the whole body of
    `dispatch` is one `actionsMutex` critical section in which the map is checked and written
    before the goroutine is spawned; the goroutine deletes the key in a deferred function under
    the same mutex and otherwise touches neither map nor mutex, so `execute()` runs outside the
    lock; nothing else in the file touches the map.  This is what makes `dispatch k` and
    `release k` atomic steps and `start` / `finish` separate ones. -/
theorem lock_facts :
    (Gen.C25.dispatchBodyLocked && Gen.C25.checkThenInsertBeforeSpawn &&
      Gen.C25.releaseDeferredUnderLock && Gen.C25.executeOutsideLock &&
      Gen.C25.mapOnlyInDispatch) = true := by decide

/-- the dispatcher invariant: a key is in the map iff exactly one spawned goroutine for it is
    somewhere between "spawned" and "deleted its key" -/
def Inv (s : St) : Prop := ∀ k, s.pend k + s.exec k + s.fin k = (if s.inMap k then 1 else 0)

theorem inv_init : Inv St.init := by intro k; simp [St.init]

theorem inv_step (s : St) (st : Step) (h : Inv s) : Inv (step s st).1 := by
  intro x
  have hx := h x
  cases st with
  | dispatch k =>
    have hk := h k
    simp only [step]
    split
    · exact hx
    · rename_i hm
      by_cases e : x = k
      · subst e; simp [upd]; simp [hm] at hk; omega
      · simp [upd, e]; exact hx
  | start k =>
    simp only [step]
    split
    · by_cases e : x = k
      · subst e; simp [upd]; omega
      · simp [upd, e]; exact hx
    · exact hx
  | finish k =>
    simp only [step]
    split
    · by_cases e : x = k
      · subst e; simp [upd]; omega
      · simp [upd, e]; exact hx
    · exact hx
  | release k =>
    have hk := h k
    simp only [step]
    split
    · rename_i hf
      by_cases e : x = k
      · subst e
        simp [upd]
        cases hm : s.inMap x <;> simp [hm] at hk <;> omega
      · simp [upd, e]; exact hx
    · exact hx

theorem inv_run (s : St) (sched : List Step) (h : Inv s) : Inv (run s sched) := by
  induction sched generalizing s with
  | nil => exact h
  | cons st rest ih => exact ih _ (inv_step s st h)

/-- C25: across any interleaving, at most one action executes per wallet at any moment — in
    fact at most one accepted action per wallet exists in any phase. -/
theorem at_most_one_per_wallet (sched : List Step) (k : Nat) :
    (run St.init sched).exec k ≤ 1 ∧ (run St.init sched).active k ≤ 1 := by
  have h := inv_run St.init sched inv_init k
  unfold St.active
  cases hm : (run St.init sched).inMap k <;> simp [hm] at h <;> omega

/-- C25: a dispatch for a busy wallet is refused and changes nothing. -/
theorem busy_refused (s : St) (k : Nat) (h : Inv s) (hb : 0 < s.active k) :
    step s (.dispatch k) = (s, some false) := by
  have hk := h k
  unfold St.active at hb
  cases hm : s.inMap k
  · simp [hm] at hk; omega
  · simp [step, hm]

/-- C25: a dispatch is accepted iff *this* wallet has no action — whatever the other wallets do. -/
theorem dispatch_ok_iff (s : St) (k : Nat) (h : Inv s) :
    (step s (.dispatch k)).2 = some true ↔ s.active k = 0 := by
  have hk := h k
  unfold St.active
  cases hm : s.inMap k <;> simp [step, hm] <;> simp [hm] at hk <;> omega

def Step.key : Step → Nat
  | .dispatch k | .start k | .finish k | .release k => k

/-- a step of wallet `k` does not touch any component of another wallet -/
theorem step_other (s : St) (st : Step) (k' : Nat) (hne : k' ≠ st.key) :
    (step s st).1.inMap k' = s.inMap k' ∧ (step s st).1.pend k' = s.pend k' ∧
    (step s st).1.exec k' = s.exec k' ∧ (step s st).1.fin k' = s.fin k' := by
  cases st <;> simp only [Step.key] at hne <;> simp only [step] <;> split <;> simp [upd, hne]

theorem dispatch_result (s : St) (k : Nat) : (step s (.dispatch k)).2 = some (!s.inMap k) := by
  cases hm : s.inMap k <;> simp [step, hm]

/-- C25: actions of different wallets do not block each other: whether a dispatch for `k'` is
    accepted is not changed by any step (dispatch, start, completion, release) of another wallet. -/
theorem other_wallets_unaffected (s : St) (st : Step) (k' : Nat) (hne : k' ≠ st.key) :
    (step (step s st).1 (.dispatch k')).2 = (step s (.dispatch k')).2 := by
  rw [dispatch_result, dispatch_result, (step_other s st k' hne).1]

/-- C25: the wallet is available again as soon as its action's goroutine released the key, which
    it can always do right after `execute` returned (the step is enabled whenever `fin k > 0`). -/
theorem available_after_release (s : St) (k : Nat) (hf : 0 < s.fin k) :
    (step (step s (.release k)).1 (.dispatch k)).2 = some true := by
  simp [step, hf, upd]

/-- the whole life of an accepted action (start, completion with any outcome, release) frees
    the wallet -/
theorem available_after_end (s : St) (k : Nat) (h : Inv s) (hb : 0 < s.active k) :
    (endAction s k).2 = true ∧ (step (endAction s k).1 (.dispatch k)).2 = some true ∧
      (endAction s k).1.active k = 0 := by
  have hk := h k
  unfold St.active at hb
  have hm : s.inMap k = true := by
    cases hm : s.inMap k
    · simp [hm] at hk; omega
    · rfl
  simp [hm] at hk
  have hact : 0 < s.active k := by unfold St.active; omega
  unfold endAction
  rw [if_pos hact]
  refine ⟨rfl, ?_⟩
  have hi : Inv (run s [.start k, .finish k, .release k]) := inv_run s _ h
  have hi' := hi k
  -- three cases: the action is pending, executing or finished
  have h3 : (s.pend k = 1 ∧ s.exec k = 0 ∧ s.fin k = 0) ∨ (s.pend k = 0 ∧ s.exec k = 1 ∧ s.fin k = 0) ∨
      (s.pend k = 0 ∧ s.exec k = 0 ∧ s.fin k = 1) := by omega
  rcases h3 with ⟨a, b, c⟩ | ⟨a, b, c⟩ | ⟨a, b, c⟩ <;>
    simp [run, step, upd, a, b, c, St.active]

/-- once the key is in the map, further dispatches are all refused -/
theorem dispatchMany_busy (s : St) (k n : Nat) (hm : s.inMap k = true) :
    dispatchMany s k n = (s, 0) := by
  induction n with
  | zero => rfl
  | succ n ih => simp [dispatchMany, step, hm, ih]

/-- C25 (concurrent dispatches): of `n ≥ 1` dispatches for one wallet that race while accepted
    actions have not ended, exactly one is accepted if the wallet was free, none otherwise. -/
theorem dispatchMany_spec (s : St) (k n : Nat) (h : Inv s) (hn : 1 ≤ n) :
    (dispatchMany s k n).2 = if s.active k = 0 then 1 else 0 := by
  have hk := h k
  cases n with
  | zero => omega
  | succ n =>
    cases hm : s.inMap k
    · have : s.active k = 0 := by unfold St.active; simp [hm] at hk; omega
      simp [dispatchMany, step, hm, this]
      rw [dispatchMany_busy _ k n (by simp [upd])]
    · have : s.active k ≠ 0 := by unfold St.active; simp [hm] at hk; omega
      simp [dispatchMany_busy s k (n + 1) hm, this]

/-- number of accepted dispatches of wallet `k` along a schedule -/
def accepted (s : St) (k : Nat) : List Step → Nat
  | [] => 0
  | st :: rest =>
    (if st = .dispatch k ∧ (step s st).2 = some true then 1 else 0) + accepted (step s st).1 k rest

/-- C25 (all schedules): between two releases of wallet `k` at most one dispatch for `k` is
    accepted, no matter how the steps of all wallets interleave. -/
theorem accepted_between_releases (s : St) (k : Nat) (sched : List Step)
    (hnr : ∀ st ∈ sched, st ≠ .release k) :
    accepted s k sched ≤ (if s.inMap k then 0 else 1) := by
  induction sched generalizing s with
  | nil => simp [accepted]
  | cons st rest ih =>
    have hrest : ∀ st ∈ rest, st ≠ .release k := fun x hx => hnr x (List.mem_cons_of_mem _ hx)
    have hst : st ≠ .release k := hnr st (by simp)
    have ih' := ih (step s st).1 hrest
    unfold accepted
    by_cases hd : st = .dispatch k
    · subst hd
      cases hm : s.inMap k
      · have : (step s (.dispatch k)).1.inMap k = true := by simp [step, hm, upd]
        rw [this] at ih'
        simp [step, hm] at ih' ⊢
        omega
      · have e : step s (.dispatch k) = (s, some false) := by simp [step, hm]
        rw [e] at ih' ⊢
        simp [hm] at ih' ⊢
        exact ih'
    · -- any other step keeps the key's presence in the map
      have keep : (step s st).1.inMap k = s.inMap k := by
        by_cases hk : k = st.key
        · cases st with
          | dispatch k' => simp [Step.key] at hk; subst hk; exact absurd rfl hd
          | start k' => simp only [step]; split <;> rfl
          | finish k' => simp only [step]; split <;> rfl
          | release k' => simp [Step.key] at hk; subst hk; exact absurd rfl hst
        · exact (step_other s st k hk).1
      rw [keep] at ih'
      simp [hd]
      exact ih'

/-! non-vacuity: a schedule with two wallets; the monitor rejects double execution -/
example : (run St.init [.dispatch 1, .dispatch 2, .start 1, .start 2]).exec 1 = 1 := by decide
example : (step (run St.init [.dispatch 1, .start 1]) (.dispatch 1)).2 = some false := by decide
example : (step (run St.init [.dispatch 1, .start 1]) (.dispatch 2)).2 = some true := by decide
example : (step (run St.init [.dispatch 1, .start 1, .finish 1]) (.dispatch 1)).2 = some false := by decide
example : (step (run St.init [.dispatch 1, .start 1, .finish 1, .release 1]) (.dispatch 1)).2 = some true := by
  decide
example : holdsStorm 2 10 10 5 15 3 = false := by decide
example : holdsStorm 1 10 11 5 15 3 = false := by decide
example : holdsStorm 1 10 10 5 15 3 = true := by decide

end KeepVerif.C25
