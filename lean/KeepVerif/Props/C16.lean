import KeepVerif.Model.C16
/-!
# C16 — Broadcast delivery is at-most-once per message and stops on cancellation

Theorems over `Model/C16.lean`: for all schedules of concurrent calls of the duplicate filter, for
all event histories / `select` choices of the receiver loop, for all interleavings of `nextSeqno`,
and for all step histories of one channel.
-/
namespace KeepVerif.C16

/-! ## 1. Duplicate filter, all schedules -/

/-- number of calls that decided to deliver `m` and have not invoked the delegate yet. -/
def pend (m : Id) : List FPC → List Id → Nat
  | pc :: pcs, x :: xs => (if pc = FPC.passed true ∧ x = m then 1 else 0) + pend m pcs xs
  | _, _ => 0

theorem pend_set (m : Id) (pcs : List FPC) (msgs : List Id) (t : Nat) (old new : FPC) (x : Id)
    (h1 : pcs[t]? = some old) (h2 : msgs[t]? = some x) :
    pend m (pcs.set t new) msgs + (if old = FPC.passed true ∧ x = m then 1 else 0)
      = pend m pcs msgs + (if new = FPC.passed true ∧ x = m then 1 else 0) := by
  induction pcs generalizing msgs t with
  | nil => simp at h1
  | cons p ps ih =>
    cases msgs with
    | nil => simp at h2
    | cons y ys =>
      cases t with
      | zero =>
        simp only [List.getElem?_cons_zero, Option.some.injEq] at h1 h2
        subst h1; subst h2
        simp only [List.set_cons_zero, pend]; omega
      | succ t =>
        simp only [List.getElem?_cons_succ] at h1 h2
        have := ih ys t h1 h2
        simp only [List.set_cons_succ, pend]; omega

theorem pend_replicate_start (m : Id) (n : Nat) (msgs : List Id) :
    pend m (List.replicate n FPC.start) msgs = 0 := by
  induction n generalizing msgs with
  | zero => simp [pend]
  | succ n ih => cases msgs <;> simp [List.replicate_succ, pend, ih]

/-- token invariant: every message has exactly one token if it is in the cache and none otherwise;
    a token is either a delegate invocation or a pending decision to invoke it. -/
def FInv (msgs : List Id) (s : FState) : Prop :=
  ∀ m, s.delivered.count m + pend m s.pcs msgs = if m ∈ s.cache then 1 else 0

theorem fstep_inv (msgs : List Id) (s : FState) (t : Nat) (h : FInv msgs s) :
    FInv msgs (fstep msgs s t) := by
  unfold fstep
  cases hpc : s.pcs[t]? with
  | none => exact h
  | some pc =>
    cases hm : msgs[t]? with
    | none => cases pc <;> exact h
    | some x =>
      cases pc with
      | start =>
        simp only
        by_cases hc : s.cache.contains x = true
        · rw [if_pos hc]
          intro m
          have := pend_set m s.pcs msgs t .start (.passed false) x hpc hm
          simp at this
          simpa [this] using h m
        · rw [if_neg hc]
          intro m
          have hp := pend_set m s.pcs msgs t .start (.passed true) x hpc hm
          have hx : x ∉ s.cache := by simpa using hc
          have hm' := h m
          simp only [reduceCtorEq, false_and, if_false, Nat.add_zero, true_and] at hp
          simp only [List.mem_cons]
          by_cases hxm : x = m
          · subst hxm
            rw [if_neg hx] at hm'
            simp only [hp, true_or, if_true]
            simp at hp ⊢
            omega
          · have : ¬ (m = x) := fun e => hxm e.symm
            simp only [hxm, if_false, Nat.add_zero] at hp
            simp only [this, false_or, hp]
            exact hm'
      | passed d =>
        simp only
        intro m
        have hp := pend_set m s.pcs msgs t (.passed d) .finished x hpc hm
        have hm' := h m
        simp only [reduceCtorEq, false_and, if_false, Nat.add_zero] at hp
        cases d with
        | false =>
          simp only [Bool.false_eq_true, if_false]
          simp at hp
          rw [hp]; exact hm'
        | true =>
          simp only [if_true, List.count_append, List.count_singleton]
          simp only [true_and] at hp
          by_cases hxm : x = m
          · subst hxm; simp at hp ⊢; omega
          · have hb : (x == m) = false := by simpa using hxm
            simp only [hxm, if_false, Nat.add_zero] at hp
            simp only [hb, Bool.false_eq_true, if_false, Nat.add_zero, hp]
            exact hm'
      | finished => exact h

theorem frun_inv (msgs : List Id) (sched : List Nat) (s : FState) (h : FInv msgs s) :
    FInv msgs (frun msgs s sched) := by
  induction sched generalizing s with
  | nil => exact h
  | cons t ts ih => exact ih _ (fstep_inv msgs s t h)

theorem finit_inv (msgs : List Id) (n : Nat) : FInv msgs (finit n) := by
  intro m; simp [finit, pend_replicate_start]

theorem nodup_of_count_le_one (l : List Id) (h : ∀ m, l.count m ≤ 1) : l.Nodup := by
  induction l with
  | nil => exact List.nodup_nil
  | cons a l ih =>
    rw [List.nodup_cons]
    constructor
    · have := h a
      simp only [List.count_cons, beq_self_eq_true, if_true] at this
      have h0 : l.count a = 0 := by omega
      exact List.count_eq_zero.1 h0
    · apply ih
      intro m
      have := h m
      simp only [List.count_cons] at this
      omega

/-- **C16, at most once, every interleaving**: whatever the schedule of the concurrent calls of
    one `WithRetransmissionSupport` handler (critical section, later the delegate call), the
    delegate is invoked at most once per `(sender, seqno)`. -/
theorem at_most_once (msgs : List Id) (sched : List Nat) :
    (frun msgs (finit msgs.length) sched).delivered.Nodup := by
  apply nodup_of_count_le_one
  intro m
  have := frun_inv msgs sched _ (finit_inv msgs msgs.length) m
  split at this <;> omega

/-- the delegate only sees messages that were handed to the filter. -/
theorem delivered_mem (msgs : List Id) (sched : List Nat) (s : FState)
    (h : ∀ m ∈ s.delivered, m ∈ msgs) : ∀ m ∈ (frun msgs s sched).delivered, m ∈ msgs := by
  induction sched generalizing s with
  | nil => exact h
  | cons t ts ih =>
    apply ih
    unfold fstep
    cases hpc : s.pcs[t]? with
    | none => exact h
    | some pc =>
      cases hm : msgs[t]? with
      | none => cases pc <;> exact h
      | some x =>
        cases pc with
        | start => simp only; split <;> exact h
        | passed d =>
          simp only
          cases d with
          | false => simpa using h
          | true =>
            intro m hmem
            simp only [if_true, List.mem_append, List.mem_singleton] at hmem
            rcases hmem with h1 | h1
            · exact h m h1
            · subst h1; exact List.mem_of_getElem? hm
        | finished => exact h

/-- …and when every call has finished, every message whose filter call ran was delivered exactly
    once: every cached message has its single token in `delivered`. -/
theorem exactly_once_when_finished (msgs : List Id) (sched : List Nat)
    (hfin : ∀ pc ∈ (frun msgs (finit msgs.length) sched).pcs, pc = FPC.finished) :
    ∀ m ∈ (frun msgs (finit msgs.length) sched).cache,
      (frun msgs (finit msgs.length) sched).delivered.count m = 1 := by
  intro m hm
  have hinv := frun_inv msgs sched _ (finit_inv msgs msgs.length) m
  rw [if_pos hm] at hinv
  have hp : ∀ (pcs : List FPC) (xs : List Id), (∀ pc ∈ pcs, pc = FPC.finished) → pend m pcs xs = 0 := by
    intro pcs
    induction pcs with
    | nil => intro xs _; cases xs <;> rfl
    | cons p ps ih =>
      intro xs h
      cases xs with
      | nil => rfl
      | cons y ys =>
        have hp : p = FPC.finished := h p (by simp)
        subst hp
        simp only [pend, reduceCtorEq, false_and, if_false, Nat.zero_add]
        exact ih ys (fun pc hpc => h pc (by simp [hpc]))
  rw [hp _ _ hfin] at hinv
  omega

/-- non-vacuity: four overlapping calls, two messages, interleaved; both delivered once. -/
example : (frun [(0, 1), (0, 1), (1, 1), (0, 1)] (finit 4) [0, 1, 3, 2, 1, 0, 2, 3]).delivered
    = [(0, 1), (1, 1)] := by decide

/-- **Counterexample for the split critical section** (look-up and insert under two separate lock
    acquisitions): two calls with the same message both see "not seen" and both invoke the
    delegate. -/
theorem split_section_delivers_twice :
    (srun [(0, 1), (0, 1)] (sinit 2) [0, 1, 0, 1, 0, 1]).delivered = [(0, 1), (0, 1)] := by decide

/-! ## 2. Receiver loop: nothing is handled after cancellation -/

def LInv (s : LState) : Prop :=
  noHandleAfterCancel s.log = true ∧ (s.cancelled = false → LLog.cancelled ∉ s.log) ∧
  (s.cancelled = true → LLog.cancelled ∈ s.log)

theorem noHandle_append_cancelled (l : List LLog) (h : noHandleAfterCancel l = true) :
    noHandleAfterCancel (l ++ [LLog.cancelled]) = true := by
  induction l with
  | nil => rfl
  | cons e l ih =>
    cases e with
    | handled m => simpa [noHandleAfterCancel] using ih (by simpa [noHandleAfterCancel] using h)
    | cancelled =>
      simp only [noHandleAfterCancel, List.cons_append, List.all_append, Bool.and_eq_true] at h ⊢
      exact ⟨h, by simp⟩

theorem noHandle_append_handled (l : List LLog) (m : Id) (h : noHandleAfterCancel l = true)
    (hc : LLog.cancelled ∉ l) : noHandleAfterCancel (l ++ [LLog.handled m]) = true := by
  induction l with
  | nil => rfl
  | cons e l ih =>
    cases e with
    | handled m' =>
      simp only [noHandleAfterCancel, List.cons_append] at h ⊢
      exact ih h (fun hmem => hc (by simp [hmem]))
    | cancelled => exact absurd (by simp) hc

theorem lstep_inv (s : LState) (e : LEv) (h : LInv s) : LInv (lstep true s e) := by
  obtain ⟨h1, h2, h3⟩ := h
  cases e with
  | enqueue m => exact ⟨h1, h2, h3⟩
  | cancel =>
    unfold lstep
    by_cases hc : s.cancelled = true
    · simp only [hc, if_true]; exact ⟨h1, h2, h3⟩
    · simp only [hc, Bool.false_eq_true, if_false]
      refine ⟨noHandle_append_cancelled _ h1, by simp, by simp⟩
  | iter pd =>
    unfold lstep
    by_cases hx : s.exited = true
    · simp only [hx, if_true]; exact ⟨h1, h2, h3⟩
    · simp only [hx, Bool.false_eq_true, if_false]
      cases hq : s.queue with
      | nil => simp only; split <;> exact ⟨h1, h2, h3⟩
      | cons m q =>
        simp only
        by_cases hc : s.cancelled = true
        · cases pd <;> simp [hc] <;> exact ⟨h1, fun hcc => absurd hcc (by simp), fun _ => h3 hc⟩
        · have hcf : s.cancelled = false := by simpa using hc
          simp only [hcf, Bool.false_and, Bool.and_false, Bool.false_eq_true, if_false]
          refine ⟨noHandle_append_handled _ m h1 (h2 hcf), ?_, ?_⟩
          · intro _; simpa using h2 hcf
          · intro hcc; simp at hcc

/-- **C16, nothing after cancellation**: for every history of deliveries, cancellation and loop
    iterations, and every choice the runtime makes when both `ctx.Done()` and a message are ready,
    no handler invocation follows the cancellation (as observed by the loop's `ctx.Err()` check). -/
theorem nothing_after_cancel (evs : List LEv) :
    noHandleAfterCancel (lrun true linit evs).log = true := by
  have gen : ∀ (evs : List LEv) (s : LState), LInv s → LInv (lrun true s evs) := by
    intro evs
    induction evs with
    | nil => intro s h; exact h
    | cons e es ih => intro s h; exact ih _ (lstep_inv s e h)
  exact (gen evs linit ⟨rfl, by simp [linit], by simp [linit]⟩).1

/-- without the re-check the property fails: a queued message, cancellation, and the runtime picks
    the message branch. -/
theorem no_recheck_handles_after_cancel :
    noHandleAfterCancel (lrun false linit [.enqueue (0, 1), .cancel, .iter false]).log = false := by
  decide

/-- non-vacuity of the loop model: messages before the cancellation are handled. -/
example : (lrun true linit [.enqueue (0, 1), .iter false, .enqueue (0, 2), .cancel, .iter false, .iter true]).log
    = [.handled (0, 1), .cancelled] := by decide

/-! ## 3. Sequence numbers -/

theorem nextSeqnos_gt (c n : Nat) : ∀ v ∈ nextSeqnos c n, c < v := by
  induction n generalizing c with
  | zero => simp [nextSeqnos]
  | succ n ih =>
    intro v hv
    simp only [nextSeqnos, List.mem_cons] at hv
    rcases hv with rfl | hv
    · omega
    · have := ih (c + 1) v hv; omega

/-- **C16, fresh sequence numbers**: the values returned by any number of (atomic) `nextSeqno`
    calls, in the order the atomic adds execute — i.e. for every interleaving of the callers —
    are strictly increasing, hence pairwise distinct, and all above the previous counter. -/
theorem seqno_fresh (c n : Nat) : (nextSeqnos c n).Pairwise (· < ·) ∧ (nextSeqnos c n).Nodup := by
  have hp : (nextSeqnos c n).Pairwise (· < ·) := by
    induction n generalizing c with
    | zero => simp [nextSeqnos]
    | succ n ih =>
      simp only [nextSeqnos, List.pairwise_cons]
      exact ⟨fun v hv => nextSeqnos_gt (c + 1) n v hv, ih (c + 1)⟩
  exact ⟨hp, hp.imp (fun h => Nat.ne_of_lt h)⟩

/-- the sequence numbers `sendAll` assigns are those of `nextSeqnos`, whatever the publish
    outcomes are. -/
theorem sendAll_seqs (c : Nat) (mask : List Bool) :
    (sendAll c mask).map (·.1) = nextSeqnos c mask.length := by
  induction mask generalizing c with
  | nil => simp [sendAll, nextSeqnos]
  | cons b rest ih => simp [sendAll, nextSeqnos, ih]

/-- **C16, fresh sequence numbers across failed publishes**: for every pattern of transient
    failures of the first publish, sequentially sent messages carry pairwise distinct sequence
    numbers (the number of a Send whose publish failed is not handed to a later Send), and a Send
    returns an error exactly when its first publish failed. -/
theorem sendAll_fresh (c : Nat) (mask : List Bool) :
    ((sendAll c mask).map (·.1)).Nodup ∧ (sendAll c mask).map (·.2) = mask := by
  constructor
  · rw [sendAll_seqs]; exact (seqno_fresh c mask.length).2
  · induction mask generalizing c with
    | nil => simp [sendAll]
    | cons b rest ih => simp [sendAll, ih]

example : sendAll 0 [true, false] = [(1, true), (2, false)] := by decide

/-! ## 4. One channel, every step history -/

/-- receiver invariant: the delivered list has no duplicates and only contains sent messages. -/
def RInv (sent : List Id) (r : Recv) : Prop := r.seen.Nodup ∧ ∀ m ∈ r.seen, m ∈ sent

theorem deliverTo_inv (sent : List Id) (m : Id) (hm : m ∈ sent) (r : Recv) (h : RInv sent r) :
    RInv sent (deliverTo m r) := by
  unfold deliverTo
  split
  · rename_i hc
    simp only [Bool.and_eq_true, Bool.not_eq_true', List.contains_eq_mem, decide_eq_false_iff_not] at hc
    refine ⟨?_, ?_⟩
    · rw [List.nodup_append]
      exact ⟨h.1, by simp, by
        intro a ha b hb; simp only [List.mem_singleton] at hb; subst hb
        intro e; subst e; exact hc.2 ha⟩
    · intro x hx
      simp only [List.mem_append, List.mem_singleton] at hx
      rcases hx with hx | rfl
      · exact h.2 x hx
      · exact hm
  · exact h

theorem deliverTo_dead (m : Id) (r : Recv) (h : r.live = false) : deliverTo m r = r := by
  simp [deliverTo, h]

def CInv (c : Chan) : Prop := ∀ r ∈ c.recvs, RInv c.sent r

theorem RInv_mono (s s' : List Id) (hs : ∀ m ∈ s, m ∈ s') (r : Recv) (h : RInv s r) : RInv s' r :=
  ⟨h.1, fun m hm => hs m (h.2 m hm)⟩

theorem sendFrom_inv (s : Nat) (c : Chan) (h : CInv c) : CInv (sendFrom s c) := by
  intro r hr
  simp only [sendFrom, List.mem_map] at hr
  obtain ⟨r0, hr0, rfl⟩ := hr
  have hmem : (s, (if s = 0 then c.ca else c.cb) + 1) ∈ c.sent ++ [(s, (if s = 0 then c.ca else c.cb) + 1)] := by
    simp
  exact deliverTo_inv _ _ hmem _
    (RInv_mono _ _ (fun m hm => List.mem_append_left _ hm) _ (h r0 hr0))

theorem sendN_inv (s k : Nat) (c : Chan) (h : CInv c) : CInv (sendN s k c) := by
  induction k generalizing c with
  | zero => exact h
  | succ k ih => exact ih _ (sendFrom_inv s c h)

theorem retransmitAll_inv (c : Chan) (h : CInv c) : CInv (retransmitAll c) := by
  have gen : ∀ (ms : List Id) (rs : List Recv), (∀ m ∈ ms, m ∈ c.sent) → (∀ r ∈ rs, RInv c.sent r) →
      ∀ r ∈ ms.foldl (fun rs m => rs.map (deliverTo m)) rs, RInv c.sent r := by
    intro ms
    induction ms with
    | nil => intro rs _ h; exact h
    | cons m ms ih =>
      intro rs hms hrs
      apply ih _ (fun x hx => hms x (by simp [hx]))
      intro r hr
      simp only [List.mem_map] at hr
      obtain ⟨r0, hr0, rfl⟩ := hr
      exact deliverTo_inv _ _ (hms m (by simp)) _ (hrs r0 hr0)
  exact gen c.sent c.recvs (fun _ h => h) h

theorem kill_inv (i : Nat) (c : Chan) (h : CInv c) : CInv (kill i c) := by
  intro r hr
  simp only [kill] at hr
  obtain ⟨j, hj, rfl⟩ := List.getElem_of_mem hr
  simp only [List.getElem_modify]
  simp only [List.length_modify] at hj
  split
  · exact ⟨(h _ (List.getElem_mem hj)).1, (h _ (List.getElem_mem hj)).2⟩
  · exact h _ (List.getElem_mem hj)

theorem step_inv (c : Chan) (st : Step) (h : CInv c) : CInv (step c st) := by
  cases st with
  | send x y => exact sendFrom_inv _ _ (sendN_inv _ _ _ (sendN_inv _ _ _ h))
  | tick => exact sendFrom_inv _ _ (retransmitAll_inv _ h)
  | cancel i => exact sendFrom_inv _ _ (kill_inv _ _ h)
  | reg =>
    apply sendFrom_inv
    intro r hr
    simp only [List.mem_append, List.mem_singleton] at hr
    rcases hr with hr | rfl
    · exact h r hr
    · exact ⟨List.nodup_nil, by simp⟩
  | xcancel i k => exact sendFrom_inv _ _ (sendN_inv _ _ _ (kill_inv _ _ (sendFrom_inv _ _ h)))

/-- **C16 on the channel model**: after every history of sends (two senders with overlapping
    sequence numbers), retransmission ticks, registrations and cancellations, every receiver has
    seen each `(sender, seqno)` at most once and only messages that were sent. -/
theorem chan_at_most_once (r : Nat) (steps : List Step) :
    ∀ rc ∈ (runChan r steps).recvs, rc.seen.Nodup ∧ ∀ m ∈ rc.seen, m ∈ (runChan r steps).sent := by
  have gen : ∀ (steps : List Step) (c : Chan), CInv c → CInv (steps.foldl step c) := by
    intro steps
    induction steps with
    | nil => intro c h; exact h
    | cons s ss ih => intro c h; exact ih _ (step_inv c s h)
  have h0 : CInv (chanInit r) := by
    intro rc hrc
    simp only [chanInit, List.mem_replicate] at hrc
    obtain ⟨_, rfl⟩ := hrc
    exact ⟨List.nodup_nil, by simp⟩
  exact gen steps _ h0

/-- a cancelled receiver is never handed anything again (`deliverTo` on a dead receiver is the
    identity), whatever is sent or retransmitted afterwards. -/
theorem dead_receiver_unchanged (m : Id) (r : Recv) (h : r.live = false) :
    (deliverTo m r).seen = r.seen ∧ (deliverTo m r).live = false := by
  rw [deliverTo_dead m r h]; exact ⟨rfl, h⟩

/-! ## Monitor soundness -/

theorem nodupB_iff (l : List Id) : nodupB l = true ↔ l.Nodup := by
  induction l with
  | nil => simp [nodupB]
  | cons a l ih => simp [nodupB, ih, List.nodup_cons]

theorem sortIds_perm (l : List Id) : (sortIds l).Perm l := by
  have hi : ∀ (x : Id) (l : List Id), (insertId x l).Perm (x :: l) := by
    intro x l
    induction l with
    | nil => exact List.Perm.refl _
    | cons y ys ih =>
      simp only [insertId]
      split
      · exact (List.Perm.cons y ih).trans (List.Perm.swap x y ys)
      · exact List.Perm.refl _
  induction l with
  | nil => exact List.Perm.refl _
  | cons a l ih =>
    simp only [sortIds, List.foldr_cons]
    exact (hi a _).trans (List.Perm.cons a ih)

/-- **Soundness of the channel monitor w.r.t. the model**: the observation the model predicts
    (sorted delivered ids per receiver, no late calls, no stall) is accepted, for every history. -/
theorem holds_model (r : Nat) (steps : List Step) :
    holdsChan (runChan r steps) ((runChan r steps).recvs.map fun rc => (sortIds rc.seen, 0)) false
      = true := by
  simp only [holdsChan, Bool.not_false, List.length_map, beq_self_eq_true, Bool.true_and,
    List.all_map, List.all_eq_true]
  intro rc hrc
  obtain ⟨h1, h2⟩ := chan_at_most_once r steps rc hrc
  simp only [Function.comp, Bool.and_eq_true, beq_self_eq_true, and_true, List.all_eq_true,
    List.contains_eq_mem, decide_eq_true_eq]
  refine ⟨(nodupB_iff _).2 ((sortIds_perm _).nodup_iff.2 h1), ?_⟩
  intro m hm
  exact h2 m ((sortIds_perm _).mem_iff.1 hm)

/-- the monitor rejects a double delivery, a late handler call and an invented message. -/
example : holdsChan (runChan 1 [.tick]) [([(0, 1), (0, 1)], 0)] false = false := by decide
example : holdsChan (runChan 1 [.tick]) [([(0, 1)], 1)] false = false := by decide
example : holdsChan (runChan 1 [.tick]) [([(1, 1)], 0)] false = false := by decide
example : holdsChan (runChan 1 [.tick]) [([(0, 1)], 0)] false = true := by decide
/-- the channel model on a history with a late joiner and a blocked cancellation. -/
example : ((runChan 1 [.send 1 1, .reg, .tick, .xcancel 0 2]).recvs.map (·.seen)) =
    [[(0, 1), (1, 1), (0, 2), (0, 3), (0, 4), (0, 5)],
     [(0, 3), (0, 1), (1, 1), (0, 2), (0, 4), (0, 5), (0, 6), (0, 7), (0, 8)]] := by decide

end KeepVerif.C16
