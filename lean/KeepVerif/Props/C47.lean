import KeepVerif.Model.C47
/-!
# C47 — On-chain submissions use distinct member slots and stop once someone succeeded

Theorems over `Model/C47.lean`.  Member indices range over `1 ≤ idx ≤ n` (what
`group.MemberIndex` values of a group of size `n` are); step constants of the tBTC submitters
come from `Gen/C47.lean` (regenerated from the source on every run).
-/
namespace KeepVerif.C47

/-! ## Slot arithmetic -/

theorem queueIndex_lt {m f n : Nat} (hm : m < n) (hf : f < n) : queueIndex m f n < n := by
  unfold queueIndex; split <;> omega

theorem queueIndex_inj {m₁ m₂ f n : Nat} (h1 : m₁ < n) (h2 : m₂ < n) (hf : f < n)
    (h : queueIndex m₁ f n = queueIndex m₂ f n) : m₁ = m₂ := by
  unfold queueIndex at h; split at h <;> split at h <;> omega

/-- every queue position `q < n` is held by some zero-based member position -/
theorem queueIndex_surj {q f n : Nat} (hq : q < n) (hf : f < n) :
    ∃ m, m < n ∧ queueIndex m f n = q := by
  by_cases h : f + q < n
  · exact ⟨f + q, h, by unfold queueIndex; split <;> omega⟩
  · exact ⟨f + q - n, by omega, by unfold queueIndex; split <;> omega⟩

/-- C47, relay entry: **every slot falls strictly before the relay entry timeout**
    (`timeout = groupSize * step` is what both `GetConfig`s compute; T1 fact
    `localTimeoutIsSizeTimesStep`).  All group sizes, entries, steps and member indices. -/
theorem relay_slots_before_timeout {idx n entry step : Nat} (h1 : 1 ≤ idx) (hn : idx ≤ n)
    (hs : 0 < step) : relayOffset idx n entry step < n * step := by
  unfold relayOffset
  have hf : entry % n < n := Nat.mod_lt _ (by omega)
  have h := queueIndex_lt (m := idx - 1) (f := entry % n) (n := n) (by omega) hf
  exact Nat.mul_lt_mul_of_pos_right h hs

/-- C47, relay entry: no two members share a slot for the same request. -/
theorem relay_slots_injective {i j n entry step : Nat} (hi1 : 1 ≤ i) (hin : i ≤ n)
    (hj1 : 1 ≤ j) (hjn : j ≤ n) (hs : 0 < step)
    (h : relayOffset i n entry step = relayOffset j n entry step) : i = j := by
  unfold relayOffset at h
  have hf : entry % n < n := Nat.mod_lt _ (by omega)
  have h' := Nat.eq_of_mul_eq_mul_right hs h
  have := queueIndex_inj (by omega) (by omega) hf h'
  omega

/-- Someone is eligible straight away (the documented "first member … straight away"). -/
theorem relay_first_slot_taken {n entry step : Nat} (hn : 0 < n) :
    ∃ idx, 1 ≤ idx ∧ idx ≤ n ∧ relayOffset idx n entry step = 0 := by
  have hf : entry % n < n := Nat.mod_lt _ hn
  obtain ⟨m, hm, hq⟩ := queueIndex_surj (q := 0) (f := entry % n) hn hf
  refine ⟨m + 1, by omega, by omega, ?_⟩
  unfold relayOffset
  simp [hq]

/-! ### The unchanged tree (1-based index passed to the queue function) violated the property -/

/-- F10: for every group size and every entry divisible by it, the last member's slot *is* the
    timeout block. -/
theorem relay_slot_hits_timeout_unfixed {n entry step : Nat} (h : entry % n = 0) :
    relayOffsetUnfixed n n entry step = n * step := by
  unfold relayOffsetUnfixed queueIndex
  rw [h]; simp

theorem relay_slot_hits_timeout_counterexample : relayOffsetUnfixed 5 5 10 3 = 5 * 3 := by decide

/-- …and nobody held the first slot. -/
theorem relay_unfixed_no_first_slot {n entry step idx : Nat} (h : entry % n = 0) (hs : 0 < step)
    (h1 : 1 ≤ idx) : relayOffsetUnfixed idx n entry step ≠ 0 := by
  unfold relayOffsetUnfixed queueIndex
  rw [h]
  simp only [Nat.zero_le, ge_iff_le, if_true, Nat.sub_zero]
  exact Nat.ne_of_gt (Nat.mul_pos (by omega) hs)

/-- What did hold of the unchanged tree: every other (entry, member) combination was in time. -/
theorem relay_slots_before_timeout_unfixed_partial {idx n entry step : Nat} (h1 : 1 ≤ idx)
    (hn : idx ≤ n) (hs : 0 < step) (h : entry % n ≠ 0 ∨ idx < n) :
    relayOffsetUnfixed idx n entry step < n * step := by
  unfold relayOffsetUnfixed
  have hf : entry % n < n := Nat.mod_lt _ (by omega)
  have : queueIndex idx (entry % n) n < n := by unfold queueIndex; split <;> omega
  exact Nat.mul_lt_mul_of_pos_right this hs

/-- `(idx-1)*step` schemes (beacon DKG result, tBTC DKG result, inactivity claim): distinct
    members have distinct slots for the same reference block. -/
theorem step_slots_injective {i j step : Nat} (hi : 1 ≤ i) (hj : 1 ≤ j) (hs : 0 < step)
    (h : stepOffset i step = stepOffset j step) : i = j := by
  unfold stepOffset at h
  have := Nat.eq_of_mul_eq_mul_right hs h
  omega

/-- T1 tie: the step constants extracted from the source are positive. -/
theorem tbtc_steps_pos : 0 < Gen.C47.tbtcDkgSubmissionStep ∧ 0 < Gen.C47.tbtcInactivityStep ∧
    0 < Gen.C47.tbtcDkgApprovalStep := by decide

/-- T1 tie: the local chain's `GetConfig` sets `RelayEntryTimeout = GroupSize * step` (sizes 1–64). -/
theorem local_timeout_formula : Gen.C47.localTimeoutIsSizeTimesStep = true := by decide

theorem tbtc_dkg_slots_injective {i j cur : Nat} (hi : 1 ≤ i) (hj : 1 ≤ j)
    (h : cur + stepOffset i Gen.C47.tbtcDkgSubmissionStep = cur + stepOffset j Gen.C47.tbtcDkgSubmissionStep) :
    i = j := step_slots_injective hi hj tbtc_steps_pos.1 (by omega)

theorem tbtc_inactivity_slots_injective {i j cur : Nat} (hi : 1 ≤ i) (hj : 1 ≤ j)
    (h : cur + stepOffset i Gen.C47.tbtcInactivityStep = cur + stepOffset j Gen.C47.tbtcInactivityStep) :
    i = j := step_slots_injective hi hj tbtc_steps_pos.2.1 (by omega)

/-- tBTC DKG approval: distinct members approve at distinct blocks provided the submitter's
    precedence period is not empty. -/
theorem approval_slots_injective {s p prec i j : Nat} (hprec : 0 < prec) (hi : 1 ≤ i) (hj : 1 ≤ j)
    (h : approvalBlock s p prec i = approvalBlock s p prec j) : i = j := by
  unfold approvalBlock at h
  split at h <;> split at h
  · omega
  · omega
  · omega
  · exact step_slots_injective hi hj tbtc_steps_pos.2.2 (by omega)

/-- Non-vacuity of `hprec`: with an empty precedence period member 1 collides with the submitter. -/
theorem approval_collision_without_precedence :
    approvalBlock 2 100 0 1 = approvalBlock 2 100 0 2 := by decide

/-! ## Early exit -/

/-- `submitRelayEntry`, for **every** history: a submission happens only when the member's slot
    occurrence is delivered, and only if no competing-submission event and no timeout was
    delivered before it (⇒ never before the slot, never after observing someone else's
    submission). -/
theorem relay_submits_only_at_undisturbed_slot (sf : Bool) (ip : Option Bool) (occs : List Occ)
    (subs : List Nat) :
    ∀ b ∈ (relayLoop sf ip occs subs).1, b ∈ subs ∨
      ∃ pre post, occs = pre ++ (b, Kind.slot) :: post ∧ ∀ o ∈ pre, o.2 = Kind.slot := by
  induction occs generalizing subs with
  | nil => intro b hb; exact Or.inl (by simpa [relayLoop] using hb)
  | cons o rest ih =>
    obtain ⟨blk, k⟩ := o
    intro b hb
    cases k with
    | event => exact Or.inl (by simpa [relayLoop] using hb)
    | timeout => exact Or.inl (by simpa [relayLoop] using hb)
    | slot =>
      have key : b ∈ subs ∨ b = blk ∨ ∃ pre post, rest = pre ++ (b, Kind.slot) :: post ∧
          ∀ o ∈ pre, o.2 = Kind.slot := by
        unfold relayLoop at hb
        split at hb
        · split at hb <;> simp at hb <;> rcases hb with h | h <;> simp [h]
        · rcases ih (subs ++ [blk]) b hb with h | h
          · simp at h; rcases h with h | h <;> simp [h]
          · exact Or.inr (Or.inr h)
      rcases key with h | h | ⟨pre, post, hr, hp⟩
      · exact Or.inl h
      · subst h; exact Or.inr ⟨[], rest, rfl, by simp⟩
      · refine Or.inr ⟨(blk, Kind.slot) :: pre, post, by simp [hr], ?_⟩
        intro o ho
        simp at ho
        rcases ho with rfl | ho
        · rfl
        · exact hp o ho

/-- beacon `SubmitDKGResult`: the result is submitted only if the slot is the first occurrence
    delivered; a submission event delivered first ends the member without submitting. -/
theorem bdkg_event_first_no_submit (e : Nat) (rest : List Occ) :
    (bdkgLoop ((e, Kind.event) :: rest)).1 = [] := rfl

theorem bdkg_submits_only_own_slot (occs : List Occ) :
    ∀ b ∈ (bdkgLoop occs).1, ∃ pre post, occs = pre ++ (b, Kind.slot) :: post ∧
      ∀ o ∈ pre, o.2 = Kind.timeout := by
  induction occs with
  | nil => intro b hb; simp [bdkgLoop] at hb
  | cons o rest ih =>
    obtain ⟨blk, k⟩ := o
    intro b hb
    cases k with
    | event => simp [bdkgLoop] at hb
    | slot =>
      simp [bdkgLoop] at hb; subst hb
      exact ⟨[], rest, rfl, by simp⟩
    | timeout =>
      obtain ⟨pre, post, hr, hp⟩ := ih b (by simpa [bdkgLoop] using hb)
      refine ⟨(blk, Kind.timeout) :: pre, post, by simp [hr], ?_⟩
      intro o ho
      simp at ho
      rcases ho with rfl | ho
      · rfl
      · exact hp o ho

/-- tBTC submitters: a cancelled context (someone else's result was observed) or a failed wait
    never leads to a submission; otherwise the submission is at the member's own slot. -/
theorem tbtc_no_submit_unless_reached (stepBlocks cur idx : Nat) (w : Wait) :
    (tbtcTail stepBlocks cur w idx).subs =
      if w = .reached then [cur + stepOffset idx stepBlocks] else [] := by
  cases w <;> rfl

theorem tdkg_no_submit_when_not_awaiting (q cur nsigs st idx : Nat) (w : Wait)
    (h : st ≠ Gen.C47.awaitingResultState) :
    (tdkgMember q cur nsigs (some st) w idx).subs = [] ∧
    (tdkgMember q cur nsigs (some st) w idx).await = none := by
  unfold tdkgMember
  split
  · exact ⟨rfl, rfl⟩
  · simp [h]

theorem tinact_no_submit_when_nonce_moved (hon cur nsigs nonce cn idx : Nat) (w : Wait)
    (h : cn > nonce) :
    (tinactMember hon cur nsigs nonce cn w idx).subs = [] ∧
    (tinactMember hon cur nsigs nonce cn w idx).await = none := by
  unfold tinactMember
  split
  · exact ⟨rfl, rfl⟩
  · first | exact ⟨rfl, rfl⟩ | simp [h]

/-! ## Non-vacuity / monitor examples -/

example : (relayGroup 3 3 9 100 none [.slot, .event, .timeout] false (some true)).map (·.await)
    = [some 100, some 103, some 106] := by decide
example : holds (relayRule 3 3 100 (some 103) [.event, .slot, .timeout])
    (relayGroup 3 3 9 100 (some 103) [.event, .slot, .timeout] false (some true)) = true := by decide
/-- the monitor rejects the unchanged tree's behaviour (member 3 waits for the timeout block)… -/
example : holds (relayRule 3 3 100 none [.slot, .event, .timeout])
    [⟨1, some 103, [103], .timeout⟩, ⟨2, some 106, [106], .timeout⟩, ⟨3, some 109, [109], .timeout⟩]
    = false := by decide
/-- …a shared slot, and a submission after the competing event was observed. -/
example : holds (relayRule 2 3 100 none [.slot, .event, .timeout])
    [⟨1, some 100, [100], .timeout⟩, ⟨2, some 100, [100], .timeout⟩] = false := by decide
example : holds (relayRule 2 3 100 (some 101) [.slot, .event, .timeout])
    [⟨1, some 100, [100], .nil⟩, ⟨2, some 103, [103], .nil⟩] = false := by decide

end KeepVerif.C47
