import KeepVerif.Model.C47
/-!
# C47 — On-chain submissions use distinct member slots and stop once someone succeeded

Theorems over `Model/C47.lean`.  Member indices range over `1 ≤ idx ≤ n` (what
`group.MemberIndex` values of a group of size `n` are); step constants of the tBTC submitters
come from `Gen/C47.lean` (regenerated from the source on every run).
-/
namespace KeepVerif.C47

/-! ## Slot arithmetic -/

theorem queueIndex_lt {m f n : Nat} (hm : m < n) (hf : f < n) : queueIndex m f n < n := by
  unfold queueIndex; split <;> omega

theorem queueIndex_inj {m₁ m₂ f n : Nat} (h1 : m₁ < n) (h2 : m₂ < n) (hf : f < n)
    (h : queueIndex m₁ f n = queueIndex m₂ f n) : m₁ = m₂ := by
  unfold queueIndex at h; split at h <;> split at h <;> omega

/-- every queue position `q < n` is held by some zero-based member position -/
theorem queueIndex_surj {q f n : Nat} (hq : q < n) (hf : f < n) :
    ∃ m, m < n ∧ queueIndex m f n = q := by
  by_cases h : f + q < n
  · exact ⟨f + q, h, by unfold queueIndex; split <;> omega⟩
  · exact ⟨f + q - n, by omega, by unfold queueIndex; split <;> omega⟩

/-- C47, relay entry: **every slot falls strictly before the relay entry timeout**
    (`timeout = groupSize * step` is what both `GetConfig`s compute; T1 fact
    `localTimeoutIsSizeTimesStep`).  All group sizes, entries, steps and member indices. -/
theorem relay_slots_before_timeout {idx n entry step : Nat} (h1 : 1 ≤ idx) (hn : idx ≤ n)
    (hs : 0 < step) : relayOffset idx n entry step < n * step := by
  unfold relayOffset
  have hf : entry % n < n := Nat.mod_lt _ (by omega)
  have h := queueIndex_lt (m := idx - 1) (f := entry % n) (n := n) (by omega) hf
  exact Nat.mul_lt_mul_of_pos_right h hs

/-- C47, relay entry: no two members share a slot for the same request. -/
theorem relay_slots_injective {i j n entry step : Nat} (hi1 : 1 ≤ i) (hin : i ≤ n)
    (hj1 : 1 ≤ j) (hjn : j ≤ n) (hs : 0 < step)
    (h : relayOffset i n entry step = relayOffset j n entry step) : i = j := by
  unfold relayOffset at h
  have hf : entry % n < n := Nat.mod_lt _ (by omega)
  have h' := Nat.eq_of_mul_eq_mul_right hs h
  have := queueIndex_inj (by omega) (by omega) hf h'
  omega

/-- Someone is eligible straight away (the documented "first member … straight away"). -/
theorem relay_first_slot_taken {n entry step : Nat} (hn : 0 < n) :
    ∃ idx, 1 ≤ idx ∧ idx ≤ n ∧ relayOffset idx n entry step = 0 := by
  have hf : entry % n < n := Nat.mod_lt _ hn
  obtain ⟨m, hm, hq⟩ := queueIndex_surj (q := 0) (f := entry % n) hn hf
  refine ⟨m + 1, by omega, by omega, ?_⟩
  unfold relayOffset
  simp [hq]

/-! ### The unchanged tree (1-based index passed to the queue function) violated the property -/

/-- F10: for every group size and every entry divisible by it, the last member's slot *is* the
    timeout block. -/
theorem relay_slot_hits_timeout_unfixed {n entry step : Nat} (h : entry % n = 0) :
    relayOffsetUnfixed n n entry step = n * step := by
  unfold relayOffsetUnfixed queueIndex
  rw [h]; simp

theorem relay_slot_hits_timeout_counterexample : relayOffsetUnfixed 5 5 10 3 = 5 * 3 := by decide

/-- …and nobody held the first slot. -/
theorem relay_unfixed_no_first_slot {n entry step idx : Nat} (h : entry % n = 0) (hs : 0 < step)
    (h1 : 1 ≤ idx) : relayOffsetUnfixed idx n entry step ≠ 0 := by
  unfold relayOffsetUnfixed queueIndex
  rw [h]
  simp only [Nat.zero_le, ge_iff_le, if_true, Nat.sub_zero]
  exact Nat.ne_of_gt (Nat.mul_pos (by omega) hs)

/-- What did hold of the unchanged tree: every other (entry, member) combination was in time. -/
theorem relay_slots_before_timeout_unfixed_partial {idx n entry step : Nat} (h1 : 1 ≤ idx)
    (hn : idx ≤ n) (hs : 0 < step) (h : entry % n ≠ 0 ∨ idx < n) :
    relayOffsetUnfixed idx n entry step < n * step := by
  unfold relayOffsetUnfixed
  have hf : entry % n < n := Nat.mod_lt _ (by omega)
  have : queueIndex idx (entry % n) n < n := by unfold queueIndex; split <;> omega
  exact Nat.mul_lt_mul_of_pos_right this hs

/-- `(idx-1)*step` schemes (beacon DKG result, tBTC DKG result, inactivity claim): distinct
    members have distinct slots for the same reference block. -/
theorem step_slots_injective {i j step : Nat} (hi : 1 ≤ i) (hj : 1 ≤ j) (hs : 0 < step)
    (h : stepOffset i step = stepOffset j step) : i = j := by
  unfold stepOffset at h
  have := Nat.eq_of_mul_eq_mul_right hs h
  omega

/-- T1 tie: the step constants extracted from the source are positive. -/
theorem tbtc_steps_pos : 0 < Gen.C47.tbtcDkgSubmissionStep ∧ 0 < Gen.C47.tbtcInactivityStep ∧
    0 < Gen.C47.tbtcDkgApprovalStep := by decide

/-- T1 tie: the local chain's `GetConfig` sets `RelayEntryTimeout = GroupSize * step` (sizes 1–64). -/
theorem local_timeout_formula : Gen.C47.localTimeoutIsSizeTimesStep = true := by decide

theorem tbtc_dkg_slots_injective {i j cur : Nat} (hi : 1 ≤ i) (hj : 1 ≤ j)
    (h : cur + stepOffset i Gen.C47.tbtcDkgSubmissionStep = cur + stepOffset j Gen.C47.tbtcDkgSubmissionStep) :
    i = j := step_slots_injective hi hj tbtc_steps_pos.1 (by omega)

theorem tbtc_inactivity_slots_injective {i j cur : Nat} (hi : 1 ≤ i) (hj : 1 ≤ j)
    (h : cur + stepOffset i Gen.C47.tbtcInactivityStep = cur + stepOffset j Gen.C47.tbtcInactivityStep) :
    i = j := step_slots_injective hi hj tbtc_steps_pos.2.1 (by omega)

/-- tBTC DKG approval: distinct members approve at distinct blocks provided the submitter's
    precedence period is not empty. -/
theorem approval_slots_injective {s p prec i j : Nat} (hprec : 0 < prec) (hi : 1 ≤ i) (hj : 1 ≤ j)
    (h : approvalBlock s p prec i = approvalBlock s p prec j) : i = j := by
  unfold approvalBlock at h
  split at h <;> split at h
  · omega
  · omega
  · omega
  · exact step_slots_injective hi hj tbtc_steps_pos.2.2 (by omega)

/-- Non-vacuity of `hprec`: with an empty precedence period member 1 collides with the submitter. -/
theorem approval_collision_without_precedence :
    approvalBlock 2 100 0 1 = approvalBlock 2 100 0 2 := by decide

/-! ## Arithmetic width

The Go code converts the `uint8` member index to `uint64` *before* multiplying:
`uint64(memberIndex-1) * step`.  The model computes in `Nat`; these theorems make the width part of
the model: for every `uint8` index the `uint64` product of the code equals the `Nat` product, while
the same product taken in `uint8` (converting after multiplying) would wrap. -/

/-- `uint64(idx-1) * step` as the hardware computes it -/
def stepOffsetU64 (idx step : Nat) : Nat := ((idx - 1) % 2 ^ 64 * (step % 2 ^ 64)) % 2 ^ 64

/-- the same product taken in `uint8` (`group.MemberIndex`) arithmetic -/
def stepOffsetU8 (idx step : Nat) : Nat := ((idx - 1) % 256 * (step % 256)) % 256

/-- no wrap in `uint64` for any `uint8` member index and any step below `2^56` -/
theorem stepOffset_no_uint64_wrap {idx step : Nat} (hi : idx ≤ 255) (hs : step < 2 ^ 56) :
    stepOffsetU64 idx step = stepOffset idx step := by
  unfold stepOffsetU64 stepOffset
  have h1 : (idx - 1) % 2 ^ 64 = idx - 1 := Nat.mod_eq_of_lt (by omega)
  have h2 : step % 2 ^ 64 = step := Nat.mod_eq_of_lt (by omega)
  rw [h1, h2]
  apply Nat.mod_eq_of_lt
  calc (idx - 1) * step ≤ 254 * step := Nat.mul_le_mul_right _ (by omega)
    _ < 2 ^ 64 := by omega

/-- …in particular for the three step constants extracted from the source -/
theorem tbtc_delays_no_uint64_wrap {idx : Nat} (hi : idx ≤ 255) :
    stepOffsetU64 idx Gen.C47.tbtcDkgSubmissionStep = stepOffset idx Gen.C47.tbtcDkgSubmissionStep ∧
    stepOffsetU64 idx Gen.C47.tbtcDkgApprovalStep = stepOffset idx Gen.C47.tbtcDkgApprovalStep ∧
    stepOffsetU64 idx Gen.C47.tbtcInactivityStep = stepOffset idx Gen.C47.tbtcInactivityStep :=
  ⟨stepOffset_no_uint64_wrap hi (by decide), stepOffset_no_uint64_wrap hi (by decide),
   stepOffset_no_uint64_wrap hi (by decide)⟩

/-- the `uint8` product WOULD wrap: member 19's approval delay (18·15 = 270) becomes 14, earlier
    than member 2's; member 87's submission delay (86·3 = 258) becomes 2. -/
theorem uint8_product_would_wrap :
    stepOffsetU8 19 Gen.C47.tbtcDkgApprovalStep = 14 ∧
    stepOffset 19 Gen.C47.tbtcDkgApprovalStep = 270 ∧
    stepOffsetU8 19 Gen.C47.tbtcDkgApprovalStep < stepOffsetU8 2 Gen.C47.tbtcDkgApprovalStep ∧
    stepOffsetU8 87 Gen.C47.tbtcDkgSubmissionStep = 2 ∧
    stepOffset 87 Gen.C47.tbtcDkgSubmissionStep = 258 := by decide

/-! ## Early exit -/

/-- `submitRelayEntry`, for **every** history: a submission happens only when the member's slot
    occurrence is delivered, and only if no competing-submission event and no timeout was
    delivered before it (⇒ never before the slot, never after observing someone else's
    submission). -/
theorem relay_submits_only_at_undisturbed_slot (sf : Bool) (ip : Option Bool) (occs : List Occ)
    (subs : List Nat) :
    ∀ b ∈ (relayLoop sf ip occs subs).1, b ∈ subs ∨
      ∃ pre post, occs = pre ++ (b, Kind.slot) :: post ∧ ∀ o ∈ pre, o.2 = Kind.slot := by
  induction occs generalizing subs with
  | nil => intro b hb; exact Or.inl (by simpa [relayLoop] using hb)
  | cons o rest ih =>
    obtain ⟨blk, k⟩ := o
    intro b hb
    cases k with
    | event => exact Or.inl (by simpa [relayLoop] using hb)
    | timeout => exact Or.inl (by simpa [relayLoop] using hb)
    | slot =>
      have key : b ∈ subs ∨ b = blk ∨ ∃ pre post, rest = pre ++ (b, Kind.slot) :: post ∧
          ∀ o ∈ pre, o.2 = Kind.slot := by
        unfold relayLoop at hb
        split at hb
        · split at hb <;> simp at hb <;> rcases hb with h | h <;> simp [h]
        · rcases ih (subs ++ [blk]) b hb with h | h
          · simp at h; rcases h with h | h <;> simp [h]
          · exact Or.inr (Or.inr h)
      rcases key with h | h | ⟨pre, post, hr, hp⟩
      · exact Or.inl h
      · subst h; exact Or.inr ⟨[], rest, rfl, by simp⟩
      · refine Or.inr ⟨(blk, Kind.slot) :: pre, post, by simp [hr], ?_⟩
        intro o ho
        simp at ho
        rcases ho with rfl | ho
        · rfl
        · exact hp o ho

/-- beacon `SubmitDKGResult`: the result is submitted only if the slot is the first occurrence
    delivered; a submission event delivered first ends the member without submitting. -/
theorem bdkg_event_first_no_submit (e : Nat) (rest : List Occ) :
    (bdkgLoop ((e, Kind.event) :: rest)).1 = [] := rfl

theorem bdkg_submits_only_own_slot (occs : List Occ) :
    ∀ b ∈ (bdkgLoop occs).1, ∃ pre post, occs = pre ++ (b, Kind.slot) :: post ∧
      ∀ o ∈ pre, o.2 = Kind.timeout := by
  induction occs with
  | nil => intro b hb; simp [bdkgLoop] at hb
  | cons o rest ih =>
    obtain ⟨blk, k⟩ := o
    intro b hb
    cases k with
    | event => simp [bdkgLoop] at hb
    | slot =>
      simp [bdkgLoop] at hb; subst hb
      exact ⟨[], rest, rfl, by simp⟩
    | timeout =>
      obtain ⟨pre, post, hr, hp⟩ := ih b (by simpa [bdkgLoop] using hb)
      refine ⟨(blk, Kind.timeout) :: pre, post, by simp [hr], ?_⟩
      intro o ho
      simp at ho
      rcases ho with rfl | ho
      · rfl
      · exact hp o ho

/-- tBTC submitters: a cancelled context (someone else's result was observed) or a failed wait
    never leads to a submission; otherwise the submission is at the member's own slot. -/
theorem tbtc_no_submit_unless_reached (stepBlocks cur idx : Nat) (w : Wait) :
    (tbtcTail stepBlocks cur w idx).subs =
      if w = .reached then [cur + stepOffset idx stepBlocks] else [] := by
  cases w <;> rfl

theorem tdkg_no_submit_when_not_awaiting (q cur nsigs st idx : Nat) (w : Wait)
    (h : st ≠ Gen.C47.awaitingResultState) :
    (tdkgMember q cur nsigs (some st) w idx).subs = [] ∧
    (tdkgMember q cur nsigs (some st) w idx).await = none := by
  unfold tdkgMember
  split
  · exact ⟨rfl, rfl⟩
  · simp [h]

theorem tinact_no_submit_when_nonce_moved (hon cur nsigs nonce cn idx : Nat) (w : Wait)
    (h : cn > nonce) :
    (tinactMember hon cur nsigs nonce cn w idx).subs = [] ∧
    (tinactMember hon cur nsigs nonce cn w idx).await = none := by
  unfold tinactMember
  split
  · exact ⟨rfl, rfl⟩
  · first | exact ⟨rfl, rfl⟩ | simp [h]

/-! ## The monitor accepts every group run of the model -/

theorem relay_member_subs (sf : Bool) (ip : Option Bool) (s T : Nat) (ev : Option Nat)
    (tie : List Kind) :
    (relayLoop sf ip (relayOccs s T ev tie) []).1 = [] ∨
    ((relayLoop sf ip (relayOccs s T ev tie) []).1 = [s] ∧ stopB tie s T ev = false) := by
  cases ev with
  | none =>
    simp only [relayOccs, evOcc, sortOccs, List.append_nil, List.foldr, insertOcc]
    split
    · right
      refine ⟨?_, ?_⟩
      · cases sf <;> rcases ip with _ | _ | _ <;> simp [relayLoop]
      · simp only [stopB, evStop, before, Bool.or_eq_true, Bool.and_eq_true, decide_eq_true_eq,
          Bool.or_false, Bool.or_eq_false_iff, Bool.and_eq_false_iff, decide_eq_false_iff_not] at *
        omega
    · left; simp [relayLoop]
  | some e =>
    simp only [relayOccs, evOcc, sortOccs, List.foldr, insertOcc, List.cons_append, List.nil_append]
    split <;> simp only [insertOcc] <;> split <;> (try split) <;>
      first
      | (left; cases sf <;> rcases ip with _ | _ | _ <;> simp [relayLoop]; done)
      | (right
         refine ⟨?_, ?_⟩
         · cases sf <;> rcases ip with _ | _ | _ <;> simp [relayLoop]
         · simp only [stopB, evStop, before, Bool.or_eq_true, Bool.and_eq_true, decide_eq_true_eq,
             Bool.or_eq_false_iff, Bool.and_eq_false_iff, decide_eq_false_iff_not] at *
           omega)

theorem members_nodup_map (n : Nat) (f : Nat → Nat)
    (hinj : ∀ i j, 1 ≤ i → i ≤ n → 1 ≤ j → j ≤ n → f i = f j → i = j) :
    ((members n).map f).Nodup := by
  unfold members
  rw [List.Nodup, List.pairwise_map]
  have h := List.nodup_range' (s := 1) (n := n) (step := 1)
  refine List.Pairwise.imp_of_mem ?_ h
  intro a b ha hb hab hf
  rw [List.mem_range'_1] at ha hb
  exact hab (hinj a b (by omega) (by omega) (by omega) (by omega) hf)

theorem mem_members {n i : Nat} : i ∈ members n ↔ 1 ≤ i ∧ i ≤ n := by
  unfold members; rw [List.mem_range'_1]; omega

/-- monitor soundness, relay entry: the monitor accepts every group run of the model — all group
    sizes, steps, entries, start blocks, competing events, tie orders and chain failures. -/
theorem relay_holds_model (n step entry start : Nat) (ev : Option Nat) (tie : List Kind)
    (sf : Bool) (ip : Option Bool) (hs : 0 < step) :
    holds (relayRule n step entry start ev tie) (relayGroup n step entry start ev tie sf ip) = true := by
  unfold holds
  rw [Bool.and_eq_true]
  constructor
  · rw [decide_eq_true_eq]
    have : (relayGroup n step entry start ev tie sf ip).filterMap (·.await) =
        (members n).map (fun idx => start + relayOffset idx n entry step) := by
      unfold relayGroup
      rw [List.filterMap_map]
      induction members n with
      | nil => rfl
      | cons a l ih => simp [relayMember, ih]
    rw [this]
    apply members_nodup_map
    intro i j hi1 hin hj1 hjn h
    exact relay_slots_injective (entry := entry) hi1 hin hj1 hjn hs (by omega)
  · rw [List.all_eq_true]
    intro m hm
    unfold relayGroup at hm
    obtain ⟨idx, hidx, rfl⟩ := List.mem_map.1 hm
    obtain ⟨h1, hn⟩ := mem_members.1 hidx
    have hlt := relay_slots_before_timeout (idx := idx) (n := n) (entry := entry) h1 hn hs
    have hsub := relay_member_subs sf ip (start + relayOffset idx n entry step) (start + n * step) ev tie
    simp only [relayMember, relayRule] at *
    rcases hsub with h | ⟨h, hst⟩
    · simp [h, hlt]
    · simp [h, hlt, hst]

theorem bdkg_member_subs (s : Nat) (ev : Option Nat) (tie : List Kind) :
    (bdkgLoop (sortOccs tie ([(s, Kind.slot)] ++ evOcc ev))).1 = [] ∨
    ((bdkgLoop (sortOccs tie ([(s, Kind.slot)] ++ evOcc ev))).1 = [s] ∧ evStop tie s ev = false) := by
  cases ev with
  | none => right; exact ⟨rfl, rfl⟩
  | some e =>
    simp only [evOcc, sortOccs, List.foldr, insertOcc, List.cons_append, List.nil_append]
    split
    · right
      refine ⟨rfl, ?_⟩
      simp only [evStop, before, Bool.or_eq_true, Bool.and_eq_true, decide_eq_true_eq,
        Bool.or_eq_false_iff, Bool.and_eq_false_iff, decide_eq_false_iff_not] at *
      omega
    · left; rfl

/-- generic: a group whose members all skipped the wait satisfies any rule -/
theorem holds_all_skipped (r : Rule) (ms : List Mem) (h : ∀ m ∈ ms, m.await = none ∧ m.subs = []) :
    holds r ms = true := by
  unfold holds
  rw [Bool.and_eq_true]
  constructor
  · rw [decide_eq_true_eq]
    have : ms.filterMap (·.await) = [] := by
      induction ms with
      | nil => rfl
      | cons a l ih =>
        have ha := (h a (by simp)).1
        simp [List.filterMap_cons, ha, ih (fun m hm => h m (by simp [hm]))]
    rw [this]; exact List.nodup_nil
  · rw [List.all_eq_true]
    intro m hm
    obtain ⟨h1, h2⟩ := h m hm
    simp [h1, h2]

theorem bdkg_holds_model (n honest step start nsigs : Nat) (reg : Option Bool) (ev : Option Nat)
    (tie : List Kind) (hs : 0 < step) :
    holds (bdkgRule step start reg ev tie) (bdkgGroup n honest step start nsigs reg ev tie) = true := by
  by_cases hsig : nsigs < honest + (n - honest) / 2
  · apply holds_all_skipped
    intro m hm
    obtain ⟨idx, -, rfl⟩ := List.mem_map.1 hm
    simp [bdkgMember, hsig]
  · rcases reg with _ | _ | _
    · apply holds_all_skipped
      intro m hm
      obtain ⟨idx, -, rfl⟩ := List.mem_map.1 hm
      simp [bdkgMember, hsig]
    · -- not yet registered: everybody waits for its slot
      unfold holds
      rw [Bool.and_eq_true]
      constructor
      · rw [decide_eq_true_eq]
        have : (bdkgGroup n honest step start nsigs (some false) ev tie).filterMap (·.await) =
            (members n).map (fun idx => start + stepOffset idx step) := by
          unfold bdkgGroup
          rw [List.filterMap_map]
          induction members n with
          | nil => rfl
          | cons a l ih => simp [bdkgMember, hsig, ih]
        rw [this]
        apply members_nodup_map
        intro i j hi1 _ hj1 _ h
        exact step_slots_injective hi1 hj1 hs (by omega)
      · rw [List.all_eq_true]
        intro m hm
        obtain ⟨idx, hidx, rfl⟩ := List.mem_map.1 hm
        have hsub := bdkg_member_subs (start + stepOffset idx step) ev tie
        simp only [List.cons_append, List.nil_append] at hsub
        simp only [bdkgMember, hsig, if_false, bdkgRule, List.cons_append, List.nil_append]
        rcases hsub with h | ⟨h, hst⟩
        · simp [h]
        · simp only [evStop] at hst
          simp [h]
          exact hst
    · apply holds_all_skipped
      intro m hm
      obtain ⟨idx, -, rfl⟩ := List.mem_map.1 hm
      simp [bdkgMember, hsig]

theorem tbtc_tail_group_holds (stepBlocks cur : Nat) (w : Wait) (n : Nat) (hs : 0 < stepBlocks)
    (ms : List Mem) (hms : ms = (members n).map (tbtcTail stepBlocks cur w)) :
    holds (tbtcRule stepBlocks cur false w) ms = true := by
  subst hms
  unfold holds
  rw [Bool.and_eq_true]
  constructor
  · rw [decide_eq_true_eq]
    have : ((members n).map (tbtcTail stepBlocks cur w)).filterMap (·.await) =
        (members n).map (fun idx => cur + stepOffset idx stepBlocks) := by
      rw [List.filterMap_map]
      induction members n with
      | nil => rfl
      | cons a l ih => cases w <;> simp_all [tbtcTail]
    rw [this]
    apply members_nodup_map
    intro i j hi1 _ hj1 _ h
    exact step_slots_injective hi1 hj1 hs (by omega)
  · rw [List.all_eq_true]
    intro m hm
    obtain ⟨idx, -, rfl⟩ := List.mem_map.1 hm
    cases w <;> simp [tbtcTail, tbtcRule]

theorem tdkg_holds_model (n quorum cur nsigs : Nat) (state : Option Nat) (w : Wait) :
    holds (tdkgRule cur state w) (tdkgGroup n quorum cur nsigs state w) = true := by
  by_cases hsig : nsigs < quorum
  · apply holds_all_skipped
    intro m hm
    obtain ⟨idx, -, rfl⟩ := List.mem_map.1 hm
    simp [tdkgMember, hsig]
  · cases state with
    | none =>
      apply holds_all_skipped
      intro m hm
      obtain ⟨idx, -, rfl⟩ := List.mem_map.1 hm
      simp [tdkgMember, hsig]
    | some st =>
      by_cases hst : st = Gen.C47.awaitingResultState
      · subst hst
        have : tdkgRule cur (some Gen.C47.awaitingResultState) w = tbtcRule Gen.C47.tbtcDkgSubmissionStep cur false w := by
          simp [tdkgRule]
        rw [this]
        apply tbtc_tail_group_holds Gen.C47.tbtcDkgSubmissionStep cur w n tbtc_steps_pos.1
        unfold tdkgGroup
        apply List.map_congr_left
        intro idx _
        simp [tdkgMember, hsig]
      · apply holds_all_skipped
        intro m hm
        obtain ⟨idx, -, rfl⟩ := List.mem_map.1 hm
        simp [tdkgMember, hsig, hst]

theorem tinact_holds_model (n honest cur nsigs nonce cn : Nat) (w : Wait) :
    holds (tinactRule cur nonce cn w) (tinactGroup n honest cur nsigs nonce cn w) = true := by
  by_cases hsig : nsigs < honest
  · apply holds_all_skipped
    intro m hm
    obtain ⟨idx, -, rfl⟩ := List.mem_map.1 hm
    simp [tinactMember, hsig]
  · by_cases hn : cn > nonce
    · apply holds_all_skipped
      intro m hm
      obtain ⟨idx, -, rfl⟩ := List.mem_map.1 hm
      simp [tinactMember, hsig, hn]
    · have : tinactRule cur nonce cn w = tbtcRule Gen.C47.tbtcInactivityStep cur false w := by
        simp [tinactRule, hn]
      rw [this]
      apply tbtc_tail_group_holds Gen.C47.tbtcInactivityStep cur w n tbtc_steps_pos.2.1
      unfold tinactGroup
      apply List.map_congr_left
      intro idx _
      simp [tinactMember, hsig, hn]

/-! ## tBTC DKG result approval, driven through `executeDkgValidation` -/

theorem insertNat_perm (a : Nat) (l : List Nat) : (insertNat a l).Perm (a :: l) := by
  induction l with
  | nil => exact List.Perm.refl _
  | cons b rest ih =>
    unfold insertNat
    split
    · exact List.Perm.refl _
    · exact (List.Perm.cons b ih).trans (List.Perm.swap a b rest)

theorem sortNat_perm (l : List Nat) : (sortNat l).Perm l := by
  induction l with
  | nil => exact List.Perm.refl _
  | cons a rest ih =>
    show (insertNat a (sortNat rest)).Perm (a :: rest)
    exact (insertNat_perm a _).trans (List.Perm.cons a ih)

/-- the approval blocks of the seats one operator controls are pairwise distinct
    (non-empty precedence period), for every seat set, submitter and period lengths -/
theorem appr_awaits_nodup (submitter p prec : Nat) (seats : List Nat) (hprec : 0 < prec)
    (hs : ∀ s ∈ seats, 1 ≤ s) (hnd : seats.Nodup) :
    (apprAwaits submitter p prec seats).Nodup := by
  unfold apprAwaits
  rw [(sortNat_perm _).nodup_iff, List.Nodup, List.pairwise_map]
  refine List.Pairwise.imp_of_mem ?_ hnd
  intro a b ha hb hab h
  exact hab (approval_slots_injective hprec (hs a ha) (hs b hb) h)

/-- monitor soundness for the approval scheduling: every run of the model is accepted. -/
theorem appr_holds_model (submitter sub chal prec : Nat) (seats : List Nat) (tie : List Kind)
    (ev : Option Nat) (hprec : 0 < prec) (hs : ∀ s ∈ seats, 1 ≤ s) (hnd : seats.Nodup) :
    holdsAppr submitter (precedenceStart sub chal) prec seats tie ev
      (apprAwaits submitter (precedenceStart sub chal) prec seats)
      (apprApprovals tie ev (apprAwaits submitter (precedenceStart sub chal) prec seats)) = true := by
  have hnodup := appr_awaits_nodup submitter (precedenceStart sub chal) prec seats hprec hs hnd
  have hperm := sortNat_perm (seats.map (approvalBlock submitter (precedenceStart sub chal) prec))
  unfold holdsAppr
  simp only [Bool.and_eq_true, decide_eq_true_eq, List.all_eq_true, Bool.or_eq_true]
  refine ⟨⟨⟨⟨⟨rfl, hnodup⟩, ?_⟩, ?_⟩, ?_⟩, ?_⟩
  · unfold apprAwaits; rw [hperm.length_eq, List.length_map]
  · intro w hw
    unfold apprAwaits at hw
    obtain ⟨s, -, rfl⟩ := List.mem_map.1 (hperm.mem_iff.1 hw)
    unfold approvalBlock
    split
    · exact Or.inl rfl
    · exact Or.inr (by omega)
  · exact hnodup.sublist (List.filter_sublist)
  · intro a ha
    unfold apprApprovals at ha
    obtain ⟨h1, h2⟩ := List.mem_filter.1 ha
    simp [h1]
    simpa using h2

example : apprAwaits 2 100 20 [3, 1, 2] = [100, 120, 150] := by decide
example : holdsAppr 2 100 20 [3, 1, 2] [.slot, .event] (some 120) [100, 120, 150] [100, 120] = true := by decide
/-- rejected: approval after someone else's approval was observed; two seats on one block -/
example : holdsAppr 2 100 20 [3, 1, 2] [.slot, .event] (some 110) [100, 120, 150] [100, 120] = false := by decide
example : holdsAppr 2 100 20 [3, 1] [.slot, .event] none [100, 100] [100] = false := by decide

/-! ## Non-vacuity / monitor examples -/

example : (relayGroup 3 3 9 100 none [.slot, .event, .timeout] false (some true)).map (·.await)
    = [some 100, some 103, some 106] := by decide
example : holds (relayRule 3 3 9 100 (some 103) [.event, .slot, .timeout])
    (relayGroup 3 3 9 100 (some 103) [.event, .slot, .timeout] false (some true)) = true := by decide
/-- the monitor rejects the unchanged tree's behaviour (member 3 waits for the timeout block)… -/
example : holds (relayRule 3 3 9 100 none [.slot, .event, .timeout])
    [⟨1, some 103, [103], .timeout⟩, ⟨2, some 106, [106], .timeout⟩, ⟨3, some 109, [109], .timeout⟩]
    = false := by decide
/-- …a shared slot, and a submission after the competing event was observed. -/
example : holds (relayRule 2 3 0 100 none [.slot, .event, .timeout])
    [⟨1, some 100, [100], .timeout⟩, ⟨2, some 100, [100], .timeout⟩] = false := by decide
example : holds (relayRule 2 3 0 100 (some 101) [.slot, .event, .timeout])
    [⟨1, some 100, [100], .nil⟩, ⟨2, some 103, [103], .nil⟩] = false := by decide

end KeepVerif.C47
