import KeepVerif.Model.C37
import KeepVerif.Gen.C37
/-!
# C37 — Each distinct chain event is handled exactly once, even under concurrency

Theorems over `Model/C37.lean`.  "Within the caching period" is the hypothesis `Within t0 span now`
on every clock reading: all readings lie in one window `[t0, t0 + span]`.
-/
namespace KeepVerif.C37

def Within (t0 span now : Nat) : Prop := t0 ≤ now ∧ now ≤ t0 + span

def keys (es : Entries) : List Key := es.map (·.1)

/-! ## TimeCache facts -/

theorem has_iff (es : Entries) (k : Key) : has es k = true ↔ k ∈ keys es := by
  simp [has, keys, List.any_eq_true]

/-- Nothing that was added inside the window is swept inside the window. -/
theorem sweep_noop (span now t0 : Nat) (es : Entries) (hw : Within t0 span now)
    (hes : ∀ e ∈ es, t0 ≤ e.2) : sweep span now es = es := by
  unfold sweep
  cases es with
  | nil => rfl
  | cons e rest =>
    have := hes e (by simp)
    have hn : ¬ (now - e.2 > span) := by unfold Within at hw; omega
    simp [List.dropWhile, hn]

theorem add_within (span now t0 : Nat) (es : Entries) (k : Key) (hw : Within t0 span now)
    (hes : ∀ e ∈ es, t0 ≤ e.2) :
    add span now es k = (!has es k, if has es k then es else es ++ [(k, now)]) := by
  unfold add
  rw [sweep_noop span now t0 es hw hes]
  cases has es k <;> simp

theorem Dedup.set_self (d : Dedup) (c : CacheId) : d.set c (d c) = d := by
  funext c'; unfold Dedup.set; split <;> simp_all

/-- Sequentially the two ways of writing `notify` are the same function (always, also outside
    the window): the defect of the old code is purely a concurrency defect. -/
theorem checkThenAdd_eq_addGate_sequential (span now : Nat) (d : Dedup) (c : CacheId) (k : Key) :
    notifyCheckThenAdd span now d c k = notify span now d c k := by
  unfold notifyCheckThenAdd notify add
  cases h : has (sweep span now (d c)) k <;> simp [h]

/-! ## Sequential histories -/

private theorem runSeq_spec (span t0 : Nat) (hs : List (Nat × CacheId × Key))
    (hw : ∀ h ∈ hs, Within t0 span h.1) (d : Dedup) (seen : List (CacheId × Key))
    (hT : ∀ c, ∀ e ∈ d c, t0 ≤ e.2)
    (hS : ∀ c k, (c, k) ∈ seen ↔ k ∈ keys (d c)) :
    runSeq span d hs = firstOccFrom seen (hs.map (·.2)) := by
  induction hs generalizing d seen with
  | nil => simp [runSeq, firstOccFrom]
  | cons h rest ih =>
    obtain ⟨now, c, k⟩ := h
    have hwn : Within t0 span now := hw (now, c, k) (by simp)
    have hsw : sweep span now (d c) = d c := sweep_noop span now t0 (d c) hwn (hT c)
    have hadd := add_within span now t0 (d c) k hwn (hT c)
    simp only [runSeq, notify, List.map_cons, firstOccFrom, hsw, hadd]
    congr 1
    · have := hS c k
      have h2 := has_iff (d c) k
      cases hh : has (d c) k <;> simp_all
    · apply ih
      · intro h hh; exact hw h (by simp [hh])
      · intro c' e he
        unfold Dedup.set at he
        split at he
        · subst_vars
          split at he
          · exact hT _ e he
          · simp only [List.mem_append, List.mem_singleton] at he
            rcases he with he | he
            · exact hT _ e he
            · subst he; exact hwn.1
        · exact hT c' e he
      · intro c' k'
        have h2 := has_iff (d c) k
        have h3 := hS c' k'
        have h4 := hS c k
        unfold Dedup.set
        by_cases hc : c' = c
        · subst hc
          simp only [if_true, List.mem_cons, Prod.mk.injEq, true_and]
          cases hh : has (d c') k
          · simp [keys] at *; grind
          · simp [keys] at *; grind
        · simp [hc, h3]

/-- **sequential_once**: in a sequential history whose clock readings all lie within one caching
    period, a delivery is told to proceed iff its `(cache, key)` did not occur earlier in the
    history: each key is accepted exactly once.  (Both ways of writing `notify`, by
    `checkThenAdd_eq_addGate_sequential`.) -/
theorem sequential_once (span t0 : Nat) (hs : List (Nat × CacheId × Key))
    (hw : ∀ h ∈ hs, Within t0 span h.1) :
    runSeq span Dedup.empty hs = firstOcc (hs.map (·.2)) :=
  runSeq_spec span t0 hs hw Dedup.empty [] (by simp [Dedup.empty]) (by simp [Dedup.empty, keys])

/-! ## Cache keys -/

/-- value of a lower-case hex digit (anything else: 0) -/
def hexVal (c : Char) : Nat :=
  if '0' ≤ c ∧ c ≤ '9' then c.toNat - '0'.toNat
  else if 'a' ≤ c ∧ c ≤ 'f' then c.toNat - 'a'.toNat + 10 else 0

theorem hexVal_digitChar : ∀ n, n < 16 → hexVal (Nat.digitChar n) = n
  | 0 | 1 | 2 | 3 | 4 | 5 | 6 | 7 | 8 | 9 | 10 | 11 | 12 | 13 | 14 | 15 => fun _ => by decide
  | _ + 16 => fun h => by omega

theorem digitChar_ne_sep : ∀ n, n < 16 → Nat.digitChar n ≠ sep
  | 0 | 1 | 2 | 3 | 4 | 5 | 6 | 7 | 8 | 9 | 10 | 11 | 12 | 13 | 14 | 15 => fun _ => by decide
  | _ + 16 => fun h => by omega

theorem digitChar_inj16 {a b : Nat} (ha : a < 16) (hb : b < 16)
    (h : Nat.digitChar a = Nat.digitChar b) : a = b := by
  rw [← hexVal_digitChar a ha, ← hexVal_digitChar b hb, h]

def ofHex (l : List Char) (init : Nat) : Nat := l.foldl (fun acc c => 16 * acc + hexVal c) init

theorem ofHex_hexNat (n : Nat) : ofHex (hexNat n) 0 = n := by
  unfold hexNat
  induction n using Nat.base_induction 16 (by decide) with
  | single m hm => simp [Nat.toDigits_of_lt_base hm, ofHex, hexVal_digitChar m hm]
  | digit m k hk hm ih =>
    rw [← Nat.toDigits_append_toDigits (by decide) hm hk, Nat.toDigits_of_lt_base hk]
    unfold ofHex at *
    rw [List.foldl_append, ih]
    simp [hexVal_digitChar k hk]

/-- `big.Int.Text(16)` is injective on non-negative values: the seed-only keys never collide. -/
theorem hexNat_injective {a b : Nat} (h : hexNat a = hexNat b) : a = b := by
  rw [← ofHex_hexNat a, ← ofHex_hexNat b, h]

theorem decNat_injective {a b : Nat} (h : decNat a = decNat b) : a = b := by
  have ha := @Nat.ofDigitChars_ten_toDigits a
  have hb := @Nat.ofDigitChars_ten_toDigits b
  unfold decNat at h
  rw [← ha, ← hb, h]

theorem sep_not_mem_hexNat (n : Nat) : sep ∉ hexNat n := by
  unfold hexNat
  induction n using Nat.base_induction 16 (by decide) with
  | single m hm =>
    simp only [Nat.toDigits_of_lt_base hm, List.mem_singleton]
    exact fun h => digitChar_ne_sep m hm h.symm
  | digit m k hk hm ih =>
    rw [← Nat.toDigits_append_toDigits (by decide) hm hk, Nat.toDigits_of_lt_base hk]
    simp only [List.mem_append, List.mem_singleton, not_or]
    exact ⟨ih, fun h => digitChar_ne_sep k hk h.symm⟩

theorem sep_not_mem_hexBytes (h : List UInt8) : sep ∉ hexBytes h := by
  induction h with
  | nil => simp [hexBytes]
  | cons b bs ih =>
    have hb : b.toNat < 256 := b.toNat_lt
    simp only [hexBytes, List.mem_cons, not_or]
    exact ⟨fun h => digitChar_ne_sep _ (by omega) h.symm,
           fun h => digitChar_ne_sep _ (by omega) h.symm, ih⟩

/-- `hex.EncodeToString` is injective: the wallet-id keys never collide. -/
theorem hexBytes_injective : ∀ {a b : List UInt8}, hexBytes a = hexBytes b → a = b
  | [], [], _ => rfl
  | [], _ :: _, h => by simp [hexBytes] at h
  | _ :: _, [], h => by simp [hexBytes] at h
  | x :: xs, y :: ys, h => by
    simp only [hexBytes, List.cons.injEq] at h
    obtain ⟨h1, h2, h3⟩ := h
    have hx : x.toNat < 256 := x.toNat_lt
    have hy : y.toNat < 256 := y.toNat_lt
    have e1 := digitChar_inj16 (by omega) (by omega) h1
    have e2 := digitChar_inj16 (by omega) (by omega) h2
    have : x = y := UInt8.toNat_inj.mp (by omega)
    rw [this, hexBytes_injective h3]

/-- a separator that occurs in neither prefix splits uniquely -/
theorem split_at_sep {s : Char} : ∀ {a a' r r' : List Char}, s ∉ a → s ∉ a' →
    a ++ s :: r = a' ++ s :: r' → a = a' ∧ r = r'
  | [], [], _, _, _, _, h => by simpa using h
  | [], x :: xs, _, _, _, h', h => by
    simp only [List.nil_append, List.cons_append, List.cons.injEq] at h
    exact absurd h.1 (by intro e; subst e; simp at h')
  | x :: xs, [], _, _, h', _, h => by
    simp only [List.nil_append, List.cons_append, List.cons.injEq] at h
    exact absurd h.1.symm (by intro e; subst e; simp at h')
  | x :: xs, y :: ys, r, r', ha, ha', h => by
    simp only [List.cons_append, List.cons.injEq] at h
    simp only [List.mem_cons, not_or] at ha ha'
    obtain ⟨e1, e2⟩ := split_at_sep ha.2 ha'.2 h.2
    exact ⟨by rw [h.1, e1], e2⟩

/-- **key_injective_sep**: the result key as it is now (parts joined by `:`) determines the seed,
    the hash and the block.  For all seeds, byte strings and blocks. -/
theorem key_injective_sep {s s' : Nat} {h h' : List UInt8} {b b' : Nat}
    (e : resultKey s h b = resultKey s' h' b') : s = s' ∧ h = h' ∧ b = b' := by
  unfold resultKey at e
  obtain ⟨e1, e2⟩ := split_at_sep (sep_not_mem_hexNat s) (sep_not_mem_hexNat s') e
  obtain ⟨e3, e4⟩ := split_at_sep (sep_not_mem_hexBytes h) (sep_not_mem_hexBytes h') e2
  exact ⟨hexNat_injective e1, hexBytes_injective e3, decNat_injective e4⟩

/-- **key_collision**: the separator-less key used before the repair is *not* injective:
    `(0xa, 11…11, 57)` and `(0xa1, 1…15, 7)` are different events with the same key. -/
theorem key_collision :
    concatKey 0xa (List.replicate 32 0x11) 57
      = concatKey 0xa1 (List.replicate 31 0x11 ++ [0x15]) 7 ∧
    Event.resultSubmitted 0xa (List.replicate 32 0x11) 57
      ≠ Event.resultSubmitted 0xa1 (List.replicate 31 0x11 ++ [0x15]) 7 := by
  decide

/-- Two events are given the same cache and the same key only if they are the same event. -/
theorem event_key_injective {e e' : Event}
    (h : (cacheOf e, cacheKey e) = (cacheOf e', cacheKey e')) : e = e' := by
  cases e <;> cases e' <;> simp [cacheOf, cacheKey] at h
  · rw [hexNat_injective h]
  · obtain ⟨a, b, c⟩ := key_injective_sep h; subst a b c; rfl
  · rw [hexBytes_injective h]
  · rw [hexNat_injective h]

/-! ## Monitor tie -/

theorem firstOccFrom_map {α β} [DecidableEq α] [DecidableEq β] (f : α → β)
    (hf : ∀ a b, f a = f b → a = b) (seen xs : List α) :
    firstOccFrom (seen.map f) (xs.map f) = firstOccFrom seen xs := by
  induction xs generalizing seen with
  | nil => rfl
  | cons x xs ih =>
    simp only [List.map_cons, firstOccFrom]
    have := ih (x :: seen)
    simp only [List.map_cons] at this
    rw [this]
    congr 2
    simp only [List.mem_map, decide_eq_decide]
    constructor
    · rintro ⟨a, ha, e⟩; rw [← hf a x e]; exact ha
    · intro h; exact ⟨x, h, rfl⟩

/-- **model_first_occurrences**: on every sequential history of events (any seeds, hashes,
    blocks, wallet ids; clock inside the period) the model tells a delivery to proceed iff it is
    the first delivery of that *event*. -/
theorem model_first_occurrences (span now : Nat) (evs : List Event) :
    model span now evs = firstOcc evs := by
  unfold model
  rw [sequential_once span now _ (by
    intro h hh
    simp only [List.mem_map] at hh
    obtain ⟨e, _, rfl⟩ := hh
    exact ⟨Nat.le_refl _, Nat.le_add_right _ _⟩)]
  simp only [List.map_map]
  exact firstOccFrom_map (fun e => (cacheOf e, cacheKey e)) (fun a b => event_key_injective) [] evs

/-- The monitor accepts every output of the model (correspondence + this ⇒ the property holds on
    what the implementation returned). -/
theorem holdsSeq_model (span now : Nat) (evs : List Event) :
    holdsSeq evs (model span now evs) = true := by
  simp [holdsSeq, model_first_occurrences]

example : model 10 0 [.dkgStarted 10, .beaconDkgStarted 10, .dkgStarted 10,
    .resultSubmitted 0xa (List.replicate 32 0x11) 57,
    .resultSubmitted 0xa1 (List.replicate 31 0x11 ++ [0x15]) 7]
    = [true, true, false, true, true] := by decide
example : holdsSeq [.dkgStarted 1, .dkgStarted 1] [true, true] = false := by decide

/-! ## Expiry: histories with a moving (monotone) clock -/

theorem mem_sweep_of_live (span now : Nat) (es : Entries) (x : Key × Nat) (hx : x ∈ es)
    (hl : ¬ now - x.2 > span) : x ∈ sweep span now es := by
  unfold sweep
  induction es with
  | nil => cases hx
  | cons h t ih =>
    simp only [List.dropWhile_cons]
    split
    · rename_i hp
      simp only [List.mem_cons] at hx
      rcases hx with rfl | hx
      · simp at hp; exact absurd hp hl
      · exact ih hx
    · exact hx

theorem sweep_sublist (span now : Nat) (es : Entries) : (sweep span now es).Sublist es :=
  List.dropWhile_sublist _

theorem live_of_mem_sweep (span now : Nat) (es : Entries)
    (hs : es.Pairwise (fun a b => a.2 ≤ b.2)) (x : Key × Nat) (hx : x ∈ sweep span now es) :
    now - x.2 ≤ span := by
  unfold sweep at hx
  induction es with
  | nil => simp at hx
  | cons h t ih =>
    simp only [List.dropWhile_cons] at hx
    have hs' := List.pairwise_cons.1 hs
    split at hx
    · exact ih hs'.2 hx
    · rename_i hp
      simp only [decide_eq_true_eq] at hp
      simp only [List.mem_cons] at hx
      rcases hx with rfl | hx
      · omega
      · have := hs'.1 x hx; omega

theorem sweep_idem (span now : Nat) (es : Entries) :
    sweep span now (sweep span now es) = sweep span now es := by
  unfold sweep
  induction es with
  | nil => rfl
  | cons h t ih =>
    simp only [List.dropWhile_cons]
    split
    · exact ih
    · rename_i hp; simp [hp]

/-- invariant of one cache at clock `now` -/
structure CInv (now : Nat) (es : Entries) : Prop where
  sorted : es.Pairwise (fun a b => a.2 ≤ b.2)
  le_now : ∀ e ∈ es, e.2 ≤ now
  nodup : (keys es).Nodup

theorem CInv.sweep {now : Nat} {es : Entries} (span : Nat) (h : CInv now es) :
    CInv now (sweep span now es) :=
  ⟨h.sorted.sublist (sweep_sublist _ _ _),
   fun e he => h.le_now e ((sweep_sublist _ _ _).subset he),
   h.nodup.sublist ((sweep_sublist _ _ _).map _)⟩

/-- invariant tying the caches to the specification's record of handled events -/
structure TInv (span now : Nat) (d : Dedup) (acc : List (Event × Nat)) : Prop where
  cinv : ∀ c, CInv now (d c)
  fromCache : ∀ c k t, (k, t) ∈ d c → ∃ e, cacheOf e = c ∧ cacheKey e = k ∧ (e, t) ∈ acc
  fromAcc : ∀ e t, (e, t) ∈ acc → (cacheKey e, t) ∈ d (cacheOf e) ∨ now - t > span

theorem mem_keys_iff (es : Entries) (k : Key) : k ∈ keys es ↔ ∃ t, (k, t) ∈ es := by
  simp [keys]

private theorem runItems_spec (span : Nat) (items : List Item) (now : Nat) (d : Dedup)
    (acc : List (Event × Nat)) (hI : TInv span now d acc) :
    runItems span now d items = specItems span now acc items := by
  induction items generalizing now d acc with
  | nil => rfl
  | cons it rest ih =>
    cases it with
    | adv s =>
      simp only [runItems, specItems]
      apply ih
      refine ⟨fun c => ⟨(hI.cinv c).sorted, fun e he => ?_, (hI.cinv c).nodup⟩, hI.fromCache, ?_⟩
      · have := (hI.cinv c).le_now e he; omega
      · intro e t h
        rcases hI.fromAcc e t h with h | h
        · exact Or.inl h
        · exact Or.inr (by omega)
    | ev e =>
      simp only [runItems, specItems, notify]
      have hc := hI.cinv (cacheOf e)
      have hc' := hc.sweep span
      -- the membership test agrees with the specification's "handled within the period"
      have hblk : has (sweep span now (d (cacheOf e))) (cacheKey e) =
          acc.any (fun p => p.1 == e && decide (now - p.2 ≤ span)) := by
        rw [Bool.eq_iff_iff, has_iff, mem_keys_iff, List.any_eq_true]
        constructor
        · rintro ⟨t, ht⟩
          have hlive := live_of_mem_sweep span now _ hc.sorted _ ht
          obtain ⟨e', h1, h2, h3⟩ := hI.fromCache _ _ _ ((sweep_sublist _ _ _).subset ht)
          have : e' = e := event_key_injective (by rw [h1, h2])
          subst this
          exact ⟨(e', t), h3, by simp [hlive]⟩
        · rintro ⟨⟨e', t⟩, hm, hp⟩
          simp only [Bool.and_eq_true, beq_iff_eq, decide_eq_true_eq] at hp
          obtain ⟨rfl, hlive⟩ := hp
          rcases hI.fromAcc _ _ hm with h | h
          · exact ⟨t, mem_sweep_of_live span now _ _ h (by simpa using hlive)⟩
          · omega
      unfold add
      rw [sweep_idem, hblk]
      cases hb : acc.any (fun p => p.1 == e && decide (now - p.2 ≤ span))
      · -- not blocked: handled, recorded
        simp only [Bool.false_eq_true, if_false, Bool.not_false]
        congr 1
        apply ih
        have hnotin : cacheKey e ∉ keys (sweep span now (d (cacheOf e))) := by
          intro h; have := (has_iff _ _).2 h; rw [hblk, hb] at this; cases this
        refine ⟨fun c => ?_, ?_, ?_⟩
        · by_cases hcc : c = cacheOf e
          · subst hcc
            simp only [Dedup.set, if_true]
            refine ⟨?_, ?_, ?_⟩
            · rw [List.pairwise_append]
              refine ⟨hc'.sorted, by simp, ?_⟩
              intro a ha b hb'
              simp only [List.mem_singleton] at hb'
              subst hb'
              exact hc'.le_now a ha
            · intro x hx
              simp only [List.mem_append, List.mem_singleton] at hx
              rcases hx with hx | rfl
              · exact hc'.le_now x hx
              · exact Nat.le_refl _
            · simp only [keys, List.map_append, List.map_cons, List.map_nil]
              rw [List.nodup_append]
              refine ⟨hc'.nodup, by simp, ?_⟩
              intro a ha b hb'
              simp only [List.mem_singleton] at hb'
              subst hb'
              intro eab; subst eab; exact hnotin ha
          · simp only [Dedup.set, hcc, if_false]; exact hI.cinv c
        · intro c k t hm
          by_cases hcc : c = cacheOf e
          · subst hcc
            simp only [Dedup.set, if_true, List.mem_append, List.mem_singleton, Prod.mk.injEq] at hm
            rcases hm with hm | ⟨rfl, rfl⟩
            · obtain ⟨e', a, b, c'⟩ := hI.fromCache _ _ _ ((sweep_sublist _ _ _).subset hm)
              exact ⟨e', a, b, by simp [c']⟩
            · exact ⟨e, rfl, rfl, by simp⟩
          · simp only [Dedup.set, hcc, if_false] at hm
            obtain ⟨e', a, b, c'⟩ := hI.fromCache _ _ _ hm
            exact ⟨e', a, b, by simp [c']⟩
        · intro e' t hm
          simp only [List.mem_cons, Prod.mk.injEq] at hm
          rcases hm with ⟨rfl, rfl⟩ | hm
          · left; simp [Dedup.set]
          · rcases hI.fromAcc e' t hm with h | h
            · by_cases hcc : cacheOf e' = cacheOf e
              · by_cases hex : now - t > span
                · exact Or.inr hex
                · left
                  simp only [Dedup.set, hcc, if_true, List.mem_append]
                  left
                  rw [hcc] at h
                  exact mem_sweep_of_live span now _ _ h hex
              · left; simp only [Dedup.set, hcc, if_false]; exact h
            · exact Or.inr h
      · -- blocked: dropped as a duplicate, only the sweep happened
        simp only [if_true, Bool.not_true]
        congr 1
        apply ih
        refine ⟨fun c => ?_, ?_, ?_⟩
        · by_cases hcc : c = cacheOf e
          · subst hcc; simp only [Dedup.set, if_true]; exact hc'
          · simp only [Dedup.set, hcc, if_false]; exact hI.cinv c
        · intro c k t hm
          by_cases hcc : c = cacheOf e
          · subst hcc
            simp only [Dedup.set, if_true] at hm
            exact hI.fromCache _ _ _ ((sweep_sublist _ _ _).subset hm)
          · simp only [Dedup.set, hcc, if_false] at hm
            exact hI.fromCache _ _ _ hm
        · intro e' t hm
          rcases hI.fromAcc e' t hm with h | h
          · by_cases hcc : cacheOf e' = cacheOf e
            · by_cases hex : now - t > span
              · exact Or.inr hex
              · left
                simp only [Dedup.set, hcc, if_true]
                rw [hcc] at h
                exact mem_sweep_of_live span now _ _ h hex
            · left; simp only [Dedup.set, hcc, if_false]; exact h
          · exact Or.inr h

/-- **handled_once_per_period**: for every history of deliveries and clock advances (monotone
    clock, any seeds / hashes / blocks / wallet ids, any period) on fresh deduplicators, a delivery
    is told to proceed iff no delivery of the same *event* was told to proceed within the last
    `span` seconds: never twice within the caching period, and again after it. -/
theorem handled_once_per_period (span now : Nat) (items : List Item) :
    runItems span now Dedup.empty items = specItems span now [] items :=
  runItems_spec span items now Dedup.empty []
    ⟨fun _ => ⟨by simp [Dedup.empty], by simp [Dedup.empty], by simp [Dedup.empty, keys]⟩,
     by simp [Dedup.empty], by simp⟩

/-- the timed monitor accepts every output of the timed model -/
theorem holdsItems_model (span : Nat) (items : List Item) :
    holdsItems span items (runItems span 0 Dedup.empty items) = true := by
  simp [holdsItems, handled_once_per_period]

example : runItems 604800 0 Dedup.empty
    [.ev (.dkgStarted 1), .adv 604000, .ev (.dkgStarted 1), .adv 1000, .ev (.dkgStarted 1),
     .ev (.dkgStarted 1)] = [true, false, true, false] := by decide

/-! ## Concurrent deliveries: all schedules -/

/-- invariant of the `addGate` semantics inside one caching window -/
structure Inv (t0 : Nat) (cid : Nat → CacheId) (key : Nat → Key) (s : State) : Prop where
  times : ∀ c, ∀ e ∈ s.d c, t0 ≤ e.2
  noChecked : ∀ i h, s.pc i ≠ .checked h
  doneIn : ∀ i r, s.pc i = .done r → key i ∈ keys (s.d (cid i))
  owner : ∀ c k, k ∈ keys (s.d c) → ∃ j, cid j = c ∧ key j = k ∧ s.pc j = .done true
  unique : ∀ i j, i ≠ j → cid i = cid j → key i = key j →
    s.pc i = .done true → s.pc j = .done true → False

theorem inv_init (t0 cid key) : Inv t0 cid key init := by
  refine ⟨?_, ?_, ?_, ?_, ?_⟩ <;> simp [init, Dedup.empty, keys]

theorem inv_step (span t0 : Nat) (cid : Nat → CacheId) (key : Nat → Key) (s : State)
    (i now : Nat) (hw : Within t0 span now) (hI : Inv t0 cid key s) :
    Inv t0 cid key (step .addGate span cid key s i now) := by
  obtain ⟨hT, hC, hD, hO, hU⟩ := hI
  unfold step
  cases hp : s.pc i with
  | start =>
    simp only
    rw [sweep_noop span now t0 _ hw (hT _), Dedup.set_self]
    refine ⟨hT, ?_, ?_, ?_, ?_⟩
    · intro j h; by_cases hj : j = i <;> simp [hj, hC]
    · intro j r; by_cases hj : j = i <;> simp [hj]; exact hD j r
    · intro c k hk
      obtain ⟨j, a, b, c'⟩ := hO c k hk
      refine ⟨j, a, b, ?_⟩
      have : j ≠ i := by intro e; subst e; simp [hp] at c'
      simp [this, c']
    · intro a b hab h1 h2
      by_cases ha : a = i <;> by_cases hb : b = i <;> simp [ha, hb]
      exact hU a b hab h1 h2
  | swept =>
    simp only
    rw [add_within span now t0 _ _ hw (hT _)]
    cases hh : has (s.d (cid i)) (key i) with
    | true =>
      have hin := (has_iff _ _).1 hh
      simp only [Bool.not_true, if_true, Dedup.set_self]
      refine ⟨hT, ?_, ?_, ?_, ?_⟩
      · intro j h; by_cases hj : j = i <;> simp [hj, hC]
      · intro j r; by_cases hj : j = i
        · subst hj; simp [hin]
        · simp [hj]; exact hD j r
      · intro c k hk
        obtain ⟨j, a, b, c'⟩ := hO c k hk
        refine ⟨j, a, b, ?_⟩
        have : j ≠ i := by intro e; subst e; simp [hp] at c'
        simp [this, c']
      · intro a b hab h1 h2
        by_cases ha : a = i <;> by_cases hb : b = i <;> simp [ha, hb]
        exact hU a b hab h1 h2
    | false =>
      have hnin : key i ∉ keys (s.d (cid i)) := fun h => by
        have := (has_iff _ _).2 h; simp [hh] at this
      simp only [Bool.not_false, Bool.false_eq_true, if_false]
      have hkeys : ∀ c k, k ∈ keys (Dedup.set s.d (cid i) (s.d (cid i) ++ [(key i, now)]) c) ↔
          (k ∈ keys (s.d c) ∨ (c = cid i ∧ k = key i)) := by
        intro c k
        unfold Dedup.set
        by_cases hc : c = cid i
        · subst hc; simp [keys]
        · simp [hc]
      refine ⟨?_, ?_, ?_, ?_, ?_⟩
      · intro c e he
        by_cases hc : c = cid i
        · subst hc
          simp only [Dedup.set, if_true, List.mem_append, List.mem_singleton] at he
          rcases he with he | he
          · exact hT _ e he
          · subst he; exact hw.1
        · simp only [Dedup.set, hc, if_false] at he
          exact hT c e he
      · intro j h; by_cases hj : j = i <;> simp [hj, hC]
      · intro j r
        by_cases hj : j = i
        · subst hj; intro _; exact (hkeys _ _).2 (Or.inr ⟨rfl, rfl⟩)
        · simp only [hj, if_false]; intro h; exact (hkeys _ _).2 (Or.inl (hD j r h))
      · intro c k hk
        rcases (hkeys c k).1 hk with h | ⟨rfl, rfl⟩
        · obtain ⟨j, a, b, c'⟩ := hO c k h
          refine ⟨j, a, b, ?_⟩
          have : j ≠ i := by intro e; subst e; simp [hp] at c'
          simp [this, c']
        · exact ⟨i, rfl, rfl, by simp⟩
      · intro a b hab h1 h2
        by_cases ha : a = i <;> by_cases hb : b = i
        · subst ha hb; exact fun _ _ => hab rfl
        · subst ha; simp only [hb, if_false, if_true]
          intro _ hb'
          exact hnin (by rw [h1, h2]; exact hD b true hb')
        · subst hb; simp only [ha, if_false, if_true]
          intro ha' _
          exact hnin (by rw [← h1, ← h2]; exact hD a true ha')
        · simp only [ha, hb, if_false]; exact hU a b hab h1 h2
  | checked h => exact absurd hp (hC i h)
  | done r => exact ⟨hT, hC, hD, hO, hU⟩

theorem inv_run (span t0 : Nat) (cid : Nat → CacheId) (key : Nat → Key) (s : State)
    (sched : List (Nat × Nat)) (hw : ∀ p ∈ sched, Within t0 span p.2) (hI : Inv t0 cid key s) :
    Inv t0 cid key (run .addGate span cid key s sched) := by
  induction sched generalizing s with
  | nil => exact hI
  | cons p rest ih =>
    obtain ⟨i, now⟩ := p
    exact ih _ (fun q hq => hw q (by simp [hq]))
      (inv_step span t0 cid key s i now (hw (i, now) (by simp)) hI)

/-- **addGate_concurrent_at_most_once**: the code as it is now (answer = result of the atomic
    `Add`).  Any number of threads, any assignment of events to threads, any schedule of their
    atomic actions with clock readings inside one caching window: two different threads
    delivering the same `(cache, key)` are never both told to proceed. -/
theorem addGate_concurrent_at_most_once (span t0 : Nat) (cid : Nat → CacheId) (key : Nat → Key)
    (sched : List (Nat × Nat)) (hw : ∀ p ∈ sched, Within t0 span p.2) (i j : Nat) (hij : i ≠ j)
    (hc : cid i = cid j) (hk : key i = key j) :
    ¬ ((run .addGate span cid key init sched).pc i = .done true ∧
       (run .addGate span cid key init sched).pc j = .done true) := fun h =>
  (inv_run span t0 cid key init sched hw (inv_init t0 cid key)).unique i j hij hc hk h.1 h.2

/-- **addGate_concurrent_at_least_once**: …and whenever a delivery has returned (with either
    answer), some delivery of the same `(cache, key)` has been told to proceed — so each key is
    handled exactly once, under every schedule. -/
theorem addGate_concurrent_at_least_once (span t0 : Nat) (cid : Nat → CacheId) (key : Nat → Key)
    (sched : List (Nat × Nat)) (hw : ∀ p ∈ sched, Within t0 span p.2) (i : Nat) (r : Bool)
    (hd : (run .addGate span cid key init sched).pc i = .done r) :
    ∃ j, cid j = cid i ∧ key j = key i ∧
      (run .addGate span cid key init sched).pc j = .done true := by
  have hI := inv_run span t0 cid key init sched hw (inv_init t0 cid key)
  exact hI.owner _ _ (hI.doneIn i r hd)

/-- Progress: a thread scheduled twice has returned (so the hypotheses above are satisfiable
    for every thread). -/
theorem addGate_two_steps_done (span : Nat) (cid : Nat → CacheId) (key : Nat → Key) (s : State)
    (i n1 n2 : Nat) (h : s.pc i = .start) :
    ∃ r, (step .addGate span cid key (step .addGate span cid key s i n1) i n2).pc i = .done r := by
  simp [step, h]

/-- **checkThenAdd_double**: the code before the repair (`Has` and `Add` as two atomic steps):
    two threads deliver the same seed, the schedule interleaves them step by step, and *both* are
    told to proceed. -/
theorem checkThenAdd_double :
    let s := run .checkThenAdd 100 (fun _ => .tbtcSeed) (fun _ => ['a']) init
      [(0, 0), (1, 0), (0, 0), (1, 0), (0, 0), (1, 0)]
    s.pc 0 = .done true ∧ s.pc 1 = .done true := by
  decide

/-- the same schedule under the repaired code: exactly one proceeds (non-vacuity). -/
example :
    let s := run .addGate 100 (fun _ => .tbtcSeed) (fun _ => ['a']) init
      [(0, 0), (1, 0), (0, 0), (1, 0)]
    s.pc 0 = .done true ∧ s.pc 1 = .done false := by
  decide

/-! ## Source ties (T1): facts re-extracted from the Go sources on every run -/

/-- which semantics the source has: every notify function returns the result of one
    `<cache>.Add(cacheKey)` call and never calls `Has` (go/ast facts) ⇒ `addGate`. -/
def semOfCode : Sem :=
  if Gen.C37.gateTbtcDkgStarted && Gen.C37.gateTbtcResultSubmitted &&
     Gen.C37.gateTbtcWalletClosed && Gen.C37.gateBeaconDkgStarted then .addGate else .checkThenAdd

theorem tie_gate_on_add : semOfCode = .addGate := by decide

/-- the operands of the key expression in `notifyDKGResultSubmitted`, in order: the three parts
    of `resultKey` with the separator `sep` between them. -/
theorem tie_result_key_parts :
    Gen.C37.resultKeyParts =
      ["newDKGResultSeed.Text", String.singleton sep, "hex.EncodeToString", String.singleton sep,
       "strconv.FormatUint"] := by decide

/-- all four caches use the same positive period (the model has one `span`). -/
theorem tie_periods : Gen.C37.cachePeriodsEqual = true ∧ 0 < Gen.C37.cachePeriodSeconds := by
  decide

/-- **code_concurrent_exactly_once**: the concurrency theorems for the semantics the source
    actually has (`semOfCode`, selected by the extracted facts). -/
theorem code_concurrent_exactly_once (span t0 : Nat) (cid : Nat → CacheId) (key : Nat → Key)
    (sched : List (Nat × Nat)) (hw : ∀ p ∈ sched, Within t0 span p.2) :
    let s := run semOfCode span cid key init sched
    (∀ i j, i ≠ j → cid i = cid j → key i = key j →
        ¬ (s.pc i = .done true ∧ s.pc j = .done true)) ∧
    (∀ i r, s.pc i = .done r → ∃ j, cid j = cid i ∧ key j = key i ∧ s.pc j = .done true) := by
  rw [tie_gate_on_add]
  exact ⟨fun i j => addGate_concurrent_at_most_once span t0 cid key sched hw i j,
         fun i r => addGate_concurrent_at_least_once span t0 cid key sched hw i r⟩

end KeepVerif.C37
