import KeepVerif.Model.C35Loop
import KeepVerif.Props.C35
/-!
# C35 / C36 — the signing retry loop around the done check (`loop` op)

Theorems over `Model/C35Loop.lean` for every script (wallet size, thresholds, ready lists, own
results, done messages of any attempt number / end block / signature) and every member selection
function `sel`.
-/
namespace KeepVerif.C35Loop
open KeepVerif

/-- what it means that the loop's result was decided by attempt `k` (script entry `a`) -/
structure Decided (cs : Consts) (c : Case) (sel : Selection) (k : Nat) (a : Attempt)
    (msgs : List C35.Msg) (sig eb : Nat) : Prop where
  enoughReady : c.t ≤ a.ready.length
  msgsEq : attemptMsgs c k a (sel k a.ready) = some msgs
  success : (C35.scenario .fixed (attemptParams cs c sel k a) msgs []).1 = .success sig eb

/-- structure of a successful run: some scripted attempt `k0 + j` decided it -/
theorem runFrom_ok (cs : Consts) (c : Case) (sel : Selection) (as : List Attempt) (k0 : Nat)
    (ls : List Listen) (sig eb tb : Nat) (act inact : List Nat)
    (h : runFrom cs c sel k0 as = (ls, .ok sig eb tb act inact)) :
    ∃ j a msgs, as[j]? = some a ∧ Decided cs c sel (k0 + j) a msgs sig eb ∧
      tb = protoTimeout cs c (k0 + j) ∧ act = a.ready ∧ inact = unready c a.ready ∧
      ls.getLast? = some ⟨k0 + j, sel (k0 + j) a.ready, protoTimeout cs c (k0 + j)⟩ := by
  induction as generalizing k0 ls with
  | nil => simp [runFrom] at h
  | cons a rest ih =>
    unfold runFrom at h
    have shift : ∀ ls', runFrom cs c sel (k0 + 1) rest = (ls', .ok sig eb tb act inact) →
        ∃ j a' msgs, (a :: rest)[j]? = some a' ∧ Decided cs c sel (k0 + j) a' msgs sig eb ∧
          tb = protoTimeout cs c (k0 + j) ∧ act = a'.ready ∧ inact = unready c a'.ready ∧
          ls'.getLast? = some ⟨k0 + j, sel (k0 + j) a'.ready, protoTimeout cs c (k0 + j)⟩ := by
      intro ls' h'
      obtain ⟨j, a', msgs, e1, e2, e3, e4, e5, e6⟩ := ih (k0 + 1) ls' h'
      refine ⟨j + 1, a', msgs, by simpa using e1, ?_, ?_, e4, e5, ?_⟩
      · rw [show k0 + (j + 1) = k0 + 1 + j by omega]; exact e2
      · rw [show k0 + (j + 1) = k0 + 1 + j by omega]; exact e3
      · rw [show k0 + (j + 1) = k0 + 1 + j by omega]; exact e6
    split at h
    · exact shift ls h
    · rename_i hready
      cases hm : attemptMsgs c k0 a (sel k0 a.ready) with
      | none =>
        simp only [hm] at h
        obtain ⟨j, a', msgs, e1, e2, e3, e4, e5, e6⟩ :=
          shift (runFrom cs c sel (k0 + 1) rest).1 (by
            have := congrArg Prod.snd h; simp only at this
            exact Prod.ext rfl this)
        refine ⟨j, a', msgs, e1, e2, e3, e4, e5, ?_⟩
        have hl := congrArg Prod.fst h; simp only at hl
        rw [← hl, List.getLast?_cons_of_ne_nil ?_]
        · exact e6
        · intro hnil; rw [hnil] at e6; simp at e6
      | some msgs =>
        simp only [hm] at h
        cases hs : (C35.scenario .fixed (attemptParams cs c sel k0 a) msgs []).1 with
        | success sg e =>
          simp only [hs, Prod.mk.injEq, Result.ok.injEq] at h
          obtain ⟨hl, rfl, rfl, rfl, rfl, rfl⟩ := h
          exact ⟨0, a, msgs, rfl, ⟨by omega, hm, hs⟩, rfl, rfl, rfl, by rw [← hl]; rfl⟩
        | timeout =>
          simp only [hs] at h
          obtain ⟨j, a', msgs', e1, e2, e3, e4, e5, e6⟩ :=
            shift (runFrom cs c sel (k0 + 1) rest).1 (by
              have := congrArg Prod.snd h; simp only at this
              exact Prod.ext rfl this)
          refine ⟨j, a', msgs', e1, e2, e3, e4, e5, ?_⟩
          have hl := congrArg Prod.fst h; simp only at hl
          rw [← hl, List.getLast?_cons_of_ne_nil ?_]
          · exact e6
          · intro hnil; rw [hnil] at e6; simp at e6
        | mismatch =>
          simp only [hs] at h
          obtain ⟨j, a', msgs', e1, e2, e3, e4, e5, e6⟩ :=
            shift (runFrom cs c sel (k0 + 1) rest).1 (by
              have := congrArg Prod.snd h; simp only at this
              exact Prod.ext rfl this)
          refine ⟨j, a', msgs', e1, e2, e3, e4, e5, ?_⟩
          have hl := congrArg Prod.fst h; simp only at hl
          rw [← hl, List.getLast?_cons_of_ne_nil ?_]
          · exact e6
          · intro hnil; rw [hnil] at e6; simp at e6

/-- a done message the script of attempt `k` delivers: one of the scripted others, or this
    member's own message sent through `signalDone` -/
def Scripted (c : Case) (k : Nat) (a : Attempt) (m : C35.Msg) : Prop :=
  m ∈ a.others.map otherMsg ∨ ∃ e s, a.own = some (e, s) ∧ m = ⟨c.self, c.self, msgConst, k, s, e⟩

theorem scripted_of_mem (c : Case) (k : Nat) (a : Attempt) (inc : List Nat) (msgs : List C35.Msg)
    (h : attemptMsgs c k a inc = some msgs) (m : C35.Msg) (hm : m ∈ msgs) : Scripted c k a m := by
  unfold attemptMsgs at h
  split at h
  · cases ho : a.own with
    | none => simp [ho] at h
    | some p =>
      obtain ⟨e, s⟩ := p
      simp only [ho, Option.some.injEq] at h
      subst h
      simp only [List.mem_append, List.mem_singleton] at hm
      rcases hm with hm | hm
      · exact Or.inl hm
      · exact Or.inr ⟨e, s, ho, hm⟩
  · simp only [Option.some.injEq] at h
    subst h
    exact Or.inl hm

/-- **loop_listen_gets_protocol_timeout**: every `listen` of the loop is for a scripted attempt
    with enough ready members and gets that attempt's number, the members selected for it and
    the attempt's PROTOCOL timeout block (announcement end + protocol blocks; not the end of the
    whole attempt window). -/
theorem loop_listen_gets_protocol_timeout (cs : Consts) (c : Case) (sel : Selection)
    (as : List Attempt) (k0 : Nat) (l : Listen) (hl : l ∈ (runFrom cs c sel k0 as).1) :
    ∃ j a, as[j]? = some a ∧ c.t ≤ a.ready.length ∧ l.k = k0 + j ∧
      l.included = sel (k0 + j) a.ready ∧ l.lt = protoTimeout cs c (k0 + j) := by
  induction as generalizing k0 with
  | nil => simp [runFrom] at hl
  | cons a rest ih =>
    have shift : l ∈ (runFrom cs c sel (k0 + 1) rest).1 →
        ∃ j a', (a :: rest)[j]? = some a' ∧ c.t ≤ a'.ready.length ∧ l.k = k0 + j ∧
          l.included = sel (k0 + j) a'.ready ∧ l.lt = protoTimeout cs c (k0 + j) := by
      intro h
      obtain ⟨j, a', e1, e2, e3, e4, e5⟩ := ih (k0 + 1) h
      exact ⟨j + 1, a', by simpa using e1, e2, by omega,
        by rw [show k0 + (j + 1) = k0 + 1 + j by omega]; exact e4,
        by rw [show k0 + (j + 1) = k0 + 1 + j by omega]; exact e5⟩
    have here : c.t ≤ a.ready.length →
        l = ⟨k0, sel k0 a.ready, protoTimeout cs c k0⟩ →
        ∃ j a', (a :: rest)[j]? = some a' ∧ c.t ≤ a'.ready.length ∧ l.k = k0 + j ∧
          l.included = sel (k0 + j) a'.ready ∧ l.lt = protoTimeout cs c (k0 + j) := by
      intro ht e; subst e; exact ⟨0, a, rfl, ht, rfl, rfl, rfl⟩
    unfold runFrom at hl
    split at hl
    · exact shift hl
    · rename_i hready
      have ht : c.t ≤ a.ready.length := by omega
      cases hm : attemptMsgs c k0 a (sel k0 a.ready) with
      | none =>
        simp only [hm, List.mem_cons] at hl
        rcases hl with e | hl
        · exact here ht e
        · exact shift hl
      | some msgs =>
        simp only [hm] at hl
        cases hs : (C35.scenario .fixed (attemptParams cs c sel k0 a) msgs []).1 with
        | success sg e =>
          simp only [hs, List.mem_singleton] at hl
          exact here ht hl
        | timeout =>
          simp only [hs, List.mem_cons] at hl
          rcases hl with e | hl
          · exact here ht e
          · exact shift hl
        | mismatch =>
          simp only [hs, List.mem_cons] at hl
          rcases hl with e | hl
          · exact here ht e
          · exact shift hl

/-- **loop_reports_only_confirmed**: for every script and every selection function, if the loop
    reports signature `sig` (end block `eb`, attempt timeout `tb`), then one scripted attempt `k`
    decided it, `tb` is its protocol timeout, and EVERY member included in attempt `k` delivered,
    during attempt `k`, a done message for attempt number `k` (not another one) with an end block
    within that protocol timeout and exactly the reported signature; `eb` is the latest of theirs. -/
theorem loop_reports_only_confirmed (cs : Consts) (c : Case) (sel : Selection)
    (ls : List Listen) (sig eb tb : Nat) (act inact : List Nat)
    (h : run cs c sel = (ls, .ok sig eb tb act inact)) :
    ∃ j a, c.attempts[j]? = some a ∧ tb = protoTimeout cs c (1 + j) ∧
      ls.getLast? = some ⟨1 + j, sel (1 + j) a.ready, protoTimeout cs c (1 + j)⟩ ∧
      (∀ i ∈ sel (1 + j) a.ready, ∃ m, Scripted c (1 + j) a m ∧ m.sender = i ∧
        m.attempt = 1 + j ∧ m.message = msgConst ∧ m.endBlock ≤ protoTimeout cs c (1 + j) ∧
        m.sig = sig ∧ sig ≠ 0 ∧ m.endBlock ≤ eb) ∧
      (sel (1 + j) a.ready ≠ [] → ∃ m, Scripted c (1 + j) a m ∧ m.sender ∈ sel (1 + j) a.ready ∧
        m.attempt = 1 + j ∧ m.sig = sig ∧ m.endBlock = eb ∧
        eb ≤ protoTimeout cs c (1 + j)) := by
  obtain ⟨j, a, msgs, e1, dec, e3, _, _, e6⟩ := runFrom_ok cs c sel c.attempts 1 ls sig eb tb act inact h
  refine ⟨j, a, e1, e3, e6, ?_, ?_⟩
  all_goals
    have hs := dec.success
    unfold C35.scenario at hs
    simp only at hs
    obtain ⟨hcov, hincl, _, hprops, hle, hatt⟩ :=
      C35.done_only_all_included (attemptParams cs c sel (1 + j) a) _ sig eb hs
    have hscr : ∀ m, C35.Ev.recv m ∈ (msgs ++ []).map C35.Ev.recv ++ [C35.Ev.tick] →
        Scripted c (1 + j) a m := by
      intro m hm
      simp only [List.append_nil, List.mem_append, List.mem_map, List.mem_singleton,
        reduceCtorEq, or_false] at hm
      obtain ⟨x, hx, e⟩ := hm
      cases e
      exact scripted_of_mem c (1 + j) a _ msgs dec.msgsEq _ hx
  · intro i hi
    obtain ⟨m, hm, e⟩ := hcov i hi
    obtain ⟨p1, _, p3, p4, p5, p6, p7⟩ := hprops m hm
    exact ⟨m, hscr m p1, e, p4, p3, p5, p6, fun z => p7 (p6.trans z), hle m hm⟩
  · intro hne
    obtain ⟨i0, hi0⟩ := List.exists_mem_of_ne_nil _ hne
    obtain ⟨m0, hm0, _⟩ := hcov i0 hi0
    obtain ⟨m, hm, e⟩ := hatt (by intro z; rw [z] at hm0; cases hm0)
    obtain ⟨p1, _, _, p4, p5, p6, _⟩ := hprops m hm
    exact ⟨m, hscr m p1, hincl m hm, p4, p6, e, by rw [← e]; exact p5⟩

/-! ## Attempts are independent -/

/-- a done message for another attempt number is never recorded -/
theorem receive_other_attempt (v : C35.Variant) (p : C35.Params) (done : C35.Done) (m : C35.Msg)
    (h : m.attempt ≠ p.attempt) : C35.receive v p done m = done := by
  unfold C35.receive C35.isValid C35.wellFormed
  have : (m.attempt == p.attempt) = false := by simpa using h
  simp [this]

theorem runWait_filter (v : C35.Variant) (p : C35.Params) (msgs : List C35.Msg)
    (tail : List C35.Ev) (done : C35.Done) :
    C35.runWait v p done (msgs.map C35.Ev.recv ++ tail) =
      C35.runWait v p done ((msgs.filter (fun m => m.attempt == p.attempt)).map C35.Ev.recv ++ tail) := by
  induction msgs generalizing done with
  | nil => rfl
  | cons m rest ih =>
    by_cases hm : m.attempt = p.attempt
    · have : (m.attempt == p.attempt) = true := by simpa using hm
      simp only [List.map_cons, List.cons_append, List.filter_cons, this, if_true, C35.runWait]
      exact ih _
    · have : (m.attempt == p.attempt) = false := by simpa using hm
      simp only [List.map_cons, List.cons_append, List.filter_cons, this, C35.runWait,
        receive_other_attempt v p done m hm]
      exact ih _

/-- drop from the script of attempt `k` every done message that carries another attempt number -/
def pruneAttempt (k : Nat) (a : Attempt) : Attempt :=
  { a with others := a.others.filter (fun o => o.attempt == k) }

def pruneFrom : Nat → List Attempt → List Attempt
  | _, [] => []
  | k, a :: rest => pruneAttempt k a :: pruneFrom (k + 1) rest

theorem scenario_prune (cs : Consts) (c : Case) (sel : Selection) (k : Nat) (a : Attempt)
    (tailMsgs : List C35.Msg) :
    C35.scenario .fixed (attemptParams cs c sel k a) (a.others.map otherMsg ++ tailMsgs) [] =
    C35.scenario .fixed (attemptParams cs c sel k (pruneAttempt k a))
      ((pruneAttempt k a).others.map otherMsg ++ tailMsgs) [] := by
  have hp : attemptParams cs c sel k (pruneAttempt k a) = attemptParams cs c sel k a := rfl
  have hf : (a.others.filter (fun o => o.attempt == k)).map otherMsg =
      (a.others.map otherMsg).filter (fun m => m.attempt == (attemptParams cs c sel k a).attempt) := by
    rw [List.filter_map]; rfl
  unfold C35.scenario
  simp only [pruneAttempt, List.append_nil, List.map_append, List.append_assoc, hf]
  rw [runWait_filter]
  rfl

/-- **loop_attempts_independent**: done messages that carry the number of another attempt —
    late confirmations of an earlier attempt, early ones of a later attempt — have no effect on
    any attempt: the whole run (every `listen`, the report) is the same as for the script from
    which they are removed.  This is what the repairs 81ec0fd / 750971a guarantee in the code:
    no listener of another attempt can record into this attempt's confirmations. -/
theorem loop_attempts_independent (cs : Consts) (c : Case) (sel : Selection) (as : List Attempt)
    (k0 : Nat) : runFrom cs c sel k0 (pruneFrom k0 as) = runFrom cs c sel k0 as := by
  induction as generalizing k0 with
  | nil => rfl
  | cons a rest ih =>
    simp only [pruneFrom, runFrom]
    rw [show (pruneAttempt k0 a).ready = a.ready from rfl, ih (k0 + 1)]
    by_cases hready : a.ready.length < c.t
    · simp only [hready, if_true]
    · simp only [hready, if_false]
      by_cases hself : (sel k0 a.ready).contains c.self = true
      · have hself' : c.self ∈ sel k0 a.ready := by simpa using hself
        cases hown : a.own with
        | none =>
          have h1 : attemptMsgs c k0 (pruneAttempt k0 a) (sel k0 a.ready) = none := by
            simp [attemptMsgs, hself', pruneAttempt, hown]
          have h2 : attemptMsgs c k0 a (sel k0 a.ready) = none := by
            simp [attemptMsgs, hself', hown]
          rw [h1, h2]
        | some p =>
          obtain ⟨e, s⟩ := p
          have h1 : attemptMsgs c k0 (pruneAttempt k0 a) (sel k0 a.ready) =
              some ((pruneAttempt k0 a).others.map otherMsg ++
                [⟨c.self, c.self, msgConst, k0, s, e⟩]) := by
            simp [attemptMsgs, hself', pruneAttempt, hown]
          have h2 : attemptMsgs c k0 a (sel k0 a.ready) =
              some (a.others.map otherMsg ++ [⟨c.self, c.self, msgConst, k0, s, e⟩]) := by
            simp [attemptMsgs, hself', hown]
          rw [h1, h2]
          simp only
          rw [← scenario_prune cs c sel k0 a [⟨c.self, c.self, msgConst, k0, s, e⟩]]
      · have hself' : c.self ∉ sel k0 a.ready := by simpa using hself
        have h1 : attemptMsgs c k0 (pruneAttempt k0 a) (sel k0 a.ready) =
            some ((pruneAttempt k0 a).others.map otherMsg) := by
          simp [attemptMsgs, hself']
        have h2 : attemptMsgs c k0 a (sel k0 a.ready) = some (a.others.map otherMsg) := by
          simp [attemptMsgs, hself']
        rw [h1, h2]
        simp only
        have := scenario_prune cs c sel k0 a []
        simp only [List.append_nil] at this
        rw [← this]

/-! ## The monitor accepts every model run -/

theorem conf_of_scripted (cs : Consts) (c : Case) (k : Nat) (a : Attempt) (sig i : Nat)
    (m : C35.Msg) (hs : Scripted c k a m) (h1 : m.sender = i) (h2 : m.attempt = k)
    (h3 : m.sig = sig) (h4 : m.endBlock ≤ protoTimeout cs c k) :
    m.endBlock ∈ confirmations cs c k a sig i := by
  unfold confirmations
  simp only [List.mem_append, List.mem_filterMap]
  rcases hs with hs | ⟨e, s, ho, rfl⟩
  · right
    simp only [List.mem_map] at hs
    obtain ⟨o, ho, rfl⟩ := hs
    simp only [otherMsg] at h1 h2 h3 h4 ⊢
    exact ⟨o, ho, by simp [h1, h2, h3, h4]⟩
  · left
    simp only at h1 h3 h4
    simp [ho, h1, h3, h4]

/-- **holdsLoop_model**: for every script and every selection function that selects a non-empty
    set of wallet members, the loop monitor accepts the model's run (so: correspondence of the
    run under the observed selection + this ⇒ the monitor predicate holds of the implementation). -/
theorem holdsLoop_model (cs : Consts) (c : Case) (sel : Selection)
    (hsel : ∀ k r, sel k r ≠ [] ∧ ∀ m ∈ sel k r, 1 ≤ m ∧ m ≤ c.n) :
    holds cs c (run cs c sel).1 (run cs c sel).2 = true := by
  unfold holds
  simp only [Bool.and_eq_true, List.all_eq_true, beq_iff_eq, decide_eq_true_eq]
  refine ⟨?_, ?_⟩
  · intro l hl
    obtain ⟨j, a, _, _, e3, e4, e5⟩ := loop_listen_gets_protocol_timeout cs c sel c.attempts 1 l hl
    refine ⟨by rw [e5, e3], ?_⟩
    intro m hm
    rw [e4] at hm
    exact (hsel _ _).2 m hm
  · cases hr : (run cs c sel).2 with
    | err => rfl
    | ok sig eb tb act inact =>
      simp only
      have hrun : run cs c sel = ((run cs c sel).1, .ok sig eb tb act inact) := Prod.ext rfl hr
      obtain ⟨j, a, msgs, e1, dec, e3, e4, e5, e6⟩ :=
        runFrom_ok cs c sel c.attempts 1 _ sig eb tb act inact hrun
      obtain ⟨j', a', e1', _, e6', hall, hany⟩ :=
        loop_reports_only_confirmed cs c sel _ sig eb tb act inact hrun
      have hj : j' = j := by
        rw [e6] at e6'
        simp only [Option.some.injEq, Listen.mk.injEq] at e6'
        omega
      subst hj
      have ha : a' = a := by rw [e1] at e1'; cases e1'; rfl
      subst ha
      rw [e6]
      simp only [Nat.add_sub_cancel_left, e1]
      have hne := (hsel (1 + j') a'.ready).1
      obtain ⟨i0, hi0⟩ := List.exists_mem_of_ne_nil _ hne
      simp only [Bool.and_eq_true, bne_iff_ne, ne_eq, beq_iff_eq, List.all_eq_true,
        List.any_eq_true, decide_eq_true_eq, List.contains_iff_mem]
      refine ⟨⟨⟨⟨⟨?_, e3⟩, ?_⟩, ?_⟩, by rw [e4]⟩, by rw [e5]⟩
      · obtain ⟨m, _, _, _, _, _, _, hz, _⟩ := hall i0 hi0
        exact hz
      · intro i hi
        obtain ⟨m, hs, h1, h2, _, h4, h5, _, h7⟩ := hall i hi
        exact ⟨m.endBlock, conf_of_scripted cs c (1 + j') a' sig i m hs h1 h2 h5 h4, h7⟩
      · obtain ⟨m, hs, hin, h2, h5, h6, h7⟩ := hany hne
        exact ⟨m.sender, hin, by
          rw [← h6]
          exact conf_of_scripted cs c (1 + j') a' sig m.sender m hs rfl h2 h5 (by rw [h6]; exact h7)⟩

/-! ## C36: what the heartbeat's inactivity claim is built from -/

theorem mem_unready (c : Case) (ready : List Nat) (m : Nat) :
    m ∈ unready c ready ↔ 1 ≤ m ∧ m ≤ c.n ∧ m ∉ ready := by
  unfold unready wallet
  simp only [List.mem_filter, List.mem_range'_1, Bool.not_eq_true', List.contains_eq_mem,
    decide_eq_false_iff_not]
  constructor
  · rintro ⟨⟨h1, h2⟩, h3⟩; exact ⟨h1, by omega, h3⟩
  · rintro ⟨h1, h2, h3⟩; exact ⟨⟨h1, by omega⟩, h3⟩

/-- **claim_names_exactly_wallet_members_not_ready**: for every script, every selection function,
    every wallet size `n` and every configured `GroupSize` (`c.gs`, which may exceed `n`): the
    activity report of a successful signing — from which `heartbeatAction.execute` takes the members
    of its inactivity claim (`C36.claim_only_on_low`: the claim carries exactly
    `activityReport.inactiveMembers`) — names as active exactly the members that announced
    readiness in the deciding attempt and as inactive exactly the members `1..n` of the WALLET that
    did not; nobody beyond the wallet size is ever named, whatever `GroupSize` is. -/
theorem claim_names_exactly_wallet_members_not_ready (cs : Consts) (c : Case) (sel : Selection)
    (ls : List Listen) (sig eb tb : Nat) (act inact : List Nat)
    (h : run cs c sel = (ls, .ok sig eb tb act inact)) :
    ∃ j a, c.attempts[j]? = some a ∧
      ls.getLast? = some ⟨1 + j, sel (1 + j) a.ready, protoTimeout cs c (1 + j)⟩ ∧
      act = a.ready ∧ ∀ m, m ∈ inact ↔ 1 ≤ m ∧ m ≤ c.n ∧ m ∉ a.ready := by
  obtain ⟨j, a, msgs, e1, _, _, e4, e5, e6⟩ := runFrom_ok cs c sel c.attempts 1 ls sig eb tb act inact h
  exact ⟨j, a, e1, e6, e4, fun m => by rw [e5]; exact mem_unready c a.ready m⟩

/-- the report does not depend on the configured group size at all -/
theorem report_independent_of_group_size (cs : Consts) (c : Case) (sel : Selection) (gs' : Nat) :
    run cs { c with gs := gs' } sel = run cs c sel := by
  have : ∀ as k, runFrom cs { c with gs := gs' } sel k as = runFrom cs c sel k as := by
    intro as
    induction as with
    | nil => intro k; rfl
    | cons a rest ih => intro k; simp only [runFrom, ih]; rfl
  exact this _ _

end KeepVerif.C35Loop
